import SgVerif.C11.Run3
/-
C11 run-level infrastructure, part 4: `step_rel` — what one accepted line does, in terms of `SRel` only.
-/
set_option linter.unusedSimpArgs false
set_option linter.unusedVariables false
namespace SgVerif.C11

def Label.subject : Label → Option Nat
  | .op a _ _ _ => some a
  | .joined a _ _ => some a
  | .exitCb a _ _ => some a
  | .finish _ => none

/-- `j` is the target of the (non-skipped) `suspend` / `resume` that the line executes -/
def TgtOf (s : Sys) (l : Label) (j : Nat) : Prop :=
  match l with
  | .op a i _ sk => ∃ o, opOf (s.acts a) i = some o ∧ Tgt o sk j
  | _ => False

theorem srel_assign (s : Sys) (a : Nat) (t : Rat) (slf tgt : Nat → Prop) : SRel t slf tgt s (s.assignHandle a) :=
  SRel.of_core (assignHandle_k s a).1 (assignHandle_core s a)

theorem settle_compose {t : Rat} {slf tgt : Nat → Prop} {s mid s' : Sys} (h1 : SRel t slf tgt s mid) (hc : mid.clock = t)
    (h : s' ∈ mid.settleL) : s'.clock = t ∧ SRel t slf tgt s s' := by
  obtain ⟨c, r⟩ := settleL_rel mid s' slf tgt h
  rw [hc] at r
  exact ⟨by rw [c, hc], h1.trans r⟩

theorem mem_flatMap_settle {o : Option Sys} {s' : Sys} (h : s' ∈ o.toList.flatMap Sys.settleL) :
    ∃ m, o = some m ∧ s' ∈ m.settleL := by
  cases o with
  | none => simp at h
  | some m => exact ⟨m, rfl, by simpa using h⟩

/-- a record update of actor `a` that leaves the `core` alone -/
theorem srel_upd_core {t : Rat} {slf tgt : Nat → Prop} (r : Sys) (a : Nat) (y : Actor) (clk : Rat) (hy : core y = core (r.acts a)) :
    SRel t slf tgt r ({ r with clock := clk, acts := upd r.acts a y } : Sys) :=
  ⟨rfl, astep_upd _ a _ (AStep.of_core hy)⟩

theorem opOf_assign (s : Sys) (a i : Nat) : opOf ((s.assignHandle a).acts a) i = opOf (s.acts a) i := by
  have := assignHandle_core s a a
  simp only [core, Prod.mk.injEq] at this
  unfold opOf; rw [this.1]

theorem step_op_timeOk (s : Sys) (a i : Nat) (t : Rat) (sk : Bool) (h : step s (.op a i t sk) ≠ []) :
    s.timeOk t = true := by
  by_cases hc : s.timeOk t = true
  · exact hc
  · exfalso; apply h; simp [step, hc]

theorem step_joined_timeOk (s : Sys) (a i : Nat) (t : Rat) (h : step s (.joined a i t) ≠ []) :
    s.timeOk t = true := by
  by_cases hc : s.timeOk t = true
  · exact hc
  · exfalso; apply h; simp [step, hc]

theorem step_exitCb_timeOk (s : Sys) (a g : Nat) (t : Rat) (h : step s (.exitCb a g t) ≠ []) :
    s.timeOk t = true := by
  by_cases hc : s.timeOk t = true
  · exact hc
  · exfalso; apply h; simp [step, hc]

/-- the clock is set and the actor's program counter advanced -/
def bumpPc (s0 : Sys) (a i : Nat) (t : Rat) : Sys :=
  { s0 with clock := t, acts := upd s0.acts a { (s0.acts a) with pc := i + 1, started := true } }
/-- end of a last slice -/
def stopAt (r : Sys) (a : Nat) (b : Bool) : Sys :=
  { r with acts := upd r.acts a { (r.acts a) with breath := b, ghost := false } }

theorem stopAt_rel {t : Rat} {slf tgt : Nat → Prop} (r : Sys) (a : Nat) (b : Bool) : SRel t slf tgt r (stopAt r a b) := by
  refine SRel.of_core rfl (fun j => ?_)
  unfold stopAt
  by_cases hj : j = a
  · subst hj; simp [upd, core]
  · simp [upd, hj]

/-- an accepted `op` line -/
theorem step_rel_op (s s' : Sys) (a i : Nat) (t : Rat) (sk : Bool) (h : s' ∈ step s (.op a i t sk)) :
    s.timeOk t = true ∧ s'.clock = t ∧ SRel t (fun j => j = a) (TgtOf s (.op a i t sk)) s s' := by
  have hto := step_op_timeOk s a i t sk (by intro e; rw [e] at h; cases h)
  refine ⟨hto, ?_⟩
  unfold step at h
  simp only [] at h
  split at h
  · cases h
  · split at h
    · cases h
    · split at h
      · cases h
      · rename_i o ho
        have r0 : SRel t (fun j => j = a) (TgtOf s (.op a i t sk)) s (s.assignHandle a) := srel_assign s a t _ _
        have r1 : SRel t (fun j => j = a) (TgtOf s (.op a i t sk)) (s.assignHandle a) (bumpPc (s.assignHandle a) a i t) :=
          ⟨rfl, astep_upd _ a _ (AStep.mk' rfl rfl rfl (Or.inl rfl) (fun hs => Or.inl ⟨hs, rfl⟩) (Or.inr rfl) id)⟩
        have r01 := r0.trans r1
        have hw : ∀ j, Tgt o sk j → TgtOf s (.op a i t sk) j := by
          intro j hj
          exact ⟨o, by rw [← opOf_assign]; exact ho, hj⟩
        have hlife : ∀ j, ((bumpPc (s.assignHandle a) a i t).acts j).life = ((s.assignHandle a).acts j).life := by
          intro j
          unfold bumpPc
          by_cases hj : j = a
          · subst hj; simp [upd]
          · simp [upd, hj]
        have hx1 : (bumpPc (s.assignHandle a) a i t).acts a =
            { ((s.assignHandle a).acts a) with pc := i + 1, started := true } := by simp [bumpPc, upd]
        have rdrop : ∀ b, SRel t (fun j => j = a) (TgtOf s (.op a i t sk)) s (stopAt (bumpPc (s.assignHandle a) a i t) a b) :=
          fun b => r01.trans (stopAt_rel _ a b)
        split at h
        · rename_i hcan
          have hal : ((s.assignHandle a).acts a).life ≠ .absent := by
            intro e
            simp [Actor.canRun, e, Life.isLive] at hcan
          split at h
          · rename_i r hr
            obtain ⟨c2, r2⟩ := applyOp_rel (s.assignHandle a) (bumpPc (s.assignHandle a) a i t) r a i t _ o sk hx1 hlife hal hr
            exact settle_compose (r01.trans (r2.weaken (fun _ h => h) hw)) (by rw [c2]; rfl) h
          · cases h
        · split at h
          · rename_i hlb
            have hal : ((s.assignHandle a).acts a).life ≠ .absent := by
              intro e
              simp [Actor.lastBreath, e] at hlb
            split at h
            · rename_i r hr
              obtain ⟨c2, r2⟩ := applyOp_rel (s.assignHandle a) (bumpPc (s.assignHandle a) a i t) r a i t _ o sk hx1 hlife hal hr
              have r012 := r01.trans (r2.weaken (fun _ h => h) hw)
              have rstop : ∀ b, SRel t (fun j => j = a) (TgtOf s (.op a i t sk)) s (stopAt r a b) :=
                fun b => r012.trans (stopAt_rel _ a b)
              have cstop : ∀ b, (stopAt r a b).clock = t := fun b => by show r.clock = t; rw [c2]; rfl
              split at h
              · rcases List.mem_append.mp h with h | h
                · exact settle_compose (rstop _) (cstop _) h
                · exact settle_compose (rdrop _) rfl h
              · exact settle_compose (rstop _) (cstop _) h
            · split at h
              · exact settle_compose (rdrop _) rfl h
              · cases h
          · cases h

end SgVerif.C11
