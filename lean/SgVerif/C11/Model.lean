/-
C11 — Actor lifecycle.  Executable model of the lifecycle layer of `simgrid::kernel::actor::ActorImpl`
(src/kernel/actor/ActorImpl.cpp: cleanup_from_self, exit, kill, kill_all, set_kill_time, join, suspend, resume,
daemonize) and of the two maestro rules of `EngineImpl::run` (daemons killed when only daemons remain; everybody
killed on deadlock), with time.

The model is a labelled transition system whose labels are the *observable lines* of a run (an actor reaches an op of
its program, a join returns, an on_exit callback runs, the run ends).  `step` decides whether the line is allowed at
that date in the current state and applies the kernel rules.  What SimGrid leaves open — the relative order of lines
that carry the same date — is left open here too; everything else (dates, who may run, callback order) is fixed.
Core-only (the driver is compiled).
-/
namespace SgVerif.C11

inductive Op where
  | sleep (d : Rat)
  | create (c : Nat)
  | kill (b : Nat)
  | killAll
  | exit
  | join (b : Nat) (timeout : Option Rat)
  | daemonize
  | killTime (b : Nat) (t : Rat)
  | suspend (b : Nat)
  | resume (b : Nat)
  | onExit (tag : Nat)
  | yield
  | log
  deriving Repr

/-- entries of `ActorImpl::on_exit` (a `std::vector<std::function<void(bool)>>`): user callbacks, and the callback that
`ActorImpl::join` appends to the *target's* list to finish the joiner's sleep activity. -/
inductive Cb where
  | tag (g : Nat)
  | joinWake (joiner : Nat) (opIdx : Nat)
  deriving Repr, DecidableEq

inductive Life where
  | absent          -- not created yet
  | live
  | dying (d : Rat) -- `wannadie` set at date `d`; its on_exit callbacks still have to run
  | dead
  deriving Repr, DecidableEq

structure Actor where
  ops : List Op := []
  life : Life := .absent
  /-- index of the next op to reach -/
  pc : Nat := 0
  /-- date at which the blocking call it is in returns (`none`: never by itself) -/
  wake : Option Rat := none
  /-- `some i`: blocked in the join of op `i` (the `J` line is still to come) -/
  inJoin : Option Nat := none
  suspended : Bool := false
  /-- date of the `suspend` that is in force: the target may still finish, at that very date, the slice it was
  scheduled for in the same scheduling round -/
  suspendedAt : Option Rat := none
  /-- killed at the date it was runnable: it may still print the lines of the slice it was scheduled for -/
  breath : Bool := false
  started : Bool := false
  /-- killed before it printed anything: it has no callback to run, except that its very first simcall (the
  registration of tag 0) may have been handled before the kill; it counts as gone -/
  ghost : Bool := false
  /-- the harness variable `handle[c]` is assigned when `add_actor` has returned in the creator, i.e. when the creator
  runs again; until then ops that target `c` are skipped by the harness -/
  handleSet : Bool := false
  /-- child whose handle this actor assigns when it runs again -/
  pendingHandle : Option Nat := none
  /-- creation rank (the pid order used by `daemons_` and `actor_list_`) -/
  pid : Nat := 0
  /-- creation date -/
  born : Rat := 0
  daemon : Bool := false
  killAt : Option Rat := none
  /-- killed by maestro (daemon rule / deadlock): those die in pid order -/
  byMaestro : Bool := false
  onExit : List Cb := []
  -- ghost
  /-- user tags registered, oldest first -/
  registered : List Nat := []
  /-- user tags whose callback ran, in the order they ran -/
  ran : List Nat := []

structure Sys where
  k : Nat
  acts : Nat → Actor
  clock : Rat
  nextPid : Nat := 1

def upd (f : Nat → Actor) (i : Nat) (x : Actor) : Nat → Actor := fun j => if j = i then x else f j

inductive Label where
  /-- actor `a` reaches op `i` of its program at date `t` (`skipped`: its target does not exist yet) -/
  | op (a i : Nat) (t : Rat) (skipped : Bool)
  /-- the join of op `i` returned -/
  | joined (a i : Nat) (t : Rat)
  /-- an on_exit callback of `a` with tag `g` ran -/
  | exitCb (a g : Nat) (t : Rat)
  | finish (t : Rat)

def Life.isLive : Life → Bool
  | .live => true
  | _ => false

def Life.gone : Life → Bool        -- `wannadie()`
  | .dying _ => true
  | .dead => true
  | _ => false

/-- may `a` produce a line at date `t`?  It is live, not suspended, and its blocking call returns exactly at `t`. -/
def Actor.canRun (x : Actor) (t : Rat) : Bool :=
  x.life.isLive && (!x.suspended || x.suspendedAt == some t) && x.wake == some t

/-- a victim killed in the scheduling round in which it was itself scheduled still runs its slice -/
def Actor.lastBreath (x : Actor) (t : Rat) : Bool :=
  x.life == .dying t && x.breath && x.wake == some t && x.ran.isEmpty

/-- dates before which something must happen: a runnable actor's wake-up, a kill timer, a dying actor's callbacks -/
def Actor.due (x : Actor) : Option Rat :=
  match x.life with
  | .dying d => if x.ghost then none else some d
  | .live =>
    let w := if x.suspended then none else x.wake
    match w, x.killAt with
    | some a, some b => some (if a ≤ b then a else b)
    | some a, none => some a
    | none, some b => some b
    | none, none => none
  | _ => none

def Sys.ids (s : Sys) : List Nat := List.range s.k

/-- no obligation is due strictly before `t` -/
def Sys.nothingDueBefore (s : Sys) (t : Rat) : Bool :=
  s.ids.all fun i => match (s.acts i).due with | some d => decide (t ≤ d) | none => true

def Sys.noObligation (s : Sys) : Bool :=
  s.ids.all fun i => (s.acts i).due.isNone

/-- when nothing can happen any more the clock still runs to the end of the sleeps of the suspended actors; then
maestro declares the deadlock -/
def Sys.deadlockDate (s : Sys) : Rat :=
  s.ids.foldl (fun m i => match (s.acts i).life, (s.acts i).wake with
    | .live, some w => if m < w then w else m
    | _, _ => m) s.clock

/-- `ActorImpl::exit()` seen from the table: `wannadie`, `suspended_ = false`, blocking activity cancelled -/
def Actor.die (x : Actor) (t : Rat) (byMaestro : Bool) : Actor :=
  match x.life with
  | .live =>
    let b := x.canRun t
    { x with life := .dying t, suspended := false, suspendedAt := none, breath := b, wake := if b then x.wake else none
             inJoin := if b then x.inJoin else none, byMaestro := byMaestro }
  | _ => x      -- `kill`: "Ignoring request to kill actor that is already dead"; absent actors do not exist

/-- `EngineImpl::run`: `if (actor_list_.size() == daemons_.size()) for (dmon : daemons_) maestro_->kill(dmon);`
(evaluated after each sub-round; `actor_list_` holds every actor that is not completely dead) -/
def Sys.daemonRule (s : Sys) : Sys :=
  let present := s.ids.filter fun i => (s.acts i).life != .absent && (s.acts i).life != .dead && !(s.acts i).ghost
  if !present.isEmpty && present.all (fun i => (s.acts i).daemon) then
    { s with acts := fun i => if i < s.k then (s.acts i).die s.clock true else s.acts i }
  else s

/-- lower pids killed by maestro that still have callbacks to run -/
def Sys.lowerMaestroPending (s : Sys) (a : Nat) : Bool :=
  s.ids.any fun i => decide ((s.acts i).pid < (s.acts a).pid) && (s.acts i).byMaestro && !(s.acts i).breath &&
    !(s.acts i).ghost && (match (s.acts i).life with | .dying _ => true | _ => false)

/-- run the hidden callbacks at the end of the list (reverse order), until the next user callback -/
def runHidden (acts : Nat → Actor) (d : Rat) : List Cb → (Nat → Actor) × List Cb
  | [] => (acts, [])
  | cbs@(c :: rest) =>
    -- `cbs` is the list reversed: head = last registered
    match c with
    | .tag _ => (acts, cbs)
    | .joinWake j i =>
      -- `if (sleep_activity->model_action_) model_action_->finish(FINISHED)`: the joiner's sleep ends now,
      -- if it is still sleeping in that very join
      let y := acts j
      let acts' := if y.life.isLive && y.inJoin == some i then upd acts j { y with wake := some d } else acts
      runHidden acts' d rest

def opOf (x : Actor) (i : Nat) : Option Op := x.ops[i]?

/-- `handle[b]` may or may not have been assigned yet: `b` was created and its creator has not printed anything since -/
def Sys.handlePending (s : Sys) (b : Nat) : Bool :=
  s.ids.any fun i => (s.acts i).pendingHandle == some b

def Cb.isHidden : Cb → Bool
  | .tag _ => false
  | .joinWake _ _ => true

/-- an actor killed before it printed anything has no user callback to run (see `Actor.ghost`): the joins waiting
for it are released at once -/
def Sys.reap (s : Sys) : Sys :=
  s.ids.foldl (fun s i =>
    let x := s.acts i
    match x.life with
    | .dying d =>
      if !x.ghost && !x.started && d == x.born then
        let r := runHidden s.acts d x.onExit.reverse
        { s with acts := upd r.1 i { (r.1 i) with ghost := true, onExit := r.2.reverse } }
      else s
    | _ => s) s

def Sys.daemonCond (s : Sys) : Bool :=
  let present := s.ids.filter fun i => (s.acts i).life != .absent && (s.acts i).life != .dead && !(s.acts i).ghost
  !present.isEmpty && present.all (fun i => (s.acts i).daemon) && present.any (fun i => (s.acts i).life.isLive)

/-- may a line carry the date `t`? nothing is overdue, and the clock does not move while the daemon rule is pending -/
def Sys.timeOk (s : Sys) (t : Rat) : Bool :=
  decide (s.clock ≤ t) && s.nothingDueBefore t && (!s.daemonCond || t == s.clock)

/-- maestro evaluates the daemon rule at the end of a scheduling round, i.e. at some point before the clock moves:
both "already applied" and "not yet" are possible after a line -/
def Sys.settleL (s : Sys) : List Sys :=
  let s := s.reap
  if s.daemonCond then [s.daemonRule.reap, s] else [s]

/-- the effect of op `o` (index `i`) issued by actor `a` at date `t`; `x1` is `a`'s record with `pc` advanced -/
def applyOp (s s1 : Sys) (a i : Nat) (t : Rat) (x1 : Actor) (o : Op) (skipped : Bool) : Option Sys :=
  let targetAbsent := fun (b : Nat) => ¬ b < s.k ∨ ¬ ((s.acts b).handleSet ∨ (¬ skipped ∧ s.handlePending b))
  match o with
  | .sleep d => if skipped then none else some { s1 with acts := upd s1.acts a { x1 with wake := some (t + d) } }
  | .create c =>
    if skipped ∨ ¬ c < s.k ∨ (s.acts c).life ≠ .absent then none else
    -- the child runs its first slice (the registration of tag 0, a simcall) before its creator runs again
    some { s1 with acts := upd (upd s1.acts a { x1 with pendingHandle := some c }) c
                             { (s1.acts c) with life := .live, wake := some t, pid := s1.nextPid, born := t
                                                onExit := [.tag 0], registered := [0]
                                                -- a new ActorImpl has no kill timer (`kill_timer_ = nullptr`)
                                                killAt := none }
                   nextPid := s1.nextPid + 1 }
  | .kill b =>
    if targetAbsent b then (if skipped then some s1 else none) else
    if skipped then none else some { s1 with acts := upd s1.acts b ((s1.acts b).die t false) }
  | .killAll =>
    if skipped then none else
    some { s1 with acts := fun j => if j < s.k ∧ j ≠ a then (s1.acts j).die t false else s1.acts j }
  | .exit => if skipped then none else some { s1 with acts := upd s1.acts a (x1.die t false) }
  | .join b timeout =>
    if targetAbsent b then (if skipped then some s1 else none) else
    if skipped then none else
    let y := s1.acts b
    if y.life.gone then
      -- `if (target->wannadie()) issuer->simcall_answer();`
      some { s1 with acts := upd s1.acts a { x1 with inJoin := some i, wake := some t } }
    else
      -- `sleep(timeout)` + `actor->on_exit->emplace_back(finish the sleep)`
      let w := match timeout with | some tau => some (t + tau) | none => none
      let acts1 := upd s1.acts a { x1 with inJoin := some i, wake := w }
      let y1 := acts1 b
      some { s1 with acts := upd acts1 b { y1 with onExit := y1.onExit ++ [.joinWake a i] } }
  | .daemonize => if skipped then none else some { s1 with acts := upd s1.acts a { x1 with daemon := true } }
  | .killTime b kt =>
    if targetAbsent b then (if skipped then some s1 else none) else
    if skipped then none else
    -- `if (kill_time <= now) return;`
    if kt ≤ t then some s1 else
    let y := s1.acts b
    some { s1 with acts := upd s1.acts b { y with killAt := some kt } }
  | .suspend b =>
    if targetAbsent b then (if skipped then some s1 else none) else
    if skipped then none else
    let y := s1.acts b
    -- `if (suspended_) return;`
    if y.suspended then some s1 else
    some { s1 with acts := upd s1.acts b { y with suspended := true, suspendedAt := some t } }
  | .resume b =>
    if targetAbsent b then (if skipped then some s1 else none) else
    if skipped then none else
    let y := s1.acts b
    -- `if (wannadie()) return; if (not suspended_) return;`
    if y.life.gone ∨ ¬ y.suspended then some s1 else
    some { s1 with acts := upd s1.acts b { y with suspended := false, suspendedAt := none
                                                  wake := y.wake.map (fun w => if w ≤ t then t else w) } }
  | .onExit g =>
    if skipped then none else
    some { s1 with acts := upd s1.acts a { x1 with onExit := x1.onExit ++ [.tag g], registered := x1.registered ++ [g] } }
  | .yield => if skipped then none else some s1
  | .log => if skipped then none else some s1

def Op.isSimcall : Op → Bool
  | .log => false
  | _ => true

/-- `cleanup_from_self`: `for (exit_fun = on_exit->crbegin(); …) (*exit_fun)(failed);` — one observable callback `g`
of actor `a` (record `x0`, already dying at `t`), preceded and followed by the hidden ones next to it. -/
def runCallback (s : Sys) (a g : Nat) (t : Rat) (x0 : Actor) : Option Sys :=
  let acts0 := upd s.acts a x0
  let r1 := runHidden acts0 t x0.onExit.reverse
  match r1.2 with
  | .tag g' :: rest =>
    if g' ≠ g then none else
    let x' := r1.1 a
    let r2 := runHidden (upd r1.1 a { x' with onExit := rest.reverse, ran := x'.ran ++ [g] }) t rest
    let x'' := r2.1 a
    some { s with clock := t
                  acts := upd r2.1 a { x'' with onExit := r2.2.reverse
                                                life := if r2.2.isEmpty then .dead else x''.life } }
  | _ => none

def Sys.assignHandle (s : Sys) (a : Nat) : Sys :=
  match (s.acts a).pendingHandle with
  | some c =>
    let acts1 := upd s.acts a { (s.acts a) with pendingHandle := none }
    { s with acts := upd acts1 c { (acts1 c) with handleSet := true } }
  | none => s

/-- all the states the line may lead to (empty: the line is not allowed) -/
def step (s : Sys) : Label → List Sys
  | .op a i t skipped =>
    if ¬ (a < s.k ∧ s.timeOk t) then [] else
    -- `handle[c] = add_actor(...)` completes when the creator runs again
    let s := s.assignHandle a
    let x := s.acts a
    if ¬ (x.pc = i ∧ x.inJoin = none) then [] else
    match opOf x i with
    | none => []
    | some o =>
      let x1 := { x with pc := i + 1, started := true }
      let s1 : Sys := { s with clock := t, acts := upd s.acts a x1 }
      if x.canRun t then
        match applyOp s s1 a i t x1 o skipped with
        | some r => r.settleL
        | none => []
      else if x.lastBreath t then
        -- the victim finishes its slice; whether its simcall is still handled depends on the order in which maestro
        -- handles the simcalls of that round (the killer's first, or the victim's first): both are allowed
        let stop := fun (r : Sys) => ({ r with acts := upd r.acts a { (r.acts a) with breath := !(o.isSimcall && !skipped), ghost := false } } : Sys)
        let dropped : Sys := stop s1
        match applyOp s s1 a i t x1 o skipped with
        | some r => if o.isSimcall then (stop r).settleL ++ dropped.settleL else (stop r).settleL
        | none => if o.isSimcall ∧ ¬ skipped then dropped.settleL else []
      else []
  | .joined a i t =>
    let x := s.acts a
    if ¬ (a < s.k ∧ s.timeOk t) then [] else
    -- (a victim killed in the round in which its join returned still prints the line)
    if ¬ ((x.canRun t ∨ x.lastBreath t) ∧ x.inJoin = some i) then [] else
    ({ s with clock := t, acts := upd s.acts a { x with inJoin := none } } : Sys).settleL
  | .exitCb a g t =>
    let x := s.acts a
    if ¬ (a < s.k ∧ s.timeOk t) then [] else
    match x.life with
    | .dying d =>
      if x.ghost then
        -- its first simcall (registration of tag 0) was handled before the kill
        if d = t ∧ g = 0 then
          ({ s with clock := t, acts := upd s.acts a { x with life := .dead, ghost := false, started := true
                                                              onExit := [], ran := [0] } } : Sys).settleL
        else []
      else if d = t ∧ ¬ (x.byMaestro ∧ ¬ x.breath ∧ s.lowerMaestroPending a) then
        (runCallback s a g t x).toList.flatMap Sys.settleL
      else []
    | .live =>
      -- the kill timer fires: `this->exit()`
      (if x.killAt = some t then (runCallback s a g t (x.die t false)).toList.flatMap Sys.settleL else []) ++
      -- its code returned
      (if x.canRun t ∧ x.pc = x.ops.length ∧ x.inJoin = none then
        let s := s.assignHandle a
        (runCallback s a g t ((s.acts a).die t false)).toList.flatMap Sys.settleL
       else []) ++
      -- deadlock: nothing can happen any more, maestro kills every remaining actor (in pid order)
      (if s.noObligation ∧ t = s.deadlockDate then
        let s1 : Sys := { s with clock := t, acts := fun i => if i < s.k then (s.acts i).die t true else s.acts i }
        if s1.lowerMaestroPending a then [] else (runCallback s1 a g t (s1.acts a)).toList.flatMap Sys.settleL
       else [])
    | _ => []
  | .finish t =>
    if t = s.clock ∧ s.ids.all (fun i => (s.acts i).life = .absent ∨ (s.acts i).life = .dead ∨ (s.acts i).ghost) then [s] else []

/-- states reachable by a sequence of lines -/
def runAll (ss : List Sys) : List Label → List Sys
  | [] => ss
  | l :: ls => runAll (ss.flatMap (fun s => step s l)) ls

/-- `k` actors with their programs; actor 0 is created from `main` at date 0 -/
def init (k : Nat) (progs : Nat → List Op) : Sys :=
  { k := k, clock := 0
    acts := fun i => { ops := progs i, life := if i = 0 then .live else .absent, wake := if i = 0 then some 0 else none
                       handleSet := i == 0, started := i == 0
                       onExit := if i = 0 then [.tag 0] else [], registered := if i = 0 then [0] else [] } }

end SgVerif.C11
