import SgVerif.C11.Lemmas
/-
C11 run-level infrastructure: executions (`Exec`), a per-actor one-step relation (`AStep`) that every building block
of `step` satisfies, and its lifting to `step` (`step_rel`).  The run-level theorems of Props.lean are derived from
`step_rel` alone.
-/
set_option linter.unusedSimpArgs false
set_option linter.unusedVariables false
namespace SgVerif.C11

/-- executions of the transition system: `s'' ∈ runAll [s] ls` -/
inductive Exec : Sys → List Label → Sys → Prop
  | nil (s : Sys) : Exec s [] s
  | cons {s s' s'' : Sys} {l : Label} {ls : List Label} : s' ∈ step s l → Exec s' ls s'' → Exec s (l :: ls) s''

theorem mem_runAll_iff (ls : List Label) : ∀ (ss : List Sys) (s'' : Sys), s'' ∈ runAll ss ls ↔ ∃ s, s ∈ ss ∧ Exec s ls s'' := by
  induction ls with
  | nil =>
    intro ss s''
    simp only [runAll]
    constructor
    · intro h; exact ⟨s'', h, Exec.nil _⟩
    · rintro ⟨s, hs, he⟩; cases he; exact hs
  | cons l ls ih =>
    intro ss s''
    simp only [runAll]
    rw [ih]
    constructor
    · rintro ⟨s', hs', he⟩
      obtain ⟨s, hs, hst⟩ := List.mem_flatMap.mp hs'
      exact ⟨s, hs, Exec.cons hst he⟩
    · rintro ⟨s, hs, he⟩
      cases he with
      | cons hst he' => exact ⟨_, List.mem_flatMap.mpr ⟨s, hs, hst⟩, he'⟩

def Label.date : Label → Rat
  | .op _ _ t _ => t
  | .joined _ _ t => t
  | .exitCb _ _ t => t
  | .finish t => t

/-- the fields the run-level theorems look at -/
def core (x : Actor) : List Op × Life × Option Rat × Bool × Option Rat × Nat × Option Nat × Bool × Nat :=
  (x.ops, x.life, x.killAt, x.suspended, x.suspendedAt, x.pc, x.inJoin, x.daemon, x.pid)

/-- what one step at date `t` may do to one actor record (`slf`: the actor is the subject of the line; `tgt`: it is the
target of the `suspend`/`resume` executed by the line) -/
structure AStep (t : Rat) (slf tgt : Prop) (x y : Actor) : Prop where
  ops : y.ops = x.ops
  l_abs : y.life = .absent → x.life = .absent
  l_live : y.life = .live → x.life = .live ∨ x.life = .absent
  l_dying : ∀ d, y.life = .dying d → x.life = .dying d ∨ (d = t ∧ (x.life = .live ∨ x.life = .absent))
  l_dead : x.life = .dead → y.life = .dead
  l_gone : ∀ d, x.life = .dying d → y.life = .dying d ∨ y.life = .dead
  kill : x.life ≠ .absent → (y.killAt = x.killAt ∨ ∃ kt, y.killAt = some kt ∧ t < kt)
  knew : x.life = .absent → y.life ≠ .absent → (y.killAt = none ∨ ∃ kt, y.killAt = some kt ∧ t < kt)
  susp : x.life = .live → y.life = .live → x.suspended = true →
    (y.suspended = true ∧ y.suspendedAt = x.suspendedAt) ∨ tgt
  prog : x.life = .live → y.life = .live → (y.pc = x.pc ∧ y.inJoin = x.inJoin) ∨ slf
  dmn : x.daemon = true → y.daemon = true
  pid : x.life ≠ .absent → y.pid = x.pid

theorem AStep.of_core {t : Rat} {slf tgt : Prop} {x y : Actor} (h : core y = core x) : AStep t slf tgt x y := by
  simp only [core, Prod.mk.injEq] at h
  obtain ⟨h1, h2, h3, h4, h5, h6, h7, h8, h9⟩ := h
  refine ⟨h1, ?_, ?_, ?_, ?_, ?_, fun _ => Or.inl h3, fun hx hy => absurd (by rw [h2]; exact hx) hy,
    fun _ _ hs => Or.inl ⟨by rw [h4]; exact hs, h5⟩, fun _ _ => Or.inl ⟨h6, h7⟩, ?_, fun _ => h9⟩
  · rw [h2]; exact id
  · rw [h2]; exact Or.inl
  · intro d; rw [h2]; exact Or.inl
  · rw [h2]; exact id
  · intro d; rw [h2]; exact Or.inl
  · rw [h8]; exact id

theorem AStep.refl (t : Rat) (slf tgt : Prop) (x : Actor) : AStep t slf tgt x x := AStep.of_core rfl

theorem AStep.weaken {t : Rat} {slf tgt slf' tgt' : Prop} {x y : Actor} (h : AStep t slf tgt x y)
    (h1 : slf → slf') (h2 : tgt → tgt') : AStep t slf' tgt' x y :=
  ⟨h.ops, h.l_abs, h.l_live, h.l_dying, h.l_dead, h.l_gone, h.kill, h.knew,
   fun a b c => (h.susp a b c).imp id h2, fun a b => (h.prog a b).imp id h1, h.dmn, h.pid⟩

theorem AStep.trans {t : Rat} {slf tgt : Prop} {x m y : Actor} (h1 : AStep t slf tgt x m) (h2 : AStep t slf tgt m y) :
    AStep t slf tgt x y := by
  have midlive : x.life = .live → y.life = .live → m.life = .live := by
    intro hx hy
    rcases h2.l_live hy with h | h
    · exact h
    · have := h1.l_abs h; rw [hx] at this; cases this
  refine ⟨by rw [h2.ops, h1.ops], fun h => h1.l_abs (h2.l_abs h), ?_, ?_, fun h => h2.l_dead (h1.l_dead h), ?_, ?_, ?_, ?_, ?_,
    fun h => h2.dmn (h1.dmn h), ?_⟩
  · intro h
    rcases h2.l_live h with h' | h'
    · exact h1.l_live h'
    · exact Or.inr (h1.l_abs h')
  · intro d h
    rcases h2.l_dying d h with h' | ⟨hd, h'⟩
    · exact h1.l_dying d h'
    · right
      refine ⟨hd, ?_⟩
      rcases h' with h' | h'
      · exact h1.l_live h'
      · exact Or.inr (h1.l_abs h')
  · intro d h
    rcases h1.l_gone d h with h' | h'
    · exact h2.l_gone d h'
    · exact Or.inr (h2.l_dead h')
  · intro hx
    have hm : m.life ≠ .absent := fun e => hx (h1.l_abs e)
    rcases h2.kill hm with k2 | ⟨kt, k2, hk⟩
    · rcases h1.kill hx with k1 | ⟨kt, k1, hk⟩
      · exact Or.inl (by rw [k2, k1])
      · exact Or.inr ⟨kt, by rw [k2, k1], hk⟩
    · exact Or.inr ⟨kt, k2, hk⟩
  · intro hx hy
    by_cases hm : m.life = .absent
    · exact h2.knew hm hy
    · rcases h2.kill hm with k2 | ⟨kt, k2, hk⟩
      · rcases h1.knew hx hm with k1 | ⟨kt, k1, hk⟩
        · exact Or.inl (by rw [k2, k1])
        · exact Or.inr ⟨kt, by rw [k2, k1], hk⟩
      · exact Or.inr ⟨kt, k2, hk⟩
  · intro hx hy hs
    have hm := midlive hx hy
    rcases h1.susp hx hm hs with ⟨a1, a2⟩ | a
    · rcases h2.susp hm hy a1 with ⟨b1, b2⟩ | b
      · exact Or.inl ⟨b1, by rw [b2, a2]⟩
      · exact Or.inr b
    · exact Or.inr a
  · intro hx hy
    have hm := midlive hx hy
    rcases h1.prog hx hm with ⟨a1, a2⟩ | a
    · rcases h2.prog hm hy with ⟨b1, b2⟩ | b
      · exact Or.inl ⟨by rw [b1, a1], by rw [b2, a2]⟩
      · exact Or.inr b
    · exact Or.inr a
  · intro hx
    have hm : m.life ≠ .absent := fun e => hx (h1.l_abs e)
    rw [h2.pid hm, h1.pid hx]

/-- `Actor.die` -/
theorem AStep.die (t : Rat) (slf tgt : Prop) (x : Actor) (bm : Bool) : AStep t slf tgt x (x.die t bm) := by
  unfold Actor.die
  split
  · rename_i hl
    refine ⟨rfl, ?_, ?_, ?_, ?_, ?_, fun _ => Or.inl rfl, ?_, ?_, ?_, id, fun _ => rfl⟩
    · intro h; cases h
    · intro h; cases h
    · intro d h; right; simp only [Life.dying.injEq] at h; exact ⟨h.symm, Or.inl hl⟩
    · intro h; rw [hl] at h; cases h
    · intro d h; rw [hl] at h; cases h
    · intro h; rw [hl] at h; cases h
    · intro _ h; cases h
    · intro _ h; cases h
  · exact AStep.refl t slf tgt x

/-- the relation lifted to systems -/
structure SRel (t : Rat) (slf tgt : Nat → Prop) (s s' : Sys) : Prop where
  k : s'.k = s.k
  act : ∀ j, AStep t (slf j) (tgt j) (s.acts j) (s'.acts j)

theorem SRel.refl (t : Rat) (slf tgt : Nat → Prop) (s : Sys) : SRel t slf tgt s s := ⟨rfl, fun _ => AStep.refl _ _ _ _⟩
theorem SRel.trans {t : Rat} {slf tgt : Nat → Prop} {a b c : Sys} (h1 : SRel t slf tgt a b) (h2 : SRel t slf tgt b c) :
    SRel t slf tgt a c := ⟨by rw [h2.k, h1.k], fun j => (h1.act j).trans (h2.act j)⟩
theorem SRel.weaken {t : Rat} {slf tgt slf' tgt' : Nat → Prop} {a b : Sys} (h : SRel t slf tgt a b)
    (h1 : ∀ j, slf j → slf' j) (h2 : ∀ j, tgt j → tgt' j) : SRel t slf' tgt' a b :=
  ⟨h.k, fun j => (h.act j).weaken (h1 j) (h2 j)⟩
theorem SRel.of_core {t : Rat} {slf tgt : Nat → Prop} {a b : Sys} (hk : b.k = a.k) (h : ∀ j, core (b.acts j) = core (a.acts j)) :
    SRel t slf tgt a b := ⟨hk, fun j => AStep.of_core (h j)⟩

/-! ### building blocks -/
theorem runHidden_core (acts : Nat → Actor) (d : Rat) (l : List Cb) (c : Nat) : core ((runHidden acts d l).1 c) = core (acts c) := by
  induction l generalizing acts with
  | nil => simp [runHidden]
  | cons cb rest ih =>
    cases cb with
    | tag g => simp [runHidden]
    | joinWake j i =>
      simp only [runHidden]
      split
      · rw [ih]
        by_cases hc : c = j
        · subst hc; simp [upd, core]
        · simp [upd, hc]
      · exact ih acts

theorem assignHandle_core (s : Sys) (a j : Nat) : core ((s.assignHandle a).acts j) = core (s.acts j) := by
  unfold Sys.assignHandle
  split
  · rename_i c hc
    by_cases h1 : j = c <;> by_cases h2 : j = a <;> simp [upd, core, h1, h2]
    all_goals (try subst h1) ; (try subst h2) ; simp_all [upd, core]
  · rfl

theorem assignHandle_k (s : Sys) (a : Nat) : (s.assignHandle a).k = s.k ∧ (s.assignHandle a).clock = s.clock := by
  unfold Sys.assignHandle; split <;> simp

end SgVerif.C11
