import SgVerif.C11.Run6
/-
C11 run-level infrastructure, part 7: the inductions over executions behind the run-level theorems of Props.lean.
-/
set_option linter.unusedSimpArgs false
set_option linter.unusedVariables false
namespace SgVerif.C11

/-- is the label a line of actor `a` other than an on_exit callback? -/
def OwnLine (a : Nat) (l : Label) (t : Rat) : Prop := (∃ i sk, l = .op a i t sk) ∨ (∃ i, l = .joined a i t)

theorem exec_suspended {s s' : Sys} {ls : List Label} (a : Nat) (ts : Rat) (h : Exec s ls s') :
    (s.acts a).life = .live → (s.acts a).suspended = true → (s.acts a).suspendedAt = some ts → NoResume s a ls →
    (s'.acts a).life = .live →
    (s'.acts a).suspended = true ∧ (s'.acts a).suspendedAt = some ts ∧
    (∀ l, l ∈ ls → ∀ t, OwnLine a l t → t = ts) ∧
    (ts < s.clock → (s'.acts a).pc = (s.acts a).pc ∧ (s'.acts a).inJoin = (s.acts a).inJoin ∧
      ∀ l, l ∈ ls → ∀ t, ¬ OwnLine a l t) := by
  induction h with
  | nil =>
    intro hl hs hat _ _
    exact ⟨hs, hat, fun l hm => (by cases hm), fun _ => ⟨rfl, rfl, fun l hm => (by cases hm)⟩⟩
  | @cons s s1 s2 l ls hst hex ih =>
    intro hl hs hat hnr hl2
    -- the actor is still live after the first line (it is live at the end)
    have hl1 : (s1.acts a).life = .live := by
      cases h1 : (s1.acts a).life with
      | live => rfl
      | absent =>
        rcases step_rel s s1 l hst with ⟨t, _, he, _⟩ | ⟨_, _, hr⟩
        · rw [he, hl] at h1; cases h1
        · have := (hr.act a).l_abs h1; rw [hl] at this; cases this
      | dying d => have := (exec_gone a hex (by rw [h1]; rfl)).1; rw [hl2] at this; cases this
      | dead => have := (exec_gone a hex (by rw [h1]; rfl)).1; rw [hl2] at this; cases this
    have hst1 := step_static s s1 l hst
    obtain ⟨q1, q2, q3, q4⟩ := step_suspended s s1 l a ts hst hl hs hat
      (fun c i t e => hnr c i t (by rw [e]; simp)) hl1
    have own : ∀ t, OwnLine a l t → t = ts := by
      intro t ho
      rcases ho with ⟨i, sk, e⟩ | ⟨i, e⟩
      · exact q3 i t (Or.inl ⟨sk, e⟩)
      · exact q3 i t (Or.inr e)
    have hnr1 : NoResume s1 a ls := by
      intro c i t hm
      have := hnr c i t (List.mem_cons_of_mem _ hm)
      unfold opOf at this ⊢
      rw [hst1.2 c]; exact this
    obtain ⟨r1, r2, r3, r4⟩ := ih hl1 q1 q2 hnr1 hl2
    refine ⟨r1, r2, ?_, ?_⟩
    · intro l' hm t ho
      rcases List.mem_cons.mp hm with e | hm'
      · subst e; exact own t ho
      · exact r3 l' hm' t ho
    · intro hlt
      have hdate : ∀ t, OwnLine a l t → False := by
        intro t ho
        have e := own t ho
        -- the date of an accepted line is not before the clock
        have hge : s.clock ≤ t := by
          rcases step_rel s s1 l hst with ⟨t', e', _, _⟩ | ⟨hto, _, _⟩
          · subst e'; rcases ho with ⟨i, sk, e''⟩ | ⟨i, e''⟩ <;> cases e''
          · have := timeOk_clock s l.date hto
            rcases ho with ⟨i, sk, e''⟩ | ⟨i, e''⟩ <;> (subst e''; exact this)
        rw [e] at hge
        exact absurd hlt (Rat.not_lt.mpr hge)
      have hno : ∀ i t, ¬ ((∃ sk, l = .op a i t sk) ∨ l = .joined a i t) := by
        intro i t ho
        rcases ho with ⟨sk, e⟩ | e
        · exact hdate t (Or.inl ⟨i, sk, e⟩)
        · exact hdate t (Or.inr ⟨i, e⟩)
      obtain ⟨p1, p2⟩ := q4 hno
      obtain ⟨p3, p4, p5⟩ := r4 (Rat.not_le.mp (fun hle => Rat.not_le.mpr hlt (Rat.le_trans (step_clock_mono s s1 l hst) hle)))
      refine ⟨by rw [p3, p1], by rw [p4, p2], ?_⟩
      intro l' hm t ho
      rcases List.mem_cons.mp hm with e | hm'
      · subst e; exact hdate t ho
      · exact p5 l' hm' t ho

/-- an actor that takes part in the daemon rule: created, not completely dead, not a ghost -/
def Present (s : Sys) (i : Nat) : Prop :=
  (s.acts i).life ≠ .absent ∧ (s.acts i).life ≠ .dead ∧ (s.acts i).ghost = false

theorem not_daemonCond (s : Sys) (h : s.daemonCond = false) :
    (∀ i, i < s.k → Present s i → (s.acts i).life ≠ .live) ∨ (∃ i, i < s.k ∧ Present s i ∧ (s.acts i).daemon = false) := by
  by_cases hnd : ∃ i, i < s.k ∧ Present s i ∧ (s.acts i).daemon = false
  · exact Or.inr hnd
  · left
    intro i hi hp hl
    apply hnd
    -- otherwise the three conjuncts of `daemonCond` hold
    exfalso
    have hmem : i ∈ s.ids.filter (fun i => (s.acts i).life != .absent && (s.acts i).life != .dead && !(s.acts i).ghost) := by
      simp only [Sys.ids, List.mem_filter, List.mem_range, Bool.and_eq_true, bne_iff_ne, ne_eq, Bool.not_eq_true']
      exact ⟨hi, ⟨hp.1, hp.2.1⟩, hp.2.2⟩
    have : s.daemonCond = true := by
      unfold Sys.daemonCond
      simp only [Bool.and_eq_true, Bool.not_eq_true', List.isEmpty_eq_false_iff, List.all_eq_true, List.any_eq_true]
      refine ⟨⟨List.ne_nil_of_mem hmem, ?_⟩, ⟨i, hmem, by rw [hl]; rfl⟩⟩
      intro j hj
      simp only [Sys.ids, List.mem_filter, List.mem_range, Bool.and_eq_true, bne_iff_ne, ne_eq, Bool.not_eq_true'] at hj
      by_cases hdj : (s.acts j).daemon = true
      · exact hdj
      · exact absurd ⟨j, hj.1, ⟨hj.2.1.1, hj.2.1.2, hj.2.2⟩, by simpa using hdj⟩ hnd
    rw [h] at this; cases this

theorem step_daemonCond_clock (s s' : Sys) (l : Label) (h : s' ∈ step s l) (hd : s.daemonCond = true) : s'.clock = s.clock := by
  rcases step_rel s s' l h with ⟨t, _, he, _⟩ | ⟨hto, hc, _⟩
  · rw [he]
  · rw [hc]
    unfold Sys.timeOk at hto
    simp only [Bool.and_eq_true, Bool.or_eq_true, Bool.not_eq_true', hd] at hto
    simpa using hto.2

/-- before the clock leaves a date at which only daemons remained, the system goes through a state, at that date, in
which the daemon condition no longer holds -/
theorem exec_daemon {s s' : Sys} {ls : List Label} (h : Exec s ls s') :
    s.daemonCond = true → s.clock < s'.clock →
    ∃ l1 l2 sm, ls = l1 ++ l2 ∧ Exec s l1 sm ∧ Exec sm l2 s' ∧ sm.clock = s.clock ∧ sm.daemonCond = false := by
  induction h with
  | nil => intro _ hlt; exact absurd hlt (Rat.lt_irrefl)
  | @cons s s1 s2 l ls hst hex ih =>
    intro hd hlt
    have hc := step_daemonCond_clock s s1 l hst hd
    by_cases hd1 : s1.daemonCond = true
    · obtain ⟨l1, l2, sm, e, x1, x2, x3, x4⟩ := ih hd1 (by rw [hc]; exact hlt)
      exact ⟨l :: l1, l2, sm, by rw [e]; rfl, Exec.cons hst x1, x2, by rw [x3, hc], x4⟩
    · exact ⟨[l], ls, s1, rfl, Exec.cons hst (Exec.nil _), hex, hc, by simpa using hd1⟩

end SgVerif.C11
