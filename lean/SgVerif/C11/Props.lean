import SgVerif.C11.Run7
/-
C11 — Actor lifecycle semantics.  Theorems over the model of Model.lean (a labelled transition system whose labels are
the observable lines of a run; `step s l` is the list of states the line `l` may lead to, `[]` = not allowed).

Strength (see NOTES.md): the on_exit clause is proved for every pending-callback list and every sequence of callbacks
(unbounded).  The kill-time, suspension and daemon clauses are proved as properties of *every accepted line* (for every
state, every label): they are `_partial` in the sense that they are one-step statements about the transition relation,
not statements about whole runs; the join clause is proved for the two places where the wake-up date of a joiner is set.
-/
namespace SgVerif.C11

/-- **on_exit, one callback.**  When a callback of tag `g` of a dying actor is accepted, `g` is the *last registered*
user tag still pending; it is appended to what ran, and removed from what is pending. -/
theorem runCallback_reverse (s s' : Sys) (a g : Nat) (t : Rat) (x0 : Actor)
    (h : runCallback s a g t x0 = some s') :
    tagsOf x0.onExit = tagsOf (s'.acts a).onExit ++ [g] ∧ (s'.acts a).ran = x0.ran ++ [g] ∧
    (s'.acts a).registered = x0.registered := by
  unfold runCallback at h
  simp only at h
  split at h
  · rename_i g' rest hr1
    split at h
    · cases h
    · rename_i hg
      simp only [ne_eq, Decidable.not_not] at hg
      subst hg
      cases h
      have t1 := runHidden_tags (upd s.acts a x0) t x0.onExit.reverse
      rw [hr1] at t1
      have f1 := runHidden_fields (upd s.acts a x0) t x0.onExit.reverse a
      simp only [upd_same'] at f1
      -- tags of the pending list: g' is the last one
      have e1 : tagsOf x0.onExit = (tagsOf rest).reverse ++ [g'] := by
        have := t1.1
        simp only [tagsOf, tagsOf_reverse] at this
        have h2 : (tagsOf x0.onExit).reverse.reverse = (g' :: tagsOf rest).reverse := by rw [← this]
        simpa using h2
      generalize hA : (runHidden (upd s.acts a x0) t x0.onExit.reverse).1 = A at *
      generalize hB : upd A a { A a with onExit := rest.reverse, ran := (A a).ran ++ [g'] } = B at *
      have t2 := runHidden_tags B t rest
      have f2 := runHidden_fields B t rest a
      have hBa : B a = { A a with onExit := rest.reverse, ran := (A a).ran ++ [g'] } := by rw [← hB]; simp [upd]
      simp only [upd_same']
      refine ⟨?_, ?_, ?_⟩
      · rw [e1, tagsOf_reverse, t2.1]
      · show ((runHidden B t rest).1 a).ran = _
        rw [f2.2.1, hBa]; simp [f1.2.1]
      · show ((runHidden B t rest).1 a).registered = _
        rw [f2.2.2.1, hBa]; simp [f1.2.2.1]
  · cases h

/-- the callbacks of one dying actor, one after the other (what `cleanup_from_self` does in one go) -/
def cleanupSeq (s : Sys) (a : Nat) (t : Rat) : List Nat → Option Sys
  | [] => some s
  | g :: gs => match runCallback s a g t (s.acts a) with
    | some s' => cleanupSeq s' a t gs
    | none => none

theorem cleanupSeq_reverse (s s' : Sys) (a : Nat) (t : Rat) (gs : List Nat) (h : cleanupSeq s a t gs = some s') :
    tagsOf (s.acts a).onExit = tagsOf (s'.acts a).onExit ++ gs.reverse ∧ (s'.acts a).ran = (s.acts a).ran ++ gs := by
  induction gs generalizing s with
  | nil => simp [cleanupSeq] at h; subst h; simp
  | cons g gs ih =>
    simp only [cleanupSeq] at h
    split at h
    · rename_i s1 h1
      have r := runCallback_reverse s s1 a g t (s.acts a) h1
      have := ih s1 h
      rw [r.1, this.1, this.2, r.2.1]
      simp
    · cases h

/-- **on_exit callbacks run exactly once, in reverse registration order.**  Whatever the registered callbacks (user
tags interleaved with the hidden callbacks of joiners), whatever the reason of the termination: if the callbacks `gs`
are accepted one after the other and none is left pending, then `gs` is exactly the list of registered tags reversed
— every tag once (the lists are equal, not merely equal as sets), none twice, none missing. -/
theorem on_exit_once_reverse_order (s s' : Sys) (a : Nat) (t : Rat) (gs : List Nat)
    (h : cleanupSeq s a t gs = some s') (hnone : tagsOf (s'.acts a).onExit = []) (hfresh : (s.acts a).ran = []) :
    gs = (tagsOf (s.acts a).onExit).reverse ∧ (s'.acts a).ran = (tagsOf (s.acts a).onExit).reverse := by
  have r := cleanupSeq_reverse s s' a t gs h
  rw [hnone] at r
  have e : gs = (tagsOf (s.acts a).onExit).reverse := by rw [r.1]; simp
  exact ⟨e, by rw [r.2, hfresh, ← e]; simp⟩

/-- a callback is refused when it is not the last registered one still pending -/
theorem on_exit_wrong_order_refused (s s' : Sys) (a g : Nat) (t : Rat) (x0 : Actor)
    (h : runCallback s a g t x0 = some s') : (tagsOf x0.onExit).getLast? = some g := by
  have := (runCallback_reverse s s' a g t x0 h).1
  rw [this]; simp

/-! ### time: kill timers, suspension, daemons -/

/-- **kill time (one-step form).**  While an actor with kill time `T` is live, no line of any actor can carry a date
later than `T`: the clock cannot pass `T` unless the actor dies — and the only thing the model lets it do at `T` when
nothing else is due is to run its on_exit callbacks (`step`, case `x.killAt = some t`). -/
theorem kill_time_exact_partial (s : Sys) (b : Nat) (T : Rat) (hb : b < s.k) (hl : (s.acts b).life = .live)
    (hk : (s.acts b).killAt = some T) (a i : Nat) (t : Rat) (sk : Bool) :
    (step s (.op a i t sk) ≠ [] → t ≤ T) ∧ (step s (.joined a i t) ≠ [] → t ≤ T) ∧
    (∀ g, step s (.exitCb a g t) ≠ [] → t ≤ T) := by
  obtain ⟨d, hd, hdT⟩ := due_le_killAt (s.acts b) T hl hk
  refine ⟨fun h => ?_, fun h => ?_, fun g h => ?_⟩
  · exact Rat.le_trans (timeOk_le_due s t b hb d hd (step_op_timeOk s a i t sk h)) hdT
  · exact Rat.le_trans (timeOk_le_due s t b hb d hd (step_joined_timeOk s a i t h)) hdT
  · exact Rat.le_trans (timeOk_le_due s t b hb d hd (step_exitCb_timeOk s a g t h)) hdT

/-- a set_kill_time in the past is ignored (`if (kill_time <= now) return;`) -/
theorem kill_time_in_the_past_ignored (s s1 : Sys) (a i b : Nat) (t T : Rat) (x1 : Actor) (hT : T ≤ t)
    (hset : b < s.k ∧ (s.acts b).handleSet = true) :
    applyOp s s1 a i t x1 (.killTime b T) false = some s1 := by
  simp [applyOp, hset.1, hset.2, hT]

/-- **a suspended actor makes no progress (one-step form).**  No line of a live actor that was suspended at an earlier
date is accepted: neither reaching its next op nor returning from a join, until a `resume` clears the flag. -/
theorem suspended_makes_no_progress_step (s : Sys) (a : Nat) (t : Rat) (hl : (s.acts a).life = .live)
    (hs : (s.acts a).suspended = true) (ht : (s.acts a).suspendedAt ≠ some t) (i : Nat) (sk : Bool) :
    step s (.op a i t sk) = [] ∧ step s (.joined a i t) = [] := suspended_step_none s a t hl hs ht i sk

/-- `resume` of an actor that is not suspended changes nothing (`if (not suspended_) return;`) -/
theorem resume_not_suspended_noop (s s1 : Sys) (a i b : Nat) (t : Rat) (x1 : Actor)
    (hset : b < s.k ∧ (s.acts b).handleSet = true) (hns : (s1.acts b).suspended = false) :
    applyOp s s1 a i t x1 (.resume b) false = some s1 := by
  simp [applyOp, hset.1, hset.2, hns]

/-- **daemons (one-step form).**  When only daemons remain, (1) the clock cannot move before the rule is applied and
(2) applying it leaves no live actor: they all die at the current date. -/
theorem daemons_killed_when_last_nondaemon_ends_partial (s : Sys) (h : s.daemonCond = true) :
    (∀ t, s.timeOk t = true → t = s.clock) ∧ (∀ i, i < s.k → ((s.daemonRule).acts i).life ≠ .live) := by
  constructor
  · intro t ht
    unfold Sys.timeOk at ht
    simp only [Bool.and_eq_true, Bool.or_eq_true, Bool.not_eq_true', h] at ht
    have := ht.2
    simpa using this
  · intro i hi
    have hc : (!(s.ids.filter fun i => (s.acts i).life != .absent && (s.acts i).life != .dead && !(s.acts i).ghost).isEmpty &&
        (s.ids.filter fun i => (s.acts i).life != .absent && (s.acts i).life != .dead && !(s.acts i).ghost).all (fun i => (s.acts i).daemon)) = true := by
      unfold Sys.daemonCond at h
      simp only [Bool.and_eq_true] at h
      simp only [Bool.and_eq_true]
      exact h.1
    unfold Sys.daemonRule
    simp only [hc, if_true, hi]
    unfold Actor.die
    split <;> simp_all

/-- **join (the two places where the joiner's wake-up date is set).**  `join(τ)` on a target that is already gone
returns at once; otherwise the joiner sleeps until `t0 + τ` (for ever without timeout) … -/
theorem join_wake_at_start (s s1 r : Sys) (a i b : Nat) (t : Rat) (x1 : Actor) (tau : Option Rat)
    (hset : b < s.k ∧ (s.acts b).handleSet = true) (hab : a ≠ b)
    (h : applyOp s s1 a i t x1 (.join b tau) false = some r) :
    (r.acts a).wake = if (s1.acts b).life.gone then some t else tau.map (t + ·) := by
  simp only [applyOp, hset.1, hset.2] at h
  by_cases hg : (s1.acts b).life.gone = true
  · simp [hg] at h
    subst h
    simp [upd, hg]
  · simp [hg] at h
    subst h
    cases tau <;> simp [upd, hab, hg]

/-- … and the hidden callback registered in the target's on_exit list ends that sleep at the target's death date -/
theorem join_wake_at_target_exit (acts : Nat → Actor) (d : Rat) (j i : Nat)
    (hl : (acts j).life = .live) (hj : (acts j).inJoin = some i) :
    ((runHidden acts d [.joinWake j i]).1 j).wake = some d := by
  simp [runHidden, hl, hj, Life.isLive, upd]

/-! ### run-level theorems: all executions of the transition system (`Exec s ls s'` ⇔ `s' ∈ runAll [s] ls`), for every
number of actors, every program, every sequence of lines -/

/-- **kill_time_exact (run level).**  In every state `s` reachable from `init k progs` and for every actor `b` with a
kill time `T` armed (`killAt = some T`):
 * if `b` is live then `s.clock ≤ T` — no execution ever shows a live actor after its kill time;
 * if `b` is dying, it died at a date `d ≤ T` (and `d` is in the past).
Moreover, in every continuation `s ⟶* s'`: if `b` was live in `s` and is dying in `s'` with kill time `T`, its death date
satisfies `s.clock ≤ d ≤ T`.  Hence an actor that has not ended when the clock reaches its kill time (`s.clock = T`)
dies at exactly `T`; an actor that ends earlier (own end, kill, exit, maestro) dies at that earlier date.
(`finish` is only accepted when nobody is live, so a run cannot end with the actor alive; that the model's kill-time
branch of `step (.exitCb …)` is the transition taken at `T` is the one-step theorem `kill_time_exact_partial`.)
A later `set_kill_time` on the same actor overwrites `killAt`: the statement is about the kill time in force. -/
theorem kill_time_exact (k : Nat) (progs : Nat → List Op) (ls1 ls2 : List Label) (s s' : Sys)
    (h1 : Exec (init k progs) ls1 s) (h2 : Exec s ls2 s') (b : Nat) (hb : b < s.k) :
    (∀ T, (s.acts b).killAt = some T →
      ((s.acts b).life = .live → s.clock ≤ T) ∧ (∀ d, (s.acts b).life = .dying d → d ≤ T ∧ d ≤ s.clock)) ∧
    ((s.acts b).life = .live → ∀ T d, (s'.acts b).killAt = some T → (s'.acts b).life = .dying d → s.clock ≤ d ∧ d ≤ T) := by
  have i1 : KInv s := kinv_exec h1 (kinv_init k progs)
  have i2 : KInv s' := kinv_exec h2 i1
  have hb' : b < s'.k := by rw [(exec_static h2).1]; exact hb
  refine ⟨fun T hT => ⟨((i1 b hb).1 T hT).1, fun d hd => ⟨((i1 b hb).1 T hT).2 d hd, (i1 b hb).2 d hd⟩⟩, ?_⟩
  intro hl T d hT hd
  exact ⟨exec_death_after b h2 hl d hd, ((i2 b hb').1 T hT).2 d hd⟩

/-- **suspended_makes_no_progress (run level, whole intervals).**  Take any execution `s ⟶* s'` that starts in a state
where actor `a` is live and suspended (by the `suspend` issued at date `ts`), and during which no line executes a
`resume a`.  If `a` is still alive at the end (it was not killed meanwhile) then
 * it is still suspended, by the same suspension;
 * every line of `a` in the execution (reaching an op, returning from a join) carries the date `ts` itself — the rest of
   the slice it was scheduled for in the scheduling round of the `suspend`, which is what SimGrid lets it finish;
 * and if the execution starts after that date (`ts < s.clock`): there is NO line of `a` at all, and its program counter
   and its pending join are the same at the end as at the start.
(If `a` is killed meanwhile, its on_exit lines are the only ones it produces: `Actor.die` clears `suspended`.) -/
theorem suspended_makes_no_progress (s s' : Sys) (ls : List Label) (a : Nat) (ts : Rat) (h : Exec s ls s')
    (hl : (s.acts a).life = .live) (hs : (s.acts a).suspended = true) (hat : (s.acts a).suspendedAt = some ts)
    (hnr : NoResume s a ls) (hl' : (s'.acts a).life = .live) :
    (s'.acts a).suspended = true ∧ (s'.acts a).suspendedAt = some ts ∧
    (∀ l, l ∈ ls → ∀ t, OwnLine a l t → t = ts) ∧
    (ts < s.clock → (s'.acts a).pc = (s.acts a).pc ∧ (s'.acts a).inJoin = (s.acts a).inJoin ∧
      ∀ l, l ∈ ls → ∀ t, ¬ OwnLine a l t) :=
  exec_suspended a ts h hl hs hat hnr hl'

/-- **daemons_killed_when_last_nondaemon_ends (run level).**  In every execution that starts in a state where only
daemons remain and at least one of them is live (`daemonCond`): the clock cannot leave that date before the system has
gone through a state, at that very date, in which either no present actor is live any more — every daemon has been
killed (dying or dead) at the date the last regular actor ended — or a regular (non-daemon) actor is present again
(created by a daemon in the same scheduling round, which legitimately keeps the daemons alive). -/
theorem daemons_killed_when_last_nondaemon_ends (s s' : Sys) (ls : List Label) (h : Exec s ls s')
    (hd : s.daemonCond = true) (hlt : s.clock < s'.clock) :
    ∃ l1 l2 sm, ls = l1 ++ l2 ∧ Exec s l1 sm ∧ Exec sm l2 s' ∧ sm.clock = s.clock ∧
      ((∀ i, i < sm.k → Present sm i → (sm.acts i).life ≠ .live) ∨
       (∃ i, i < sm.k ∧ Present sm i ∧ (sm.acts i).daemon = false)) := by
  obtain ⟨l1, l2, sm, e, x1, x2, x3, x4⟩ := exec_daemon h hd hlt
  exact ⟨l1, l2, sm, e, x1, x2, x3, not_daemonCond sm x4⟩

/-- … **and in pid order**: an on_exit callback of an actor killed by maestro while it was blocked (`byMaestro`, no
last breath) is only accepted when no maestro-killed blocked actor with a smaller pid still has callbacks to run -/
theorem maestro_kills_in_pid_order (s : Sys) (a g : Nat) (t d : Rat) (hl : (s.acts a).life = .dying d)
    (hg : (s.acts a).ghost = false) (hm : (s.acts a).byMaestro = true) (hb : (s.acts a).breath = false)
    (h : step s (.exitCb a g t) ≠ []) : s.lowerMaestroPending a = false := by
  by_cases hp : s.lowerMaestroPending a = true
  · exfalso
    apply h
    simp [step, hl, hg, hm, hb, hp]
  · simpa using hp

/-! ### Non-vacuity: a real log (props/C11/corpus.txt, first case) is accepted by the model, line by line -/
def exProgs : Nat → List Op
  | 0 => [.onExit 1, .onExit 2, .create 1, .sleep 1, .kill 1, .sleep 1]
  | 1 => [.onExit 7, .sleep 4, .log]
  | _ => []
def exLog : List Label :=
  [.op 0 0 0 false, .op 0 1 0 false, .op 0 2 0 false, .op 0 3 0 false, .op 1 0 0 false, .op 1 1 0 false,
   .op 0 4 1 false, .exitCb 1 7 1, .exitCb 1 0 1, .op 0 5 1 false, .exitCb 0 2 2, .exitCb 0 1 2, .exitCb 0 0 2, .finish 2]
example : (runAll [init 2 exProgs] exLog).isEmpty = false := by decide +kernel
/-- … and the same log with the two callbacks of actor 0 swapped is refused -/
example : (runAll [init 2 exProgs] [.op 0 0 0 false, .op 0 1 0 false, .op 0 2 0 false, .op 0 3 0 false, .op 1 0 0 false,
   .op 1 1 0 false, .op 0 4 1 false, .exitCb 1 7 1, .exitCb 1 0 1, .op 0 5 1 false, .exitCb 0 1 2]).isEmpty = true := by
  decide +kernel
/-- a kill timer: actor 0 sets its kill time to 2 and sleeps until 4: it cannot wake at 4, it dies at 2 -/
example : (runAll [init 1 (fun _ => [.killTime 0 2, .sleep 4, .log])]
    [.op 0 0 0 false, .op 0 1 0 false, .exitCb 0 0 2, .finish 2]).isEmpty = false := by decide +kernel
example : (runAll [init 1 (fun _ => [.killTime 0 2, .sleep 4, .log])]
    [.op 0 0 0 false, .op 0 1 0 false, .op 0 2 4 false]).isEmpty = true := by decide +kernel

/-- non-vacuity of `kill_time_exact`: actor 0 arms its kill time 2 at date 0 and sleeps until 4: reachable state with
the timer armed, the actor live; and a continuation in which it is dying — at date 2 -/
example : ∃ s s', Exec (init 1 (fun _ => [.killTime 0 2, .sleep 4, .log])) [.op 0 0 0 false, .op 0 1 0 false] s ∧
    Exec s [.exitCb 0 0 2] s' ∧ 0 < s.k ∧ (s.acts 0).life = .live ∧ (s.acts 0).killAt = some 2 ∧
    (s'.acts 0).killAt = some 2 := by
  have h : ((runAll [init 1 (fun _ => [.killTime 0 2, .sleep 4, .log])] [.op 0 0 0 false, .op 0 1 0 false]).any (fun s =>
      (step s (.exitCb 0 0 2)).any (fun s' =>
        decide (0 < s.k ∧ (s.acts 0).life = .live ∧ (s.acts 0).killAt = some 2 ∧ (s'.acts 0).killAt = some 2)))) = true := by
    decide +kernel
  obtain ⟨s, hs, hp⟩ := List.any_eq_true.mp h
  obtain ⟨s', hs', hq⟩ := List.any_eq_true.mp hp
  obtain ⟨s0, hs0, he⟩ := (mem_runAll_iff _ _ _).mp hs
  simp only [List.mem_cons, List.mem_nil_iff, or_false] at hs0
  subst hs0
  have hq' := of_decide_eq_true hq
  exact ⟨s, s', he, Exec.cons hs' (Exec.nil _), hq'.1, hq'.2.1, hq'.2.2.1, hq'.2.2.2⟩

/-- non-vacuity of `suspended_makes_no_progress`: actor 0 creates actor 1 (which sleeps 2), suspends it at date 1 and
goes on; hypotheses hold in the state after the `suspend`, with a continuation in which actor 1 is still live -/
example : ∃ s s', Exec (init 2 (fun i => if i = 0 then [.create 1, .sleep 1, .suspend 1, .sleep 1, .log] else [.sleep 2, .log]))
      [.op 0 0 0 false, .op 1 0 0 false, .op 0 1 0 false, .op 0 2 1 false] s ∧
    Exec s [.op 0 3 1 false, .op 0 4 2 false] s' ∧
    (s.acts 1).life = .live ∧ (s.acts 1).suspended = true ∧ (s.acts 1).suspendedAt = some 1 ∧ (s'.acts 1).life = .live := by
  have h : ((runAll [init 2 (fun i => if i = 0 then [.create 1, .sleep 1, .suspend 1, .sleep 1, .log] else [.sleep 2, .log])]
      [.op 0 0 0 false, .op 1 0 0 false, .op 0 1 0 false, .op 0 2 1 false]).any (fun s =>
      (runAll [s] [.op 0 3 1 false, .op 0 4 2 false]).any (fun s' =>
        decide ((s.acts 1).life = .live ∧ (s.acts 1).suspended = true ∧ (s.acts 1).suspendedAt = some 1 ∧
          (s'.acts 1).life = .live)))) = true := by
    decide +kernel
  obtain ⟨s, hs, hp⟩ := List.any_eq_true.mp h
  obtain ⟨s', hs', hq⟩ := List.any_eq_true.mp hp
  obtain ⟨s0, hs0, he⟩ := (mem_runAll_iff _ _ _).mp hs
  simp only [List.mem_cons, List.mem_nil_iff, or_false] at hs0
  subst hs0
  obtain ⟨s1, hs1, he'⟩ := (mem_runAll_iff _ _ _).mp hs'
  simp only [List.mem_cons, List.mem_nil_iff, or_false] at hs1
  rw [hs1] at he'
  have hq' := of_decide_eq_true hq
  exact ⟨s, s', he, he', hq'.1, hq'.2.1, hq'.2.2.1, hq'.2.2.2⟩

/-- non-vacuity of `daemons_killed_when_last_nondaemon_ends`: actor 1 daemonizes and sleeps for ever; when actor 0 ends
at date 1 only the daemon remains (`daemonCond`), and the run goes on to its `finish` at the same date -/
example : ((runAll [init 2 (fun i => if i = 0 then [.create 1, .sleep 1] else [.daemonize, .sleep 8, .log])]
      [.op 0 0 0 false, .op 1 0 0 false, .op 1 1 0 false, .op 0 1 0 false, .exitCb 0 0 1]).any
        (fun s => s.daemonCond)) = true := by
  decide +kernel

end SgVerif.C11
