import SgVerif.C11.Model
namespace SgVerif.C11
end SgVerif.C11
