import SgVerif.C11.Run4
/-
C11 — Actor lifecycle semantics.  Theorems over the model of Model.lean (a labelled transition system whose labels are
the observable lines of a run; `step s l` is the list of states the line `l` may lead to, `[]` = not allowed).

Strength (see NOTES.md): the on_exit clause is proved for every pending-callback list and every sequence of callbacks
(unbounded).  The kill-time, suspension and daemon clauses are proved as properties of *every accepted line* (for every
state, every label): they are `_partial` in the sense that they are one-step statements about the transition relation,
not statements about whole runs; the join clause is proved for the two places where the wake-up date of a joiner is set.
-/
namespace SgVerif.C11

/-- **on_exit, one callback.**  When a callback of tag `g` of a dying actor is accepted, `g` is the *last registered*
user tag still pending; it is appended to what ran, and removed from what is pending. -/
theorem runCallback_reverse (s s' : Sys) (a g : Nat) (t : Rat) (x0 : Actor)
    (h : runCallback s a g t x0 = some s') :
    tagsOf x0.onExit = tagsOf (s'.acts a).onExit ++ [g] ∧ (s'.acts a).ran = x0.ran ++ [g] ∧
    (s'.acts a).registered = x0.registered := by
  unfold runCallback at h
  simp only at h
  split at h
  · rename_i g' rest hr1
    split at h
    · cases h
    · rename_i hg
      simp only [ne_eq, Decidable.not_not] at hg
      subst hg
      cases h
      have t1 := runHidden_tags (upd s.acts a x0) t x0.onExit.reverse
      rw [hr1] at t1
      have f1 := runHidden_fields (upd s.acts a x0) t x0.onExit.reverse a
      simp only [upd_same'] at f1
      -- tags of the pending list: g' is the last one
      have e1 : tagsOf x0.onExit = (tagsOf rest).reverse ++ [g'] := by
        have := t1.1
        simp only [tagsOf, tagsOf_reverse] at this
        have h2 : (tagsOf x0.onExit).reverse.reverse = (g' :: tagsOf rest).reverse := by rw [← this]
        simpa using h2
      generalize hA : (runHidden (upd s.acts a x0) t x0.onExit.reverse).1 = A at *
      generalize hB : upd A a { A a with onExit := rest.reverse, ran := (A a).ran ++ [g'] } = B at *
      have t2 := runHidden_tags B t rest
      have f2 := runHidden_fields B t rest a
      have hBa : B a = { A a with onExit := rest.reverse, ran := (A a).ran ++ [g'] } := by rw [← hB]; simp [upd]
      simp only [upd_same']
      refine ⟨?_, ?_, ?_⟩
      · rw [e1, tagsOf_reverse, t2.1]
      · show ((runHidden B t rest).1 a).ran = _
        rw [f2.2.1, hBa]; simp [f1.2.1]
      · show ((runHidden B t rest).1 a).registered = _
        rw [f2.2.2.1, hBa]; simp [f1.2.2.1]
  · cases h

/-- the callbacks of one dying actor, one after the other (what `cleanup_from_self` does in one go) -/
def cleanupSeq (s : Sys) (a : Nat) (t : Rat) : List Nat → Option Sys
  | [] => some s
  | g :: gs => match runCallback s a g t (s.acts a) with
    | some s' => cleanupSeq s' a t gs
    | none => none

theorem cleanupSeq_reverse (s s' : Sys) (a : Nat) (t : Rat) (gs : List Nat) (h : cleanupSeq s a t gs = some s') :
    tagsOf (s.acts a).onExit = tagsOf (s'.acts a).onExit ++ gs.reverse ∧ (s'.acts a).ran = (s.acts a).ran ++ gs := by
  induction gs generalizing s with
  | nil => simp [cleanupSeq] at h; subst h; simp
  | cons g gs ih =>
    simp only [cleanupSeq] at h
    split at h
    · rename_i s1 h1
      have r := runCallback_reverse s s1 a g t (s.acts a) h1
      have := ih s1 h
      rw [r.1, this.1, this.2, r.2.1]
      simp
    · cases h

/-- **on_exit callbacks run exactly once, in reverse registration order.**  Whatever the registered callbacks (user
tags interleaved with the hidden callbacks of joiners), whatever the reason of the termination: if the callbacks `gs`
are accepted one after the other and none is left pending, then `gs` is exactly the list of registered tags reversed
— every tag once (the lists are equal, not merely equal as sets), none twice, none missing. -/
theorem on_exit_once_reverse_order (s s' : Sys) (a : Nat) (t : Rat) (gs : List Nat)
    (h : cleanupSeq s a t gs = some s') (hnone : tagsOf (s'.acts a).onExit = []) (hfresh : (s.acts a).ran = []) :
    gs = (tagsOf (s.acts a).onExit).reverse ∧ (s'.acts a).ran = (tagsOf (s.acts a).onExit).reverse := by
  have r := cleanupSeq_reverse s s' a t gs h
  rw [hnone] at r
  have e : gs = (tagsOf (s.acts a).onExit).reverse := by rw [r.1]; simp
  exact ⟨e, by rw [r.2, hfresh, ← e]; simp⟩

/-- a callback is refused when it is not the last registered one still pending -/
theorem on_exit_wrong_order_refused (s s' : Sys) (a g : Nat) (t : Rat) (x0 : Actor)
    (h : runCallback s a g t x0 = some s') : (tagsOf x0.onExit).getLast? = some g := by
  have := (runCallback_reverse s s' a g t x0 h).1
  rw [this]; simp

/-! ### time: kill timers, suspension, daemons -/

/-- **kill time (one-step form).**  While an actor with kill time `T` is live, no line of any actor can carry a date
later than `T`: the clock cannot pass `T` unless the actor dies — and the only thing the model lets it do at `T` when
nothing else is due is to run its on_exit callbacks (`step`, case `x.killAt = some t`). -/
theorem kill_time_exact_partial (s : Sys) (b : Nat) (T : Rat) (hb : b < s.k) (hl : (s.acts b).life = .live)
    (hk : (s.acts b).killAt = some T) (a i : Nat) (t : Rat) (sk : Bool) :
    (step s (.op a i t sk) ≠ [] → t ≤ T) ∧ (step s (.joined a i t) ≠ [] → t ≤ T) ∧
    (∀ g, step s (.exitCb a g t) ≠ [] → t ≤ T) := by
  obtain ⟨d, hd, hdT⟩ := due_le_killAt (s.acts b) T hl hk
  refine ⟨fun h => ?_, fun h => ?_, fun g h => ?_⟩
  · exact Rat.le_trans (timeOk_le_due s t b hb d hd (step_op_timeOk s a i t sk h)) hdT
  · exact Rat.le_trans (timeOk_le_due s t b hb d hd (step_joined_timeOk s a i t h)) hdT
  · exact Rat.le_trans (timeOk_le_due s t b hb d hd (step_exitCb_timeOk s a g t h)) hdT

/-- a set_kill_time in the past is ignored (`if (kill_time <= now) return;`) -/
theorem kill_time_in_the_past_ignored (s s1 : Sys) (a i b : Nat) (t T : Rat) (x1 : Actor) (hT : T ≤ t)
    (hset : b < s.k ∧ (s.acts b).handleSet = true) :
    applyOp s s1 a i t x1 (.killTime b T) false = some s1 := by
  simp [applyOp, hset.1, hset.2, hT]

/-- **a suspended actor makes no progress (one-step form).**  No line of a live actor that was suspended at an earlier
date is accepted: neither reaching its next op nor returning from a join, until a `resume` clears the flag. -/
theorem suspended_makes_no_progress_step (s : Sys) (a : Nat) (t : Rat) (hl : (s.acts a).life = .live)
    (hs : (s.acts a).suspended = true) (ht : (s.acts a).suspendedAt ≠ some t) (i : Nat) (sk : Bool) :
    step s (.op a i t sk) = [] ∧ step s (.joined a i t) = [] := suspended_step_none s a t hl hs ht i sk

/-- `resume` of an actor that is not suspended changes nothing (`if (not suspended_) return;`) -/
theorem resume_not_suspended_noop (s s1 : Sys) (a i b : Nat) (t : Rat) (x1 : Actor)
    (hset : b < s.k ∧ (s.acts b).handleSet = true) (hns : (s1.acts b).suspended = false) :
    applyOp s s1 a i t x1 (.resume b) false = some s1 := by
  simp [applyOp, hset.1, hset.2, hns]

/-- **daemons (one-step form).**  When only daemons remain, (1) the clock cannot move before the rule is applied and
(2) applying it leaves no live actor: they all die at the current date. -/
theorem daemons_killed_when_last_nondaemon_ends_partial (s : Sys) (h : s.daemonCond = true) :
    (∀ t, s.timeOk t = true → t = s.clock) ∧ (∀ i, i < s.k → ((s.daemonRule).acts i).life ≠ .live) := by
  constructor
  · intro t ht
    unfold Sys.timeOk at ht
    simp only [Bool.and_eq_true, Bool.or_eq_true, Bool.not_eq_true', h] at ht
    have := ht.2
    simpa using this
  · intro i hi
    have hc : (!(s.ids.filter fun i => (s.acts i).life != .absent && (s.acts i).life != .dead && !(s.acts i).ghost).isEmpty &&
        (s.ids.filter fun i => (s.acts i).life != .absent && (s.acts i).life != .dead && !(s.acts i).ghost).all (fun i => (s.acts i).daemon)) = true := by
      unfold Sys.daemonCond at h
      simp only [Bool.and_eq_true] at h
      simp only [Bool.and_eq_true]
      exact h.1
    unfold Sys.daemonRule
    simp only [hc, if_true, hi]
    unfold Actor.die
    split <;> simp_all

/-- **join (the two places where the joiner's wake-up date is set).**  `join(τ)` on a target that is already gone
returns at once; otherwise the joiner sleeps until `t0 + τ` (for ever without timeout) … -/
theorem join_wake_at_start (s s1 r : Sys) (a i b : Nat) (t : Rat) (x1 : Actor) (tau : Option Rat)
    (hset : b < s.k ∧ (s.acts b).handleSet = true) (hab : a ≠ b)
    (h : applyOp s s1 a i t x1 (.join b tau) false = some r) :
    (r.acts a).wake = if (s1.acts b).life.gone then some t else tau.map (t + ·) := by
  simp only [applyOp, hset.1, hset.2] at h
  by_cases hg : (s1.acts b).life.gone = true
  · simp [hg] at h
    subst h
    simp [upd, hg]
  · simp [hg] at h
    subst h
    cases tau <;> simp [upd, hab, hg]

/-- … and the hidden callback registered in the target's on_exit list ends that sleep at the target's death date -/
theorem join_wake_at_target_exit (acts : Nat → Actor) (d : Rat) (j i : Nat)
    (hl : (acts j).life = .live) (hj : (acts j).inJoin = some i) :
    ((runHidden acts d [.joinWake j i]).1 j).wake = some d := by
  simp [runHidden, hl, hj, Life.isLive, upd]

/-! ### Non-vacuity: a real log (props/C11/corpus.txt, first case) is accepted by the model, line by line -/
def exProgs : Nat → List Op
  | 0 => [.onExit 1, .onExit 2, .create 1, .sleep 1, .kill 1, .sleep 1]
  | 1 => [.onExit 7, .sleep 4, .log]
  | _ => []
def exLog : List Label :=
  [.op 0 0 0 false, .op 0 1 0 false, .op 0 2 0 false, .op 0 3 0 false, .op 1 0 0 false, .op 1 1 0 false,
   .op 0 4 1 false, .exitCb 1 7 1, .exitCb 1 0 1, .op 0 5 1 false, .exitCb 0 2 2, .exitCb 0 1 2, .exitCb 0 0 2, .finish 2]
example : (runAll [init 2 exProgs] exLog).isEmpty = false := by decide +kernel
/-- … and the same log with the two callbacks of actor 0 swapped is refused -/
example : (runAll [init 2 exProgs] [.op 0 0 0 false, .op 0 1 0 false, .op 0 2 0 false, .op 0 3 0 false, .op 1 0 0 false,
   .op 1 1 0 false, .op 0 4 1 false, .exitCb 1 7 1, .exitCb 1 0 1, .op 0 5 1 false, .exitCb 0 1 2]).isEmpty = true := by
  decide +kernel
/-- a kill timer: actor 0 sets its kill time to 2 and sleeps until 4: it cannot wake at 4, it dies at 2 -/
example : (runAll [init 1 (fun _ => [.killTime 0 2, .sleep 4, .log])]
    [.op 0 0 0 false, .op 0 1 0 false, .exitCb 0 0 2, .finish 2]).isEmpty = false := by decide +kernel
example : (runAll [init 1 (fun _ => [.killTime 0 2, .sleep 4, .log])]
    [.op 0 0 0 false, .op 0 1 0 false, .op 0 2 4 false]).isEmpty = true := by decide +kernel

end SgVerif.C11
