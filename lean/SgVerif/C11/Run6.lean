import SgVerif.C11.Run5
/-
C11 run-level infrastructure, part 6: invariants over executions (kill time, death dates, suspension).
-/
set_option linter.unusedSimpArgs false
set_option linter.unusedVariables false
namespace SgVerif.C11

theorem timeOk_clock (s : Sys) (t : Rat) (h : s.timeOk t = true) : s.clock ≤ t := by
  unfold Sys.timeOk at h
  simp only [Bool.and_eq_true, decide_eq_true_eq] at h
  exact h.1.1

/-- kill-time invariant: a live actor with kill time `T` lives in a state whose clock is `≤ T`; a dying actor died at a
date `≤ T`; death dates are in the past -/
def KInv (s : Sys) : Prop :=
  ∀ b, b < s.k →
    (∀ T, (s.acts b).killAt = some T →
      ((s.acts b).life = .live → s.clock ≤ T) ∧ (∀ d, (s.acts b).life = .dying d → d ≤ T)) ∧
    (∀ d, (s.acts b).life = .dying d → d ≤ s.clock)

theorem kinv_init (k : Nat) (progs : Nat → List Op) : KInv (init k progs) := by
  intro b _
  refine ⟨fun T h => ?_, fun d h => ?_⟩
  · simp [init] at h
  · simp only [init] at h
    split at h <;> cases h

theorem kinv_step (s s' : Sys) (l : Label) (h : s' ∈ step s l) (hi : KInv s) : KInv s' := by
  rcases step_rel s s' l h with ⟨t, _, he, _⟩ | ⟨hto, hc, hr⟩
  · rw [he]; exact hi
  · intro b hb
    rw [hr.k] at hb
    obtain ⟨hK, hD⟩ := hi b hb
    have A := hr.act b
    have hct := timeOk_clock s l.date hto
    have live_le : ∀ T, (s.acts b).life = .live → (s.acts b).killAt = some T → l.date ≤ T := by
      intro T hl hk
      obtain ⟨d, hd, hdT⟩ := due_le_killAt (s.acts b) T hl hk
      exact Rat.le_trans (timeOk_le_due s l.date b hb d hd hto) hdT
    rw [hc]
    refine ⟨fun T hT => ⟨fun hy => ?_, fun d hy => ?_⟩, fun d hy => ?_⟩
    · rcases A.l_live hy with hx | hx
      · rcases A.kill (by rw [hx]; intro e; cases e) with hk | ⟨kt, hk, hlt⟩
        · exact live_le T hx (by rw [← hk]; exact hT)
        · rw [hk] at hT; cases hT; exact Rat.le_of_lt hlt
      · rcases A.knew hx (by rw [hy]; intro e; cases e) with hk | ⟨kt, hk, hlt⟩
        · rw [hk] at hT; cases hT
        · rw [hk] at hT; cases hT; exact Rat.le_of_lt hlt
    · rcases A.l_dying d hy with hx | ⟨hd, hx⟩
      · rcases A.kill (by rw [hx]; intro e; cases e) with hk | ⟨kt, hk, hlt⟩
        · exact (hK T (by rw [← hk]; exact hT)).2 d hx
        · rw [hk] at hT; cases hT
          exact Rat.le_trans (hD d hx) (Rat.le_trans hct (Rat.le_of_lt hlt))
      · subst hd
        rcases hx with hx | hx
        · rcases A.kill (by rw [hx]; intro e; cases e) with hk | ⟨kt, hk, hlt⟩
          · exact live_le T hx (by rw [← hk]; exact hT)
          · rw [hk] at hT; cases hT; exact Rat.le_of_lt hlt
        · rcases A.knew hx (by rw [hy]; intro e; cases e) with hk | ⟨kt, hk, hlt⟩
          · rw [hk] at hT; cases hT
          · rw [hk] at hT; cases hT; exact Rat.le_of_lt hlt
    · rcases A.l_dying d hy with hx | ⟨hd, _⟩
      · exact Rat.le_trans (hD d hx) hct
      · rw [hd]; exact Rat.le_refl

theorem kinv_exec {s s' : Sys} {ls : List Label} (h : Exec s ls s') (hi : KInv s) : KInv s' := by
  induction h with
  | nil => exact hi
  | cons hst _ ih => exact ih (kinv_step _ _ _ hst hi)

/-! ### general facts about executions -/
theorem step_clock_mono (s s' : Sys) (l : Label) (h : s' ∈ step s l) : s.clock ≤ s'.clock := by
  rcases step_rel s s' l h with ⟨t, _, he, _⟩ | ⟨hto, hc, _⟩
  · rw [he]; exact Rat.le_refl
  · rw [hc]; exact timeOk_clock s _ hto

theorem exec_clock_mono {s s' : Sys} {ls : List Label} (h : Exec s ls s') : s.clock ≤ s'.clock := by
  induction h with
  | nil => exact Rat.le_refl
  | cons hst _ ih => exact Rat.le_trans (step_clock_mono _ _ _ hst) ih

/-- every actor record evolves by `AStep`-like facts that do not depend on the date: programs, `k` -/
theorem step_static (s s' : Sys) (l : Label) (h : s' ∈ step s l) : s'.k = s.k ∧ ∀ j, (s'.acts j).ops = (s.acts j).ops := by
  rcases step_rel s s' l h with ⟨t, _, he, _⟩ | ⟨_, _, hr⟩
  · rw [he]; exact ⟨rfl, fun _ => rfl⟩
  · exact ⟨hr.k, fun j => (hr.act j).ops⟩

theorem exec_static {s s' : Sys} {ls : List Label} (h : Exec s ls s') : s'.k = s.k ∧ ∀ j, (s'.acts j).ops = (s.acts j).ops := by
  induction h with
  | nil => exact ⟨rfl, fun _ => rfl⟩
  | cons hst _ ih =>
    obtain ⟨a1, a2⟩ := step_static _ _ _ hst
    exact ⟨by rw [ih.1, a1], fun j => by rw [ih.2, a2]⟩

theorem step_gone (s s' : Sys) (l : Label) (b : Nat) (h : s' ∈ step s l) (hg : (s.acts b).life.gone = true) :
    (s'.acts b).life.gone = true ∧ ∀ d, (s'.acts b).life = .dying d → (s.acts b).life = .dying d := by
  rcases step_rel s s' l h with ⟨t, _, he, _⟩ | ⟨_, _, hr⟩
  · rw [he]; exact ⟨hg, fun _ h => h⟩
  · refine ⟨gone_of_rel (hr.act b) hg, fun d hd => ?_⟩
    rcases (hr.act b).l_dying d hd with h' | ⟨_, h' | h'⟩
    · exact h'
    · rw [h'] at hg; cases hg
    · rw [h'] at hg; cases hg

theorem exec_gone {s s' : Sys} {ls : List Label} (b : Nat) (h : Exec s ls s') (hg : (s.acts b).life.gone = true) :
    (s'.acts b).life.gone = true ∧ ∀ d, (s'.acts b).life = .dying d → (s.acts b).life = .dying d := by
  induction h with
  | nil => exact ⟨hg, fun _ h => h⟩
  | cons hst _ ih =>
    obtain ⟨g1, d1⟩ := step_gone _ _ _ b hst hg
    obtain ⟨g2, d2⟩ := ih g1
    exact ⟨g2, fun d hd => d1 d (d2 d hd)⟩

/-- the death date of an actor is not earlier than the clock of any state in which it was still live -/
theorem exec_death_after {s s' : Sys} {ls : List Label} (b : Nat) (h : Exec s ls s') :
    (s.acts b).life = .live → ∀ d, (s'.acts b).life = .dying d → s.clock ≤ d := by
  induction h with
  | nil => intro hl d hd; rw [hl] at hd; cases hd
  | @cons s s1 s2 l ls hst hex ih =>
    intro hl d hd
    rcases step_rel s s1 l hst with ⟨t, _, he, _⟩ | ⟨hto, hc, hr⟩
    · rw [he] at ih; exact ih hl d hd
    · have hct := timeOk_clock s l.date hto
      cases h1 : (s1.acts b).life with
      | live => exact Rat.le_trans (by rw [hc]; exact hct) (ih h1 d hd)
      | absent => have := (hr.act b).l_abs h1; rw [hl] at this; cases this
      | dead =>
        have := (exec_gone b hex (by rw [h1]; rfl)).2 d hd
        rw [h1] at this; cases this
      | dying d1 =>
        have e := (exec_gone b hex (by rw [h1]; rfl)).2 d hd
        rw [h1] at e; cases e
        rcases (hr.act b).l_dying d h1 with h' | ⟨hd', _⟩
        · rw [hl] at h'; cases h'
        · rw [hd']; exact hct

/-! ### suspension -/
/-- a suspended actor cannot run (suspended at an earlier date) -/
theorem canRun_suspended (x : Actor) (t : Rat) (hs : x.suspended = true) (ht : x.suspendedAt ≠ some t) :
    x.canRun t = false := by
  unfold Actor.canRun
  simp [hs, ht]

theorem assignHandle_self (s : Sys) (a : Nat) :
    ((s.assignHandle a).acts a).suspended = (s.acts a).suspended ∧
    ((s.assignHandle a).acts a).suspendedAt = (s.acts a).suspendedAt ∧
    ((s.assignHandle a).acts a).life = (s.acts a).life ∧ ((s.assignHandle a).acts a).wake = (s.acts a).wake := by
  unfold Sys.assignHandle
  split
  · rename_i c hc
    by_cases h : a = c
    · subst h; simp [upd]
    · simp [upd, h]
  · simp

/-- **a suspended actor makes no progress (one-step form).**  No line of a live actor that was suspended at an earlier
date is accepted: neither reaching its next op nor returning from a join, until a `resume` clears the flag. -/
theorem suspended_step_none (s : Sys) (a : Nat) (t : Rat) (hl : (s.acts a).life = .live)
    (hs : (s.acts a).suspended = true) (ht : (s.acts a).suspendedAt ≠ some t) (i : Nat) (sk : Bool) :
    step s (.op a i t sk) = [] ∧ step s (.joined a i t) = [] := by
  have h0 := assignHandle_self s a
  constructor
  · simp only [step]
    split
    · rfl
    · split
      · rfl
      · split
        · rfl
        · have c1 : ((s.assignHandle a).acts a).canRun t = false := by
            apply canRun_suspended
            · rw [h0.1]; exact hs
            · rw [h0.2.1]; exact ht
          have c2 : ((s.assignHandle a).acts a).lastBreath t = false := by
            unfold Actor.lastBreath; rw [h0.2.2.1, hl]; simp
          simp [c1, c2]
  · simp only [step]
    split
    · rfl
    · have c1 : (s.acts a).canRun t = false := canRun_suspended _ t hs ht
      have c2 : (s.acts a).lastBreath t = false := by
        unfold Actor.lastBreath; rw [hl]; simp
      simp [c1, c2]


/-- no line of `ls` is a `resume` of `a` that is executed (programs are static: read in the first state) -/
def NoResume (s : Sys) (a : Nat) (ls : List Label) : Prop :=
  ∀ c i t, Label.op c i t false ∈ ls → opOf (s.acts c) i ≠ some (.resume a)

/-- one step: a live suspended actor stays suspended (same suspension) unless it dies or the line resumes it; its `pc` /
`inJoin` move only with its own lines -/
theorem step_suspended (s s' : Sys) (l : Label) (a : Nat) (ts : Rat) (h : s' ∈ step s l)
    (hl : (s.acts a).life = .live) (hs : (s.acts a).suspended = true) (hat : (s.acts a).suspendedAt = some ts)
    (hnr : ∀ c i t, l = .op c i t false → opOf (s.acts c) i ≠ some (.resume a)) (hl' : (s'.acts a).life = .live) :
    (s'.acts a).suspended = true ∧ (s'.acts a).suspendedAt = some ts ∧
    (∀ i t, ((∃ sk, l = .op a i t sk) ∨ l = .joined a i t) → t = ts) ∧
    ((∀ i t, ¬ ((∃ sk, l = .op a i t sk) ∨ l = .joined a i t)) → (s'.acts a).pc = (s.acts a).pc ∧ (s'.acts a).inJoin = (s.acts a).inJoin) := by
  have own : ∀ i t, ((∃ sk, l = .op a i t sk) ∨ l = .joined a i t) → t = ts := by
    intro i t hlt
    by_cases hts : (s.acts a).suspendedAt = some t
    · rw [hat] at hts; cases hts; rfl
    · exfalso
      have := suspended_step_none s a t hl hs hts i
      rcases hlt with ⟨sk, e⟩ | e
      · subst e; rw [(this sk).1] at h; cases h
      · subst e; rw [(this false).2] at h; cases h
  rcases step_rel s s' l h with ⟨t, _, he, _⟩ | ⟨_, _, hr⟩
  · subst he
    refine ⟨hs, hat, own, fun _ => ⟨rfl, rfl⟩⟩
  · have A := hr.act a
    have hsus : (s'.acts a).suspended = true ∧ (s'.acts a).suspendedAt = (s.acts a).suspendedAt := by
      rcases A.susp hl hl' hs with h1 | htg
      · exact h1
      · exfalso
        cases l with
        | op c i t sk =>
          obtain ⟨o, ho, hsk, hres⟩ := htg
          subst hsk; subst hres
          exact hnr c i t rfl ho
        | joined _ _ _ => exact htg
        | exitCb _ _ _ => exact htg
        | finish _ => exact htg
    refine ⟨hsus.1, by rw [hsus.2, hat], own, fun hno => ?_⟩
    rcases A.prog hl hl' with h1 | hself
    · exact h1
    · exfalso
      cases l with
      | op c i t sk =>
        simp only [SelfOf, Label.subject, Option.some.injEq] at hself
        subst hself
        exact hno i t (Or.inl ⟨sk, rfl⟩)
      | joined c i t =>
        simp only [SelfOf, Label.subject, Option.some.injEq] at hself
        subst hself
        exact hno i t (Or.inr rfl)
      | exitCb c g t =>
        simp only [SelfOf, Label.subject, Option.some.injEq] at hself
        subst hself
        have := (step_rel_exitCb s s' c g t h).2.2
        rw [hl'] at this; cases this
      | finish _ => simp [SelfOf, Label.subject] at hself

end SgVerif.C11
