import SgVerif.C11.Model
import SgVerif.Common.Proto
/-
C11 driver.  One line per program: `prog <k> | ops of actor 0 | ops of actor 1 | … => <log of the real run>`
(props/C11/harness.cpp; check.py rewrites `%a` clocks as `p/q` and the tag `E` as `0`).

* acceptance: the log is replayed line by line on the model (`step` is a relation: a list of possible next states is
  kept); a line that no state allows is a disagreement;
* monitors, on the log alone: on_exit tags once and in reverse order, join return dates, kill-time dates, silence of
  suspended actors, death of daemons with the last regular actor.
-/
open SgVerif.Proto
namespace SgVerif.C11

def parseRat (s : String) : Option Rat :=
  match s.splitOn "/" with
  | [n, d] => match n.toInt?, d.toNat? with
    | some n, some d => if d = 0 then none else some ((n : Rat) / (d : Rat))
    | _, _ => none
  | [n] => n.toInt?.map (fun n => (n : Rat))
  | _ => none

def units (s : String) : Option Rat := s.toInt?.map fun n => (n : Rat) / 1024

def parseOp (tok : String) : Option Op :=
  match tok.splitOn ":" with
  | ["sl", d] => do pure (.sleep (← units d))
  | ["cr", c] => do pure (.create (← c.toNat?))
  | ["ki", b] => do pure (.kill (← b.toNat?))
  | ["ka"] => some .killAll
  | ["ex"] => some .exit
  | ["jo", b, t] => do
    let ti ← t.toInt?
    pure (.join (← b.toNat?) (if ti < 0 then none else some ((ti : Rat) / 1024)))
  | ["da"] => some .daemonize
  | ["kt", b, t] => do pure (.killTime (← b.toNat?) (← units t))
  | ["su", b] => do pure (.suspend (← b.toNat?))
  | ["re", b] => do pure (.resume (← b.toNat?))
  | ["oe", g] => do pure (.onExit (← g.toNat?))
  | ["yi"] => some .yield
  | ["lg"] => some .log
  | _ => none

/-- split on the token "|" -/
def splitBar (q : List String) : List (List String) :=
  q.foldr (fun t acc => if t = "|" then [] :: acc else match acc with | h :: r => (t :: h) :: r | [] => [[t]]) [[]]

structure Prog where
  k : Nat
  progs : List (List Op)

def parseProg (q : List String) : Option Prog :=
  match splitBar q with
  | ["prog", k] :: rest => do
    let k ← k.toNat?
    let progs ← rest.mapM (fun l => l.mapM parseOp)
    pure { k, progs }
  | _ => none

inductive Line where
  | op (a i : Nat) (t : Rat) (skipped : Bool)
  | joined (a i : Nat) (t : Rat)
  | exitCb (a g : Nat) (t : Rat)
  | finish (t : Rat)

def parseLine (tok : String) : Option Line :=
  if tok.startsWith "END@" then (parseRat ((tok.drop 4).toString)).map .finish else
  match tok.splitOn "@" with
  | [lhs, rhs] =>
    let skipped := rhs.endsWith "n"
    let rhs := if skipped then (rhs.dropEnd 1).toString else rhs
    match lhs.splitOn ".", parseRat rhs with
    | [a, r], some t => do
      let a ← a.toNat?
      if r.startsWith "J" then pure (.joined a (← ((r.drop 1).toString).toNat?) t)
      else if r.startsWith "X" then pure (.exitCb a (← ((r.drop 1).toString).toNat?) t)
      else pure (.op a (← r.toNat?) t skipped)
    | _, _ => none
  | _ => none

def Line.toLabel : Line → Label
  | .op a i t s => .op a i t s
  | .joined a i t => .joined a i t
  | .exitCb a g t => .exitCb a g t
  | .finish t => .finish t

def Line.actor : Line → Option Nat
  | .op a .. => some a | .joined a .. => some a | .exitCb a .. => some a | .finish _ => none

def Line.date : Line → Rat
  | .op _ _ t _ => t | .joined _ _ t => t | .exitCb _ _ t => t | .finish t => t

def Prog.opAt (p : Prog) (a i : Nat) : Option Op := (p.progs[a]?).bind (·[i]?)

/-! ### acceptance -/

def accept (p : Prog) (lines : List Line) : Except String Unit := do
  let mut states : List Sys := [init p.k (fun i => (p.progs[i]?).getD [])]
  let mut n := 0
  for l in lines do
    let next := (states.flatMap (fun s => step s l.toLabel)).take 64
    if next.isEmpty then
      throw s!"line {n} (actor {l.actor}, date {l.date}) is not allowed by the model"
    states := next
    n := n + 1
  match lines.getLast? with
  | some (.finish _) => pure ()
  | _ => throw "log has no END line"

/-! ### monitors -/

def deathDate (lines : List Line) (b : Nat) : Option Rat :=
  lines.findSome? fun l => match l with | .exitCb a _ t => if a = b then some t else none | _ => none

def diesAt (lines : List Line) (a : Nat) (t : Rat) : Bool := deathDate lines a == some t

/-- on_exit callbacks: exactly the registered tags (0 first registered), once each, in reverse order, at one date,
and nothing from the actor afterwards -/
def monOnExit (p : Prog) (lines : List Line) : Option String :=
  (List.range p.k).findSome? fun b =>
    let mine := lines.filter (·.actor == some b)
    if mine.isEmpty then none else
    let regs := mine.filterMap fun l => match l with
      | .op _ i _ false => (match p.opAt b i with | some (.onExit g) => some g | _ => none)
      | _ => none
    -- an `oe` line printed in the last slice of a killed actor may not have been executed
    let ran : List Nat := mine.filterMap fun l => match l with | .exitCb _ g _ => some g | _ => none
    let dates := mine.filterMap fun l => match l with | .exitCb _ _ t => some t | _ => none
    let afterFirst := (mine.dropWhile fun l => match l with | .exitCb .. => false | _ => true)
    let tail := afterFirst.any fun l => match l with | .exitCb .. => false | _ => true
    let expected : List Nat := (0 :: regs).reverse
    let lastReg := match mine.reverse.find? (fun l => match l with | .op .. => true | _ => false) with
      | some (.op _ i t false) => (match p.opAt b i with | some (.onExit g) => if dates.head? == some t then some g else none | _ => none)
      | _ => none
    let expected' : List Nat := match lastReg with | some g => (0 :: regs.filter (· != g)).reverse | none => expected
    if ran != expected && ran != expected' then some s!"actor {b}: on_exit tags ran {ran}, registered (reversed) {expected}"
    else if dates.any (fun d => some d != dates.head?) then some s!"actor {b}: on_exit callbacks at several dates"
    else if tail then some s!"actor {b} printed a line after its on_exit callbacks"
    else none

def minOpt (a b : Option Rat) : Option Rat :=
  match a, b with
  | some x, some y => some (if x ≤ y then x else y)
  | some x, none => some x
  | none, y => y

/-- `join(τ)` returns at min(termination of the target, t0 + τ) -/
def monJoin (p : Prog) (lines : List Line) : Option String :=
  let idx := lines.zipIdx
  idx.findSome? fun (l, n) =>
    match l with
    | .joined a i t' =>
      match p.opAt a i with
      | some (.join b tau) =>
        let start := idx.find? fun (l0, _) => match l0 with | .op a0 i0 _ false => a0 = a ∧ i0 = i | _ => false
        match start with
        | some (Line.op _ _ t0 _, n0) =>
          -- a joiner that was suspended meanwhile may come back later: skipped
          let susp := idx.any fun (l1, n1) => decide (n0 ≤ n1) && decide (n1 ≤ n) && (match l1 with
            | .op a1 i1 _ false => (match p.opAt a1 i1 with | some (.suspend c) => c == a | _ => false)
            | _ => false)
          let someOpOfB := lines.any fun l1 => match l1 with | .op a1 .. => a1 = b | _ => false
          let death := (deathDate lines b).map fun d => if d ≤ t0 then t0 else d
          -- a target that never printed anything may have died silently (killed before it ran): skipped
          if susp ∨ (death.isNone ∧ ¬ someOpOfB) then none else
          let expected := minOpt (tau.map (t0 + ·)) death
          if expected = some t' then none
          else some s!"join of actor {a} (op {i}) on {b} started at {t0}, timeout {tau}, target death {death}: returned at {t'}"
        | _ => some s!"join return of actor {a} op {i} without start"
      | _ => some s!"J line of actor {a} op {i} is not a join"
    | _ => none

/-- an actor with a kill time `T` dies exactly at `T` unless it died before; nothing from it after `T` -/
def monKillTime (p : Prog) (lines : List Line) : Option String :=
  lines.findSome? fun l =>
    match l with
    | .op a i t false =>
      match p.opAt a i with
      | some (.killTime b T) =>
        if T ≤ t ∨ diesAt lines a t then none else
        match deathDate lines b with
        | some d => if T < d then some s!"actor {b} with kill time {T} died at {d}" else none
        | none =>
          if lines.any (fun l1 => l1.actor == some b) then some s!"actor {b} with kill time {T} never died" else none
      | _ => none
    | _ => none

/-- between `suspend(b)` and `resume(b)` the actor `b` prints nothing (lines at the very date of the suspend belong to
the scheduling round in which the suspend was issued) -/
def monSuspend (p : Prog) (lines : List Line) : Option String :=
  let r := lines.foldl (fun (st : List (Nat × Rat) × Option String) l =>
    let (susp, bad) := st
    if bad.isSome then st else
    match l with
    | .op a i t skipped =>
      let bad := match susp.find? (·.1 = a) with
        | some (_, ts) => if ts < t then some s!"actor {a} is suspended since {ts} and reached op {i} at {t}" else none
        | none => none
      let susp := if skipped then susp else match p.opAt a i with
        | some (.suspend b) => if susp.any (·.1 = b) ∨ diesAt lines a t then susp else (b, t) :: susp
        | some (.resume b) => susp.filter (·.1 ≠ b)
        | _ => susp
      (susp, bad)
    | .joined a i t =>
      (susp, match susp.find? (·.1 = a) with
        | some (_, ts) => if ts < t then some s!"actor {a} is suspended since {ts} and returned from join {i} at {t}" else none
        | none => none)
    | .exitCb a _ _ => (susp.filter (·.1 ≠ a), bad)
    | .finish _ => st) (([] : List (Nat × Rat)), (none : Option String))
  r.2

/-- daemons die when the last regular actor ends: none survives that date, and those killed then go in pid order -/
def monDaemons (p : Prog) (lines : List Line) : Option String :=
  let daemons := (List.range p.k).filter fun b => lines.any fun l => match l with
    | .op a i t false => a == b && (match p.opAt a i with | some .daemonize => true | _ => false) && !diesAt lines a t
    | _ => false
  let regular := (List.range p.k).filter fun b => ¬ daemons.contains b ∧ (deathDate lines b).isSome
  if regular.isEmpty then none else
  let tLast := regular.foldl (fun m b => match deathDate lines b with | some d => if m < d then d else m | none => m) 0
  match daemons.find? (fun b => match deathDate lines b with | some d => tLast < d | none => false) with
  | some b => some s!"daemon {b} outlived the last regular actor (which ended at {tLast})"
  | none =>
    -- position of the last callback of a regular actor; daemons dying after it were killed by maestro
    let idx := lines.zipIdx
    let lastReg := idx.foldl (fun m (l, n) => match l with
      | .exitCb a _ _ => if regular.contains a then n else m | _ => m) 0
    let killed := idx.filterMap fun (l, n) => match l with
      | .exitCb a 0 _ =>
        -- a daemon that was itself scheduled at that date is already in the run list: it goes first, whatever its pid
        let ranNow := lines.any fun l1 => match l1 with
          | .op a1 _ t1 _ => a1 == a && t1 == tLast | .joined a1 _ t1 => a1 == a && t1 == tLast | _ => false
        if daemons.contains a ∧ lastReg < n ∧ ¬ ranNow then some a else none
      | _ => none
    -- pid = creation rank, read from the `create` lines of the log
    let created := lines.filterMap fun l => match l with
      | .op a i _ false => (match p.opAt a i with | some (.create c) => some c | _ => none)
      | _ => none
    let rank := fun (b : Nat) => if b = 0 then 0 else (created.idxOf b) + 1
    if killed.zip (killed.drop 1) |>.any (fun (x, y) => rank y < rank x) then
      some s!"daemons died in order {killed}, not in pid order (creation order {created})"
    else none

def judge (q a : List String) : Verdict :=
  match parseProg q with
  | none => .bad
  | some p =>
    match a.mapM parseLine with
    | none => if a.length = 1 then .disagree ("abnormal end: " ++ " ".intercalate a) else .bad
    | some lines =>
      match (monOnExit p lines <|> monJoin p lines <|> monKillTime p lines <|> monSuspend p lines <|> monDaemons p lines) with
      | some why => .monfail why
      | none =>
        match accept p lines with
        | .ok _ => .ok
        | .error e => .disagree e

end SgVerif.C11

def main : IO Unit := SgVerif.Proto.run SgVerif.C11.judge
