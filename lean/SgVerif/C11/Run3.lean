import SgVerif.C11.Run2
/-
C11 run-level infrastructure, part 3: `applyOp` and `step` satisfy `SRel`.
-/
set_option linter.unusedSimpArgs false
set_option linter.unusedVariables false
namespace SgVerif.C11

/-- the actor is the target of the `suspend` / `resume` that the line executes -/
def Tgt (o : Op) (sk : Bool) (j : Nat) : Prop := sk = false ∧ o = .resume j

theorem AStep.mk' {t : Rat} {slf tgt : Prop} {x y : Actor} (hops : y.ops = x.ops) (hlife : y.life = x.life)
    (hpid : y.pid = x.pid)
    (hk : y.killAt = x.killAt ∨ (∃ kt, y.killAt = some kt ∧ t < kt))
    (hs : x.suspended = true → (y.suspended = true ∧ y.suspendedAt = x.suspendedAt) ∨ tgt)
    (hp : (y.pc = x.pc ∧ y.inJoin = x.inJoin) ∨ slf) (hd : x.daemon = true → y.daemon = true) : AStep t slf tgt x y := by
  refine ⟨hops, ?_, ?_, ?_, ?_, ?_, fun _ => hk, fun hx hy => absurd (by rw [hlife]; exact hx) hy,
    fun _ _ => hs, fun _ _ => hp, hd, fun _ => hpid⟩
  · rw [hlife]; exact id
  · rw [hlife]; exact Or.inl
  · intro d; rw [hlife]; exact Or.inl
  · rw [hlife]; exact id
  · intro d; rw [hlife]; exact Or.inl

/-- result of an op: a system that differs from `s1` by its actor table (and `nextPid`) -/
theorem rel_of_acts {t : Rat} {slf tgt : Nat → Prop} (s1 r : Sys) (hk : r.k = s1.k) (hc : r.clock = s1.clock)
    (h : ∀ j, AStep t (slf j) (tgt j) (s1.acts j) (r.acts j)) : r.clock = s1.clock ∧ SRel t slf tgt s1 r := ⟨hc, hk, h⟩

theorem applyOp_rel (s s1 r : Sys) (a i : Nat) (t : Rat) (x1 : Actor) (o : Op) (sk : Bool)
    (hx1 : s1.acts a = x1) (hlife : ∀ j, (s1.acts j).life = (s.acts j).life) (ha : (s.acts a).life ≠ .absent)
    (h : applyOp s s1 a i t x1 o sk = some r) :
    r.clock = s1.clock ∧ SRel t (fun j => j = a) (Tgt o sk) s1 r := by
  cases o with
  | sleep d =>
    simp only [applyOp] at h
    split at h
    · cases h
    · cases h
      exact rel_of_acts s1 _ rfl rfl (astep_upd _ a _ (AStep.of_core (by rw [hx1]; rfl)))
  | create c =>
    simp only [applyOp] at h
    split at h
    · cases h
    · rename_i hc
      cases h
      simp only [not_or, Decidable.not_not] at hc
      obtain ⟨_, _, hcl⟩ := hc
      have hca : c ≠ a := fun e => ha (by rw [← e]; exact hcl)
      refine rel_of_acts s1 _ rfl rfl (fun j => ?_)
      by_cases hj : j = c
      · subst hj
        simp only [upd, if_true]
        have hl : (s1.acts j).life = .absent := by rw [hlife]; exact hcl
        refine ⟨rfl, ?_, ?_, ?_, ?_, ?_, fun e => absurd hl e, fun _ _ => Or.inl rfl, ?_, ?_, id, ?_⟩
        · intro e; cases e
        · intro _; exact Or.inr hl
        · intro d e; cases e
        · intro e; rw [hl] at e; cases e
        · intro d e; rw [hl] at e; cases e
        · intro e; rw [hl] at e; cases e
        · intro e; rw [hl] at e; cases e
        · intro e; exact absurd hl e
      · simp only [upd, hj, if_false]
        by_cases hja : j = a
        · subst hja; simp only [if_true]; exact AStep.of_core (by rw [hx1]; rfl)
        · simp only [hja, if_false]; exact AStep.refl _ _ _ _
  | kill b =>
    simp only [applyOp] at h
    split at h
    · split at h
      · cases h; exact ⟨rfl, SRel.refl _ _ _ _⟩
      · cases h
    · split at h
      · cases h
      · cases h
        exact rel_of_acts s1 _ rfl rfl (astep_upd _ b _ (AStep.die _ _ _ _ _))
  | killAll =>
    simp only [applyOp] at h
    split at h
    · cases h
    · cases h
      refine rel_of_acts s1 _ rfl rfl (fun j => ?_)
      simp only []
      split
      · exact AStep.die _ _ _ _ _
      · exact AStep.refl _ _ _ _
  | exit =>
    simp only [applyOp] at h
    split at h
    · cases h
    · cases h
      exact rel_of_acts s1 _ rfl rfl (astep_upd _ a _ (by rw [hx1]; exact AStep.die _ _ _ _ _))
  | join b timeout =>
    simp only [applyOp] at h
    split at h
    · split at h
      · cases h; exact ⟨rfl, SRel.refl _ _ _ _⟩
      · cases h
    · split at h
      · cases h
      · split at h
        · cases h
          exact rel_of_acts s1 _ rfl rfl (astep_upd _ a _
            (AStep.mk' (by rw [hx1]) (by rw [hx1]) (by rw [hx1]) (Or.inl (by rw [hx1])) (fun hs => Or.inl ⟨by rw [hx1] at hs; exact hs, by rw [hx1]⟩)
              (Or.inr rfl) (by rw [hx1]; exact id)))
        · cases h
          refine rel_of_acts s1 _ rfl rfl (fun j => ?_)
          have st1 : ∀ j, AStep t (j = a) (Tgt (.join b timeout) sk j) (s1.acts j)
              (upd s1.acts a { x1 with inJoin := some i, wake := (match timeout with | some tau => some (t + tau) | none => none) } j) :=
            astep_upd _ a _
              (AStep.mk' (by rw [hx1]) (by rw [hx1]) (by rw [hx1]) (Or.inl (by rw [hx1])) (fun hs => Or.inl ⟨by rw [hx1] at hs; exact hs, by rw [hx1]⟩)
                (Or.inr rfl) (by rw [hx1]; exact id))
          refine (st1 j).trans ?_
          by_cases hjb : j = b
          · subst hjb; simp only [upd, if_true]; exact AStep.of_core rfl
          · simp only [upd, hjb, if_false]; exact AStep.refl _ _ _ _
  | daemonize =>
    simp only [applyOp] at h
    split at h
    · cases h
    · cases h
      exact rel_of_acts s1 _ rfl rfl (astep_upd _ a _
        (AStep.mk' (by rw [hx1]) (by rw [hx1]) (by rw [hx1]) (Or.inl (by rw [hx1])) (fun hs => Or.inl ⟨by rw [hx1] at hs; exact hs, by rw [hx1]⟩)
          (Or.inl ⟨by rw [hx1], by rw [hx1]⟩) (fun _ => rfl)))
  | killTime b kt =>
    simp only [applyOp] at h
    split at h
    · split at h
      · cases h; exact ⟨rfl, SRel.refl _ _ _ _⟩
      · cases h
    · split at h
      · cases h
      · split at h
        · cases h; exact ⟨rfl, SRel.refl _ _ _ _⟩
        · rename_i hkt
          cases h
          exact rel_of_acts s1 _ rfl rfl (astep_upd _ b _
            (AStep.mk' rfl rfl rfl (Or.inr ⟨kt, rfl, Rat.not_le.mp hkt⟩) (fun hs => Or.inl ⟨hs, rfl⟩) (Or.inl ⟨rfl, rfl⟩) id))
  | suspend b =>
    simp only [applyOp] at h
    split at h
    · split at h
      · cases h; exact ⟨rfl, SRel.refl _ _ _ _⟩
      · cases h
    · split at h
      · cases h
      · rename_i hsk
        split at h
        · cases h; exact ⟨rfl, SRel.refl _ _ _ _⟩
        · cases h
          exact rel_of_acts s1 _ rfl rfl (astep_upd _ b _
            (AStep.mk' rfl rfl rfl (Or.inl rfl) (fun hs => absurd hs (by assumption)) (Or.inl ⟨rfl, rfl⟩) id))
  | resume b =>
    simp only [applyOp] at h
    split at h
    · split at h
      · cases h; exact ⟨rfl, SRel.refl _ _ _ _⟩
      · cases h
    · split at h
      · cases h
      · rename_i hsk
        split at h
        · cases h; exact ⟨rfl, SRel.refl _ _ _ _⟩
        · cases h
          exact rel_of_acts s1 _ rfl rfl (astep_upd _ b _
            (AStep.mk' rfl rfl rfl (Or.inl rfl) (fun _ => Or.inr ⟨by simpa using hsk, rfl⟩) (Or.inl ⟨rfl, rfl⟩) id))
  | onExit g =>
    simp only [applyOp] at h
    split at h
    · cases h
    · cases h
      exact rel_of_acts s1 _ rfl rfl (astep_upd _ a _ (AStep.of_core (by rw [hx1]; rfl)))
  | yield =>
    simp only [applyOp] at h
    split at h
    · cases h
    · cases h; exact ⟨rfl, SRel.refl _ _ _ _⟩
  | log =>
    simp only [applyOp] at h
    split at h
    · cases h
    · cases h; exact ⟨rfl, SRel.refl _ _ _ _⟩

end SgVerif.C11
