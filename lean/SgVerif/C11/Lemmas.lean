import SgVerif.C11.Model
/- C11 helper lemmas -/
namespace SgVerif.C11

def tagsOf : List Cb → List Nat
  | [] => []
  | .tag g :: r => g :: tagsOf r
  | .joinWake _ _ :: r => tagsOf r

theorem tagsOf_append (a b : List Cb) : tagsOf (a ++ b) = tagsOf a ++ tagsOf b := by
  induction a with
  | nil => rfl
  | cons c r ih => cases c <;> simp [tagsOf, ih]

theorem tagsOf_reverse (a : List Cb) : tagsOf a.reverse = (tagsOf a).reverse := by
  induction a with
  | nil => rfl
  | cons c r ih => cases c <;> simp [tagsOf, tagsOf_append, ih]

/-- hidden callbacks only touch `wake` -/
theorem runHidden_fields (acts : Nat → Actor) (d : Rat) (l : List Cb) (c : Nat) :
    ((runHidden acts d l).1 c).onExit = (acts c).onExit ∧ ((runHidden acts d l).1 c).ran = (acts c).ran ∧
    ((runHidden acts d l).1 c).registered = (acts c).registered ∧ ((runHidden acts d l).1 c).life = (acts c).life := by
  induction l generalizing acts with
  | nil => simp [runHidden]
  | cons cb rest ih =>
    cases cb with
    | tag g => simp [runHidden]
    | joinWake j i =>
      simp only [runHidden]
      split
      · have := ih (upd acts j { acts j with wake := some d })
        by_cases hc : c = j
        · subst hc; simpa [upd] using this
        · simpa [upd, hc] using this
      · exact ih acts

theorem runHidden_tags (acts : Nat → Actor) (d : Rat) (l : List Cb) :
    tagsOf (runHidden acts d l).2 = tagsOf l ∧
    (∀ c rest, (runHidden acts d l).2 = c :: rest → ∃ g, c = .tag g) := by
  induction l generalizing acts with
  | nil => simp [runHidden, tagsOf]
  | cons cb rest ih =>
    cases cb with
    | tag g => simp [runHidden, tagsOf]
    | joinWake j i =>
      simp only [runHidden, tagsOf]
      split
      · exact ih _
      · exact ih _
theorem upd_same' (f : Nat → Actor) (i : Nat) (x : Actor) : upd f i x i = x := by simp [upd]

theorem due_le_killAt (x : Actor) (T : Rat) (hl : x.life = .live) (hk : x.killAt = some T) :
    ∃ d, x.due = some d ∧ d ≤ T := by
  unfold Actor.due
  rw [hl, hk]
  simp only
  cases hw : (if x.suspended = true then none else x.wake) with
  | none => exact ⟨T, rfl, Rat.le_refl⟩
  | some a =>
    by_cases hab : a ≤ T
    · exact ⟨a, by simp [hab], hab⟩
    · exact ⟨T, by simp [hab], Rat.le_refl⟩

theorem timeOk_le_due (s : Sys) (t : Rat) (b : Nat) (hb : b < s.k) (d : Rat) (hd : (s.acts b).due = some d)
    (h : s.timeOk t = true) : t ≤ d := by
  unfold Sys.timeOk at h
  simp only [Bool.and_eq_true] at h
  have h2 := h.1.2
  unfold Sys.nothingDueBefore Sys.ids at h2
  rw [List.all_eq_true] at h2
  have := h2 b (List.mem_range.mpr hb)
  rw [hd] at this
  simpa using this


end SgVerif.C11
