import SgVerif.C33.Model
/-
C33 — helper lemmas (mixed-radix arithmetic, list bookkeeping, the factorisation loops).
-/
namespace SgVerif.C33

/-- every dimension has at least one node -/
def ValidDims (ds : List Int) : Prop := ∀ d ∈ ds, 1 ≤ d

/-- coordinates of the right length, each in `[0, d)` -/
def InRange : List Int → List Int → Prop
  | d :: ds, c :: cs => 0 ≤ c ∧ c < d ∧ InRange ds cs
  | [], [] => True
  | _, _ => False

theorem validDims_cons {d : Int} {ds : List Int} (h : ValidDims (d :: ds)) : 1 ≤ d ∧ ValidDims ds :=
  ⟨h d (by simp), fun x hx => h x (by simp [hx])⟩

theorem prod_pos {ds : List Int} (h : ValidDims ds) : 0 < prod ds := by
  induction ds with
  | nil => simp [prod]
  | cons d ds ih =>
    obtain ⟨hd, hds⟩ := validDims_cons h
    have := ih hds
    simp only [prod]
    exact Int.mul_pos (by omega) this

theorem tdiv_nonneg_eq {a b : Int} (h : 0 ≤ a) : a.tdiv b = a / b := Int.tdiv_eq_ediv_of_nonneg h
theorem tmod_nonneg_eq {a b : Int} (h : 0 ≤ a) : a.tmod b = a % b := Int.tmod_eq_emod_of_nonneg h

/-- quotient and remainder of `c * P + s` with `0 ≤ s < P` -/
theorem divmod_radix {c P s : Int} (hs0 : 0 ≤ s) (hsP : s < P) :
    (c * P + s) / P = c ∧ (c * P + s) % P = s := by
  have hP : 0 < P := by omega
  rw [Int.ediv_emod_unique hP]
  refine ⟨?_, hs0, hsP⟩
  rw [Int.mul_comm]; omega

theorem rowMajor_bounds {ds cs : List Int} (hv : ValidDims ds) (h : InRange ds cs) :
    0 ≤ rowMajor ds cs ∧ rowMajor ds cs < prod ds := by
  induction ds generalizing cs with
  | nil => cases cs <;> simp [rowMajor, prod]
  | cons d ds ih =>
    cases cs with
    | nil => simp [InRange] at h
    | cons c cs =>
      obtain ⟨hd, hds⟩ := validDims_cons hv
      obtain ⟨hc0, hcd, hr⟩ := h
      obtain ⟨h0, h1⟩ := ih hds hr
      have hP := prod_pos hds
      simp only [rowMajor, prod]
      have e1 : 0 ≤ c * prod ds := Int.mul_nonneg hc0 (by omega)
      have e2 : (c + 1) * prod ds ≤ d * prod ds := Int.mul_le_mul_of_nonneg_right (by omega) (by omega)
      have e3 : (c + 1) * prod ds = c * prod ds + prod ds := by rw [Int.add_mul]; omega
      omega

/-- `coords` on a valid grid: never UB, coordinates in range, and they are the mixed-radix digits of the rank -/
theorem coordsGo_spec {ds : List Int} (hv : ValidDims ds) {r : Int} (h0 : 0 ≤ r) (h1 : r < prod ds) :
    ∃ cs, coordsGo (prod ds) r ds = .ok cs ∧ InRange ds cs ∧ rowMajor ds cs = r := by
  induction ds generalizing r with
  | nil => exact ⟨[], by simp [coordsGo], by simp [InRange], by simp [rowMajor, prod] at *; omega⟩
  | cons d ds ih =>
    obtain ⟨hd, hds⟩ := validDims_cons hv
    have hP := prod_pos hds
    have hnn : (prod (d :: ds)).tdiv d = prod ds := by
      simp only [prod]
      rw [tdiv_nonneg_eq (Int.mul_nonneg (by omega) (by omega)), Int.mul_ediv_cancel_left _ (by omega)]
    have hm0 : 0 ≤ r % prod ds := Int.emod_nonneg _ (by omega)
    have hm1 : r % prod ds < prod ds := Int.emod_lt_of_pos _ hP
    obtain ⟨cs, hcs, hin, hrm⟩ := ih hds hm0 hm1
    refine ⟨r / prod ds :: cs, ?_, ?_, ?_⟩
    · rw [coordsGo]
      simp only [hnn]
      rw [if_neg (by omega), if_neg (by omega), tmod_nonneg_eq h0, tdiv_nonneg_eq h0, hcs]
    · refine ⟨Int.ediv_nonneg h0 (by omega), ?_, hin⟩
      apply Int.ediv_lt_of_lt_mul hP
      simpa [prod] using h1
    · simp only [rowMajor, hrm]
      exact Int.ediv_mul_add_emod r (prod ds)

/-- `coords` of the row-major rank of in-range coordinates gives the coordinates back -/
theorem coordsGo_rowMajor {ds cs : List Int} (hv : ValidDims ds) (h : InRange ds cs) :
    coordsGo (prod ds) (rowMajor ds cs) ds = .ok cs := by
  induction ds generalizing cs with
  | nil => cases cs <;> simp [InRange, coordsGo] at *
  | cons d ds ih =>
    cases cs with
    | nil => simp [InRange] at h
    | cons c cs =>
      obtain ⟨hd, hds⟩ := validDims_cons hv
      obtain ⟨hc0, hcd, hr⟩ := h
      have hP := prod_pos hds
      obtain ⟨b0, b1⟩ := rowMajor_bounds hds hr
      have hnn : (prod (d :: ds)).tdiv d = prod ds := by
        simp only [prod]
        rw [tdiv_nonneg_eq (Int.mul_nonneg (by omega) (by omega)), Int.mul_ediv_cancel_left _ (by omega)]
      obtain ⟨q, m⟩ := divmod_radix (c := c) b0 b1
      have hnon : 0 ≤ c * prod ds + rowMajor ds cs := by
        have := Int.mul_nonneg hc0 (show 0 ≤ prod ds by omega)
        omega
      rw [coordsGo]
      simp only [hnn, rowMajor]
      rw [if_neg (by omega), if_neg (by omega), tmod_nonneg_eq hnon, tdiv_nonneg_eq hnon, q, m, ih hds hr]

/-- the C normalisation of one coordinate computes the mathematical `mod` on periodic dimensions -/
theorem normCoord_ok {d : Int} (hd : 1 ≤ d) (p : Bool) (c : Int) (h : p = true ∨ (0 ≤ c ∧ c < d)) :
    normCoord d p c = .ok (c % d) := by
  unfold normCoord
  by_cases h1 : c ≥ d
  · have hp : p = true := by rcases h with h | h <;> first | exact h | omega
    rw [if_pos h1, if_pos hp, if_neg (by omega), tmod_nonneg_eq (by omega)]
  · rw [if_neg h1]
    by_cases h2 : c < 0
    · have hp : p = true := by rcases h with h | h <;> first | exact h | omega
      rw [if_pos h2, if_pos hp, if_neg (by omega)]
      simp only
      have e := @Int.tmod_eq_emod c d
      have hm0 : 0 ≤ c % d := Int.emod_nonneg _ (by omega)
      have hm1 : c % d < d := Int.emod_lt_of_pos _ (by omega)
      by_cases hdv : d ∣ c
      · have : c % d = 0 := Int.emod_eq_zero_of_dvd hdv
        simp [hdv] at e
        rw [e, this]; simp
      · have hno : ¬ (0 ≤ c ∨ d ∣ c) := by intro h'; rcases h' with h' | h' <;> first | omega | exact hdv h'
        rw [if_neg hno] at e
        have hna : (d.natAbs : Int) = d := by omega
        rw [hna] at e
        rw [e, if_pos (by omega)]
        congr 1; omega
    · rw [if_neg h2, Int.emod_eq_of_lt (by omega) (by omega)]

theorem normCoord_err {d : Int} (c : Int) (h : ¬ (0 ≤ c ∧ c < d)) : normCoord d false c = .err .arg := by
  unfold normCoord
  by_cases h1 : c ≥ d
  · simp [h1]
  · have : c < 0 := by omega
    simp [h1, this]

theorem wrap_inRange {ds cs : List Int} (h : InRange ds cs) : wrap ds cs = cs := by
  induction ds generalizing cs with
  | nil => cases cs <;> simp [InRange, wrap] at *
  | cons d ds ih =>
    cases cs with
    | nil => simp [InRange] at h
    | cons c cs =>
      obtain ⟨h0, h1, hr⟩ := h
      simp [wrap, ih hr, Int.emod_eq_of_lt h0 h1]

theorem inRange_wrap {ds cs : List Int} (hv : ValidDims ds) (hl : cs.length = ds.length) :
    InRange ds (wrap ds cs) := by
  induction ds generalizing cs with
  | nil => cases cs <;> simp [InRange, wrap] at *
  | cons d ds ih =>
    cases cs with
    | nil => simp at hl
    | cons c cs =>
      obtain ⟨hd, hds⟩ := validDims_cons hv
      exact ⟨Int.emod_nonneg _ (by omega), Int.emod_lt_of_pos _ (by omega), ih hds (by simpa using hl)⟩

theorem coordsOk_length {ds : List Int} {ps : List Bool} {cs : List Int} (h : coordsOk ds ps cs = true) :
    cs.length = ds.length := by
  induction ds generalizing ps cs with
  | nil => cases cs <;> simp [coordsOk] at *
  | cons d ds ih =>
    cases ps <;> cases cs <;> simp [coordsOk] at h ⊢
    exact ih h.2

theorem ok_pair {a b c d : Int} (h1 : a = c) (h2 : b = d) : (Res.ok (a, b) : Res (Int × Int)) = .ok (c, d) := by
  subst h1; subst h2; rfl

theorem coordsOk_of_inRange {ds : List Int} {ps : List Bool} {cs : List Int} (hp : ps.length = ds.length)
    (hr : InRange ds cs) : coordsOk ds ps cs = true := by
  induction ds generalizing ps cs with
  | nil => cases cs <;> simp [InRange, coordsOk] at *
  | cons d1 ds ih2 =>
    cases ps with
    | nil => simp at hp
    | cons p1 ps =>
      cases cs with
      | nil => simp [InRange] at hr
      | cons c1 cs =>
        obtain ⟨a, b, c'⟩ := hr
        simp only [coordsOk, Bool.and_eq_true, Bool.or_eq_true, decide_eq_true_eq]
        exact ⟨Or.inr ⟨a, b⟩, ih2 (by simpa using hp) c'⟩

/-- `Topo_Cart::rank` on acceptable coordinates = row-major rank of the wrapped coordinates -/
theorem rankAux_ok {ds : List Int} {ps : List Bool} {cs : List Int} (hv : ValidDims ds)
    (h : coordsOk ds ps cs = true) : rankAux ds ps cs = .ok (rowMajor ds (wrap ds cs), prod ds) := by
  induction ds generalizing ps cs with
  | nil => cases cs <;> simp [coordsOk, rankAux, rowMajor, wrap, prod] at *
  | cons d ds ih =>
    cases ps with
    | nil => simp [coordsOk] at h
    | cons p ps =>
      cases cs with
      | nil => simp [coordsOk] at h
      | cons c cs =>
        obtain ⟨hd, hds⟩ := validDims_cons hv
        simp only [coordsOk, Bool.and_eq_true, Bool.or_eq_true, decide_eq_true_eq] at h
        obtain ⟨hc, hr⟩ := h
        rw [rankAux, ih hds hr]
        simp only
        rw [normCoord_ok hd p c hc]
        simp only [rowMajor, wrap, prod]
        exact ok_pair (by rw [Int.add_comm, Int.mul_comm]) (Int.mul_comm _ _)

/-- out-of-range coordinate on a non-periodic dimension: `MPI_ERR_ARG` (and `*rank = -1`) -/
theorem rankAux_err {ds : List Int} {ps : List Bool} {cs : List Int} (hv : ValidDims ds)
    (hl : cs.length = ds.length) (hp : ps.length = ds.length)
    (h : coordsOk ds ps cs = false) : rankAux ds ps cs = .err .arg := by
  induction ds generalizing ps cs with
  | nil => cases cs <;> simp [coordsOk] at *
  | cons d ds ih =>
    cases ps with
    | nil => simp at hp
    | cons p ps =>
      cases cs with
      | nil => simp at hl
      | cons c cs =>
        obtain ⟨hd, hds⟩ := validDims_cons hv
        rw [rankAux]
        by_cases hr : coordsOk ds ps cs = true
        · rw [rankAux_ok hds hr]
          simp only
          simp only [coordsOk, hr, Bool.and_true, Bool.or_eq_false_iff] at h
          obtain ⟨hpf, hc⟩ := h
          subst hpf
          rw [normCoord_err c (by simpa using hc)]
        · rw [ih hds (by simpa using hl) (by simpa using hp) (by simpa using hr)]

/-- replacing coordinate `dir` of an in-range vector by any value acceptable for that dimension -/
theorem rankAux_set {ds : List Int} {ps : List Bool} {pos : List Int} (hv : ValidDims ds)
    (hp : ps.length = ds.length) (hin : InRange ds pos) (dir : Nat) (d : Int) (per : Bool) (x : Int)
    (hd : ds[dir]? = some d) (hper : ps[dir]? = some per) (hx : per = true ∨ (0 ≤ x ∧ x < d)) :
    rankAux ds ps (pos.set dir x) = .ok (rowMajor ds (pos.set dir (x % d)), prod ds) := by
  induction ds generalizing ps pos dir with
  | nil => simp at hd
  | cons d0 ds ih =>
    cases ps with
    | nil => simp at hp
    | cons p ps =>
      cases pos with
      | nil => simp [InRange] at hin
      | cons c cs =>
        obtain ⟨hd0, hds⟩ := validDims_cons hv
        obtain ⟨hc0, hc1, hr⟩ := hin
        cases dir with
        | zero =>
          simp only [List.getElem?_cons_zero, Option.some.injEq] at hd hper
          subst hd; subst hper
          have hok : coordsOk ds ps cs = true := coordsOk_of_inRange (by simpa using hp) hr
          simp only [List.set_cons_zero]
          rw [rankAux, rankAux_ok hds hok]
          simp only
          rw [normCoord_ok hd0 p x hx, wrap_inRange hr]
          simp only [rowMajor, prod]
          exact ok_pair (by rw [Int.add_comm, Int.mul_comm]) (Int.mul_comm _ _)
        | succ k =>
          simp only [List.getElem?_cons_succ] at hd hper
          simp only [List.set_cons_succ]
          rw [rankAux, ih hds (by simpa using hp) hr k hd hper]
          simp only
          rw [normCoord_ok hd0 p c (Or.inr ⟨hc0, hc1⟩), Int.emod_eq_of_lt hc0 hc1]
          simp only [rowMajor, prod]
          exact ok_pair (by rw [Int.add_comm, Int.mul_comm]) (Int.mul_comm _ _)

theorem inRange_getElem {ds pos : List Int} (hin : InRange ds pos) (dir : Nat) (d : Int)
    (hd : ds[dir]? = some d) : ∃ c, pos[dir]? = some c ∧ 0 ≤ c ∧ c < d := by
  induction ds generalizing pos dir with
  | nil => simp at hd
  | cons d0 ds ih =>
    cases pos with
    | nil => simp [InRange] at hin
    | cons c cs =>
      obtain ⟨h0, h1, hr⟩ := hin
      cases dir with
      | zero => simp at hd; subst hd; exact ⟨c, by simp, h0, h1⟩
      | succ k => simpa using ih hr k (by simpa using hd)

theorem inRange_set {ds cs : List Int} (hin : InRange ds cs) (dir : Nat) (d x : Int)
    (hd : ds[dir]? = some d) (hx0 : 0 ≤ x) (hx1 : x < d) : InRange ds (cs.set dir x) := by
  induction ds generalizing cs dir with
  | nil => simp at hd
  | cons d0 ds ih =>
    cases cs with
    | nil => simp [InRange] at hin
    | cons c0 cs =>
      obtain ⟨a, b, r⟩ := hin
      cases dir with
      | zero => simp at hd; subst hd; exact ⟨hx0, hx1, r⟩
      | succ k => exact ⟨a, b, ih r k (by simpa using hd)⟩

theorem tmod_emod (v d : Int) : (v.tmod d) % d = v % d := by
  rw [Int.tmod_def, Int.sub_mul_emod_self_left]

/-! ### Dims_create -/

def prodN : List Nat → Nat
  | [] => 1
  | x :: xs => x * prodN xs

theorem prodN_append (a b : List Nat) : prodN (a ++ b) = prodN a * prodN b := by
  induction a with
  | nil => simp [prodN]
  | cons x xs ih => simp [prodN, ih, Nat.mul_assoc]

theorem divOut_spec (d : Nat) (n : Nat) (hn : 1 ≤ n) :
    (divOut d n).1 * prodN (divOut d n).2 = n ∧ 1 ≤ (divOut d n).1 := by
  induction n using Nat.strongRecOn with
  | _ n ih =>
    rw [divOut]
    split
    · rename_i hc
      obtain ⟨h2, _, hm⟩ := hc
      have hlt : n / d < n := Nat.div_lt_self (by omega) (by omega)
      have hq : 1 ≤ n / d := by
        have := Nat.div_add_mod n d
        rw [hm] at this
        rcases Nat.eq_zero_or_pos (n / d) with h0 | h0
        · rw [h0] at this; omega
        · exact h0
      obtain ⟨e1, e2⟩ := ih (n / d) hlt hq
      simp only [prodN]
      refine ⟨?_, e2⟩
      have := Nat.div_add_mod n d
      rw [hm] at this
      calc (divOut d (n / d)).1 * (d * prodN (divOut d (n / d)).2)
          = d * ((divOut d (n / d)).1 * prodN (divOut d (n / d)).2) := by
            rw [Nat.mul_left_comm]
        _ = d * (n / d) := by rw [e1]
        _ = n := by omega
    · simp [prodN]; omega

theorem oddLoop_prod (d num : Nat) (hn : 1 ≤ num) : prodN (oddLoop d num) = num := by
  fun_induction oddLoop d num with
  | case1 d num h r ih =>
    obtain ⟨e1, e2⟩ := divOut_spec d num hn
    rw [prodN_append, ih e2, Nat.mul_comm]
    exact e1
  | case2 d num h h2 => simp [prodN]
  | case3 d num h h2 => simp [prodN]; omega

theorem getfactors_prod (num : Int) (h : 1 ≤ num) : (prodN (getfactors num) : Int) = num := by
  unfold getfactors
  split
  · simp [prodN]; omega
  · obtain ⟨e1, e2⟩ := divOut_spec 2 num.toNat (by omega)
    simp only
    rw [prodN_append, oddLoop_prod _ _ e2, Nat.mul_comm, e1]
    omega

theorem minOf_mem : ∀ (l : List Nat), l ≠ [] → minOf l ∈ l
  | [], h => absurd rfl h
  | [x], _ => by simp [minOf]
  | x :: y :: ys, _ => by
    have ih := minOf_mem (y :: ys) (List.cons_ne_nil _ _)
    show Nat.min x (minOf (y :: ys)) ∈ x :: y :: ys
    rcases Nat.le_total x (minOf (y :: ys)) with h | h
    · have : Nat.min x (minOf (y :: ys)) = x := Nat.min_eq_left h
      rw [this]; simp
    · have : Nat.min x (minOf (y :: ys)) = minOf (y :: ys) := Nat.min_eq_right h
      rw [this]; exact List.mem_cons_of_mem _ ih

theorem mulFirst_prod (m f : Nat) (l : List Nat) (h : m ∈ l) : prodN (mulFirst m f l) = prodN l * f := by
  induction l with
  | nil => simp at h
  | cons x xs ih =>
    rw [mulFirst]
    split
    · simp only [prodN]; rw [Nat.mul_assoc, Nat.mul_assoc, Nat.mul_comm f]
    · rename_i hne
      have : m ∈ xs := by
        rcases List.mem_cons.mp h with h | h
        · exact absurd h.symm hne
        · exact h
      simp only [prodN, ih this, Nat.mul_assoc]

theorem mulFirst_length (m f : Nat) (l : List Nat) : (mulFirst m f l).length = l.length := by
  induction l with
  | nil => rfl
  | cons x xs ih => rw [mulFirst]; split <;> simp [ih]

theorem insertDesc_prod (x : Nat) (l : List Nat) : prodN (insertDesc x l) = x * prodN l := by
  induction l with
  | nil => simp [insertDesc, prodN]
  | cons y ys ih =>
    rw [insertDesc]; split
    · simp [prodN]
    · simp only [prodN, ih]; rw [Nat.mul_left_comm]

theorem insertDesc_length (x : Nat) (l : List Nat) : (insertDesc x l).length = l.length + 1 := by
  induction l with
  | nil => simp [insertDesc]
  | cons y ys ih => rw [insertDesc]; split <;> simp [ih]

theorem sortDesc_prod (l : List Nat) : prodN (sortDesc l) = prodN l := by
  induction l with
  | nil => rfl
  | cons x xs ih => simp [sortDesc, insertDesc_prod, ih, prodN]

theorem sortDesc_length (l : List Nat) : (sortDesc l).length = l.length := by
  induction l with
  | nil => rfl
  | cons x xs ih => simp [sortDesc, insertDesc_length, ih]

theorem foldl_mulMin (fs : List Nat) (bins : List Nat) (hb : bins ≠ []) :
    prodN (fs.foldl (fun bins f => mulMin f bins) bins) = prodN bins * prodN fs ∧
    (fs.foldl (fun bins f => mulMin f bins) bins).length = bins.length := by
  induction fs generalizing bins with
  | nil => simp [prodN]
  | cons f fs ih =>
    have hl : (mulMin f bins).length = bins.length := mulFirst_length _ _ _
    have hne : mulMin f bins ≠ [] := by
      intro h; rw [h] at hl; cases bins <;> simp at hl hb
    obtain ⟨e1, e2⟩ := ih (mulMin f bins) hne
    simp only [List.foldl_cons]
    refine ⟨?_, by rw [e2, hl]⟩
    rw [e1]
    unfold mulMin
    rw [mulFirst_prod _ _ _ (minOf_mem bins hb)]
    simp only [prodN, Nat.mul_assoc]

theorem prodN_replicate_one (n : Nat) : prodN (List.replicate n 1) = 1 := by
  induction n with
  | zero => rfl
  | succ n ih => simp [List.replicate_succ, prodN, ih]

theorem prodN_reverse (l : List Nat) : prodN l.reverse = prodN l := by
  induction l with
  | nil => rfl
  | cons x xs ih => simp [prodN_append, prodN, ih, Nat.mul_comm]

theorem assignnodes_spec (ndim : Nat) (fs : List Nat) (h : 0 < ndim) :
    ∃ procs, assignnodes ndim fs = .ok procs ∧ prodN procs = prodN fs ∧ procs.length = ndim := by
  unfold assignnodes
  rw [if_neg (by omega)]
  have hne : List.replicate ndim 1 ≠ [] := by
    cases ndim with
    | zero => omega
    | succ n => simp [List.replicate_succ]
  obtain ⟨e1, e2⟩ := foldl_mulMin fs.reverse (List.replicate ndim 1) hne
  refine ⟨_, rfl, ?_, ?_⟩
  · rw [sortDesc_prod, e1, prodN_replicate_one, prodN_reverse]; simp
  · rw [sortDesc_length, e2]; simp

/-- number of zero ("free") entries -/
def zerosOf : List Int → Nat
  | [] => 0
  | d :: ds => if d = 0 then zerosOf ds + 1 else zerosOf ds

/-- product of the non-zero ("given") entries -/
def prodGiven : List Int → Int
  | [] => 1
  | d :: ds => if d = 0 then prodGiven ds else d * prodGiven ds

/-- entries given by the caller are kept, free ones may change -/
def Respects : List Int → List Int → Prop
  | d :: ds, o :: os => (d ≠ 0 → o = d) ∧ Respects ds os
  | [], [] => True
  | _, _ => False

theorem fillFree_spec (dims : List Int) (procs : List Nat) (h : procs.length = zerosOf dims) :
    prod (fillFree dims procs) = prodGiven dims * (prodN procs : Int) ∧ Respects dims (fillFree dims procs) := by
  induction dims generalizing procs with
  | nil => cases procs <;> simp [fillFree, prod, prodGiven, prodN, Respects, zerosOf] at *
  | cons d ds ih =>
    unfold fillFree
    by_cases hd : d = 0
    · subst hd
      simp only [zerosOf, if_true] at h
      cases procs with
      | nil => simp at h
      | cons p ps =>
        obtain ⟨e1, e2⟩ := ih ps (by simpa using h)
        simp only [if_true, prod, prodGiven, prodN, Respects, e1]
        refine ⟨?_, by simp, e2⟩
        rw [Int.natCast_mul, Int.mul_left_comm]
    · simp only [zerosOf, if_neg hd] at h
      obtain ⟨e1, e2⟩ := ih procs h
      simp only [if_neg hd, prod, prodGiven, Respects, e1]
      exact ⟨by rw [Int.mul_assoc], by simp, e2⟩

theorem mapOne_spec (dims : List Int) :
    prod (dims.map (fun d => if d = 0 then 1 else d)) = prodGiven dims ∧
    Respects dims (dims.map (fun d => if d = 0 then 1 else d)) := by
  induction dims with
  | nil => simp [prod, prodGiven, Respects]
  | cons d ds ih =>
    by_cases hd : d = 0
    · simp [hd, prod, prodGiven, Respects, ih.1, ih.2]
    · simp [hd, prod, prodGiven, Respects, ih.1, ih.2]

theorem respects_refl (dims : List Int) : Respects dims dims := by
  induction dims with
  | nil => simp [Respects]
  | cons d ds ih => simp [Respects, ih]

theorem prod_eq_prodGiven (dims : List Int) (h : zerosOf dims = 0) : prod dims = prodGiven dims := by
  induction dims with
  | nil => rfl
  | cons d ds ih =>
    by_cases hd : d = 0
    · simp [zerosOf, hd] at h
    · simp only [zerosOf, if_neg hd] at h
      simp [prod, prodGiven, hd, ih h]

/-- the tail of `Dims_create`: whatever `freeprocs ≥ 1` the scan computed, the free entries are filled with
dimensions whose product is `freeprocs`, and the given entries are kept -/
theorem dimsCreateTail_spec (dims : List Int) (fp : Int) (hfp : 1 ≤ fp) (out : List Int)
    (h : dimsCreateTail dims fp (zerosOf dims) = .ok out) :
    prod out = prodGiven dims * fp ∧ Respects dims out := by
  unfold dimsCreateTail at h
  split at h
  · rename_i hz
    split at h
    · rename_i h1
      injection h with h; subst h; subst h1
      exact ⟨by rw [prod_eq_prodGiven _ hz]; omega, respects_refl _⟩
    · cases h
  · rename_i hz
    split at h
    · rename_i h1
      injection h with h; subst h; subst h1
      obtain ⟨a, b⟩ := mapOne_spec dims
      exact ⟨by rw [a]; omega, b⟩
    · obtain ⟨procs, e1, e2, e3⟩ := assignnodes_spec (zerosOf dims) (getfactors fp) (by omega)
      rw [e1] at h
      injection h with h; subst h
      obtain ⟨a, b⟩ := fillFree_spec dims procs e3
      refine ⟨?_, b⟩
      rw [a, e2, getfactors_prod fp hfp]

theorem scanGiven_freedims (n : Int) (fp : Int) (fd : Nat) (ds : List Int) (fp' : Int) (fd' : Nat)
    (h : scanGiven n fp fd ds = .ok (fp', fd')) : fd' = fd + zerosOf ds := by
  induction ds generalizing fp fd with
  | nil => simp [scanGiven] at h; simp [zerosOf, h.2]
  | cons d ds ih =>
    rw [scanGiven] at h
    split at h
    · rename_i hd
      have := ih _ _ h
      simp [zerosOf, hd]; omega
    · rename_i hd
      split at h
      · cases h
      · have := ih _ _ h
        simp [zerosOf, hd]; omega

/-- when the product of the given entries divides what is left, the successive C divisions are exact -/
theorem scanGiven_exact (n : Int) (fp : Int) (fd : Nat) (ds : List Int) (fp' : Int) (fd' : Nat)
    (hfp : 1 ≤ fp) (hdvd : prodGiven ds ∣ fp)
    (h : scanGiven n fp fd ds = .ok (fp', fd')) : fp' * prodGiven ds = fp ∧ 1 ≤ fp' := by
  induction ds generalizing fp fd with
  | nil =>
    simp only [scanGiven, Res.ok.injEq, Prod.mk.injEq] at h
    obtain ⟨h1, _⟩ := h
    subst h1
    simp [prodGiven, hfp]
  | cons d ds ih =>
    rw [scanGiven] at h
    split at h
    · rename_i hd
      simp only [prodGiven, hd, if_true] at hdvd ⊢
      exact ih _ _ hfp hdvd h
    · rename_i hd
      split at h
      · cases h
      · rename_i hc
        have hdpos : 0 < d := by omega
        simp only [prodGiven, if_neg hd] at hdvd ⊢
        obtain ⟨k, hk⟩ := hdvd
        have hq : fp.tdiv d = prodGiven ds * k := by
          rw [tdiv_nonneg_eq (by omega), hk, Int.mul_assoc, Int.mul_ediv_cancel_left _ (by omega)]
        have hq1 : 1 ≤ fp.tdiv d := by
          rw [hq]
          have : 0 < d * (prodGiven ds * k) := by rw [← Int.mul_assoc, ← hk]; omega
          have := Int.pos_of_mul_pos_right this hdpos
          omega
        obtain ⟨e1, e2⟩ := ih _ _ hq1 (by rw [hq]; exact Int.dvd_mul_right _ _) h
        refine ⟨?_, e2⟩
        rw [Int.mul_left_comm, e1, hq, hk, Int.mul_assoc]

theorem scanGivenFixed_spec (fp : Int) (fd : Nat) (ds : List Int) (fp' : Int) (fd' : Nat) (hfp : 1 ≤ fp)
    (h : scanGivenFixed fp fd ds = .ok (fp', fd')) :
    fp' * prodGiven ds = fp ∧ 1 ≤ fp' ∧ fd' = fd + zerosOf ds := by
  induction ds generalizing fp fd with
  | nil =>
    simp only [scanGivenFixed, Res.ok.injEq, Prod.mk.injEq] at h
    obtain ⟨h1, h2⟩ := h
    subst h1; subst h2
    simp [prodGiven, zerosOf, hfp]
  | cons d ds ih =>
    rw [scanGivenFixed] at h
    split at h
    · rename_i hd
      obtain ⟨a, b, c⟩ := ih _ _ hfp h
      simp only [prodGiven, zerosOf, hd, if_true]
      exact ⟨a, b, by omega⟩
    · rename_i hd
      split at h
      · cases h
      · rename_i hc
        have hdpos : 0 < d := by omega
        have hm : fp % d = 0 := by
          have : fp.tmod d = 0 := by
            apply Classical.byContradiction; intro hne; exact hc (Or.inr hne)
          rwa [tmod_nonneg_eq (by omega)] at this
        have hqe : fp.tdiv d = fp / d := tdiv_nonneg_eq (by omega)
        have hmul : d * (fp / d) = fp := by
          have := Int.mul_ediv_add_emod fp d
          omega
        have hq1 : 1 ≤ fp.tdiv d := by
          rw [hqe]
          have : 0 < d * (fp / d) := by omega
          have := Int.pos_of_mul_pos_right this hdpos
          omega
        obtain ⟨a, b, c⟩ := ih _ _ hq1 h
        simp only [prodGiven, zerosOf, if_neg hd]
        refine ⟨?_, b, c⟩
        rw [Int.mul_left_comm, a, hqe, hmul]

end SgVerif.C33
