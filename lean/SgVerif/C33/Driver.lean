import SgVerif.C33.Model
import SgVerif.Common.Proto
open SgVerif.Proto
namespace SgVerif.C33

def fnv (vs : List Int) : UInt64 :=
  vs.foldl (fun h v => (h ^^^ (UInt64.ofNat ((v % 4294967296).toNat))) * 1099511628211) 14695981039346656037

def codeOf {α : Type} : Res α → Int
  | .ok _ => 0
  | .err .arg => 1
  | .err .dims => 2
  | .ub => 98

def b2i (b : Bool) : Int := if b then 1 else 0

def disps (d : Int) : List Int := (List.range (4 * d.toNat + 1)).map (fun (i : Nat) => Int.ofNat i - 2 * d)

/-! #### what the MODEL (the code as written) answers -/

def rankVals (t : Cart) (cs : List Int) : List Int :=
  match t.rank cs with
  | .ok r => [0, r]
  | .err e => [codeOf (Res.err e : Res Int), -1]
  | .ub => [98, -777]

def shiftVals (t : Cart) (me : Int) (dir : Nat) (disp : Int) : List Int :=
  match t.shift me dir disp with
  | .ok (s, d) => [0, s, d]
  | r => [codeOf r, -777, -777]

/-- the value sequence of `values_T` in harness.c, from the model -/
def modelT (dims : List Int) (pers : List Bool) (me : Int) : Option (List Int) :=
  match ctor me dims pers with
  | .ok (t, true) =>
    match t.coords me with
    | .ok cs =>
      let perDir := (List.range dims.length).flatMap fun dir =>
        let d := dims.getD dir 0
        let c := cs.getD dir 0
        (disps d).flatMap fun disp => shiftVals t me dir disp ++ rankVals t (cs.set dir (c + disp))
      some (0 :: cs ++ rankVals t cs ++ perDir)
    | _ => some [98]
  | _ => none

/-! #### what the SPEC (MPI) answers: independent small definitions -/

/-- coordinate `i` of rank `r`: `(r / Π_{j>i} d_j) mod d_i` -/
def digits : List Int → Int → List Int
  | [], _ => []
  | d :: ds, r => (r / prod ds) % d :: digits ds r

def rankSpecVals (dims : List Int) (pers : List Bool) (cs : List Int) : List Int :=
  if coordsOk dims pers cs then [0, rowMajor dims (wrap dims cs)] else [1, -1]

def specT (dims : List Int) (pers : List Bool) (me : Int) : Option (List Int) :=
  if 0 ≤ me ∧ me < prod dims then
    let cs := digits dims me
    let perDir := (List.range dims.length).flatMap fun dir =>
      let d := dims.getD dir 0
      let c := cs.getD dir 0
      let per := pers.getD dir false
      (disps d).flatMap fun disp =>
        [0, shiftSpec dims cs dir d per c (-disp), shiftSpec dims cs dir d per c disp]
          ++ rankSpecVals dims pers (cs.set dir (c + disp))
    some (0 :: cs ++ rankSpecVals dims pers cs ++ perDir)
  else none

/-! #### Cart_sub -/

def indexOf (xs : List Nat) (x : Nat) : Nat := (xs.takeWhile (· ≠ x)).length

def modelS (fixSub : Bool) (dims : List Int) (pers : List Bool) (remain : List Bool) (nn : Nat) (me : Nat) : List Int :=
  let newDims := keep remain dims
  let newPers := keep remain pers
  if newDims.length = 0 then
    -- `new Topo_Cart(getComm(), 0, …, newcomm)`: parent rank 0 gets a communicator on MPI_COMM_SELF's group, the others MPI_COMM_NULL
    if me = 0 then [0, 0, 0, 1, 0, 0, 1] else [0, 1]
  else
    let colorOf (r : Nat) : Int :=
      match ctor r dims pers with
      | .ok (t, _) => t.color remain
      | _ => -1
    let mine := colorOf me
    let members := (List.range nn).filter (fun r => colorOf r == mine)
    let sr := indexOf members me
    -- `subTopo`: the constructor sees the rank in the PARENT; with proposed_fix.diff (`fixsub`) the rank in the new communicator
    match ctor (if fixSub then (sr : Int) else (me : Int)) newDims newPers with
    | .ok (t', _) =>
      let allpos := t'.dims.all (· > 0)
      let tail : List Int :=
        if allpos then
          let cv : List Int := match t'.coords sr with
            | .ok cs => 0 :: cs
            | r => [codeOf r]
          let sh := (List.range newDims.length).flatMap fun dir => shiftVals t' sr dir 1
          1 :: (cv ++ sh)
        else [0]
      [0, 0, (sr : Int), (members.length : Int), (newDims.length : Int)] ++ t'.dims ++ t'.periodic.map b2i ++ t'.position
        ++ members.map (fun (r : Nat) => Int.ofNat r) ++ tail
    | _ => [98]

/-- spec: kept sizes and periodicities, the members are the processes with the same dropped coordinates ordered by
rank, my coordinates are those of my rank in the new communicator, shifts as in a grid of the kept dimensions -/
def specS (dims : List Int) (pers : List Bool) (remain : List Bool) (nn : Nat) (me : Nat) : List Int × Nat :=
  let newDims := keep remain dims
  let newPers := keep remain pers
  let dropped (r : Nat) : List Int := keep (remain.map (!·)) (digits dims r)
  let mine := dropped me
  let members := (List.range nn).filter (fun r => dropped r == mine)
  let sr := indexOf members me
  let cs := digits newDims sr
  let sh := (List.range newDims.length).flatMap fun dir =>
    let d := newDims.getD dir 0
    let c := cs.getD dir 0
    let per := newPers.getD dir false
    [0, shiftSpec newDims cs dir d per c (-1), shiftSpec newDims cs dir d per c 1]
  ([0, 0, (sr : Int), (members.length : Int), (newDims.length : Int)] ++ newDims ++ newPers.map b2i ++ cs
    ++ members.map (fun (r : Nat) => Int.ofNat r) ++ (1 :: 0 :: cs) ++ sh, sr)

/-! #### Dims_create monitor -/

def prodGivenD : List Int → Int
  | [] => 1
  | d :: ds => if d = 0 then prodGivenD ds else d * prodGivenD ds

def respectsD : List Int → List Int → Bool
  | d :: ds, o :: os => (d == 0 || o == d) && respectsD ds os
  | [], [] => true
  | _, _ => false

/-! #### parsing / judging -/

def ints (l : List String) : Option (List Int) := l.mapM String.toInt?

def toBools (l : List Int) : List Bool := l.map (· ≠ 0)

def showInts (l : List Int) : String := " ".intercalate (l.map toString)

/-- split `| n v1..vn | n …` groups -/
def groups (a : List String) : List (List String) :=
  (a.splitBy (fun _ y => y ≠ "|")).map (fun g => g.drop 1)

def judgeT (dims : List Int) (pers : List Bool) (a : List String) : Verdict := Id.run do
  let mut i : Nat := 0
  for tok in a do
    let m := modelT dims pers i
    let s := specT dims pers i
    match tok.toNat?, m, s with
    | none, none, none => pure ()           -- "N" expected and found
    | some h, some mv, some sv =>
      let hu := UInt64.ofNat h
      if hu ≠ fnv sv then return .monfail s!"rank {i}: hash of the implementation's values differs from the MPI-defined values"
      if hu ≠ fnv mv then return .disagree s!"rank {i}: hash differs from the model's"
    | _, none, none => return .monfail s!"rank {i} is outside the grid but got a communicator"
    | none, _, _ => return .monfail s!"rank {i} of the grid got MPI_COMM_NULL"
    | _, _, _ => return .disagree s!"rank {i}: model and spec disagree on membership"
    i := i + 1
  return .ok

def judge (fixSub fixDims : Bool) (q a : List String) : Verdict :=
  match q with
  | "T" :: rest =>
    match ints rest with
    | some (k :: xs) =>
      let k := k.toNat
      judgeT (xs.take k) (toBools ((xs.drop k).take k)) a
    | _ => .bad
  | "V" :: rest =>
    match ints rest with
    | some (k :: xs) =>
      let k := k.toNat
      let dims := xs.take k
      let pers := toBools ((xs.drop k).take k)
      let me := (xs.drop (2 * k)).headD 0
      match modelT dims pers me, specT dims pers me, a with
      | none, none, ["N"] => .ok
      | some mv, some sv, _ =>
        match ints a with
        | some iv =>
          if iv ≠ sv then
            -- locate the first differing value for the report
            let idx := ((iv.zip sv).takeWhile (fun p => p.1 == p.2)).length
            .monfail s!"value #{idx} of rank {me}: implementation {iv.getD idx 0}, MPI {sv.getD idx 0}"
          else if iv ≠ mv then .disagree (showInts mv) else .ok
        | none => .monfail s!"rank {me} of the grid got MPI_COMM_NULL"
      | _, _, _ => .monfail s!"membership of rank {me}"
    | _ => .bad
  | "S" :: rest =>
    match ints rest with
    | some (k :: xs) =>
      let k := k.toNat
      let dims := xs.take k
      let pers := toBools ((xs.drop k).take k)
      let remain := toBools ((xs.drop (2 * k)).take k)
      let nn := (prod dims).toNat
      let gs := groups a
      let nd := (keep remain dims).length
      Id.run do
        let mut i : Nat := 0
        let mut failing : List Nat := []
        let mut keyOk := true
        let mut differ : Option String := none
        for g in gs do
          match ints g with
          | none => return .bad
          | some (n :: vs) =>
            if i < nn then
              if n < 0 then return .monfail s!"key=other rank {i} of the grid got MPI_COMM_NULL from Cart_create"
              let mv := modelS fixSub dims pers remain nn i
              if vs ≠ mv ∧ differ.isNone then differ := some s!"rank {i}: model={showInts mv} impl={showInts vs}"
              if nd > 0 then
                let (sv, sr) := specS dims pers remain nn i
                if vs ≠ sv then
                  failing := i :: failing
                  if sr = i then keyOk := false
            else
              if n ≥ 0 then return .monfail s!"key=other rank {i} is outside the grid but got a communicator"
          | some [] => return .bad
          i := i + 1
        if ¬ failing.isEmpty then
          let key := if keyOk then "cart-sub-built-from-parent-rank" else "other"
          return .monfail s!"key={key} model={if differ.isNone then "agree" else "differ"} sub-topology differs from MPI's on parent ranks {failing.reverse}"
        match differ with
        | some d => return .disagree d
        | none => return .ok
    | _ => .bad
  | "R" :: rest =>
    match ints rest, ints a with
    | some (k :: xs), some iv =>
      let k := k.toNat
      let dims := xs.take k
      let pers := toBools ((xs.drop k).take k)
      let cs := (xs.drop (2 * k)).take k
      match ctor 0 dims pers with
      | .ok (t, true) =>
        if iv ≠ rankSpecVals dims pers cs then .monfail s!"Cart_rank: MPI gives {rankSpecVals dims pers cs}"
        else cmpAns ((rankVals t cs).map toString) a
      | _ => .bad
    | _, _ => .bad
  | "D" :: rest =>
    match ints rest, ints a with
    | some (nn :: _k :: dims), some (c :: out) =>
      let m : List Int := match (if fixDims then dimsCreateFixed nn dims else dimsCreate nn dims) with
        | .ok o => 0 :: o
        | r => codeOf r :: dims
      -- monitor
      let g := prodGivenD dims
      let legal := nn ≥ 1 ∧ dims.length ≥ 1 ∧ dims.all (· ≥ 0) ∧ nn % g = 0 ∧ (dims.any (· == 0) ∨ g = nn)
      let eachDivides := dims.all (fun d => d == 0 || (d > 0 && nn % d == 0))
      let key := if eachDivides ∧ dims.all (· ≥ 0) ∧ nn % g ≠ 0 then "dims-create-given-product-not-dividing" else "other"
      if c = 0 ∧ ¬ legal then .monfail s!"key={key} erroneous call accepted: the product of the given entries does not divide nnodes"
      else if c = 0 ∧ ¬ (respectsD dims out ∧ prod out = nn ∧ out.all (· ≥ 1)) then
        .monfail s!"key=other result {out}: product {prod out} (nnodes {nn}) or a given entry changed"
      else if c ≠ 0 ∧ legal then .monfail s!"key=other legal call rejected"
      else cmpAns (m.map toString) a
    | _, _ => .bad
  | _ => .bad

end SgVerif.C33

/-- arguments `fixsub` / `fixdims` select the model of the code with the corresponding part of proposed_fix.diff applied -/
def main (args : List String) : IO Unit :=
  SgVerif.Proto.run (SgVerif.C33.judge (args.contains "fixsub") (args.contains "fixdims"))
