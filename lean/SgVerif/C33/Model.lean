/-
C33 — model of the Cartesian topology code of SMPI: src/smpi/mpi/smpi_topo.cpp
(`Topo_Cart::Topo_Cart`, `coords`, `rank`, `shift`, `sub`, `Dims_create`, static `getfactors`, `assignnodes`).

C `int`s are modelled by `Int`; `/` and `%` of C are `Int.tdiv` / `Int.tmod` (truncation toward zero); an integer
division by zero is the explicit outcome `Res.ub` (the real code dies with SIGFPE), never Lean's `x / 0 = 0`.
32-bit overflow is *not* modelled (all quantities are bounded by nnodes * max|disp| in the uses we make).
The two parallel vectors `dims_` / `periodic_` (always of the same length `ndims_`) are two lists.
-/
namespace SgVerif.C33

/-- SMPI's value of `MPI_PROC_NULL` (include/smpi/smpi.h) -/
def PROC_NULL : Int := -666

inductive Err where
  | arg      -- MPI_ERR_ARG
  | dims     -- MPI_ERR_DIMS
  deriving Repr, DecidableEq

/-- outcome of a modelled C++ function -/
inductive Res (α : Type) where
  | ok (v : α)          -- returns MPI_SUCCESS, with these output values
  | err (code : Err)    -- returns this MPI error code
  | ub                  -- C undefined behaviour is reached (integer division by zero / out-of-bounds vector access)
  deriving Repr, DecidableEq

/-- the state of a `Topo_Cart` object: `nnodes_`, `dims_`, `periodic_`, `position_` (`ndims_ = dims.length`) -/
structure Cart where
  nnodes : Int
  dims : List Int
  periodic : List Bool
  position : List Int
  deriving Repr, DecidableEq

def prod : List Int → Int
  | [] => 1
  | d :: ds => d * prod ds

/-
int Topo_Cart::coords(int rank, int, int coords[]) {
  int nnodes = nnodes_;
  for (int i = 0; i< ndims_; i++ ) {
    nnodes    = nnodes /dims_[i];
    coords[i] = rank / nnodes;
    rank      = rank % nnodes;
  }
-/
def coordsGo : Int → Int → List Int → Res (List Int)
  | _, _, [] => .ok []
  | nnodes, rank, d :: ds =>
    if d = 0 then .ub else
    let nn := nnodes.tdiv d
    if nn = 0 then .ub else
    match coordsGo nn (rank.tmod nn) ds with
    | .ok cs => .ok (rank.tdiv nn :: cs)
    | r => r

def Cart.coords (t : Cart) (rank : Int) : Res (List Int) := coordsGo t.nnodes rank t.dims

/-
the body of the loop of `Topo_Cart::rank` for one coordinate:
    if (coord >= dims_[i]) {
      if (periodic_[i]) coord = coord % dims_[i];
      else { *rank = -1; return MPI_ERR_ARG; }
    } else if (coord < 0) {
      if (periodic_[i]) { coord = coord % dims_[i]; if (coord) coord = dims_[i] + coord; }
      else { *rank = -1; return MPI_ERR_ARG; }
    }
-/
def normCoord (d : Int) (per : Bool) (coord : Int) : Res Int :=
  if coord ≥ d then
    if per then (if d = 0 then .ub else .ok (coord.tmod d)) else .err .arg
  else if coord < 0 then
    if per then
      if d = 0 then .ub else
      let c := coord.tmod d
      .ok (if c ≠ 0 then d + c else c)
    else .err .arg
  else .ok coord

/-
int Topo_Cart::rank(const int* coords, int* rank) {
  *rank = 0; int multiplier = 1;
  for (int i=ndims-1; i >=0; i-- ) {
    int coord = coords[i];
    <normCoord>
    *rank += multiplier * coord;
    multiplier *= dims_[i];
  }
The loop runs from the LAST dimension to the first; `rankAux` is that loop written as a recursion on the suffix
`i..ndims-1`: the recursive call (dimensions after i) is evaluated first, then dimension i — the same order, the
same early exit.  It returns `(*rank, multiplier)`.
-/
def rankAux : List Int → List Bool → List Int → Res (Int × Int)
  | d :: ds, p :: ps, c :: cs =>
    match rankAux ds ps cs with
    | .ok (r, m) =>
      match normCoord d p c with
      | .ok c' => .ok (r + m * c', m * d)
      | .err e => .err e
      | .ub => .ub
    | r => r
  | [], _, _ => .ok (0, 1)
  | _ :: _, _, _ => .ub         -- coords / periodic_ shorter than ndims_: out-of-bounds read

/-- `Topo_Cart::rank`: the return code and `*rank` -/
def Cart.rank (t : Cart) (coords : List Int) : Res Int :=
  match rankAux t.dims t.periodic coords with
  | .ok (r, _) => .ok r
  | .err e => .err e
  | .ub => .ub

/-- the value left in `*rank` when the return code is ignored, as `shift` does (`-1` on MPI_ERR_ARG) -/
def Cart.rankVal (t : Cart) (coords : List Int) : Res Int :=
  match t.rank coords with
  | .ok r => .ok r
  | .err _ => .ok (-1)
  | .ub => .ub

/-
  if(position[direction] < 0 || position[direction] >= dims_[direction]) {
    if(periodic_[direction]) { position[direction] %= dims_[direction]; this->rank(position.data(), rank_dest); }
    else *rank_dest = MPI_PROC_NULL;
  } else this->rank(position.data(), rank_dest);
-/
def Cart.shiftTarget (t : Cart) (pos : List Int) (dir : Nat) (v d : Int) (per : Bool) : Res Int :=
  if v < 0 ∨ v ≥ d then
    if per then (if d = 0 then .ub else t.rankVal (pos.set dir (v.tmod d)))
    else .ok PROC_NULL
  else t.rankVal (pos.set dir v)

/-
int Topo_Cart::shift(int direction, int disp, int* rank_source, int* rank_dest) {
  if(ndims_ == 0) return MPI_ERR_ARG;
  if (ndims_ < direction) return MPI_ERR_DIMS;          // (sic: direction == ndims_ passes; then dims_[ndims_] is read)
  std::vector<int> position(ndims_);
  this->coords(getComm()->rank(), ndims_, position.data());
  position[direction] += disp;
  <shiftTarget → rank_dest>
  position[direction] = position_[direction] - disp;
  <shiftTarget → rank_source>
`me` is `getComm()->rank()`.  Result: (rank_source, rank_dest).  (`direction < 0` is rejected by PMPI_Cart_shift.)
-/
def Cart.shift (t : Cart) (me : Int) (direction : Nat) (disp : Int) : Res (Int × Int) :=
  if t.dims.length = 0 then .err .arg
  else if t.dims.length < direction then .err .dims
  else
    match t.dims[direction]?, t.periodic[direction]?, t.position[direction]? with
    | some d, some per, some own =>
      match t.coords me with
      | .ok pos =>
        match pos[direction]? with
        | some c =>
          match t.shiftTarget pos direction (c + disp) d per with
          | .ok dest =>
            match t.shiftTarget pos direction (own - disp) d per with
            | .ok src => .ok (src, dest)
            | r => match r with | .err e => .err e | _ => .ub
          | .err e => .err e
          | .ub => .ub
        | none => .ub
      | .err e => .err e
      | .ub => .ub
    | _, _, _ => .ub            -- direction == ndims_: out-of-bounds access

/-
Topo_Cart::Topo_Cart(MPI_Comm comm_old, int ndims, const int dims[], const int periods[], int, MPI_Comm* comm_cart)
  : Topo_Cart(ndims)                        // nnodes_ = 0, dims_/periodic_/position_ = ndims zeros
  int rank = comm_old->rank();
  if(ndims != 0) {
    int newSize = 1; for (...) newSize *= dims[i];
    if(rank >= newSize) { if(comm_cart != nullptr) *comm_cart = MPI_COMM_NULL; return; }
    nnodes_ = newSize;
    int nranks = newSize;
    for (int i=0; i<ndims; i++) {
      dims_[i] = dims[i]; periodic_[i] = periods[i];
      nranks = nranks / dims[i];
      position_[i] = rank / nranks;
      rank = rank % nranks;
    }
    ...
`ctor rank dims periods` = the object state after the constructor (the position loop is the loop of `coords`);
the second component says whether the process is a member (`rank < newSize`; for ndims = 0: `rank = 0`).
-/
def zeros (n : Nat) : List Int := List.replicate n 0

def ctor (rank : Int) (dims : List Int) (periods : List Bool) : Res (Cart × Bool) :=
  if dims.length ≠ 0 then
    let newSize := prod dims
    if rank ≥ newSize then
      .ok ({ nnodes := 0, dims := zeros dims.length, periodic := List.replicate dims.length false,
             position := zeros dims.length }, false)
    else
      match coordsGo newSize rank dims with
      | .ok pos => .ok ({ nnodes := newSize, dims := dims, periodic := periods, position := pos }, true)
      | .err e => .err e
      | .ub => .ub
  else .ok ({ nnodes := 0, dims := [], periodic := [], position := [] }, rank = 0)

/-- `newDims[j] = dims_[i]` for the `i` with `remain_dims[i]` -/
def keep {α : Type} : List Bool → List α → List α
  | r :: rs, x :: xs => if r then x :: keep rs xs else keep rs xs
  | _, _ => []

/-
  int color = 0;
  for (int i = 0; i < oldNDims; i++) if (not remain_dims[i]) color = (color * dims_[i] + position_[i]);
-/
def colorGo : Int → List Bool → List Int → List Int → Int
  | color, r :: rs, d :: ds, p :: ps => if !r then colorGo (color * d + p) rs ds ps else colorGo color rs ds ps
  | color, _, _, _ => color

def Cart.color (t : Cart) (remain : List Bool) : Int := colorGo 0 remain t.dims t.position

/-
Topo_Cart* Topo_Cart::sub(const int remain_dims[], MPI_Comm *newcomm)
  ...
  if (newNDims == 0){
    res = new Topo_Cart(getComm(), newNDims, newDims.data(), newPeriodic.data(), 0, newcomm);
  } else {
    *newcomm = getComm()->split(color, getComm()->rank());
    auto topo = std::make_shared<Topo_Cart>(getComm(), newNDims, newDims.data(), newPeriodic.data(), 0, nullptr);
`subTopo t me remain`: the topology object attached to the new communicator of the process whose rank in the
PARENT communicator is `me` — the constructor is given `getComm()` (the parent), so `comm_old->rank()` is `me`.
`fixedSub` = proposed_fix.diff applied (the constructor is given `*newcomm`): the rank is the one in the new communicator.
-/
def Cart.subTopo (t : Cart) (me : Int) (remain : List Bool) : Res (Cart × Bool) :=
  ctor me (keep remain t.dims) (keep remain t.periodic)

/-- rank of process `me` in the communicator returned by `split(color, key = rank)`: the members are the parent
ranks with the same colour, ordered by parent rank (see C32 `split_order`), so it is the number of smaller parent
ranks with the same colour.  `colors` = the colour computed by every parent rank, indexed by rank. -/
def subRank (colors : List Int) (me : Nat) : Nat :=
  ((colors.take me).filter (fun c => some c == colors[me]?)).length

def Cart.subTopoFixed (t : Cart) (newRank : Int) (remain : List Bool) : Res (Cart × Bool) :=
  ctor newRank (keep remain t.dims) (keep remain t.periodic)

/-! ### Dims_create -/

/-- `while((num % d) == 0) { num /= d; factors.push_back(d); }` — returns (num, pushed factors).
(`d ≥ 2`, `num ≥ 1` in every call; for other arguments the C loop would not terminate and the model stops.) -/
def divOut (d : Nat) (num : Nat) : Nat × List Nat :=
  if h : 2 ≤ d ∧ 1 ≤ num ∧ num % d = 0 then
    let (n', fs) := divOut d (num / d)
    (n', d :: fs)
  else (num, [])
termination_by num
decreasing_by exact Nat.div_lt_self (by omega) (by omega)

/-
  int d = 3;
  while ((num > 1) && (d * d < num)) {      // (sic: `<`, so a remaining square p*p is pushed as ONE factor p*p)
    while((num % d) == 0) { num /= d; factors.push_back(d); }
    d += 2;
  }
  if(num != 1) factors.push_back(num);
-/
def oddLoop (d num : Nat) : List Nat :=
  if h : num > 1 ∧ d * d < num ∧ 2 ≤ d then
    let r := divOut d num
    r.2 ++ oddLoop (d + 2) r.1
  else if num ≠ 1 then [num] else []
termination_by num - d
decreasing_by
  have h1 : (divOut d num).1 ≤ num := by
    have : ∀ n, (divOut d n).1 ≤ n := by
      intro n
      induction n using Nat.strongRecOn with
      | _ n ih =>
        rw [divOut]
        split
        · rename_i hc
          have := ih (n / d) (Nat.div_lt_self (by omega) (by omega))
          have h2 : n / d ≤ n := Nat.div_le_self _ _
          simp only
          omega
        · simp
    exact this num
  have : d < num := by
    rcases h with ⟨_, h2, h3⟩
    have : d ≤ d * d := Nat.le_mul_self d
    omega
  omega

/-- `static int getfactors(int num, std::vector<int>& factors)` (always returns MPI_SUCCESS) -/
def getfactors (num : Int) : List Nat :=
  if num < 2 then [] else
  let r := divOut 2 num.toNat
  r.2 ++ oddLoop 3 r.1

/-- `auto pmin = std::min_element(dims.begin(), dims.end()); *pmin *= f;` — the FIRST smallest element -/
def minOf : List Nat → Nat
  | [] => 0
  | [x] => x
  | x :: xs => Nat.min x (minOf xs)

def mulFirst (m f : Nat) : List Nat → List Nat
  | [] => []
  | x :: xs => if x = m then (x * f) :: xs else x :: mulFirst m f xs

def mulMin (f : Nat) (bins : List Nat) : List Nat := mulFirst (minOf bins) f bins

def insertDesc (x : Nat) : List Nat → List Nat
  | [] => [x]
  | y :: ys => if x ≥ y then x :: y :: ys else y :: insertDesc x ys

/-- `std::sort(dims.begin(), dims.end(), std::greater<>())` (values only: any sorting algorithm gives this list) -/
def sortDesc : List Nat → List Nat
  | [] => []
  | x :: xs => insertDesc x (sortDesc xs)

/-
static int assignnodes(int ndim, const std::vector<int>& factors, std::vector<int>& dims) {
  if (0 >= ndim) return MPI_ERR_DIMS;
  dims.clear(); dims.resize(ndim, 1);
  for (auto pfact = factors.crbegin(); pfact != factors.crend(); ++pfact) { <mulMin> }
  std::sort(dims.begin(), dims.end(), std::greater<>());
-/
def assignnodes (ndim : Nat) (factors : List Nat) : Res (List Nat) :=
  if ndim = 0 then .err .dims else
  .ok (sortDesc (factors.reverse.foldl (fun bins f => mulMin f bins) (List.replicate ndim 1)))

/-
  int freeprocs = nnodes; int freedims = 0;
  for (int i = 0; i < ndims; ++i) {
    if (dims[i] == 0) ++freedims;
    else if ((dims[i] < 0) || ((nnodes % dims[i]) != 0)) return MPI_ERR_DIMS;
    else freeprocs /= dims[i];
  }
returns (freeprocs, freedims) or the error.
-/
def scanGiven (nnodes : Int) : Int → Nat → List Int → Res (Int × Nat)
  | freeprocs, freedims, [] => .ok (freeprocs, freedims)
  | freeprocs, freedims, d :: ds =>
    if d = 0 then scanGiven nnodes freeprocs (freedims + 1) ds
    else if d < 0 ∨ nnodes.tmod d ≠ 0 then .err .dims
    else scanGiven nnodes (freeprocs.tdiv d) freedims ds

/-- the same loop with proposed_fix.diff applied: `(freeprocs % dims[i]) != 0` -/
def scanGivenFixed : Int → Nat → List Int → Res (Int × Nat)
  | freeprocs, freedims, [] => .ok (freeprocs, freedims)
  | freeprocs, freedims, d :: ds =>
    if d = 0 then scanGivenFixed freeprocs (freedims + 1) ds
    else if d < 0 ∨ freeprocs.tmod d ≠ 0 then .err .dims
    else scanGivenFixed (freeprocs.tdiv d) freedims ds

/-- `if (dims[i] == 0) dims[i] = *p++;` -/
def fillFree : List Int → List Nat → List Int
  | [], _ => []
  | d :: ds, ps =>
    if d = 0 then
      match ps with
      | p :: ps' => (p : Int) :: fillFree ds ps'
      | [] => 0 :: fillFree ds []      -- unreachable: procs has exactly `freedims` entries
    else d :: fillFree ds ps

/-- the part of `Dims_create` after the scan loop -/
def dimsCreateTail (dims : List Int) (freeprocs : Int) (freedims : Nat) : Res (List Int) :=
  if freedims = 0 then
    if freeprocs = 1 then .ok dims else .err .dims
  else if freeprocs = 1 then
    .ok (dims.map (fun d => if d = 0 then 1 else d))
  else
    match assignnodes freedims (getfactors freeprocs) with
    | .ok procs => .ok (fillFree dims procs)
    | .err e => .err e
    | .ub => .ub

/-- `PMPI_Dims_create` + `Topo_Cart::Dims_create(nnodes, ndims, dims)`; `ndims = dims.length`.
(`if (ndims < 1 || nnodes < 1) return MPI_ERR_DIMS;` is the test of the PMPI wrapper.) -/
def dimsCreate (nnodes : Int) (dims : List Int) : Res (List Int) :=
  if dims.length < 1 ∨ nnodes < 1 then .err .dims else
  match scanGiven nnodes nnodes 0 dims with
  | .ok (freeprocs, freedims) => dimsCreateTail dims freeprocs freedims
  | .err e => .err e
  | .ub => .ub

def dimsCreateFixed (nnodes : Int) (dims : List Int) : Res (List Int) :=
  if dims.length < 1 ∨ nnodes < 1 then .err .dims else
  match scanGivenFixed nnodes 0 dims with
  | .ok (freeprocs, freedims) => dimsCreateTail dims freeprocs freedims
  | .err e => .err e
  | .ub => .ub

/-! ### the MPI specification, as small independent definitions -/

/-- row-major rank of in-range coordinates: Σ c_i · Π_{j>i} d_j -/
def rowMajor : List Int → List Int → Int
  | d :: ds, c :: cs => c * prod ds + rowMajor ds cs
  | _, _ => 0

/-- coordinates reduced into range (mathematical `mod`, result in `[0, d)`) -/
def wrap : List Int → List Int → List Int
  | d :: ds, c :: cs => (c % d) :: wrap ds cs
  | _, _ => []

/-- a coordinate vector is acceptable: right length, and in range on every non-periodic dimension -/
def coordsOk : List Int → List Bool → List Int → Bool
  | d :: ds, p :: ps, c :: cs => (p || (0 ≤ c && c < d)) && coordsOk ds ps cs
  | [], _, [] => true
  | _, _, _ => false

/-- MPI_Cart_shift in one direction: the neighbour at `c + delta` of coordinate `c` in a dimension of size `d` -/
def shiftSpec (dims : List Int) (pos : List Int) (dir : Nat) (d : Int) (per : Bool) (c delta : Int) : Int :=
  if per then rowMajor dims (pos.set dir ((c + delta) % d))
  else if 0 ≤ c + delta ∧ c + delta < d then rowMajor dims (pos.set dir (c + delta))
  else PROC_NULL

end SgVerif.C33
