import SgVerif.C33.Lemmas
/-
C33 — Cartesian topologies follow MPI rules.  Property theorems (nothing else in this file).
Every theorem is for ANY number of dimensions, ANY sizes ≥ 1, ANY periodicity pattern, any rank / coordinates /
displacement (an unbounded `Int`): no enumeration.  `decide` is used only for the `_counterexample`s (one concrete
witness each).
-/
namespace SgVerif.C33

/-- the state of the `Topo_Cart` object of process `me` of a Cartesian communicator as `Topo_Cart::Topo_Cart` leaves it
(see `ctor_wf`): sizes ≥ 1, `nnodes_` = their product, `position_` = `coords(me)` -/
structure Cart.WF (t : Cart) (me : Int) : Prop where
  valid : ValidDims t.dims
  plen : t.periodic.length = t.dims.length
  nn : t.nnodes = prod t.dims
  me0 : 0 ≤ me
  me1 : me < t.nnodes
  pos : t.coords me = .ok t.position

/-- the constructor establishes `WF` for every member process -/
theorem ctor_wf (me : Int) (dims : List Int) (periods : List Bool) (hv : ValidDims dims) (hne : dims ≠ [])
    (hp : periods.length = dims.length) (h0 : 0 ≤ me) (h1 : me < prod dims) :
    ∃ t, ctor me dims periods = .ok (t, true) ∧ t.WF me ∧ t.dims = dims ∧ t.periodic = periods := by
  obtain ⟨cs, hcs, _, _⟩ := coordsGo_spec hv h0 h1
  refine ⟨{ nnodes := prod dims, dims := dims, periodic := periods, position := cs }, ?_, ?_, rfl, rfl⟩
  · unfold ctor
    have : dims.length ≠ 0 := by cases dims <;> simp at hne ⊢
    rw [if_pos this]
    simp only
    rw [if_neg (by omega), hcs]
  · exact ⟨hv, hp, rfl, h0, h1, hcs⟩

/-- **Cart_rank ∘ Cart_coords = id**: for every rank of the grid, `coords` succeeds, gives in-range coordinates, and
`rank` maps them back to the rank -/
theorem coords_rank_inverse (t : Cart) (hv : ValidDims t.dims) (hp : t.periodic.length = t.dims.length)
    (hn : t.nnodes = prod t.dims) (r : Int) (h0 : 0 ≤ r) (h1 : r < t.nnodes) :
    ∃ cs, t.coords r = .ok cs ∧ InRange t.dims cs ∧ t.rank cs = .ok r := by
  rw [hn] at h1
  obtain ⟨cs, hcs, hin, hrm⟩ := coordsGo_spec hv h0 h1
  refine ⟨cs, by unfold Cart.coords; rw [hn, hcs], hin, ?_⟩
  unfold Cart.rank
  rw [rankAux_ok hv (coordsOk_of_inRange hp hin), wrap_inRange hin, hrm]

/-- **Cart_coords ∘ Cart_rank = wrap-around**: for every coordinate vector that is in range on the non-periodic
dimensions (anything on the periodic ones, negative included), `rank` succeeds with a rank of the grid whose
coordinates are the given ones reduced modulo the size on each dimension -/
theorem rank_coords_inverse (t : Cart) (hv : ValidDims t.dims) (hn : t.nnodes = prod t.dims) (cs : List Int)
    (hok : coordsOk t.dims t.periodic cs = true) :
    ∃ r, t.rank cs = .ok r ∧ 0 ≤ r ∧ r < t.nnodes ∧ t.coords r = .ok (wrap t.dims cs) := by
  have hin := inRange_wrap hv (coordsOk_length hok)
  obtain ⟨b0, b1⟩ := rowMajor_bounds hv hin
  refine ⟨rowMajor t.dims (wrap t.dims cs), ?_, b0, by rw [hn]; exact b1, ?_⟩
  · unfold Cart.rank; rw [rankAux_ok hv hok]
  · unfold Cart.coords; rw [hn]; exact coordsGo_rowMajor hv hin

/-- out-of-range coordinate on some non-periodic dimension: `MPI_ERR_ARG`, as the code reports -/
theorem rank_rejects_out_of_range (t : Cart) (hv : ValidDims t.dims) (hp : t.periodic.length = t.dims.length)
    (cs : List Int) (hl : cs.length = t.dims.length) (hbad : coordsOk t.dims t.periodic cs = false) :
    t.rank cs = .err .arg := by
  unfold Cart.rank; rw [rankAux_err hv hl hp hbad]

/-- the two maps are inverse bijections between `[0, nnodes)` and the in-range coordinate vectors -/
theorem coords_injective (t : Cart) (hv : ValidDims t.dims) (hp : t.periodic.length = t.dims.length)
    (hn : t.nnodes = prod t.dims) (r r' : Int) (h0 : 0 ≤ r) (h1 : r < t.nnodes) (h0' : 0 ≤ r') (h1' : r' < t.nnodes)
    (h : t.coords r = t.coords r') : r = r' := by
  obtain ⟨cs, e1, _, e2⟩ := coords_rank_inverse t hv hp hn r h0 h1
  obtain ⟨cs', e1', _, e2'⟩ := coords_rank_inverse t hv hp hn r' h0' h1'
  rw [e1, e1'] at h
  injection h with h
  subst h
  rw [e2] at e2'
  injection e2'

theorem shiftTarget_spec (t : Cart) (hv : ValidDims t.dims) (hp : t.periodic.length = t.dims.length)
    (pos : List Int) (hin : InRange t.dims pos) (dir : Nat) (d : Int) (per : Bool)
    (hd : t.dims[dir]? = some d) (hper : t.periodic[dir]? = some per) (c delta : Int) :
    t.shiftTarget pos dir (c + delta) d per = .ok (shiftSpec t.dims pos dir d per c delta) := by
  have hd1 : 1 ≤ d := hv d (List.mem_of_getElem? hd)
  unfold Cart.shiftTarget shiftSpec
  by_cases hout : c + delta < 0 ∨ c + delta ≥ d
  · rw [if_pos hout]
    cases per with
    | false =>
      have : ¬ (0 ≤ c + delta ∧ c + delta < d) := by omega
      simp [this]
    | true =>
      simp only [if_true]
      rw [if_neg (by omega)]
      unfold Cart.rankVal Cart.rank
      rw [rankAux_set hv hp hin dir d true _ hd hper (Or.inl rfl), tmod_emod]
  · rw [if_neg hout]
    have hr : 0 ≤ c + delta ∧ c + delta < d := by omega
    unfold Cart.rankVal Cart.rank
    rw [rankAux_set hv hp hin dir d per _ hd hper (Or.inr hr), Int.emod_eq_of_lt hr.1 hr.2]
    cases per <;> simp [hr]

/-- **Cart_shift**: for every valid direction and EVERY displacement, the destination is the process whose
coordinate in that direction is `(c + disp) mod d` when the dimension is periodic, `c + disp` when that is inside a
non-periodic dimension, and `MPI_PROC_NULL` off the edge; the source is the same with `−disp`; the other coordinates
are unchanged (`shiftSpec`: row-major rank of `position` with entry `direction` replaced). -/
theorem shift_spec (t : Cart) (me : Int) (h : t.WF me) (dir : Nat) (d : Int) (per : Bool) (c : Int)
    (hd : t.dims[dir]? = some d) (hper : t.periodic[dir]? = some per) (hc : t.position[dir]? = some c)
    (disp : Int) :
    t.shift me dir disp = .ok (shiftSpec t.dims t.position dir d per c (-disp),
                               shiftSpec t.dims t.position dir d per c disp) := by
  have hlen : dir < t.dims.length := by
    rcases Nat.lt_or_ge dir t.dims.length with h' | h'
    · exact h'
    · rw [List.getElem?_eq_none h'] at hd; cases hd
  have hme1 := h.me1
  rw [h.nn] at hme1
  obtain ⟨cs, hcs, hin, _⟩ := coordsGo_spec h.valid h.me0 hme1
  have hpos : t.position = cs := by
    have := h.pos
    unfold Cart.coords at this
    rw [h.nn, hcs] at this
    injection this with this
    exact this.symm
  unfold Cart.shift
  rw [if_neg (by omega), if_neg (by omega), hd, hper, hc, h.pos]
  simp only [hc]
  rw [hpos] at hc ⊢
  rw [shiftTarget_spec t h.valid h.plen cs hin dir d per hd hper c disp]
  simp only
  have : c - disp = c + (-disp) := by omega
  rw [this, shiftTarget_spec t h.valid h.plen cs hin dir d per hd hper c (-disp)]

/-- the destination of a shift has the coordinates MPI defines (periodic direction) -/
theorem shift_dest_coords_periodic (t : Cart) (me : Int) (h : t.WF me) (dir : Nat) (d : Int) (c : Int)
    (hd : t.dims[dir]? = some d) (hper : t.periodic[dir]? = some true) (hc : t.position[dir]? = some c)
    (disp : Int) :
    ∃ src dest, t.shift me dir disp = .ok (src, dest) ∧
      t.coords dest = .ok (t.position.set dir ((c + disp) % d)) ∧
      t.coords src = .ok (t.position.set dir ((c - disp) % d)) := by
  have hme1 := h.me1
  rw [h.nn] at hme1
  obtain ⟨cs, hcs, hin, _⟩ := coordsGo_spec h.valid h.me0 hme1
  have hpos : t.position = cs := by
    have := h.pos
    unfold Cart.coords at this
    rw [h.nn, hcs] at this
    injection this with this
    exact this.symm
  have hd1 : 1 ≤ d := h.valid d (List.mem_of_getElem? hd)
  have key : ∀ x : Int, t.coords (rowMajor t.dims (t.position.set dir (x % d))) = .ok (t.position.set dir (x % d)) := by
    intro x
    unfold Cart.coords
    rw [h.nn]
    apply coordsGo_rowMajor h.valid
    rw [hpos]
    have hx0 : 0 ≤ x % d := Int.emod_nonneg _ (by omega)
    have hx1 : x % d < d := Int.emod_lt_of_pos _ (by omega)
    exact inRange_set hin dir d _ hd hx0 hx1
  refine ⟨_, _, shift_spec t me h dir d true c hd hper hc disp, ?_, ?_⟩
  · simp only [shiftSpec, if_true]; exact key _
  · simp only [shiftSpec, if_true]
    have : c + -disp = c - disp := by omega
    rw [this]; exact key _

/-! ### Dims_create -/

/-- **given entries are respected** (unconditionally): the result has the same length and every non-zero entry of
the input is unchanged -/
theorem dims_create_respects_given (nnodes : Int) (dims out : List Int) (h : dimsCreate nnodes dims = .ok out) :
    Respects dims out := by
  unfold dimsCreate at h
  split at h
  · cases h
  · rename_i hc
    split at h
    · rename_i fp fd hs
      have hfd := scanGiven_freedims _ _ _ _ _ _ hs
      simp only [Nat.zero_add] at hfd
      subst hfd
      -- the tail keeps given entries whatever freeprocs is
      unfold dimsCreateTail at h
      split at h
      · split at h
        · injection h with h; subst h; exact respects_refl _
        · cases h
      · split at h
        · injection h with h; subst h; exact (mapOne_spec dims).2
        · rename_i hz _
          obtain ⟨procs, e1, _, e3⟩ := assignnodes_spec (zerosOf dims) (getfactors fp) (by omega)
          rw [e1] at h
          injection h with h; subst h
          exact (fillFree_spec dims procs e3).2
    · cases h
    · cases h

/-
FULL STATEMENT (MPI 3.1 §7.5.2; FALSE on the current code, see `dims_create_product_counterexample`):
  theorem dims_create_product (nnodes) (dims out) (h : dimsCreate nnodes dims = .ok out) : prod out = nnodes
  theorem dims_create_rejects (nnodes ≥ 1) (dims) (h : ¬ prodGiven dims ∣ nnodes) : dimsCreate nnodes dims = .err .dims
The code tests `nnodes % dims[i]` for each given entry separately, not the product of the given entries.
-/

/-- **product = nnodes**, proved under the exact excluding hypothesis: the product of the given entries divides
`nnodes` (which is what MPI requires of the caller; otherwise the call is erroneous and must be rejected) -/
theorem dims_create_product_partial (nnodes : Int) (dims out : List Int) (hdvd : prodGiven dims ∣ nnodes)
    (h : dimsCreate nnodes dims = .ok out) : prod out = nnodes := by
  unfold dimsCreate at h
  split at h
  · cases h
  · rename_i hc
    split at h
    · rename_i fp fd hs
      have hfd := scanGiven_freedims _ _ _ _ _ _ hs
      simp only [Nat.zero_add] at hfd
      subst hfd
      obtain ⟨e1, e2⟩ := scanGiven_exact _ _ _ _ _ _ (by omega) hdvd hs
      obtain ⟨a, _⟩ := dimsCreateTail_spec dims fp e2 out h
      rw [a, Int.mul_comm, e1]
    · cases h
    · cases h

/-- the defect: each given entry divides `nnodes`, their product does not, and the call succeeds with a grid of
8 processes for 12 nodes -/
theorem dims_create_product_counterexample :
    dimsCreate 12 [4, 2, 0] = .ok [4, 2, 1] ∧ prod [4, 2, 1] ≠ 12 ∧ ¬ (prodGiven [4, 2, 0] ∣ 12) := by
  refine ⟨by decide, by decide, ?_⟩
  show ¬ ((8 : Int) ∣ 12)
  omega

/-- with proposed_fix.diff (`freeprocs % dims[i]`) the full statement holds: success ⇒ product = nnodes … -/
theorem dims_create_product_fixed (nnodes : Int) (dims out : List Int)
    (h : dimsCreateFixed nnodes dims = .ok out) : prod out = nnodes ∧ Respects dims out := by
  unfold dimsCreateFixed at h
  split at h
  · cases h
  · rename_i hc
    split at h
    · rename_i fp fd hs
      obtain ⟨e1, e2, hfd⟩ := scanGivenFixed_spec _ _ _ _ _ (by omega) hs
      simp only [Nat.zero_add] at hfd
      subst hfd
      obtain ⟨a, b⟩ := dimsCreateTail_spec dims fp e2 out h
      exact ⟨by rw [a, Int.mul_comm, e1], b⟩
    · cases h
    · cases h

theorem scanGiven_negative (n : Int) (ds : List Int) (d : Int) (hd : d ∈ ds) (hneg : d < 0) (fp : Int) (fd : Nat) :
    scanGiven n fp fd ds = .err .dims := by
  induction ds generalizing fp fd with
  | nil => simp at hd
  | cons x xs ih =>
    rw [scanGiven]
    rcases List.mem_cons.mp hd with e | e
    · subst e
      rw [if_neg (by omega), if_pos (Or.inl hneg)]
    · split
      · exact ih e _ _
      · split
        · rfl
        · exact ih e _ _

/-- a negative given entry is always rejected with `MPI_ERR_DIMS` -/
theorem dims_create_rejects_negative (nnodes : Int) (dims : List Int) (d : Int) (hd : d ∈ dims) (hneg : d < 0) :
    dimsCreate nnodes dims = .err .dims := by
  unfold dimsCreate
  split
  · rfl
  · rw [scanGiven_negative nnodes dims d hd hneg]

/-! ### Cart_sub -/

/-
FULL STATEMENT (FALSE on the current code, see `cart_sub_counterexample`):
  theorem cart_sub_keeps_dims (t) (me) (h : t.WF me) (remain) (hlen : remain.length = t.dims.length) (hk : keep remain t.dims ≠ []) :
      ∃ t', t.subTopo me remain = .ok (t', true) ∧ t'.dims = keep remain t.dims ∧ t'.periodic = keep remain t.periodic
            ∧ t'.coords (rank of me in the new communicator) = .ok t'.position
`Topo_Cart::sub` builds the new topology object with the PARENT communicator, so `comm_old->rank()` is the rank in the
parent: for parent ranks ≥ the size of the sub-grid the object keeps `dims_ = 0…0`, `nnodes_ = 0`.
-/

theorem validDims_keep (remain : List Bool) (ds : List Int) (hv : ValidDims ds) : ValidDims (keep remain ds) := by
  induction remain generalizing ds with
  | nil => intro d hd; simp [keep] at hd
  | cons r rs ih =>
    cases ds with
    | nil => intro d hd; simp [keep] at hd
    | cons x xs =>
      obtain ⟨hx, hxs⟩ := validDims_cons hv
      rw [keep]
      split
      · intro d hd
        rcases List.mem_cons.mp hd with e | e
        · omega
        · exact ih xs hxs d e
      · exact ih xs hxs

theorem keep_length {α β : Type} (remain : List Bool) (xs : List α) (ys : List β) (h : xs.length = ys.length) :
    (keep remain xs).length = (keep remain ys).length := by
  induction remain generalizing xs ys with
  | nil => simp [keep]
  | cons r rs ih =>
    cases xs <;> cases ys <;> simp [keep] at h ⊢
    split <;> simp [ih _ _ h]

/-- **Cart_sub keeps the selected dimensions** — proved for the processes whose rank in the parent is smaller than
the size of the sub-grid (`me < Π kept dims`); the sizes and periodicities of the kept dimensions are copied in order -/
theorem cart_sub_keeps_dims_partial (t : Cart) (me : Int) (h : t.WF me) (remain : List Bool)
    (hk : keep remain t.dims ≠ []) (hsmall : me < prod (keep remain t.dims)) :
    ∃ t', t.subTopo me remain = .ok (t', true) ∧ t'.dims = keep remain t.dims ∧
      t'.periodic = keep remain t.periodic ∧ t'.WF me := by
  obtain ⟨t', e, wf, a, b⟩ := ctor_wf me (keep remain t.dims) (keep remain t.periodic)
    (validDims_keep remain t.dims h.valid) hk (keep_length remain _ _ h.plen) h.me0 hsmall
  exact ⟨t', e, a, b, wf⟩

/-- the defect: 2×3 grid, keep dimension 0 (columns of 2 processes): parent rank 2 gets a topology with `dims = [0]` -/
theorem cart_sub_counterexample :
    ∃ t, ctor 2 [2, 3] [false, true] = .ok (t, true) ∧
      t.subTopo 2 [true, false] = .ok ({ nnodes := 0, dims := [0], periodic := [false], position := [0] }, false) := by
  refine ⟨{ nnodes := 6, dims := [2, 3], periodic := [false, true], position := [0, 2] }, by decide, by decide⟩

/-- with proposed_fix.diff (the constructor is given the NEW communicator, so the rank is the one in it, which is
`< Π kept dims` because the new communicator has exactly that many members) the full statement holds -/
theorem cart_sub_keeps_dims_fixed (t : Cart) (me : Int) (h : t.WF me) (remain : List Bool)
    (hk : keep remain t.dims ≠ []) (newRank : Int) (h0 : 0 ≤ newRank) (h1 : newRank < prod (keep remain t.dims)) :
    ∃ t', t.subTopoFixed newRank remain = .ok (t', true) ∧ t'.dims = keep remain t.dims ∧
      t'.periodic = keep remain t.periodic ∧ t'.WF newRank := by
  obtain ⟨t', e, wf, a, b⟩ := ctor_wf newRank (keep remain t.dims) (keep remain t.periodic)
    (validDims_keep remain t.dims h.valid) hk (keep_length remain _ _ h.plen) h0 h1
  exact ⟨t', e, a, b, wf⟩

/-! ### non-vacuity: concrete instances satisfying the hypotheses -/

def ex3 : Cart := { nnodes := 24, dims := [2, 3, 4], periodic := [true, false, true], position := [1, 1, 3] }

theorem ex3_wf : ex3.WF 19 :=
  ⟨by intro d hd; simp [ex3] at hd; omega, rfl, by decide, by decide, by decide, by decide⟩

example : ex3.coords 19 = .ok [1, 1, 3] ∧ ex3.rank [1, 1, 3] = .ok 19 := by decide
example : coordsOk ex3.dims ex3.periodic [-1, 2, 9] = true ∧ ex3.rank [-1, 2, 9] = .ok 21 ∧
    ex3.coords 21 = .ok [1, 2, 1] := by decide
example : coordsOk ex3.dims ex3.periodic [0, 3, 0] = false ∧ ex3.rank [0, 3, 0] = .err .arg := by decide
-- periodic wrap and non-periodic edge, negative and large displacements
example : ex3.shift 19 2 (-7) = .ok (18, 16) ∧ ex3.shift 19 1 2 = .ok (PROC_NULL, PROC_NULL) ∧
    ex3.shift 19 1 1 = .ok (15, 23) ∧ ex3.shift 19 0 3 = .ok (7, 7) := by decide
example : dimsCreate 12 [0, 6, 2] = .ok [1, 6, 2] ∧ prodGiven [0, 6, 2] ∣ 12 := ⟨by decide, ⟨1, by decide⟩⟩
example : dimsCreateFixed 12 [4, 2, 0] = .err .dims ∧ dimsCreateFixed 12 [0, 6, 2] = .ok [1, 6, 2] := by decide
example : ex3.subTopo 19 [false, true, true] =
    .ok ({ nnodes := 0, dims := [0, 0], periodic := [false, false], position := [0, 0] }, false) := by decide
example : ex3.subTopo 7 [false, true, true] =
    .ok ({ nnodes := 12, dims := [3, 4], periodic := [false, true], position := [1, 3] }, true) := by decide

end SgVerif.C33
