import SgVerif.C47.Lemmas
/-
C47 — Paje traces are well formed.  Property theorems.

Buffer (all histories of insert / dump, any timestamps):
  `buffer_sorted_invariant`, `dump_is_sorted_prefix`, `emitted_nondecreasing` — the last one under the hypothesis the code
  relies on (`okOps`): no event is inserted with a timestamp below something already printed.
  THAT HYPOTHESIS DOES NOT HOLD in the real library (see NOTES.md: events for the interval [now-delta, now] are created
  after a forced dump at `now`; and container creation lines bypass the buffer) — `emitted_nondecreasing_needs_hypothesis`
  is the model-level counterexample, the correspondence finds the real ones.
Automaton: `wfOk_iff_spec` — FULL, both directions, all traces: `wfRun` accepts a trace iff it satisfies the declarative
  `WellFormed` of Spec.lean (per position: declared-before-use for types / entity values / containers and no duplicate
  type alias or container id; clock non-decreasing; no use after destroy; a pop finds a pushed state — none of which
  mentions the automaton state).  `wfRun_state_spec`: the state after an accepted trace is exactly what the trace has
  established (membership of the four id lists, clock = largest timestamp, every push depth).  `wfRun_error_spec`: a
  rejected trace splits into a well-formed prefix and a first line that violates the clause named by the reported error
  class (`Violates`, Spec.lean); `wfRun_popEmpty_spec` is its instance for `popEmpty`.
  `wf_time_nondecreasing`, `wf_pop_balanced`, `wf_no_use_after_destroy`, `wfStep_time`: the earlier soundness statements
  at the level of the automaton state (kept unchanged).
  `balancedOn_iff`, `destroy_balanced_spec`: push / pop balance when a container goes away — the driver's test at a
  PajeDestroyContainer (and at the end of the trace) holds iff every state type of that container has depth 0 on the trace.
Helper lemmas of the automaton part: Lemmas.lean.
-/
namespace SgVerif.C47

abbrev Desc (l : List Nat) : Prop := l.Pairwise (fun a b => b ≤ a)
abbrev Asc (l : List Nat) : Prop := l.Pairwise (fun a b => a ≤ b)

theorem mem_insertRev (l : List Nat) (e x : Nat) (h : x ∈ insertRev l e) : x = e ∨ x ∈ l := by
  induction l with
  | nil => simp [insertRev] at h; exact Or.inl h
  | cons a t ih =>
    simp only [insertRev] at h
    split at h
    · simp at h; rcases h with h | h | h <;> simp [h]
    · simp at h
      rcases h with h | h
      · simp [h]
      · rcases ih h with h2 | h2 <;> simp [h2]

theorem insertRev_sorted (l : List Nat) (e : Nat) (h : Desc l) : Desc (insertRev l e) := by
  induction l with
  | nil => simp [insertRev]
  | cons a t ih =>
    simp only [insertRev]
    have ha := List.pairwise_cons.mp h
    split
    · rename_i hle
      refine List.pairwise_cons.mpr ⟨?_, h⟩
      intro x hx
      simp at hx
      rcases hx with hx | hx
      · omega
      · have := ha.1 x hx; omega
    · rename_i hgt
      refine List.pairwise_cons.mpr ⟨?_, ih ha.2⟩
      intro x hx
      rcases mem_insertRev t e x hx with hx | hx
      · omega
      · exact ha.1 x hx

theorem asc_reverse (l : List Nat) (h : Desc l) : Asc l.reverse := by
  show List.Pairwise _ _
  rw [List.pairwise_reverse]; exact h

theorem desc_reverse (l : List Nat) (h : Asc l) : Desc l.reverse := by
  show List.Pairwise _ _
  rw [List.pairwise_reverse]; exact h

theorem takeWhile_all (l : List Nat) (limit x : Nat) (h : x ∈ l.takeWhile (· ≤ limit)) : x ≤ limit := by
  induction l with
  | nil => simp at h
  | cons a t ih =>
    simp only [List.takeWhile_cons] at h
    split at h
    · rename_i ha
      simp at h ha
      rcases h with h | h
      · omega
      · exact ih h
    · simp at h

theorem bstep_sorted (b : Buf) (op : BOp) (h : Desc b.rbuf) : Desc (bstep b op).rbuf := by
  cases op with
  | insert ts => exact insertRev_sorted _ _ h
  | dump f limit =>
    cases f with
    | true => simp [bstep]
    | false =>
      simp only [bstep]
      apply desc_reverse
      exact List.Pairwise.sublist (List.dropWhile_sublist _) (asc_reverse _ h)

/-- **the buffer is always sorted by timestamp** (any history of inserts and dumps, any timestamps) -/
theorem buffer_sorted_invariant (ops : List BOp) : Desc (brun { rbuf := [], out := [] } ops).rbuf := by
  suffices ∀ b : Buf, Desc b.rbuf → Desc (brun b ops).rbuf from this _ (by simp)
  induction ops with
  | nil => intro b h; exact h
  | cons op ops ih => intro b h; exact ih _ (bstep_sorted b op h)

/-- **a dump prints a sorted prefix of the buffer** and keeps the rest: printed ++ kept = buffer; a non-forced dump prints
exactly the events up to the limit (the first kept event, if any, is beyond it) -/
theorem dump_is_sorted_prefix (b : Buf) (force : Bool) (limit : Nat) (h : Desc b.rbuf) :
    ∃ p, (bstep b (.dump force limit)).out = b.out ++ p ∧ p ++ (bstep b (.dump force limit)).fwd = b.fwd ∧ Asc p ∧
      (force = false → (∀ x ∈ p, x ≤ limit) ∧ ∀ y, (bstep b (.dump force limit)).fwd.head? = some y → limit < y) := by
  cases force with
  | true => exact ⟨b.fwd, rfl, by simp [bstep, Buf.fwd], asc_reverse _ h, by intro h; cases h⟩
  | false =>
    refine ⟨b.fwd.takeWhile (· ≤ limit), rfl, by simp [bstep, Buf.fwd], ?_, fun _ => ⟨?_, ?_⟩⟩
    · exact List.Pairwise.sublist (List.takeWhile_sublist _) (asc_reverse _ h)
    · intro x hx; exact takeWhile_all _ _ _ hx
    · intro y hy
      simp only [bstep, Buf.fwd, List.reverse_reverse] at hy
      have := List.head?_dropWhile_not (p := (· ≤ limit)) (l := b.rbuf.reverse)
      rw [hy] at this
      simp at this; omega

/-- the hypothesis the code relies on: nothing is inserted below what was already printed -/
def okOps (b : Buf) : List BOp → Prop
  | [] => True
  | .insert ts :: ops => (∀ o ∈ b.out, o ≤ ts) ∧ okOps (bstep b (.insert ts)) ops
  | op :: ops => okOps (bstep b op) ops

structure J (b : Buf) : Prop where
  out : Asc b.out
  buf : Desc b.rbuf
  cross : ∀ o ∈ b.out, ∀ x ∈ b.rbuf, o ≤ x

theorem J_step (b : Buf) (op : BOp) (hJ : J b) (hop : ∀ ts, op = .insert ts → ∀ o ∈ b.out, o ≤ ts) : J (bstep b op) := by
  cases op with
  | insert ts =>
    refine ⟨hJ.out, insertRev_sorted _ _ hJ.buf, ?_⟩
    intro o ho x hx
    rcases mem_insertRev _ _ _ hx with hx | hx
    · subst hx; exact hop _ rfl o ho
    · exact hJ.cross o ho x hx
  | dump f limit =>
    have hasc := asc_reverse _ hJ.buf
    cases f with
    | true =>
      refine ⟨?_, by simp [bstep], by simp [bstep]⟩
      simp only [bstep, Buf.fwd]
      show List.Pairwise _ _
      rw [List.pairwise_append]
      exact ⟨hJ.out, hasc, fun o ho x hx => hJ.cross o ho x (by simpa using hx)⟩
    | false =>
      have hsplit := List.takeWhile_append_dropWhile (p := (· ≤ limit)) (l := b.rbuf.reverse)
      have hasc2 : List.Pairwise (fun a b => a ≤ b) b.rbuf.reverse := hasc
      rw [← hsplit, List.pairwise_append] at hasc2
      refine ⟨?_, ?_, ?_⟩
      · simp only [bstep, Buf.fwd]
        show List.Pairwise _ _
        rw [List.pairwise_append]
        refine ⟨hJ.out, hasc2.1, fun o ho x hx => hJ.cross o ho x ?_⟩
        have := (List.takeWhile_sublist _).subset hx
        simpa using this
      · simp only [bstep, Buf.fwd]
        exact desc_reverse _ hasc2.2.1
      · intro o ho x hx
        simp only [bstep, Buf.fwd, List.mem_append, List.mem_reverse] at ho hx
        rcases ho with ho | ho
        · have := (List.dropWhile_sublist _).subset hx
          exact hJ.cross o ho x (by simpa using this)
        · exact hasc2.2.2 o ho x hx

/-- **what is printed is non-decreasing in time** — for every history in which no event is inserted below an already
printed timestamp -/
theorem emitted_nondecreasing (ops : List BOp) (hok : okOps { rbuf := [], out := [] } ops) :
    Asc (brun { rbuf := [], out := [] } ops).out := by
  suffices ∀ b : Buf, J b → okOps b ops → J (brun b ops) from
    (this _ ⟨by simp, by simp, by simp⟩ hok).out
  clear hok
  induction ops with
  | nil => intro b h _; exact h
  | cons op ops ih =>
    intro b hJ hok
    cases op with
    | insert ts =>
      exact ih _ (J_step b _ hJ (by intro ts' e o ho; cases e; exact hok.1 o ho)) hok.2
    | dump f limit =>
      exact ih _ (J_step b _ hJ (by intro ts' e; cases e)) hok

/-- without that hypothesis the output is not sorted: forced dump at 5, then an event dated 3 -/
theorem emitted_nondecreasing_needs_hypothesis :
    ¬ Asc (brun { rbuf := [], out := [] } [.insert 5, .dump true 5, .insert 3, .dump true 6]).out := by decide

/-! ### the automaton -/

theorem useCont_spec (s s' : WF) (ts c : Nat) (h : useCont s ts c = .ok s') :
    s.now ≤ ts ∧ c ∉ s.dead ∧ c ∈ s.conts ∧ s' = { s with now := ts } := by
  unfold useCont at h
  split at h
  · cases h
  · split at h
    · cases h
    · split at h
      · cases h
      · rename_i h1 h2 h3
        injection h with h
        simp at h2 h3
        exact ⟨by omega, h2, h3, h.symm⟩

/-- an accepted line never goes back in time, and the automaton's clock is the line's timestamp afterwards -/
theorem wfStep_time (s s' : WF) (l : Line) (h : wfStep s l = .ok s') :
    s.now ≤ s'.now ∧ ∀ ts, lineTs l = some ts → s.now ≤ ts ∧ s'.now = ts := by
  cases l <;> simp only [wfStep, needType, needValue, bind, Except.bind] at h <;>
    (repeat' split at h) <;> try cases h
  all_goals first
    | omega
    | (simp [lineTs]; done)
    | (simp only [lineTs, Option.some.injEq, forall_eq']; simp; omega)
    | (simp only [lineTs, Option.some.injEq, forall_eq']; omega)
    | (have hu := useCont_spec _ _ _ _ ‹useCont _ _ _ = Except.ok _›
       obtain ⟨a, _, _, d⟩ := hu
       simp only [lineTs, Option.some.injEq, forall_eq']
       subst d; simp; omega)

/-- **accepted ⇒ non-decreasing timestamps** -/
theorem wf_time_nondecreasing (ls : List Line) (s s' : WF) (h : wfRun s ls = .ok s') :
    Asc (ls.filterMap lineTs) ∧ (∀ t ∈ ls.filterMap lineTs, s.now ≤ t) ∧ s.now ≤ s'.now := by
  induction ls generalizing s with
  | nil => simp [wfRun] at h; subst h; simp
  | cons l ls ih =>
    simp only [wfRun] at h
    split at h
    · rename_i s1 h1
      obtain ⟨hm, ht⟩ := wfStep_time s s1 l h1
      obtain ⟨ia, ib, ic⟩ := ih s1 h
      cases hl : lineTs l with
      | none =>
        simp only [List.filterMap_cons, hl]
        exact ⟨ia, fun t ht' => by have := ib t ht'; omega, by omega⟩
      | some ts =>
        obtain ⟨h2, h3⟩ := ht ts hl
        simp only [List.filterMap_cons, hl]
        refine ⟨List.pairwise_cons.mpr ⟨fun t ht' => by have := ib t ht'; omega, ia⟩, ?_, by omega⟩
        intro t ht'
        simp at ht'
        rcases ht' with ht' | ht'
        · omega
        · have := ib t (by simpa using ht'); omega
    · cases h

/-- **accepted ⇒ a pop always finds a pushed state** (balanced per container and state type) -/
theorem wf_pop_balanced (s s' : WF) (ts t c : Nat) (h : wfStep s (.popState ts t c) = .ok s') :
    0 < getDepth s.depth (c, t) := by
  simp only [wfStep, needType, bind, Except.bind] at h
  (repeat' split at h) <;> try cases h
  rename_i hd
  have := useCont_spec _ _ _ _ ‹useCont _ _ _ = Except.ok _›
  rw [this.2.2.2] at hd
  simp at hd; omega

/-- **accepted ⇒ the container of a destroy / variable / state line exists and was not destroyed** -/
theorem wf_no_use_after_destroy (s s' : WF) (ts t c : Nat)
    (h : wfStep s (.variable ts t c) = .ok s' ∨ wfStep s (.destroyContainer ts t c) = .ok s' ∨
         wfStep s (.popState ts t c) = .ok s' ∨ wfStep s (.resetState ts t c) = .ok s') :
    c ∈ s.conts ∧ c ∉ s.dead ∧ t ∈ s.types := by
  have key : ∀ s1, useCont s ts c = .ok s1 → t ∈ s.types → c ∈ s.conts ∧ c ∉ s.dead ∧ t ∈ s.types := by
    intro s1 hu ht
    have := useCont_spec _ _ _ _ hu
    exact ⟨this.2.2.1, this.2.1, ht⟩
  rcases h with h | h | h | h <;> simp only [wfStep, needType, bind, Except.bind] at h <;>
    (repeat' split at h) <;> (try cases h) <;>
    (first
      | (apply key _ ‹useCont _ _ _ = Except.ok _›; simp_all)
      | (apply key _ h; simp_all))

/-! ### the automaton accepts exactly the well-formed traces -/

/-- **the automaton is the specification**: `wfRun` from the initial state accepts a trace iff the trace is `WellFormed`
(Spec.lean: for every position, the line is declared-before-use, not a duplicate definition, not back in time, not on a
destroyed container, and a pop finds a pushed state — all stated on the lines before it) -/
theorem wfOk_iff_spec (ls : List Line) : (∃ s, wfRun {} ls = .ok s) ↔ WellFormed ls := by
  have := wfRun_iff ls [] {} abs_init
  simpa [WellFormed] using this

/-- **the state after an accepted trace is what the trace has established**: the id lists hold exactly the defined
types / values, created and destroyed containers (plus the reserved 0), the clock is the largest timestamp, and every
push depth is the declarative `depthOf` -/
theorem wfRun_state_spec (ls : List Line) (s : WF) (h : wfRun {} ls = .ok s) :
    (∀ t, t ∈ s.types ↔ t = 0 ∨ t ∈ definedTypes ls) ∧ (∀ v, v ∈ s.values ↔ v ∈ definedValues ls) ∧
    (∀ c, c ∈ s.conts ↔ c = 0 ∨ c ∈ createdConts ls) ∧ (∀ c, c ∈ s.dead ↔ c ∈ destroyedConts ls) ∧
    s.now = maxTs ls ∧ (∀ x, maxTs ls ≤ x ↔ ∀ ts ∈ timestamps ls, ts ≤ x) ∧
    ∀ k, getDepth s.depth k = depthOf ls k := by
  have habs : Abs ls s := by simpa using wfRun_abs ls [] {} s abs_init h
  exact ⟨habs.types, habs.values, habs.conts, habs.dead, habs.now, maxTs_le_iff ls, habs.depth⟩

/-- **a rejected trace: where and why** — the trace splits into a well-formed (accepted) prefix and a first offending
line, and that line violates the clause of `LineOk` named by the reported error class -/
theorem wfRun_error_spec (ls : List Line) (e : Why) (h : wfRun {} ls = .error e) :
    ∃ pre l post, ls = pre ++ l :: post ∧ WellFormed pre ∧ Violates e pre l ∧ ¬ LineOk pre l := by
  obtain ⟨pre, l, post, s1, e1, e2, e3⟩ := wfRun_error_violates ls e h
  exact ⟨pre, l, post, e1, (wfOk_iff_spec pre).mp ⟨s1, e2⟩, e3, violates_not_lineOk pre l e e3⟩

/-- `popEmpty` is reported only at a PopState whose stack is empty according to the lines before it -/
theorem wfRun_popEmpty_spec (ls : List Line) (h : wfRun {} ls = .error .popEmpty) :
    ∃ pre ts t c post, ls = pre ++ .popState ts t c :: post ∧ WellFormed pre ∧ depthOf pre (c, t) = 0 := by
  obtain ⟨pre, l, post, e1, hwf, ⟨ts, t, c, e2, e3⟩, _⟩ := wfRun_error_spec ls .popEmpty h
  subst e2
  exact ⟨pre, ts, t, c, post, e1, hwf, e3⟩

/-! ### push / pop balance when a container goes away -/

theorem balancedOn_iff (d : List ((Nat × Nat) × Nat)) (c : Nat) :
    balancedOn d c = true ↔ ∀ t, getDepth d (c, t) = 0 := by
  constructor
  · intro h t
    cases hf : d.find? (·.1 == (c, t)) with
    | none => simp [getDepth, hf]
    | some x =>
      have hx : x ∈ d := List.mem_of_find?_eq_some hf
      have hk : x.1 = (c, t) := by simpa using List.find?_some hf
      have h1 := (List.all_eq_true.mp h) x hx
      have h2 : getDepth d (c, t) = x.2 := by simp [getDepth, hf]
      rw [hk] at h1
      simp at h1
      rw [h2] at h1 ⊢
      exact h1
  · intro h
    apply List.all_eq_true.mpr
    intro x _
    by_cases hc : x.1.1 = c
    · have h1 := h x.1.2
      have hk : (c, x.1.2) = x.1 := by rw [← hc]
      rw [hk] at h1
      simp [h1]
    · simp [hc]

/-- **balance at destruction / at the end, read on the trace**: after an accepted trace `ls`, the driver's test
`balancedOn s.depth c` holds iff every state type of container `c` has push depth 0 according to the lines of `ls`
(`depthOf`: the fold push +1, pop −1, set → max 1, reset → 0 of Spec.lean).  The driver evaluates it on the lines BEFORE each
PajeDestroyContainer of `c`, and for every created container at the end of the trace. -/
theorem destroy_balanced_spec (ls : List Line) (s : WF) (h : wfRun {} ls = .ok s) (c : Nat) :
    balancedOn s.depth c = true ↔ ∀ t, depthOf ls (c, t) = 0 := by
  have hd := (wfRun_state_spec ls s h).2.2.2.2.2.2
  rw [balancedOn_iff]
  constructor
  · intro h1 t; rw [← hd]; exact h1 t
  · intro h1 t; rw [hd]; exact h1 t

/-- a push that is never popped is seen: container 5 still has one state pushed, container 6 has none -/
example : balancedOn [((5, 9), 1), ((6, 9), 0)] 5 = false ∧ balancedOn [((5, 9), 1), ((6, 9), 0)] 6 = true := by decide

/-! ### non-vacuity -/
example : okOps { rbuf := [], out := [] } [.insert 5, .insert 3, .insert 9, .dump false 4, .insert 4, .dump true 9] := by
  simp [okOps, bstep, insertRev, Buf.fwd]
example : (brun { rbuf := [], out := [] } [.insert 5, .insert 3, .insert 9, .dump false 4, .insert 4, .dump true 9]).out
    = [3, 4, 5, 9] := by decide
example : (wfRun {} [.defContainerType 1 0, .createContainer 0 1 1 0, .defStateType 2 1, .defEntityValue 3 2,
    .pushState 5 2 1 3, .popState 7 2 1, .destroyContainer 7 1 1]).toOption.isSome = true := by decide
example : errOf (wfRun {} [.defContainerType 1 0, .createContainer 0 1 1 0, .defStateType 2 1, .popState 7 2 1])
    = some .popEmpty := by decide
example : errOf (wfRun {} [.defContainerType 1 0, .createContainer 5 1 1 0, .defVariableType 2 1, .variable 3 2 1])
    = some .timeDecreases := by decide

/-- a non-trivial well-formed trace, obtained through `wfOk_iff_spec` from a run of the automaton -/
example : WellFormed [.defContainerType 1 0, .createContainer 0 1 1 0, .defStateType 2 1, .defEntityValue 3 2,
    .pushState 5 2 1 3, .popState 7 2 1, .destroyContainer 7 1 1] := (wfOk_iff_spec _).mp ⟨_, rfl⟩
/-- and the declarative functions on it, without the automaton: one state pushed on (container 1, type 2) before the pop -/
example : depthOf [.defContainerType 1 0, .createContainer 0 1 1 0, .defStateType 2 1, .defEntityValue 3 2,
    .pushState 5 2 1 3] (1, 2) = 1 ∧ maxTs [.createContainer 0 1 1 0, .pushState 5 2 1 3, .popState 7 2 1] = 7 := by decide
/-- a trace that is not well formed (pop without push), through the other direction of `wfOk_iff_spec` -/
example : ¬ WellFormed [.defContainerType 1 0, .createContainer 0 1 1 0, .defStateType 2 1, .popState 7 2 1] := by
  intro h
  obtain ⟨s, hs⟩ := (wfOk_iff_spec _).mpr h
  cases hs
/-- not well formed, directly from the specification: use after destroy at the last position -/
example : ¬ WellFormed [.defContainerType 1 0, .createContainer 0 1 1 0, .defVariableType 2 1,
    .destroyContainer 3 1 1, .variable 4 2 1] := by
  intro h
  have := (h [.defContainerType 1 0, .createContainer 0 1 1 0, .defVariableType 2 1, .destroyContainer 3 1 1]
    (.variable 4 2 1) [] rfl).alive 1 (by simp [usedConts])
  exact this (by decide)
/-- hypotheses of `wfRun_state_spec`, `wfRun_error_spec`, `wfRun_popEmpty_spec` are met by concrete runs -/
example : ∃ s, wfRun {} [.defContainerType 1 0, .createContainer 4 1 1 0] = .ok s ∧ s.now = 4 := ⟨_, rfl, rfl⟩
example : wfRun {} [.defContainerType 1 0, .createContainer 0 1 1 0, .defStateType 2 1, .popState 7 2 1]
    = .error .popEmpty := rfl
example : wfRun {} [.defContainerType 1 0, .createContainer 5 1 1 0, .defVariableType 2 1, .variable 3 2 1]
    = .error .timeDecreases := rfl
example : Violates .timeDecreases [.defContainerType 1 0, .createContainer 5 1 1 0, .defVariableType 2 1]
    (.variable 3 2 1) := ⟨3, rfl, 5, by decide, by decide⟩

end SgVerif.C47
