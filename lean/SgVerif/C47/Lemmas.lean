import SgVerif.C47.Spec
/-
C47 — helper lemmas for `wfOk_iff_spec`: the automaton `wfStep`/`wfRun` (Model.lean) accepts exactly the traces that
satisfy the declarative `WellFormed` (Spec.lean).

Route: (1) `wfStep_ok_iff`: one step of the automaton, as a state-level condition `StepOk s l` and an explicit next state
`wfNext s l` (the only case analysis over the 15 line kinds); (2) the abstraction invariant `Abs pre s` (the state after
an accepted prefix `pre`, at membership level); (3) under `Abs pre s`: `StepOk s l ↔ LineOk pre l`, and `Abs` is kept by
`wfNext`; (4) induction over the rest of the trace.
-/
namespace SgVerif.C47

/-! ### the association list of push depths -/
theorem find_filter_ne (d : List ((Nat × Nat) × Nat)) (k k' : Nat × Nat) (h : k' ≠ k) :
    (d.filter (·.1 != k)).find? (·.1 == k') = d.find? (·.1 == k') := by
  induction d with
  | nil => rfl
  | cons a t ih =>
    by_cases h1 : a.1 = k
    · have h2 : ¬ a.1 = k' := fun e => h (e.symm.trans h1)
      subst h1
      simpa [List.filter_cons, List.find?_cons, h2] using ih
    · simp [List.find?_cons, h1, ih]

theorem getDepth_setDepth (d : List ((Nat × Nat) × Nat)) (k k' : Nat × Nat) (v : Nat) :
    getDepth (setDepth d k v) k' = if k' = k then v else getDepth d k' := by
  unfold getDepth setDepth
  by_cases h : k' = k
  · subst h; simp
  · have h' : ¬ k = k' := fun e => h e.symm
    simp [h, h', find_filter_ne d k k' h]

theorem needType_bind (s : WF) (t : Nat) (f : Unit → Except Why WF) (s' : WF) :
    (needType s t >>= f) = .ok s' ↔ t ∈ s.types ∧ f () = .ok s' := by
  unfold needType
  by_cases h : t ∈ s.types <;> simp [h, bind, Except.bind]

theorem needValue_bind (s : WF) (v : Nat) (f : Unit → Except Why WF) (s' : WF) :
    (needValue s v >>= f) = .ok s' ↔ v ∈ s.values ∧ f () = .ok s' := by
  unfold needValue
  by_cases h : v ∈ s.values <;> simp [h, bind, Except.bind]

theorem useCont_ok (s : WF) (ts c : Nat) (s' : WF) :
    useCont s ts c = .ok s' ↔ s.now ≤ ts ∧ c ∉ s.dead ∧ c ∈ s.conts ∧ s' = { s with now := ts } := by
  unfold useCont
  by_cases h1 : ts < s.now
  · simp [h1]; intro h; omega
  · by_cases h2 : c ∈ s.dead
    · simp [h1, h2]
    · by_cases h3 : c ∈ s.conts
      · simp [h1, h2, h3]; constructor
        · intro h; exact ⟨by omega, h.symm⟩
        · intro h; exact h.2.symm
      · simp [h1, h2, h3]

theorem useCont_bind (s : WF) (ts c : Nat) (f : WF → Except Why WF) (s' : WF) :
    (useCont s ts c >>= f) = .ok s' ↔ s.now ≤ ts ∧ c ∉ s.dead ∧ c ∈ s.conts ∧ f { s with now := ts } = .ok s' := by
  cases h : useCont s ts c with
  | error e =>
    have : ¬ (s.now ≤ ts ∧ c ∉ s.dead ∧ c ∈ s.conts) := by
      intro hh
      have := (useCont_ok s ts c { s with now := ts }).mpr ⟨hh.1, hh.2.1, hh.2.2, rfl⟩
      rw [h] at this; cases this
    simp [bind, Except.bind]
    intro a b c; exact absurd ⟨a, b, c⟩ this
  | ok s1 =>
    obtain ⟨a, b, c, d⟩ := (useCont_ok s ts c s1).mp h
    subst d
    simp [bind, Except.bind, a, b, c]

/-! ### one step of the automaton, declaratively -/

/-- state-level acceptance condition of one line -/
def StepOk (s : WF) (l : Line) : Prop :=
  (∀ t ∈ usedTypes l, t ∈ s.types) ∧
  (∀ v ∈ usedValues l, v ∈ s.values) ∧
  (∀ c ∈ usedConts l, c ∈ s.conts) ∧
  (∀ id, lineDefType l = some id → id ∉ s.types) ∧
  (∀ id, lineCreates l = some id → id ∉ s.conts) ∧
  (∀ ts, lineTs l = some ts → s.now ≤ ts) ∧
  (∀ c ∈ usedConts l, c ∉ s.dead) ∧
  (∀ ts t c, l = .popState ts t c → 0 < getDepth s.depth (c, t))

def nextDepth (d : List ((Nat × Nat) × Nat)) : Line → List ((Nat × Nat) × Nat)
  | .setState _ t c _ => setDepth d (c, t) (max (getDepth d (c, t)) 1)
  | .pushState _ t c _ => setDepth d (c, t) (getDepth d (c, t) + 1)
  | .popState _ t c => setDepth d (c, t) (getDepth d (c, t) - 1)
  | .resetState _ t c => setDepth d (c, t) 0
  | _ => d

/-- the state after an accepted line -/
def wfNext (s : WF) (l : Line) : WF :=
  { types := (lineDefType l).toList ++ s.types
    values := (lineDefValue l).toList ++ s.values
    conts := (lineCreates l).toList ++ s.conts
    dead := (lineDestroys l).toList ++ s.dead
    now := (lineTs l).getD s.now
    depth := nextDepth s.depth l }

theorem wfStep_ok_iff (s s' : WF) (l : Line) :
    wfStep s l = .ok s' ↔ StepOk s l ∧ s' = wfNext s l := by
  cases l <;>
    simp only [wfStep, needType_bind, needValue_bind, useCont_bind, useCont_ok] <;>
    simp [StepOk, wfNext, usedTypes, usedValues, usedConts, lineDefType, lineDefValue, lineCreates, lineDestroys, lineTs, nextDepth]
  all_goals grind

/-! ### prefixes -/

theorem foldl_max_le (l : List Nat) (a x : Nat) : l.foldl max a ≤ x ↔ a ≤ x ∧ ∀ y ∈ l, y ≤ x := by
  induction l generalizing a with
  | nil => simp
  | cons b t ih =>
    simp only [List.foldl_cons, ih, List.mem_cons, forall_eq_or_imp, Nat.max_le, and_assoc]

theorem maxTs_le_iff (pre : List Line) (x : Nat) : maxTs pre ≤ x ↔ ∀ ts' ∈ timestamps pre, ts' ≤ x := by
  simp [maxTs, foldl_max_le]

theorem definedTypes_snoc (pre : List Line) (l : Line) :
    definedTypes (pre ++ [l]) = definedTypes pre ++ (lineDefType l).toList := by
  cases h : lineDefType l <;> simp [definedTypes, List.filterMap_append, h]

theorem definedValues_snoc (pre : List Line) (l : Line) :
    definedValues (pre ++ [l]) = definedValues pre ++ (lineDefValue l).toList := by
  cases h : lineDefValue l <;> simp [definedValues, List.filterMap_append, h]

theorem createdConts_snoc (pre : List Line) (l : Line) :
    createdConts (pre ++ [l]) = createdConts pre ++ (lineCreates l).toList := by
  cases h : lineCreates l <;> simp [createdConts, List.filterMap_append, h]

theorem destroyedConts_snoc (pre : List Line) (l : Line) :
    destroyedConts (pre ++ [l]) = destroyedConts pre ++ (lineDestroys l).toList := by
  cases h : lineDestroys l <;> simp [destroyedConts, List.filterMap_append, h]

theorem timestamps_snoc (pre : List Line) (l : Line) :
    timestamps (pre ++ [l]) = timestamps pre ++ (lineTs l).toList := by
  cases h : lineTs l <;> simp [timestamps, List.filterMap_append, h]

theorem maxTs_snoc (pre : List Line) (l : Line) :
    maxTs (pre ++ [l]) = max (maxTs pre) ((lineTs l).getD 0) := by
  cases h : lineTs l <;> simp [maxTs, timestamps_snoc, h, List.foldl_append]

theorem depthOf_snoc (pre : List Line) (l : Line) (k : Nat × Nat) :
    depthOf (pre ++ [l]) k = depthStep k (depthOf pre k) l := by
  simp [depthOf, List.foldl_append]

theorem getDepth_nextDepth (d : List ((Nat × Nat) × Nat)) (l : Line) (k : Nat × Nat) :
    getDepth (nextDepth d l) k = depthStep k (getDepth d k) l := by
  cases l <;> simp only [nextDepth, depthStep, getDepth_setDepth] <;> grind

/-! ### the abstraction invariant -/

/-- the automaton state `s` is what the accepted prefix `pre` has established -/
structure Abs (pre : List Line) (s : WF) : Prop where
  types : ∀ t, t ∈ s.types ↔ t = 0 ∨ t ∈ definedTypes pre
  values : ∀ v, v ∈ s.values ↔ v ∈ definedValues pre
  conts : ∀ c, c ∈ s.conts ↔ c = 0 ∨ c ∈ createdConts pre
  dead : ∀ c, c ∈ s.dead ↔ c ∈ destroyedConts pre
  now : s.now = maxTs pre
  depth : ∀ k, getDepth s.depth k = depthOf pre k

theorem abs_init : Abs [] {} := by
  constructor <;> simp [definedTypes, definedValues, createdConts, destroyedConts, maxTs, timestamps, depthOf, getDepth]

theorem stepOk_iff_lineOk (pre : List Line) (s : WF) (l : Line) (h : Abs pre s) : StepOk s l ↔ LineOk pre l := by
  have hty := h.types; have hv := h.values; have hc := h.conts; have hd := h.dead
  have hn := h.now; have hdep := h.depth
  constructor
  · intro ⟨a1, a2, a3, a4, a5, a6, a7, a8⟩
    refine ⟨?_, ?_, ?_, ?_, ?_, ?_, ?_, ?_⟩
    · intro t ht; exact (hty t).mp (a1 t ht)
    · intro v hv'; exact (hv v).mp (a2 v hv')
    · intro c hc'; exact (hc c).mp (a3 c hc')
    · intro id hid
      have := a4 id hid
      rw [hty] at this
      exact not_or.mp this
    · intro id hid
      have := a5 id hid
      rw [hc] at this
      exact not_or.mp this
    · intro ts hts
      have := a6 ts hts
      rw [hn] at this
      exact (maxTs_le_iff pre ts).mp this
    · intro c hc' hcd; exact a7 c hc' ((hd c).mpr hcd)
    · intro ts t c e; rw [← hdep]; exact a8 ts t c e
  · intro ⟨a1, a2, a3, a4, a5, a6, a7, a8⟩
    refine ⟨?_, ?_, ?_, ?_, ?_, ?_, ?_, ?_⟩
    · intro t ht; exact (hty t).mpr (a1 t ht)
    · intro v hv'; exact (hv v).mpr (a2 v hv')
    · intro c hc'; exact (hc c).mpr (a3 c hc')
    · intro id hid
      rw [hty]
      exact not_or.mpr (a4 id hid)
    · intro id hid
      rw [hc]
      exact not_or.mpr (a5 id hid)
    · intro ts hts
      rw [hn]
      exact (maxTs_le_iff pre ts).mpr (a6 ts hts)
    · intro c hc' hcd; exact a7 c hc' ((hd c).mp hcd)
    · intro ts t c e; rw [hdep]; exact a8 ts t c e

theorem abs_next (pre : List Line) (s : WF) (l : Line) (h : Abs pre s) (hok : StepOk s l) :
    Abs (pre ++ [l]) (wfNext s l) := by
  refine ⟨?_, ?_, ?_, ?_, ?_, ?_⟩
  · intro t
    simp only [wfNext, definedTypes_snoc, List.mem_append, h.types]
    grind
  · intro v
    simp only [wfNext, definedValues_snoc, List.mem_append, h.values]
    grind
  · intro c
    simp only [wfNext, createdConts_snoc, List.mem_append, h.conts]
    grind
  · intro c
    simp only [wfNext, destroyedConts_snoc, List.mem_append, h.dead]
    grind
  · have hclock := hok.2.2.2.2.2.1
    simp only [wfNext, maxTs_snoc]
    cases hl : lineTs l with
    | none => simp [h.now]
    | some ts =>
      have := hclock ts hl
      rw [h.now] at this
      simp; omega
  · intro k
    simp only [wfNext, getDepth_nextDepth, depthOf_snoc, h.depth]

/-! ### whole traces -/

theorem wfRun_cons_ok (s : WF) (l : Line) (ls : List Line) (s' : WF) :
    wfRun s (l :: ls) = .ok s' ↔ StepOk s l ∧ wfRun (wfNext s l) ls = .ok s' := by
  simp only [wfRun]
  cases h : wfStep s l with
  | error e =>
    have : ¬ StepOk s l := by
      intro hh
      have := (wfStep_ok_iff s (wfNext s l) l).mpr ⟨hh, rfl⟩
      rw [h] at this; cases this
    simp [this]
  | ok s1 =>
    obtain ⟨a, b⟩ := (wfStep_ok_iff s s1 l).mp h
    subst b
    simp [a]

/-- the automaton, started in a state that abstracts `pre`, accepts `post` iff every line of `post` is acceptable after
the lines before it; and the final state abstracts the whole trace -/
theorem wfRun_iff (post : List Line) : ∀ (pre : List Line) (s : WF), Abs pre s →
    ((∃ s', wfRun s post = .ok s') ↔ ∀ p l q, post = p ++ l :: q → LineOk (pre ++ p) l) := by
  induction post with
  | nil =>
    intro pre s _
    simp [wfRun]
  | cons l post ih =>
    intro pre s h
    simp only [wfRun_cons_ok, exists_and_left]
    constructor
    · intro ⟨hok, hrun⟩
      have hl := (stepOk_iff_lineOk pre s l h).mp hok
      have ih' := (ih (pre ++ [l]) (wfNext s l) (abs_next pre s l h hok)).mp hrun
      intro p l' q e
      cases p with
      | nil =>
        simp at e
        rw [← e.1]; simpa using hl
      | cons a p' =>
        simp at e
        have := ih' p' l' q e.2
        rw [← e.1]
        simpa [List.append_assoc] using this
    · intro hall
      have hl : LineOk pre l := by simpa using hall [] l post rfl
      have hok := (stepOk_iff_lineOk pre s l h).mpr hl
      refine ⟨hok, (ih (pre ++ [l]) (wfNext s l) (abs_next pre s l h hok)).mpr ?_⟩
      intro p l' q e
      have := hall (l :: p) l' q (by simp [e])
      simpa [List.append_assoc] using this

theorem wfRun_abs (post : List Line) : ∀ (pre : List Line) (s s' : WF), Abs pre s → wfRun s post = .ok s' →
    Abs (pre ++ post) s' := by
  induction post with
  | nil =>
    intro pre s s' h hr
    simp [wfRun] at hr
    subst hr; simpa using h
  | cons l post ih =>
    intro pre s s' h hr
    obtain ⟨hok, hr'⟩ := (wfRun_cons_ok s l post s').mp hr
    have := ih (pre ++ [l]) (wfNext s l) s' (abs_next pre s l h hok) hr'
    simpa [List.append_assoc] using this

/-! ### rejected traces: which clause fails -/

theorem needType_bind_err (s : WF) (t : Nat) (f : Unit → Except Why WF) (e : Why) :
    (needType s t >>= f) = .error e ↔ (t ∉ s.types ∧ e = .undeclaredType) ∨ (t ∈ s.types ∧ f () = .error e) := by
  unfold needType
  by_cases h : t ∈ s.types <;> simp [h, bind, Except.bind, eq_comm]

theorem needValue_bind_err (s : WF) (v : Nat) (f : Unit → Except Why WF) (e : Why) :
    (needValue s v >>= f) = .error e ↔ (v ∉ s.values ∧ e = .undeclaredValue) ∨ (v ∈ s.values ∧ f () = .error e) := by
  unfold needValue
  by_cases h : v ∈ s.values <;> simp [h, bind, Except.bind, eq_comm]

theorem useCont_err (s : WF) (ts c : Nat) (e : Why) :
    useCont s ts c = .error e ↔ (ts < s.now ∧ e = .timeDecreases) ∨ (s.now ≤ ts ∧ c ∈ s.dead ∧ e = .useAfterDestroy) ∨
      (s.now ≤ ts ∧ c ∉ s.dead ∧ c ∉ s.conts ∧ e = .undeclaredContainer) := by
  unfold useCont
  by_cases h1 : ts < s.now
  · have : ¬ s.now ≤ ts := by omega
    simp [h1, this, eq_comm]
  · have h1' : s.now ≤ ts := by omega
    by_cases h2 : c ∈ s.dead
    · simp [h1, h1', h2, eq_comm]
    · by_cases h3 : c ∈ s.conts <;> simp [h1, h1', h2, h3, eq_comm]

theorem useCont_bind_err (s : WF) (ts c : Nat) (f : WF → Except Why WF) (e : Why) :
    (useCont s ts c >>= f) = .error e ↔ useCont s ts c = .error e ∨
      (s.now ≤ ts ∧ c ∉ s.dead ∧ c ∈ s.conts ∧ f { s with now := ts } = .error e) := by
  cases h : useCont s ts c with
  | error e' =>
    have : ¬ (s.now ≤ ts ∧ c ∉ s.dead ∧ c ∈ s.conts) := by
      intro hh
      have := (useCont_ok s ts c { s with now := ts }).mpr ⟨hh.1, hh.2.1, hh.2.2, rfl⟩
      rw [h] at this; cases this
    simp [bind, Except.bind]
    intro a b c; exact absurd ⟨a, b, c⟩ this
  | ok s1 =>
    obtain ⟨a, b, c, d⟩ := (useCont_ok s ts c s1).mp h
    subst d
    simp [bind, Except.bind, a, b, c]

/-- state-level reading of an error class -/
def ErrS : Why → WF → Line → Prop
  | .undeclaredType, s, l => ∃ t ∈ usedTypes l, t ∉ s.types
  | .undeclaredValue, s, l => ∃ v ∈ usedValues l, v ∉ s.values
  | .undeclaredContainer, s, l => ∃ c ∈ usedConts l, c ∉ s.conts
  | .timeDecreases, s, l => ∃ ts, lineTs l = some ts ∧ ts < s.now
  | .useAfterDestroy, s, l => ∃ c ∈ usedConts l, c ∈ s.dead
  | .popEmpty, s, l => ∃ ts t c, l = .popState ts t c ∧ getDepth s.depth (c, t) = 0
  | .duplicate, s, l => (∃ id, lineDefType l = some id ∧ id ∈ s.types) ∨ (∃ id, lineCreates l = some id ∧ id ∈ s.conts)

theorem wfStep_error (s : WF) (l : Line) (e : Why) (h : wfStep s l = .error e) : ErrS e s l := by
  cases l <;>
    simp only [wfStep, needType_bind_err, needValue_bind_err, useCont_bind_err, useCont_err] at h <;>
    cases e <;>
    simp [ErrS, usedTypes, usedValues, usedConts, lineDefType, lineCreates, lineTs] at h ⊢
  all_goals grind

theorem errS_violates (pre : List Line) (s : WF) (l : Line) (e : Why) (h : Abs pre s) (he : ErrS e s l) :
    Violates e pre l := by
  cases e <;> simp only [ErrS, Violates] at he ⊢
  · obtain ⟨t, ht, hn⟩ := he
    rw [h.types] at hn
    exact ⟨t, ht, not_or.mp hn⟩
  · obtain ⟨v, hv, hn⟩ := he
    rw [h.values] at hn
    exact ⟨v, hv, hn⟩
  · obtain ⟨c, hc, hn⟩ := he
    rw [h.conts] at hn
    exact ⟨c, hc, not_or.mp hn⟩
  · obtain ⟨ts, hts, hlt⟩ := he
    refine ⟨ts, hts, ?_⟩
    rw [h.now] at hlt
    have hn : ¬ maxTs pre ≤ ts := by omega
    rw [maxTs_le_iff] at hn
    simp only [Classical.not_forall, Nat.not_le] at hn
    obtain ⟨ts', hm, hgt⟩ := hn
    exact ⟨ts', hm, hgt⟩
  · obtain ⟨c, hc, hd⟩ := he
    exact ⟨c, hc, (h.dead c).mp hd⟩
  · obtain ⟨ts, t, c, e1, e2⟩ := he
    exact ⟨ts, t, c, e1, by rw [← h.depth]; exact e2⟩
  · rcases he with ⟨id, e1, e2⟩ | ⟨id, e1, e2⟩
    · exact Or.inl ⟨id, e1, (h.types id).mp e2⟩
    · exact Or.inr ⟨id, e1, (h.conts id).mp e2⟩

/-- a violated clause is really a failure of `LineOk` -/
theorem violates_not_lineOk (pre : List Line) (l : Line) (e : Why) (hv : Violates e pre l) : ¬ LineOk pre l := by
  intro hl
  cases e <;> simp only [Violates] at hv
  · obtain ⟨t, ht, h0, hn⟩ := hv
    rcases hl.typesDeclared t ht with h | h <;> contradiction
  · obtain ⟨v, hv', hn⟩ := hv
    exact hn (hl.valuesDeclared v hv')
  · obtain ⟨c, hc, h0, hn⟩ := hv
    rcases hl.contsDeclared c hc with h | h <;> contradiction
  · obtain ⟨ts, hts, ts', hm, hlt⟩ := hv
    have := hl.clock ts hts ts' hm
    omega
  · obtain ⟨c, hc, hd⟩ := hv
    exact hl.alive c hc hd
  · obtain ⟨ts, t, c, e1, e2⟩ := hv
    have := hl.popBalanced ts t c e1
    omega
  · rcases hv with ⟨id, e1, e2⟩ | ⟨id, e1, e2⟩
    · have := hl.typeFresh id e1
      rcases e2 with e2 | e2
      · exact this.1 e2
      · exact this.2 e2
    · have := hl.contFresh id e1
      rcases e2 with e2 | e2
      · exact this.1 e2
      · exact this.2 e2

/-- a rejected run stops at a first rejected line, after an accepted prefix -/
theorem wfRun_error_split (post : List Line) : ∀ (s : WF) (e : Why), wfRun s post = .error e →
    ∃ p l q s1, post = p ++ l :: q ∧ wfRun s p = .ok s1 ∧ wfStep s1 l = .error e := by
  induction post with
  | nil => intro s e h; simp [wfRun] at h
  | cons l post ih =>
    intro s e h
    simp only [wfRun] at h
    cases hs : wfStep s l with
    | error e' =>
      rw [hs] at h
      simp at h; subst h
      exact ⟨[], l, post, s, rfl, rfl, hs⟩
    | ok s1 =>
      rw [hs] at h
      obtain ⟨p, l', q, s2, e1, e2, e3⟩ := ih s1 e h
      refine ⟨l :: p, l', q, s2, by simp [e1], ?_, e3⟩
      simp only [wfRun, hs]; exact e2

theorem wfRun_error_violates (ls : List Line) (e : Why) (h : wfRun {} ls = .error e) :
    ∃ pre l post s1, ls = pre ++ l :: post ∧ wfRun {} pre = .ok s1 ∧ Violates e pre l := by
  obtain ⟨p, l, q, s1, e1, e2, e3⟩ := wfRun_error_split ls {} e h
  have habs : Abs p s1 := by simpa using wfRun_abs p [] {} s1 abs_init e2
  exact ⟨p, l, q, s1, e1, e2, errS_violates p s1 l e habs (wfStep_error s1 l e e3)⟩

end SgVerif.C47
