/-
C47 — model of the Paje event buffer (src/instr/instr_paje_trace.cpp) and a well-formedness automaton over trace lines.

Buffer.  Only the ordering matters: an event is its timestamp (`Nat` ticks; the payload travels with it unchanged).
`rbuf` is the buffer in REVERSE order (newest first), because `insert_into_buffer` scans from the end:

    for (i = buffer.rbegin(); i != buffer.rend(); ++i) if ((*i)->timestamp_ <= timestamp_) break;
    buffer.insert(i.base(), this);            // just after the last event that is not later than the new one

    dump_buffer(force):  force (or TI format): print everything, clear
                         else: print from the front while timestamp <= last_timestamp_to_dump, erase what was printed
-/
namespace SgVerif.C47

/-- `insert_into_buffer` on the reversed buffer -/
def insertRev : List Nat → Nat → List Nat
  | [], e => [e]
  | x :: t, e => if x ≤ e then e :: x :: t else x :: insertRev t e

structure Buf where
  rbuf : List Nat            -- buffer, newest first
  out : List Nat             -- everything printed so far, in file order
  deriving Repr

inductive BOp where
  | insert (ts : Nat)
  | dump (force : Bool) (limit : Nat)     -- limit = last_timestamp_to_dump at the time of the call
  deriving Repr

def Buf.fwd (b : Buf) : List Nat := b.rbuf.reverse

def bstep (b : Buf) : BOp → Buf
  | .insert ts => { b with rbuf := insertRev b.rbuf ts }
  | .dump true _ => { rbuf := [], out := b.out ++ b.fwd }
  | .dump false limit =>
    { rbuf := (b.fwd.dropWhile (· ≤ limit)).reverse, out := b.out ++ b.fwd.takeWhile (· ≤ limit) }

def brun (b : Buf) : List BOp → Buf
  | [] => b
  | op :: ops => brun (bstep b op) ops

/-! ### well-formedness automaton over the lines of a Paje trace -/

/-- a parsed trace line (ids are the aliases printed by SimGrid; timestamps in ticks of 10^-precision) -/
inductive Line where
  | defContainerType (id parent : Nat)           -- 0
  | defVariableType (id parent : Nat)            -- 1
  | defStateType (id parent : Nat)               -- 2
  | defEventType (id parent : Nat)               -- 3
  | defLinkType (id parent src dst : Nat)        -- 4
  | defEntityValue (id type : Nat)               -- 5
  | createContainer (ts id type parent : Nat)    -- 6
  | destroyContainer (ts type id : Nat)          -- 7
  | variable (ts type cont : Nat)                -- 8 9 10  Set/Add/SubVariable
  | setState (ts type cont val : Nat)            -- 11
  | pushState (ts type cont val : Nat)           -- 12
  | popState (ts type cont : Nat)                -- 13
  | resetState (ts type cont : Nat)              -- 14
  | link (ts type cont endpoint : Nat)           -- 15 16 Start/EndLink (the value and key fields are free strings)
  | newEvent (ts type cont val : Nat)            -- 17
  deriving Repr

inductive Why where
  | undeclaredType | undeclaredValue | undeclaredContainer | timeDecreases | useAfterDestroy | popEmpty | duplicate
  deriving Repr, DecidableEq

structure WF where
  types : List Nat := [0]                -- declared type aliases (0 = the root)
  values : List Nat := []                -- declared entity values
  conts : List Nat := [0]                -- created containers (0 = root's parent)
  dead : List Nat := []                  -- destroyed containers
  now : Nat := 0                         -- largest timestamp seen
  depth : List ((Nat × Nat) × Nat) := [] -- (container, state type) -> push depth
  deriving Repr

def getDepth (d : List ((Nat × Nat) × Nat)) (k : Nat × Nat) : Nat :=
  match d.find? (·.1 == k) with
  | some x => x.2
  | none => 0

def setDepth (d : List ((Nat × Nat) × Nat)) (k : Nat × Nat) (v : Nat) : List ((Nat × Nat) × Nat) :=
  (k, v) :: d.filter (·.1 != k)

/-- every state stack of container `c` is empty.  The property ("keeps state push/pop balanced per container") requires it
whenever `c` is destroyed and, for every container, at the end of the trace: a state that is pushed and never popped before
its container goes away is an unbalanced push.  Checked by the driver at each PajeDestroyContainer line (`wfStep` itself keeps
accepting such a line: use-after-destroy etc. go on being judged); `destroy_balanced_spec` (Props.lean) reads it on the trace. -/
def balancedOn (d : List ((Nat × Nat) × Nat)) (c : Nat) : Bool :=
  d.all (fun e => e.1.1 != c || getDepth d e.1 == 0)

/-- how many states are still pushed on `c` (for the message only) -/
def pushedOn (d : List ((Nat × Nat) × Nat)) (c : Nat) : Nat :=
  (d.filter (·.1.1 == c)).foldl (fun acc e => acc + e.2) 0

def useCont (s : WF) (ts c : Nat) : Except Why WF :=
  if ts < s.now then .error .timeDecreases
  else if s.dead.contains c then .error .useAfterDestroy
  else if !s.conts.contains c then .error .undeclaredContainer
  else .ok { s with now := ts }

def needType (s : WF) (t : Nat) : Except Why Unit := if s.types.contains t then .ok () else .error .undeclaredType
def needValue (s : WF) (v : Nat) : Except Why Unit := if s.values.contains v then .ok () else .error .undeclaredValue

def wfStep (s : WF) : Line → Except Why WF
  | .defContainerType id p | .defVariableType id p | .defStateType id p | .defEventType id p => do
    needType s p
    if s.types.contains id then .error .duplicate else .ok { s with types := id :: s.types }
  | .defLinkType id p a b => do
    needType s p; needType s a; needType s b
    if s.types.contains id then .error .duplicate else .ok { s with types := id :: s.types }
  | .defEntityValue id t => do
    needType s t
    .ok { s with values := id :: s.values }
  | .createContainer ts id t p => do
    needType s t
    if ts < s.now then .error .timeDecreases
    else if s.dead.contains p then .error .useAfterDestroy
    else if !s.conts.contains p then .error .undeclaredContainer
    else if s.conts.contains id then .error .duplicate
    else .ok { s with conts := id :: s.conts, now := ts }
  | .destroyContainer ts t c => do
    needType s t
    let s ← useCont s ts c
    .ok { s with dead := c :: s.dead }
  | .variable ts t c => do needType s t; useCont s ts c
  | .setState ts t c v => do
    needType s t; needValue s v
    let s ← useCont s ts c
    .ok { s with depth := setDepth s.depth (c, t) (max (getDepth s.depth (c, t)) 1) }
  | .pushState ts t c v => do
    needType s t; needValue s v
    let s ← useCont s ts c
    .ok { s with depth := setDepth s.depth (c, t) (getDepth s.depth (c, t) + 1) }
  | .popState ts t c => do
    needType s t
    let s ← useCont s ts c
    if getDepth s.depth (c, t) = 0 then .error .popEmpty
    else .ok { s with depth := setDepth s.depth (c, t) (getDepth s.depth (c, t) - 1) }
  | .resetState ts t c => do
    needType s t
    let s ← useCont s ts c
    .ok { s with depth := setDepth s.depth (c, t) 0 }
  | .link ts t c e => do
    needType s t
    let s ← useCont s ts c
    if s.dead.contains e then .error .useAfterDestroy
    else if !s.conts.contains e then .error .undeclaredContainer else .ok s
  | .newEvent ts t c v => do needType s t; needValue s v; useCont s ts c

def lineTs : Line → Option Nat
  | .createContainer ts .. | .destroyContainer ts .. | .variable ts .. | .setState ts .. | .pushState ts ..
  | .popState ts .. | .resetState ts .. | .link ts .. | .newEvent ts .. => some ts
  | _ => none

def wfRun (s : WF) : List Line → Except Why WF
  | [] => .ok s
  | l :: ls => match wfStep s l with
    | .ok s' => wfRun s' ls
    | .error e => .error e

def errOf : Except Why WF → Option Why
  | .ok _ => none
  | .error e => some e

end SgVerif.C47
