import SgVerif.C47.Model
/-
C47 — declarative specification of a well-formed Paje trace.

`WellFormed ls` is stated on the trace itself: for every position (`ls = pre ++ l :: post`) the line `l` satisfies
`LineOk pre l`, whose clauses only talk about the lines of `pre`:
  (a) declared before use  (types, entity values, containers; no duplicate type alias / container id)
  (b) the clock does not go back
  (c) no use of a destroyed container
  (d) a PopState finds a pushed state (per container and state type)
Nothing here mentions the automaton state `WF` of Model.lean; `wfOk_iff_spec` (Props.lean) proves that the automaton
`wfRun` accepts exactly the well-formed traces.
-/
namespace SgVerif.C47

/-! ### what a line defines -/

/-- the type alias defined by a `Define*Type` line -/
def lineDefType : Line → Option Nat
  | .defContainerType id _ | .defVariableType id _ | .defStateType id _ | .defEventType id _ => some id
  | .defLinkType id _ _ _ => some id
  | _ => none

/-- the entity value defined by a `DefineEntityValue` line -/
def lineDefValue : Line → Option Nat
  | .defEntityValue id _ => some id
  | _ => none

/-- the container created by a `CreateContainer` line -/
def lineCreates : Line → Option Nat
  | .createContainer _ id _ _ => some id
  | _ => none

/-- the container destroyed by a `DestroyContainer` line -/
def lineDestroys : Line → Option Nat
  | .destroyContainer _ _ c => some c
  | _ => none

/-! ### what a line uses -/

/-- the type aliases a line refers to (parent / endpoint types of a definition, the type of an event) -/
def usedTypes : Line → List Nat
  | .defContainerType _ p | .defVariableType _ p | .defStateType _ p | .defEventType _ p => [p]
  | .defLinkType _ p a b => [p, a, b]
  | .defEntityValue _ t => [t]
  | .createContainer _ _ t _ => [t]
  | .destroyContainer _ t _ => [t]
  | .variable _ t _ => [t]
  | .setState _ t _ _ | .pushState _ t _ _ | .newEvent _ t _ _ => [t]
  | .popState _ t _ | .resetState _ t _ => [t]
  | .link _ t _ _ => [t]

/-- the entity values a line refers to -/
def usedValues : Line → List Nat
  | .setState _ _ _ v | .pushState _ _ _ v | .newEvent _ _ _ v => [v]
  | _ => []

/-- the containers a line refers to (the parent of a created container, both ends of a link line) -/
def usedConts : Line → List Nat
  | .createContainer _ _ _ p => [p]
  | .destroyContainer _ _ c => [c]
  | .variable _ _ c => [c]
  | .setState _ _ c _ | .pushState _ _ c _ | .newEvent _ _ c _ => [c]
  | .popState _ _ c | .resetState _ _ c => [c]
  | .link _ _ c e => [c, e]
  | _ => []

/-! ### what a prefix of the trace has established -/

def definedTypes (pre : List Line) : List Nat := pre.filterMap lineDefType
def definedValues (pre : List Line) : List Nat := pre.filterMap lineDefValue
def createdConts (pre : List Line) : List Nat := pre.filterMap lineCreates
def destroyedConts (pre : List Line) : List Nat := pre.filterMap lineDestroys
/-- the timestamps of the timestamped lines, in trace order -/
def timestamps (pre : List Line) : List Nat := pre.filterMap lineTs
/-- the largest timestamp of a prefix (0 when it has none) -/
def maxTs (pre : List Line) : Nat := (timestamps pre).foldl max 0

/-- effect of one line on the push depth of the state stack `k = (container, state type)`:
push +1, pop −1, set: at least one state, reset: none -/
def depthStep (k : Nat × Nat) (d : Nat) : Line → Nat
  | .pushState _ t c _ => if (c, t) = k then d + 1 else d
  | .popState _ t c => if (c, t) = k then d - 1 else d
  | .setState _ t c _ => if (c, t) = k then max d 1 else d
  | .resetState _ t c => if (c, t) = k then 0 else d
  | _ => d

/-- push depth of the state stack `k = (container, state type)` after the lines of `pre` (read left to right) -/
def depthOf (pre : List Line) (k : Nat × Nat) : Nat := pre.foldl (depthStep k) 0

/-! ### the specification -/

/-- the line `l` is acceptable after the lines `pre` -/
structure LineOk (pre : List Line) (l : Line) : Prop where
  /-- (a) every type used is the root (0) or was defined before -/
  typesDeclared : ∀ t ∈ usedTypes l, t = 0 ∨ t ∈ definedTypes pre
  /-- (a) every entity value used was defined before -/
  valuesDeclared : ∀ v ∈ usedValues l, v ∈ definedValues pre
  /-- (a) every container used is 0 (the parent of the root) or was created before -/
  contsDeclared : ∀ c ∈ usedConts l, c = 0 ∨ c ∈ createdConts pre
  /-- (a) a type alias is defined once (and 0 is reserved) -/
  typeFresh : ∀ id, lineDefType l = some id → id ≠ 0 ∧ id ∉ definedTypes pre
  /-- (a) a container id is created once (and 0 is reserved) -/
  contFresh : ∀ id, lineCreates l = some id → id ≠ 0 ∧ id ∉ createdConts pre
  /-- (b) the clock does not go back -/
  clock : ∀ ts, lineTs l = some ts → ∀ ts' ∈ timestamps pre, ts' ≤ ts
  /-- (c) no use after destroy -/
  alive : ∀ c ∈ usedConts l, c ∉ destroyedConts pre
  /-- (d) a pop finds a pushed state -/
  popBalanced : ∀ ts t c, l = .popState ts t c → 0 < depthOf pre (c, t)

/-- a trace is well formed when every line is acceptable after the lines before it -/
def WellFormed (ls : List Line) : Prop :=
  ∀ pre l post, ls = pre ++ l :: post → LineOk pre l

/-! ### reading of the automaton's error classes on the trace -/

/-- the clause of `LineOk pre l` that fails, per error class of the automaton (`Why`, Model.lean) -/
def Violates : Why → List Line → Line → Prop
  | .undeclaredType, pre, l => ∃ t ∈ usedTypes l, t ≠ 0 ∧ t ∉ definedTypes pre
  | .undeclaredValue, pre, l => ∃ v ∈ usedValues l, v ∉ definedValues pre
  | .undeclaredContainer, pre, l => ∃ c ∈ usedConts l, c ≠ 0 ∧ c ∉ createdConts pre
  | .timeDecreases, pre, l => ∃ ts, lineTs l = some ts ∧ ∃ ts' ∈ timestamps pre, ts < ts'
  | .useAfterDestroy, pre, l => ∃ c ∈ usedConts l, c ∈ destroyedConts pre
  | .popEmpty, pre, l => ∃ ts t c, l = .popState ts t c ∧ depthOf pre (c, t) = 0
  | .duplicate, pre, l => (∃ id, lineDefType l = some id ∧ (id = 0 ∨ id ∈ definedTypes pre)) ∨
                          (∃ id, lineCreates l = some id ∧ (id = 0 ∨ id ∈ createdConts pre))

end SgVerif.C47
