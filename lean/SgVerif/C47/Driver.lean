import SgVerif.C47.Model
import SgVerif.Common.Proto
/-
C47 driver: the lines of a Paje trace file (one per protocol line, timestamps already converted to integer ticks by
check.py: `begin <id> =>`, `L <code> <fields...> =>`) are fed to the well-formedness automaton `wfStep`.
`ok` = accepted; `MONFAIL ... key=<class>` = the line breaks one of the four clauses.  After a failure the automaton goes
on (the offending line is applied with the clock rewound) so that every line of the trace is judged.
Push / pop balance per container: a PajeDestroyContainer of a container that still has a pushed state (`balancedOn`, read on
the trace by `destroy_balanced_spec`) is `MONFAIL key=state-left-pushed container=<alias> pushed=<n>` (this verdict wins over
another failure of the same line), and `end <id> =>` (sent by check.py after the last line of a trace) reports the created,
never destroyed containers that still have a pushed state.  check.py names the class after what the program did.
-/
open SgVerif.Proto
namespace SgVerif.C47

structure DS where
  wf : WF := {}
  lastKind : Nat := 0        -- code of the line that last advanced the clock
  lastTs : Nat := 0

def parseLine (t : List String) : Option (Nat × Line) :=
  match t.map String.toNat? with
  | some 0 :: some id :: some p :: _ => some (0, .defContainerType id p)
  | some 1 :: some id :: some p :: _ => some (1, .defVariableType id p)
  | some 2 :: some id :: some p :: _ => some (2, .defStateType id p)
  | some 3 :: some id :: some p :: _ => some (3, .defEventType id p)
  | some 4 :: some id :: some p :: some a :: some b :: _ => some (4, .defLinkType id p a b)
  | some 5 :: some id :: some ty :: _ => some (5, .defEntityValue id ty)
  | some 6 :: some ts :: some id :: some ty :: some p :: _ => some (6, .createContainer ts id ty p)
  | some 7 :: some ts :: some ty :: some id :: _ => some (7, .destroyContainer ts ty id)
  | some 8 :: some ts :: some ty :: some c :: _ => some (8, .variable ts ty c)
  | some 9 :: some ts :: some ty :: some c :: _ => some (9, .variable ts ty c)
  | some 10 :: some ts :: some ty :: some c :: _ => some (10, .variable ts ty c)
  | some 11 :: some ts :: some ty :: some c :: some v :: _ => some (11, .setState ts ty c v)
  | some 12 :: some ts :: some ty :: some c :: some v :: _ => some (12, .pushState ts ty c v)
  | some 13 :: some ts :: some ty :: some c :: _ => some (13, .popState ts ty c)
  | some 14 :: some ts :: some ty :: some c :: _ => some (14, .resetState ts ty c)
  | some 15 :: some ts :: some ty :: some c :: _ :: some e :: _ => some (15, .link ts ty c e)
  | some 16 :: some ts :: some ty :: some c :: _ :: some e :: _ => some (16, .link ts ty c e)
  | some 17 :: some ts :: some ty :: some c :: some v :: _ => some (17, .newEvent ts ty c v)
  | _ => none

def whyS : Why → String
  | .undeclaredType => "undeclared-type" | .undeclaredValue => "undeclared-value"
  | .undeclaredContainer => "undeclared-container" | .timeDecreases => "time-decreases"
  | .useAfterDestroy => "use-after-destroy" | .popEmpty => "pop-without-push" | .duplicate => "duplicate-declaration"

def judgeLine (s : DS) (q : List String) : DS × Verdict :=
  match q with
  | "L" :: toks =>
    match parseLine toks with
    | none => (s, .bad)
    | some (code, line) =>
      match wfStep s.wf line with
      | .ok wf' =>
        let adv := match lineTs line with
          | some ts => ts > s.wf.now || s.lastKind == 0
          | none => false
        ({ s with wf := wf', lastKind := if adv then code else s.lastKind,
                  lastTs := wf'.now }, .ok)
      | .error .timeDecreases =>
        -- classify by what advanced the clock beyond this line's timestamp
        let cls := if s.lastKind == 6 then "create-container-not-buffered" else "event-dated-before-forced-dump"
        let wf0 := { s.wf with now := 0 }
        let wf1 := match wfStep wf0 line with
          | .ok w => { w with now := s.wf.now }
          | .error _ => s.wf
        ({ s with wf := wf1 }, .monfail s!"key=time-decreases/{cls} clock={s.wf.now} (set by a line of kind {s.lastKind})")
      | .error e => (s, .monfail s!"key={whyS e}")
  | _ => (s, .bad)

def judge (s : DS) (q _a : List String) : DS × Verdict :=
  match q with
  | "begin" :: _ => ({}, .ok)
  | "end" :: _ =>
    let open_ := (s.wf.conts.filter (fun c => !s.wf.dead.contains c)).filter (fun c => !balancedOn s.wf.depth c)
    match open_ with
    | [] => (s, .ok)
    | c :: _ => (s, .monfail s!"key=state-left-pushed container={c} pushed={pushedOn s.wf.depth c} at-end-of-trace")
  | "L" :: toks =>
    let r := judgeLine s q
    match parseLine toks with
    | some (_, .destroyContainer _ _ c) =>
      if balancedOn s.wf.depth c then r
      else (r.1, .monfail s!"key=state-left-pushed container={c} pushed={pushedOn s.wf.depth c}")
    | _ => r
  | _ => (s, .bad)

end SgVerif.C47

def main : IO Unit := SgVerif.Proto.runS ({} : SgVerif.C47.DS) SgVerif.C47.judge
