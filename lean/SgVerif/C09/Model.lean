/-
C09 — model of one `MessageQueueImpl` and of `MessImpl::iput / iget / cancel / finish`
(src/kernel/activity/MessageQueueImpl.cpp, MessImpl.cpp).  Core-only (the driver is compiled).

One `MQ` value = one `MessageQueueImpl` object.  Operations on different queues never touch each other in the
C++ (`iput/iget` use `observer->get_queue()` only, `cancel` uses the back pointer `queue_`), so a system with any
number of queues is the product of independent `MQ`s (the driver keeps a list of them).

Identities: a `MessImpl` object is identified by the index (in the history of this queue) of the kernel call
that created it (`new MessImpl()` in iput/iget).  `next` counts the calls made so far, so ids are fresh.
-/
namespace SgVerif.C09

/-- `enum class MessImplType { PUT, GET }` -/
inductive MType where
  | put | get
  deriving DecidableEq, Repr

/-- the `State`s a MessImpl can be observed in between two kernel calls.  READY and RUNNING only exist inside
`iput/iget` (`set_state(READY); start()` sets RUNNING and calls `finish()` which sets DONE at once). -/
inductive MState where
  | waiting | done | canceled
  deriving DecidableEq, Repr

structure Mess where
  id : Nat
  type : MType                     -- type_  (of the side that created the object and queued it)
  state : MState := .waiting       -- state_ (default WAITING)
  src : Option Nat := none         -- src_actor_
  dst : Option Nat := none         -- dst_actor_
  payload : Option Nat := none     -- payload_
  hasBuf : Bool := false           -- dst_buff_ != nullptr
  delivered : Option Nat := none   -- what `*(void**)dst_buff_ = payload_` wrote
  writes : Nat := 0                -- ghost: how many times `*(void**)dst_buff_ = payload_` was executed
  detached : Bool := false         -- detached_
  putEv : Option Nat := none       -- ghost: index of the iput call that filled src_actor_/payload_
  getEv : Option Nat := none       -- ghost: index of the iget call that filled dst_actor_/dst_buff_
  deriving DecidableEq, Repr

structure MQ where
  next : Nat := 0                  -- number of kernel calls made on this queue so far
  queue : List Mess := []          -- queue_ (front first)
  fin : List Mess := []            -- objects that left the queue (DONE or CANCELED), most recent first
  deriving Repr

/-- `MessageQueueImpl::find_matching_message(type)`:
    `std::find_if(queue_.begin(), queue_.end(), mess->get_type() == type)`, then `queue_.erase(iter)`.
    Returns the message found and the queue without it. -/
def findMatching (t : MType) : List Mess → Option (Mess × List Mess)
  | [] => none
  | m :: ms =>
    if m.type = t then some (m, ms)
    else match findMatching t ms with
      | none => none
      | some (x, rest) => some (x, m :: rest)

/-- `start()` on a READY mess sets RUNNING and calls `finish()`:
    `if RUNNING then DONE; … if (DONE && payload_ != nullptr && dst_buff_ != nullptr) *(void**)dst_buff_ = payload_;` -/
def Mess.finish (m : Mess) : Mess :=
  let m := { m with state := .done }
  if m.payload.isSome && m.hasBuf then { m with delivered := m.payload, writes := m.writes + 1 } else m

/-- `finish()` called again on an object that already left the queue: `ActivityImpl::wait_for` and `ActivityImpl::test`
    call `finish()` whenever `state_ != WAITING && state_ != RUNNING`.  MessImpl has no `copied_` flag (CommImpl has one):
    `if (get_state() == State::DONE && payload_ != nullptr && dst_buff_ != nullptr) *(void**)(dst_buff_) = payload_;`
    is executed again by every later wait()/test() of either side — also after the getter has returned and its buffer
    (a local of `MessageQueue::get<T>()`) is gone.
    AFTER THE PROPOSED FIX (props/C09/proposed_fix.diff: `dst_buff_ = nullptr` once copied) this becomes `m`. -/
def Mess.refinish (m : Mess) : Mess :=
  if m.state = .done && m.payload.isSome && m.hasBuf then { m with delivered := m.payload, writes := m.writes + 1 }
  else m

/-- `MessImpl::iput(observer)`; returns the new state and the id of the object returned in `observer->set_message`. -/
def iput (s : MQ) (a pl : Nat) (det : Bool) : MQ × Nat :=
  match findMatching .get s.queue with
  | none =>
    -- "Put pushed first": other_mess = this_mess; queue->push(other_mess); start() does nothing (state WAITING)
    let m : Mess := { id := s.next, type := .put, src := some a, payload := some pl, detached := det,
                      putEv := some s.next }
    ({ next := s.next + 1, queue := s.queue ++ [m], fin := s.fin }, s.next)
  | some (g, rest) =>
    -- "Get already pushed": other_mess->set_state(READY); fields set; start() -> finish()
    let m := ({ g with src := some a, payload := some pl, detached := g.detached || det,
                       putEv := some s.next }).finish
    ({ next := s.next + 1, queue := rest, fin := m :: s.fin }, g.id)

/-- `MessImpl::iget(observer)` -/
def iget (s : MQ) (a : Nat) (buf : Bool) : MQ × Nat :=
  match findMatching .put s.queue with
  | none =>
    let m : Mess := { id := s.next, type := .get, dst := some a, hasBuf := buf, getEv := some s.next }
    ({ next := s.next + 1, queue := s.queue ++ [m], fin := s.fin }, s.next)
  | some (p, rest) =>
    let m := ({ p with dst := some a, hasBuf := buf, getEv := some s.next }).finish
    ({ next := s.next + 1, queue := rest, fin := m :: s.fin }, p.id)

/-- `MessImpl::cancel()`: `if (state == WAITING) { queue_->remove(this); state = CANCELED; }` — every queued object
    is WAITING; an object that is not queued any more is DONE or CANCELED and only the actors' `activities_` sets
    change (not modelled). -/
def cancel (s : MQ) (id : Nat) : MQ :=
  match s.queue.find? (fun m => m.id == id) with
  | some m => { next := s.next + 1, queue := s.queue.eraseP (fun m => m.id == id),
                fin := { m with state := .canceled } :: s.fin }
  | none => { s with next := s.next + 1 }

/-- `wait_for` / `test` on the object `id` when it is not queued any more (DONE or CANCELED): `finish()` runs again.
    (On a queued, WAITING object they only register / answer the simcall: no step of the queue.) -/
def refinish (s : MQ) (id : Nat) : MQ :=
  { next := s.next + 1, queue := s.queue, fin := s.fin.map (fun m => if m.id == id then m.refinish else m) }

/-- kernel calls on one message queue -/
inductive Ev where
  | iput (a pl : Nat) (det : Bool)
  | iget (a : Nat) (buf : Bool)
  | cancel (id : Nat)
  | refinish (id : Nat)
  deriving DecidableEq, Repr

def step (s : MQ) : Ev → MQ
  | .iput a pl det => (iput s a pl det).1
  | .iget a buf => (iget s a buf).1
  | .cancel id => cancel s id
  | .refinish id => refinish s id

def run (h : List Ev) : MQ := h.foldl step {}

/-- look an object up by id (queue first, then the finished ones) -/
def MQ.lookup (s : MQ) (id : Nat) : Option Mess :=
  match s.queue.find? (fun m => m.id == id) with
  | some m => some m
  | none => s.fin.find? (fun m => m.id == id)

/-- the (put call, get call) pairs completed so far, in completion order -/
def pairOf (m : Mess) : Option (Nat × Nat) :=
  if m.state = .done then
    match m.putEv, m.getEv with
    | some p, some g => some (p, g)
    | _, _ => none
  else none

def pairs (s : MQ) : List (Nat × Nat) := s.fin.reverse.filterMap pairOf

end SgVerif.C09
