import SgVerif.C09.Lemmas
/-
C09 — Message queues are exactly-once and FIFO.  Property theorems (nothing else in this file).

Every theorem is for ALL histories `h : List Ev` of kernel calls (iput / iget / cancel, any actors, any payloads,
any length) on a message queue; `run h` is the state of the `MessageQueueImpl` model after them.  A call is named by
its index in `h`.  `pairs s` lists the completed exchanges as (index of the iput call, index of the iget call) in
completion order.  Timed waits (`wait_for`) do not appear: in the code a timeout only unregisters the waiting
simcall and leaves the `MessImpl` queued, so it is not a step of the queue (the driver checks that against the
library, including the D11 witness).
-/
namespace SgVerif.C09

/-- **Exactly once.**  No iput call is consumed twice, no iget call is served twice, and every completed exchange is
one iput call and one iget call of the history; the object carries exactly that put's payload, and when the getter
gave a buffer the payload written to it is that payload. -/
theorem mq_exactly_once (h : List Ev) :
    ((pairs (run h)).map Prod.fst).Nodup ∧ ((pairs (run h)).map Prod.snd).Nodup ∧
    ∀ pg ∈ pairs (run h), ∃ m ∈ (run h).fin, m.state = .done ∧ m.putEv = some pg.1 ∧ m.getEv = some pg.2 ∧
      ∃ a pl det b buf, h[pg.1]? = some (Ev.iput a pl det) ∧ h[pg.2]? = some (Ev.iget b buf) ∧
        m.src = some a ∧ m.dst = some b ∧ m.payload = some pl ∧ (buf = true → m.delivered = some pl) := by
  have hf := (inv_run h).pfifo
  refine ⟨?_, ?_, ?_⟩
  · rw [List.Nodup, List.pairwise_map]
    exact hf.imp (fun hab => by omega)
  · rw [List.Nodup, List.pairwise_map]
    exact hf.imp (fun hab => by omega)
  · intro pg hpg
    obtain ⟨m, hm, hd, hp, hg⟩ := mem_pairs hpg
    have hok := (link_run h).f m hm
    obtain ⟨a, pl, det, h1, h2, h3⟩ := hok.put _ hp
    obtain ⟨b, buf, h4, h5, h6⟩ := hok.get _ hg
    refine ⟨m, hm, hd, hp, hg, a, pl, det, b, buf, h1, h4, h3, h5, h2, ?_⟩
    intro hb
    have := (hok.deliv.2 hd).2.2.2 (by rw [h6, hb])
    rw [this, h2]

/-- every object that reached DONE has both ends (so `pairs` misses nothing), and nothing is ever written to a
getter's buffer except the payload of the put it was matched with -/
theorem mq_done_has_both_ends (h : List Ev) :
    ∀ m ∈ (run h).fin, (m.state = .done → ∃ p g, m.putEv = some p ∧ m.getEv = some g ∧ (p, g) ∈ pairs (run h)) ∧
      (m.delivered = none ∨ m.delivered = m.payload) := by
  intro m hm
  have hok := (link_run h).f m hm
  refine ⟨?_, hok.deliv.1⟩
  intro hd
  obtain ⟨h1, h2, _⟩ := hok.deliv.2 hd
  obtain ⟨p, hp⟩ := Option.isSome_iff_exists.mp h1
  obtain ⟨g, hg⟩ := Option.isSome_iff_exists.mp h2
  exact ⟨p, g, hp, hg, pairs_complete hm hd hp hg⟩

/-- **FIFO.**  In completion order both the iput indices and the iget indices increase strictly: the k-th completed
exchange pairs a later put with a later get than the (k-1)-th — payloads are delivered in the order the puts were
issued, to the gets in the order they were issued. -/
theorem mq_fifo (h : List Ev) :
    (pairs (run h)).Pairwise (fun x y => x.1 < y.1 ∧ x.2 < y.2) := (inv_run h).pfifo

/-- **Nothing pending is overtaken.**  A put still queued is newer than every put already delivered, a get still
queued is newer than every get already served; and the queue is in arrival order. -/
theorem mq_no_overtake (h : List Ev) :
    (∀ m ∈ (run h).queue, ∀ pg ∈ pairs (run h),
      (m.type = .put → pg.1 < m.id) ∧ (m.type = .get → pg.2 < m.id)) ∧
    (run h).queue.Pairwise (fun x y => x.id < y.id) := ⟨(inv_run h).noover, (inv_run h).sorted⟩

/-- **No pending pair.**  A queued put and a queued get never coexist (a get is pending only when no put is, and
conversely), so a get that can be served is served. -/
theorem mq_no_pending_pair (h : List Ev) :
    ∀ m1 ∈ (run h).queue, ∀ m2 ∈ (run h).queue, m1.type = m2.type := (inv_run h).homog

/-- **A get takes the oldest pending put** (and symmetrically a put serves the oldest pending get): in every
reachable state, if some put is queued the new get is matched with the one of smallest id. -/
theorem iget_takes_oldest (h : List Ev) (a : Nat) (buf : Bool) (m : Mess) (hm : m ∈ (run h).queue)
    (ht : m.type = .put) :
    ∃ p ∈ (run h).queue, p.type = .put ∧ (iget (run h) a buf).2 = p.id ∧
      (∀ x ∈ (run h).queue, p.id ≤ x.id) ∧ p.putEv = some p.id ∧
      (p.id, (run h).next) ∈ pairs (iget (run h) a buf).1 := by
  have hi := inv_run h
  cases hf : findMatching .put (run h).queue with
  | none => exact absurd ht (findMatching_none hf m hm)
  | some pr =>
    obtain ⟨p, rest⟩ := pr
    obtain ⟨hq, hpt⟩ := findMatching_head hi hf
    have hpm : p ∈ (run h).queue := by rw [hq]; simp
    have hsorted := hi.sorted
    rw [hq] at hsorted
    have hpev := (hi.qput p hpm hpt).1
    refine ⟨p, hpm, hpt, ?_, ?_, ?_, ?_⟩
    · simp [iget, hf]
    · intro x hx
      rw [hq] at hx
      cases hx with
      | head => exact Nat.le_refl _
      | tail _ hx => exact Nat.le_of_lt ((List.pairwise_cons.mp hsorted).1 x hx)
    · exact hpev
    · simp only [iget, hf]
      rw [pairs_cons, pairOf_finish_get p a _ buf hpev]
      simp

theorem iput_serves_oldest (h : List Ev) (a pl : Nat) (det : Bool) (m : Mess) (hm : m ∈ (run h).queue)
    (ht : m.type = .get) :
    ∃ g ∈ (run h).queue, g.type = .get ∧ (iput (run h) a pl det).2 = g.id ∧
      (∀ x ∈ (run h).queue, g.id ≤ x.id) ∧ ((run h).next, g.id) ∈ pairs (iput (run h) a pl det).1 := by
  have hi := inv_run h
  cases hf : findMatching .get (run h).queue with
  | none => exact absurd ht (findMatching_none hf m hm)
  | some pr =>
    obtain ⟨g, rest⟩ := pr
    obtain ⟨hq, hgt⟩ := findMatching_head hi hf
    have hgm : g ∈ (run h).queue := by rw [hq]; simp
    have hsorted := hi.sorted
    rw [hq] at hsorted
    have hgev := (hi.qget g hgm hgt).1
    refine ⟨g, hgm, hgt, ?_, ?_, ?_⟩
    · simp [iput, hf]
    · intro x hx
      rw [hq] at hx
      cases hx with
      | head => exact Nat.le_refl _
      | tail _ hx => exact Nat.le_of_lt ((List.pairwise_cons.mp hsorted).1 x hx)
    · simp only [iput, hf]
      rw [pairs_cons, pairOf_finish_put g a pl _ det hgev]
      simp

/-!
### The payload is written into the getter's buffer once — FALSE on the current code

Full-strength statement (what "every get returns the payload of exactly one put" needs at the level of the buffer):

    theorem mq_written_once (h : List Ev) : ∀ m ∈ (run h).fin, m.writes ≤ 1

It does not hold: `MessImpl::finish()` runs again on every later `wait()/test()` of either side and, having no
`copied_` flag, executes `*(void**)dst_buff_ = payload_` again — also after the getter has returned, when
`dst_buff_` (a local variable of `MessageQueue::get<T>()`) is dead.  Reproduced on the library (the getter's stack is
overwritten: segmentation fault in a later `sleep_for`; with a heap buffer: the buffer the getter had already
consumed is filled again).  Classification key: `mess-finish-recopies-payload`.
-/

/-- counterexample: a get with a buffer is queued, a put is matched with it (first write), then the putter waits on
its already-DONE put: `finish()` writes the buffer a second time. -/
theorem mq_written_once_counterexample :
    ∃ h : List Ev, ∃ m ∈ (run h).fin, m.state = .done ∧ m.writes = 2 :=
  ⟨[.iget 1 true, .iput 2 70 false, .refinish 0], by decide⟩

/-- what does hold: without a later `wait()/test()` on an object that is already finished (no `refinish` call in
the history) the buffer is written at most once. -/
theorem mq_written_once_partial (h : List Ev) (hh : ∀ e ∈ h, ∀ id, e ≠ Ev.refinish id) :
    ∀ m ∈ (run h).fin, m.writes ≤ 1 :=
  (wok_foldl h hh {} ⟨by simp, by simp⟩).2

/-! ### non-vacuity: concrete histories on which the statements above say something -/

/-- two puts then two gets: delivered in order, payloads 70 then 71 -/
example : pairs (run [.iput 1 70 false, .iput 1 71 false, .iget 2 true, .iget 3 true]) = [(0, 2), (1, 3)] ∧
    ((run [.iput 1 70 false, .iput 1 71 false, .iget 2 true, .iget 3 true]).fin.map (·.delivered))
      = [some 71, some 70] := by decide

/-- gets first (one of them cancelled while queued), then puts: the cancelled get is never served -/
example : pairs (run [.iget 2 true, .iget 3 true, .cancel 0, .iput 1 70 true, .iput 1 71 false]) = [(3, 1)] ∧
    ((run [.iget 2 true, .iget 3 true, .cancel 0, .iput 1 70 true, .iput 1 71 false]).queue.map (·.id)) = [4] := by
  decide

/-- `mq_written_once_partial` is not vacuous: a history without refinish in which the buffer is written (once) -/
example : ((run [.iget 1 true, .iput 2 70 false]).fin.map (·.writes)) = [1] := by decide

/-- hypotheses of `iget_takes_oldest` are satisfiable -/
example : ∃ m ∈ (run [.iput 1 70 false, .iput 4 71 true]).queue, m.type = .put := by decide

end SgVerif.C09
