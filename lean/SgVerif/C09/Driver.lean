import SgVerif.C09.Model
import SgVerif.Common.Proto
/-
C09 driver: replays the kernel calls observed on the real library (the `c` lines of props/_shared/msg/harness.cpp,
which with one worker thread are in the order in which maestro handles the simcalls) on the `MQ` model and
 (i)   accepts a returning get only with exactly the payload the model matched, a timed-out wait only when the model
       has the message still queued, a test() result only when it equals "the model has it DONE";
 (ii)  at the end requires every actor still blocked to wait on something the model has NOT completed, and compares the
       final content of every queue with the model's;
 (iii) evaluates the property's monitors on the log alone (no model): exactly-once (no payload id received twice,
       every received id was put), FIFO (the order of receipt follows the order of the puts and of the gets, nothing
       still queued at the end is older than something delivered), and the date monitor of sleeps (D11 witness).
-/
open SgVerif.Proto
namespace SgVerif.C09

structure HInfo where
  q : Nat
  id : Nat
  isGet : Bool
  actor : Nat
  call : Nat
  pid : Option Nat := none      -- puts: payload id
  got : Option Nat := none      -- gets: payload id the implementation delivered (log)
  finished : Bool := false      -- the S4U activity is FINISHED (a wait returned / test was true): no more simcalls
  w0 : Nat := 0                 -- gets: number of buffer writes (model) when the get returned

structure DS where
  qs : List MQ := [{}, {}, {}]
  hs : List (Nat × HInfo) := []
  recvd : List Nat := []
  pending : List (Nat × Nat) := []      -- (actor, handle) of the blocking calls in progress
  sleeps : List (Nat × Rat) := []       -- (actor, date at which its sleep must end)
  dumps : List (Nat × List String) := [] -- final queue contents (implementation)
  tests : List (Nat × Bool) := []       -- (actor, "the model has the object DONE") when its test() call was handled
  fuzzy : List (Nat × Nat) := []        -- (queue, object) touched by the real blocking put()/get<T>() (two simcalls
                                        -- behind one call line: the date of the second one is not in the log)
  line : Nat := 0

def parseRat (s : String) : Option Rat :=
  match s.splitOn "/" with
  | [n, d] => match n.toInt?, d.toNat? with
    | some n, some d => if d = 0 then none else some ((n : Rat) / (d : Rat))
    | _, _ => none
  | [n] => n.toInt?.map (fun n => (n : Rat))
  | _ => none

def DS.handle (s : DS) (h : Nat) : Option HInfo := (s.hs.find? (·.1 == h)).map (·.2)
def DS.mess (s : DS) (hi : HInfo) : Option Mess := (s.qs[hi.q]?).bind (·.lookup hi.id)
def DS.setHandle (s : DS) (h : Nat) (hi : HInfo) : DS :=
  { s with hs := (h, hi) :: s.hs.filter (·.1 != h) }
def DS.clearPending (s : DS) (a : Nat) : DS := { s with pending := s.pending.filter (·.1 != a) }

/-- what the model says the getter holding this object reads -/
def modelGot (m : Mess) : Option Nat :=
  if m.state = .done then (if m.hasBuf then m.delivered else m.payload) else none

/-- exactly-once monitor on the log: `pid` was put, and was not received before -/
def monReceive (s : DS) (pid : Nat) : Option String :=
  if ¬ s.hs.any (fun x => x.2.pid == some pid) then some s!"payload {pid} received but never put"
  else if s.recvd.contains pid then some s!"payload {pid} received twice"
  else none

/-- a get handle `h` returned / was found holding payload `pid` -/
def receive (s : DS) (h : Nat) (pid : Nat) : DS × Verdict :=
  match s.handle h with
  | none => (s, .bad)
  | some hi =>
    if hi.got = some pid then
      -- a later wait()/test() on the FINISHED activity finds the payload again in the buffer that the harness cleared
      -- when the get returned: the kernel has written it again
      let w := match s.mess hi with
        | some m => m.writes
        | none => 0
      (s.setHandle h { hi with w0 := w },
       .monfail s!"the buffer of get {h} was written again ({pid}) after the get had returned and consumed it")
    else
    match monReceive s pid with
    | some why => (s, .monfail why)
    | none =>
      let w := match s.mess hi with
        | some m => m.writes
        | none => 0
      let s' := { (s.setHandle h { hi with got := some pid, finished := true, w0 := w }) with recvd := pid :: s.recvd }
      match s.mess hi with
      | none => (s', .disagree "no-such-object")
      | some m =>
        if modelGot m = some pid then (s', .ok)
        else (s', .disagree s!"model-delivers-{modelGot m}")

/-- wait_for / test on handle `h`: when the S4U activity is not FINISHED yet the simcall reaches
`ActivityImpl::wait_for/test`, which call `finish()` again when the object has left the queue -/
def DS.again (s : DS) (h : Nat) : DS :=
  match s.handle h with
  | some hi =>
    if hi.finished then s else
    match s.qs[hi.q]? with
    | some mq =>
      if (mq.queue.find? (fun m => m.id == hi.id)).isSome then s
      else { s with qs := s.qs.set hi.q (refinish mq hi.id) }
    | none => s
  | none => s

def DS.finish (s : DS) (h : Nat) : DS :=
  match s.handle h with
  | some hi => s.setHandle h { hi with finished := true }
  | none => s

def isDone (s : DS) (h : Nat) : Option Bool :=
  (s.handle h).bind (fun hi => (s.mess hi).map (fun m => m.state == .done))

/-- FIFO monitors on the log alone, evaluated at the end of a program -/
def fifoMonitor (s : DS) : Option String :=
  -- completed exchanges known from the log: (queue, call line of the put, call line of the get)
  let pairsL : List (Nat × Nat × Nat) := s.hs.filterMap (fun (_, g) =>
    match g.got with
    | some pid => (s.hs.find? (fun x => x.2.pid == some pid)).map (fun p => (g.q, p.2.call, g.call))
    | none => none)
  let crossing := pairsL.any (fun (q1, p1, g1) => pairsL.any (fun (q2, p2, g2) => q1 == q2 && p1 < p2 && g2 < g1))
  if crossing then some "two exchanges on one queue cross (a later put was delivered to an earlier get)" else
  -- still queued at the end (implementation dump) but older than something delivered
  let over := s.dumps.any (fun (q, ents) => ents.any (fun e =>
    if e.startsWith "P" then
      match (e.drop 1).toString.toNat? with
      | some pid => match s.hs.find? (fun x => x.2.pid == some pid) with
        | some p => pairsL.any (fun (q2, p2, _) => q2 == q && p.2.call < p2)
        | none => false
      | none => false
    else false))
  if over then some "a put still queued at the end is older than a put already delivered" else none

def expectDump (m : Mess) : String :=
  match m.type with
  | .put => s!"P{m.payload.getD 0}"
  | .get => s!"G{m.dst.getD 0}"

def judge (s : DS) (q a : List String) : DS × Verdict :=
  let s := { s with line := s.line + 1 }
  match q with
  | ["prog", _] => ({}, .ok)
  | ["c", act, "sleep", d, clk] =>
    match act.toNat?, parseRat d, parseRat clk with
    | some act, some d, some clk => ({ s with sleeps := (act, clk + d) :: s.sleeps.filter (·.1 != act) }, .ok)
    | _, _, _ => (s, .bad)
  | ["r", act, "sleep", _] =>
    match act.toNat?, a with
    | some act, [clk] =>
      match parseRat clk, s.sleeps.find? (·.1 == act) with
      | some clk, some (_, due) =>
        if clk = due then (s, .ok)
        else (s, .monfail s!"sleep of actor {act} returned at {clk}, due at {due}")
      | _, _ => (s, .bad)
    | _, _ => (s, .bad)
  | ["c", act, op, qi, h, pid] =>       -- mput / mputa / mputd Q H pid   or mgeta Q H B
    match act.toNat?, qi.toNat?, h.toNat?, pid.toNat?, s.qs[qi.toNat?.getD 99]? with
    | some act, some qi, some h, some pid, some mq =>
      if op == "mgeta" then
        let (mq', id) := iget mq act (pid != 0)
        ((({ s with qs := s.qs.set qi mq' }).setHandle h { q := qi, id := id, isGet := true, actor := act, call := s.line }), .ok)
      else if op == "mput" || op == "mputa" || op == "mputd" then
        let (mq', id) := iput mq act pid (op == "mputd")
        let s1 := ({ s with qs := s.qs.set qi mq' }).setHandle h
          { q := qi, id := id, isGet := false, actor := act, call := s.line, pid := some pid }
        (if op == "mput" then { s1 with pending := (act, h) :: s1.pending, fuzzy := (qi, id) :: s1.fuzzy } else s1, .ok)
      else (s, .bad)
    | _, _, _, _, _ => (s, .bad)
  | ["c", act, "mget", qi, h] =>
    match act.toNat?, qi.toNat?, h.toNat?, s.qs[qi.toNat?.getD 99]? with
    | some act, some qi, some h, some mq =>
      let (mq', id) := iget mq act true
      let s1 := ({ s with qs := s.qs.set qi mq' }).setHandle h { q := qi, id := id, isGet := true, actor := act, call := s.line }
      ({ s1 with pending := (act, h) :: s1.pending, fuzzy := (qi, id) :: s1.fuzzy }, .ok)
    | _, _, _, _ => (s, .bad)
  | ["c", act, "mcancel", h] =>
    match act.toNat?, h.toNat? with
    | some _, some h =>
      match s.handle h with
      | some hi =>
        match s.qs[hi.q]? with
        | some mq => ({ s with qs := s.qs.set hi.q (cancel mq hi.id) }, .ok)
        | none => (s, .bad)
      | none => (s, .bad)
    | _, _ => (s, .bad)
  | ["c", act, "mwait", h] =>
    match act.toNat?, h.toNat? with
    | some act, some h => ({ (s.again h) with pending := (act, h) :: s.pending }, .ok)
    | _, _ => (s, .bad)
  | ["c", act, "mwaitfor", h, _] =>
    match act.toNat?, h.toNat? with
    | some act, some h => ({ (s.again h) with pending := (act, h) :: s.pending }, .ok)
    | _, _ => (s, .bad)
  | ["c", act, "mtest", h] =>
    match act.toNat?, h.toNat? with
    | some act, some h =>
      let s := s.again h
      ({ s with tests := (act, isDone s h == some true) :: s.tests.filter (·.1 != act) }, .ok)
    | _, _ => (s, .bad)
  | ["r", act, op, h] =>
    match act.toNat?, h.toNat? with
    | some act, some h =>
      let s := s.clearPending act
      match a with
      | ["ok"] =>
        if op == "mput" || op == "mwait" || op == "mwaitfor" then
          -- a blocking put / a wait on a put returned: the model must have completed it
          if isDone s h = some true then ((if op == "mput" then s.again h else s).finish h, .ok)
          else (s, .disagree "model-has-it-not-done")
        else (s, .ok)      -- mputa / mputd / mgeta / mcancel return at once
      | ["ok", pid] =>
        match pid.toNat? with
        | some pid => receive s h pid
        | none =>
          -- `ok none`: a wait()/test() on an activity whose payload this getter has consumed already
          if ((s.handle h).map (·.finished)) = some true then (s, .ok)
          else if isDone s h = some true then (s, .disagree s!"model-done-impl-{pid}") else (s, .disagree "model-not-done")
      | ["true"] => if isDone s h = some true then (s.finish h, .ok) else (s, .disagree "model-test-false")
      | ["true", pid] =>
        match pid.toNat? with
        | some pid => receive s h pid
        | none => if ((s.handle h).map (·.finished)) = some true then (s, .ok) else (s, .disagree "test-true-without-payload")
      | ["false"] =>
        if (s.tests.find? (·.1 == act)).map (·.2) = some false then (s, .ok) else (s, .disagree "model-test-true")
      | ["exc", "timeout"] =>
        if isDone s h = some false then (s, .ok) else (s, .disagree "model-had-completed-it")
      | _ => (s, .disagree "unexpected-result")
    | _, _ => (s, .bad)
  | ["x", act] =>
    match act.toNat? with
    | some act => if s.pending.any (·.1 == act) then (s, .bad) else (s, .ok)
    | none => (s, .bad)
  | ["dump", "mb", _] => (s, .ok)
  | ["dump", "mq", qi] =>
    match qi.toNat?, s.qs[qi.toNat?.getD 99]? with
    | some qi, some mq =>
      let s := { s with dumps := (qi, a) :: s.dumps }
      let model := mq.queue.map expectDump
      if model = a then (s, .ok) else (s, .disagree (" ".intercalate model))
    | _, _ => (s, .bad)
  | ["late", h] =>
    match h.toNat?, a with
    | some h, [v] =>
      match v.toNat? with
      | some pid => receive s h pid
      | none =>
        if v == "none" then
          match (s.handle h).bind s.mess with
          | some m => if modelGot m = none then (s, .ok) else (s, .disagree s!"model-delivers-{modelGot m}")
          | none => (s, .ok)
        else (s, .monfail s!"buffer of get {h} holds {v}")
    | _, _ => (s, .bad)
  | ["rewrite", h] =>
    match h.toNat?, a with
    | some h, [v] =>
      if v != "none" then
        (s, .monfail s!"the buffer of get {h} was written again ({v}) after the get had returned and consumed it")
      else
        match s.handle h with
        | some hi =>
          match s.mess hi with
          | some m =>
            if s.fuzzy.contains (hi.q, hi.id) || m.writes == hi.w0 then (s, .ok)
            else (s, .disagree "model-writes-the-buffer-again")
          | none => (s, .bad)
        | none => (s, .bad)
    | _, _ => (s, .bad)
  | ["end"] =>
    match a with
    | [kind, _] =>
      if kind == "crash" then (s, .monfail "the library crashed") else
      match fifoMonitor s with
      | some why => (s, .monfail why)
      | none =>
        -- whoever is still blocked must wait on something the model has not completed
        let wrong := s.pending.filter (fun (_, h) => isDone s h != some false)
        if kind == "ok" && !s.pending.isEmpty then (s, .disagree "end-ok-with-blocked-actors")
        else if !wrong.isEmpty then (s, .disagree s!"blocked-on-completed {wrong.map (·.2)}")
        else (s, .ok)
    | _ => (s, .bad)
  | _ => (s, .bad)

end SgVerif.C09

def main : IO Unit := SgVerif.Proto.runS ({} : SgVerif.C09.DS) SgVerif.C09.judge
