import SgVerif.C09.Model
/-
C09 — helper lemmas: what `findMatching` returns, and the invariant of one message queue.
-/
namespace SgVerif.C09

theorem findMatching_some {t : MType} {l : List Mess} {m : Mess} {rest : List Mess}
    (h : findMatching t l = some (m, rest)) :
    ∃ pre post, l = pre ++ m :: post ∧ rest = pre ++ post ∧ m.type = t ∧ ∀ x ∈ pre, x.type ≠ t := by
  induction l generalizing m rest with
  | nil => simp [findMatching] at h
  | cons a as ih =>
    unfold findMatching at h
    split at h
    · rename_i hat
      injection h with h; injection h with h1 h2
      subst h1; subst h2
      exact ⟨[], as, rfl, rfl, hat, by simp⟩
    · rename_i hat
      split at h
      · cases h
      · rename_i x r hf
        injection h with h; injection h with h1 h2
        subst h1; subst h2
        obtain ⟨pre, post, e1, e2, e3, e4⟩ := ih hf
        refine ⟨a :: pre, post, by simp [e1], by simp [e2], e3, ?_⟩
        intro y hy
        cases hy with
        | head => exact hat
        | tail _ hy => exact e4 y hy

theorem findMatching_none {t : MType} {l : List Mess} (h : findMatching t l = none) :
    ∀ x ∈ l, x.type ≠ t := by
  induction l with
  | nil => simp
  | cons a as ih =>
    unfold findMatching at h
    split at h
    · cases h
    · rename_i hat
      split at h
      · rename_i hf
        intro x hx
        cases hx with
        | head => exact hat
        | tail _ hx => exact ih hf x hx
      · cases h

theorem type_ne_get {m : Mess} (h : m.type ≠ .get) : m.type = .put := by
  cases hm : m.type <;> simp_all
theorem type_ne_put {m : Mess} (h : m.type ≠ .put) : m.type = .get := by
  cases hm : m.type <;> simp_all

theorem pairs_cons (n : Nat) (q : List Mess) (m : Mess) (f : List Mess) :
    pairs { next := n, queue := q, fin := m :: f } =
      pairs { next := n, queue := q, fin := f } ++ (pairOf m).toList := by
  unfold pairs
  simp only [List.reverse_cons, List.filterMap_append]
  cases h : pairOf m <;> simp [h]

theorem pairs_indep (n n' : Nat) (q q' : List Mess) (f : List Mess) :
    pairs { next := n, queue := q, fin := f } = pairs { next := n', queue := q', fin := f } := rfl

/-- invariant of a message queue -/
structure Inv (s : MQ) : Prop where
  qid : ∀ m ∈ s.queue, m.id < s.next
  qstate : ∀ m ∈ s.queue, m.state = .waiting
  qput : ∀ m ∈ s.queue, m.type = .put → m.putEv = some m.id ∧ m.getEv = none
  qget : ∀ m ∈ s.queue, m.type = .get → m.getEv = some m.id ∧ m.putEv = none
  sorted : s.queue.Pairwise (fun x y => x.id < y.id)
  homog : ∀ m1 ∈ s.queue, ∀ m2 ∈ s.queue, m1.type = m2.type
  plt : ∀ pg ∈ pairs s, pg.1 < s.next ∧ pg.2 < s.next
  pfifo : (pairs s).Pairwise (fun x y => x.1 < y.1 ∧ x.2 < y.2)
  noover : ∀ m ∈ s.queue, ∀ pg ∈ pairs s, (m.type = .put → pg.1 < m.id) ∧ (m.type = .get → pg.2 < m.id)

theorem inv_init : Inv {} := by
  constructor <;> simp [pairs]

/-- with a homogeneous queue, the first message of the wanted type is the head of the queue -/
theorem findMatching_head {t : MType} {s : MQ} (hi : Inv s) {m : Mess} {rest : List Mess}
    (h : findMatching t s.queue = some (m, rest)) : s.queue = m :: rest ∧ m.type = t := by
  obtain ⟨pre, post, e1, e2, e3, e4⟩ := findMatching_some h
  cases pre with
  | nil => simp at e1 e2; subst e2; exact ⟨e1, e3⟩
  | cons x xs =>
    exfalso
    have hx : x ∈ s.queue := by rw [e1]; simp
    have hm : m ∈ s.queue := by rw [e1]; simp
    have := hi.homog x hx m hm
    exact e4 x (by simp) (by rw [this, e3])


theorem pairOf_finish_put (g : Mess) (a pl n : Nat) (det : Bool) (hg : g.getEv = some g.id) :
    pairOf ({ g with src := some a, payload := some pl, detached := g.detached || det,
                     putEv := some n }).finish = some (n, g.id) := by
  unfold Mess.finish pairOf
  simp only []
  split <;> simp [hg]

theorem pairOf_finish_get (p : Mess) (a n : Nat) (buf : Bool) (hp : p.putEv = some p.id) :
    pairOf ({ p with dst := some a, hasBuf := buf, getEv := some n }).finish = some (p.id, n) := by
  unfold Mess.finish pairOf
  simp only []
  split <;> simp [hp]

theorem inv_push {s : MQ} (hi : Inv s) (m : Mess) (hid : m.id = s.next) (hst : m.state = .waiting)
    (hty : ∀ x ∈ s.queue, x.type = m.type)
    (hp : m.type = .put → m.putEv = some m.id ∧ m.getEv = none)
    (hg : m.type = .get → m.getEv = some m.id ∧ m.putEv = none) :
    Inv { next := s.next + 1, queue := s.queue ++ [m], fin := s.fin } := by
  have hpairs : pairs { next := s.next + 1, queue := s.queue ++ [m], fin := s.fin } = pairs s := rfl
  constructor
  · intro x hx
    simp only [List.mem_append, List.mem_singleton] at hx
    rcases hx with hx | hx
    · have := hi.qid x hx; simp only; omega
    · subst hx; simp only; omega
  · intro x hx
    simp only [List.mem_append, List.mem_singleton] at hx
    rcases hx with hx | hx
    · exact hi.qstate x hx
    · subst hx; exact hst
  · intro x hx
    simp only [List.mem_append, List.mem_singleton] at hx
    rcases hx with hx | hx
    · exact hi.qput x hx
    · subst hx; exact hp
  · intro x hx
    simp only [List.mem_append, List.mem_singleton] at hx
    rcases hx with hx | hx
    · exact hi.qget x hx
    · subst hx; exact hg
  · simp only [List.pairwise_append, List.pairwise_cons, List.mem_singleton]
    refine ⟨hi.sorted, by simp, ?_⟩
    intro x hx y hy
    subst hy
    have := hi.qid x hx; omega
  · intro x hx y hy
    simp only [List.mem_append, List.mem_singleton] at hx hy
    rcases hx with hx | hx <;> rcases hy with hy | hy
    · exact hi.homog x hx y hy
    · subst hy; exact hty x hx
    · subst hx; exact (hty y hy).symm
    · subst hx; subst hy; rfl
  · intro pg hpg
    rw [hpairs] at hpg
    have := hi.plt pg hpg
    simp only; omega
  · rw [hpairs]; exact hi.pfifo
  · intro x hx pg hpg
    rw [hpairs] at hpg
    simp only [List.mem_append, List.mem_singleton] at hx
    rcases hx with hx | hx
    · exact hi.noover x hx pg hpg
    · subst hx
      have := hi.plt pg hpg
      constructor <;> intro _ <;> omega

theorem inv_iput {s : MQ} (hi : Inv s) (a pl : Nat) (det : Bool) : Inv (iput s a pl det).1 := by
  unfold iput
  split
  · rename_i hf
    apply inv_push hi
    · rfl
    · rfl
    · intro x hx; exact type_ne_get (findMatching_none hf x hx)
    · intro _; exact ⟨rfl, rfl⟩
    · intro h; cases h
  · rename_i g rest hf
    obtain ⟨hq, hgt⟩ := findMatching_head hi hf
    have hgm : g ∈ s.queue := by rw [hq]; simp
    have hrest : ∀ x ∈ rest, x ∈ s.queue := by intro x hx; rw [hq]; simp [hx]
    have hgev := (hi.qget g hgm hgt).1
    have hsorted := hi.sorted
    rw [hq] at hsorted
    have hpairs : pairs { next := s.next + 1, queue := rest, fin := ({ g with src := some a, payload := some pl, detached := g.detached || det, putEv := some s.next }).finish :: s.fin } = pairs s ++ [(s.next, g.id)] := by
      rw [pairs_cons, pairOf_finish_put g a pl s.next det hgev]; rfl
    simp only
    constructor
    · intro x hx; have := hi.qid x (hrest x hx); simp only; omega
    · intro x hx; exact hi.qstate x (hrest x hx)
    · intro x hx; exact hi.qput x (hrest x hx)
    · intro x hx; exact hi.qget x (hrest x hx)
    · exact (List.pairwise_cons.mp hsorted).2
    · intro x hx y hy; exact hi.homog x (hrest x hx) y (hrest y hy)
    · intro pg hpg
      rw [hpairs] at hpg
      simp only [List.mem_append, List.mem_singleton] at hpg
      rcases hpg with hpg | hpg
      · have := hi.plt pg hpg; simp only; omega
      · subst hpg; have := hi.qid g hgm; simp only; omega
    · rw [hpairs]
      simp only [List.pairwise_append, List.pairwise_cons, List.mem_singleton]
      refine ⟨hi.pfifo, by simp, ?_⟩
      intro pg hpg y hy
      subst hy
      exact ⟨(hi.plt pg hpg).1, (hi.noover g hgm pg hpg).2 hgt⟩
    · intro x hx pg hpg
      rw [hpairs] at hpg
      simp only [List.mem_append, List.mem_singleton] at hpg
      rcases hpg with hpg | hpg
      · exact hi.noover x (hrest x hx) pg hpg
      · subst hpg
        have hxt : x.type = .get := by rw [hi.homog x (hrest x hx) g hgm, hgt]
        constructor
        · intro h; rw [hxt] at h; cases h
        · intro _; exact (List.pairwise_cons.mp hsorted).1 x hx

theorem inv_iget {s : MQ} (hi : Inv s) (a : Nat) (buf : Bool) : Inv (iget s a buf).1 := by
  unfold iget
  split
  · rename_i hf
    apply inv_push hi
    · rfl
    · rfl
    · intro x hx; exact type_ne_put (findMatching_none hf x hx)
    · intro h; cases h
    · intro _; exact ⟨rfl, rfl⟩
  · rename_i p rest hf
    obtain ⟨hq, hpt⟩ := findMatching_head hi hf
    have hpm : p ∈ s.queue := by rw [hq]; simp
    have hrest : ∀ x ∈ rest, x ∈ s.queue := by intro x hx; rw [hq]; simp [hx]
    have hpev := (hi.qput p hpm hpt).1
    have hsorted := hi.sorted
    rw [hq] at hsorted
    have hpairs : pairs { next := s.next + 1, queue := rest, fin := ({ p with dst := some a, hasBuf := buf, getEv := some s.next }).finish :: s.fin }
          = pairs s ++ [(p.id, s.next)] := by
      rw [pairs_cons, pairOf_finish_get p a s.next buf hpev]; rfl
    simp only
    constructor
    · intro x hx; have := hi.qid x (hrest x hx); simp only; omega
    · intro x hx; exact hi.qstate x (hrest x hx)
    · intro x hx; exact hi.qput x (hrest x hx)
    · intro x hx; exact hi.qget x (hrest x hx)
    · exact (List.pairwise_cons.mp hsorted).2
    · intro x hx y hy; exact hi.homog x (hrest x hx) y (hrest y hy)
    · intro pg hpg
      rw [hpairs] at hpg
      simp only [List.mem_append, List.mem_singleton] at hpg
      rcases hpg with hpg | hpg
      · have := hi.plt pg hpg; simp only; omega
      · subst hpg; have := hi.qid p hpm; simp only; omega
    · rw [hpairs]
      simp only [List.pairwise_append, List.pairwise_cons, List.mem_singleton]
      refine ⟨hi.pfifo, by simp, ?_⟩
      intro pg hpg y hy
      subst hy
      exact ⟨(hi.noover p hpm pg hpg).1 hpt, (hi.plt pg hpg).2⟩
    · intro x hx pg hpg
      rw [hpairs] at hpg
      simp only [List.mem_append, List.mem_singleton] at hpg
      rcases hpg with hpg | hpg
      · exact hi.noover x (hrest x hx) pg hpg
      · subst hpg
        have hxt : x.type = .put := by rw [hi.homog x (hrest x hx) p hpm, hpt]
        constructor
        · intro _; exact (List.pairwise_cons.mp hsorted).1 x hx
        · intro h; rw [hxt] at h; cases h

theorem pairOf_canceled (m : Mess) : pairOf { m with state := .canceled } = none := by
  simp [pairOf]

theorem inv_cancel {s : MQ} (hi : Inv s) (id : Nat) : Inv (cancel s id) := by
  unfold cancel
  have hsub : ∀ x ∈ s.queue.eraseP (fun m => m.id == id), x ∈ s.queue :=
    fun x hx => List.mem_of_mem_eraseP hx
  split
  · rename_i m hf
    have hpairs : pairs { next := s.next + 1, queue := s.queue.eraseP (fun m => m.id == id), fin := { m with state := .canceled } :: s.fin } = pairs s := by
      rw [pairs_cons, pairOf_canceled]; simp; rfl
    constructor
    · intro x hx; have := hi.qid x (hsub x hx); simp only; omega
    · intro x hx; exact hi.qstate x (hsub x hx)
    · intro x hx; exact hi.qput x (hsub x hx)
    · intro x hx; exact hi.qget x (hsub x hx)
    · exact List.Pairwise.sublist (List.eraseP_sublist) hi.sorted
    · intro x hx y hy; exact hi.homog x (hsub x hx) y (hsub y hy)
    · intro pg hpg; rw [hpairs] at hpg; have := hi.plt pg hpg; simp only; omega
    · rw [hpairs]; exact hi.pfifo
    · intro x hx pg hpg; rw [hpairs] at hpg; exact hi.noover x (hsub x hx) pg hpg
  · have hpairs : pairs { next := s.next + 1, queue := s.queue, fin := s.fin } = pairs s := rfl
    show Inv { next := s.next + 1, queue := s.queue, fin := s.fin }
    constructor
    · intro x hx; have := hi.qid x hx; simp only; omega
    · exact hi.qstate
    · exact hi.qput
    · exact hi.qget
    · exact hi.sorted
    · exact hi.homog
    · intro pg hpg; rw [hpairs] at hpg; have := hi.plt pg hpg; simp only; omega
    · rw [hpairs]; exact hi.pfifo
    · intro x hx pg hpg; rw [hpairs] at hpg; exact hi.noover x hx pg hpg

theorem pairOf_refinish (m : Mess) : pairOf m.refinish = pairOf m := by
  unfold Mess.refinish
  split <;> rfl

theorem pairs_refinish (s : MQ) (id : Nat) : pairs (refinish s id) = pairs s := by
  unfold pairs refinish
  simp only [← List.map_reverse, List.filterMap_map]
  congr 1
  funext m
  simp only [Function.comp]
  split
  · exact pairOf_refinish m
  · rfl

theorem inv_refinish {s : MQ} (hi : Inv s) (id : Nat) : Inv (refinish s id) := by
  have hpairs := pairs_refinish s id
  constructor
  · intro x hx; have := hi.qid x hx; show x.id < s.next + 1; omega
  · exact hi.qstate
  · exact hi.qput
  · exact hi.qget
  · exact hi.sorted
  · exact hi.homog
  · intro pg hpg; rw [hpairs] at hpg; have := hi.plt pg hpg; show pg.1 < s.next + 1 ∧ pg.2 < s.next + 1; omega
  · rw [hpairs]; exact hi.pfifo
  · intro x hx pg hpg; rw [hpairs] at hpg; exact hi.noover x hx pg hpg

theorem inv_step {s : MQ} (hi : Inv s) (e : Ev) : Inv (step s e) := by
  cases e with
  | refinish id => exact inv_refinish hi id
  | iput a pl det => exact inv_iput hi a pl det
  | iget a buf => exact inv_iget hi a buf
  | cancel id => exact inv_cancel hi id

theorem inv_foldl (h : List Ev) : ∀ s, Inv s → Inv (h.foldl step s) := by
  induction h with
  | nil => intro s hs; exact hs
  | cons e es ih => intro s hs; exact ih _ (inv_step hs e)

theorem inv_run (h : List Ev) : Inv (run h) := inv_foldl h _ inv_init


/-! ### link between the objects and the calls of the history -/

theorem getElem?_snoc_of_some {α : Type} {l : List α} {i : Nat} {x e : α} (h : l[i]? = some x) :
    (l ++ [e])[i]? = some x := by
  have := (List.getElem?_eq_some_iff.mp h).1
  rw [List.getElem?_append_left this]; exact h

def PutOk (h : List Ev) (m : Mess) : Prop :=
  ∀ p, m.putEv = some p → ∃ a pl det, h[p]? = some (Ev.iput a pl det) ∧ m.payload = some pl ∧ m.src = some a
def GetOk (h : List Ev) (m : Mess) : Prop :=
  ∀ g, m.getEv = some g → ∃ a buf, h[g]? = some (Ev.iget a buf) ∧ m.dst = some a ∧ m.hasBuf = buf
def DelivOk (m : Mess) : Prop :=
  (m.delivered = none ∨ m.delivered = m.payload) ∧
  (m.state = .done → m.putEv.isSome ∧ m.getEv.isSome ∧ m.payload.isSome ∧ (m.hasBuf = true → m.delivered = m.payload))

structure MOk (h : List Ev) (m : Mess) : Prop where
  put : PutOk h m
  get : GetOk h m
  deliv : DelivOk m

structure Link (h : List Ev) (s : MQ) : Prop where
  len : s.next = h.length
  q : ∀ m ∈ s.queue, MOk h m ∧ m.delivered = none
  f : ∀ m ∈ s.fin, MOk h m

theorem MOk.lift {h : List Ev} {m : Mess} (e : Ev) (hm : MOk h m) : MOk (h ++ [e]) m := by
  refine ⟨?_, ?_, hm.deliv⟩
  · intro p hp
    obtain ⟨a, pl, det, h1, h2⟩ := hm.put p hp
    exact ⟨a, pl, det, getElem?_snoc_of_some h1, h2⟩
  · intro g hg
    obtain ⟨a, buf, h1, h2⟩ := hm.get g hg
    exact ⟨a, buf, getElem?_snoc_of_some h1, h2⟩

theorem link_init : Link [] {} := by
  constructor <;> simp

theorem link_iput {h : List Ev} {s : MQ} (hi : Inv s) (hl : Link h s) (a pl : Nat) (det : Bool) :
    Link (h ++ [Ev.iput a pl det]) (iput s a pl det).1 := by
  have hnew : (h ++ [Ev.iput a pl det])[s.next]? = some (Ev.iput a pl det) := by rw [hl.len]; simp
  unfold iput
  split
  · constructor
    · simp [hl.len]
    · intro m hm
      simp only [List.mem_append, List.mem_singleton] at hm
      rcases hm with hm | hm
      · exact ⟨(hl.q m hm).1.lift _, (hl.q m hm).2⟩
      · subst hm
        refine ⟨⟨?_, ?_, ?_⟩, rfl⟩
        · intro p hp; simp only [Option.some.injEq] at hp; subst hp
          exact ⟨a, pl, det, hnew, rfl, rfl⟩
        · intro g hg; simp at hg
        · simp [DelivOk]
    · intro m hm; exact (hl.f m hm).lift _
  · rename_i g rest hf
    obtain ⟨hq, hgt⟩ := findMatching_head hi hf
    have hgm : g ∈ s.queue := by rw [hq]; simp
    have hrest : ∀ x ∈ rest, x ∈ s.queue := by intro x hx; rw [hq]; simp [hx]
    have hgev := hi.qget g hgm hgt
    obtain ⟨hgok, hgd⟩ := hl.q g hgm
    constructor
    · simp [hl.len]
    · intro m hm; exact ⟨(hl.q m (hrest m hm)).1.lift _, (hl.q m (hrest m hm)).2⟩
    · intro m hm
      simp only [List.mem_cons] at hm
      rcases hm with hm | hm
      · subst hm
        refine ⟨?_, ?_, ?_⟩
        · intro p hp
          have : p = s.next := by
            unfold Mess.finish at hp; simp only [] at hp; split at hp <;> simp at hp <;> omega
          subst this
          refine ⟨a, pl, det, hnew, ?_, ?_⟩ <;> (unfold Mess.finish; simp only []; split <;> rfl)
        · intro gg hg
          have hg' : g.getEv = some gg := by
            unfold Mess.finish at hg; simp only [] at hg; split at hg <;> exact hg
          obtain ⟨b, buf, h1, h2, h3⟩ := (hgok.lift (Ev.iput a pl det)).get gg hg'
          refine ⟨b, buf, h1, ?_, ?_⟩ <;> (unfold Mess.finish; simp only []; split <;> assumption)
        · unfold DelivOk Mess.finish
          simp only []
          split
          · rename_i hb
            simp at hb
            simp [hgev.1]
          · rename_i hb
            simp at hb
            simp [hgev.1, hgd, hb]
      · exact (hl.f m hm).lift _

theorem link_iget {h : List Ev} {s : MQ} (hi : Inv s) (hl : Link h s) (a : Nat) (buf : Bool) :
    Link (h ++ [Ev.iget a buf]) (iget s a buf).1 := by
  have hnew : (h ++ [Ev.iget a buf])[s.next]? = some (Ev.iget a buf) := by rw [hl.len]; simp
  unfold iget
  split
  · constructor
    · simp [hl.len]
    · intro m hm
      simp only [List.mem_append, List.mem_singleton] at hm
      rcases hm with hm | hm
      · exact ⟨(hl.q m hm).1.lift _, (hl.q m hm).2⟩
      · subst hm
        refine ⟨⟨?_, ?_, ?_⟩, rfl⟩
        · intro p hp; simp at hp
        · intro g hg; simp only [Option.some.injEq] at hg; subst hg
          exact ⟨a, buf, hnew, rfl, rfl⟩
        · simp [DelivOk]
    · intro m hm; exact (hl.f m hm).lift _
  · rename_i p rest hf
    obtain ⟨hq, hpt⟩ := findMatching_head hi hf
    have hpm : p ∈ s.queue := by rw [hq]; simp
    have hrest : ∀ x ∈ rest, x ∈ s.queue := by intro x hx; rw [hq]; simp [hx]
    have hpev := hi.qput p hpm hpt
    obtain ⟨hpok, hpd⟩ := hl.q p hpm
    obtain ⟨sa, spl, sdet, _, hppl, _⟩ := hpok.put p.id hpev.1
    constructor
    · simp [hl.len]
    · intro m hm; exact ⟨(hl.q m (hrest m hm)).1.lift _, (hl.q m (hrest m hm)).2⟩
    · intro m hm
      simp only [List.mem_cons] at hm
      rcases hm with hm | hm
      · subst hm
        refine ⟨?_, ?_, ?_⟩
        · intro pp hp
          have hp' : p.putEv = some pp := by
            unfold Mess.finish at hp; simp only [] at hp; split at hp <;> exact hp
          obtain ⟨b, pl, det, h1, h2, h3⟩ := (hpok.lift (Ev.iget a buf)).put pp hp'
          refine ⟨b, pl, det, h1, ?_, ?_⟩ <;> (unfold Mess.finish; simp only []; split <;> assumption)
        · intro g hg
          have : g = s.next := by
            unfold Mess.finish at hg; simp only [] at hg; split at hg <;> simp at hg <;> omega
          subst this
          refine ⟨a, buf, hnew, ?_, ?_⟩ <;> (unfold Mess.finish; simp only []; split <;> rfl)
        · unfold DelivOk Mess.finish
          simp only []
          split
          · rename_i hb
            simp at hb
            simp [hpev.1, hppl]
          · rename_i hb
            simp [hppl] at hb
            simp [hpev.1, hpd, hb, hppl]
      · exact (hl.f m hm).lift _

theorem link_cancel {h : List Ev} {s : MQ} (_hi : Inv s) (hl : Link h s) (id : Nat) :
    Link (h ++ [Ev.cancel id]) (cancel s id) := by
  unfold cancel
  split
  · rename_i m hf
    have hm : m ∈ s.queue := List.mem_of_find?_eq_some hf
    constructor
    · simp [hl.len]
    · intro x hx
      have hx' := List.mem_of_mem_eraseP hx
      exact ⟨(hl.q x hx').1.lift _, (hl.q x hx').2⟩
    · intro x hx
      simp only [List.mem_cons] at hx
      rcases hx with hx | hx
      · subst hx
        obtain ⟨hok, hd⟩ := hl.q m hm
        have hok' := hok.lift (Ev.cancel id)
        refine ⟨hok'.put, hok'.get, ?_⟩
        simp [DelivOk, hd]
      · exact (hl.f x hx).lift _
  · constructor
    · simp [hl.len]
    · intro x hx; exact ⟨(hl.q x hx).1.lift _, (hl.q x hx).2⟩
    · intro x hx; exact (hl.f x hx).lift _

theorem run_snoc (h : List Ev) (e : Ev) : run (h ++ [e]) = step (run h) e := by
  simp [run, List.foldl_append]

theorem MOk.refinish {h : List Ev} {m : Mess} (hm : MOk h m) : MOk h m.refinish := by
  unfold Mess.refinish
  split
  · rename_i hc
    simp only [Bool.and_eq_true, decide_eq_true_eq] at hc
    refine ⟨hm.put, hm.get, ?_⟩
    have := hm.deliv
    unfold DelivOk at *
    simp only
    exact ⟨Or.inr trivial, fun hd => ⟨(this.2 hd).1, (this.2 hd).2.1, (this.2 hd).2.2.1, fun _ => trivial⟩⟩
  · exact hm

theorem link_refinish {h : List Ev} {s : MQ} (hl : Link h s) (id : Nat) :
    Link (h ++ [Ev.refinish id]) (refinish s id) := by
  constructor
  · simp [refinish, hl.len]
  · intro x hx; exact ⟨(hl.q x hx).1.lift _, (hl.q x hx).2⟩
  · intro x hx
    simp only [refinish, List.mem_map] at hx
    obtain ⟨m, hm, rfl⟩ := hx
    split
    · exact ((hl.f m hm).lift _).refinish
    · exact (hl.f m hm).lift _

theorem link_step {h : List Ev} {s : MQ} (hi : Inv s) (hl : Link h s) (e : Ev) : Link (h ++ [e]) (step s e) := by
  cases e with
  | refinish id => exact link_refinish hl id
  | iput a pl det => exact link_iput hi hl a pl det
  | iget a buf => exact link_iget hi hl a buf
  | cancel id => exact link_cancel hi hl id

theorem link_foldl (h : List Ev) : ∀ h0 s, Inv s → Link h0 s → Link (h0 ++ h) (h.foldl step s) := by
  induction h with
  | nil => intro h0 s _ hl; simpa using hl
  | cons e es ih =>
    intro h0 s hi hl
    have := ih (h0 ++ [e]) (step s e) (inv_step hi e) (link_step hi hl e)
    simpa using this

theorem link_run (h : List Ev) : Link h (run h) := by
  have := link_foldl h [] {} inv_init link_init
  simpa [run] using this

theorem mem_pairs {s : MQ} {pg : Nat × Nat} (h : pg ∈ pairs s) :
    ∃ m ∈ s.fin, m.state = .done ∧ m.putEv = some pg.1 ∧ m.getEv = some pg.2 := by
  unfold pairs at h
  simp only [List.mem_filterMap, List.mem_reverse] at h
  obtain ⟨m, hm, hp⟩ := h
  refine ⟨m, hm, ?_⟩
  unfold pairOf at hp
  split at hp
  · rename_i hd
    split at hp
    · rename_i p g hp1 hp2
      injection hp with hp; subst hp
      exact ⟨hd, hp1, hp2⟩
    · cases hp
  · cases hp

theorem pairs_complete {s : MQ} {m : Mess} (hm : m ∈ s.fin) (hd : m.state = .done)
    {p g : Nat} (hp : m.putEv = some p) (hg : m.getEv = some g) : (p, g) ∈ pairs s := by
  unfold pairs
  simp only [List.mem_filterMap, List.mem_reverse]
  exact ⟨m, hm, by simp [pairOf, hd, hp, hg]⟩


/-! ### how many times the getter's buffer is written -/

def WOk (s : MQ) : Prop := (∀ m ∈ s.queue, m.writes = 0) ∧ (∀ m ∈ s.fin, m.writes ≤ 1)

theorem finish_writes (m : Mess) : m.finish.writes ≤ m.writes + 1 := by
  unfold Mess.finish
  simp only []
  split <;> simp

theorem wok_step {s : MQ} (hw : WOk s) (e : Ev) (he : ∀ id, e ≠ Ev.refinish id) : WOk (step s e) := by
  cases e with
  | refinish id => exact absurd rfl (he id)
  | cancel id =>
    simp only [step, cancel]
    split
    · rename_i m hf
      have hm : m ∈ s.queue := List.mem_of_find?_eq_some hf
      refine ⟨fun x hx => hw.1 x (List.mem_of_mem_eraseP hx), ?_⟩
      intro x hx
      simp only [List.mem_cons] at hx
      rcases hx with hx | hx
      · subst hx; simp [hw.1 m hm]
      · exact hw.2 x hx
    · exact hw
  | iput a pl det =>
    simp only [step, iput]
    split
    · refine ⟨?_, hw.2⟩
      intro x hx
      simp only [List.mem_append, List.mem_singleton] at hx
      rcases hx with hx | hx
      · exact hw.1 x hx
      · subst hx; rfl
    · rename_i g rest hf
      obtain ⟨pre, post, e1, e2, _, _⟩ := findMatching_some hf
      have hg : g ∈ s.queue := by rw [e1]; simp
      refine ⟨fun x hx => hw.1 x (by rw [e1]; rw [e2] at hx; simp at hx ⊢; rcases hx with h | h <;> simp [h]), ?_⟩
      intro x hx
      simp only [List.mem_cons] at hx
      rcases hx with hx | hx
      · subst hx
        have := finish_writes { g with src := some a, payload := some pl, detached := g.detached || det, putEv := some s.next }
        have h0 := hw.1 g hg
        simp only at this
        omega
      · exact hw.2 x hx
  | iget a buf =>
    simp only [step, iget]
    split
    · refine ⟨?_, hw.2⟩
      intro x hx
      simp only [List.mem_append, List.mem_singleton] at hx
      rcases hx with hx | hx
      · exact hw.1 x hx
      · subst hx; rfl
    · rename_i p rest hf
      obtain ⟨pre, post, e1, e2, _, _⟩ := findMatching_some hf
      have hp : p ∈ s.queue := by rw [e1]; simp
      refine ⟨fun x hx => hw.1 x (by rw [e1]; rw [e2] at hx; simp at hx ⊢; rcases hx with h | h <;> simp [h]), ?_⟩
      intro x hx
      simp only [List.mem_cons] at hx
      rcases hx with hx | hx
      · subst hx
        have := finish_writes { p with dst := some a, hasBuf := buf, getEv := some s.next }
        have h0 := hw.1 p hp
        simp only at this
        omega
      · exact hw.2 x hx

theorem wok_foldl (h : List Ev) (hh : ∀ e ∈ h, ∀ id, e ≠ Ev.refinish id) : ∀ s, WOk s → WOk (h.foldl step s) := by
  induction h with
  | nil => intro s hs; exact hs
  | cons e es ih =>
    intro s hs
    exact ih (fun x hx => hh x (by simp [hx])) _ (wok_step hs e (hh e (by simp)))

end SgVerif.C09
