import SgVerif.C36.Model
/-
C36 — theorems.  `switch_on_every_resume_isolation`: with the switch in `ActorImpl::yield` the implementation
semantics (accesses go to the mapped copy) coincides with the private-memory semantics on EVERY event sequence
(every interleaving of rank slices, every placement of kernel-side switches between slices); in the private-memory
semantics a write of rank i is never seen by rank j ≠ i (`ideal_write_invisible_to_others`).  Without the switch the
values leak (`no_switch_leaks_counterexample`) — this is what privatization OFF shows in the correspondence.
-/
namespace SgVerif.C36

/-- invariant: while a rank runs, its own copy is the mapped one -/
def Inv (s : St) : Prop := ∀ r, s.cur = some r → s.seg = r

theorem step_eq_ideal (s : St) (h : Inv s) (e : Ev) : step true s e = ideal true s e := by
  cases e with
  | resume r => rfl
  | kswitch r => rfl
  | write r g v =>
    simp only [step, ideal]
    split
    · rename_i hc; rw [h r hc]
    · rfl
  | read r g =>
    simp only [step, ideal]
    split
    · rename_i hc; rw [h r hc]
    · rfl

theorem inv_step (s s' : St) (o : Option Int) (h : Inv s) (e : Ev) (hs : step true s e = some (s', o)) : Inv s' := by
  cases e with
  | resume r =>
    simp only [step, if_true] at hs
    injection hs with hs; injection hs with hs _; subst hs
    intro r' hr'; simp at hr'; simp [hr']
  | kswitch r =>
    simp only [step] at hs
    split at hs
    · injection hs with hs; injection hs with hs _; subst hs
      intro r' hr'; simp at hr'
    · rename_i hn
      injection hs with hs; injection hs with hs _; subst hs
      intro r' hr'
      simp at hr'
      simp [hr'] at hn
  | write r g v =>
    simp only [step] at hs
    split at hs
    · injection hs with hs; injection hs with hs _; subst hs
      intro r' hr'; exact h r' hr'
    · cases hs
  | read r g =>
    simp only [step] at hs
    split at hs
    · injection hs with hs; injection hs with hs _; subst hs; exact h
    · cases hs

/-- **Isolation**: for every event sequence (all interleavings of rank slices, kernel switches anywhere between
slices) the implementation with the switch on every resume returns exactly what private per-rank memories return. -/
theorem switch_on_every_resume_isolation (evs : List Ev) (s : St) (h : Inv s) :
    runWith (step true) s evs = runWith (ideal true) s evs := by
  induction evs generalizing s with
  | nil => rfl
  | cons e es ih =>
    simp only [runWith]
    rw [← step_eq_ideal s h e]
    cases hs : step true s e with
    | none => rfl
    | some p =>
      obtain ⟨s', o⟩ := p
      simp only []
      rw [ih s' (inv_step s s' o h e hs)]

theorem inv_init (vals : Nat → Int) : Inv (init vals) := by
  intro r hr; simp [init] at hr

/-- in the private-memory semantics a write by rank `i` leaves every other rank's copy untouched, so a later read of
`g` by `j ≠ i` cannot return it -/
theorem ideal_write_invisible_to_others (s s' : St) (i j g g' : Nat) (v : Int) (hij : j ≠ i)
    (hs : ideal true s (.write i g v) = some (s', none)) : s'.mem j g' = s.mem j g' := by
  simp only [ideal] at hs
  split at hs
  · injection hs with hs; injection hs with hs _; subst hs
    simp [setMem, hij]
  · cases hs

/-- without the switch in `yield` (`sw = false`): rank 1 writes 42 into its global, rank 0 is resumed and reads 42 -/
theorem no_switch_leaks_counterexample :
    (runWith (step false) (init (fun _ => 7)) [.kswitch 1, .resume 1, .write 1 0 42, .resume 0, .read 0 0]).map (·.2) =
      some [42] ∧
    (runWith (ideal false) (init (fun _ => 7)) [.kswitch 1, .resume 1, .write 1 0 42, .resume 0, .read 0 0]).map (·.2) =
      some [7] := by
  decide +kernel

/-- non-vacuity: an interleaving with kernel switches in between, implementation = private memories -/
example : (runWith (step true) (init (fun _ => 7))
    [.resume 0, .write 0 0 1, .kswitch 1, .resume 1, .read 1 0, .write 1 0 2, .kswitch 0, .kswitch 1, .resume 0,
     .read 0 0, .resume 1, .read 1 0]).map (·.2) = some [7, 1, 2] := by decide +kernel

end SgVerif.C36
