import SgVerif.C36.Model
import SgVerif.C36.SegLemmas
/-
C36 — theorems.  `switch_on_every_resume_isolation`: with the switch in `ActorImpl::yield` the implementation
semantics (accesses go to the mapped copy) coincides with the private-memory semantics on EVERY event sequence
(every interleaving of rank slices, every placement of kernel-side switches between slices); in the private-memory
semantics a write of rank i is never seen by rank j ≠ i (`ideal_write_invisible_to_others`).  Without the switch the
values leak (`no_switch_leaks_counterexample`) — this is what privatization OFF shows in the correspondence.
-/
namespace SgVerif.C36

/-- invariant: while a rank runs, its own copy is the mapped one -/
def Inv (s : St) : Prop := ∀ r, s.cur = some r → s.seg = r

theorem step_eq_ideal (s : St) (h : Inv s) (e : Ev) : step true s e = ideal true s e := by
  cases e with
  | resume r => rfl
  | kswitch r => rfl
  | write r g v =>
    simp only [step, ideal]
    split
    · rename_i hc; rw [h r hc]
    · rfl
  | read r g =>
    simp only [step, ideal]
    split
    · rename_i hc; rw [h r hc]
    · rfl

theorem inv_step (s s' : St) (o : Option Int) (h : Inv s) (e : Ev) (hs : step true s e = some (s', o)) : Inv s' := by
  cases e with
  | resume r =>
    simp only [step, if_true] at hs
    injection hs with hs; injection hs with hs _; subst hs
    intro r' hr'; simp at hr'; simp [hr']
  | kswitch r =>
    simp only [step] at hs
    split at hs
    · injection hs with hs; injection hs with hs _; subst hs
      intro r' hr'; simp at hr'
    · rename_i hn
      injection hs with hs; injection hs with hs _; subst hs
      intro r' hr'
      simp at hr'
      simp [hr'] at hn
  | write r g v =>
    simp only [step] at hs
    split at hs
    · injection hs with hs; injection hs with hs _; subst hs
      intro r' hr'; exact h r' hr'
    · cases hs
  | read r g =>
    simp only [step] at hs
    split at hs
    · injection hs with hs; injection hs with hs _; subst hs; exact h
    · cases hs

/-- **Isolation**: for every event sequence (all interleavings of rank slices, kernel switches anywhere between
slices) the implementation with the switch on every resume returns exactly what private per-rank memories return. -/
theorem switch_on_every_resume_isolation (evs : List Ev) (s : St) (h : Inv s) :
    runWith (step true) s evs = runWith (ideal true) s evs := by
  induction evs generalizing s with
  | nil => rfl
  | cons e es ih =>
    simp only [runWith]
    rw [← step_eq_ideal s h e]
    cases hs : step true s e with
    | none => rfl
    | some p =>
      obtain ⟨s', o⟩ := p
      simp only []
      rw [ih s' (inv_step s s' o h e hs)]

theorem inv_init (vals : Nat → Int) : Inv (init vals) := by
  intro r hr; simp [init] at hr

/-- in the private-memory semantics a write by rank `i` leaves every other rank's copy untouched, so a later read of
`g` by `j ≠ i` cannot return it -/
theorem ideal_write_invisible_to_others (s s' : St) (i j g g' : Nat) (v : Int) (hij : j ≠ i)
    (hs : ideal true s (.write i g v) = some (s', none)) : s'.mem j g' = s.mem j g' := by
  simp only [ideal] at hs
  split at hs
  · injection hs with hs; injection hs with hs _; subst hs
    simp [setMem, hij]
  · cases hs

/-- without the switch in `yield` (`sw = false`): rank 1 writes 42 into its global, rank 0 is resumed and reads 42 -/
theorem no_switch_leaks_counterexample :
    (runWith (step false) (init (fun _ => 7)) [.kswitch 1, .resume 1, .write 1 0 42, .resume 0, .read 0 0]).map (·.2) =
      some [42] ∧
    (runWith (ideal false) (init (fun _ => 7)) [.kswitch 1, .resume 1, .write 1 0 42, .resume 0, .read 0 0]).map (·.2) =
      some [7] := by
  decide +kernel

/-- non-vacuity: an interleaving with kernel switches in between, implementation = private memories -/
example : (runWith (step true) (init (fun _ => 7))
    [.resume 0, .write 0 0 1, .kswitch 1, .resume 1, .read 1 0, .write 1 0 2, .kswitch 0, .kswitch 1, .resume 0,
     .read 0 0, .resume 1, .read 1 0]).map (·.2) = some [7, 1, 2] := by decide +kernel

/-! ### the address-level model: mmap bookkeeping, address filter, copy callback (Segment.lean) -/


/-- **segment_isolation**: for every event sequence — any interleaving of rank slices (`resume`), loads and stores of the
    running rank at ANY address (globals, stack, heap), kernel-side `smpi_switch_data_segment(actor, addr)` calls with
    or without an address (the filter may refuse to switch), and copy callbacks between any two ranks with the source and
    the destination buffer each either in the globals or outside (four combinations: temp copy + two switches, one switch,
    none) — the implementation (one file mapped at a time, `smpi_loaded_page`, MAP_SHARED writes) returns exactly what
    "private globals per rank + shared rest of the address space" returns, and ends in the same abstract state.
    Hypotheses: the invariant holds initially (`inv_setup`), and a communication buffer that starts outside the data
    segment lies entirely outside (`Seg.evOk`). -/
theorem segment_isolation (c : Seg.Cfg) : ∀ (evs : List Seg.Ev) (s : Seg.St), Seg.Inv c s → (∀ e ∈ evs, Seg.evOk c e) →
    (Seg.runWith (Seg.step c) s evs).map (fun p => (Seg.abs p.1, p.2)) = Seg.runWith (Seg.istep c) (Seg.abs s) evs := by
  intro evs
  induction evs with
  | nil => intro s _ _; rfl
  | cons e es ih =>
    intro s hI hok
    have h1 := Seg.step_refines c s e hI (hok e (by simp))
    simp only [Seg.runWith]
    cases hs : Seg.step c s e with
    | none =>
      rw [hs] at h1
      simp only [Option.map_none] at h1
      rw [← h1]; rfl
    | some p =>
      obtain ⟨s', o⟩ := p
      rw [hs] at h1
      simp only [Option.map_some] at h1
      rw [← h1]
      have ih' := ih s' (Seg.inv_step c s s' o e hI hs) (fun e' he' => hok e' (List.mem_cons_of_mem _ he'))
      simp only []
      rw [← ih']
      cases Seg.runWith (Seg.step c) s' es with
      | none => rfl
      | some q => rfl

/-- `smpi_backup_global_memory_segment` + `smpi_init_global_memory_segment_process` for every rank: each rank's private file
    starts as a copy of the executable's data segment, nothing is mapped yet, and the invariant holds (maestro runs) -/
theorem setup_regions (s : Seg.St) (ranks : List Nat) (hc : s.cur = none) :
    (∀ r ∈ ranks, (Seg.setup s ranks).region r = s.orig) ∧ (Seg.setup s ranks).loaded = s.loaded ∧
      (Seg.setup s ranks).other = s.other ∧ ∀ c, Seg.Inv c (Seg.setup s ranks) := by
  have key : ∀ (ranks : List Nat) (t : Seg.St), t.copy = s.orig → t.cur = none →
      (∀ r ∈ ranks, (ranks.foldl Seg.initProc t).region r = s.orig) ∧ (∀ r ∉ ranks, (ranks.foldl Seg.initProc t).region r = t.region r) ∧
      (ranks.foldl Seg.initProc t).loaded = t.loaded ∧ (ranks.foldl Seg.initProc t).other = t.other ∧
      (ranks.foldl Seg.initProc t).cur = none := by
    intro ranks
    induction ranks with
    | nil => intro t _ h2; exact ⟨by simp, by simp, rfl, rfl, h2⟩
    | cons r rest ih =>
      intro t h1 h2
      obtain ⟨i1, i2, i3, i4, i5⟩ := ih (Seg.initProc t r) h1 h2
      simp only [List.foldl_cons]
      refine ⟨?_, ?_, i3, i4, i5⟩
      · intro r' hr'
        by_cases hm : r' ∈ rest
        · exact i1 r' hm
        · have hr : r' = r := by simpa [hm] using hr'
          rw [i2 r' hm, hr]
          funext off; simp [Seg.initProc, h1]
      · intro r' hr'
        simp only [List.mem_cons, not_or] at hr'
        rw [i2 r' hr'.2]
        exact Seg.initProc_other t r r' hr'.1
  obtain ⟨k1, _, k3, k4, k5⟩ := key ranks (Seg.backup s) rfl hc
  exact ⟨k1, k3, k4, fun c r hr => by simp only [Seg.setup] at hr ⊢; rw [k5] at hr; cases hr⟩

/-- in the specification a store of rank `i` to a global is invisible to every other rank -/
theorem ideal_store_invisible (c : Seg.Cfg) (s s' : Seg.Ideal) (i j a a' : Nat) (v : Int) (hij : j ≠ i)
    (hs : Seg.istep c s (.store i a v) = some (s', none)) (ha : c.inSeg a = true) : Seg.viewRd c s' j a' = Seg.viewRd c s j a' := by
  simp only [Seg.istep] at hs
  split at hs
  · simp only [Option.some.injEq, Prod.mk.injEq, and_true] at hs
    subst hs
    simp [Seg.viewRd, Seg.viewWr, ha, Seg.upd2, hij]
  · cases hs

/-- a global → global message on a concrete state: segment [100, 104), rank 0 holds 1 and rank 1 holds 2 at offset 0, rank
    1's file is mapped.  The callback maps rank 0's file, saves the byte to the temp buffer, maps rank 1's file and stores
    it at offset 1 of rank 1's copy: rank 1 receives rank 0's value (not its own 2), nothing else changes, rank 1's file
    stays mapped.  (Without the temp copy the memcpy would read address 100 after the second switch, i.e. rank 1's own 2.) -/
theorem commCopy_global_to_global_example :
    let c : Seg.Cfg := ⟨100, 4⟩
    let s : Seg.St := ⟨fun _ => 0, fun _ => 0, fun r _ => if r = 0 then 1 else 2, some 1, fun _ => 0, none⟩
    (Seg.commCopyImpl c s 0 1 100 101 1).region 1 1 = 1 ∧ (Seg.commCopyImpl c s 0 1 100 101 1).region 0 0 = 1 ∧
    (Seg.commCopyImpl c s 0 1 100 101 1).region 1 0 = 2 ∧ (Seg.commCopyImpl c s 0 1 100 101 1).loaded = some 1 := by
  decide +kernel

/-- non-vacuity of `segment_isolation`: stores to globals and to the stack, a kernel switch that the address filter
    refuses, global → stack and stack → global messages; every value read is the rank's own -/
example :
    let c : Seg.Cfg := ⟨100, 4⟩
    let s0 : Seg.St := Seg.setup ⟨fun o => 10 + o, fun _ => 0, fun _ _ => 0, none, fun _ => 0, none⟩ [0, 1]
    (Seg.runWith (Seg.step c) s0
      [.resume 0, .store 0 100 5, .store 0 500 77, .resume 1, .load 1 100, .store 1 100 6, .kswitch 0 (some 500),
       .commCopy 0 1 100 600 2, .commCopy 1 0 600 102 1, .resume 0, .load 0 100, .load 0 102, .resume 1, .load 1 600,
       .load 1 601, .load 1 102]).map (·.2) = some [10, 5, 5, 5, 11, 12] := by
  decide +kernel


end SgVerif.C36
