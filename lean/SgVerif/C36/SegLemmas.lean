import SgVerif.C36.Segment
/-
C36 — lemmas for the address-level model: the implementation refines the private-globals specification.
-/
set_option linter.unusedSimpArgs false
set_option linter.unusedVariables false
namespace SgVerif.C36.Seg

/-- while a rank runs, its own file is the mapped one (or there is nothing to privatize) -/
def Inv (c : Cfg) (s : St) : Prop := ∀ r, s.cur = some r → s.loaded = some r ∨ c.size = 0

theorem inSeg_size0 (c : Cfg) (a : Nat) (h : c.size = 0) : c.inSeg a = false := by
  simp only [Cfg.inSeg, h, Nat.add_zero, Bool.and_eq_false_iff, decide_eq_false_iff_not]
  omega

theorem rd_abs (c : Cfg) (s : St) (r a : Nat) (h : s.loaded = some r ∨ c.inSeg a = false) :
    rd c s a = viewRd c (abs s) r a := by
  unfold rd viewRd abs
  rcases h with h | h
  · simp [h]
  · simp [h]

theorem wr_loaded (c : Cfg) (s : St) (a : Nat) (v : Int) : (wr c s a v).loaded = s.loaded := by
  unfold wr
  split
  · split <;> rfl
  · rfl

theorem wr_cur (c : Cfg) (s : St) (a : Nat) (v : Int) : (wr c s a v).cur = s.cur := by
  unfold wr
  split
  · split <;> rfl
  · rfl

theorem wr_abs (c : Cfg) (s : St) (r a : Nat) (v : Int) (h : s.loaded = some r ∨ c.inSeg a = false) :
    abs (wr c s a v) = viewWr c (abs s) r a v := by
  unfold wr viewWr abs
  rcases h with h | h
  · cases hi : c.inSeg a <;> simp [h, hi]
  · simp [h]

theorem wrList_abs (c : Cfg) (r : Nat) : ∀ (vals : List Int) (s : St) (a : Nat),
    (s.loaded = some r ∨ ∀ i, i < vals.length → c.inSeg (a + i) = false) →
    abs (wrList c s a vals) = viewWrList c (abs s) r a vals ∧ (wrList c s a vals).loaded = s.loaded ∧
      (wrList c s a vals).cur = s.cur := by
  intro vals
  induction vals with
  | nil => intro s a _; exact ⟨rfl, rfl, rfl⟩
  | cons v vs ih =>
    intro s a h
    simp only [wrList, viewWrList]
    have h1 : s.loaded = some r ∨ c.inSeg a = false := by
      rcases h with h | h
      · exact Or.inl h
      · exact Or.inr (by simpa using h 0 (by simp))
    have h2 : (wr c s a v).loaded = some r ∨ ∀ i, i < vs.length → c.inSeg (a + 1 + i) = false := by
      rcases h with h | h
      · left; rw [wr_loaded]; exact h
      · right; intro i hi
        have := h (i + 1) (by simp; omega)
        rwa [show a + (i + 1) = a + 1 + i by omega] at this
    obtain ⟨e1, e2, e3⟩ := ih (wr c s a v) (a + 1) h2
    rw [e1, wr_abs c s r a v h1, e2, e3, wr_loaded, wr_cur]
    exact ⟨rfl, rfl, rfl⟩

theorem rdList_abs (c : Cfg) (s : St) (r a n : Nat) (h : s.loaded = some r ∨ ∀ i, i < n → c.inSeg (a + i) = false) :
    rdList c s a n = (List.range n).map (fun i => viewRd c (abs s) r (a + i)) := by
  unfold rdList
  apply List.map_congr_left
  intro i hi
  have hi' : i < n := List.mem_range.mp hi
  apply rd_abs
  rcases h with h | h
  · exact Or.inl h
  · exact Or.inr (h i hi')

/-- what `smpi_switch_data_segment` changes and answers -/
theorem switchSeg_spec (c : Cfg) (s : St) (r : Nat) (addr : Option Nat) :
    abs (switchSeg c s r addr).1 = abs s ∧ (switchSeg c s r addr).1.cur = s.cur ∧
    ((switchSeg c s r addr).2 = true → (switchSeg c s r addr).1.loaded = some r) ∧
    ((switchSeg c s r addr).2 = false → (switchSeg c s r addr).1 = s ∧
      (c.size = 0 ∨ ∃ a, addr = some a ∧ c.inSeg a = false)) := by
  unfold switchSeg
  by_cases h0 : c.size = 0
  · simp [h0]
  · simp only [h0, if_false]
    cases addr with
    | none =>
      by_cases hl : s.loaded = some r
      · simp [hl]
      · simp [hl, abs]
    | some a =>
      cases hi : c.inSeg a
      · simp [hi]
      · by_cases hl : s.loaded = some r
        · simp [hi, hl]
        · simp [hi, hl, abs]

theorem abs_cur_none (s : St) : abs { s with cur := none } = { abs s with cur := none } := rfl

/-- the copy callback: the receiver's view of [dbuff, dbuff+n) becomes the sender's view of [buff, buff+n) -/
theorem commCopy_abs (c : Cfg) (s : St) (src dst buff dbuff n : Nat) (hb1 : bufOk c buff n) (hb2 : bufOk c dbuff n) :
    abs (commCopyImpl c s src dst buff dbuff n) =
      viewWrList c { abs s with cur := none } dst dbuff
        ((List.range n).map (fun i => viewRd c { abs s with cur := none } src (buff + i))) := by
  unfold commCopyImpl
  simp only
  obtain ⟨a1, c1, t1, f1⟩ := switchSeg_spec c { s with cur := none } src (some buff)
  obtain ⟨a2, c2, t2, f2⟩ := switchSeg_spec c (switchSeg c { s with cur := none } src (some buff)).1 dst (some dbuff)
  have hout : ∀ (a : Nat), (c.size = 0 ∨ ∃ a', some a = some a' ∧ c.inSeg a' = false) → bufOk c a n →
      ∀ i, i < n → c.inSeg (a + i) = false := by
    intro a h hb i hi
    rcases h with h | ⟨a', ha, hin⟩
    · exact inSeg_size0 c _ h
    · cases ha; exact hb hin i hi
  have hvals : (if (switchSeg c { s with cur := none } src (some buff)).2 = true then
        rdList c (switchSeg c { s with cur := none } src (some buff)).1 buff n
      else rdList c (switchSeg c (switchSeg c { s with cur := none } src (some buff)).1 dst (some dbuff)).1 buff n) =
      (List.range n).map (fun i => viewRd c { abs s with cur := none } src (buff + i)) := by
    cases h1 : (switchSeg c { s with cur := none } src (some buff)).2 with
    | true =>
      simp only [if_true]
      rw [rdList_abs c _ src buff n (Or.inl (t1 h1)), a1]; rfl
    | false =>
      simp only [Bool.false_eq_true, if_false]
      obtain ⟨_, hx⟩ := f1 h1
      rw [rdList_abs c _ src buff n (Or.inr (hout buff hx hb1)), a2, a1]; rfl
  rw [hvals]
  have hw : (switchSeg c (switchSeg c { s with cur := none } src (some buff)).1 dst (some dbuff)).1.loaded = some dst ∨
      ∀ i, i < ((List.range n).map (fun i => viewRd c { abs s with cur := none } src (buff + i))).length →
        c.inSeg (dbuff + i) = false := by
    cases h2 : (switchSeg c (switchSeg c { s with cur := none } src (some buff)).1 dst (some dbuff)).2 with
    | true => exact Or.inl (t2 h2)
    | false =>
      obtain ⟨_, hx⟩ := f2 h2
      right
      intro i hi
      simp only [List.length_map, List.length_range] at hi
      exact hout dbuff hx hb2 i hi
  obtain ⟨e1, _, _⟩ := wrList_abs c dst _ _ dbuff hw
  rw [e1, a2, a1]
  rfl

theorem commCopy_cur (c : Cfg) (s : St) (src dst buff dbuff n : Nat) : (commCopyImpl c s src dst buff dbuff n).cur = none := by
  unfold commCopyImpl
  simp only
  obtain ⟨_, c1, _, _⟩ := switchSeg_spec c { s with cur := none } src (some buff)
  obtain ⟨_, c2, _, _⟩ := switchSeg_spec c (switchSeg c { s with cur := none } src (some buff)).1 dst (some dbuff)
  have hcur : ∀ (vals : List Int) (st : St) (a : Nat), (wrList c st a vals).cur = st.cur := by
    intro vals
    induction vals with
    | nil => intro st a; rfl
    | cons v vs ih => intro st a; simp only [wrList]; rw [ih, wr_cur]
  rw [hcur, c2, c1]

/-- **one step**: under the invariant and for whole-object buffers the implementation does what the specification does -/
theorem step_refines (c : Cfg) (s : St) (e : Ev) (hI : Inv c s) (hok : evOk c e) :
    (step c s e).map (fun p => (abs p.1, p.2)) = istep c (abs s) e := by
  cases e with
  | resume r =>
    obtain ⟨e1, _, _, _⟩ := switchSeg_spec c s r none
    simp only [step, istep, Option.map_some]
    congr 1
    have : abs { (switchSeg c s r none).1 with cur := some r } = { abs (switchSeg c s r none).1 with cur := some r } := rfl
    rw [this, e1]
  | kswitch r addr =>
    obtain ⟨e1, _, _, _⟩ := switchSeg_spec c s r addr
    simp only [step, istep, Option.map_some]
    congr 1
    have : abs { (switchSeg c s r addr).1 with cur := none } = { abs (switchSeg c s r addr).1 with cur := none } := rfl
    rw [this, e1]
  | store r a v =>
    simp only [step, istep]
    have hc : (abs s).cur = s.cur := rfl
    rw [hc]
    split
    · rename_i hcur
      have : s.loaded = some r ∨ c.inSeg a = false := by
        rcases hI r hcur with h | h
        · exact Or.inl h
        · exact Or.inr (inSeg_size0 c a h)
      simp only [Option.map_some, wr_abs c s r a v this]
    · rfl
  | load r a =>
    simp only [step, istep]
    have hc : (abs s).cur = s.cur := rfl
    rw [hc]
    split
    · rename_i hcur
      have : s.loaded = some r ∨ c.inSeg a = false := by
        rcases hI r hcur with h | h
        · exact Or.inl h
        · exact Or.inr (inSeg_size0 c a h)
      simp only [Option.map_some, rd_abs c s r a this]
    · rfl
  | commCopy src dst buff dbuff n =>
    simp only [evOk] at hok
    simp only [step, istep, Option.map_some]
    congr 1
    rw [commCopy_abs c s src dst buff dbuff n hok.1 hok.2]

theorem inv_step (c : Cfg) (s s' : St) (o : Option Int) (e : Ev) (hI : Inv c s) (hs : step c s e = some (s', o)) :
    Inv c s' := by
  cases e with
  | resume r =>
    simp only [step, Option.some.injEq, Prod.mk.injEq] at hs
    obtain ⟨rfl, _⟩ := hs
    intro r' hr'
    simp only [Option.some.injEq] at hr'
    subst hr'
    obtain ⟨_, _, t, f⟩ := switchSeg_spec c s r none
    cases h : (switchSeg c s r none).2 with
    | true => exact Or.inl (t h)
    | false =>
      obtain ⟨_, hx⟩ := f h
      rcases hx with hx | ⟨a, ha, _⟩
      · exact Or.inr hx
      · cases ha
  | kswitch r addr =>
    simp only [step, Option.some.injEq, Prod.mk.injEq] at hs
    obtain ⟨rfl, _⟩ := hs
    intro r' hr'; simp at hr'
  | store r a v =>
    simp only [step] at hs
    split at hs
    · simp only [Option.some.injEq, Prod.mk.injEq] at hs
      obtain ⟨rfl, _⟩ := hs
      intro r' hr'
      rw [wr_cur] at hr'; rw [wr_loaded]; exact hI r' hr'
    · cases hs
  | load r a =>
    simp only [step] at hs
    split at hs
    · simp only [Option.some.injEq, Prod.mk.injEq] at hs
      obtain ⟨rfl, _⟩ := hs
      exact hI
    · cases hs
  | commCopy src dst buff dbuff n =>
    simp only [step, Option.some.injEq, Prod.mk.injEq] at hs
    obtain ⟨rfl, _⟩ := hs
    intro r' hr'
    rw [commCopy_cur] at hr'
    cases hr'

theorem initProc_other (s : St) (r r' : Nat) (h : r' ≠ r) : (initProc s r).region r' = s.region r' := by
  funext off; simp [initProc, h]


end SgVerif.C36.Seg
