/-
C36 — second, finer model: the mmap bookkeeping of src/smpi/internals/smpi_memory.cpp, by ADDRESS.

 * `smpi_backup_global_memory_segment`: `smpi_data_exe_copy` := the data segment [start, start+size) as loaded (`backup`);
   `size = 0` ⇒ privatization is turned off (nothing to privatize).
 * `smpi_init_global_memory_segment_process`: a fresh shared file mapping per rank, initialised from the clean copy
   (`initProc`).
 * `smpi_switch_data_segment(actor, addr)`:  size = 0 ⇒ false;  `addr != nullptr` and addr outside [start, start+size) ⇒
   false (the ADDRESS FILTER: stack / heap buffers need no switch);  `smpi_loaded_page == pid` ⇒ true;  otherwise
   mmap(MAP_FIXED | MAP_SHARED) the rank's file over the segment, `smpi_loaded_page = pid`, true   (`switchSeg`).
 * an access to address `a` goes to the file that is mapped when `a` is in the segment (writes are shared with the file:
   MAP_SHARED), to ordinary process memory otherwise (`rd`, `wr`).
 * `smpi_comm_copy_buffer_callback` (smpi_global.cpp), run by maestro:
       tmpbuff = buff;
       if (smpi_switch_data_segment(src_actor, buff))      { tmpbuff = xbt_malloc(n); memcpy(tmpbuff, buff, n); }
       smpi_switch_data_segment(dst_actor, comm->dst_buff_);
       memcpy(comm->dst_buff_, tmpbuff, n);
   (`commCopy`; the private-block splitting of shared mallocs is C35's subject: here one block [0, n)).
 * the tail of `ActorImpl::yield`: `smpi_switch_data_segment(get_iface())` — no address, no filter (`resume`).
Specification `Ideal`: every rank has its own globals (by offset), all ranks share the rest of the address space.
Core only.
-/
namespace SgVerif.C36.Seg

structure Cfg where
  start : Nat            -- smpi_data_exe_start
  size : Nat             -- smpi_data_exe_size
  deriving Repr

def Cfg.inSeg (c : Cfg) (a : Nat) : Bool := decide (c.start ≤ a) && decide (a < c.start + c.size)

structure St where
  orig : Nat → Int            -- the executable's own .data/.bss pages, by offset (mapped while smpi_loaded_page = -1)
  copy : Nat → Int            -- smpi_data_exe_copy
  region : Nat → Nat → Int    -- region r off: the shared file of rank r (`privatized_region()->file_descriptor`)
  loaded : Option Nat         -- smpi_loaded_page (none = -1)
  other : Nat → Int           -- memory outside the data segment, by address
  cur : Option Nat            -- the rank whose code runs (none: maestro)

def upd (f : Nat → Int) (k : Nat) (v : Int) : Nat → Int := fun k' => if k' = k then v else f k'
def upd2 (f : Nat → Nat → Int) (r k : Nat) (v : Int) : Nat → Nat → Int :=
  fun r' k' => if r' = r ∧ k' = k then v else f r' k'

/-- load from address `a` through the current mapping -/
def rd (c : Cfg) (s : St) (a : Nat) : Int :=
  if c.inSeg a then
    match s.loaded with
    | none => s.orig (a - c.start)
    | some r => s.region r (a - c.start)
  else s.other a

/-- store to address `a` through the current mapping (MAP_SHARED: the file of the mapped rank changes) -/
def wr (c : Cfg) (s : St) (a : Nat) (v : Int) : St :=
  if c.inSeg a then
    match s.loaded with
    | none => { s with orig := upd s.orig (a - c.start) v }
    | some r => { s with region := upd2 s.region r (a - c.start) v }
  else { s with other := upd s.other a v }

/-- `smpi_switch_data_segment(actor r, addr)` -/
def switchSeg (c : Cfg) (s : St) (r : Nat) (addr : Option Nat) : St × Bool :=
  if c.size = 0 then (s, false)
  else
    match addr with
    | some a =>
      if !c.inSeg a then (s, false)
      else if s.loaded = some r then (s, true)
      else ({ s with loaded := some r }, true)
    | none =>
      if s.loaded = some r then (s, true) else ({ s with loaded := some r }, true)

/-- memcpy(dst, vals): store the values at consecutive addresses -/
def wrList (c : Cfg) (s : St) (a : Nat) : List Int → St
  | [] => s
  | v :: vs => wrList c (wr c s a v) (a + 1) vs

/-- the `n` values at consecutive addresses -/
def rdList (c : Cfg) (s : St) (a n : Nat) : List Int := (List.range n).map (fun i => rd c s (a + i))

inductive Ev where
  | resume (r : Nat)
  | kswitch (r : Nat) (addr : Option Nat)            -- a kernel-side smpi_switch_data_segment between slices
  | store (r a : Nat) (v : Int)                      -- the running rank r stores to address a (global or not)
  | load (r a : Nat)
  | commCopy (src dst buff dbuff n : Nat)            -- smpi_comm_copy_buffer_callback(comm, buff, n), dst_buff_ = dbuff
  deriving Repr

/-- `smpi_comm_copy_buffer_callback(comm, buff, n)` with `comm->dst_buff_ = dbuff`, run by maestro -/
def commCopyImpl (c : Cfg) (s : St) (src dst buff dbuff n : Nat) : St :=
  let s0 := { s with cur := none }
  let p1 := switchSeg c s0 src (some buff)
  let p2 := switchSeg c p1.1 dst (some dbuff)
  -- p1.2: the bytes were saved to the temp buffer while the sender's file was mapped; otherwise memcpy reads `buff` now
  let vals := if p1.2 then rdList c p1.1 buff n else rdList c p2.1 buff n
  wrList c p2.1 dbuff vals

/-- the implementation -/
def step (c : Cfg) (s : St) : Ev → Option (St × Option Int)
  | .resume r => some ({ (switchSeg c s r none).1 with cur := some r }, none)
  | .kswitch r addr => some ({ (switchSeg c s r addr).1 with cur := none }, none)
  | .store r a v => if s.cur = some r then some (wr c s a v, none) else none
  | .load r a => if s.cur = some r then some (s, some (rd c s a)) else none
  | .commCopy src dst buff dbuff n => some (commCopyImpl c s src dst buff dbuff n, none)

/-! ## specification: private globals per rank -/

structure Ideal where
  glob : Nat → Nat → Int     -- glob r off
  other : Nat → Int
  cur : Option Nat

def viewRd (c : Cfg) (s : Ideal) (r a : Nat) : Int := if c.inSeg a then s.glob r (a - c.start) else s.other a
def viewWr (c : Cfg) (s : Ideal) (r a : Nat) (v : Int) : Ideal :=
  if c.inSeg a then { s with glob := upd2 s.glob r (a - c.start) v } else { s with other := upd s.other a v }
def viewWrList (c : Cfg) (s : Ideal) (r a : Nat) : List Int → Ideal
  | [] => s
  | v :: vs => viewWrList c (viewWr c s r a v) r (a + 1) vs

def istep (c : Cfg) (s : Ideal) : Ev → Option (Ideal × Option Int)
  | .resume r => some ({ s with cur := some r }, none)
  | .kswitch _ _ => some ({ s with cur := none }, none)
  | .store r a v => if s.cur = some r then some (viewWr c s r a v, none) else none
  | .load r a => if s.cur = some r then some (s, some (viewRd c s r a)) else none
  | .commCopy src dst buff dbuff n =>
    let s0 := { s with cur := none }
    some (viewWrList c s0 dst dbuff ((List.range n).map (fun i => viewRd c s0 src (buff + i))), none)

def abs (s : St) : Ideal := ⟨s.region, s.other, s.cur⟩

def runWith {σ : Type} (f : σ → Ev → Option (σ × Option Int)) (s : σ) : List Ev → Option (σ × List Int)
  | [] => some (s, [])
  | e :: es =>
    match f s e with
    | none => none
    | some (s', o) =>
      match runWith f s' es with
      | none => none
      | some (s'', os) => some (s'', (match o with | some v => [v] | none => []) ++ os)

/-- `smpi_backup_global_memory_segment` then `smpi_init_global_memory_segment_process` for the ranks of `ranks` -/
def backup (s : St) : St := { s with copy := s.orig }
def initProc (s : St) (r : Nat) : St := { s with region := fun r' off => if r' = r then s.copy off else s.region r' off }
def setup (s : St) (ranks : List Nat) : St := ranks.foldl initProc (backup s)

/-- a communication buffer that starts outside the data segment lies entirely outside (a C object is a global or not) -/
def bufOk (c : Cfg) (a n : Nat) : Prop := c.inSeg a = false → ∀ i, i < n → c.inSeg (a + i) = false

def evOk (c : Cfg) : Ev → Prop
  | .commCopy _ _ buff dbuff n => bufOk c buff n ∧ bufOk c dbuff n
  | _ => True

end SgVerif.C36.Seg
