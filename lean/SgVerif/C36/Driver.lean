import SgVerif.C36.Model
import SgVerif.Common.Proto
open SgVerif.Proto
/-
C36 driver.  One line per rank of a generated program:
   <rank> <nvars> I <init values of the nvars variables> (w <var> <val> | r <var>)*  =>  <values the rank read back>
Model: the rank's accesses, each one preceded by a `resume` (a context switch may have happened before any of them),
run with the implementation semantics `step true`; by theorem switch_on_every_resume_isolation this is the
private-memory result whatever the other ranks did in between.  Any difference is a leak (MONFAIL).
-/
namespace SgVerif.C36

partial def parseOps (r : Nat) : List String → Option (List Ev)
  | [] => some []
  | "w" :: g :: v :: rest => do
    let l ← parseOps r rest
    some (.resume r :: .write r (← g.toNat?) (← v.toInt?) :: l)
  | "r" :: g :: rest => do
    let l ← parseOps r rest
    some (.resume r :: .read r (← g.toNat?) :: l)
  | _ => none

def judge (q a : List String) : Verdict :=
  match q with
  | r :: nv :: "I" :: rest =>
    match r.toNat?, nv.toNat? with
    | some r, some nv =>
      let initS := rest.take nv
      match parseOps r (rest.drop nv), (initS.map String.toInt?).all Option.isSome with
      | some evs, true =>
        let iv := initS.filterMap String.toInt?
        let s0 := init (fun g => match iv[g]? with | some v => v | none => 0)
        match runWith (step true) s0 evs with
        | some (_, obs) =>
          let model := obs.map toString
          if model = a then .ok
          else .monfail s!"rank {r} read {a} but wrote/expected {model}: a value of another rank is visible"
        | none => .bad
      | _, _ => .bad
    | _, _ => .bad
  | _ => .bad

end SgVerif.C36

def main : IO Unit := SgVerif.Proto.run SgVerif.C36.judge
