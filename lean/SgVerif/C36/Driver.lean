import SgVerif.C36.Model
import SgVerif.C36.Segment
import SgVerif.Common.Proto
open SgVerif.Proto
/-
C36 driver.  One line per rank of a generated program:
   <rank> <nvars> I <init values of the nvars variables> (w <var> <val> | r <var>)*  =>  <values the rank read back>
Model: the rank's accesses, each one preceded by a `resume` (a context switch may have happened before any of them),
run with the implementation semantics `step true`; by theorem switch_on_every_resume_isolation this is the
private-memory result whatever the other ranks did in between.  Any difference is a leak (MONFAIL).
-/
namespace SgVerif.C36

partial def parseOps (r : Nat) : List String → Option (List Ev)
  | [] => some []
  | "w" :: g :: v :: rest => do
    let l ← parseOps r rest
    some (.resume r :: .write r (← g.toNat?) (← v.toInt?) :: l)
  | "r" :: g :: rest => do
    let l ← parseOps r rest
    some (.resume r :: .read r (← g.toNat?) :: l)
  | _ => none

def judge (q a : List String) : Verdict :=
  match q with
  | r :: nv :: "I" :: rest =>
    match r.toNat?, nv.toNat? with
    | some r, some nv =>
      let initS := rest.take nv
      match parseOps r (rest.drop nv), (initS.map String.toInt?).all Option.isSome with
      | some evs, true =>
        let iv := initS.filterMap String.toInt?
        let s0 := init (fun g => match iv[g]? with | some v => v | none => 0)
        match runWith (step true) s0 evs with
        | some (_, obs) =>
          let model := obs.map toString
          if model = a then .ok
          else .monfail s!"rank {r} read {a} but wrote/expected {model}: a value of another rank is visible"
        | none => .bad
      | _, _ => .bad
    | _, _ => .bad
  | _ => .bad

/-! whole-program lines for the address-level model (Segment.lean):
   P <n> I <16 init values> <ops in script order>  =>  | <reads of rank 0> | <reads of rank 1> ...
   ops: w r var val | r r var | ws r k val | rs r k | rr r k
        m <kind> <sbuf> <dbuf> a b      one message a -> b = one copy callback; sbuf, dbuf ∈ a (g_arr) | z (s_zarr) | s (stack);
                                        kind L = the whole arrays (5 observed cells), anything else = 4 cells
        gg a b | gs a b | sg a b (legacy = m e a z / m e a s / m e s z) | sr a b | bc root | ring
   Address map (one cell per OBSERVED int): g_arr = 104..108 (variables 4..7 and 14 = its last element), s_zarr = 109..113
   (variables 8..11 and 15), the scalars 0..3 at 100..103, 12 at 114, 13 at 115; sb of rank r at 1000 + 100 r (+ k, k = 4
   is the last element), rb at 1050 + 100 r.
   The model is the implementation semantics `Seg.step` (by `segment_isolation` = private globals per rank). -/

def nVarsP : Nat := 16
def cfgP : Seg.Cfg := ⟨100, 16⟩
def gAddr (v : Nat) : Nat :=
  if v < 4 then 100 + v else if v < 8 then 104 + (v - 4) else if v < 12 then 109 + (v - 8)
  else if v = 12 then 114 else if v = 13 then 115 else if v = 14 then 108 else 113
def sbAddr (r k : Nat) : Nat := 1000 + 100 * r + k
def rbAddr (r k : Nat) : Nat := 1050 + 100 * r + k
def bufAddr (snd : Bool) (r : Nat) : String → Option Nat
  | "a" => some 104
  | "z" => some 109
  | "s" => some (if snd then sbAddr r 0 else rbAddr r 0)
  | _ => none

partial def parseP (n : Nat) : List String → Option (List Seg.Ev)
  | [] => some []
  | "w" :: r :: g :: v :: rest => do
    let l ← parseP n rest
    some (.resume (← r.toNat?) :: .store (← r.toNat?) (gAddr (← g.toNat?)) (← v.toInt?) :: l)
  | "r" :: r :: g :: rest => do
    let l ← parseP n rest
    some (.resume (← r.toNat?) :: .load (← r.toNat?) (gAddr (← g.toNat?)) :: l)
  | "ws" :: r :: k :: v :: rest => do
    let l ← parseP n rest
    some (.resume (← r.toNat?) :: .store (← r.toNat?) (sbAddr (← r.toNat?) (← k.toNat?)) (← v.toInt?) :: l)
  | "rs" :: r :: k :: rest => do
    let l ← parseP n rest
    some (.resume (← r.toNat?) :: .load (← r.toNat?) (sbAddr (← r.toNat?) (← k.toNat?)) :: l)
  | "rr" :: r :: k :: rest => do
    let l ← parseP n rest
    some (.resume (← r.toNat?) :: .load (← r.toNat?) (rbAddr (← r.toNat?) (← k.toNat?)) :: l)
  | "m" :: kind :: sb :: db :: a :: b :: rest => do
    let l ← parseP n rest
    let a ← a.toNat?
    let b ← b.toNat?
    some (.commCopy a b (← bufAddr true a sb) (← bufAddr false b db) (if kind = "L" then 5 else 4) :: l)
  | "gg" :: a :: b :: rest => do
    let l ← parseP n rest
    some (.commCopy (← a.toNat?) (← b.toNat?) 104 109 4 :: l)
  | "gs" :: a :: b :: rest => do
    let l ← parseP n rest
    some (.commCopy (← a.toNat?) (← b.toNat?) 104 (rbAddr (← b.toNat?) 0) 4 :: l)
  | "sg" :: a :: b :: rest => do
    let l ← parseP n rest
    some (.commCopy (← a.toNat?) (← b.toNat?) (sbAddr (← a.toNat?) 0) 109 4 :: l)
  | "sr" :: a :: b :: rest => do
    let l ← parseP n rest
    some (.commCopy (← a.toNat?) (← b.toNat?) (sbAddr (← a.toNat?) 0) (rbAddr (← b.toNat?) 0) 4 :: l)
  | "bc" :: root :: rest => do
    let l ← parseP n rest
    let ro ← root.toNat?
    some (((List.range n).filter (· != ro)).map (fun r => Seg.Ev.commCopy ro r (sbAddr ro 0) (sbAddr r 0) 4) ++ l)
  | "ring" :: rest => do
    let l ← parseP n rest
    some ((List.range n).map (fun r => Seg.Ev.commCopy r ((r + 1) % n) (sbAddr r 0) (rbAddr ((r + 1) % n) 0) 4) ++ l)
  | _ => none

def loadRanks : List Seg.Ev → List Nat
  | [] => []
  | .load r _ :: rest => r :: loadRanks rest
  | _ :: rest => loadRanks rest

def judgeP (q a : List String) : Verdict :=
  match q with
  | n :: "I" :: rest =>
    match n.toNat? with
    | some n =>
      let initS := rest.take nVarsP
      match parseP n (rest.drop nVarsP), (initS.map String.toInt?).all Option.isSome with
      | some evs, true =>
        let iv := initS.filterMap String.toInt?
        -- the executable's data segment by offset: the initial value of the variable that lives there
        let orig : Nat → Int := fun o =>
          match (List.range nVarsP).find? (fun v => gAddr v == 100 + o) with
          | some v => (match iv[v]? with | some x => x | none => 0)
          | none => 0
        let s0 : Seg.St := Seg.setup ⟨orig, fun _ => 0, fun _ _ => 0, none,
          fun _ => 0, none⟩ (List.range n)
        match Seg.runWith (Seg.step cfgP) s0 evs with
        | some (_, obs) =>
          let tagged := (loadRanks evs).zip obs
          let model := (List.range n).flatMap (fun r => "|" :: (tagged.filter (·.1 == r)).map (fun p => toString p.2))
          if model = a then .ok
          else .monfail s!"ranks read {a} but the private-globals model gives {model}"
        | none => .bad
      | _, _ => .bad
    | none => .bad
  | _ => .bad

def judgeAll (q a : List String) : Verdict :=
  match q with
  | "P" :: rest => judgeP rest a
  | _ => judge q a

end SgVerif.C36

def main : IO Unit := SgVerif.Proto.run SgVerif.C36.judgeAll
