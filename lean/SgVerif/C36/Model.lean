/-
C36 — Each rank has its own copy of global variables (thin model).

Mechanism (privatization `mmap`): every rank owns a private copy of the data segment (a file mapping,
`ActorExt::privatized_region()`); exactly one copy is mapped at the address of the globals at any time:
`static aid_t smpi_loaded_page` in `smpi_switch_data_segment` (src/smpi/internals/smpi_memory.cpp):

    if (smpi_loaded_page == actor->get_pid()) return true;       // already loaded
    mmap(TOPAGE(smpi_data_exe_start), smpi_data_exe_size, PROT_RW, MAP_FIXED | MAP_SHARED, fd_of(actor), 0);
    smpi_loaded_page = actor->get_pid();

An access to a global by the running rank goes to whatever copy is mapped.  The copy is switched
* at the end of `ActorImpl::yield()` (src/kernel/actor/ActorImpl.cpp): `if (not wannadie()) smpi_switch_data_segment(get_iface());`
  i.e. each time an actor is resumed after a context switch   (event `resume r`; `sw = false` removes this call);
* by kernel-side code between slices: `smpi_comm_copy_buffer_callback` maps the sender's, then the receiver's copy
  (src/smpi/internals/smpi_global.cpp), `Request::start` for detached sends, … (event `kswitch r`).
NOT modelled: mmap itself, page alignment, the `addr` filter (switch only when the buffer lies in the data segment),
`smpi_data_exe_size == 0`, how the copies are created (`smpi_backup_global_memory_segment`), and the `dlopen`
strategy (each rank dlopens its own copy of the binary: no switching at all — that is the `ideal` semantics below by
construction of the loader, which is outside the model).  Core only.
-/
namespace SgVerif.C36

inductive Ev where
  | resume (r : Nat)                 -- rank r gets the CPU back (tail of ActorImpl::yield)
  | kswitch (r : Nat)                -- kernel code maps r's copy while no rank runs
  | write (r g : Nat) (v : Int)      -- rank r stores v into global g
  | read (r g : Nat)                 -- rank r loads global g
  deriving Repr, DecidableEq

structure St where
  seg : Nat                          -- smpi_loaded_page: whose copy is mapped
  mem : Nat → Nat → Int              -- mem r g: global g in the private copy of rank r
  cur : Option Nat                   -- the rank whose code is running (none: maestro)

def setMem (m : Nat → Nat → Int) (r g : Nat) (v : Int) : Nat → Nat → Int :=
  fun r' g' => if r' = r ∧ g' = g then v else m r' g'

/-- the implementation: accesses go to the mapped copy `s.seg`.  `none`: the event is not possible (a rank that is
not running cannot access memory). -/
def step (sw : Bool) (s : St) : Ev → Option (St × Option Int)
  | .resume r => some ({ s with seg := if sw then r else s.seg, cur := some r }, none)
  | .kswitch r => if s.cur.isSome then some ({ s with seg := r, cur := none }, none)
                  else some ({ s with seg := r }, none)
  | .write r g v => if s.cur = some r then some ({ s with mem := setMem s.mem s.seg g v }, none) else none
  | .read r g => if s.cur = some r then some (s, some (s.mem s.seg g)) else none

/-- the specification: every rank accesses its own copy, whatever is mapped -/
def ideal (sw : Bool) (s : St) : Ev → Option (St × Option Int)
  | .write r g v => if s.cur = some r then some ({ s with mem := setMem s.mem r g v }, none) else none
  | .read r g => if s.cur = some r then some (s, some (s.mem r g)) else none
  | e => step sw s e

def runWith (f : St → Ev → Option (St × Option Int)) (s : St) : List Ev → Option (St × List Int)
  | [] => some (s, [])
  | e :: es =>
    match f s e with
    | none => none
    | some (s', o) =>
      match runWith f s' es with
      | none => none
      | some (s'', os) => some (s'', (match o with | some v => [v] | none => []) ++ os)

def init (vals : Nat → Int) : St := { seg := 0, mem := fun _ g => vals g, cur := none }

end SgVerif.C36
