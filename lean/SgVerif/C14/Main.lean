/-
C14 — assembling the refinement: every accepted history of the one-simcall machine maps to a path of the reference
LTS (`orun_sound`), the initial states correspond (`init_sound`), a stuck world is a deadlock state
(`stuck_is_deadlock`).  Core only.
-/
import SgVerif.C14.RefineBar
namespace SgVerif.C14
open SgVerif.McRef

/-- `Mutex::lock` in one simcall is sound with NO hypothesis on the owner: when the caller already owns the
(non-recursive) mutex, `lock_async` queues it behind itself and `wait_for` (which tests `granted_`) does not answer —
in the LTS MUTEX_ASYNC_LOCK is executed and the MUTEX_WAIT is not enabled (self-deadlock, as under the checker);
otherwise `lock_sound`. -/
theorem lock_sound_full {o : OState} {i m : Nat} {a : Actor} (hR : R o) (hI : Inv o) (ha : o.s.actors[i]? = some a)
    (herr : o.s.err = 0) (hp : a.pend = some (.mutexAsyncLock m))
    {o' : OState} {path : Path} (h : oLock o i a m = some (o', path)) :
    execPath o.s path = some o'.s ∧ R o' ∧ Inv o' := by
  have hnrec := hI.sy.nrec m
  by_cases hne : (o.w.mutexes m).owner = some i
  · -- the owner locks again: queued behind itself, MUTEX_WAIT not enabled (self-deadlock, as under the checker)
    have hpid := hI.lt.pid i a ha
    have hops := hI.lt.ops i a ha
    by_cases hm : m < o.s.mutexes.length
    · simp only [oLock, hm, ↓reduceIte, sync_step_lock, sync_lock_busy _ i i hnrec hne] at h
      have hx0 : o.s.mutexes[m]? = some (o.s.mutexes[m]) := List.getElem?_eq_getElem hm
      have hx := hR.rm m _ hx0
      obtain ⟨hlab, hstep⟩ := lts_asyncLock ha herr hpid hp
      have hpi : pendOf o.s i = some (.mutexAsyncLock m) := by rw [pendOf_of_get ha, hp]
      have hopen := hole_open hI.lt hpi rfl
      have hqM : queueM o.s m = (o.w.mutexes m).queue.map (·.issuer) := by
        simp [queueM, hx0, hx, absM]
      simp only [Sync.optOut, wakeAll, pathOf, List.foldl, List.map, upd_same, Option.some.injEq, Prod.mk.injEq] at h
      obtain ⟨rfl, rfl⟩ := h
      have hs2 : setPend (setM o.s m (absM { o.w.mutexes m with
            queue := (o.w.mutexes m).queue ++ [{ issuer := i, waited := true, res := .unit }] })) i a (.mutexWait m)
          = step o.s i 0 := by
        rw [hstep]; simp only [setM]
        congr 2
        apply modifyAt_congr _ _ _ _ _ hx0
        rw [hx]; simp [mutexLockAsync, absM, hne]
      refine ⟨?_, ?_, ?_, ?_⟩
      · rw [execPath_cons hlab, hs2]; rfl
      · exact R_setM hR rfl rfl rfl
      · refine SInv_setM hI.sy (by simpa using hnrec) ?_
        intro q hq
        rcases List.mem_append.mp hq with h' | h'
        · exact hI.sy.mwaited m q h'
        · simp at h'; subst h'; rfl
      · have hact1 : (setPend o.s i a (.mutexWait m)).actors
            = modifyAt o.s.actors i (fun _ => { a with pend := some (.mutexWait m) }) := rfl
        have h1 : LInvH (setPend o.s i a (.mutexWait m)) [i] :=
          act_set hopen hact1 (fun p => queueOf_actors _ _ rfl rfl rfl p) ha (by simp) hpid hops
        have h2 := obj_push (s' := setPend (setM o.s m (absM { o.w.mutexes m with
            queue := (o.w.mutexes m).queue ++ [{ issuer := i, waited := true, res := .unit }] })) i a (.mutexWait m))
          (P := .mutexWait m) h1 rfl (by
            intro p
            have e1 : ∀ (X : State) (q : Pend), queueOf (setPend X i a (.mutexWait m)) q = queueOf X q :=
              fun X q => queueOf_actors _ _ rfl rfl rfl q
            rw [e1, e1, e1, queueOf_setM _ _ _ hm]
            by_cases e : p = .mutexWait m
            · subst e; simp [queueOf, hqM, absM]
            · simp [e]) (by simp) (pendOf_upd_eq hact1 ha)
        simpa using h2
    · simp [oLock, hm] at h
  · exact lock_sound hR hI ha herr hp hne h

theorem ostep_sound {o o' : OState} {i : Nat} {path : Path} (hR : R o) (hI : Inv o)
    (h : ostep o i = some (o', path)) : execPath o.s path = some o'.s ∧ R o' ∧ Inv o' := by
  unfold ostep at h
  cases ha : o.s.actors[i]? with
  | none => simp [ha] at h
  | some a =>
    simp only [ha] at h
    by_cases hg : o.s.err ≠ 0 ∨ a.pid = 0
    · simp [hg] at h
    · simp only [hg, ↓reduceIte] at h
      have herr : o.s.err = 0 := by
        by_cases e : o.s.err = 0
        · exact e
        · exact absurd (Or.inl e) hg
      cases hp : a.pend with
      | none => simp [hp] at h
      | some p =>
        have hpi : pendOf o.s i = some p := by rw [pendOf_of_get ha, hp]
        have hpok := hI.lt.pok i p (by simp) hpi
        simp only [hp] at h
        cases p <;> simp only [covPend, queueOf, List.not_mem_nil, or_false, Bool.false_eq_true] at hpok <;>
          try (simp at h; done)
        case mutexAsyncLock m => exact lock_sound_full hR hI ha herr hp h
        case mutexTrylock m => exact trylock_sound hR hI ha herr hp h
        case mutexUnlock m => exact unlock_sound hR hI ha herr hp h
        case semAsyncLock k => exact acquire_sound hR hI ha herr hp h
        case semUnlock k => exact release_sound hR hI ha herr hp h
        case barAsyncLock b => exact barrier_sound hR hI ha herr hp h

theorem execPath_append {s s' : State} : ∀ {p1 : Path} (p2 : Path), execPath s p1 = some s' →
    execPath s (p1 ++ p2) = execPath s' p2 := by
  intro p1
  induction p1 generalizing s with
  | nil => intro p2 h; simp [execPath] at h; subst h; rfl
  | cons x rest ih =>
    intro p2 h
    obtain ⟨i, tc⟩ := x
    simp only [execPath, List.cons_append] at h ⊢
    split at h
    · rename_i hl; simp only [hl, ↓reduceIte]; exact ih p2 h
    · cases h

theorem orun_sound : ∀ (h : List Nat) {o o' : OState} {path : Path}, R o → Inv o →
    orun o h = some (o', path) → execPath o.s path = some o'.s ∧ R o' ∧ Inv o'
  | [], o, o', path, hR, hI, hr => by
    simp [orun] at hr; obtain ⟨rfl, rfl⟩ := hr; exact ⟨rfl, hR, hI⟩
  | i :: h, o, o', path, hR, hI, hr => by
    simp only [orun] at hr
    cases h1 : ostep o i with
    | none => simp [h1] at hr
    | some r1 =>
      obtain ⟨o1, p1⟩ := r1
      simp only [h1] at hr
      cases h2 : orun o1 h with
      | none => simp [h2] at hr
      | some r2 =>
        obtain ⟨o2, p2⟩ := r2
        simp only [h2, Option.some.injEq, Prod.mk.injEq] at hr
        obtain ⟨rfl, rfl⟩ := hr
        obtain ⟨e1, hR1, hI1⟩ := ostep_sound hR hI h1
        obtain ⟨e2, hR2, hI2⟩ := orun_sound h hR1 hI1 h2
        exact ⟨by rw [execPath_append p2 e1]; exact e2, hR2, hI2⟩

/-! ### a stuck one-simcall world is a deadlock state of the LTS -/

theorem stuck_is_deadlock {o : OState} (hI : Inv o) (hs : ostuck o = true) : isDeadlock o.s = true := by
  simp only [ostuck, Bool.and_eq_true] at hs
  obtain ⟨⟨herr, hall⟩, hany⟩ := hs
  have hmv : ∀ i, movesOf o.s i = [] := by
    intro i
    simp only [movesOf]
    cases ha : o.s.actors[i]? with
    | none => rfl
    | some a =>
      cases hp : a.pend with
      | none => simp [hp]
      | some p =>
        have hmem : a ∈ o.s.actors := List.mem_of_getElem? ha
        have h1 := List.all_eq_true.mp hall a hmem
        have hpid := hI.lt.pid i a ha
        simp [hp, hpid] at h1
        have hpok := hI.lt.pok i p (by simp) (by rw [pendOf_of_get ha, hp])
        have hne : actorEnabled o.s i = false := by
          simp only [actorEnabled, ha, hp]
          cases p <;> simp [isWaitPend] at h1 <;>
            simp only [covPend, queueOf, List.not_mem_nil, or_false, Bool.false_eq_true, false_or] at hpok
          case mutexWait m =>
            simp only [queueM] at hpok
            cases hm : o.s.mutexes[m]? with
            | none => simp [pendEnabled, hm]
            | some mu => simp [hm] at hpok; simp [pendEnabled, hm, hpok]
          case semWait k =>
            simp only [queueS] at hpok
            cases hm : o.s.sems[k]? with
            | none => simp [pendEnabled, hm]
            | some mu => simp [hm] at hpok; simp [pendEnabled, hm, hpok]
          case barWait k =>
            simp only [queueB] at hpok
            cases hm : o.s.bars[k]? with
            | none => simp [pendEnabled, hm]
            | some mu => simp [hm] at hpok; simp [pendEnabled, hm, hpok]
        simp [hp, hne]
  have : moves o.s = [] := by
    simp [moves, hmv]
  simp only [isDeadlock, this, List.isEmpty_nil, Bool.and_true, Bool.and_eq_true]
  exact ⟨herr, hany⟩

/-- synchronisation-only programs covered by the theorems: static actors over the covered operations -/
def SyncOnly (p : Program) : Prop := p.children = [] ∧ ∀ ops ∈ p.statics, ∀ op ∈ ops, covOp op = true

theorem hole_open_none {s : State} {H : List Nat} {i : Nat} (hI : LInvH s H) (hp : pendOf s i = none) :
    LInvH s (i :: H) := by
  refine ⟨hI.pid, hI.ops, ?_, ?_⟩
  · intro p
    refine ⟨(hI.qs p).1, ?_⟩
    intro j hj
    obtain ⟨hjH, hjp⟩ := (hI.qs p).2 j hj
    refine ⟨?_, hjp⟩
    intro hmem
    cases hmem with
    | head => rw [hp] at hjp; cases hjp
    | tail _ h' => exact hjH h'
  · intro j p hj hjp
    exact hI.pok j p (fun h => hj (List.mem_cons_of_mem _ h)) hjp

/-- no actor is blocked -/
def NoWait (s : State) : Prop := ∀ j p, pendOf s j = some p → covPend p = true

theorem init_step {s : State} (i : Nat) (hL : LInv s) (hN : NoWait s) :
    LInv (match s.actors[i]? with | some a => finishStep s i a | none => s) ∧
    NoWait (match s.actors[i]? with | some a => finishStep s i a | none => s) := by
  cases ha : s.actors[i]? with
  | none => exact ⟨hL, hN⟩
  | some a =>
    simp only
    have hpid := hL.pid i a ha
    have hops := hL.ops i a ha
    have hopen : LInvH s [i] := by
      cases hp : a.pend with
      | none => exact hole_open_none hL (by rw [pendOf_of_get ha, hp])
      | some p => exact hole_open hL (by rw [pendOf_of_get ha, hp]) (hN i p (by rw [pendOf_of_get ha, hp]))
    refine ⟨LInv_finish hopen ha hpid hops, ?_⟩
    intro j p hj
    have hact := finishStep_actors s i a
    by_cases e : j = i
    · subst e
      rw [pendOf_upd_eq hact ha] at hj
      exact (advance_cov s j a a.todo hops).2.1 p hj
    · rw [pendOf_upd_ne hact e] at hj
      exact hN j p hj

theorem init_fold : ∀ (l : List Nat) (s : State), LInv s → NoWait s →
    LInv (l.foldl (fun s i => match s.actors[i]? with | some a => finishStep s i a | none => s) s) ∧
    (l.foldl (fun s i => match s.actors[i]? with | some a => finishStep s i a | none => s) s).mutexes = s.mutexes ∧
    (l.foldl (fun s i => match s.actors[i]? with | some a => finishStep s i a | none => s) s).sems = s.sems ∧
    (l.foldl (fun s i => match s.actors[i]? with | some a => finishStep s i a | none => s) s).bars = s.bars
  | [], s, hL, _ => ⟨hL, rfl, rfl, rfl⟩
  | i :: l, s, hL, hN => by
    simp only [List.foldl]
    obtain ⟨h1, h2⟩ := init_step i hL hN
    obtain ⟨r1, r2, r3, r4⟩ := init_fold l _ h1 h2
    refine ⟨r1, ?_, ?_, ?_⟩
    · rw [r2]; cases s.actors[i]? <;> simp
    · rw [r3]; cases s.actors[i]? <;> simp
    · rw [r4]; cases s.actors[i]? <;> simp

theorem init_sound (p : Program) (hp : SyncOnly p) : R (initO p) ∧ Inv (initO p) := by
  obtain ⟨hch, hops⟩ := hp
  -- the state before the first `execute_actors()`
  let s0 : State :=
    { actors := (p.statics.zipIdx.map (fun (ops, i) => ({ pid := i + 1, todo := ops } : Actor))) ++
                 p.children.map (fun ops => ({ pid := 0, todo := ops } : Actor)),
      nstatic := p.statics.length,
      mutexes := List.replicate p.nmutex {},
      sems := p.sems.map (fun v => { value := v }),
      bars := p.bars.map (fun n => { expected := n }),
      cvs := List.replicate p.ncv {},
      mboxes := List.replicate p.nmbox {},
      nextPid := p.statics.length + 1 }
  have hmem : ∀ a ∈ s0.actors, a.pid ≠ 0 ∧ a.pend = none ∧ ∀ op ∈ a.todo, covOp op = true := by
    intro a ha
    simp only [s0, hch, List.map_nil, List.append_nil, List.mem_map] at ha
    obtain ⟨x, hx, rfl⟩ := ha
    exact ⟨by simp, rfl, hops x.1 (List.fst_mem_of_mem_zipIdx hx)⟩
  have hq0 : ∀ q, queueOf s0 q = [] := by
    intro q
    cases q <;> simp [queueOf, queueM, queueS, queueB, s0]
    case mutexWait m =>
      cases h : (List.replicate p.nmutex ({} : McRef.Mutex))[m]? with
      | none => rfl
      | some mu =>
        have := List.mem_of_getElem? h
        rw [List.mem_replicate] at this
        rw [this.2]
    case semWait k =>
      cases h : p.sems[k]? <;> simp [h]
    case barWait k =>
      cases h : p.bars[k]? <;> simp [h]
  have hL0 : LInv s0 := by
    refine ⟨?_, ?_, ?_, ?_⟩
    · intro j a ha; exact (hmem a (List.mem_of_getElem? ha)).1
    · intro j a ha; exact (hmem a (List.mem_of_getElem? ha)).2.2
    · intro q; rw [hq0 q]; simp
    · intro j q _ hj
      simp only [pendOf] at hj
      cases ha : s0.actors[j]? with
      | none => simp [ha] at hj
      | some a => simp [ha, (hmem a (List.mem_of_getElem? ha)).2.1] at hj
  have hN0 : NoWait s0 := by
    intro j q hj
    simp only [pendOf] at hj
    cases ha : s0.actors[j]? with
    | none => simp [ha] at hj
    | some a => simp [ha, (hmem a (List.mem_of_getElem? ha)).2.1] at hj
  obtain ⟨hL, hm, hs, hb⟩ := init_fold (List.range p.statics.length) s0 hL0 hN0
  have hinit : initState p = (List.range p.statics.length).foldl
      (fun s i => match s.actors[i]? with | some a => finishStep s i a | none => s) s0 := rfl
  refine ⟨⟨?_, ?_, ?_⟩, ⟨⟨?_, ?_, ?_, ?_⟩, ?_⟩⟩
  · intro m mu hmu
    simp only [initO, hinit, hm] at hmu
    have := List.mem_of_getElem? hmu
    simp only [s0, List.mem_replicate] at this
    rw [this.2]; rfl
  · intro k se hse
    simp only [initO, hinit, hs] at hse
    simp only [s0, List.getElem?_map] at hse
    cases h : p.sems[k]? with
    | none => simp [h] at hse
    | some v => simp [h] at hse; subst hse; simp [initO, initW, h, absS]
  · intro b ba hba
    simp only [initO, hinit, hb] at hba
    simp only [s0, List.getElem?_map] at hba
    cases h : p.bars[b]? with
    | none => simp [h] at hba
    | some v => simp [h] at hba; subst hba; simp [initO, initW, h, absB]
  · intro m; rfl
  · intro m q hq; simp [initO, initW] at hq
  · intro k q hq
    simp only [initO, initW] at hq
    cases h : p.sems[k]? <;> simp [h] at hq
  · intro b q hq
    simp only [initO, initW] at hq
    cases h : p.bars[b]? <;> simp [h] at hq
  · simpa [initO, hinit] using hL

end SgVerif.C14
