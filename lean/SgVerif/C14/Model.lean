/-
C14 — the ONE-SIMCALL machine: what a normal run (no simgrid-mc) of a mini-language program does.

Kernel side = `Sync.World.step` on the one-simcall events (`.lock`, `.acquire`, `.barWait`, `.condWait`, …), i.e. the
transliteration of src/kernel/activity/{Mutex,Semaphore,Barrier,ConditionVariable}Impl.cpp composed as the non-MC
branches of src/s4u/s4u_{Mutex,Semaphore,Barrier,ConditionVariable}.cpp compose them
(`pimpl_->lock_async(issuer)->wait_for(issuer, -1)` inside ONE `simcall_blocking`).  Who is answered, and with which
result, is read from the `Outs` of that step — nothing is recomputed here.
Actor side = the interpreter of the mini-language (`McRef.advance`: guards, observations), shared with the reference LTS.

`ostep o i` = maestro handles the simcall that actor `i` issued (`EngineImpl::run`:
`for (actor : actors_that_ran_) if (actor->simcall_.call_ != NONE) actor->simcall_handle(0)`); a *history* is the
order in which maestro handles simcalls during a run — exactly the order of the `call` lines of the harness log.
An actor whose simcall is answered is advanced to its next simcall at once (in the real run it does so in the next
sub-round; the interpreter's guards only read facts owned by the actor itself — "do I hold mutex m" — that no other
actor can change meanwhile).

State = Sync world (kernel objects with their acquisition records) + McRef state (actor table; its object fields are
kept equal to the abstraction of the Sync world, relation `R` of C14/Lemmas.lean).  Every step also returns the path
of split transitions (actor index, times_considered) of the reference LTS that it is the atomic composition of
(ghost output: nothing depends on it).

Error branches are explicit: `none` = the history is not one a run of a program of the domain produces (actor absent,
blocked or terminated; object index out of range — the interpreter would index a vector out of bounds; barrier of
size 0 or ≥ 2^32; a kind that is not covered: mailboxes, actor creation/join, MC_random).
Core-only (compiled into the driver).
-/
import SgVerif.McRef.Model
import SgVerif.Sync.Model
namespace SgVerif.C14
open SgVerif.McRef

/-! ### abstraction of the kernel objects: an acquisition record ↦ its issuer -/
def absM (m : Sync.Mutex) : McRef.Mutex := { owner := m.owner, queue := m.queue.map (·.issuer) }
def absS (s : Sync.Sem) : McRef.Sem := { value := s.value, queue := s.queue.map (·.issuer) }
def absB (b : Sync.Bar) : McRef.Bar := { expected := b.expected, queue := b.queue.map (·.issuer) }
def absC (c : Sync.Cond) : McRef.Cv := { queue := c.queue.map (·.issuer) }

structure OState where
  w : Sync.World
  s : McRef.State

abbrev Path := List (Nat × Nat)

def initW (p : Program) : Sync.World :=
  { mutexes := fun _ => { recursive := false },
    sems := fun k => match p.sems[k]? with | some v => { value := v } | none => { value := 0 },
    conds := fun _ => {},
    bars := fun b => match p.bars[b]? with | some n => { expected := n } | none => { expected := 1 },
    hgrant := fun _ => false }

def initO (p : Program) : OState := { w := initW p, s := initState p }

def setM (s : State) (m : Nat) (mu : McRef.Mutex) : State := { s with mutexes := modifyAt s.mutexes m (fun _ => mu) }
def setS (s : State) (k : Nat) (se : McRef.Sem) : State := { s with sems := modifyAt s.sems k (fun _ => se) }
def setB (s : State) (b : Nat) (ba : McRef.Bar) : State := { s with bars := modifyAt s.bars b (fun _ => ba) }
def setC (s : State) (c : Nat) (cv : McRef.Cv) : State := { s with cvs := modifyAt s.cvs c (fun _ => cv) }

/-- The blocked actor `j` is answered: it runs to its next simcall (in LTS terms: its `*_WAIT` transition). -/
def wake (s : State) (j : Nat) : State :=
  match s.actors[j]? with
  | some aj => finishStep s j aj
  | none => s

/-- The actors answered by a kernel step, in the order the kernel answers them. -/
def wakeAll (s : State) (outs : Sync.Outs) : State := outs.foldl (fun s o => wake s o.1) s

def pathOf (outs : Sync.Outs) : Path := outs.map (fun o => (o.1, 0))

/-- The waiter `j` popped from a condition variable re-locks its mutex `m` (finish() of the CONDVAR_NOMC path):
in LTS terms its CONDVAR_WAIT transition was executed; it now sits on MUTEX_WAIT. -/
def relockPend (s : State) (j m : Nat) : State :=
  match s.actors[j]? with
  | some aj => setPend s j aj (.mutexWait m)
  | none => s

/-! ### one simcall of actor `i` (record `a`) handled by maestro, per S4U call.
Each returns the new state and the split path it stands for. -/

/-- Mutex::lock, non-MC branch: `lock_async(issuer)->wait_for(issuer, -1)` in one simcall -/
def oLock (o : OState) (i : Nat) (a : Actor) (m : Nat) : Option (OState × Path) :=
  if m < o.s.mutexes.length then
    match o.w.step (.lock i m) with
    | .ok (w', outs) =>
      let s2 := setPend (setM o.s m (absM (w'.mutexes m))) i a (.mutexWait m)
      some ({ w := w', s := wakeAll s2 outs }, (i, 0) :: pathOf outs)
    | .error _ => none
  else none

/-- Mutex::try_lock -/
def oTrylock (o : OState) (i : Nat) (a : Actor) (m : Nat) : Option (OState × Path) :=
  if m < o.s.mutexes.length then
    match o.w.step (.tryLock i m) with
    | .ok (w', [(_, .flag b)]) =>
      some ({ w := w', s := finishStep (setM o.s m (absM (w'.mutexes m))) i { a with obs := a.obs ++ [if b then 1 else 0] } },
            [(i, 0)])
    | _ => none
  else none

/-- Mutex::unlock: the hand-off answers the blocked new owner, then the unlocker -/
def oUnlock (o : OState) (i : Nat) (a : Actor) (m : Nat) : Option (OState × Path) :=
  if m < o.s.mutexes.length then
    match o.w.step (.unlock i m) with
    | .error _ => some ({ o with s := crash o.s i a }, [(i, 0)])      -- xbt_assert(issuer == owner_)
    | .ok (w', outs) =>
      let s2 := finishStep (setM o.s m (absM (w'.mutexes m))) i a
      match outs with
      | [_] => some ({ w := w', s := s2 }, [(i, 0)])
      | [(j, _), _] => some ({ w := w', s := wake s2 j }, [(i, 0), (j, 0)])
      | _ => none
  else none

/-- Semaphore::acquire, non-MC branch: `acquire_async(issuer)->wait_for(issuer, -1)` in one simcall -/
def oAcquire (o : OState) (i : Nat) (a : Actor) (k : Nat) : Option (OState × Path) :=
  if k < o.s.sems.length then
    match o.w.step (.acquire i k false) with
    | .ok (w', outs) =>
      let s2 := setPend (setS o.s k (absS (w'.sems k))) i a (.semWait k)
      some ({ w := w', s := wakeAll s2 outs }, (i, 0) :: pathOf outs)
    | .error _ => none
  else none

/-- Semaphore::release -/
def oRelease (o : OState) (i : Nat) (a : Actor) (k : Nat) : Option (OState × Path) :=
  if k < o.s.sems.length then
    match o.w.step (.release i k) with
    | .error _ => none
    | .ok (w', outs) =>
      let s2 := finishStep (setS o.s k (absS (w'.sems k))) i a
      match outs with
      | [_] => some ({ w := w', s := s2 }, [(i, 0)])
      | [(j, _), _] => some ({ w := w', s := wake s2 j }, [(i, 0), (j, 0)])
      | _ => none
  else none

/-- Barrier::wait, non-MC branch: acquire_async + wait_for (+ was_last) in one simcall -/
def oBarrier (o : OState) (i : Nat) (a : Actor) (b : Nat) : Option (OState × Path) :=
  match o.s.bars[b]? with
  | none => none
  | some ba =>
    if 1 ≤ ba.expected ∧ ba.expected < 4294967296 then
      match o.w.step (.barWait i b) with
      | .ok (w', outs) =>
        let s2 := setPend (setB o.s b (absB (w'.bars b))) i a (.barWait b)
        some ({ w := w', s := wakeAll s2 outs }, (i, 0) :: pathOf outs)
      | .error _ => none
    else none

/-- ConditionVariable::wait, CONDVAR_NOMC: acquire_async (unlocks the mutex: hand-off) + wait_for in one simcall -/
def oCvWait (o : OState) (i : Nat) (a : Actor) (c m : Nat) : Option (OState × Path) :=
  if c < o.s.cvs.length ∧ m < o.s.mutexes.length then
    match o.w.step (.condWait i c m false) with
    | .error _ => some ({ o with s := crash o.s i a }, [(i, 0)])
    | .ok (w', outs) =>
      let s2 := setPend (setC (setM o.s m (absM (w'.mutexes m))) c (absC (w'.conds c))) i a (.cvWait c m)
      some ({ w := w', s := wakeAll s2 outs }, (i, 0) :: pathOf outs)
  else none

/-- ConditionVariable::notify_one: the popped waiter re-locks its mutex inside the notifier's simcall -/
def oSignal (o : OState) (i : Nat) (a : Actor) (c : Nat) : Option (OState × Path) :=
  if c < o.s.cvs.length then
    match o.w.step (.signal i c) with
    | .error _ => none
    | .ok (w', outs) =>
      let s2 := finishStep (setC o.s c (absC (w'.conds c))) i a
      match (o.w.conds c).queue with
      | [] => some ({ w := w', s := s2 }, [(i, 0)])
      | acq :: _ =>
        let j := acq.issuer
        let s3 := relockPend (setM s2 acq.mutex (absM (w'.mutexes acq.mutex))) j acq.mutex
        match outs with
        | [_] => some ({ w := w', s := s3 }, [(i, 0), (j, 0)])
        | [(j', _), _] => if j' = j then some ({ w := w', s := wake s3 j }, [(i, 0), (j, 0), (j, 0)]) else none
        | _ => none
  else none

/-- ConditionVariable::notify_all: `while (not empty) signal()`; every popped waiter re-locks its mutex -/
def oBroadcast (o : OState) (i : Nat) (a : Actor) (c : Nat) : Option (OState × Path) :=
  if c < o.s.cvs.length then
    match o.w.step (.broadcast i c) with
    | .error _ => none
    | .ok (w', outs) =>
      let s2 := finishStep (setC o.s c (absC (w'.conds c))) i a
      let popped := (o.w.conds c).queue
      let s3 := popped.foldl (fun s acq => relockPend (setM s acq.mutex (absM (w'.mutexes acq.mutex))) acq.issuer acq.mutex) s2
      let answered := outs.filter (fun x => x.1 ≠ i)
      some ({ w := w', s := wakeAll s3 answered },
            (i, 0) :: popped.map (fun acq => (acq.issuer, 0)) ++ pathOf answered)
  else none

/-- One simcall of actor `i` handled by maestro. -/
def ostep (o : OState) (i : Nat) : Option (OState × Path) :=
  match o.s.actors[i]? with
  | none => none
  | some a =>
    if o.s.err ≠ 0 ∨ a.pid = 0 then none else
    match a.pend with
    | some (.mutexAsyncLock m) => oLock o i a m
    | some (.mutexTrylock m) => oTrylock o i a m
    | some (.mutexUnlock m) => oUnlock o i a m
    | some (.semAsyncLock k) => oAcquire o i a k
    | some (.semUnlock k) => oRelease o i a k
    | some (.barAsyncLock b) => oBarrier o i a b
    | some (.cvAsyncLock c m) => oCvWait o i a c m
    | some (.cvSignal c) => oSignal o i a c
    | some (.cvBroadcast c) => oBroadcast o i a c
    | _ => none      -- terminated, blocked (`*_WAIT`), or a kind that is not covered (mailbox / actor / random)

/-- A whole history: the order in which maestro handles the simcalls. -/
def orun (o : OState) : List Nat → Option (OState × Path)
  | [] => some (o, [])
  | i :: h =>
    match ostep o i with
    | none => none
    | some (o1, p1) =>
      match orun o1 h with
      | none => none
      | some (o2, p2) => some (o2, p1 ++ p2)

/-- `*_WAIT` kinds: the actor sits in a blocking S4U call that the kernel has not answered. -/
def isWaitPend : Pend → Bool
  | .mutexWait _ | .semWait _ | .barWait _ | .cvWait _ _ => true
  | _ => false

/-- The one-simcall world is stuck: no actor can issue a simcall (each is terminated, not created, or blocked) and one
at least is blocked.  This is when `EngineImpl::run` reports a deadlock for a synchronisation-only program: no actor
to run, no future event, `actor_list_` not empty. -/
def ostuck (o : OState) : Bool :=
  o.s.err == 0 &&
  o.s.actors.all (fun a => a.pid == 0 || match a.pend with | none => true | some p => isWaitPend p) &&
  o.s.actors.any (fun a => a.pid != 0 && a.pend.isSome)

/-- Drive the reference LTS along a path of (actor index, times_considered); `none` if a transition is not enabled. -/
def execPath : State → Path → Option State
  | s, [] => some s
  | s, (i, tc) :: rest => if (labelAt s i tc).isSome then execPath (step s i tc) rest else none

/-- The S4U call an actor is about to issue, in the syntax of the mini-language (driver: compared with the log). -/
def pendTok : Pend → String
  | .mutexAsyncLock m => s!"L{m}" | .mutexTrylock m => s!"T{m}" | .mutexUnlock m => s!"U{m}"
  | .semAsyncLock k => s!"A{k}" | .semUnlock k => s!"R{k}" | .barAsyncLock b => s!"B{b}"
  | .cvAsyncLock c m => s!"W{c}.{m}" | .cvSignal c => s!"N{c}" | .cvBroadcast c => s!"Y{c}"
  | _ => "?"

end SgVerif.C14
