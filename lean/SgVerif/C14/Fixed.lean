/-
C14 — the one-simcall machine for the PROPOSED fix of finding `mutex-relock-by-owner-returns`
(`MutexAcquisitionImpl::wait_for` testing `granted_`, props/C14/fix_series/01-mutex-relock.patch): same machine as
C14/Model.lean except that `Mutex::lock` uses `Sync.Mutex.lockFixed`; and its refinement proof WITHOUT the hypothesis
`NoRelock`.  Not the current code, used by no driver.  Core only.
-/
import SgVerif.C14.Main
namespace SgVerif.C14
open SgVerif.McRef

/-- `Sync.World.step (.lock i m)` with the fixed `wait_for` -/
def stepLockFixed (w : Sync.World) (i m : Nat) : Sync.World × Sync.Outs :=
  ({ w with mutexes := Sync.upd w.mutexes m ((w.mutexes m).lockFixed i .unit).1 },
   Sync.optOut i ((w.mutexes m).lockFixed i .unit).2)

def oLockFixed (o : OState) (i : Nat) (a : Actor) (m : Nat) : Option (OState × Path) :=
  if m < o.s.mutexes.length then
    let r := stepLockFixed o.w i m
    let s2 := setPend (setM o.s m (absM (r.1.mutexes m))) i a (.mutexWait m)
    some ({ w := r.1, s := wakeAll s2 r.2 }, (i, 0) :: pathOf r.2)
  else none

/-- one simcall of actor `i`: `Mutex::lock` with the fixed `wait_for`, everything else as `ostep` -/
def ostepFixed (o : OState) (i : Nat) : Option (OState × Path) :=
  match o.s.actors[i]? with
  | none => none
  | some a =>
    if o.s.err ≠ 0 ∨ a.pid = 0 then none else
    match a.pend with
    | some (.mutexAsyncLock m) => oLockFixed o i a m
    | _ => ostep o i

def orunFixed (o : OState) : List Nat → Option (OState × Path)
  | [] => some (o, [])
  | i :: h =>
    match ostepFixed o i with
    | none => none
    | some (o1, p1) =>
      match orunFixed o1 h with
      | none => none
      | some (o2, p2) => some (o2, p1 ++ p2)

/-! ### the fixed `lock`, computed -/

theorem lockFixed_free (M : Sync.Mutex) (i : Nat) (hn : M.recursive = false) (ho : M.owner = none) :
    M.lockFixed i .unit = ({ M with owner := some i, depth := 1 }, some .unit) := by
  simp [Sync.Mutex.lockFixed, Sync.Mutex.lockAsync, Sync.Mutex.waitForFixed, hn, ho]

/-- busy mutex — whoever the owner is, the caller included: queued, registered, not answered -/
theorem lockFixed_busy (M : Sync.Mutex) (i x : Nat) (hn : M.recursive = false) (ho : M.owner = some x) :
    M.lockFixed i .unit = ({ M with queue := M.queue ++ [{ issuer := i, waited := true, res := .unit }] }, none) := by
  simp [Sync.Mutex.lockFixed, Sync.Mutex.lockAsync, Sync.Mutex.waitForFixed, hn, ho, markLast_append]

/-- the fix changes nothing unless the caller already owns the mutex -/
theorem lockFixed_eq_lock (M : Sync.Mutex) (i : Nat) (hn : M.recursive = false) (hne : M.owner ≠ some i) :
    M.lockFixed i .unit = M.lock i .unit := by
  cases ho : M.owner with
  | none => rw [lockFixed_free M i hn ho, sync_lock_free M i hn ho]
  | some x =>
    have hx : x ≠ i := fun e => hne (by rw [ho, e])
    rw [lockFixed_busy M i x hn ho, sync_lock_busy M i x hn ho hx]

theorem oLockFixed_eq_oLock (o : OState) (i : Nat) (a : Actor) (m : Nat) (hn : (o.w.mutexes m).recursive = false)
    (hne : (o.w.mutexes m).owner ≠ some i) : oLockFixed o i a m = oLock o i a m := by
  simp only [oLockFixed, oLock, stepLockFixed, sync_step_lock, lockFixed_eq_lock _ i hn hne]

/-! ### soundness of the fixed `lock`, with no hypothesis on the owner -/

theorem lockFixed_sound {o : OState} {i m : Nat} {a : Actor} (hR : R o) (hI : Inv o) (ha : o.s.actors[i]? = some a)
    (herr : o.s.err = 0) (hp : a.pend = some (.mutexAsyncLock m))
    {o' : OState} {path : Path} (h : oLockFixed o i a m = some (o', path)) :
    execPath o.s path = some o'.s ∧ R o' ∧ Inv o' := by
  have hnrec := hI.sy.nrec m
  by_cases hne : (o.w.mutexes m).owner = some i
  · -- the owner locks again: queued behind itself, MUTEX_WAIT not enabled (self-deadlock, as under the checker)
    have hpid := hI.lt.pid i a ha
    have hops := hI.lt.ops i a ha
    by_cases hm : m < o.s.mutexes.length
    · simp only [oLockFixed, hm, ↓reduceIte, stepLockFixed, lockFixed_busy _ i i hnrec hne] at h
      have hx0 : o.s.mutexes[m]? = some (o.s.mutexes[m]) := List.getElem?_eq_getElem hm
      have hx := hR.rm m _ hx0
      obtain ⟨hlab, hstep⟩ := lts_asyncLock ha herr hpid hp
      have hpi : pendOf o.s i = some (.mutexAsyncLock m) := by rw [pendOf_of_get ha, hp]
      have hopen := hole_open hI.lt hpi rfl
      have hqM : queueM o.s m = (o.w.mutexes m).queue.map (·.issuer) := by
        simp [queueM, hx0, hx, absM]
      simp only [Sync.optOut, wakeAll, pathOf, List.foldl, List.map, upd_same, Option.some.injEq, Prod.mk.injEq] at h
      obtain ⟨rfl, rfl⟩ := h
      have hs2 : setPend (setM o.s m (absM { o.w.mutexes m with
            queue := (o.w.mutexes m).queue ++ [{ issuer := i, waited := true, res := .unit }] })) i a (.mutexWait m)
          = step o.s i 0 := by
        rw [hstep]; simp only [setM]
        congr 2
        apply modifyAt_congr _ _ _ _ _ hx0
        rw [hx]; simp [mutexLockAsync, absM, hne]
      refine ⟨?_, ?_, ?_, ?_⟩
      · rw [execPath_cons hlab, hs2]; rfl
      · exact R_setM hR rfl rfl rfl
      · refine SInv_setM hI.sy (by simpa using hnrec) ?_
        intro q hq
        rcases List.mem_append.mp hq with h' | h'
        · exact hI.sy.mwaited m q h'
        · simp at h'; subst h'; rfl
      · have hact1 : (setPend o.s i a (.mutexWait m)).actors
            = modifyAt o.s.actors i (fun _ => { a with pend := some (.mutexWait m) }) := rfl
        have h1 : LInvH (setPend o.s i a (.mutexWait m)) [i] :=
          act_set hopen hact1 (fun p => queueOf_actors _ _ rfl rfl rfl p) ha (by simp) hpid hops
        have h2 := obj_push (s' := setPend (setM o.s m (absM { o.w.mutexes m with
            queue := (o.w.mutexes m).queue ++ [{ issuer := i, waited := true, res := .unit }] })) i a (.mutexWait m))
          (P := .mutexWait m) h1 rfl (by
            intro p
            have e1 : ∀ (X : State) (q : Pend), queueOf (setPend X i a (.mutexWait m)) q = queueOf X q :=
              fun X q => queueOf_actors _ _ rfl rfl rfl q
            rw [e1, e1, e1, queueOf_setM _ _ _ hm]
            by_cases e : p = .mutexWait m
            · subst e; simp [queueOf, hqM, absM]
            · simp [e]) (by simp) (pendOf_upd_eq hact1 ha)
        simpa using h2
    · simp [oLockFixed, hm] at h
  · rw [oLockFixed_eq_oLock o i a m hnrec hne] at h
    exact lock_sound hR hI ha herr hp hne h

theorem ostepFixed_sound {o o' : OState} {i : Nat} {path : Path} (hR : R o) (hI : Inv o)
    (h : ostepFixed o i = some (o', path)) : execPath o.s path = some o'.s ∧ R o' ∧ Inv o' := by
  unfold ostepFixed at h
  cases ha : o.s.actors[i]? with
  | none => simp [ha] at h
  | some a =>
    simp only [ha] at h
    by_cases hg : o.s.err ≠ 0 ∨ a.pid = 0
    · simp [hg] at h
    · simp only [hg, ↓reduceIte] at h
      have herr : o.s.err = 0 := by
        by_cases e : o.s.err = 0
        · exact e
        · exact absurd (Or.inl e) hg
      have hpo : pendOf o.s i = a.pend := pendOf_of_get ha
      split at h
      · rename_i m hp
        exact lockFixed_sound hR hI ha herr hp h
      · rename_i hnl
        refine ostep_sound hR hI ?_ h
        intro m hpm
        rw [hpo] at hpm
        exact absurd hpm (hnl m)

theorem orunFixed_sound : ∀ (h : List Nat) {o o' : OState} {path : Path}, R o → Inv o →
    orunFixed o h = some (o', path) → execPath o.s path = some o'.s ∧ R o' ∧ Inv o'
  | [], o, o', path, hR, hI, hr => by
    simp [orunFixed] at hr; obtain ⟨rfl, rfl⟩ := hr; exact ⟨rfl, hR, hI⟩
  | i :: h, o, o', path, hR, hI, hr => by
    simp only [orunFixed] at hr
    cases h1 : ostepFixed o i with
    | none => simp [h1] at hr
    | some r1 =>
      obtain ⟨o1, p1⟩ := r1
      simp only [h1] at hr
      cases h2 : orunFixed o1 h with
      | none => simp [h2] at hr
      | some r2 =>
        obtain ⟨o2, p2⟩ := r2
        simp only [h2, Option.some.injEq, Prod.mk.injEq] at hr
        obtain ⟨rfl, rfl⟩ := hr
        obtain ⟨e1, hR1, hI1⟩ := ostepFixed_sound hR hI h1
        obtain ⟨e2, hR2, hI2⟩ := orunFixed_sound h hR1 hI1 h2
        exact ⟨by rw [execPath_append p2 e1]; exact e2, hR2, hI2⟩

/-- on a step that is not a re-lock by the owner the fixed machine IS the current machine -/
theorem ostepFixed_eq_ostep {o : OState} {i : Nat} (hI : Inv o) (hok : stepOK o i) : ostepFixed o i = ostep o i := by
  unfold ostepFixed ostep
  cases ha : o.s.actors[i]? with
  | none => rfl
  | some a =>
    simp only []
    split
    · rfl
    · split
      · rename_i m hp
        have hpi : pendOf o.s i = some (.mutexAsyncLock m) := by rw [pendOf_of_get ha, hp]
        simp only [hp]
        exact oLockFixed_eq_oLock o i a m (hI.sy.nrec m) (hok m hpi)
      · simp only [ostep, ha]

end SgVerif.C14
