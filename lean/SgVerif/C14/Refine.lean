/-
C14 — the refinement proof: every step of the one-simcall machine is the atomic composition of the split
transitions of the reference LTS it returns, and preserves `R` and `Inv`.  Core only.
-/
import SgVerif.C14.Lemmas
namespace SgVerif.C14
open SgVerif.McRef

/-! ### pending simcalls under actor updates -/

theorem pendOf_upd_ne {s s' : State} {i k : Nat} {a' : Actor} (h : s'.actors = modifyAt s.actors i (fun _ => a'))
    (hk : k ≠ i) : pendOf s' k = pendOf s k := by
  simp [pendOf, h, modifyAt_get_ne _ _ _ _ (Ne.symm hk)]

theorem pendOf_upd_eq {s s' : State} {i : Nat} {a0 a' : Actor} (h : s'.actors = modifyAt s.actors i (fun _ => a'))
    (ha : s.actors[i]? = some a0) : pendOf s' i = a'.pend := by
  simp [pendOf, h, modifyAt_get_eq, ha]

theorem get_upd_eq {s s' : State} {i : Nat} {a0 a' : Actor} (h : s'.actors = modifyAt s.actors i (fun _ => a'))
    (ha : s.actors[i]? = some a0) : s'.actors[i]? = some a' := by
  simp [h, modifyAt_get_eq, ha]

theorem get_upd_ne {s s' : State} {i k : Nat} {a' : Actor} (h : s'.actors = modifyAt s.actors i (fun _ => a'))
    (hk : k ≠ i) : s'.actors[k]? = s.actors[k]? := by
  simp [h, modifyAt_get_ne _ _ _ _ (Ne.symm hk)]

/-! ### compositional preservation of the LTS invariant -/

/-- an actor whose pending simcall is the first simcall of a covered call is in no queue: it can go "in transit" -/
theorem hole_open {s : State} {H : List Nat} {i : Nat} {p0 : Pend} (hI : LInvH s H) (hp : pendOf s i = some p0)
    (hc : covPend p0 = true) : LInvH s (i :: H) := by
  refine ⟨hI.pid, hI.ops, ?_, ?_⟩
  · intro p
    refine ⟨(hI.qs p).1, ?_⟩
    intro j hj
    obtain ⟨hjH, hjp⟩ := (hI.qs p).2 j hj
    refine ⟨?_, hjp⟩
    intro hmem
    cases hmem with
    | head =>
      rw [hp] at hjp
      injection hjp with e
      subst e
      cases p0 <;> simp [covPend, queueOf] at hc hj
    | tail _ h' => exact hjH h'
  · intro j p hj hjp
    exact hI.pok j p (fun h => hj (List.mem_cons_of_mem _ h)) hjp

/-- an object update that leaves every queue as it is -/
theorem obj_same {s s' : State} {H : List Nat} (hI : LInvH s H) (hact : s'.actors = s.actors)
    (hq : ∀ p, queueOf s' p = queueOf s p) : LInvH s' H := by
  have hp : ∀ j, pendOf s' j = pendOf s j := by intro j; simp [pendOf, hact]
  refine ⟨by simpa [hact] using hI.pid, by simpa [hact] using hI.ops, ?_, ?_⟩
  · intro p; rw [hq p]; simpa [hp] using hI.qs p
  · intro j p; rw [hq p, hp j]; exact hI.pok j p

/-- an object update that appends the in-transit actor `i`, whose pending simcall is `P`, to the queue of `P` -/
theorem obj_push {s s' : State} {H : List Nat} {i : Nat} {P : Pend} (hI : LInvH s H) (hact : s'.actors = s.actors)
    (hq : ∀ p, queueOf s' p = if p = P then queueOf s P ++ [i] else queueOf s p)
    (hi : i ∈ H) (hpi : pendOf s i = some P) : LInvH s' (H.filter (· ≠ i)) := by
  have hp : ∀ j, pendOf s' j = pendOf s j := by intro j; simp [pendOf, hact]
  have hnot : ∀ p, i ∉ queueOf s p := fun p h => ((hI.qs p).2 i h).1 hi
  refine ⟨by simpa [hact] using hI.pid, by simpa [hact] using hI.ops, ?_, ?_⟩
  · intro p
    rw [hq p]
    by_cases hpP : p = P
    · subst hpP
      simp only [if_true]
      refine ⟨?_, ?_⟩
      · rw [List.nodup_append]
        refine ⟨(hI.qs p).1, by simp, ?_⟩
        intro a ha b hb
        simp at hb; subst hb
        intro e; subst e; exact hnot p ha
      · intro j hj
        rw [hp j]
        rcases List.mem_append.mp hj with h | h
        · obtain ⟨h1, h2⟩ := (hI.qs p).2 j h
          refine ⟨?_, h2⟩
          intro hm; exact h1 (List.mem_filter.mp hm).1
        · simp at h; subst h
          exact ⟨by simp, hpi⟩
    · simp only [hpP, if_false]
      refine ⟨(hI.qs p).1, ?_⟩
      intro j hj
      rw [hp j]
      obtain ⟨h1, h2⟩ := (hI.qs p).2 j hj
      exact ⟨fun hm => h1 (List.mem_filter.mp hm).1, h2⟩
  · intro j p hj hjp
    rw [hp j] at hjp
    rw [hq p]
    by_cases hji : j = i
    · subst hji
      rw [hpi] at hjp; injection hjp with e; subst e
      right; simp
    · have : j ∉ H := fun hm => hj (List.mem_filter.mpr ⟨hm, by simpa using hji⟩)
      rcases hI.pok j p this hjp with h | h
      · exact Or.inl h
      · right
        by_cases hpP : p = P
        · subst hpP; simp [h]
        · simp [hpP, h]

/-- an object update that drops a prefix of the queue of `P`: the dropped actors go in transit -/
theorem obj_drop {s s' : State} {H : List Nat} {P : Pend} {pre t : List Nat} (hI : LInvH s H)
    (hact : s'.actors = s.actors) (hP : queueOf s P = pre ++ t)
    (hq : ∀ p, queueOf s' p = if p = P then t else queueOf s p) : LInvH s' (pre ++ H) := by
  have hp : ∀ j, pendOf s' j = pendOf s j := by intro j; simp [pendOf, hact]
  have hnd := (hI.qs P).1
  rw [hP] at hnd
  have hdisj : ∀ j, j ∈ pre → j ∉ t := by
    intro j h1 h2
    exact (List.nodup_append.mp hnd).2.2 j h1 j h2 rfl
  refine ⟨by simpa [hact] using hI.pid, by simpa [hact] using hI.ops, ?_, ?_⟩
  · intro p
    rw [hq p]
    by_cases hpP : p = P
    · subst hpP
      simp only [if_true]
      refine ⟨(List.nodup_append.mp hnd).2.1, ?_⟩
      intro j hj
      rw [hp j]
      have hjq : j ∈ queueOf s p := by rw [hP]; exact List.mem_append_right _ hj
      obtain ⟨h1, h2⟩ := (hI.qs p).2 j hjq
      refine ⟨?_, h2⟩
      intro hm
      rcases List.mem_append.mp hm with h | h
      · exact hdisj j h hj
      · exact h1 h
    · simp only [hpP, if_false]
      refine ⟨(hI.qs p).1, ?_⟩
      intro j hj
      rw [hp j]
      obtain ⟨h1, h2⟩ := (hI.qs p).2 j hj
      refine ⟨?_, h2⟩
      intro hm
      rcases List.mem_append.mp hm with h | h
      · -- j ∈ pre: its pending simcall is P, not p
        have hjP : j ∈ queueOf s P := by rw [hP]; exact List.mem_append_left _ h
        have := ((hI.qs P).2 j hjP).2
        rw [this] at h2; injection h2 with e; exact hpP e.symm
      · exact h1 h
  · intro j p hj hjp
    rw [hp j] at hjp
    rw [hq p]
    have hjH : j ∉ H := fun h => hj (List.mem_append_right _ h)
    have hjpre : j ∉ pre := fun h => hj (List.mem_append_left _ h)
    rcases hI.pok j p hjH hjp with h | h
    · exact Or.inl h
    · right
      by_cases hpP : p = P
      · subst hpP
        simp only [if_true]
        rw [hP] at h
        rcases List.mem_append.mp h with h | h
        · exact absurd h hjpre
        · exact h
      · simp [hpP, h]

/-- the in-transit actor `i` gets a new pending simcall (objects untouched) -/
theorem act_set {s s' : State} {H : List Nat} {i : Nat} {a0 a' : Actor} (hI : LInvH s H)
    (hact : s'.actors = modifyAt s.actors i (fun _ => a')) (hq : ∀ p, queueOf s' p = queueOf s p)
    (ha : s.actors[i]? = some a0) (hi : i ∈ H) (hpid : a'.pid ≠ 0) (hops : ∀ op ∈ a'.todo, covOp op = true) :
    LInvH s' H := by
  have hne : ∀ j, j ∉ H → pendOf s' j = pendOf s j := by
    intro j hj
    exact pendOf_upd_ne hact (fun e => hj (e ▸ hi))
  refine ⟨?_, ?_, ?_, ?_⟩
  · intro j a hj
    by_cases hji : j = i
    · subst hji; rw [get_upd_eq hact ha] at hj; injection hj with e; subst e; exact hpid
    · rw [get_upd_ne hact hji] at hj; exact hI.pid j a hj
  · intro j a hj
    by_cases hji : j = i
    · subst hji; rw [get_upd_eq hact ha] at hj; injection hj with e; subst e; exact hops
    · rw [get_upd_ne hact hji] at hj; exact hI.ops j a hj
  · intro p
    rw [hq p]
    refine ⟨(hI.qs p).1, ?_⟩
    intro j hj
    obtain ⟨h1, h2⟩ := (hI.qs p).2 j hj
    exact ⟨h1, by rw [hne j h1]; exact h2⟩
  · intro j p hj hjp
    rw [hne j hj] at hjp
    rw [hq p]
    exact hI.pok j p hj hjp

/-- the in-transit actor `i` lands on a pending simcall that is fine where it is -/
theorem hole_close {s : State} {H : List Nat} {i : Nat} (hI : LInvH s H)
    (hfine : ∀ p, pendOf s i = some p → covPend p = true ∨ i ∈ queueOf s p) : LInvH s (H.filter (· ≠ i)) := by
  refine ⟨hI.pid, hI.ops, ?_, ?_⟩
  · intro p
    refine ⟨(hI.qs p).1, ?_⟩
    intro j hj
    obtain ⟨h1, h2⟩ := (hI.qs p).2 j hj
    exact ⟨fun hm => h1 (List.mem_filter.mp hm).1, h2⟩
  · intro j p hj hjp
    by_cases hji : j = i
    · subst hji; exact hfine p hjp
    · exact hI.pok j p (fun hm => hj (List.mem_filter.mpr ⟨hm, by simpa using hji⟩)) hjp

/-! ### Sync-level computations of the one-simcall events -/

theorem upd_same {β : Type} (f : Nat → β) (i : Nat) (v : β) : Sync.upd f i v i = v := by simp [Sync.upd]
theorem upd_other {β : Type} (f : Nat → β) (i j : Nat) (v : β) (h : j ≠ i) : Sync.upd f i v j = f j := by
  simp [Sync.upd, h]

theorem markLast_append (a : Nat) (r : Sync.Res) (x : Sync.MAcq) (hx : x.issuer = a) : ∀ q : List Sync.MAcq,
    Sync.markLast a r (q ++ [x]) = q ++ [{ x with waited := true, res := r }]
  | [] => by simp [Sync.markLast, hx]
  | y :: q => by
    have : (q ++ [x]).any (fun z => decide (z.issuer = a)) = true := by simp [hx]
    simp [Sync.markLast, this, markLast_append a r x hx q]

theorem sync_lock_free (M : Sync.Mutex) (i : Nat) (hn : M.recursive = false) (ho : M.owner = none) :
    M.lock i .unit = ({ M with owner := some i, depth := 1 }, some .unit) := by
  simp [Sync.Mutex.lock, Sync.Mutex.lockAsync, Sync.Mutex.waitFor, hn, ho]

/-- busy mutex — whoever the owner is, the caller included (`wait_for` tests `granted_`): queued, registered, not answered -/
theorem sync_lock_busy (M : Sync.Mutex) (i x : Nat) (hn : M.recursive = false) (ho : M.owner = some x) :
    M.lock i .unit = ({ M with queue := M.queue ++ [{ issuer := i, waited := true, res := .unit }] }, none) := by
  simp [Sync.Mutex.lock, Sync.Mutex.lockAsync, Sync.Mutex.waitFor, hn, ho, markLast_append]

theorem sync_step_lock (w : Sync.World) (i m : Nat) :
    w.step (.lock i m) = .ok ({ w with mutexes := Sync.upd w.mutexes m ((w.mutexes m).lock i .unit).1 },
                              Sync.optOut i ((w.mutexes m).lock i .unit).2) := rfl

/-! ### queues under object updates -/

theorem queueOf_setM (s : State) (m : Nat) (mu : McRef.Mutex) (hm : m < s.mutexes.length) (p : Pend) :
    queueOf (setM s m mu) p = if p = .mutexWait m then mu.queue else queueOf s p := by
  cases p <;> simp [queueOf, queueS, queueB, setM]
  case mutexWait m' =>
    by_cases e : m' = m
    · subst e; simp [queueM, modifyAt_get_eq, List.getElem?_eq_getElem hm]
    · simp [queueM, modifyAt_get_ne _ _ _ _ (Ne.symm e), e]

theorem queueOf_actors (s s' : State) (hm : s'.mutexes = s.mutexes) (hs : s'.sems = s.sems) (hb : s'.bars = s.bars)
    (p : Pend) : queueOf s' p = queueOf s p := by
  cases p <;> simp [queueOf, queueM, queueS, queueB, hm, hs, hb]

/-! ### LTS transitions -/

theorem lts_asyncLock {s : State} {i m : Nat} {a : Actor} (ha : s.actors[i]? = some a) (herr : s.err = 0)
    (hpid : a.pid ≠ 0) (hp : a.pend = some (.mutexAsyncLock m)) :
    (labelAt s i 0).isSome = true ∧
    step s i 0 = setPend { s with mutexes := modifyAt s.mutexes m (fun mu => mutexLockAsync mu i) } i a (.mutexWait m) := by
  have := step_enabled ha hp herr hpid (by simp [pendEnabled]) (by simp [maxConsider])
  exact ⟨this.1, by rw [this.2]; simp [execPend]⟩

/-- a granted `*_WAIT`: the actor runs to its next simcall -/
theorem lts_wait {s : State} {j : Nat} {aj : Actor} {p : Pend} (ha : s.actors[j]? = some aj) (herr : s.err = 0)
    (hpid : aj.pid ≠ 0) (hp : aj.pend = some p) (hw : (∃ m, p = .mutexWait m) ∨ (∃ k, p = .semWait k) ∨ (∃ b, p = .barWait b))
    (hen : pendEnabled s j p = true) :
    (labelAt s j 0).isSome = true ∧ step s j 0 = wake s j := by
  have hmc : 0 < maxConsider p := by
    rcases hw with ⟨m, rfl⟩ | ⟨k, rfl⟩ | ⟨b, rfl⟩ <;> simp [maxConsider]
  have := step_enabled ha hp herr hpid hen hmc
  refine ⟨this.1, ?_⟩
  rw [this.2]
  rcases hw with ⟨m, rfl⟩ | ⟨k, rfl⟩ | ⟨b, rfl⟩ <;> simp [execPend, wake, ha]

/-! ### preservation of `R` and of the Sync invariant under a mutex update -/

theorem R_setM {o : OState} {m : Nat} {M' : Sync.Mutex} {s' : State} (hR : R o)
    (h1 : s'.mutexes = modifyAt o.s.mutexes m (fun _ => absM M')) (h2 : s'.sems = o.s.sems) (h3 : s'.bars = o.s.bars) :
    R { w := { o.w with mutexes := Sync.upd o.w.mutexes m M' }, s := s' } := by
  refine ⟨?_, ?_, ?_⟩
  · intro m' mu hmu
    simp only [h1] at hmu
    by_cases e : m' = m
    · subst e
      rw [modifyAt_get_eq] at hmu
      simp only [upd_same]
      cases hx : o.s.mutexes[m']? with
      | none => simp [hx] at hmu
      | some x => simp [hx] at hmu; exact hmu.symm
    · rw [modifyAt_get_ne _ _ _ _ (Ne.symm e)] at hmu
      simp only [upd_other _ _ _ _ e]
      exact hR.rm m' mu hmu
  · intro k se hse; simp only [h2] at hse; exact hR.rs k se hse
  · intro b ba hba; simp only [h3] at hba; exact hR.rb b ba hba

theorem SInv_setM {w : Sync.World} {m : Nat} {M' : Sync.Mutex} (hS : SInv w) (h1 : M'.recursive = false)
    (h2 : ∀ q ∈ M'.queue, q.waited = true) : SInv { w with mutexes := Sync.upd w.mutexes m M' } := by
  refine ⟨?_, ?_, hS.swaited, hS.bwaited⟩
  · intro m'
    by_cases e : m' = m
    · subst e; simpa [upd_same] using h1
    · simpa [upd_other _ _ _ _ e] using hS.nrec m'
  · intro m'
    by_cases e : m' = m
    · subst e; simpa [upd_same] using h2
    · simpa [upd_other _ _ _ _ e] using hS.mwaited m'

/-- the LTS invariant through "the in-transit actor `i` is answered and runs on to its next simcall" -/
theorem LInvH_finish {s1 : State} {H : List Nat} {i : Nat} {a a1 : Actor} (hI : LInvH s1 H) (hi : i ∈ H)
    (ha : s1.actors[i]? = some a) (hpid : a1.pid ≠ 0) (hops : ∀ op ∈ a1.todo, covOp op = true) :
    LInvH (finishStep s1 i a1) (H.filter (· ≠ i)) := by
  have hadv := advance_cov s1 i a1 a1.todo hops
  have hact := finishStep_actors s1 i a1
  have hq : ∀ p, queueOf (finishStep s1 i a1) p = queueOf s1 p :=
    queueOf_actors _ _ (by simp) (by simp) (by simp)
  have h1 := act_set hI hact hq ha hi (by rw [hadv.2.2.2.1]; exact hpid) hadv.2.2.1
  exact hole_close (i := i) h1 (by
    intro p hp
    rw [pendOf_upd_eq hact ha] at hp
    exact Or.inl (hadv.2.1 p hp))

theorem LInv_finish {s1 : State} {i : Nat} {a a1 : Actor} (hI : LInvH s1 [i]) (ha : s1.actors[i]? = some a)
    (hpid : a1.pid ≠ 0) (hops : ∀ op ∈ a1.todo, covOp op = true) : LInv (finishStep s1 i a1) := by
  simpa using LInvH_finish hI (by simp) ha hpid hops

theorem lock_sound {o : OState} {i m : Nat} {a : Actor} (hR : R o) (hI : Inv o) (ha : o.s.actors[i]? = some a)
    (herr : o.s.err = 0) (hp : a.pend = some (.mutexAsyncLock m)) (hnr : (o.w.mutexes m).owner ≠ some i)
    {o' : OState} {path : Path} (h : oLock o i a m = some (o', path)) :
    execPath o.s path = some o'.s ∧ R o' ∧ Inv o' := by
  have hpid := hI.lt.pid i a ha
  have hops := hI.lt.ops i a ha
  by_cases hm : m < o.s.mutexes.length
  · simp only [oLock, hm, ↓reduceIte, sync_step_lock] at h
    have hx0 : o.s.mutexes[m]? = some (o.s.mutexes[m]) := List.getElem?_eq_getElem hm
    have hx := hR.rm m _ hx0
    have hnrec := hI.sy.nrec m
    obtain ⟨hlab, hstep⟩ := lts_asyncLock ha herr hpid hp
    have hpi : pendOf o.s i = some (.mutexAsyncLock m) := by rw [pendOf_of_get ha, hp]
    have hopen := hole_open hI.lt hpi rfl
    have hiq : i ∉ queueM o.s m := fun hmem => by
      have := ((hI.lt.qs (.mutexWait m)).2 i hmem).2
      rw [hpi] at this; cases this
    have hqM : queueM o.s m = (o.w.mutexes m).queue.map (·.issuer) := by
      simp [queueM, hx0, hx, absM]
    cases hown : (o.w.mutexes m).owner with
    | none =>
      rw [sync_lock_free _ i hnrec hown] at h
      simp only [Sync.optOut, wakeAll, pathOf, List.foldl, List.map, upd_same, Option.some.injEq, Prod.mk.injEq] at h
      obtain ⟨rfl, rfl⟩ := h
      have hs2 : setPend (setM o.s m (absM { o.w.mutexes m with owner := some i, depth := 1 })) i a (.mutexWait m)
          = step o.s i 0 := by
        rw [hstep]; simp only [setM]
        congr 2
        apply modifyAt_congr _ _ _ _ _ hx0
        rw [hx]; simp [mutexLockAsync, absM, hown]
      have hact2 : (step o.s i 0).actors = modifyAt o.s.actors i (fun _ => { a with pend := some (.mutexWait m) }) := by
        rw [← hs2]; simp
      have ha2 := get_upd_eq hact2 ha
      have hm2 : (step o.s i 0).mutexes = modifyAt o.s.mutexes m (fun _ => absM { o.w.mutexes m with owner := some i, depth := 1 }) := by
        rw [← hs2]; rfl
      have hse2 : (step o.s i 0).sems = o.s.sems := by rw [← hs2]; rfl
      have hba2 : (step o.s i 0).bars = o.s.bars := by rw [← hs2]; rfl
      have hmut2 : (step o.s i 0).mutexes[m]? = some (absM { o.w.mutexes m with owner := some i, depth := 1 }) := by
        rw [hm2]; simp [modifyAt_get_eq, hx0]
      have herr2 : (step o.s i 0).err = 0 := by rw [← hs2]; simpa using herr
      have hen : pendEnabled (step o.s i 0) i (.mutexWait m) = true := by
        simp only [pendEnabled, hmut2, absM]
        rw [← hqM]
        simp [hiq]
      obtain ⟨hlab2, hstep2⟩ := lts_wait ha2 herr2 hpid rfl (Or.inl ⟨m, rfl⟩) hen
      have hw : wake (step o.s i 0) i = finishStep (step o.s i 0) i { a with pend := some (.mutexWait m) } := by
        simp [wake, ha2]
      refine ⟨?_, ?_, ?_, ?_⟩
      · rw [execPath_cons hlab, execPath_cons hlab2, hstep2, hs2]; rfl
      · rw [hs2, hw]
        exact R_setM hR (by simp [hm2]) (by simp [hse2]) (by simp [hba2])
      · exact SInv_setM hI.sy (by simpa using hnrec) (by simpa using hI.sy.mwaited m)
      · rw [hs2, hw]
        have hq2 : ∀ p, queueOf (step o.s i 0) p = queueOf o.s p := by
          intro p
          have : queueOf (step o.s i 0) p
              = queueOf (setM o.s m (absM { o.w.mutexes m with owner := some i, depth := 1 })) p :=
            queueOf_actors _ _ (by rw [hm2]; rfl) (by rw [hse2]; rfl) (by rw [hba2]; rfl) p
          rw [this, queueOf_setM _ _ _ hm]
          by_cases e : p = .mutexWait m
          · subst e; simp [queueOf, hqM, absM]
          · simp [e]
        have h1 : LInvH (step o.s i 0) [i] :=
          act_set hopen hact2 hq2 ha (by simp) hpid hops
        exact LInv_finish h1 ha2 hpid hops
    | some x =>
      have hxi : x ≠ i := fun e => hnr (by rw [hown, e])
      rw [sync_lock_busy _ i x hnrec hown] at h
      simp only [Sync.optOut, wakeAll, pathOf, List.foldl, List.map, upd_same, Option.some.injEq, Prod.mk.injEq] at h
      obtain ⟨rfl, rfl⟩ := h
      have hs2 : setPend (setM o.s m (absM { o.w.mutexes m with
            queue := (o.w.mutexes m).queue ++ [{ issuer := i, waited := true, res := .unit }] })) i a (.mutexWait m)
          = step o.s i 0 := by
        rw [hstep]; simp only [setM]
        congr 2
        apply modifyAt_congr _ _ _ _ _ hx0
        rw [hx]; simp [mutexLockAsync, absM, hown]
      refine ⟨?_, ?_, ?_, ?_⟩
      · rw [execPath_cons hlab, hs2]; rfl
      · exact R_setM hR rfl rfl rfl
      · refine SInv_setM hI.sy (by simpa using hnrec) ?_
        intro q hq
        rcases List.mem_append.mp hq with h' | h'
        · exact hI.sy.mwaited m q h'
        · simp at h'; subst h'; rfl
      · -- the actor goes on MUTEX_WAIT (still in transit), then enters the queue
        have hact1 : (setPend o.s i a (.mutexWait m)).actors
            = modifyAt o.s.actors i (fun _ => { a with pend := some (.mutexWait m) }) := rfl
        have h1 : LInvH (setPend o.s i a (.mutexWait m)) [i] :=
          act_set hopen hact1 (fun p => queueOf_actors _ _ rfl rfl rfl p) ha (by simp) hpid hops
        have h2 := obj_push (s' := setPend (setM o.s m (absM { o.w.mutexes m with
            queue := (o.w.mutexes m).queue ++ [{ issuer := i, waited := true, res := .unit }] })) i a (.mutexWait m))
          (P := .mutexWait m) h1 rfl (by
            intro p
            have e1 : ∀ (X : State) (q : Pend), queueOf (setPend X i a (.mutexWait m)) q = queueOf X q :=
              fun X q => queueOf_actors _ _ rfl rfl rfl q
            rw [e1, e1, e1, queueOf_setM _ _ _ hm]
            by_cases e : p = .mutexWait m
            · subst e; simp [queueOf, hqM, absM]
            · simp [e]) (by simp) (pendOf_upd_eq hact1 ha)
        simpa using h2
  · simp [oLock, hm] at h


theorem modifyAt_self {α : Type} : ∀ (l : List α) (i : Nat) (x : α), l[i]? = some x → modifyAt l i (fun _ => x) = l
  | [], _, _, h => by simp at h
  | a :: t, 0, x, h => by simp at h; subst h; rfl
  | a :: t, i + 1, x, h => by
    simp only [List.getElem?_cons_succ] at h
    simp [modifyAt, modifyAt_self t i x h]

theorem sync_step_trylock (w : Sync.World) (i m : Nat) :
    w.step (.tryLock i m) = .ok ({ w with mutexes := Sync.upd w.mutexes m ((w.mutexes m).tryLock i).1 },
                                 [(i, .flag ((w.mutexes m).tryLock i).2)]) := rfl

theorem lts_trylock {s : State} {i m : Nat} {a : Actor} (ha : s.actors[i]? = some a) (herr : s.err = 0)
    (hpid : a.pid ≠ 0) (hp : a.pend = some (.mutexTrylock m)) :
    (labelAt s i 0).isSome = true ∧ step s i 0 = execPend s i a (.mutexTrylock m) 0 :=
  step_enabled ha hp herr hpid (by simp [pendEnabled]) (by simp [maxConsider])

theorem trylock_sound {o : OState} {i m : Nat} {a : Actor} (hR : R o) (hI : Inv o) (ha : o.s.actors[i]? = some a)
    (herr : o.s.err = 0) (hp : a.pend = some (.mutexTrylock m))
    {o' : OState} {path : Path} (h : oTrylock o i a m = some (o', path)) :
    execPath o.s path = some o'.s ∧ R o' ∧ Inv o' := by
  have hpid := hI.lt.pid i a ha
  have hops := hI.lt.ops i a ha
  by_cases hm : m < o.s.mutexes.length
  · simp only [oTrylock, hm, ↓reduceIte, sync_step_trylock, upd_same, Option.some.injEq, Prod.mk.injEq] at h
    obtain ⟨rfl, rfl⟩ := h
    have hx0 : o.s.mutexes[m]? = some (o.s.mutexes[m]) := List.getElem?_eq_getElem hm
    have hx := hR.rm m _ hx0
    have hnrec := hI.sy.nrec m
    obtain ⟨hlab, hstep⟩ := lts_trylock ha herr hpid hp
    have hpi : pendOf o.s i = some (.mutexTrylock m) := by rw [pendOf_of_get ha, hp]
    have hopen := hole_open hI.lt hpi rfl
    have hqM : queueM o.s m = (o.w.mutexes m).queue.map (·.issuer) := by
      simp [queueM, hx0, hx, absM]
    have hmo : mutexOwner o.s m = (o.w.mutexes m).owner := by simp [mutexOwner, hx0, hx, absM]
    -- the new mutex keeps its queue and its `recursive` flag
    have hq' : ((o.w.mutexes m).tryLock i).1.queue = (o.w.mutexes m).queue := by
      simp only [Sync.Mutex.tryLock]; repeat' split
      all_goals rfl
    have hr' : ((o.w.mutexes m).tryLock i).1.recursive = false := by
      simp only [Sync.Mutex.tryLock]; repeat' split
      all_goals exact hnrec
    have hs2 : finishStep (setM o.s m (absM ((o.w.mutexes m).tryLock i).1)) i
          { a with obs := a.obs ++ [if ((o.w.mutexes m).tryLock i).2 = true then 1 else 0] } = step o.s i 0 := by
      rw [hstep]
      simp only [execPend, hmo]
      cases hown : (o.w.mutexes m).owner with
      | none =>
        have : (o.w.mutexes m).tryLock i = ({ o.w.mutexes m with owner := some i, depth := 1 }, true) := by
          simp [Sync.Mutex.tryLock, hown]
        rw [this]; simp only [setM, if_true]
        congr 2
        apply modifyAt_congr _ _ _ _ _ hx0
        rw [hx]; simp [absM]
      | some x =>
        have : (o.w.mutexes m).tryLock i = (o.w.mutexes m, false) := by
          simp [Sync.Mutex.tryLock, hown, hnrec]
        rw [this]; simp only [setM, ← hx]
        rw [modifyAt_self _ _ _ hx0]
        rfl
    refine ⟨?_, ?_, ?_, ?_⟩
    · rw [execPath_cons hlab, ← hs2]; rfl
    · exact R_setM hR (by simp [setM]) (by simp [setM]) (by simp [setM])
    · exact SInv_setM hI.sy hr' (by rw [hq']; exact hI.sy.mwaited m)
    · have h1 : LInvH (setM o.s m (absM ((o.w.mutexes m).tryLock i).1)) [i] := by
        refine obj_same hopen rfl ?_
        intro p
        rw [queueOf_setM _ _ _ hm]
        by_cases e : p = .mutexWait m
        · subst e; simp [queueOf, hqM, absM, hq']
        · simp [e]
      exact LInv_finish h1 (a := a) (by simpa using ha) hpid hops
  · simp [oTrylock, hm] at h


theorem sync_step_unlock (w : Sync.World) (i m : Nat) :
    w.step (.unlock i m) =
      match (w.mutexes m).unlock i with
      | .error e => .error e
      | .ok (mu, fin) => .ok ({ w with mutexes := Sync.upd w.mutexes m mu },
                              (match fin with | some o => [o] | none => []) ++ [(i, .unit)]) := rfl

theorem lts_unlock {s : State} {i m : Nat} {a : Actor} (ha : s.actors[i]? = some a) (herr : s.err = 0)
    (hpid : a.pid ≠ 0) (hp : a.pend = some (.mutexUnlock m)) :
    (labelAt s i 0).isSome = true ∧ step s i 0 = execPend s i a (.mutexUnlock m) 0 :=
  step_enabled ha hp herr hpid (by simp [pendEnabled]) (by simp [maxConsider])

theorem unlock_sound {o : OState} {i m : Nat} {a : Actor} (hR : R o) (hI : Inv o) (ha : o.s.actors[i]? = some a)
    (herr : o.s.err = 0) (hp : a.pend = some (.mutexUnlock m))
    {o' : OState} {path : Path} (h : oUnlock o i a m = some (o', path)) :
    execPath o.s path = some o'.s ∧ R o' ∧ Inv o' := by
  have hpid := hI.lt.pid i a ha
  have hops := hI.lt.ops i a ha
  by_cases hm : m < o.s.mutexes.length
  · simp only [oUnlock, hm, ↓reduceIte, sync_step_unlock] at h
    have hx0 : o.s.mutexes[m]? = some (o.s.mutexes[m]) := List.getElem?_eq_getElem hm
    have hx := hR.rm m _ hx0
    have hnrec := hI.sy.nrec m
    obtain ⟨hlab, hstep⟩ := lts_unlock ha herr hpid hp
    have hpi : pendOf o.s i = some (.mutexUnlock m) := by rw [pendOf_of_get ha, hp]
    have hopen := hole_open hI.lt hpi rfl
    have hqM : queueM o.s m = (o.w.mutexes m).queue.map (·.issuer) := by
      simp [queueM, hx0, hx, absM]
    have hmo : mutexOwner o.s m = (o.w.mutexes m).owner := by simp [mutexOwner, hx0, hx, absM]
    by_cases hown : (o.w.mutexes m).owner = some i
    · -- the unlocker owns the mutex
      cases hqueue : (o.w.mutexes m).queue with
      | nil =>
        have hu : (o.w.mutexes m).unlock i = .ok ({ o.w.mutexes m with owner := none, depth := (o.w.mutexes m).depth }, none) := by
          simp [Sync.Mutex.unlock, hown, hnrec, hqueue]
        rw [hu] at h
        simp only [List.nil_append, upd_same, Option.some.injEq, Prod.mk.injEq] at h
        obtain ⟨rfl, rfl⟩ := h
        have hs2 : finishStep (setM o.s m (absM { o.w.mutexes m with owner := none, depth := (o.w.mutexes m).depth })) i a
            = step o.s i 0 := by
          rw [hstep]; simp only [execPend, hmo, hown, if_true, setM]
          congr 2
          apply modifyAt_congr _ _ _ _ _ hx0
          rw [hx]; simp [mutexRelease, absM, hqueue]
        refine ⟨?_, ?_, ?_, ?_⟩
        · rw [execPath_cons hlab, ← hs2]; rfl
        · exact R_setM hR (by simp [setM]) (by simp [setM]) (by simp [setM])
        · exact SInv_setM hI.sy (by simpa using hnrec) (by simpa using hI.sy.mwaited m)
        · have h1 : LInvH (setM o.s m (absM { o.w.mutexes m with owner := none, depth := (o.w.mutexes m).depth })) [i] := by
            refine obj_same hopen rfl ?_
            intro p
            rw [queueOf_setM _ _ _ hm]
            by_cases e : p = .mutexWait m
            · subst e; simp [queueOf, hqM, absM]
            · simp [e]
          exact LInv_finish h1 (a := a) (by simpa using ha) hpid hops
      | cons acq rest =>
        have hwt : acq.waited = true := hI.sy.mwaited m acq (by rw [hqueue]; simp)
        have hu : (o.w.mutexes m).unlock i
            = .ok ({ o.w.mutexes m with owner := some acq.issuer, depth := acq.depth, queue := rest },
                   some (acq.issuer, acq.res)) := by
          simp [Sync.Mutex.unlock, hown, hnrec, hqueue, hwt]
        rw [hu] at h
        simp only [List.cons_append, List.nil_append, upd_same, Option.some.injEq, Prod.mk.injEq] at h
        obtain ⟨rfl, rfl⟩ := h
        have hqM' : queueM o.s m = acq.issuer :: rest.map (·.issuer) := by rw [hqM, hqueue]; rfl
        have hjq : acq.issuer ∈ queueOf o.s (.mutexWait m) := by simp [queueOf, hqM']
        have hpj := ((hI.lt.qs (.mutexWait m)).2 _ hjq).2
        have hji : acq.issuer ≠ i := by
          intro e; rw [e, hpi] at hpj; cases hpj
        obtain ⟨aj, haj, hpaj⟩ : ∃ aj, o.s.actors[acq.issuer]? = some aj ∧ aj.pend = some (.mutexWait m) := by
          simp only [pendOf] at hpj
          cases hh : o.s.actors[acq.issuer]? with
          | none => simp [hh] at hpj
          | some aj => simp [hh] at hpj; exact ⟨aj, rfl, hpj⟩
        have hnd : (acq.issuer :: rest.map (·.issuer)).Nodup := by
          have := (hI.lt.qs (.mutexWait m)).1; simpa [queueOf, hqM'] using this
        have hs2 : finishStep (setM o.s m (absM { o.w.mutexes m with owner := some acq.issuer, depth := acq.depth, queue := rest })) i a
            = step o.s i 0 := by
          rw [hstep]; simp only [execPend, hmo, hown, if_true, setM]
          congr 2
          apply modifyAt_congr _ _ _ _ _ hx0
          rw [hx]; simp [mutexRelease, absM, hqueue]
        have hadv := advance_cov (setM o.s m (absM { o.w.mutexes m with owner := some acq.issuer, depth := acq.depth, queue := rest })) i a a.todo hops
        have hact2 := finishStep_actors (setM o.s m (absM { o.w.mutexes m with owner := some acq.issuer, depth := acq.depth, queue := rest })) i a
        rw [hs2] at hact2
        have haj2 : (step o.s i 0).actors[acq.issuer]? = some aj := by
          rw [get_upd_ne hact2 hji]; exact haj
        have herr2 : (step o.s i 0).err = 0 := by
          rw [← hs2, finishStep_err _ _ _ hadv.1]; exact herr
        have hm2 : (step o.s i 0).mutexes = modifyAt o.s.mutexes m (fun _ => absM { o.w.mutexes m with owner := some acq.issuer, depth := acq.depth, queue := rest }) := by
          rw [← hs2]; simp [setM]
        have hse2 : (step o.s i 0).sems = o.s.sems := by rw [← hs2]; simp [setM]
        have hba2 : (step o.s i 0).bars = o.s.bars := by rw [← hs2]; simp [setM]
        have hen : pendEnabled (step o.s i 0) acq.issuer (.mutexWait m) = true := by
          simp only [pendEnabled, hm2, modifyAt_get_eq, hx0, Option.map_some, absM]
          have : acq.issuer ∉ rest.map (·.issuer) := (List.nodup_cons.mp hnd).1
          simp [this]
        obtain ⟨hlab2, hstep2⟩ := lts_wait haj2 herr2 (hI.lt.pid _ aj haj) hpaj (Or.inl ⟨m, rfl⟩) hen
        have hw : wake (step o.s i 0) acq.issuer = finishStep (step o.s i 0) acq.issuer aj := by simp [wake, haj2]
        refine ⟨?_, ?_, ?_, ?_⟩
        · rw [execPath_cons hlab, execPath_cons hlab2, hstep2, hs2]; rfl
        · rw [hs2, hw]
          exact R_setM hR (by simp [hm2]) (by simp [hse2]) (by simp [hba2])
        · refine SInv_setM hI.sy (by simpa using hnrec) ?_
          intro q hq
          exact hI.sy.mwaited m q (by rw [hqueue]; exact List.mem_cons_of_mem _ hq)
        · rw [hs2, hw]
          have h1 : LInvH (setM o.s m (absM { o.w.mutexes m with owner := some acq.issuer, depth := acq.depth, queue := rest }))
              ([acq.issuer] ++ [i]) := by
            refine obj_drop (P := .mutexWait m) (pre := [acq.issuer]) (t := rest.map (·.issuer)) hopen rfl
              (by simp [queueOf, hqM']) ?_
            intro p
            rw [queueOf_setM _ _ _ hm]
            by_cases e : p = .mutexWait m
            · subst e; simp [absM]
            · simp [e]
          have h2 := LInvH_finish h1 (i := i) (a := a) (a1 := a) (by simp) (by simpa using ha) hpid hops
          rw [hs2] at h2
          have h3 := LInvH_finish h2 (i := acq.issuer) (a := aj) (a1 := aj) (by simp [hji]) haj2
            (hI.lt.pid _ aj haj) (hI.lt.ops _ aj haj)
          simpa [hji] using h3
    · -- xbt_assert(issuer == owner_)
      have hu : (o.w.mutexes m).unlock i = .error .assertNotOwner := by
        simp [Sync.Mutex.unlock, hown]
      rw [hu] at h
      simp only [Option.some.injEq, Prod.mk.injEq] at h
      obtain ⟨rfl, rfl⟩ := h
      have hs2 : crash o.s i a = step o.s i 0 := by
        rw [hstep]; simp [execPend, hmo, hown]
      refine ⟨?_, ?_, hI.sy, ?_⟩
      · rw [execPath_cons hlab, ← hs2]; rfl
      · exact ⟨hR.rm, hR.rs, hR.rb⟩
      · have hact : (crash o.s i a).actors = modifyAt o.s.actors i (fun _ => { a with pend := none }) := rfl
        have h1 := act_set hopen hact (fun p => queueOf_actors _ _ rfl rfl rfl p) ha (by simp) hpid hops
        have h2 := hole_close (i := i) h1 (by
          intro p hp'
          rw [pendOf_upd_eq hact ha] at hp'
          cases hp')
        simpa using h2
  · simp [oUnlock, hm] at h


end SgVerif.C14
