/-
C14 — refinement, barriers: `Barrier::wait` in one simcall = BARRIER_ASYNC_LOCK, then — when the group is complete — the
BARRIER_WAIT of every released waiter in queue order, then the caller's own BARRIER_WAIT.  Core only.
-/
import SgVerif.C14.RefineSem
namespace SgVerif.C14
open SgVerif.McRef

/-! ### Sync-level computations -/

theorem markB_fresh (a : Nat) (q : List Sync.BAcq) (hq : ∀ x ∈ q, x.issuer ≠ a) :
    Sync.markB a (q ++ [{ issuer := a }]) = q ++ [{ issuer := a, waited := true }] := by
  induction q with
  | nil => simp [Sync.markB]
  | cons x xs ih =>
    have hx : x.issuer ≠ a := hq x (by simp)
    simp only [List.cons_append, Sync.markB, hx, if_false]
    rw [ih (fun y hy => hq y (by simp [hy]))]

theorem bar_threshold (B : Sync.Bar) (h1 : 1 ≤ B.expected) (h2 : B.expected < 4294967296) :
    B.threshold = B.expected - 1 := by
  unfold Sync.Bar.threshold; omega

/-- `Sync.World.step (.barWait ..)` for a given result `r` of `acquire_async` (kept abstract: its 2^32 literals do not
reduce symbolically) -/
theorem sync_step_barWait (w : Sync.World) (i b : Nat) (r : Sync.Bar × Bool × List Sync.BAcq)
    (hr : (w.bars b).acquireAsync i = r) :
    w.step (.barWait i b) =
      .ok ({ w with bars := Sync.upd w.bars b (r.1.waitFor i r.2.1).1,
                    hgrant := Sync.grantUnwaitedB w.hgrant r.2.2 },
           ((r.2.2.filter (·.waited)).map (fun q => (q.issuer, Sync.Res.flag false))) ++
             (if (r.1.waitFor i r.2.1).2 then [(i, .flag (r.1.waitFor i r.2.1).1.wasLast)] else [])) := by
  have h0 : w.step (.barWait i b) = .ok (Sync.barWaitStepR w i b ((w.bars b).acquireAsync i)) := rfl
  rw [h0, hr]
  rfl

/-! ### queues, `R`, `SInv` under a barrier update -/

theorem queueOf_setB (s : State) (b : Nat) (ba : McRef.Bar) (hb : b < s.bars.length) (p : Pend) :
    queueOf (setB s b ba) p = if p = .barWait b then ba.queue else queueOf s p := by
  cases p <;> simp [queueOf, queueM, queueS, setB]
  case barWait b' =>
    by_cases e : b' = b
    · subst e; simp [queueB, modifyAt_get_eq, List.getElem?_eq_getElem hb]
    · simp [queueB, modifyAt_get_ne _ _ _ _ (Ne.symm e), e]

theorem R_setB {o : OState} {b : Nat} {B' : Sync.Bar} {s' : State} (hg : Nat → Bool) (hR : R o)
    (h1 : s'.bars = modifyAt o.s.bars b (fun _ => absB B')) (h2 : s'.mutexes = o.s.mutexes) (h3 : s'.sems = o.s.sems) :
    R { w := { o.w with bars := Sync.upd o.w.bars b B', hgrant := hg }, s := s' } := by
  refine ⟨?_, ?_, ?_⟩
  · intro m mu hmu; simp only [h2] at hmu; exact hR.rm m mu hmu
  · intro k se hse; simp only [h3] at hse; exact hR.rs k se hse
  · intro b' ba hba
    simp only [h1] at hba
    by_cases e : b' = b
    · subst e
      rw [modifyAt_get_eq] at hba
      simp only [upd_same]
      cases hx : o.s.bars[b']? with
      | none => simp [hx] at hba
      | some x => simp [hx] at hba; exact hba.symm
    · rw [modifyAt_get_ne _ _ _ _ (Ne.symm e)] at hba
      simp only [upd_other _ _ _ _ e]
      exact hR.rb b' ba hba

theorem SInv_setB {w : Sync.World} {b : Nat} {B' : Sync.Bar} (hg : Nat → Bool) (hS : SInv w)
    (h2 : ∀ q ∈ B'.queue, q.waited = true) : SInv { w with bars := Sync.upd w.bars b B', hgrant := hg } := by
  refine ⟨hS.nrec, hS.mwaited, hS.swaited, ?_⟩
  intro b'
  by_cases e : b' = b
  · subst e; simpa [upd_same] using h2
  · simpa [upd_other _ _ _ _ e] using hS.bwaited b'

theorem lts_barAsync {s : State} {i b : Nat} {a : Actor} (ha : s.actors[i]? = some a) (herr : s.err = 0)
    (hpid : a.pid ≠ 0) (hp : a.pend = some (.barAsyncLock b)) :
    (labelAt s i 0).isSome = true ∧
    step s i 0 = setPend { s with bars := modifyAt s.bars b (fun ba => barAcquireAsync ba i) } i a (.barWait b) := by
  have := step_enabled ha hp herr hpid (by simp [pendEnabled]) (by simp [maxConsider])
  exact ⟨this.1, by rw [this.2]; simp [execPend]⟩

/-! ### the released group runs on: a list of BARRIER_WAITs, all enabled -/

theorem filter_ne_head (j : Nat) (l : List Nat) (h : j ∉ l) : (j :: l).filter (· ≠ j) = l := by
  simp only [List.filter_cons, ne_eq, not_true_eq_false, decide_false, Bool.false_eq_true, if_false]
  apply List.filter_eq_self.mpr
  intro x hx
  simp only [decide_eq_true_eq]
  intro e; exact h (e ▸ hx)

theorem wakeAll_sound (b : Nat) : ∀ (outs : Sync.Outs) (s : State), s.err = 0 →
    (∃ ba, s.bars[b]? = some ba ∧ ba.queue = []) →
    (outs.map (·.1)).Nodup → LInvH s (outs.map (·.1)) →
    (∀ j ∈ outs.map (·.1), pendOf s j = some (.barWait b)) →
    execPath s (pathOf outs) = some (wakeAll s outs) ∧ LInv (wakeAll s outs) ∧
    (wakeAll s outs).mutexes = s.mutexes ∧ (wakeAll s outs).sems = s.sems ∧ (wakeAll s outs).bars = s.bars
  | [], s, _, _, _, hI, _ => ⟨rfl, hI, rfl, rfl, rfl⟩
  | (j, r) :: rest, s, herr, hbar, hnd, hI, hpend => by
    simp only [List.map_cons, List.nodup_cons] at hnd
    have hpj := hpend j (by simp)
    obtain ⟨aj, haj, hpaj⟩ : ∃ aj, s.actors[j]? = some aj ∧ aj.pend = some (.barWait b) := by
      simp only [pendOf] at hpj
      cases hh : s.actors[j]? with
      | none => simp [hh] at hpj
      | some aj => simp [hh] at hpj; exact ⟨aj, rfl, hpj⟩
    have hpid := hI.pid j aj haj
    have hops := hI.ops j aj haj
    obtain ⟨ba, hba, hbq⟩ := hbar
    have hen : pendEnabled s j (.barWait b) = true := by simp [pendEnabled, hba, hbq]
    obtain ⟨hlab, hstep⟩ := lts_wait haj herr hpid hpaj (Or.inr (Or.inr ⟨b, rfl⟩)) hen
    have hw : wake s j = finishStep s j aj := by simp [wake, haj]
    have hadv := advance_cov s j aj aj.todo hops
    have hact := finishStep_actors s j aj
    have herr1 : (finishStep s j aj).err = 0 := by rw [finishStep_err _ _ _ hadv.1]; exact herr
    have hI1 : LInvH (finishStep s j aj) (rest.map (·.1)) := by
      have h' : LInvH (finishStep s j aj) ((j :: rest.map (·.1)).filter (· ≠ j)) :=
        LInvH_finish hI (i := j) (a := aj) (a1 := aj) (by simp) haj hpid hops
      rw [filter_ne_head j _ hnd.1] at h'
      exact h'
    have hpend1 : ∀ j' ∈ rest.map (·.1), pendOf (finishStep s j aj) j' = some (.barWait b) := by
      intro j' hj'
      have hne : j' ≠ j := fun e => hnd.1 (e ▸ hj')
      rw [pendOf_upd_ne hact hne]
      exact hpend j' (by simp [hj'])
    obtain ⟨e1, e2, e3, e4, e5⟩ := wakeAll_sound b rest (finishStep s j aj) herr1
      ⟨ba, by simpa using hba, hbq⟩ hnd.2 hI1 hpend1
    have hwa : wakeAll s ((j, r) :: rest) = wakeAll (finishStep s j aj) rest := by
      simp only [wakeAll, List.foldl_cons, hw]
    have hpath : pathOf ((j, r) :: rest) = (j, 0) :: pathOf rest := rfl
    rw [hwa, hpath, execPath_cons hlab, hstep, hw]
    exact ⟨e1, e2, by simpa using e3, by simpa using e4, by simpa using e5⟩

theorem bar_lts_queued (B : Sync.Bar) (i : Nat) (hlt : (absB B).queue.length < (absB B).expected - 1) :
    barAcquireAsync (absB B) i = absB { B with queue := B.queue ++ [{ issuer := i, waited := true }] } := by
  simp only [barAcquireAsync, hlt, if_true]
  simp [absB]

theorem bar_lts_last (B : Sync.Bar) (i : Nat) (hlt : ¬ (absB B).queue.length < (absB B).expected - 1) :
    barAcquireAsync (absB B) i = absB { B with queue := [] } := by
  simp only [barAcquireAsync, hlt, if_false]
  simp [absB]

/-! ### Barrier::wait -/

theorem barrier_sound {o : OState} {i b : Nat} {a : Actor} (hR : R o) (hI : Inv o) (ha : o.s.actors[i]? = some a)
    (herr : o.s.err = 0) (hp : a.pend = some (.barAsyncLock b))
    {o' : OState} {path : Path} (h : oBarrier o i a b = some (o', path)) :
    execPath o.s path = some o'.s ∧ R o' ∧ Inv o' := by
  have hpid := hI.lt.pid i a ha
  have hops := hI.lt.ops i a ha
  unfold oBarrier at h
  cases hx0 : o.s.bars[b]? with
  | none => simp [hx0] at h
  | some ba =>
    simp only [hx0] at h
    by_cases hexp : 1 ≤ ba.expected ∧ ba.expected < 4294967296
    · simp only [hexp, and_self, ↓reduceIte] at h
      have hb : b < o.s.bars.length := by
        have := List.getElem?_eq_some_iff.mp hx0
        exact this.1
      have hx := hR.rb b _ hx0
      have hexpB : (o.w.bars b).expected = ba.expected := by rw [hx]; rfl
      have hthr : (o.w.bars b).threshold = ba.expected - 1 := by
        rw [bar_threshold _ (by rw [hexpB]; exact hexp.1) (by rw [hexpB]; exact hexp.2), hexpB]
      obtain ⟨hlab, hstep⟩ := lts_barAsync ha herr hpid hp
      have hpi : pendOf o.s i = some (.barAsyncLock b) := by rw [pendOf_of_get ha, hp]
      have hopen := hole_open hI.lt hpi rfl
      have hiq : i ∉ queueB o.s b := fun hmem => by
        have := ((hI.lt.qs (.barWait b)).2 i hmem).2
        rw [hpi] at this; cases this
      have hqB : queueB o.s b = (o.w.bars b).queue.map (·.issuer) := by
        simp [queueB, hx0, hx, absB]
      have hbaq : ba.queue = (o.w.bars b).queue.map (·.issuer) := by rw [hx]; rfl
      have hfresh : ∀ x ∈ (o.w.bars b).queue, x.issuer ≠ i := by
        intro x hxm e
        apply hiq
        rw [hqB, ← e]
        exact List.mem_map_of_mem hxm
      by_cases hlt : (o.w.bars b).queue.length < (o.w.bars b).threshold
      · -- the group is not complete: the caller queues
        have hacq : (o.w.bars b).acquireAsync i =
            ({ o.w.bars b with queue := (o.w.bars b).queue ++ [{ issuer := i }] }, false, []) := by
          simp [Sync.Bar.acquireAsync, hlt]
        rw [sync_step_barWait _ i b _ hacq] at h
        simp only [Sync.Bar.waitFor, Bool.false_eq_true, if_false, markB_fresh i _ hfresh, List.filter_nil,
          List.map_nil, List.append_nil, wakeAll, pathOf, List.foldl, List.map, upd_same, Option.some.injEq,
          Prod.mk.injEq, Sync.grantUnwaitedB] at h
        obtain ⟨rfl, rfl⟩ := h
        have hlt' : (absB (o.w.bars b)).queue.length < (absB (o.w.bars b)).expected - 1 := by
          show ((o.w.bars b).queue.map (·.issuer)).length < (o.w.bars b).expected - 1
          rw [List.length_map, hexpB, ← hthr]; exact hlt
        have hmod : modifyAt o.s.bars b (fun ba => barAcquireAsync ba i) =
            modifyAt o.s.bars b (fun _ => absB { o.w.bars b with
              queue := (o.w.bars b).queue ++ [{ issuer := i, waited := true }] }) :=
          modifyAt_congr _ _ _ _ _ hx0 (by rw [hx]; exact bar_lts_queued _ i hlt')
        have hs2 : setPend (setB o.s b (absB { o.w.bars b with
              queue := (o.w.bars b).queue ++ [{ issuer := i, waited := true }] })) i a (.barWait b)
            = step o.s i 0 := by
          rw [hstep, hmod]; rfl
        refine ⟨?_, ?_, ?_, ?_⟩
        · rw [execPath_cons hlab, hs2]; rfl
        · exact R_setB _ hR rfl rfl rfl
        · refine SInv_setB _ hI.sy ?_
          intro q hq
          rcases List.mem_append.mp hq with h' | h'
          · exact hI.sy.bwaited b q h'
          · simp at h'; subst h'; rfl
        · have hact1 : (setPend o.s i a (.barWait b)).actors
              = modifyAt o.s.actors i (fun _ => { a with pend := some (.barWait b) }) := rfl
          have h1 : LInvH (setPend o.s i a (.barWait b)) [i] :=
            act_set hopen hact1 (fun p => queueOf_actors _ _ rfl rfl rfl p) ha (by simp) hpid hops
          have h2 := obj_push (s' := setPend (setB o.s b (absB { o.w.bars b with
              queue := (o.w.bars b).queue ++ [{ issuer := i, waited := true }] })) i a (.barWait b))
            (P := .barWait b) h1 rfl (by
              intro p
              have e1 : ∀ (X : State) (q : Pend), queueOf (setPend X i a (.barWait b)) q = queueOf X q :=
                fun X q => queueOf_actors _ _ rfl rfl rfl q
              rw [e1, e1, e1, queueOf_setB _ _ _ hb]
              by_cases e : p = .barWait b
              · subst e; simp [queueOf, hqB, absB]
              · simp [e]) (by simp) (pendOf_upd_eq hact1 ha)
          simpa using h2
      · -- the caller completes the group: everybody is released, in queue order, then the caller
        have hacq : (o.w.bars b).acquireAsync i = ({ o.w.bars b with queue := [] }, true, (o.w.bars b).queue) := by
          simp [Sync.Bar.acquireAsync, hlt]
        rw [sync_step_barWait _ i b _ hacq] at h
        have hall : (o.w.bars b).queue.filter (·.waited) = (o.w.bars b).queue :=
          List.filter_eq_self.mpr (fun q hq => hI.sy.bwaited b q hq)
        simp only [Sync.Bar.waitFor, if_true, hall, Sync.Bar.wasLast, List.isEmpty_nil, upd_same,
          Option.some.injEq, Prod.mk.injEq] at h
        obtain ⟨rfl, rfl⟩ := h
        have hlt' : ¬ (absB (o.w.bars b)).queue.length < (absB (o.w.bars b)).expected - 1 := by
          show ¬ ((o.w.bars b).queue.map (·.issuer)).length < (o.w.bars b).expected - 1
          rw [List.length_map, hexpB, ← hthr]; exact hlt
        have hmod : modifyAt o.s.bars b (fun ba => barAcquireAsync ba i) =
            modifyAt o.s.bars b (fun _ => absB { o.w.bars b with queue := [] }) :=
          modifyAt_congr _ _ _ _ _ hx0 (by rw [hx]; exact bar_lts_last _ i hlt')
        have hs2 : setPend (setB o.s b (absB { o.w.bars b with queue := [] })) i a (.barWait b) = step o.s i 0 := by
          rw [hstep, hmod]; rfl
        have houts : ((o.w.bars b).queue.map (fun q => (q.issuer, Sync.Res.flag false)) ++
            [(i, Sync.Res.flag true)]).map (·.1) = queueB o.s b ++ [i] := by
          simp [hqB, List.map_map, Function.comp_def]
        have hndq := (hI.lt.qs (.barWait b)).1
        simp only [queueOf] at hndq
        have hnd : (queueB o.s b ++ [i]).Nodup := by
          rw [List.nodup_append]
          refine ⟨hndq, by simp, ?_⟩
          intro x hx' y hy
          simp only [List.mem_singleton] at hy; subst hy
          intro e; exact hiq (e ▸ hx')
        have hact2 : (step o.s i 0).actors = modifyAt o.s.actors i (fun _ => { a with pend := some (.barWait b) }) := by
          rw [← hs2]; simp
        have hb2 : (step o.s i 0).bars = modifyAt o.s.bars b (fun _ => absB { o.w.bars b with queue := [] }) := by
          rw [← hs2]; rfl
        have hmu2 : (step o.s i 0).mutexes = o.s.mutexes := by rw [← hs2]; rfl
        have hse2 : (step o.s i 0).sems = o.s.sems := by rw [← hs2]; rfl
        have herr2 : (step o.s i 0).err = 0 := by rw [← hs2]; simpa using herr
        have hbar2 : ∃ ba', (step o.s i 0).bars[b]? = some ba' ∧ ba'.queue = [] :=
          ⟨absB { o.w.bars b with queue := [] }, by rw [hb2]; simp [modifyAt_get_eq, hx0], rfl⟩
        have hI2 : LInvH (step o.s i 0) (queueB o.s b ++ [i]) := by
          have h1 : LInvH (setB o.s b (absB { o.w.bars b with queue := [] })) (queueB o.s b ++ [i]) := by
            refine obj_drop (P := .barWait b) (pre := queueB o.s b) (t := []) hopen rfl (by simp [queueOf]) ?_
            intro p
            rw [queueOf_setB _ _ _ hb]
            by_cases e : p = .barWait b
            · subst e; simp [absB]
            · simp [e]
          have hq2 : ∀ p, queueOf (step o.s i 0) p = queueOf (setB o.s b (absB { o.w.bars b with queue := [] })) p :=
            fun p => queueOf_actors _ _ (by rw [hmu2]; rfl) (by rw [hse2]; rfl) (by rw [hb2]; rfl) p
          exact act_set h1 hact2 hq2 (a0 := a) (by simpa using ha) (by simp) hpid hops
        have hpend2 : ∀ j ∈ queueB o.s b ++ [i], pendOf (step o.s i 0) j = some (.barWait b) := by
          intro j hj
          rcases List.mem_append.mp hj with hj | hj
          · have hne : j ≠ i := fun e => hiq (e ▸ hj)
            rw [pendOf_upd_ne hact2 hne]
            exact ((hI.lt.qs (.barWait b)).2 j (by simpa [queueOf] using hj)).2
          · simp only [List.mem_singleton] at hj
            subst hj
            rw [pendOf_upd_eq hact2 ha]
        obtain ⟨e1, e2, e3, e4, e5⟩ := wakeAll_sound b _ (step o.s i 0) herr2 hbar2 (by rw [houts]; exact hnd)
          (by rw [houts]; exact hI2) (by rw [houts]; exact hpend2)
        refine ⟨?_, ?_, ?_, ?_⟩
        · rw [execPath_cons hlab, hs2]; exact e1
        · rw [hs2]
          exact R_setB _ hR (by rw [e5, hb2]) (by rw [e3, hmu2]) (by rw [e4, hse2])
        · exact SInv_setB _ hI.sy (by simp)
        · rw [hs2]; exact e2
    · simp [hexp] at h

end SgVerif.C14
