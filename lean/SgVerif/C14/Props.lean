/-
C14 — real runs conform to the reference interleaving semantics: the property theorems.

Full statement (DESIGN §8 C14): for every synchronisation-only program `p` of the mini-language and every history `h`
(the order in which maestro handles the simcalls of a normal run), if the one-simcall machine accepts `h` and ends in
`o`, then `o.s` is reachable in the split-transition reference LTS (`engine_run_reachable`); if `o` is stuck then `o.s`
is a deadlock state of the LTS (`deadlock_report_sound`); hence a program without reachable deadlock never gets stuck
(`no_reachable_deadlock_never_reported`).

What is PROVED here, for all programs, all histories, no bound on actors / operations / objects:
  * object kinds covered: MUTEXES (lock, try_lock, unlock; non-recursive), SEMAPHORES (acquire, release) and BARRIERS
    (wait; sizes in [1, 2^32)), freely mixed in one program (`SyncOnly` = static actors over these six operations).
    Condition variables and mailboxes are executed by the same machine (`ostep`) and tied to the LTS by the
    correspondence check only (the driver re-checks `execPath o.s path = some o'.s` at every step of every observed
    history).
  * NO hypothesis on the history.  Before the repair of finding `mutex-relock-by-owner-returns`
    (props/C14/fix_series/01-mutex-relock.patch) the theorems needed `NoRelock` (no actor calls `lock()` on a mutex it
    already owns): `MutexAcquisitionImpl::wait_for` tested `mutex_->get_owner() == issuer_` instead of `granted_`, so in
    a normal run the second `lock()` returned at once, whereas under the checker MUTEX_WAIT is enabled only when the
    acquisition is granted (`MutexAcquisitionObserver::is_enabled`).  `wait_for` now tests `granted_`
    (`Sync.Mutex.waitFor`), the second `lock()` blocks, and the statements hold at full strength.  The old behaviour is
    kept as a regression statement about the pre-repair machine `orunPre` of C14/PreFix.lean
    (`single_simcall_is_atomic_split_prefix_counterexample`, `prefix_machine_agrees_without_relock`).
-/
import SgVerif.C14.Main
import SgVerif.C14.PreFix
namespace SgVerif.C14
open SgVerif.McRef

/-- A state of the reference LTS is reachable when some path of enabled split transitions leads to it. -/
def Reachable (p : Program) (s : State) : Prop := ∃ path, execPath (initState p) path = some s

/-- One simcall of a normal run is the atomic composition of the split transitions of the reference LTS:
executing `Mutex::lock` / `try_lock` / `unlock` in ONE kernel step (Sync model) reaches the LTS state reached by
executing `MUTEX_ASYNC_LOCK` then — when granted — `MUTEX_WAIT` (resp. `MUTEX_UNLOCK` then the `MUTEX_WAIT` of the
actor that received the hand-off) back to back; `Semaphore::acquire` = `SEM_ASYNC_LOCK` [+ `SEM_WAIT` when a token was
there], `Semaphore::release` = `SEM_UNLOCK` [+ the `SEM_WAIT` of the head waiter]; `Barrier::wait` =
`BARRIER_ASYNC_LOCK`, and when it completes the group, the `BARRIER_WAIT` of every released waiter in queue order then
the caller's own; every one of these transitions being enabled; and the state correspondence `R` and the invariant are
preserved.  (Mutex, semaphore, barrier operations; any other pending simcall contradicts `Inv`.) -/
theorem single_simcall_is_atomic_split {o o' : OState} {i : Nat} {path : Path} (hR : R o) (hI : Inv o)
    (h : ostep o i = some (o', path)) :
    execPath o.s path = some o'.s ∧ R o' ∧ Inv o' :=
  ostep_sound hR hI h

/-- Every history accepted by the one-simcall machine maps to a path of the reference LTS: the final state of a
normal run is in the reachable set of the LTS. -/
theorem engine_run_reachable (p : Program) (hp : SyncOnly p) (h : List Nat) {o : OState} {path : Path}
    (hr : orun (initO p) h = some (o, path)) :
    execPath (initState p) path = some o.s ∧ Reachable p o.s := by
  obtain ⟨hR, hI⟩ := init_sound p hp
  obtain ⟨e, _, _⟩ := orun_sound h hR hI hr
  exact ⟨e, path, e⟩

/-- If the one-simcall world is stuck (every live actor blocked, nothing enabled: what `EngineImpl::run` reports as a
deadlock), the corresponding LTS state is a deadlock state (no transition enabled, some actor not terminated) — and it
is reachable. -/
theorem deadlock_report_sound (p : Program) (hp : SyncOnly p) (h : List Nat) {o : OState} {path : Path}
    (hr : orun (initO p) h = some (o, path)) (hs : ostuck o = true) :
    isDeadlock o.s = true ∧ Reachable p o.s := by
  obtain ⟨hR, hI⟩ := init_sound p hp
  obtain ⟨e, _, hI'⟩ := orun_sound h hR hI hr
  exact ⟨stuck_is_deadlock hI' hs, path, e⟩

/-- A program with no reachable deadlock never reports one. -/
theorem no_reachable_deadlock_never_reported (p : Program) (hp : SyncOnly p)
    (hnd : ∀ s, Reachable p s → isDeadlock s = false) (h : List Nat) {o : OState} {path : Path}
    (hr : orun (initO p) h = some (o, path)) : ostuck o = false := by
  cases hs : ostuck o with
  | false => rfl
  | true =>
    obtain ⟨hd, hreach⟩ := deadlock_report_sound p hp h hr hs
    rw [hnd o.s hreach] at hd
    cases hd

/-! ### the formerly excluded class: re-lock of a mutex by its owner -/

/-- `H m=1 ; A T0 L0`: try_lock succeeds, then the owner locks again. -/
def relockProg : Program := { nmutex := 1, statics := [[.trylock 0, .lock 0]] }

example : SyncOnly relockProg := by
  refine ⟨rfl, ?_⟩
  decide

/-- The witness of the repaired finding on the current machine: the second `lock()` blocks, the run is stuck, its split
path IS a path of the LTS and ends in a deadlock state (what simgrid-mc always reported for this program). -/
theorem relock_blocks_and_is_a_reference_deadlock :
    (orun (initO relockProg) [0, 0]).map
      (fun r => (r.1.s.actors.map (·.obs), [ostuck r.1, isDeadlock r.1.s, (execPath (initState relockProg) r.2).isSome], r.2))
    = some ([[1]], [true, true, true], [(0, 0), (0, 0)]) := by decide

/-- REGRESSION statement about the code before the repair (`orunPre`, C14/PreFix.lean: owner test in `wait_for`): that
machine (= the real run of the old code) let the second `lock()` return — the actor terminated with observation `[1]` —
but the split path it stands for is NOT a path of the reference LTS (its MUTEX_WAIT is never enabled: the reference
deadlocks).  So on the old code `single_simcall_is_atomic_split` was false without the hypothesis `NoRelock`. -/
theorem single_simcall_is_atomic_split_prefix_counterexample :
    (orunPre (initO relockProg) [0, 0]).map
        (fun r => (r.1.s.actors.map (·.obs), allDone r.1.s, r.2, (execPath (initState relockProg) r.2).isSome))
      = some ([[1]], true, [(0, 0), (0, 0), (0, 0)], false) := by
  decide

/-- the repair touches nothing else: on a step that is not a re-lock by the owner the old and the current machine do
the same -/
theorem prefix_machine_agrees_without_relock {o : OState} {i : Nat} (hI : Inv o) (hok : stepOK o i) :
    ostepPre o i = ostep o i :=
  ostepPre_eq_ostep hI hok

/-! ### non-vacuity -/

/-- lock-order inversion `H m=2 ; A L0 L1 U1 U0 ; A L1 L0 U0 U1` -/
def abba : Program :=
  { nmutex := 2, statics := [[.lock 0, .lock 1, .unlock 1, .unlock 0], [.lock 1, .lock 0, .unlock 0, .unlock 1]] }

example : SyncOnly abba := by
  refine ⟨rfl, ?_⟩
  decide

/-- the history of the real run (round-robin) is accepted and ends stuck: the theorems apply
with a non-trivial conclusion (a reachable deadlock of the LTS) -/
example : (orun (initO abba) [0, 1, 0, 1]).map (fun r => (ostuck r.1, isDeadlock r.1.s, r.2))
    = some (true, true, [(0, 0), (0, 0), (1, 0), (1, 0), (0, 0), (1, 0)]) := by decide

/-- a history with a hand-off: actor 0 takes both, actor 1 queues on mutex 1, actor 0 unlocks it (MUTEX_UNLOCK then
the MUTEX_WAIT of actor 1) -/
example : (orun (initO abba) [0, 0, 1, 0]).map (fun r => (ostuck r.1, r.2))
    = some (false, [(0, 0), (0, 0), (0, 0), (0, 0), (1, 0), (0, 0), (1, 0)]) := by decide

/-- semaphore with one token shared by two actors: `H s=1 ; A A0 R0 ; A A0 R0` -/
def semProg : Program := { sems := [1], statics := [[.acquire 0, .release 0], [.acquire 0, .release 0]] }

/-- two rounds of a barrier of 2: `H b=2 ; A B0 B0 ; A B0 B0` -/
def barProg : Program := { bars := [2], statics := [[.barrier 0, .barrier 0], [.barrier 0, .barrier 0]] }

/-- an incomplete barrier group and a semaphore without token: `H b=3 s=0 ; A B0 ; A A0` -/
def barStuck : Program := { bars := [3], sems := [0], statics := [[.barrier 0], [.acquire 0]] }

example : SyncOnly semProg ∧ SyncOnly barProg ∧ SyncOnly barStuck := by
  refine ⟨⟨rfl, ?_⟩, ⟨rfl, ?_⟩, ⟨rfl, ?_⟩⟩ <;> decide

/-- semaphores: 0 takes the token (SEM_ASYNC_LOCK + SEM_WAIT), 1 queues (SEM_ASYNC_LOCK), the release of 0 serves 1
(SEM_UNLOCK + SEM_WAIT of 1), 1 releases: accepted, everybody done -/
example : (orun (initO semProg) [0, 1, 0, 1]).map (fun r => (ostuck r.1, allDone r.1.s, r.2))
    = some (false, true, [(0, 0), (0, 0), (1, 0), (0, 0), (1, 0), (1, 0)]) := by decide

/-- barriers, two rounds: 0 arrives, 1 completes the group (BARRIER_ASYNC_LOCK of 1, BARRIER_WAIT of 0, BARRIER_WAIT
of 1); second round in the other order -/
example : (orun (initO barProg) [0, 1, 1, 0]).map (fun r => (ostuck r.1, allDone r.1.s, r.2))
    = some (false, true, [(0, 0), (1, 0), (0, 0), (1, 0), (1, 0), (0, 0), (1, 0), (0, 0)]) := by decide

/-- an incomplete group and an empty semaphore: the run is stuck, the LTS state is a (reachable) deadlock -/
example : (orun (initO barStuck) [0, 1]).map (fun r => (ostuck r.1, isDeadlock r.1.s, r.2))
    = some (true, true, [(0, 0), (1, 0)]) := by decide

/-- … e.g. an ordinary history (hand-off) was executed identically by the old machine -/
example : (orunPre (initO abba) [0, 0, 1, 0]).map (fun r => (ostuck r.1, r.2))
    = (orun (initO abba) [0, 0, 1, 0]).map (fun r => (ostuck r.1, r.2)) := by decide

end SgVerif.C14
