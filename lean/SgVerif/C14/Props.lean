import SgVerif.C14.Model
import SgVerif.C14.Explore
namespace SgVerif.C14
open SgVerif.McRef

theorem execPath_nil (s : State) : execPath s [] = some s := rfl

end SgVerif.C14
