/-
C14 — refinement, semaphores: `Semaphore::acquire` in one simcall = SEM_ASYNC_LOCK [+ SEM_WAIT when granted];
`Semaphore::release` = SEM_UNLOCK [+ the SEM_WAIT of the waiter it serves].  Same structure as `lock_sound` /
`unlock_sound` (C14/Refine.lean), without owner.  Core only.
-/
import SgVerif.C14.Refine
namespace SgVerif.C14
open SgVerif.McRef

/-! ### Sync-level computations -/

theorem markS_fresh (a : Nat) (timed : Bool) (q : List Sync.SAcq) (hq : ∀ x ∈ q, x.issuer ≠ a) :
    Sync.markS a timed (q ++ [{ issuer := a }]) = q ++ [{ issuer := a, waited := true, timed := timed }] := by
  induction q with
  | nil => simp [Sync.markS]
  | cons x xs ih =>
    have hx : x.issuer ≠ a := hq x (by simp)
    simp only [List.cons_append, Sync.markS, hx, if_false]
    rw [ih (fun y hy => hq y (by simp [hy]))]

theorem sync_step_acquire (w : Sync.World) (i k : Nat) :
    w.step (.acquire i k false) =
      .ok ({ w with sems := Sync.upd w.sems k (((w.sems k).acquireAsync i).1.waitFor i ((w.sems k).acquireAsync i).2 false).1 },
           Sync.optOut i (((w.sems k).acquireAsync i).1.waitFor i ((w.sems k).acquireAsync i).2 false).2) := rfl

theorem sem_acq_free (S : Sync.Sem) (i : Nat) (hv : 0 < S.value) :
    (S.acquireAsync i).1.waitFor i (S.acquireAsync i).2 false =
      ({ S with value := S.value - 1 }, some (.flag false)) := by
  simp [Sync.Sem.acquireAsync, Sync.Sem.waitFor, hv, Sync.semFinish]

theorem sem_acq_busy (S : Sync.Sem) (i : Nat) (hv : S.value = 0) (hq : ∀ x ∈ S.queue, x.issuer ≠ i) :
    (S.acquireAsync i).1.waitFor i (S.acquireAsync i).2 false =
      ({ S with queue := S.queue ++ [{ issuer := i, waited := true, timed := false }] }, none) := by
  simp [Sync.Sem.acquireAsync, Sync.Sem.waitFor, hv, markS_fresh i false S.queue hq]

/-! ### queues, `R`, `SInv` under a semaphore update -/

theorem queueOf_setS (s : State) (k : Nat) (se : McRef.Sem) (hk : k < s.sems.length) (p : Pend) :
    queueOf (setS s k se) p = if p = .semWait k then se.queue else queueOf s p := by
  cases p <;> simp [queueOf, queueM, queueB, setS]
  case semWait k' =>
    by_cases e : k' = k
    · subst e; simp [queueS, modifyAt_get_eq, List.getElem?_eq_getElem hk]
    · simp [queueS, modifyAt_get_ne _ _ _ _ (Ne.symm e), e]

theorem R_setS {o : OState} {k : Nat} {S' : Sync.Sem} {s' : State} (hR : R o)
    (h1 : s'.sems = modifyAt o.s.sems k (fun _ => absS S')) (h2 : s'.mutexes = o.s.mutexes) (h3 : s'.bars = o.s.bars) :
    R { w := { o.w with sems := Sync.upd o.w.sems k S' }, s := s' } := by
  refine ⟨?_, ?_, ?_⟩
  · intro m mu hmu; simp only [h2] at hmu; exact hR.rm m mu hmu
  · intro k' se hse
    simp only [h1] at hse
    by_cases e : k' = k
    · subst e
      rw [modifyAt_get_eq] at hse
      simp only [upd_same]
      cases hx : o.s.sems[k']? with
      | none => simp [hx] at hse
      | some x => simp [hx] at hse; exact hse.symm
    · rw [modifyAt_get_ne _ _ _ _ (Ne.symm e)] at hse
      simp only [upd_other _ _ _ _ e]
      exact hR.rs k' se hse
  · intro b ba hba; simp only [h3] at hba; exact hR.rb b ba hba

theorem SInv_setS {w : Sync.World} {k : Nat} {S' : Sync.Sem} (hS : SInv w)
    (h2 : ∀ q ∈ S'.queue, q.waited = true) : SInv { w with sems := Sync.upd w.sems k S' } := by
  refine ⟨hS.nrec, hS.mwaited, ?_, hS.bwaited⟩
  intro k'
  by_cases e : k' = k
  · subst e; simpa [upd_same] using h2
  · simpa [upd_other _ _ _ _ e] using hS.swaited k'

/-! ### LTS transitions -/

theorem lts_semAsync {s : State} {i k : Nat} {a : Actor} (ha : s.actors[i]? = some a) (herr : s.err = 0)
    (hpid : a.pid ≠ 0) (hp : a.pend = some (.semAsyncLock k)) :
    (labelAt s i 0).isSome = true ∧
    step s i 0 = setPend { s with sems := modifyAt s.sems k (fun se => semAcquireAsync se i) } i a (.semWait k) := by
  have := step_enabled ha hp herr hpid (by simp [pendEnabled]) (by simp [maxConsider])
  exact ⟨this.1, by rw [this.2]; simp [execPend]⟩

theorem lts_semUnlock {s : State} {i k : Nat} {a : Actor} (ha : s.actors[i]? = some a) (herr : s.err = 0)
    (hpid : a.pid ≠ 0) (hp : a.pend = some (.semUnlock k)) :
    (labelAt s i 0).isSome = true ∧
    step s i 0 = finishStep { s with sems := modifyAt s.sems k semRelease } i a := by
  have := step_enabled ha hp herr hpid (by simp [pendEnabled]) (by simp [maxConsider])
  exact ⟨this.1, by rw [this.2]; simp [execPend]⟩

/-! ### Semaphore::acquire -/

theorem acquire_sound {o : OState} {i k : Nat} {a : Actor} (hR : R o) (hI : Inv o) (ha : o.s.actors[i]? = some a)
    (herr : o.s.err = 0) (hp : a.pend = some (.semAsyncLock k))
    {o' : OState} {path : Path} (h : oAcquire o i a k = some (o', path)) :
    execPath o.s path = some o'.s ∧ R o' ∧ Inv o' := by
  have hpid := hI.lt.pid i a ha
  have hops := hI.lt.ops i a ha
  by_cases hk : k < o.s.sems.length
  · simp only [oAcquire, hk, ↓reduceIte, sync_step_acquire] at h
    have hx0 : o.s.sems[k]? = some (o.s.sems[k]) := List.getElem?_eq_getElem hk
    have hx := hR.rs k _ hx0
    obtain ⟨hlab, hstep⟩ := lts_semAsync ha herr hpid hp
    have hpi : pendOf o.s i = some (.semAsyncLock k) := by rw [pendOf_of_get ha, hp]
    have hopen := hole_open hI.lt hpi rfl
    have hiq : i ∉ queueS o.s k := fun hmem => by
      have := ((hI.lt.qs (.semWait k)).2 i hmem).2
      rw [hpi] at this; cases this
    have hqS : queueS o.s k = (o.w.sems k).queue.map (·.issuer) := by
      simp [queueS, hx0, hx, absS]
    have hfresh : ∀ x ∈ (o.w.sems k).queue, x.issuer ≠ i := by
      intro x hxm e
      apply hiq
      rw [hqS, ← e]
      exact List.mem_map_of_mem hxm
    by_cases hv : 0 < (o.w.sems k).value
    · rw [sem_acq_free _ i hv] at h
      simp only [Sync.optOut, wakeAll, pathOf, List.foldl, List.map, upd_same, Option.some.injEq, Prod.mk.injEq] at h
      obtain ⟨rfl, rfl⟩ := h
      have hs2 : setPend (setS o.s k (absS { o.w.sems k with value := (o.w.sems k).value - 1 })) i a (.semWait k)
          = step o.s i 0 := by
        rw [hstep]; simp only [setS]
        congr 2
        apply modifyAt_congr _ _ _ _ _ hx0
        rw [hx]; simp [semAcquireAsync, absS, hv]
      have hact2 : (step o.s i 0).actors = modifyAt o.s.actors i (fun _ => { a with pend := some (.semWait k) }) := by
        rw [← hs2]; simp
      have ha2 := get_upd_eq hact2 ha
      have hm2 : (step o.s i 0).sems = modifyAt o.s.sems k (fun _ => absS { o.w.sems k with value := (o.w.sems k).value - 1 }) := by
        rw [← hs2]; rfl
      have hmu2 : (step o.s i 0).mutexes = o.s.mutexes := by rw [← hs2]; rfl
      have hba2 : (step o.s i 0).bars = o.s.bars := by rw [← hs2]; rfl
      have hsem2 : (step o.s i 0).sems[k]? = some (absS { o.w.sems k with value := (o.w.sems k).value - 1 }) := by
        rw [hm2]; simp [modifyAt_get_eq, hx0]
      have herr2 : (step o.s i 0).err = 0 := by rw [← hs2]; simpa using herr
      have hen : pendEnabled (step o.s i 0) i (.semWait k) = true := by
        simp only [pendEnabled, hsem2, absS]
        rw [← hqS]
        simp [hiq]
      obtain ⟨hlab2, hstep2⟩ := lts_wait ha2 herr2 hpid rfl (Or.inr (Or.inl ⟨k, rfl⟩)) hen
      have hw : wake (step o.s i 0) i = finishStep (step o.s i 0) i { a with pend := some (.semWait k) } := by
        simp [wake, ha2]
      refine ⟨?_, ?_, ?_, ?_⟩
      · rw [execPath_cons hlab, execPath_cons hlab2, hstep2, hs2]; rfl
      · rw [hs2, hw]
        exact R_setS hR (by simp [hm2]) (by simp [hmu2]) (by simp [hba2])
      · exact SInv_setS hI.sy (by simpa using hI.sy.swaited k)
      · rw [hs2, hw]
        have hq2 : ∀ p, queueOf (step o.s i 0) p = queueOf o.s p := by
          intro p
          have : queueOf (step o.s i 0) p
              = queueOf (setS o.s k (absS { o.w.sems k with value := (o.w.sems k).value - 1 })) p :=
            queueOf_actors _ _ (by rw [hmu2]; rfl) (by rw [hm2]; rfl) (by rw [hba2]; rfl) p
          rw [this, queueOf_setS _ _ _ hk]
          by_cases e : p = .semWait k
          · subst e; simp [queueOf, hqS, absS]
          · simp [e]
        have h1 : LInvH (step o.s i 0) [i] :=
          act_set hopen hact2 hq2 ha (by simp) hpid hops
        exact LInv_finish h1 ha2 hpid hops
    · have hv0 : (o.w.sems k).value = 0 := by omega
      rw [sem_acq_busy _ i hv0 hfresh] at h
      simp only [Sync.optOut, wakeAll, pathOf, List.foldl, List.map, upd_same, Option.some.injEq, Prod.mk.injEq] at h
      obtain ⟨rfl, rfl⟩ := h
      have hs2 : setPend (setS o.s k (absS { o.w.sems k with
            queue := (o.w.sems k).queue ++ [{ issuer := i, waited := true, timed := false }] })) i a (.semWait k)
          = step o.s i 0 := by
        rw [hstep]; simp only [setS]
        congr 2
        apply modifyAt_congr _ _ _ _ _ hx0
        rw [hx]; simp [semAcquireAsync, absS, hv0]
      refine ⟨?_, ?_, ?_, ?_⟩
      · rw [execPath_cons hlab, hs2]; rfl
      · exact R_setS hR rfl rfl rfl
      · refine SInv_setS hI.sy ?_
        intro q hq
        rcases List.mem_append.mp hq with h' | h'
        · exact hI.sy.swaited k q h'
        · simp at h'; subst h'; rfl
      · have hact1 : (setPend o.s i a (.semWait k)).actors
            = modifyAt o.s.actors i (fun _ => { a with pend := some (.semWait k) }) := rfl
        have h1 : LInvH (setPend o.s i a (.semWait k)) [i] :=
          act_set hopen hact1 (fun p => queueOf_actors _ _ rfl rfl rfl p) ha (by simp) hpid hops
        have h2 := obj_push (s' := setPend (setS o.s k (absS { o.w.sems k with
            queue := (o.w.sems k).queue ++ [{ issuer := i, waited := true, timed := false }] })) i a (.semWait k))
          (P := .semWait k) h1 rfl (by
            intro p
            have e1 : ∀ (X : State) (q : Pend), queueOf (setPend X i a (.semWait k)) q = queueOf X q :=
              fun X q => queueOf_actors _ _ rfl rfl rfl q
            rw [e1, e1, e1, queueOf_setS _ _ _ hk]
            by_cases e : p = .semWait k
            · subst e; simp [queueOf, hqS, absS]
            · simp [e]) (by simp) (pendOf_upd_eq hact1 ha)
        simpa using h2
  · simp [oAcquire, hk] at h

/-! ### Semaphore::release -/

theorem sync_step_release (w : Sync.World) (i k : Nat) :
    w.step (.release i k) =
      (match (w.sems k).release.2 with
       | some acq =>
         if acq.waited then
           .ok ({ w with sems := Sync.upd w.sems k (w.sems k).release.1 },
                [(acq.issuer, .flag (Sync.semFinish acq.timed false true)), (i, .unit)])
         else .ok ({ w with sems := Sync.upd w.sems k (w.sems k).release.1,
                            hgrant := Sync.upd w.hgrant acq.issuer true }, [(i, .unit)])
       | none => .ok ({ w with sems := Sync.upd w.sems k (w.sems k).release.1 }, [(i, .unit)])) := rfl

theorem sync_step_release_nil (w : Sync.World) (i k : Nat) (hq : (w.sems k).queue = []) :
    w.step (.release i k) =
      .ok ({ w with sems := Sync.upd w.sems k { w.sems k with value := (w.sems k).value + 1 } }, [(i, .unit)]) := by
  have hr : (w.sems k).release = ({ w.sems k with value := (w.sems k).value + 1 }, none) := by
    simp [Sync.Sem.release, hq]
  rw [sync_step_release, hr]

theorem sync_step_release_cons (w : Sync.World) (i k : Nat) (acq : Sync.SAcq) (rest : List Sync.SAcq)
    (hq : (w.sems k).queue = acq :: rest) (hw : acq.waited = true) :
    w.step (.release i k) =
      .ok ({ w with sems := Sync.upd w.sems k { w.sems k with queue := rest } },
           [(acq.issuer, .flag (Sync.semFinish acq.timed false true)), (i, .unit)]) := by
  have hr : (w.sems k).release = ({ w.sems k with queue := rest }, some acq) := by
    simp [Sync.Sem.release, hq]
  rw [sync_step_release, hr]
  simp only [hw, if_true]

theorem release_sound {o : OState} {i k : Nat} {a : Actor} (hR : R o) (hI : Inv o) (ha : o.s.actors[i]? = some a)
    (herr : o.s.err = 0) (hp : a.pend = some (.semUnlock k))
    {o' : OState} {path : Path} (h : oRelease o i a k = some (o', path)) :
    execPath o.s path = some o'.s ∧ R o' ∧ Inv o' := by
  have hpid := hI.lt.pid i a ha
  have hops := hI.lt.ops i a ha
  by_cases hk : k < o.s.sems.length
  · simp only [oRelease, hk, ↓reduceIte] at h
    have hx0 : o.s.sems[k]? = some (o.s.sems[k]) := List.getElem?_eq_getElem hk
    have hx := hR.rs k _ hx0
    obtain ⟨hlab, hstep⟩ := lts_semUnlock ha herr hpid hp
    have hpi : pendOf o.s i = some (.semUnlock k) := by rw [pendOf_of_get ha, hp]
    have hopen := hole_open hI.lt hpi rfl
    have hqS : queueS o.s k = (o.w.sems k).queue.map (·.issuer) := by
      simp [queueS, hx0, hx, absS]
    cases hqueue : (o.w.sems k).queue with
    | nil =>
      rw [sync_step_release_nil _ i k hqueue] at h
      simp only [upd_same, Option.some.injEq, Prod.mk.injEq] at h
      obtain ⟨rfl, rfl⟩ := h
      have hs2 : finishStep (setS o.s k (absS { o.w.sems k with value := (o.w.sems k).value + 1 })) i a
          = step o.s i 0 := by
        rw [hstep]; simp only [setS]
        congr 2
        apply modifyAt_congr _ _ _ _ _ hx0
        rw [hx]; simp [semRelease, absS, hqueue]
      refine ⟨?_, ?_, ?_, ?_⟩
      · rw [execPath_cons hlab, ← hs2]; rfl
      · exact R_setS hR (by simp [setS]) (by simp [setS]) (by simp [setS])
      · exact SInv_setS hI.sy (by simpa using hI.sy.swaited k)
      · have h1 : LInvH (setS o.s k (absS { o.w.sems k with value := (o.w.sems k).value + 1 })) [i] := by
          refine obj_same hopen rfl ?_
          intro p
          rw [queueOf_setS _ _ _ hk]
          by_cases e : p = .semWait k
          · subst e; simp [queueOf, hqS, absS]
          · simp [e]
        exact LInv_finish h1 (a := a) (by simpa using ha) hpid hops
    | cons acq rest =>
      have hwt : acq.waited = true := hI.sy.swaited k acq (by rw [hqueue]; simp)
      rw [sync_step_release_cons _ i k acq rest hqueue hwt] at h
      simp only [upd_same, Option.some.injEq, Prod.mk.injEq] at h
      obtain ⟨rfl, rfl⟩ := h
      have hqS' : queueS o.s k = acq.issuer :: rest.map (·.issuer) := by rw [hqS, hqueue]; rfl
      have hjq : acq.issuer ∈ queueOf o.s (.semWait k) := by simp [queueOf, hqS']
      have hpj := ((hI.lt.qs (.semWait k)).2 _ hjq).2
      have hji : acq.issuer ≠ i := by
        intro e; rw [e, hpi] at hpj; cases hpj
      obtain ⟨aj, haj, hpaj⟩ : ∃ aj, o.s.actors[acq.issuer]? = some aj ∧ aj.pend = some (.semWait k) := by
        simp only [pendOf] at hpj
        cases hh : o.s.actors[acq.issuer]? with
        | none => simp [hh] at hpj
        | some aj => simp [hh] at hpj; exact ⟨aj, rfl, hpj⟩
      have hnd : (acq.issuer :: rest.map (·.issuer)).Nodup := by
        have := (hI.lt.qs (.semWait k)).1; simpa [queueOf, hqS'] using this
      have hs2 : finishStep (setS o.s k (absS { o.w.sems k with queue := rest })) i a = step o.s i 0 := by
        rw [hstep]; simp only [setS]
        congr 2
        apply modifyAt_congr _ _ _ _ _ hx0
        rw [hx]; simp [semRelease, absS, hqueue]
      have hadv := advance_cov (setS o.s k (absS { o.w.sems k with queue := rest })) i a a.todo hops
      have hact2 := finishStep_actors (setS o.s k (absS { o.w.sems k with queue := rest })) i a
      rw [hs2] at hact2
      have haj2 : (step o.s i 0).actors[acq.issuer]? = some aj := by
        rw [get_upd_ne hact2 hji]; exact haj
      have herr2 : (step o.s i 0).err = 0 := by
        rw [← hs2, finishStep_err _ _ _ hadv.1]; exact herr
      have hm2 : (step o.s i 0).sems = modifyAt o.s.sems k (fun _ => absS { o.w.sems k with queue := rest }) := by
        rw [← hs2]; simp [setS]
      have hmu2 : (step o.s i 0).mutexes = o.s.mutexes := by rw [← hs2]; simp [setS]
      have hba2 : (step o.s i 0).bars = o.s.bars := by rw [← hs2]; simp [setS]
      have hen : pendEnabled (step o.s i 0) acq.issuer (.semWait k) = true := by
        simp only [pendEnabled, hm2, modifyAt_get_eq, hx0, Option.map_some, absS]
        have : acq.issuer ∉ rest.map (·.issuer) := (List.nodup_cons.mp hnd).1
        simp [this]
      obtain ⟨hlab2, hstep2⟩ := lts_wait haj2 herr2 (hI.lt.pid _ aj haj) hpaj (Or.inr (Or.inl ⟨k, rfl⟩)) hen
      have hw : wake (step o.s i 0) acq.issuer = finishStep (step o.s i 0) acq.issuer aj := by simp [wake, haj2]
      refine ⟨?_, ?_, ?_, ?_⟩
      · rw [execPath_cons hlab, execPath_cons hlab2, hstep2, hs2]; rfl
      · rw [hs2, hw]
        exact R_setS hR (by simp [hm2]) (by simp [hmu2]) (by simp [hba2])
      · refine SInv_setS hI.sy ?_
        intro q hq
        exact hI.sy.swaited k q (by rw [hqueue]; exact List.mem_cons_of_mem _ hq)
      · rw [hs2, hw]
        have h1 : LInvH (setS o.s k (absS { o.w.sems k with queue := rest })) ([acq.issuer] ++ [i]) := by
          refine obj_drop (P := .semWait k) (pre := [acq.issuer]) (t := rest.map (·.issuer)) hopen rfl
            (by simp [queueOf, hqS']) ?_
          intro p
          rw [queueOf_setS _ _ _ hk]
          by_cases e : p = .semWait k
          · subst e; simp [absS]
          · simp [e]
        have h2 := LInvH_finish h1 (i := i) (a := a) (a1 := a) (by simp) (by simpa using ha) hpid hops
        rw [hs2] at h2
        have h3 := LInvH_finish h2 (i := acq.issuer) (a := aj) (a1 := aj) (by simp [hji]) haj2
          (hI.lt.pid _ aj haj) (hI.lt.ops _ aj haj)
        simpa [hji] using h3
  · simp [oRelease, hk] at h

end SgVerif.C14
