/-
C14 — memoised exhaustive exploration of the reference LTS (McRef) of a program: the set of terminal outcomes and the
set of reachable deadlock configurations.  `McRef.explore` enumerates maximal *executions* (needed by C38/C40); for the
programs of C14 (≤ 5 actors × ≤ 12 operations) only the reachable *states* matter, so this explorer keeps a visited
set.  Core-only (compiled into the driver).  Soundness (`explore_sound`: every reported outcome / deadlock
configuration is the one of a state reachable in the LTS) is proved in C14/Lemmas.lean; it does not depend on the
visited set, which only prunes.
-/
import SgVerif.McRef.Model
import Std.Data.HashSet
namespace SgVerif.C14
open SgVerif.McRef

deriving instance Hashable for Op, Pend, Actor, Mutex, Sem, Bar, Cv, Mbox, Comm, State

/-- What an actor is blocked on, in the vocabulary of the harness' kernel-side view (`waiting_synchros_[0]`). -/
def blockedTok (a : Actor) : String :=
  if a.pid = 0 then "_" else
  match a.pend with
  | none => "."
  | some (.mutexWait m) => s!"M{m}"
  | some (.semWait k) => s!"S{k}"
  | some (.barWait b) => s!"B{b}"
  | some (.cvWait c m) => s!"V{c}.{m}"
  | some (.commWait x _ r _) => if r then s!"Xr{x}" else s!"Xs{x}"
  | some (.actorJoin _) => "J"
  | some _ => "?"

/-- A deadlock configuration: the observations so far and, per actor, what it is blocked on. -/
def dlConfig (s : State) : String := outcome s ++ "#" ++ "|".intercalate (s.actors.map blockedTok)

structure XRes where
  outcomes   : List String := []     -- outcomes of the terminal non-deadlock states
  deadlocks  : List String := []     -- configurations of the reachable deadlock states
  crash      : Bool := false
  assertFail : Bool := false
  nstates    : Nat := 0
  capped     : Bool := false          -- more than `cap` states (or fuel exhausted): the result is incomplete
  deriving Repr, Inhabited

def addNew (l : List String) (x : String) : List String := if l.contains x then l else l ++ [x]

/-- classification of a state without enabled transition (same order of tests as `McRef.leaf`) -/
def visit (s : State) (r : XRes) : XRes :=
  if s.err == 1 then { r with assertFail := true }
  else if s.err != 0 then { r with crash := true }
  else if isDeadlock s then { r with deadlocks := addNew r.deadlocks (dlConfig s) }
  else { r with outcomes := addNew r.outcomes (outcome s) }

def succs (s : State) : List State := (moves s).map (fun mv => step s mv.1 mv.2)

/-- DFS with an explicit stack and a visited set; structurally recursive on the fuel. -/
def go (cap : Nat) : Nat → List State → Std.HashSet State → XRes → XRes
  | 0, stack, _, r => if stack.isEmpty then r else { r with capped := true }
  | _ + 1, [], _, r => r
  | fuel + 1, s :: rest, seen, r =>
    if seen.contains s then go cap fuel rest seen r
    else if r.nstates ≥ cap then { r with capped := true }
    else
      let seen := seen.insert s
      let r := { r with nstates := r.nstates + 1 }
      match succs s with
      | [] => go cap fuel rest seen (visit s r)
      | ss => go cap fuel (ss ++ rest) seen r

/-- `Reference.explore p` for C14: all reachable states, at most `cap` of them. -/
def exploreStates (p : Program) (cap : Nat) : XRes :=
  go cap ((cap + 1) * 64 + 16) [initState p] {} {}

end SgVerif.C14
