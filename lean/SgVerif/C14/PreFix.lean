/-
C14 — the one-simcall machine of the code BEFORE the repair of finding `mutex-relock-by-owner-returns`
(`MutexAcquisitionImpl::wait_for` testing `mutex_->get_owner() == issuer_` instead of `granted_`; repaired by
props/C14/fix_series/01-mutex-relock.patch): same machine as C14/Model.lean except that `Mutex::lock` uses
`Sync.Mutex.lockPre`.  NOT the current code, used by no driver: kept for the regression statements of Props.lean (the old
machine lets the second `lock()` of the owner return and leaves the reference LTS; outside that re-lock it is the
current machine).  Core only.
-/
import SgVerif.C14.Main
namespace SgVerif.C14
open SgVerif.McRef

/-- `Sync.World.step (.lock i m)` with the pre-repair `wait_for` (owner test) -/
def stepLockPre (w : Sync.World) (i m : Nat) : Sync.World × Sync.Outs :=
  ({ w with mutexes := Sync.upd w.mutexes m ((w.mutexes m).lockPre i .unit).1 },
   Sync.optOut i ((w.mutexes m).lockPre i .unit).2)

def oLockPre (o : OState) (i : Nat) (a : Actor) (m : Nat) : Option (OState × Path) :=
  if m < o.s.mutexes.length then
    let r := stepLockPre o.w i m
    let s2 := setPend (setM o.s m (absM (r.1.mutexes m))) i a (.mutexWait m)
    some ({ w := r.1, s := wakeAll s2 r.2 }, (i, 0) :: pathOf r.2)
  else none

/-- one simcall of actor `i`: `Mutex::lock` with the pre-repair `wait_for`, everything else as `ostep` -/
def ostepPre (o : OState) (i : Nat) : Option (OState × Path) :=
  match o.s.actors[i]? with
  | none => none
  | some a =>
    if o.s.err ≠ 0 ∨ a.pid = 0 then none else
    match a.pend with
    | some (.mutexAsyncLock m) => oLockPre o i a m
    | _ => ostep o i

def orunPre (o : OState) : List Nat → Option (OState × Path)
  | [] => some (o, [])
  | i :: h =>
    match ostepPre o i with
    | none => none
    | some (o1, p1) =>
      match orunPre o1 h with
      | none => none
      | some (o2, p2) => some (o2, p1 ++ p2)

/-- the step is not a re-lock: the actor does not `lock()` a (non-recursive) mutex that it already owns -/
def stepOK (o : OState) (i : Nat) : Prop :=
  ∀ m, pendOf o.s i = some (.mutexAsyncLock m) → (o.w.mutexes m).owner ≠ some i

/-! ### the pre-repair `lock`, computed -/

theorem lockPre_free (M : Sync.Mutex) (i : Nat) (hn : M.recursive = false) (ho : M.owner = none) :
    M.lockPre i .unit = ({ M with owner := some i, depth := 1 }, some .unit) := by
  simp [Sync.Mutex.lockPre, Sync.Mutex.lockAsync, Sync.Mutex.waitForPre, hn, ho]

theorem lockPre_busy (M : Sync.Mutex) (i x : Nat) (hn : M.recursive = false) (ho : M.owner = some x) (hx : x ≠ i) :
    M.lockPre i .unit = ({ M with queue := M.queue ++ [{ issuer := i, waited := true, res := .unit }] }, none) := by
  simp [Sync.Mutex.lockPre, Sync.Mutex.lockAsync, Sync.Mutex.waitForPre, hn, ho, hx, markLast_append]

/-- the re-lock by the owner on the old code: answered at once, a stale (unregistered) acquisition stays queued -/
theorem lockPre_relock (M : Sync.Mutex) (i : Nat) (hn : M.recursive = false) (ho : M.owner = some i) :
    M.lockPre i .unit = ({ M with queue := M.queue ++ [{ issuer := i }] }, some .unit) := by
  simp [Sync.Mutex.lockPre, Sync.Mutex.lockAsync, Sync.Mutex.waitForPre, hn, ho]

/-- the repair changes nothing unless the caller already owns the mutex -/
theorem lockPre_eq_lock (M : Sync.Mutex) (i : Nat) (hn : M.recursive = false) (hne : M.owner ≠ some i) :
    M.lockPre i .unit = M.lock i .unit := by
  cases ho : M.owner with
  | none => rw [lockPre_free M i hn ho, sync_lock_free M i hn ho]
  | some x =>
    have hx : x ≠ i := fun e => hne (by rw [ho, e])
    rw [lockPre_busy M i x hn ho hx, sync_lock_busy M i x hn ho]

theorem oLockPre_eq_oLock (o : OState) (i : Nat) (a : Actor) (m : Nat) (hn : (o.w.mutexes m).recursive = false)
    (hne : (o.w.mutexes m).owner ≠ some i) : oLockPre o i a m = oLock o i a m := by
  simp only [oLockPre, oLock, stepLockPre, sync_step_lock, lockPre_eq_lock _ i hn hne]

/-- on a step that is not a re-lock by the owner the pre-repair machine IS the current machine -/
theorem ostepPre_eq_ostep {o : OState} {i : Nat} (hI : Inv o) (hok : stepOK o i) : ostepPre o i = ostep o i := by
  unfold ostepPre ostep
  cases ha : o.s.actors[i]? with
  | none => rfl
  | some a =>
    simp only []
    split
    · rfl
    · split
      · rename_i m hp
        have hpi : pendOf o.s i = some (.mutexAsyncLock m) := by rw [pendOf_of_get ha, hp]
        simp only [hp]
        exact oLockPre_eq_oLock o i a m (hI.sy.nrec m) (hok m hpi)
      · simp only [ostep, ha]

end SgVerif.C14
