/-
C14 line-protocol judge (core-only).  The monitor is the property itself, evaluated on what the real run reported:
  M1  a run that finished ends with an outcome vector that the reference LTS can reach (`exploreStates`),
  M2  a deadlock is reported only if some deadlock is reachable,
  M3  … and the reported blocked configuration (observations so far + what each actor is blocked on, kernel view)
      is one of the reachable deadlock configurations,
  M4  (⇐ M2) a program without reachable deadlock never reports one,
  M5  all context factories give the same run.
Correspondence of the one-simcall machine of the theorems (`ostep`/`orun`, C14/Model.lean): the history observed in the
run (order in which maestro handled the simcalls) must be accepted, each call must be the S4U call the machine expects
from that actor, the final observations must be equal, and the machine is stuck iff the engine reported a deadlock.
A disagreement there while M1–M5 hold is a DISAGREE (suspect the model).
-/
import SgVerif.C14.Model
import SgVerif.C14.Explore
import SgVerif.McRef.Parse
import SgVerif.Sync.DriverLib
import SgVerif.Common.Proto
namespace SgVerif.C14
open SgVerif.McRef SgVerif.Proto

def b2s (b : Bool) : String := if b then "1" else "0"

def refLine (r : XRes) : String :=
  s!"REF n={r.nstates} capped={b2s r.capped} dl={b2s (!r.deadlocks.isEmpty)} crash={b2s r.crash} af={b2s r.assertFail}" ++
    String.join (r.outcomes.map (fun o => s!" o={o}")) ++ String.join (r.deadlocks.map (fun o => s!" d={o}"))

def kv (key : String) (toks : List String) : Option String :=
  toks.findSome? (fun t => if t.startsWith (key ++ "=") then some ((t.drop (key.length + 1)).toString) else none)

/-- split the answer into runs (each starts with the token `run`) -/
def splitRuns : List String → List (List String)
  | [] => []
  | t :: ts =>
    let rest := splitRuns ts
    if t = "run" then [] :: rest
    else match rest with
      | [] => [[t]]
      | r :: rs => (t :: r) :: rs

def splitRuns' (toks : List String) : List (List String) :=
  -- tokens are in order: build the groups from the left
  let step (acc : List (List String)) (t : String) : List (List String) :=
    if t = "run" then [] :: acc
    else match acc with
      | [] => [[t]]
      | r :: rs => (r ++ [t]) :: rs
  (toks.foldl step []).reverse

/-- `a:tok,a:tok,…` -/
def parseCalls (s : String) : Option (List (Nat × String)) :=
  if s = "" ∨ s = "-" then some [] else
  (s.splitOn ",").mapM (fun c =>
    match c.splitOn ":" with
    | [a, t] => a.toNat?.map (fun n => (n, t))
    | _ => none)

/-- does the program only use kinds covered by the one-simcall machine? -/
def opCovered : Op → Bool
  | .lock _ | .trylock _ | .unlock _ | .acquire _ | .release _ | .barrier _
  | .cvwait _ _ | .signal _ | .broadcast _ => true
  | _ => false

def progCovered (p : Program) : Bool := p.children.isEmpty && p.statics.all (·.all opCovered)

/-- replay the observed history on the one-simcall machine, checking each call against the machine's expectation -/
def replayCalls : OState → List (Nat × String) → Nat → Except String OState
  | o, [], _ => .ok o
  | o, (i, tok) :: rest, k =>
    match o.s.actors[i]? with
    | none => .error s!"call {k}: no actor {i}"
    | some a =>
      match a.pend with
      | none => .error s!"call {k}: actor {i} calls {tok} but the machine has it terminated"
      | some p =>
        if pendTok p ≠ tok then .error s!"call {k}: actor {i} calls {tok}, the machine expects {pendTok p} ({repr p})"
        else match ostep o i with
          | none => .error s!"call {k}: the machine refuses {tok} of actor {i}"
          | some (o1, path) =>
            -- sanity (proved in Props: single_simcall_is_atomic_split): the split path leads to the same LTS state
            match execPath o.s path with
            | none => .error s!"call {k}: split path of {tok} refused by the reference LTS"
            | some s' => if s' == o1.s then replayCalls o1 rest (k + 1)
                         else .error s!"call {k}: split path of {tok} reaches another LTS state"

def judgeRun (p : Program) (r : XRes) (run : List String) : Verdict :=
  match kv "end" run, kv "out" run, kv "calls" run with
  | some how, some out, some callsS =>
    let mon : Option String :=
      if how = "finish" then
        if r.outcomes.contains out then none
        else some s!"the run finished with outcome {out}, which the reference semantics cannot reach (reference: {refLine r})"
      else if how = "deadlock" then
        match kv "ker" run with
        | none => some "deadlock without blocked configuration"
        | some ker =>
          if r.deadlocks.isEmpty then some s!"deadlock reported (blocked {ker}, obs {out}) but no deadlock is reachable (reference: {refLine r})"
          else if r.deadlocks.contains (out ++ "#" ++ ker) then none
          else some s!"deadlock reported with configuration {out}#{ker}, which is not a reachable deadlock (reference: {refLine r})"
      else some s!"unknown end {how}"
    match mon with
    | some m => .monfail m
    | none =>
      if !progCovered p then .ok else
      match parseCalls callsS with
      | none => .bad
      | some calls =>
        match replayCalls (initO p) calls 0 with
        | .error m => .disagree m
        | .ok o =>
          if outcome o.s ≠ out then .disagree s!"one-simcall machine ends with observations {outcome o.s}"
          else if how = "deadlock" ∧ !ostuck o then .disagree "deadlock reported but the one-simcall machine is not stuck"
          else if how = "finish" ∧ !allDone o.s then .disagree s!"run finished but the one-simcall machine is not done (stuck={ostuck o})"
          else if how = "deadlock" ∧ some (dlConfig o.s) ≠ (kv "ker" run).map (fun k => out ++ "#" ++ k) then
            .disagree s!"one-simcall machine is stuck in {dlConfig o.s}"
          else .ok
  | _, _, _ => .bad

def worst : List Verdict → Verdict
  | [] => .ok
  | v :: vs =>
    match v, worst vs with
    | .monfail m, _ => .monfail m
    | _, .monfail m => .monfail m
    | .bad, _ => .bad
    | _, .bad => .bad
    | .disagree m, _ => .disagree m
    | _, w => w

def judgeChk (q a : List String) : Verdict :=
  match q with
  | capS :: prog =>
    match capS.toNat?, parseProgram prog with
    | some cap, some p =>
      let r := exploreStates p cap
      if r.capped then .bad else
      let runs := splitRuns' a
      if runs.isEmpty then .bad else
      let strip (run : List String) := run.filter (fun t => !t.startsWith "f=")
      let v := worst (runs.map (judgeRun p r))
      match v with
      | .monfail m => .monfail m
      | _ =>
        match runs with
        | r0 :: rs =>
          if rs.all (fun x => strip x == strip r0) then v
          else .monfail "the context factories do not give the same run"
        | [] => .bad
    | _, _ => .bad
  | _ => .bad

partial def mainLoop (h : IO.FS.Stream) (ds : Sync.DS) (n : Nat) : IO Nat := do
  let line ← h.getLine
  if line.isEmpty then return n
  let l := line.trimAscii.toString
  if l.isEmpty then mainLoop h ds n else
  match splitQA l with
  | none => IO.println s!"BADLINE {l}"; mainLoop h ds (n+1)
  | some (q, a) =>
    let pr (v : Verdict) : IO Unit :=
      match v with
      | .ok => IO.println "ok"
      | .disagree m => IO.println s!"DISAGREE {" ".intercalate q} => model={m} impl={" ".intercalate a}"
      | .monfail r => IO.println s!"MONFAIL {" ".intercalate q} => {r}"
      | .bad => IO.println s!"BADLINE {l}"
    match q with
    | "ref" :: capS :: prog =>
      match capS.toNat?, parseProgram prog with
      | some cap, some p => IO.println (refLine (exploreStates p cap))
      | _, _ => IO.println s!"BADLINE {l}"
      (← IO.getStdout).flush
      mainLoop h ds (n+1)
    | "sy" :: rest =>
      let (ds', v) := Sync.judge' ds rest a
      pr v
      mainLoop h ds' (n+1)
    | "chk" :: rest =>
      pr (judgeChk rest a)
      (← IO.getStdout).flush
      mainLoop h ds (n+1)
    | _ => IO.println s!"BADLINE {l}"; mainLoop h ds (n+1)

def driverMain : IO Unit := do
  let n ← mainLoop (← IO.getStdin) Sync.DS.init 0
  IO.println s!"END {n}"

end SgVerif.C14
