/-
C14 driver.  Lines:
  `ref <cap> <program…>`  -> `REF n=<states> capped=<0|1> dl=<0|1> crash=<0|1> af=<0|1> o=<outcome>… d=<deadlock config>…`
  `chk <cap> <program…> => run f=<factory> end=<finish|deadlock> out=<outcome> [ker=<tok|tok…>] calls=<a:tok,…> run f=…`
                          -> ok | DISAGREE | MONFAIL | BADLINE     (see `SgVerif.C14.judgeChk`)
  `sy <line of the Sync trace-acceptance protocol>`  -> verdict of `SgVerif.Sync.judge'` (second, independent route)
then `END <n>`.
-/
import SgVerif.C14.DriverLib
def main : IO Unit := SgVerif.C14.driverMain
