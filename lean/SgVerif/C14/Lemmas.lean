/-
C14 — helper lemmas for the refinement  one-simcall machine (C14/Model.lean)  ⊑  reference LTS (McRef/Model.lean).
Core only (no Mathlib).
-/
import SgVerif.C14.Model
namespace SgVerif.C14
open SgVerif.McRef

/-! ### lists -/

theorem modifyAt_length {α : Type} (f : α → α) : ∀ (l : List α) (i : Nat), (modifyAt l i f).length = l.length
  | [], _ => rfl
  | _ :: _, 0 => rfl
  | _ :: t, i + 1 => by simp [modifyAt, modifyAt_length f t i]

theorem modifyAt_get_ne {α : Type} (f : α → α) : ∀ (l : List α) (i j : Nat), i ≠ j → (modifyAt l i f)[j]? = l[j]?
  | [], _, _, _ => rfl
  | _ :: _, 0, 0, h => absurd rfl h
  | _ :: _, 0, _ + 1, _ => rfl
  | _ :: _, _ + 1, 0, _ => rfl
  | _ :: t, i + 1, j + 1, h => by
    simp only [modifyAt, List.getElem?_cons_succ]
    exact modifyAt_get_ne f t i j (by omega)

theorem modifyAt_get_eq {α : Type} (f : α → α) : ∀ (l : List α) (i : Nat), (modifyAt l i f)[i]? = (l[i]?).map f
  | [], _ => rfl
  | _ :: _, 0 => rfl
  | _ :: t, i + 1 => by
    simp only [modifyAt, List.getElem?_cons_succ]
    exact modifyAt_get_eq f t i

theorem modifyAt_congr {α : Type} (f g : α → α) : ∀ (l : List α) (i : Nat) (x : α), l[i]? = some x → f x = g x →
    modifyAt l i f = modifyAt l i g
  | [], _, _, h, _ => by simp at h
  | a :: t, 0, x, h, hx => by
    simp at h; subst h; simp [modifyAt, hx]
  | a :: t, i + 1, x, h, hx => by
    simp only [List.getElem?_cons_succ] at h
    simp [modifyAt, modifyAt_congr f g t i x h hx]

theorem modifyAt_none {α : Type} (f : α → α) : ∀ (l : List α) (i : Nat), l[i]? = none → modifyAt l i f = l
  | [], _, _ => rfl
  | _ :: _, 0, h => by simp at h
  | a :: t, i + 1, h => by
    simp only [List.getElem?_cons_succ] at h
    simp [modifyAt, modifyAt_none f t i h]

/-! ### the pending simcall of an actor -/

def pendOf (s : State) (j : Nat) : Option Pend :=
  match s.actors[j]? with
  | some a => a.pend
  | none => none

theorem pendOf_of_get {s : State} {j : Nat} {a : Actor} (h : s.actors[j]? = some a) : pendOf s j = a.pend := by
  simp [pendOf, h]

/-! ### operations covered by the theorems: mutexes (lock, try_lock, unlock), semaphores (acquire, release), barriers (wait) -/

def covOp : Op → Bool
  | .lock _ | .trylock _ | .unlock _ | .acquire _ | .release _ | .barrier _ => true
  | _ => false

/-- the first simcall of a covered S4U call -/
def covPend : Pend → Bool
  | .mutexAsyncLock _ | .mutexTrylock _ | .mutexUnlock _ | .semAsyncLock _ | .semUnlock _ | .barAsyncLock _ => true
  | _ => false

/-- `advance` on covered operations: never fails, the new pending simcall is the first simcall of a covered call (or
the actor is done), what remains to do is a suffix of the list, nothing else of the actor changes. -/
theorem advance_cov (s : State) (i : Nat) (a : Actor) : ∀ l : List Op, (∀ op ∈ l, covOp op = true) →
    (advance s i a l).2 = false ∧
    (∀ p, (advance s i a l).1.pend = some p → covPend p = true) ∧
    (∀ op ∈ (advance s i a l).1.todo, covOp op = true) ∧
    (advance s i a l).1.pid = a.pid ∧ (advance s i a l).1.obs = a.obs := by
  intro l
  induction l with
  | nil => intro _; simp [advance]
  | cons op rest ih =>
    intro h
    have hrest : ∀ op ∈ rest, covOp op = true := fun o ho => h o (List.mem_cons_of_mem _ ho)
    have hop := h op List.mem_cons_self
    cases op <;> simp [covOp] at hop
    case lock m => simp [advance, covPend]; exact hrest
    case trylock m => simp [advance, covPend]; exact hrest
    case unlock m =>
      simp only [advance]
      split
      · simp [covPend]; exact hrest
      · exact ih hrest
    case acquire k => simp [advance, covPend]; exact hrest
    case release k => simp [advance, covPend]; exact hrest
    case barrier b => simp [advance, covPend]; exact hrest

/-! ### frame lemmas of the state primitives -/

@[simp] theorem setPend_mutexes (s : State) (i : Nat) (a : Actor) (p : Pend) : (setPend s i a p).mutexes = s.mutexes := rfl
@[simp] theorem setPend_sems (s : State) (i : Nat) (a : Actor) (p : Pend) : (setPend s i a p).sems = s.sems := rfl
@[simp] theorem setPend_bars (s : State) (i : Nat) (a : Actor) (p : Pend) : (setPend s i a p).bars = s.bars := rfl
@[simp] theorem setPend_cvs (s : State) (i : Nat) (a : Actor) (p : Pend) : (setPend s i a p).cvs = s.cvs := rfl
@[simp] theorem setPend_err (s : State) (i : Nat) (a : Actor) (p : Pend) : (setPend s i a p).err = s.err := rfl
@[simp] theorem setPend_actors (s : State) (i : Nat) (a : Actor) (p : Pend) :
    (setPend s i a p).actors = modifyAt s.actors i (fun _ => { a with pend := some p }) := rfl

@[simp] theorem finishStep_mutexes (s : State) (i : Nat) (a : Actor) : (finishStep s i a).mutexes = s.mutexes := by
  simp [finishStep]
@[simp] theorem finishStep_sems (s : State) (i : Nat) (a : Actor) : (finishStep s i a).sems = s.sems := by
  simp [finishStep]
@[simp] theorem finishStep_bars (s : State) (i : Nat) (a : Actor) : (finishStep s i a).bars = s.bars := by
  simp [finishStep]
@[simp] theorem finishStep_cvs (s : State) (i : Nat) (a : Actor) : (finishStep s i a).cvs = s.cvs := by
  simp [finishStep]
theorem finishStep_actors (s : State) (i : Nat) (a : Actor) :
    (finishStep s i a).actors = modifyAt s.actors i (fun _ => (advance s i a a.todo).1) := by
  simp [finishStep]
theorem finishStep_err (s : State) (i : Nat) (a : Actor) (h : (advance s i a a.todo).2 = false) :
    (finishStep s i a).err = s.err := by
  simp [finishStep, h]

@[simp] theorem setM_actors (s : State) (m : Nat) (mu : McRef.Mutex) : (setM s m mu).actors = s.actors := rfl
@[simp] theorem setS_actors (s : State) (m : Nat) (mu : McRef.Sem) : (setS s m mu).actors = s.actors := rfl
@[simp] theorem setB_actors (s : State) (m : Nat) (mu : McRef.Bar) : (setB s m mu).actors = s.actors := rfl
@[simp] theorem setM_err (s : State) (m : Nat) (mu : McRef.Mutex) : (setM s m mu).err = s.err := rfl
@[simp] theorem setS_err (s : State) (m : Nat) (mu : McRef.Sem) : (setS s m mu).err = s.err := rfl
@[simp] theorem setB_err (s : State) (m : Nat) (mu : McRef.Bar) : (setB s m mu).err = s.err := rfl

/-! ### queues of the LTS objects, indexed by the `*_WAIT` simcall that waits in them (`[]` for any other simcall and
for an object index out of range) -/

def queueM (s : State) (m : Nat) : List Nat := match s.mutexes[m]? with | some mu => mu.queue | none => []
def queueS (s : State) (k : Nat) : List Nat := match s.sems[k]? with | some se => se.queue | none => []
def queueB (s : State) (b : Nat) : List Nat := match s.bars[b]? with | some ba => ba.queue | none => []

def queueOf (s : State) : Pend → List Nat
  | .mutexWait m => queueM s m
  | .semWait k => queueS s k
  | .barWait b => queueB s b
  | _ => []

/-- `R`: the object fields of the LTS state are the abstraction of the Sync world. -/
structure R (o : OState) : Prop where
  rm : ∀ m mu, o.s.mutexes[m]? = some mu → mu = absM (o.w.mutexes m)
  rs : ∀ k se, o.s.sems[k]? = some se → se = absS (o.w.sems k)
  rb : ∀ b ba, o.s.bars[b]? = some ba → ba = absB (o.w.bars b)

/-- Sync side of the invariant: non-recursive mutexes; on the one-simcall path every queued acquisition has its
issuer's simcall registered (`waited`). -/
structure SInv (w : Sync.World) : Prop where
  nrec : ∀ m, (w.mutexes m).recursive = false
  mwaited : ∀ m, ∀ q ∈ (w.mutexes m).queue, q.waited = true
  swaited : ∀ k, ∀ q ∈ (w.sems k).queue, q.waited = true
  bwaited : ∀ b, ∀ q ∈ (w.bars b).queue, q.waited = true

/-- LTS side of the invariant, with a set `H` of actors "in transit" (exempt from `pok`, and in no queue):
every actor is created and only has covered operations left; every queue is duplicate-free and its members are
exactly waiting on it; every pending simcall is the first simcall of a covered call or a `*_WAIT` sitting in its queue. -/
structure LInvH (s : State) (H : List Nat) : Prop where
  pid : ∀ (j : Nat) (a : Actor), s.actors[j]? = some a → a.pid ≠ 0
  ops : ∀ (j : Nat) (a : Actor), s.actors[j]? = some a → ∀ op ∈ a.todo, covOp op = true
  qs : ∀ p, (queueOf s p).Nodup ∧ ∀ j ∈ queueOf s p, j ∉ H ∧ pendOf s j = some p
  pok : ∀ j p, j ∉ H → pendOf s j = some p → covPend p = true ∨ j ∈ queueOf s p

abbrev LInv (s : State) : Prop := LInvH s []

structure Inv (o : OState) : Prop where
  sy : SInv o.w
  lt : LInv o.s

/-! ### one enabled transition of the LTS -/

theorem step_enabled {s : State} {i : Nat} {a : Actor} {p : Pend} (ha : s.actors[i]? = some a) (hp : a.pend = some p)
    (herr : s.err = 0) (hpid : a.pid ≠ 0) (hen : pendEnabled s i p = true) (hmc : 0 < maxConsider p) :
    (labelAt s i 0).isSome = true ∧ step s i 0 = execPend s i a p 0 := by
  have hae : actorEnabled s i = true := by
    simp [actorEnabled, ha, hp, herr, hen, hpid]
  constructor
  · simp [labelAt, ha, hp, hae, hmc]
  · simp [step, ha, hp, hae, hmc]

theorem execPath_cons {s : State} {i : Nat} {rest : Path} (h : (labelAt s i 0).isSome = true) :
    execPath s ((i, 0) :: rest) = execPath (step s i 0) rest := by
  simp [execPath, h]

end SgVerif.C14
