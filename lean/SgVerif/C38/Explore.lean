/-
C38 — the reference explorer returns exactly the leaves of the reference semantics.
`Reach` / `Term`: the transition relation the explorer walks (`moves`, `step`); `leaves`: DFS enumeration of the maximal
executions; `exploreAux = fold of leaf over leaves` when the cap is not hit; content of such a fold.
-/
import SgVerif.McRef.Model
import SgVerif.C38.Lemmas
namespace SgVerif.C38.Lemmas
open SgVerif.McRef

/-- `s'` is reachable from `s` by enabled transitions -/
inductive Reach : State → State → Prop
  | refl (s : State) : Reach s s
  | step {s s' : State} (i tc : Nat) : (i, tc) ∈ moves s → Reach (McRef.step s i tc) s' → Reach s s'

/-- `s'` ends a maximal execution from `s` -/
def Term (s s' : State) : Prop := Reach s s' ∧ moves s' = []

/-- DFS enumeration of the ends of the maximal executions (with the trace accumulated like `exploreAux` does) -/
def leaves : Nat → State → List Label → List (State × List Label)
  | 0, s, tr => if (moves s).isEmpty then [(s, tr)] else []
  | fuel + 1, s, tr =>
    match moves s with
    | [] => [(s, tr)]
    | ms => ms.flatMap (fun mv =>
        match labelAt s mv.1 mv.2 with
        | some l => leaves fuel (McRef.step s mv.1 mv.2) (l :: tr)
        | none => [])

def leafF (keep : Bool) (forbid : Option String) (acc : Result) (p : State × List Label) : Result := leaf keep forbid p.1 p.2 acc

theorem leaf_capped (keep : Bool) (forbid : Option String) (s : State) (tr : List Label) (acc : Result) :
    (leaf keep forbid s tr acc).capped = acc.capped := by
  unfold leaf
  simp only
  repeat' split
  all_goals rfl

/-- the body of the loop over the moves in `exploreAux` -/
def body (keep : Bool) (forbid : Option String) (cap fuel : Nat) (s : State) (tr : List Label) (acc : Result) (mv : Nat × Nat) : Result :=
  match labelAt s mv.1 mv.2 with
  | some l => exploreAux keep forbid cap fuel (McRef.step s mv.1 mv.2) (l :: tr) acc
  | none => acc

theorem exploreAux_succ (keep : Bool) (forbid : Option String) (cap fuel : Nat) (s : State) (tr : List Label) (acc : Result) :
    exploreAux keep forbid cap (fuel + 1) s tr acc =
      if acc.nexec > cap then { acc with capped := true }
      else if moves s = [] then leaf keep forbid s tr acc
      else (moves s).foldl (body keep forbid cap fuel s tr) acc := by
  rw [exploreAux]
  by_cases hc : acc.nexec > cap
  · simp only [hc, if_true]
  · simp only [hc, if_false]
    cases hm : moves s with
    | nil => simp
    | cons mv rest => simp only [reduceCtorEq, if_false]; rfl

theorem foldl_capped_mono {α : Type} (f : Result → α → Result) (h : ∀ acc x, (f acc x).capped = false → acc.capped = false) :
    ∀ (l : List α) (acc : Result), (l.foldl f acc).capped = false → acc.capped = false
  | [], _, hc => hc
  | x :: l, acc, hc => h acc x (foldl_capped_mono f h l (f acc x) hc)

/-- once the cap was hit the flag stays -/
theorem exploreAux_capped_mono (keep : Bool) (forbid : Option String) (cap : Nat) :
    ∀ (fuel : Nat) (s : State) (tr : List Label) (acc : Result),
      (exploreAux keep forbid cap fuel s tr acc).capped = false → acc.capped = false := by
  intro fuel
  induction fuel with
  | zero =>
    intro s tr acc h
    rw [exploreAux] at h
    split at h
    · rwa [leaf_capped] at h
    · exact h
  | succ fuel ih =>
    intro s tr acc h
    rw [exploreAux_succ] at h
    split at h
    · cases h
    · split at h
      · rwa [leaf_capped] at h
      · refine foldl_capped_mono _ ?_ _ _ h
        intro acc mv hb
        unfold body at hb
        split at hb
        · exact ih _ _ _ hb
        · exact hb

theorem body_capped_mono (keep : Bool) (forbid : Option String) (cap fuel : Nat) (s : State) (tr : List Label) (acc : Result)
    (mv : Nat × Nat) (hb : (body keep forbid cap fuel s tr acc mv).capped = false) : acc.capped = false := by
  unfold body at hb
  split at hb
  · exact exploreAux_capped_mono keep forbid cap _ _ _ _ hb
  · exact hb

/-- **the explorer is the fold of `leaf` over the DFS enumeration**, whenever it did not give up on the cap -/
theorem exploreAux_eq_fold (keep : Bool) (forbid : Option String) (cap : Nat) :
    ∀ (fuel : Nat) (s : State) (tr : List Label) (acc : Result), weight s ≤ fuel →
      (exploreAux keep forbid cap fuel s tr acc).capped = false →
      exploreAux keep forbid cap fuel s tr acc = (leaves fuel s tr).foldl (leafF keep forbid) acc := by
  intro fuel
  induction fuel with
  | zero =>
    intro s tr acc hw _
    rw [exploreAux, leaves]
    cases hm : moves s with
    | nil => simp [leafF]
    | cons mv rest =>
      exfalso
      have : (mv.1, mv.2) ∈ moves s := by rw [hm]; exact List.mem_cons_self
      have := step_weight_lt s mv.1 mv.2 this
      omega
  | succ fuel ih =>
    intro s tr acc hw hc
    rw [exploreAux_succ] at hc ⊢
    split at hc
    · cases hc
    · rename_i hcap
      simp only [hcap, if_false]
      rw [leaves]
      by_cases hm : moves s = []
      · simp [hm, leafF]
      · simp only [hm, if_false] at hc ⊢
        have hsplit : (match moves s with
            | [] => [(s, tr)]
            | ms => ms.flatMap (fun mv => match labelAt s mv.1 mv.2 with
                | some l => leaves fuel (McRef.step s mv.1 mv.2) (l :: tr)
                | none => [])) = (moves s).flatMap (fun mv => match labelAt s mv.1 mv.2 with
                | some l => leaves fuel (McRef.step s mv.1 mv.2) (l :: tr)
                | none => []) := by
          split
          · rename_i h; exact absurd h hm
          · rfl
        try rw [hsplit]
        -- generalise over a list of moves of `s`
        have key : ∀ (ms : List (Nat × Nat)), (∀ mv ∈ ms, (mv.1, mv.2) ∈ moves s) → ∀ acc : Result,
            (ms.foldl (body keep forbid cap fuel s tr) acc).capped = false →
            ms.foldl (body keep forbid cap fuel s tr) acc =
              (ms.flatMap (fun mv => match labelAt s mv.1 mv.2 with
                | some l => leaves fuel (McRef.step s mv.1 mv.2) (l :: tr)
                | none => [])).foldl (leafF keep forbid) acc := by
          intro ms
          induction ms with
          | nil => intro _ acc _; rfl
          | cons mv rest ihl =>
            intro hall acc hcc
            simp only [List.foldl_cons, List.flatMap_cons, List.foldl_append] at hcc ⊢
            have hb : (body keep forbid cap fuel s tr acc mv).capped = false :=
              foldl_capped_mono _ (body_capped_mono keep forbid cap fuel s tr) rest _ hcc
            have hmv := hall mv List.mem_cons_self
            have hlt := step_weight_lt s mv.1 mv.2 hmv
            have hbody : body keep forbid cap fuel s tr acc mv =
                (match labelAt s mv.1 mv.2 with
                  | some l => leaves fuel (McRef.step s mv.1 mv.2) (l :: tr)
                  | none => []).foldl (leafF keep forbid) acc := by
              unfold body at hb ⊢
              split
              · rename_i l hl
                simp only [hl] at hb
                exact ih _ _ _ (by omega) hb
              · rfl
            rw [← hbody]
            exact ihl (fun m hm' => hall m (List.mem_cons_of_mem _ hm')) _ hcc
        exact key (moves s) (fun mv h => h) acc hc

theorem leaves_succ (fuel : Nat) (s : State) (tr : List Label) :
    leaves (fuel + 1) s tr =
      if moves s = [] then [(s, tr)]
      else (moves s).flatMap (fun mv => match labelAt s mv.1 mv.2 with
        | some l => leaves fuel (McRef.step s mv.1 mv.2) (l :: tr)
        | none => []) := by
  rw [leaves]
  cases hm : moves s with
  | nil => simp
  | cons mv rest => simp only [reduceCtorEq, if_false]

/-- every enumerated leaf ends a maximal execution -/
theorem mem_leaves_term : ∀ (fuel : Nat) (s : State) (tr : List Label) (p : State × List Label),
    p ∈ leaves fuel s tr → Term s p.1 := by
  intro fuel
  induction fuel with
  | zero =>
    intro s tr p hp
    rw [leaves] at hp
    split at hp
    · rename_i he
      simp at hp
      subst hp
      exact ⟨.refl s, by simpa using he⟩
    · simp at hp
  | succ fuel ih =>
    intro s tr p hp
    rw [leaves_succ] at hp
    split at hp
    · rename_i hm
      simp at hp
      subst hp
      exact ⟨.refl s, hm⟩
    · simp only [List.mem_flatMap] at hp
      obtain ⟨mv, hmv, hp⟩ := hp
      split at hp
      · have := ih _ _ _ hp
        exact ⟨.step mv.1 mv.2 hmv this.1, this.2⟩
      · simp at hp

/-- every end of a maximal execution is enumerated (with enough fuel: `weight`) -/
theorem term_mem_leaves : ∀ (fuel : Nat) (s : State) (tr : List Label) (s' : State), weight s ≤ fuel → Term s s' →
    ∃ tr', (s', tr') ∈ leaves fuel s tr := by
  intro fuel
  induction fuel with
  | zero =>
    intro s tr s' hw ht
    obtain ⟨hr, hm⟩ := ht
    cases hr with
    | refl => exact ⟨tr, by rw [leaves]; simp [hm]⟩
    | step i tc hmem _ =>
      have := step_weight_lt s i tc hmem
      omega
  | succ fuel ih =>
    intro s tr s' hw ht
    obtain ⟨hr, hm⟩ := ht
    cases hr with
    | refl => exact ⟨tr, by rw [leaves_succ]; simp [hm]⟩
    | step i tc hmem hr' =>
      have hlt := step_weight_lt s i tc hmem
      obtain ⟨l, hl⟩ := labelAt_some_of_mem hmem
      obtain ⟨tr', htr'⟩ := ih (McRef.step s i tc) (l :: tr) s' (by omega) ⟨hr', hm⟩
      refine ⟨tr', ?_⟩
      rw [leaves_succ]
      have hne : moves s ≠ [] := fun e => by rw [e] at hmem; cases hmem
      simp only [hne, if_false, List.mem_flatMap]
      exact ⟨(i, tc), hmem, by simp only [hl]; exact htr'⟩

/-! ### what a fold of `leaf` records -/

def isNormalLeaf (s : State) : Bool := s.err == 0 && !isDeadlock s
def isDeadLeaf (s : State) : Bool := s.err == 0 && isDeadlock s
def isCrashLeaf (s : State) : Bool := s.err != 1 && s.err != 0
def isAssertLeaf (forbid : Option String) (s : State) : Bool := s.err == 1 || (isNormalLeaf s && forbid == some (outcome s))

theorem leaf_deadlock (keep : Bool) (forbid : Option String) (s : State) (tr : List Label) (acc : Result) :
    (leaf keep forbid s tr acc).deadlock = (acc.deadlock || isDeadLeaf s) := by
  unfold leaf isDeadLeaf
  simp only
  repeat' split
  all_goals simp_all

theorem leaf_crash (keep : Bool) (forbid : Option String) (s : State) (tr : List Label) (acc : Result) :
    (leaf keep forbid s tr acc).crash = (acc.crash || isCrashLeaf s) := by
  unfold leaf isCrashLeaf
  simp only
  repeat' split
  all_goals simp_all

theorem leaf_assert (keep : Bool) (forbid : Option String) (s : State) (tr : List Label) (acc : Result) :
    (leaf keep forbid s tr acc).assertFail = (acc.assertFail || isAssertLeaf forbid s) := by
  unfold leaf isAssertLeaf isNormalLeaf
  simp only
  repeat' split
  all_goals simp_all

theorem leaf_outcomes (keep : Bool) (forbid : Option String) (s : State) (tr : List Label) (acc : Result) (o : String) :
    o ∈ (leaf keep forbid s tr acc).outcomes ↔ o ∈ acc.outcomes ∨ (isNormalLeaf s = true ∧ outcome s = o) := by
  unfold leaf isNormalLeaf
  simp only
  repeat' split
  all_goals simp_all
  all_goals
    first
      | (intro h; subst h; assumption)
      | (constructor <;> (rintro (h | h); exact Or.inl h; exact Or.inr h.symm))

/-- flags recorded by a fold of `leaf` over a list of leaves -/
theorem fold_flag (keep : Bool) (forbid : Option String) (g : Result → Bool) (q : State → Bool)
    (hg : ∀ s tr acc, g (leaf keep forbid s tr acc) = (g acc || q s)) :
    ∀ (L : List (State × List Label)) (acc : Result),
      g (L.foldl (leafF keep forbid) acc) = (g acc || L.any (fun p => q p.1))
  | [], acc => by simp
  | p :: L, acc => by
    simp only [List.foldl_cons, List.any_cons]
    rw [fold_flag keep forbid g q hg L, leafF, hg, Bool.or_assoc]

theorem fold_outcomes (keep : Bool) (forbid : Option String) (o : String) :
    ∀ (L : List (State × List Label)) (acc : Result),
      o ∈ (L.foldl (leafF keep forbid) acc).outcomes ↔
        o ∈ acc.outcomes ∨ ∃ p ∈ L, isNormalLeaf p.1 = true ∧ outcome p.1 = o
  | [], acc => by simp
  | p :: L, acc => by
    simp only [List.foldl_cons, List.mem_cons, exists_eq_or_imp]
    rw [fold_outcomes keep forbid o L, leafF, leaf_outcomes, or_assoc]

/-- **Soundness and completeness of the explorer** from a state `s` with fuel `weight s` (what `explore` passes), when
the cap on the number of executions was not hit: the outcome vectors and the three verdict flags it adds to the
accumulator are exactly those of the ends of the maximal executions from `s`. -/
theorem exploreAux_spec (keep : Bool) (forbid : Option String) (cap : Nat) (s : State) (tr : List Label) (acc : Result)
    (hc : (exploreAux keep forbid cap (weight s) s tr acc).capped = false) :
    let r := exploreAux keep forbid cap (weight s) s tr acc
    (∀ o, o ∈ r.outcomes ↔ o ∈ acc.outcomes ∨ ∃ s', Term s s' ∧ isNormalLeaf s' = true ∧ outcome s' = o) ∧
    (r.deadlock = true ↔ acc.deadlock = true ∨ ∃ s', Term s s' ∧ isDeadLeaf s' = true) ∧
    (r.crash = true ↔ acc.crash = true ∨ ∃ s', Term s s' ∧ isCrashLeaf s' = true) ∧
    (r.assertFail = true ↔ acc.assertFail = true ∨ ∃ s', Term s s' ∧ isAssertLeaf forbid s' = true) := by
  intro r
  have hr : r = (leaves (weight s) s tr).foldl (leafF keep forbid) acc :=
    exploreAux_eq_fold keep forbid cap (weight s) s tr acc (Nat.le_refl _) hc
  have hex : ∀ (q : State → Bool), (leaves (weight s) s tr).any (fun p => q p.1) = true ↔ ∃ s', Term s s' ∧ q s' = true := by
    intro q
    rw [List.any_eq_true]
    constructor
    · rintro ⟨p, hp, hq⟩
      exact ⟨p.1, mem_leaves_term _ _ _ _ hp, hq⟩
    · rintro ⟨s', ht, hq⟩
      obtain ⟨tr', hm⟩ := term_mem_leaves (weight s) s tr s' (Nat.le_refl _) ht
      exact ⟨(s', tr'), hm, hq⟩
  refine ⟨?_, ?_, ?_, ?_⟩
  · intro o
    rw [hr, fold_outcomes]
    constructor
    · rintro (h | ⟨p, hp, hn, ho⟩)
      · exact Or.inl h
      · exact Or.inr ⟨p.1, mem_leaves_term _ _ _ _ hp, hn, ho⟩
    · rintro (h | ⟨s', ht, hn, ho⟩)
      · exact Or.inl h
      · obtain ⟨tr', hm⟩ := term_mem_leaves (weight s) s tr s' (Nat.le_refl _) ht
        exact Or.inr ⟨(s', tr'), hm, hn, ho⟩
  · rw [hr, fold_flag keep forbid (·.deadlock) isDeadLeaf (leaf_deadlock keep forbid), Bool.or_eq_true, hex]
  · rw [hr, fold_flag keep forbid (·.crash) isCrashLeaf (leaf_crash keep forbid), Bool.or_eq_true, hex]
  · rw [hr, fold_flag keep forbid (·.assertFail) (isAssertLeaf forbid) (leaf_assert keep forbid), Bool.or_eq_true, hex]

end SgVerif.C38.Lemmas
