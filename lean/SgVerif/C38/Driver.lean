/-
C38 driver.  Lines:
  `ref <cap> <program…>`                       -> `REF nexec=… dl=… af=… crash=… capped=… exh=… o=<outcome>…`   (oracle)
  `chk <cfg> <cap> <program…> => rc=… o=… …`   -> ok | DISAGREE | MONFAIL | BADLINE                              (judge)
then `END <n>`.
-/
import SgVerif.McRef.DriverLib
open SgVerif SgVerif.McRef SgVerif.Proto

def main : IO Unit := driverMain (fun q a => match q with
  | "chk" :: rest => judgeChk rest a
  | _ => .bad)
