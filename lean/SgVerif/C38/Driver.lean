/-
C38 driver.  Lines:
  `ref <cap> <program…>`                       -> `REF nexec=… dl=… af=… crash=… capped=… exh=… o=<outcome>…`   (oracle)
  `chk <cfg> <cap> <program…> => rc=… o=… …`   -> ok | DISAGREE | MONFAIL | BADLINE                              (judge)
then `END <n>`.
-/
import SgVerif.McRef.DriverLib
open SgVerif SgVerif.McRef SgVerif.Proto

partial def loop (h : IO.FS.Stream) (n : Nat) : IO Nat := do
  let line ← h.getLine
  if line.isEmpty then return n
  let l := line.trimAscii.toString
  if l.isEmpty then loop h n else
  match splitQA l with
  | none => IO.println s!"BADLINE {l}"; loop h (n+1)
  | some (q, a) =>
    match q with
    | "ref" :: capS :: prog =>
      match capS.toNat?, parseProgram prog with
      | some cap, some p => IO.println (refLine (explore p false cap))
      | _, _ => IO.println s!"BADLINE {l}"
    | "chk" :: rest =>
      match judgeChk rest a with
      | .ok => IO.println "ok"
      | .disagree m => IO.println s!"DISAGREE {" ".intercalate q} => model={m} impl={" ".intercalate a}"
      | .monfail r => IO.println s!"MONFAIL {" ".intercalate q} => {r}"
      | .bad => IO.println s!"BADLINE {l}"
    | _ => IO.println s!"BADLINE {l}"
    (← IO.getStdout).flush
    loop h (n+1)

def main : IO Unit := do
  let n ← loop (← IO.getStdin) 0
  IO.println s!"END {n}"
