/-
Helper lemmas for C38: every transition of the reference LTS decreases `weight`, hence the explorer's fuel suffices.
-/
import SgVerif.McRef.Model
namespace SgVerif.C38.Lemmas
open SgVerif.McRef

theorem sum_modifyAt {α : Type} (w : α → Nat) (f : α → α) : ∀ (l : List α) (i : Nat) (x : α), l[i]? = some x →
    ((modifyAt l i f).map w).sum + w x = (l.map w).sum + w (f x)
  | [], i, x, h => by simp at h
  | a :: t, 0, x, h => by
    simp at h; subst h; simp [modifyAt]; omega
  | a :: t, i+1, x, h => by
    simp at h
    have := sum_modifyAt w f t i x h
    simp [modifyAt]; omega

theorem modifyAt_getElem?_ne {α : Type} (f : α → α) : ∀ (l : List α) (i j : Nat), i ≠ j → (modifyAt l i f)[j]? = l[j]?
  | [], _, _, _ => by simp [modifyAt]
  | a :: t, 0, 0, h => by simp at h
  | a :: t, 0, j+1, _ => by simp [modifyAt]
  | a :: t, i+1, 0, _ => by simp [modifyAt]
  | a :: t, i+1, j+1, h => by
    simp [modifyAt]
    exact modifyAt_getElem?_ne f t i j (by omega)

theorem advance_weight (s : State) (i : Nat) (a : Actor) : ∀ l, actorWeight (advance s i a l).1 ≤ opsWeight l := by
  intro l
  induction l with
  | nil => simp [advance, actorWeight, pendWeight, opsWeight]
  | cons op rest ih =>
    have hrest : opsWeight (op :: rest) = opWeight op + opsWeight rest := by simp [opsWeight]
    rw [hrest]
    cases op <;> simp only [advance] <;> (repeat' split) <;>
      simp_all [actorWeight, pendWeight, opWeight] <;> omega

theorem finishStep_weight (s : State) (i : Nat) (a a0 : Actor) (h : s.actors[i]? = some a0) :
    weight (finishStep s i a) + actorWeight a0 ≤ weight s + opsWeight a.todo := by
  have hw := advance_weight s i a a.todo
  have hs := sum_modifyAt actorWeight (fun _ => (advance s i a a.todo).1) s.actors i a0 h
  simp only [finishStep, weight]
  omega

theorem finishStep_actors_ne (s : State) (i j : Nat) (a : Actor) (h : i ≠ j) :
    (finishStep s i a).actors[j]? = s.actors[j]? := by
  simp only [finishStep]
  exact modifyAt_getElem?_ne _ _ _ _ h

theorem setPend_weight (s : State) (i : Nat) (a a0 : Actor) (p : Pend) (h : s.actors[i]? = some a0) :
    weight (setPend s i a p) + actorWeight a0 = weight s + (pendWeight (some p) + opsWeight a.todo) := by
  have hs := sum_modifyAt actorWeight (fun _ => { a with pend := some p }) s.actors i a0 h
  simp only [setPend, weight]
  simp only [actorWeight] at hs ⊢
  omega

theorem crash_weight (s : State) (i : Nat) (a a0 : Actor) (h : s.actors[i]? = some a0) :
    weight (crash s i a) + actorWeight a0 = weight s + opsWeight a.todo := by
  have hs := sum_modifyAt actorWeight (fun _ => { a with pend := none }) s.actors i a0 h
  simp only [crash, weight]
  simp only [actorWeight, pendWeight] at hs ⊢
  omega

theorem pendWeight_pos (p : Pend) : 0 < pendWeight (some p) := by
  cases p with
  | commAsyncSend x v sl => cases sl <;> simp [pendWeight]
  | commAsyncRecv x sl => cases sl <;> simp [pendWeight]
  | _ => simp [pendWeight]


/-- Executing the pending simcall `p` of actor `i` strictly decreases the weight. -/
theorem execPend_weight_lt (s : State) (i : Nat) (a : Actor) (p : Pend) (tc : Nat)
    (h : s.actors[i]? = some a) (hp : a.pend = some p) : weight (execPend s i a p tc) < weight s := by
  have haw : actorWeight a = pendWeight (some p) + opsWeight a.todo := by simp [actorWeight, hp]
  have hpos := pendWeight_pos p
  cases p with
  | mutexAsyncLock m =>
    simp only [execPend]
    have := setPend_weight { s with mutexes := modifyAt s.mutexes m (fun mu => mutexLockAsync mu i) } i a a (.mutexWait m) h
    simp only [pendWeight] at this haw
    have hw : weight { s with mutexes := modifyAt s.mutexes m (fun mu => mutexLockAsync mu i) } = weight s := rfl
    omega
  | mutexWait m =>
    simp only [execPend]
    have := finishStep_weight s i a a h
    omega
  | mutexTrylock m =>
    simp only [execPend]
    split
    · have := finishStep_weight { s with mutexes := modifyAt s.mutexes m (fun mu => { mu with owner := some i }) } i
        { a with obs := a.obs ++ [1] } a h
      have hw : weight { s with mutexes := modifyAt s.mutexes m (fun mu => { mu with owner := some i }) } = weight s := rfl
      simp only at this
      omega
    · have := finishStep_weight s i { a with obs := a.obs ++ [0] } a h
      simp only at this
      omega
  | mutexUnlock m =>
    simp only [execPend]
    split
    · have := finishStep_weight { s with mutexes := modifyAt s.mutexes m mutexRelease } i a a h
      have hw : weight { s with mutexes := modifyAt s.mutexes m mutexRelease } = weight s := rfl
      omega
    · have := crash_weight s i a a h
      omega
  | semAsyncLock k =>
    simp only [execPend]
    have := setPend_weight { s with sems := modifyAt s.sems k (fun se => semAcquireAsync se i) } i a a (.semWait k) h
    simp only [pendWeight] at this haw
    have hw : weight { s with sems := modifyAt s.sems k (fun se => semAcquireAsync se i) } = weight s := rfl
    omega
  | semWait k =>
    simp only [execPend]
    have := finishStep_weight s i a a h
    omega
  | semUnlock k =>
    simp only [execPend]
    have := finishStep_weight { s with sems := modifyAt s.sems k semRelease } i a a h
    have hw : weight { s with sems := modifyAt s.sems k semRelease } = weight s := rfl
    omega
  | barAsyncLock b =>
    simp only [execPend]
    have := setPend_weight { s with bars := modifyAt s.bars b (fun ba => barAcquireAsync ba i) } i a a (.barWait b) h
    simp only [pendWeight] at this haw
    have hw : weight { s with bars := modifyAt s.bars b (fun ba => barAcquireAsync ba i) } = weight s := rfl
    omega
  | barWait b =>
    simp only [execPend]
    have := finishStep_weight s i a a h
    omega
  | cvAsyncLock c m =>
    simp only [execPend]
    split
    · have := setPend_weight { s with mutexes := modifyAt s.mutexes m mutexRelease,
                                      cvs := modifyAt s.cvs c (fun cv => { cv with queue := cv.queue ++ [i] }) } i a a (.cvWait c m) h
      simp only [pendWeight] at this haw
      have hw : weight { s with mutexes := modifyAt s.mutexes m mutexRelease,
                                cvs := modifyAt s.cvs c (fun cv => { cv with queue := cv.queue ++ [i] }) } = weight s := rfl
      omega
    · have := crash_weight s i a a h
      omega
  | cvWait c m =>
    simp only [execPend]
    have := setPend_weight { s with mutexes := modifyAt s.mutexes m (fun mu => mutexLockAsync mu i) } i a a (.mutexWait m) h
    simp only [pendWeight] at this haw
    have hw : weight { s with mutexes := modifyAt s.mutexes m (fun mu => mutexLockAsync mu i) } = weight s := rfl
    omega
  | cvSignal c =>
    simp only [execPend]
    have := finishStep_weight { s with cvs := modifyAt s.cvs c (fun cv => { cv with queue := cv.queue.tail }) } i a a h
    have hw : weight { s with cvs := modifyAt s.cvs c (fun cv => { cv with queue := cv.queue.tail }) } = weight s := rfl
    omega
  | cvBroadcast c =>
    simp only [execPend]
    have := finishStep_weight { s with cvs := modifyAt s.cvs c (fun cv => { cv with queue := [] }) } i a a h
    have hw : weight { s with cvs := modifyAt s.cvs c (fun cv => { cv with queue := [] }) } = weight s := rfl
    omega
  | commAsyncSend x v slot =>
    simp only [execPend]
    split
    · have := crash_weight s i a a h
      omega
    · rename_i mb _
      cases slot with
      | none =>
        simp only
        have := setPend_weight
          { s with mboxes := modifyAt s.mboxes x (fun mb => { mb with nsend := mb.nsend + 1 }),
                   comms := if mb.nsend < mb.nrecv then updComm s.comms x mb.nsend (fun c => { c with src := some i, val := v })
                            else s.comms ++ [{ x := x, n := mb.nsend, src := some i, dst := none, val := v }] }
          i a a (.commWait x mb.nsend false none) h
        simp only [pendWeight] at this haw
        simp only [weight] at this ⊢
        omega
      | some sl =>
        simp only
        have := finishStep_weight
          { s with mboxes := modifyAt s.mboxes x (fun mb => { mb with nsend := mb.nsend + 1 }),
                   comms := if mb.nsend < mb.nrecv then updComm s.comms x mb.nsend (fun c => { c with src := some i, val := v })
                            else s.comms ++ [{ x := x, n := mb.nsend, src := some i, dst := none, val := v }] }
          i (slotSet a sl x mb.nsend false) a h
        simp only [weight, slotSet] at this ⊢
        omega
  | commAsyncRecv x slot =>
    simp only [execPend]
    split
    · have := crash_weight s i a a h
      omega
    · rename_i mb _
      cases slot with
      | none =>
        simp only
        have := setPend_weight
          { s with mboxes := modifyAt s.mboxes x (fun mb => { mb with nrecv := mb.nrecv + 1 }),
                   comms := if mb.nrecv < mb.nsend then updComm s.comms x mb.nrecv (fun c => { c with dst := some i })
                            else s.comms ++ [{ x := x, n := mb.nrecv, src := none, dst := some i, val := 0 }] }
          i a a (.commWait x mb.nrecv true none) h
        simp only [pendWeight] at this haw
        simp only [weight] at this ⊢
        omega
      | some sl =>
        simp only
        have := finishStep_weight
          { s with mboxes := modifyAt s.mboxes x (fun mb => { mb with nrecv := mb.nrecv + 1 }),
                   comms := if mb.nrecv < mb.nsend then updComm s.comms x mb.nrecv (fun c => { c with dst := some i })
                            else s.comms ++ [{ x := x, n := mb.nrecv, src := none, dst := some i, val := 0 }] }
          i (slotSet a sl x mb.nrecv true) a h
        simp only [weight, slotSet] at this ⊢
        omega
  | commWait x n r slot =>
    simp only [execPend]
    have htodo : ∀ (a1 : Actor), a1.todo = a.todo → weight (finishStep s i a1) < weight s := by
      intro a1 h1
      have := finishStep_weight s i a1 a h
      rw [h1] at this
      omega
    apply htodo
    cases slot <;> cases r <;> simp [slotClear]
  | commTest x n r slot =>
    simp only [execPend]
    have htodo : ∀ (a1 : Actor), a1.todo = a.todo → weight (finishStep s i a1) < weight s := by
      intro a1 h1
      have := finishStep_weight s i a1 a h
      rw [h1] at this
      omega
    split
    · apply htodo
      cases r <;> simp [slotClear]
    · apply htodo
      rfl
  | actorCreate k =>
    simp only [execPend]
    split
    · have := crash_weight s i a a h
      omega
    · rename_i c hc
      split
      · rename_i hcond
        obtain ⟨hpid, hpend, hne⟩ := hcond
        have h1 := finishStep_weight { s with nextPid := s.nextPid + 1 } (s.nstatic + k) { c with pid := s.nextPid } c hc
        have hcw : actorWeight c = opsWeight c.todo := by simp [actorWeight, hpend, pendWeight]
        have hi : (finishStep { s with nextPid := s.nextPid + 1 } (s.nstatic + k) { c with pid := s.nextPid }).actors[i]? = some a := by
          rw [finishStep_actors_ne _ _ _ _ hne]; exact h
        have h2 := finishStep_weight _ i a a hi
        have hw : weight { s with nextPid := s.nextPid + 1 } = weight s := rfl
        simp only at h1
        omega
      · have := crash_weight s i a a h
        omega
  | actorJoin t =>
    simp only [execPend]
    have := finishStep_weight s i a a h
    omega
  | random lo hi =>
    simp only [execPend]
    have := finishStep_weight s i { a with obs := a.obs ++ [lo + (tc : Int)] } a h
    simp only at this
    omega


theorem mem_movesOf {s : State} {i j tc : Nat} (h : (j, tc) ∈ movesOf s i) :
    j = i ∧ ∃ a p, s.actors[i]? = some a ∧ a.pend = some p ∧ actorEnabled s i = true ∧ tc < maxConsider p := by
  unfold movesOf at h
  split at h
  · simp at h
  · rename_i a ha
    split at h
    · simp at h
    · rename_i p hp
      split at h
      · rename_i hen
        simp only [List.mem_map, List.mem_range, Prod.mk.injEq] at h
        obtain ⟨t, ht, h1, h2⟩ := h
        subst h1 h2
        exact ⟨rfl, a, p, ha, hp, hen, ht⟩
      · simp at h

theorem step_weight_lt (s : State) (i tc : Nat) (h : (i, tc) ∈ moves s) : weight (step s i tc) < weight s := by
  unfold moves at h
  simp only [List.mem_flatMap] at h
  obtain ⟨j, _, hj⟩ := h
  obtain ⟨hij, a, p, ha, hp, hen, htc⟩ := mem_movesOf hj
  subst hij
  unfold step
  simp only [ha, hp, hen, htc, decide_true, Bool.and_self, if_true]
  exact execPend_weight_lt s i a p tc ha hp

theorem labelAt_some_of_mem {s : State} {i tc : Nat} (h : (i, tc) ∈ moves s) : ∃ l, labelAt s i tc = some l := by
  unfold moves at h
  simp only [List.mem_flatMap] at h
  obtain ⟨j, _, hj⟩ := h
  obtain ⟨hij, a, p, ha, hp, hen, htc⟩ := mem_movesOf hj
  subst hij
  unfold labelAt
  simp [ha, hp, hen, htc]

theorem leaf_exhausted (keep : Bool) (forbid : Option String) (s : State) (tr : List Label) (acc : Result) :
    (leaf keep forbid s tr acc).exhausted = acc.exhausted := by
  unfold leaf
  simp only
  repeat' split
  all_goals rfl

theorem exploreAux_exhausted (keep : Bool) (forbid : Option String) (cap : Nat) :
    ∀ (fuel : Nat) (s : State) (tr : List Label) (acc : Result), weight s ≤ fuel →
      (exploreAux keep forbid cap fuel s tr acc).exhausted = acc.exhausted := by
  intro fuel
  induction fuel with
  | zero =>
    intro s tr acc hw
    unfold exploreAux
    split
    · exact leaf_exhausted ..
    · rename_i hne
      exfalso
      cases hm : moves s with
      | nil => simp [hm] at hne
      | cons mv rest =>
        have : (mv.1, mv.2) ∈ moves s := by rw [hm]; exact List.mem_cons_self
        have := step_weight_lt s mv.1 mv.2 this
        omega
  | succ fuel ih =>
    intro s tr acc hw
    have hfold : ∀ (ms : List (Nat × Nat)), (∀ mv ∈ ms, (mv.1, mv.2) ∈ moves s) → ∀ acc : Result,
        (ms.foldl (fun acc mv =>
          match labelAt s mv.1 mv.2 with
          | some l => exploreAux keep forbid cap fuel (step s mv.1 mv.2) (l :: tr) acc
          | none => acc) acc).exhausted = acc.exhausted := by
      intro ms
      induction ms with
      | nil => intro _ acc; rfl
      | cons mv rest ihl =>
        intro hall acc
        simp only [List.foldl_cons]
        have hmv := hall mv List.mem_cons_self
        have hlt := step_weight_lt s mv.1 mv.2 hmv
        rw [ihl (fun m hm => hall m (List.mem_cons_of_mem _ hm))]
        split
        · exact ih _ _ _ (by omega)
        · rfl
    unfold exploreAux
    split
    · rfl
    · split
      · exact leaf_exhausted ..
      · exact hfold (moves s) (fun mv hmv => hmv) acc

end SgVerif.C38.Lemmas
