import SgVerif.McRef.Model
namespace SgVerif.C38
theorem stub : True := trivial
end SgVerif.C38
