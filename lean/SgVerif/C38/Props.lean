/-
C38 — model-checker reductions are sound (partial).

What is proved (∀ transition systems, ∀ dependency relations satisfying the commutation hypothesis, ∀ executions):
  * `indep_swap_same_state`        two adjacent independent transitions can be swapped: same reached state (or both refused)
  * `equiv_traces_same_outcome`    Mazurkiewicz-equivalent executions reach the same state, hence the same terminal outcome
  * `deadlock_preserved_in_class`  if one execution of a class ends in a deadlock, every execution of the class does
  * `cover_reaches_reference_outcomes`  an exploration that contains at least one execution of every class of maximal
                                    executions reaches exactly the terminal outcomes (and deadlocks) of the full system
  * instantiated on the reference LTS of the mini-language (`mc_equiv_traces_same_outcome`), whose explorer never
    runs out of fuel (`fuel_sufficient`).
The commutation hypothesis (`LTS.Commutes`) is, for SimGrid's `Transition::depends`, the theorem of C39.

NOT proved (full statement of C38): that DPOR / SDPOR / ODPOR / UDPOR with sleep sets and wakeup trees visit at least one
execution of every class, i.e. that the hypothesis `hcover` below holds for the set of executions they explore.  This is
CHECKED per program by props/C38/check.py (outcome sets and verdicts of every reduction against the reference
explorer), not proved.
-/
import SgVerif.McRef.Lts
import SgVerif.C38.Lemmas
import SgVerif.C38.Explore
namespace SgVerif.C38
open SgVerif.McRef SgVerif.McRef.LTS

variable {σ τ : Type}

/-- Two adjacent independent transitions commute: same state after `x y u` and `y x u` (or both are refused). -/
theorem indep_swap_same_state (L : LTS σ τ) (dep : τ → τ → Bool) (hc : Commutes L dep)
    (s : σ) (x y : τ) (u : List τ) (h : dep x y = false) :
    L.run s (x :: y :: u) = L.run s (y :: x :: u) := by
  have h' : dep y x = false := by rw [hc.sym]; exact h
  simp only [LTS.run]
  cases hx : L.enabled s x <;> cases hy : L.enabled s y
  · simp
  · simp [hc.persist s y x h' hy, hx]
  · simp [hc.persist s x y h hx, hy]
  · simp [hc.persist s x y h hx, hy, hc.persist s y x h' hy, hx, hc.comm s x y h hx hy]

/-- Mazurkiewicz-equivalent executions reach the same state from every state (induction on the swaps). -/
theorem equiv_traces_same_outcome (L : LTS σ τ) (dep : τ → τ → Bool) (hc : Commutes L dep)
    {u v : List τ} (h : TraceEq dep u v) : ∀ s, L.run s u = L.run s v := by
  induction h with
  | nil => intro s; rfl
  | cons a _ ih =>
    intro s
    simp only [LTS.run]
    split
    · exact ih _
    · rfl
  | swap x y u hxy => intro s; exact indep_swap_same_state L dep hc s x y u hxy
  | trans _ _ ih1 ih2 => intro s; exact (ih1 s).trans (ih2 s)

/-- Maximal executions stay maximal, with the same final state, inside their class. -/
theorem complete_preserved_in_class (L : LTS σ τ) (dep : τ → τ → Bool) (hc : Commutes L dep)
    {u v : List τ} (h : TraceEq dep u v) (s s' : σ) (hu : L.Complete s u s') : L.Complete s v s' :=
  ⟨by rw [← equiv_traces_same_outcome L dep hc h s]; exact hu.1, hu.2⟩

/-- If one execution of a class ends in a deadlock (any predicate of the final state), all of them do. -/
theorem deadlock_preserved_in_class (L : LTS σ τ) (dep : τ → τ → Bool) (hc : Commutes L dep)
    (isDeadlock : σ → Prop) {u v : List τ} (h : TraceEq dep u v) (s : σ)
    (hu : ∃ s', L.Complete s u s' ∧ isDeadlock s') : ∃ s', L.Complete s v s' ∧ isDeadlock s' := by
  obtain ⟨s', hc', hd⟩ := hu
  exact ⟨s', complete_preserved_in_class L dep hc h s s' hc', hd⟩

/-- A reduction that explores a set `E` of maximal executions containing at least one representative of every class
reaches exactly the final states (outcomes `out`, deadlocks) of the whole system. -/
theorem cover_reaches_reference_outcomes (L : LTS σ τ) (dep : τ → τ → Bool) (hc : Commutes L dep)
    {ω : Type} (out : σ → ω) (s0 : σ) (E : List τ → Prop)
    (hsub : ∀ v, E v → ∃ s', L.Complete s0 v s')
    (hcover : ∀ u s', L.Complete s0 u s' → ∃ v, E v ∧ TraceEq dep u v) (o : ω) :
    (∃ u s', L.Complete s0 u s' ∧ out s' = o) ↔ (∃ v s', E v ∧ L.Complete s0 v s' ∧ out s' = o) := by
  constructor
  · rintro ⟨u, s', hu, ho⟩
    obtain ⟨v, hv, heq⟩ := hcover u s' hu
    exact ⟨v, s', hv, complete_preserved_in_class L dep hc heq s0 s' hu, ho⟩
  · rintro ⟨v, s', _, hv, ho⟩
    exact ⟨v, s', hv, ho⟩

/-! ### the reference LTS of the mini-language -/

/-- C38 on the reference LTS: for every dependency relation that satisfies the commutation hypothesis on it (C39),
equivalent executions of every program end in the same state: same outcome vector, same deadlock verdict. -/
theorem mc_equiv_traces_same_outcome (dep : Label → Label → Bool) (hc : Commutes mcLTS dep) (p : Program)
    {u v : List Label} (h : TraceEq dep u v) :
    (mcLTS.run (initState p) u).map (fun s => (outcome s, isDeadlock s, s.err)) =
    (mcLTS.run (initState p) v).map (fun s => (outcome s, isDeadlock s, s.err)) := by
  rw [equiv_traces_same_outcome mcLTS dep hc h]

/-- Every transition of the reference LTS consumes at least one unit of `weight` (the number of transitions the
loop-free program can still do). -/
theorem step_decreases_weight (s : State) (i tc : Nat) (h : (i, tc) ∈ moves s) : weight (step s i tc) < weight s :=
  Lemmas.step_weight_lt s i tc h

/-- The reference explorer never runs out of fuel when started with `weight s` (as `Reference.explore` does). -/
theorem fuel_sufficient (keep : Bool) (forbid : Option String) (cap : Nat) (s : State) (tr : List Label) (acc : Result) :
    (exploreAux keep forbid cap (weight s) s tr acc).exhausted = acc.exhausted :=
  Lemmas.exploreAux_exhausted keep forbid cap (weight s) s tr acc (Nat.le_refl _)

theorem explore_not_exhausted (p : Program) (keep : Bool) (cap : Nat) : (explore p keep cap).exhausted = false := by
  unfold explore
  rw [fuel_sufficient]


/-! ### the reference explorer is sound and complete -/

/-- **`Reference.explore` returns exactly the outcomes of the maximal runs** (soundness + completeness of the explorer),
for every program, whenever the cap on the number of executions was not hit (`capped = false`; the fuel never runs out:
`fuel_sufficient`).  `Lemmas.Term s s'` = `s'` is reachable from `s` by enabled transitions (`moves`, `step`) and has no
enabled transition.  Outcome vectors: those of the ends that are neither failed nor deadlocked; `deadlock` / `crash` /
`assertFail`: some end is a deadlock / has `err ∉ {0,1}` / has `err = 1` or is a normal end with the forbidden outcome. -/
theorem explore_sound_complete (p : Program) (keep : Bool) (cap : Nat) (hc : (explore p keep cap).capped = false) :
    (∀ o, o ∈ (explore p keep cap).outcomes ↔
        ∃ s', Lemmas.Term (initState p) s' ∧ Lemmas.isNormalLeaf s' = true ∧ outcome s' = o) ∧
    ((explore p keep cap).deadlock = true ↔ ∃ s', Lemmas.Term (initState p) s' ∧ Lemmas.isDeadLeaf s' = true) ∧
    ((explore p keep cap).crash = true ↔ ∃ s', Lemmas.Term (initState p) s' ∧ Lemmas.isCrashLeaf s' = true) ∧
    ((explore p keep cap).assertFail = true ↔ ∃ s', Lemmas.Term (initState p) s' ∧ Lemmas.isAssertLeaf p.forbid s' = true) := by
  have h := Lemmas.exploreAux_spec keep p.forbid cap (initState p) [] {} hc
  simpa [explore] using h

/-- the explorer as a fold: with enough fuel and without hitting the cap, `exploreAux` is the fold of `leaf` over the DFS
enumeration `Lemmas.leaves` of the ends of the maximal executions -/
theorem explore_eq_fold_leaves (keep : Bool) (forbid : Option String) (cap : Nat) (s : State) (tr : List Label) (acc : Result)
    (hc : (exploreAux keep forbid cap (weight s) s tr acc).capped = false) :
    exploreAux keep forbid cap (weight s) s tr acc = (Lemmas.leaves (weight s) s tr).foldl (Lemmas.leafF keep forbid) acc :=
  Lemmas.exploreAux_eq_fold keep forbid cap (weight s) s tr acc (Nat.le_refl _) hc

-- non-vacuity: a program with one actor drawing MC_random(0,1): the cap is not hit, two maximal executions
example : (explore { statics := [[.random 0 1]] }).capped = false ∧ (explore { statics := [[.random 0 1]] }).nexec = 2 := by decide
example : ∃ s', Lemmas.Term (initState { statics := [[.random 0 1]] }) s' ∧ Lemmas.isNormalLeaf s' = true :=
  ⟨_, ⟨.step 0 1 (by decide) (.refl _), by decide⟩, by decide⟩

/-! ### non-vacuity -/

/-- A toy system with real independence: two counters; letter `b` increments counter `b`, enabled below 2.
Different letters are independent and the commutation hypothesis holds. -/
def toy : LTS (Nat × Nat) Bool where
  enabled s b := if b then s.2 < 2 else s.1 < 2
  exec s b := if b then (s.1, s.2 + 1) else (s.1 + 1, s.2)

def toyDep (x y : Bool) : Bool := x == y

theorem toy_commutes : Commutes toy toyDep where
  sym := by intro x y; cases x <;> cases y <;> rfl
  persist := by intro s x y h _; cases x <;> cases y <;> simp_all [toy, toyDep]
  comm := by intro s x y h _ _; cases x <;> cases y <;> simp_all [toy, toyDep]

example : TraceEq toyDep [true, false, true] [true, true, false] := .cons true (.swap false true [] rfl)
example : toy.run (0, 0) [true, false, true] = toy.run (0, 0) [true, true, false] :=
  equiv_traces_same_outcome toy toyDep toy_commutes (.cons true (.swap false true [] rfl)) (0, 0)
example : toy.run (0, 0) [true, false, true] = some (1, 2) := by decide

/-- On the reference LTS the total relation satisfies the hypothesis (degenerate instance: every class is a singleton). -/
theorem mc_commutes_total : Commutes mcLTS (fun _ _ => true) where
  sym := by intros; rfl
  persist := by intro _ _ _ h; cases h
  comm := by intro _ _ _ h; cases h

end SgVerif.C38
