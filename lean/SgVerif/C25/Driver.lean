import SgVerif.C25.Model
import SgVerif.Common.Proto
import Std.Data.HashMap
open SgVerif.Proto
namespace SgVerif.C25
open SgVerif.C24 (Lk Table fullAddRoute fullLocal tableGet)

structure Sealed where
  floyd : Option FloydSt                     -- none = an add_route assertion fired
  dij   : Option DGraph
  decl  : Std.HashMap (Nat × Nat) (List Lk)  -- declared one-hop routes incl. reversed copies and loopbacks
  full  : Option Table

structure St where
  n      : Nat := 0
  routes : List (Nat × Nat × Bool × List Lk) := []      -- in declaration order
  fulls  : List (Nat × Nat × Bool × List Lk) := []
  sealedSt : Option Sealed := none
  mins   : Std.HashMap Nat (List (Option Nat)) := {}      -- cache: minimal link counts from a source (spec)

def natList (l : List String) : Option (List Nat) := l.mapM String.toNat?

def showLinks (l : List Nat) : String := " ".intercalate (l.map toString)

def sealAll (s : St) : Sealed :=
  let fl := s.routes.foldl (fun acc r => acc.bind fun st => floydAddRoute st r.1 r.2.1 r.2.2.2 r.2.2.1) (some FloydSt.init)
  let dj := s.routes.foldl (fun acc r => acc.bind fun g => dijkstraAddRoute g r.1 r.2.1 r.2.2.2 r.2.2.1)
              (some ({ nodes := [], edges := [] } : DGraph))
  let decl : Std.HashMap (Nat × Nat) (List Lk) := s.routes.foldl (fun m r =>
      let m := if m.contains (r.1, r.2.1) then m else m.insert (r.1, r.2.1) r.2.2.2
      if r.2.2.1 ∧ ¬ m.contains (r.2.1, r.1) then m.insert (r.2.1, r.1) r.2.2.2.reverse else m) {}
  let decl := (List.range s.n).foldl (fun m i => if m.contains (i, i) then m else m.insert (i, i) [0]) decl
  let fu := s.fulls.foldl (fun acc r => acc.bind fun t => fullAddRoute false t r.1 r.2.1 none none r.2.2.2 r.2.2.1) (some [])
  { floyd := fl.map (floydSeal s.n), dij := dj.map dijkstraSeal, decl := decl, full := fu }

def showRes : Except RouteErr (List Lk) → String
  | .ok l => showLinks l
  | .error e => s!"error:{repr e}"

def judge (s : St) (q a : List String) : St × Verdict :=
  match q with
  | ["new", _] => ({}, .ok)
  | ["n", n] => match n.toNat? with
    | some n => ({ s with n := n }, .ok)
    | none => (s, .bad)
  | "route" :: x :: y :: sym :: links =>
    match x.toNat?, y.toNat?, natList links with
    | some x, some y, some links => ({ s with routes := s.routes ++ [(x, y, decide (sym = "1"), links)] }, .ok)
    | _, _, _ => (s, .bad)
  | "full" :: x :: y :: sym :: links =>
    match x.toNat?, y.toNat?, natList links with
    | some x, some y, some links => ({ s with fulls := s.fulls ++ [(x, y, decide (sym = "1"), links)] }, .ok)
    | _, _, _ => (s, .bad)
  | ["seal"] => ({ s with sealedSt := some (sealAll s) }, .ok)
  | "Q" :: algo :: x :: y :: _ =>
    match x.toNat?, y.toNat?, s.sealedSt with
    | some x, some y, some S =>
      let implErr := a = ["exc"] ∨ a = ["abort"] ∨ a = ["timeout"]
      match (if implErr then some [] else natList a) with
      | none => (s, .bad)
      | some links =>
        if algo = "full" then
          -- Full: exactly the declared route (or the loopback / nothing)
          match S.full with
          | none => (s, .bad)
          | some t =>
            let m : List Lk := match tableGet t x y with
              | some r => r.links
              | none => if x = y then [0] else []
            (s, if implErr then .disagree (showLinks m)
                else if links = m then .ok else .monfail s!"full zone returned {showLinks links}, declared {showLinks m}")
        else
          let model : Except RouteErr (List Lk) :=
            if algo = "floyd" then
              match S.floyd with
              | some f => floydRoute s.n f x y
              | none => .error .nullDeref
            else
              match S.dij with
              | some g => dijkstraRoute g 100000 x y
              | none => .error .nullDeref
          -- errors must agree in kind: "No route" is the exception (`exc`), a walk that does not terminate is a
          -- `timeout`, undefined behaviour an `abort` (or whatever it happened to do)
          let agree : Bool := match model with
            | .ok l => !implErr && l == links
            | .error .noRoute => a = ["exc"]
            | .error .loops => a = ["timeout"]
            | .error .nullDeref => implErr
          -- spec: minimal link count over all chains of declared routes
          let w : Tbl Nat := fun p q => (S.decl[(p, q)]?).map List.length
          let (s, mins) := match s.mins[x]? with
            | some m => (s, m)
            | none => let m := minCosts s.n w x; ({ s with mins := s.mins.insert x m }, m)
          let best : Option Nat := mins.getD y none
          let tag := if agree then "model=agree" else s!"model=differs({showRes model})"
          let mon : Option String :=
            if a = ["timeout"] then
              -- whatever the graph, a routing query must be answered (a route or the "No route" exception)
              some s!"no answer: the library spins on this query [{tag}]"
            else if implErr then
              match best with
              | some c => some s!"no route returned although a chain of {c} links exists [{tag}]"
              | none => none
            else
              match best with
              | none => some s!"route {showLinks links} returned although no chain of declared routes exists [{tag}]"
              | some c =>
                if !isChain s.n (fun p q => S.decl[(p, q)]?) links x y then
                  some s!"route {showLinks links} is not a chain of declared routes [{tag}]"
                else if links.length ≠ c then some s!"route {showLinks links} has {links.length} links, minimum is {c} [{tag}]"
                else none
          match mon with
          | some r => (s, .monfail r)
          | none => (s, if agree then .ok else .disagree (showRes model))
    | _, _, _ => (s, .bad)
  | _ => (s, .bad)

end SgVerif.C25

def main : IO Unit := SgVerif.Proto.runS ({} : SgVerif.C25.St) SgVerif.C25.judge
