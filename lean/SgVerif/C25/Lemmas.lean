import SgVerif.C25.Model
/-
C25 helper lemmas: ∞-extended arithmetic, chains (walkCost), the Floyd–Warshall recurrence `fw` is minimal over all
chains and realised by one, the in-place triple loop of FloydZone::do_seal computes `fw`.
-/
namespace SgVerif.C25
open SgVerif.C24 (Lk)

theorem optLe_refl (x : Option Nat) : optLe x x := by cases x <;> simp [optLe]

theorem optLe_trans {x y z : Option Nat} (h1 : optLe x y) (h2 : optLe y z) : optLe x z := by
  cases x <;> cases y <;> cases z <;> simp_all [optLe] <;> omega

theorem optMin_le_left (x y : Option Nat) : optLe (optMin x y) x := by
  cases x <;> cases y <;> simp [optLe, optMin] <;> omega

theorem optMin_le_right (x y : Option Nat) : optLe (optMin x y) y := by
  cases x <;> cases y <;> simp [optLe, optMin] <;> omega

theorem optAdd_mono {a b c d : Option Nat} (h1 : optLe a c) (h2 : optLe b d) : optLe (optAdd a b) (optAdd c d) := by
  cases a <;> cases b <;> cases c <;> cases d <;> simp_all [optLe, optAdd] <;> omega

theorem optAdd_assoc (a b c : Option Nat) : optAdd (optAdd a b) c = optAdd a (optAdd b c) := by
  cases a <;> cases b <;> cases c <;> simp [optAdd]; omega

theorem optMin_self_add (x c : Option Nat) : optMin x (optAdd c x) = x := by
  cases x <;> cases c <;> simp [optMin, optAdd]

theorem optMin_self_add' (x c : Option Nat) : optMin x (optAdd x c) = x := by
  cases x <;> cases c <;> simp [optMin, optAdd]

theorem walkCost_append (w : Tbl Nat) (pre : List Nat) : ∀ (a k : Nat) (post : List Nat) (b : Nat),
    walkCost w a (pre ++ k :: post) b = optAdd (walkCost w a pre k) (walkCost w k post b) := by
  induction pre with
  | nil => intro a k post b; simp [walkCost]
  | cons m ms ih => intro a k post b; simp [walkCost, ih, optAdd_assoc]

theorem fw_succ_le (w : Tbl Nat) (k a b : Nat) : optLe (fw w (k+1) a b) (fw w k a b) := by
  simp only [fw]; exact optMin_le_left _ _

theorem fw_pivot_row (w : Tbl Nat) (k b : Nat) : fw w (k+1) k b = fw w k k b := by
  simp only [fw]; exact optMin_self_add _ _

theorem fw_pivot_col (w : Tbl Nat) (k a : Nat) : fw w (k+1) a k = fw w k a k := by
  simp only [fw]; exact optMin_self_add' _ _

/-- a chain that visits `k` splits at its first visit -/
theorem split_first (k : Nat) : ∀ mid : List Nat, (∀ m ∈ mid, m < k + 1) → k ∈ mid →
    ∃ pre post, mid = pre ++ k :: post ∧ ∀ m ∈ pre, m < k := by
  intro mid
  induction mid with
  | nil => intro _ h; cases h
  | cons m ms ih =>
    intro hb hk
    by_cases hm : m = k
    · exact ⟨[], ms, by simp [hm], by simp⟩
    · have hk' : k ∈ ms := by
        rcases List.mem_cons.mp hk with h | h
        · exact absurd h.symm hm
        · exact h
      obtain ⟨pre, post, he, hp⟩ := ih (fun x hx => hb x (by simp [hx])) hk'
      refine ⟨m :: pre, post, by simp [he], ?_⟩
      intro x hx
      rcases List.mem_cons.mp hx with h | h
      · have := hb m (by simp); omega
      · exact hp x h

/-- **lower bound**: `fw w k a b` is at most the cost of every chain whose intermediate nodes are < k -/
theorem fw_le_walk (w : Tbl Nat) : ∀ (k : Nat) (mid : List Nat) (a b : Nat), (∀ m ∈ mid, m < k) →
    optLe (fw w k a b) (walkCost w a mid b) := by
  intro k
  induction k with
  | zero =>
    intro mid a b h
    cases mid with
    | nil => simp only [fw, walkCost]; exact optLe_refl _
    | cons m ms => have := h m (by simp); omega
  | succ k ihk =>
    -- strong induction on the length of the chain
    have main : ∀ (L : Nat) (mid : List Nat) (a b : Nat), mid.length ≤ L → (∀ m ∈ mid, m < k + 1) →
        optLe (fw w (k+1) a b) (walkCost w a mid b) := by
      intro L
      induction L with
      | zero =>
        intro mid a b hl _
        have : mid = [] := List.length_eq_zero_iff.mp (by omega)
        subst this
        exact optLe_trans (fw_succ_le w k a b) (ihk [] a b (by simp))
      | succ L ihL =>
        intro mid a b hl hb
        by_cases hk : k ∈ mid
        · obtain ⟨pre, post, he, hp⟩ := split_first k mid hb hk
          subst he
          rw [walkCost_append]
          have h1 : optLe (fw w k a k) (walkCost w a pre k) := ihk pre a k hp
          have h2 : optLe (fw w (k+1) k b) (walkCost w k post b) := by
            apply ihL post k b
            · simp at hl; omega
            · intro m hm; exact hb m (by simp [hm])
          rw [fw_pivot_row] at h2
          have h3 : optLe (fw w (k+1) a b) (optAdd (fw w k a k) (fw w k k b)) := by
            simp only [fw]; exact optMin_le_right _ _
          exact optLe_trans h3 (optAdd_mono h1 h2)
        · have hb' : ∀ m ∈ mid, m < k := by
            intro m hm
            have := hb m hm
            have : m ≠ k := fun e => hk (e ▸ hm)
            omega
          exact optLe_trans (fw_succ_le w k a b) (ihk mid a b hb')
    intro mid a b h
    exact main mid.length mid a b (Nat.le_refl _) h

/-- **realised**: every finite `fw` value is the cost of an actual chain with intermediate nodes < k -/
theorem fw_sound (w : Tbl Nat) : ∀ (k a b c : Nat), fw w k a b = some c →
    ∃ mid, (∀ m ∈ mid, m < k) ∧ walkCost w a mid b = some c := by
  intro k
  induction k with
  | zero => intro a b c h; exact ⟨[], by simp, by simpa [fw, walkCost] using h⟩
  | succ k ih =>
    intro a b c h
    simp only [fw] at h
    cases h1 : fw w k a b with
    | some x =>
      cases h2 : optAdd (fw w k a k) (fw w k k b) with
      | some y =>
        rw [h1, h2] at h
        simp only [optMin, Option.some.injEq] at h
        by_cases hxy : x ≤ y
        · obtain ⟨mid, hm, hc⟩ := ih a b x h1
          exact ⟨mid, fun m hm' => Nat.lt_succ_of_lt (hm m hm'), by rw [hc]; congr; omega⟩
        · -- through k
          cases h3 : fw w k a k with
          | none => simp [h3, optAdd] at h2
          | some p =>
            cases h4 : fw w k k b with
            | none => simp [h3, h4, optAdd] at h2
            | some q =>
              obtain ⟨m1, hm1, hc1⟩ := ih a k p h3
              obtain ⟨m2, hm2, hc2⟩ := ih k b q h4
              refine ⟨m1 ++ k :: m2, ?_, ?_⟩
              · intro m hm
                rcases List.mem_append.mp hm with h' | h'
                · exact Nat.lt_succ_of_lt (hm1 m h')
                · rcases List.mem_cons.mp h' with h'' | h''
                  · omega
                  · exact Nat.lt_succ_of_lt (hm2 m h'')
              · rw [walkCost_append, hc1, hc2]
                simp only [h3, h4, optAdd, Option.some.injEq] at h2
                simp only [optAdd]; congr; omega
      | none =>
        rw [h1, h2] at h
        simp only [optMin, Option.some.injEq] at h
        obtain ⟨mid, hm, hc⟩ := ih a b x h1
        exact ⟨mid, fun m hm' => Nat.lt_succ_of_lt (hm m hm'), by rw [hc, h]⟩
    | none =>
      rw [h1] at h
      simp only [optMin] at h
      cases h3 : fw w k a k with
      | none => simp [h3, optAdd] at h
      | some p =>
        cases h4 : fw w k k b with
        | none => simp [h3, h4, optAdd] at h
        | some q =>
          obtain ⟨m1, hm1, hc1⟩ := ih a k p h3
          obtain ⟨m2, hm2, hc2⟩ := ih k b q h4
          refine ⟨m1 ++ k :: m2, ?_, ?_⟩
          · intro m hm
            rcases List.mem_append.mp hm with h' | h'
            · exact Nat.lt_succ_of_lt (hm1 m h')
            · rcases List.mem_cons.mp h' with h'' | h''
              · omega
              · exact Nat.lt_succ_of_lt (hm2 m h'')
          · rw [walkCost_append, hc1, hc2]
            simpa [h3, h4, optAdd] using h

/- ---------------------------------------------------------------- the in-place triple loop computes `fw` -/

/-- one relaxation through `c` of the entry (a, b) of a cost table -/
def relaxVal (T : Tbl Nat) (c a b : Nat) : Option Nat := optMin (T a b) (optAdd (T a c) (T c b))

theorem relaxStep_cost (c a b : Nat) (s : FloydSt) (x y : Nat) :
    (relaxStep c a b s).cost x y = if x = a ∧ y = b then relaxVal s.cost c a b else s.cost x y := by
  unfold relaxStep relaxVal
  cases h1 : s.cost a c with
  | none =>
    by_cases hxy : x = a ∧ y = b
    · simp only [hxy, and_self, if_true, optAdd, optMin]; cases s.cost a b <;> simp [optMin]
    · simp [hxy]
  | some p =>
    cases h2 : s.cost c b with
    | none =>
      by_cases hxy : x = a ∧ y = b
      · simp only [hxy, and_self, if_true, optAdd, optMin]; cases s.cost a b <;> simp [optMin]
      · simp [hxy]
    | some q =>
      cases h3 : s.cost a b with
      | none =>
        by_cases hxy : x = a ∧ y = b
        · simp [hxy, Tbl.set, optAdd, optMin]
        · simp [hxy, Tbl.set]
      | some z =>
        by_cases hlt : p + q < z
        · by_cases hxy : x = a ∧ y = b
          · simp only [hlt, decide_true, if_true, Tbl.set, hxy, and_self, optAdd, optMin]; congr; omega
          · simp [hlt, Tbl.set, hxy]
        · by_cases hxy : x = a ∧ y = b
          · simp only [hlt, decide_false, Bool.false_eq_true, if_false, hxy, and_self, if_true, optAdd, optMin, h3]
            congr; omega
          · simp [hlt, hxy]

theorem relaxVal_idem (T : Tbl Nat) (c a b : Nat) :
    optMin (relaxVal T c a b) (optAdd (T a c) (T c b)) = relaxVal T c a b := by
  unfold relaxVal
  cases T a b <;> cases optAdd (T a c) (T c b) <;> simp [optMin]

theorem mem_pairs (n x y : Nat) : (x, y) ∈ pairs n ↔ x < n ∧ y < n := by
  simp [pairs, List.mem_flatMap, List.mem_map, List.mem_range]

/-- one outer iteration, on any list of cells: processed cells are relaxed through `c` *from the table at the start
of the iteration* (row c and column c do not change during the iteration), the others are untouched -/
theorem iter_cost (c : Nat) (T0 : Tbl Nat) : ∀ (ps : List (Nat × Nat)) (s : FloydSt),
    (∀ x, s.cost x c = T0 x c) → (∀ y, s.cost c y = T0 c y) →
    (∀ p ∈ ps, s.cost p.1 p.2 = T0 p.1 p.2 ∨ s.cost p.1 p.2 = relaxVal T0 c p.1 p.2) →
    ∀ x y, (ps.foldl (fun s p => relaxStep c p.1 p.2 s) s).cost x y =
      if (x, y) ∈ ps then relaxVal T0 c x y else s.cost x y := by
  intro ps
  induction ps with
  | nil => intro s _ _ _ x y; simp
  | cons p ps ih =>
    intro s hcol hrow hun x y
    obtain ⟨a, b⟩ := p
    simp only [List.foldl_cons]
    -- the value written at (a, b)
    have hval : relaxVal s.cost c a b = relaxVal T0 c a b := by
      rcases hun (a, b) (by simp) with h | h
      · simp only at h; simp only [relaxVal, h, hcol a, hrow b]
      · simp only at h
        have : relaxVal s.cost c a b = optMin (relaxVal T0 c a b) (optAdd (T0 a c) (T0 c b)) := by
          simp only [relaxVal, hcol a, hrow b] at h ⊢; rw [h]
        rw [this, relaxVal_idem]
    have hs' : ∀ u v, (relaxStep c a b s).cost u v = if u = a ∧ v = b then relaxVal T0 c a b else s.cost u v := by
      intro u v; rw [relaxStep_cost, hval]
    have hcol' : ∀ u, (relaxStep c a b s).cost u c = T0 u c := by
      intro u
      rw [hs']
      by_cases h : u = a ∧ c = b
      · obtain ⟨h1, h2⟩ := h; subst h1; subst h2
        simp only [and_self, if_true, relaxVal]; exact optMin_self_add' _ _
      · simp [h, hcol u]
    have hrow' : ∀ v, (relaxStep c a b s).cost c v = T0 c v := by
      intro v
      rw [hs']
      by_cases h : c = a ∧ v = b
      · obtain ⟨h1, h2⟩ := h; subst h1; subst h2
        simp only [and_self, if_true, relaxVal]; exact optMin_self_add _ _
      · simp [h, hrow v]
    have hun' : ∀ q ∈ ps, (relaxStep c a b s).cost q.1 q.2 = T0 q.1 q.2 ∨
        (relaxStep c a b s).cost q.1 q.2 = relaxVal T0 c q.1 q.2 := by
      intro q hq
      rw [hs']
      by_cases h : q.1 = a ∧ q.2 = b
      · right; simp [h]
      · simp only [h, if_false]; exact hun q (by simp [hq])
    rw [ih (relaxStep c a b s) hcol' hrow' hun' x y, hs']
    by_cases hmem : (x, y) ∈ ps
    · simp [hmem]
    · by_cases hxy : x = a ∧ y = b
      · simp [hxy]
      · have : (x, y) ≠ (a, b) := by intro e; injection e with e1 e2; exact hxy ⟨e1, e2⟩
        simp [hmem, hxy, this]

/-- nodes are < n: nothing is declared outside -/
def Inside (n : Nat) (w : Tbl Nat) : Prop := ∀ a b, (n ≤ a ∨ n ≤ b) → w a b = none

theorem fw_outside (n : Nat) (w : Tbl Nat) (hn : Inside n w) : ∀ k a b, (n ≤ a ∨ n ≤ b) → fw w k a b = none := by
  intro k
  induction k with
  | zero => intro a b h; exact hn a b h
  | succ k ih =>
    intro a b h
    simp only [fw]
    rw [ih a b h]
    rcases h with h | h
    · rw [ih a k (Or.inl h)]; simp [optAdd, optMin]
    · rw [ih k b (Or.inr h)]; cases fw w k a k <;> simp [optAdd, optMin]

theorem floydIter_cost (n c : Nat) (s : FloydSt) (x y : Nat) :
    (floydIter n c s).cost x y = if x < n ∧ y < n then relaxVal s.cost c x y else s.cost x y := by
  unfold floydIter
  rw [iter_cost c s.cost (pairs n) s (fun _ => rfl) (fun _ => rfl) (fun _ _ => Or.inl rfl) x y]
  simp [mem_pairs]

/-- **the triple loop of do_seal computes the Floyd–Warshall recurrence** (cost table, every n) -/
theorem floydLoops_cost (n : Nat) (s : FloydSt) (hn : Inside n s.cost) :
    ∀ k, k ≤ n → ∀ x y, ((List.range k).foldl (fun s c => floydIter n c s) s).cost x y = fw s.cost k x y := by
  intro k
  induction k with
  | zero => intro _ x y; simp [fw]
  | succ k ih =>
    intro hk x y
    rw [List.range_succ, List.foldl_append]
    simp only [List.foldl_cons, List.foldl_nil]
    rw [floydIter_cost]
    have ihk := ih (by omega)
    by_cases hin : x < n ∧ y < n
    · simp only [hin, and_self, if_true, relaxVal, ihk, fw]
    · simp only [hin, if_false, ihk]
      have hout : n ≤ x ∨ n ≤ y := by omega
      rw [fw_outside n s.cost hn (k+1) x y hout, fw_outside n s.cost hn k x y hout]

end SgVerif.C25
