import SgVerif.C25.Lemmas
/-
C25 helper lemmas, part 2: the predecessor table of the in-place Floyd–Warshall triple loop of FloydZone::do_seal.

Invariant (`PredInv`, at the boundaries of the outer loop — inside an iteration it can be broken for a while, because
the cell (a, pred) may not have been relaxed through the pivot yet): for every finite `cost a b`, `pred a b = p < n`,
the one-hop route p → b is declared, and `cost a b ≥ |link p b|` when p = a, `cost a b ≥ cost a p + |link p b|`
otherwise.  With the minimality of the final cost table the inequalities become equalities (`PredExact`), and with
"every declared route has at least one link" (`xbt_enforce(not link_list.empty())` in add_route_check_params) the cost
strictly decreases along the predecessor walk: it visits distinct nodes < n, so the fuel n + 1 of `floydRoute` is enough.
-/
namespace SgVerif.C25
open SgVerif.C24 (Lk)

/- ---------------------------------------------------------------- one relaxation -/

/-- `relaxStep` either does nothing or writes cost and predecessor of the cell (a, b) -/
theorem relaxStep_cases (c a b : Nat) (s : FloydSt) :
    relaxStep c a b s = s ∨
    ∃ x y, s.cost a c = some x ∧ s.cost c b = some y ∧ (∀ z, s.cost a b = some z → x + y < z) ∧
      relaxStep c a b s = { s with cost := s.cost.set a b (some (x + y)), pred := s.pred.set a b (s.pred c b) } := by
  unfold relaxStep
  cases h1 : s.cost a c with
  | none => left; rfl
  | some x =>
    cases h2 : s.cost c b with
    | none => left; rfl
    | some y =>
      cases h3 : s.cost a b with
      | none => right; exact ⟨x, y, rfl, rfl, (by intro z hz; cases hz), (by simp)⟩
      | some z =>
        by_cases hlt : x + y < z
        · right; refine ⟨x, y, rfl, rfl, ?_, by simp [hlt]⟩
          intro z' hz'; cases hz'; exact hlt
        · left; simp [hlt]

/-- relation between the table `T0` at the start of iteration `c` of the outer loop and a table `s` later in the same
iteration: links, column c, row c of the costs and row c of the predecessors are as in `T0`; every cell is either
untouched or was relaxed through `c` with the values of `T0` -/
structure IterRel (c : Nat) (T0 s : FloydSt) : Prop where
  link : s.link = T0.link
  col : ∀ x, s.cost x c = T0.cost x c
  row : ∀ y, s.cost c y = T0.cost c y
  prow : ∀ y, s.pred c y = T0.pred c y
  cell : ∀ a b, (s.cost a b = T0.cost a b ∧ s.pred a b = T0.pred a b) ∨
    (∃ x y, T0.cost a c = some x ∧ T0.cost c b = some y ∧ s.cost a b = some (x + y) ∧ s.pred a b = T0.pred c b)

theorem IterRel.refl (c : Nat) (T0 : FloydSt) : IterRel c T0 T0 :=
  ⟨rfl, fun _ => rfl, fun _ => rfl, fun _ => rfl, fun _ _ => Or.inl ⟨rfl, rfl⟩⟩

theorem IterRel.step {c : Nat} {T0 s : FloydSt} (h : IterRel c T0 s) (a b : Nat) : IterRel c T0 (relaxStep c a b s) := by
  rcases relaxStep_cases c a b s with he | ⟨x, y, hx, hy, hbet, he⟩
  · rw [he]; exact h
  · -- an update: neither a nor b is the pivot
    have hbc : b ≠ c := by
      intro e; subst e
      have := hbet x hx; omega
    have hac : a ≠ c := by
      intro e; subst e
      have := hbet y hy; omega
    rw [he]
    refine ⟨h.link, ?_, ?_, ?_, ?_⟩
    · intro u
      have : ¬ (u = a ∧ c = b) := fun e => hbc e.2.symm
      simp only [Tbl.set, this, if_false]; exact h.col u
    · intro v
      have : ¬ (c = a ∧ v = b) := fun e => hac e.1.symm
      simp only [Tbl.set, this, if_false]; exact h.row v
    · intro v
      have : ¬ (c = a ∧ v = b) := fun e => hac e.1.symm
      simp only [Tbl.set, this, if_false]; exact h.prow v
    · intro u v
      by_cases huv : u = a ∧ v = b
      · obtain ⟨hu, hv⟩ := huv; subst hu; subst hv
        right
        refine ⟨x, y, (h.col u) ▸ hx, (h.row v) ▸ hy, by simp [Tbl.set], ?_⟩
        simp only [Tbl.set, and_self, if_true]; exact h.prow v
      · simp only [Tbl.set, huv, if_false]; exact h.cell u v

theorem IterRel.fold {c : Nat} {T0 : FloydSt} : ∀ (ps : List (Nat × Nat)) (s : FloydSt), IterRel c T0 s →
    IterRel c T0 (ps.foldl (fun s p => relaxStep c p.1 p.2 s) s) := by
  intro ps
  induction ps with
  | nil => intro s h; exact h
  | cons p ps ih => intro s h; exact ih _ (h.step p.1 p.2)

theorem floydIter_rel (n c : Nat) (s : FloydSt) : IterRel c s (floydIter n c s) :=
  IterRel.fold (pairs n) s (IterRel.refl c s)

theorem relaxVal_le (T : Tbl Nat) (c a b v : Nat) (h : T a b = some v) : ∃ v', relaxVal T c a b = some v' ∧ v' ≤ v := by
  unfold relaxVal
  rw [h]
  cases optAdd (T a c) (T c b) with
  | none => exact ⟨v, rfl, Nat.le_refl _⟩
  | some w => exact ⟨min v w, rfl, Nat.min_le_left _ _⟩

theorem relaxVal_le_sum (T : Tbl Nat) (c a b x y : Nat) (hx : T a c = some x) (hy : T c b = some y) :
    ∃ v', relaxVal T c a b = some v' ∧ v' ≤ x + y := by
  unfold relaxVal
  rw [hx, hy]
  cases T a b with
  | none => exact ⟨x + y, rfl, Nat.le_refl _⟩
  | some w => exact ⟨min w (x + y), rfl, Nat.min_le_right _ _⟩

/- ---------------------------------------------------------------- the predecessor invariant -/

/-- the predecessor-table invariant (inequalities), at the boundaries of the outer loop -/
def PredInv (n : Nat) (s : FloydSt) : Prop :=
  ∀ a b, a < n → b < n → ∀ c, s.cost a b = some c →
    ∃ p l, s.pred a b = some p ∧ p < n ∧ s.link p b = some l ∧
      ((p = a ∧ l.length ≤ c) ∨ (p ≠ a ∧ ∃ cp, s.cost a p = some cp ∧ cp + l.length ≤ c))

/-- one iteration of the outer loop keeps the invariant -/
theorem predInv_iter (n c : Nat) (hc : c < n) (s : FloydSt) (h0 : PredInv n s) : PredInv n (floydIter n c s) := by
  have hrel := floydIter_rel n c s
  have hcost : ∀ x y, x < n → y < n → (floydIter n c s).cost x y = relaxVal s.cost c x y := by
    intro x y hx hy; rw [floydIter_cost]; simp [hx, hy]
  intro a b ha hb c' hc'
  rcases hrel.cell a b with ⟨h1, h2⟩ | ⟨x, y, hx, hy, hcst, hprd⟩
  · -- the cell was not written
    obtain ⟨p, l, hp, hpn, hl, hor⟩ := h0 a b ha hb c' (h1 ▸ hc')
    refine ⟨p, l, h2 ▸ hp, hpn, hrel.link ▸ hl, ?_⟩
    rcases hor with hor | ⟨hpa, cp, hcp, hle⟩
    · exact Or.inl hor
    · obtain ⟨v, hv, hvle⟩ := relaxVal_le s.cost c a p cp hcp
      exact Or.inr ⟨hpa, v, by rw [hcost a p ha hpn, hv], by omega⟩
  · -- the cell was relaxed through c: cost = x + y, pred = pred c b
    rw [hcst] at hc'; cases hc'
    obtain ⟨p, l, hp, hpn, hl, hor⟩ := h0 c b hc hb y hy
    refine ⟨p, l, hprd ▸ hp, hpn, hrel.link ▸ hl, ?_⟩
    by_cases hpa : p = a
    · left
      refine ⟨hpa, ?_⟩
      rcases hor with ⟨_, h⟩ | ⟨_, cp, _, h⟩ <;> omega
    · right
      refine ⟨hpa, ?_⟩
      rcases hor with ⟨hpc, h⟩ | ⟨hpc, cp, hcp, h⟩
      · -- p = c: column c is unchanged
        subst hpc
        exact ⟨x, by rw [hrel.col a, hx], by omega⟩
      · obtain ⟨v, hv, hvle⟩ := relaxVal_le_sum s.cost c a p x cp hx hcp
        exact ⟨v, by rw [hcost a p ha hpn, hv], by omega⟩

theorem predInv_loops (n : Nat) (s : FloydSt) (h0 : PredInv n s) : ∀ k, k ≤ n →
    PredInv n ((List.range k).foldl (fun s c => floydIter n c s) s) := by
  intro k
  induction k with
  | zero => intro _; exact h0
  | succ k ih =>
    intro hk
    rw [List.range_succ, List.foldl_append]
    exact predInv_iter n k (by omega) _ (ih (by omega))

theorem floydIter_link (n c : Nat) (s : FloydSt) : (floydIter n c s).link = s.link := (floydIter_rel n c s).link

theorem floydLoops_link (n : Nat) (s : FloydSt) : (floydLoops n s).link = s.link := by
  unfold floydLoops
  generalize List.range n = cs
  induction cs generalizing s with
  | nil => rfl
  | cons c cs ih => simp only [List.foldl_cons]; rw [ih, floydIter_link]

/-- ULONG_MAX cost ⇒ predecessor -1 -/
def NoneInv (s : FloydSt) : Prop := ∀ a b, s.cost a b = none → s.pred a b = none

theorem noneInv_relax (c a b : Nat) (s : FloydSt) (h : NoneInv s) : NoneInv (relaxStep c a b s) := by
  rcases relaxStep_cases c a b s with he | ⟨x, y, _, _, _, he⟩
  · rw [he]; exact h
  · rw [he]
    intro u v
    by_cases huv : u = a ∧ v = b
    · simp [Tbl.set, huv]
    · simp only [Tbl.set, huv, if_false]; exact h u v

theorem noneInv_iter (n c : Nat) (s : FloydSt) (h : NoneInv s) : NoneInv (floydIter n c s) := by
  unfold floydIter
  generalize pairs n = ps
  induction ps generalizing s with
  | nil => exact h
  | cons p ps ih => exact ih _ (noneInv_relax c p.1 p.2 s h)

theorem noneInv_loops (n : Nat) (s : FloydSt) (h : NoneInv s) : NoneInv (floydLoops n s) := by
  unfold floydLoops
  generalize List.range n = cs
  induction cs generalizing s with
  | nil => exact h
  | cons c cs ih => exact ih _ (noneInv_iter n c s h)

/- ---------------------------------------------------------------- tables built by add_route / the loopback step -/

/-- what add_route and the loopback step of do_seal establish: cost = link count and predecessor = source of every
declared one-hop route (nothing else is set), every declared route has at least one link
(`xbt_enforce(not link_list.empty(), "Empty route … forbidden")` in `add_route_check_params`; the loopback route has
one link), netpoint ids are < n -/
structure WellDecl (n : Nat) (s : FloydSt) : Prop where
  cost : ∀ a b, s.cost a b = (s.link a b).map List.length
  pred : ∀ a b, s.pred a b = (s.link a b).map fun _ => a
  pos : ∀ a b l, s.link a b = some l → l ≠ []
  inside : ∀ a b, (n ≤ a ∨ n ≤ b) → s.link a b = none

theorem wellDecl_init (n : Nat) : WellDecl n FloydSt.init :=
  ⟨fun _ _ => rfl, fun _ _ => rfl, fun _ _ _ h => (by cases h), fun _ _ _ => rfl⟩

theorem wellDecl_set (n : Nat) (s : FloydSt) (h : WellDecl n s) (a b : Nat) (l : List Lk) (ha : a < n) (hb : b < n)
    (hl : l ≠ []) :
    WellDecl n { cost := s.cost.set a b (some l.length), pred := s.pred.set a b (some a), link := s.link.set a b (some l) } := by
  refine ⟨?_, ?_, ?_, ?_⟩
  · intro u v; simp only [Tbl.set]; split <;> simp [h.cost u v]
  · intro u v; simp only [Tbl.set]
    split
    · rename_i huv; simp [huv.1]
    · exact h.pred u v
  · intro u v l'; simp only [Tbl.set]
    split
    · intro e; cases e; exact hl
    · exact h.pos u v l'
  · intro u v huv; simp only [Tbl.set]
    split
    · rename_i e; omega
    · exact h.inside u v huv

theorem wellDecl_add (n : Nat) (s s' : FloydSt) (src dst : Nat) (links : List Lk) (sym : Bool) (h : WellDecl n s)
    (hs : src < n) (hd : dst < n) (hl : links ≠ []) (hadd : floydAddRoute s src dst links sym = some s') :
    WellDecl n s' := by
  unfold floydAddRoute at hadd
  split at hadd
  · cases hadd
  · have h1 := wellDecl_set n s h src dst links hs hd hl
    cases sym
    · simp only [Bool.false_eq_true, if_false, Option.some.injEq] at hadd
      subst hadd; exact h1
    · simp only [if_true] at hadd
      split at hadd
      · cases hadd
      · simp only [Option.some.injEq] at hadd
        subst hadd
        exact wellDecl_set n _ h1 dst src links.reverse hd hs (by simpa using hl)

theorem wellDecl_loopback (n : Nat) (s : FloydSt) (h : WellDecl n s) : WellDecl n (floydLoopback n s) := by
  unfold floydLoopback
  have : ∀ (is : List Nat) (s : FloydSt), (∀ i ∈ is, i < n) → WellDecl n s →
      WellDecl n (is.foldl (fun s i =>
        if (s.link i i).isSome then s
        else { cost := s.cost.set i i (some 1), pred := s.pred.set i i (some i), link := s.link.set i i (some [0]) }) s) := by
    intro is
    induction is with
    | nil => intro s _ h; exact h
    | cons i is ih =>
      intro s hi h
      simp only [List.foldl_cons]
      apply ih _ (fun j hj => hi j (by simp [hj]))
      split
      · exact h
      · exact wellDecl_set n s h i i [0] (hi i (by simp)) (hi i (by simp)) (by simp)
  exact this (List.range n) s (fun i hi => List.mem_range.mp hi) h

/-- the declarations as the driver replays them: a fold of `floydAddRoute` over a list of routes -/
theorem wellDecl_routes (n : Nat) : ∀ (routes : List (Nat × Nat × Bool × List Lk)) (s0 s : FloydSt), WellDecl n s0 →
    (∀ r ∈ routes, r.1 < n ∧ r.2.1 < n ∧ r.2.2.2 ≠ []) →
    routes.foldl (fun acc r => acc.bind fun st => floydAddRoute st r.1 r.2.1 r.2.2.2 r.2.2.1) (some s0) = some s →
    WellDecl n s := by
  intro routes
  induction routes with
  | nil => intro s0 s h _ he; simp at he; subst he; exact h
  | cons r rs ih =>
    intro s0 s h hr he
    simp only [List.foldl_cons, Option.bind_some] at he
    cases hadd : floydAddRoute s0 r.1 r.2.1 r.2.2.2 r.2.2.1 with
    | none =>
      rw [hadd] at he
      have : ∀ (rs : List (Nat × Nat × Bool × List Lk)),
          rs.foldl (fun acc r => acc.bind fun st => floydAddRoute st r.1 r.2.1 r.2.2.2 r.2.2.1) none = none := by
        intro rs; induction rs with
        | nil => rfl
        | cons _ _ ih => simpa using ih
      rw [this] at he; cases he
    | some s1 =>
      rw [hadd] at he
      obtain ⟨h1, h2, h3⟩ := hr r (by simp)
      exact ih s1 s (wellDecl_add n s0 s1 _ _ _ _ h h1 h2 h3 hadd) (fun q hq => hr q (by simp [hq])) he

theorem WellDecl.insideCost {n : Nat} {s : FloydSt} (h : WellDecl n s) : Inside n s.cost := by
  intro a b hab; rw [h.cost, h.inside a b hab]; rfl

theorem WellDecl.predInv {n : Nat} {s : FloydSt} (h : WellDecl n s) : PredInv n s := by
  intro a b ha _ c hc
  rw [h.cost] at hc
  cases hl : s.link a b with
  | none => rw [hl] at hc; cases hc
  | some l =>
    rw [hl] at hc; simp only [Option.map_some, Option.some.injEq] at hc
    exact ⟨a, l, by rw [h.pred, hl]; rfl, ha, hl, Or.inl ⟨rfl, by omega⟩⟩

theorem WellDecl.noneInv {n : Nat} {s : FloydSt} (h : WellDecl n s) : NoneInv s := by
  intro a b hc
  rw [h.cost] at hc
  rw [h.pred]
  cases hl : s.link a b with
  | none => rfl
  | some l => rw [hl] at hc; cases hc

/- ---------------------------------------------------------------- after the loops: equalities -/

/-- the predecessor table after the triple loop, exact form: the cost of a cell is the cost of its predecessor cell
plus the link count of the last hop -/
def PredExact (n : Nat) (link : Tbl (List Lk)) (S : FloydSt) : Prop :=
  ∀ a b, a < n → b < n → ∀ c, S.cost a b = some c →
    ∃ p l, S.pred a b = some p ∧ p < n ∧ link p b = some l ∧
      ((p = a ∧ l.length = c) ∨ (p ≠ a ∧ ∃ cp, S.cost a p = some cp ∧ cp + l.length = c))

theorem loops_cost_fw (n : Nat) (s : FloydSt) (h : WellDecl n s) (a b : Nat) :
    (floydLoops n s).cost a b = fw s.cost n a b := by
  unfold floydLoops
  exact floydLoops_cost n s h.insideCost n (Nat.le_refl _) a b

theorem predExact_loops (n : Nat) (s : FloydSt) (h : WellDecl n s) : PredExact n s.link (floydLoops n s) := by
  have hinv : PredInv n (floydLoops n s) := predInv_loops n s h.predInv n (Nat.le_refl _)
  intro a b ha hb c hc
  obtain ⟨p, l, hp, hpn, hl, hor⟩ := hinv a b ha hb c hc
  rw [floydLoops_link] at hl
  refine ⟨p, l, hp, hpn, hl, ?_⟩
  have hw : s.cost p b = some l.length := by rw [h.cost, hl]; rfl
  rw [loops_cost_fw n s h] at hc
  rcases hor with ⟨hpa, hle⟩ | ⟨hpa, cp, hcp, hle⟩
  · left
    refine ⟨hpa, ?_⟩
    have := fw_le_walk s.cost n [] a b (by simp)
    rw [hc] at this
    simp only [walkCost] at this
    rw [← hpa, hw] at this
    simp only [optLe] at this
    omega
  · right
    refine ⟨hpa, cp, hcp, ?_⟩
    rw [loops_cost_fw n s h] at hcp
    obtain ⟨mid, hm, hwc⟩ := fw_sound s.cost n a p cp hcp
    have := fw_le_walk s.cost n (mid ++ [p]) a b (by
      intro m hm'
      rcases List.mem_append.mp hm' with h' | h'
      · exact hm m h'
      · simp at h'; omega)
    rw [hc, walkCost_append, hwc] at this
    simp only [walkCost, hw, optAdd, optLe] at this
    omega

/- ---------------------------------------------------------------- the walk of get_local_route -/

theorem nodup_bound (n : Nat) (l : List Nat) (hd : l.Nodup) (hb : ∀ x ∈ l, x < n) : l.length ≤ n := by
  have := List.Nodup.length_le_of_subset hd (l₂ := List.range n) (fun x hx => List.mem_range.mpr (hb x hx))
  simpa using this

/-- total link count of a list of hops -/
def hopsLen (hops : List (Nat × Nat × List Lk)) : Nat := (hops.flatMap fun h => h.2.2).length

theorem hopsLen_cons (h : Nat × Nat × List Lk) (hs : List (Nat × Nat × List Lk)) :
    hopsLen (h :: hs) = h.2.2.length + hopsLen hs := by
  simp [hopsLen]

theorem hopsLen_nil : hopsLen [] = 0 := rfl

theorem hopsLen_append (h1 h2 : List (Nat × Nat × List Lk)) : hopsLen (h1 ++ h2) = hopsLen h1 + hopsLen h2 := by
  simp [hopsLen]

/-- **the walk terminates within the fuel and collects exactly `cost src cur` links**: `seen` = the nodes visited
before `cur` (all with a larger cost from `src`, hence distinct) -/
theorem floydWalk_ok (n : Nat) (link : Tbl (List Lk)) (S : FloydSt) (hlink : S.link = link)
    (hex : PredExact n link S) (hpos : ∀ a b l, link a b = some l → l ≠ []) (src : Nat) (hs : src < n) :
    ∀ (f cur : Nat) (acc : List (Nat × Nat × List Lk)) (seen : List Nat) (c : Nat), cur < n → S.cost src cur = some c →
      seen.Nodup → (∀ x ∈ seen, x < n ∧ ∃ cx, S.cost src x = some cx ∧ c < cx) → n ≤ f + seen.length →
      ∃ hops, floydWalk S src f cur acc = .ok (hops ++ acc) ∧ hopsLen hops = c := by
  intro f
  induction f with
  | zero =>
    intro cur acc seen c hcur hc hnd hseen hf
    -- cur :: seen are distinct nodes < n
    have hnot : cur ∉ seen := by
      intro hm
      obtain ⟨_, cx, hcx, hlt⟩ := hseen cur hm
      rw [hc] at hcx; cases hcx; omega
    have := nodup_bound n (cur :: seen) (List.nodup_cons.mpr ⟨hnot, hnd⟩) (by
      intro x hx
      rcases List.mem_cons.mp hx with h | h
      · omega
      · exact (hseen x h).1)
    simp at this; omega
  | succ f ih =>
    intro cur acc seen c hcur hc hnd hseen hf
    obtain ⟨p, l, hp, hpn, hl, hor⟩ := hex src cur hs hcur c hc
    unfold floydWalk
    simp only [hp, hlink, hl]
    rcases hor with ⟨hps, hlen⟩ | ⟨hps, cp, hcp, hlen⟩
    · simp only [hps, ne_eq, not_true_eq_false, if_false]
      exact ⟨[(src, cur, l)], by simp, by simp [hopsLen, hlen]⟩
    · simp only [hps, ne_eq, not_false_eq_true, if_true]
      have hlpos : 0 < l.length := List.length_pos_iff.mpr (hpos p cur l hl)
      have hnot : cur ∉ seen := by
        intro hm
        obtain ⟨_, cx, hcx, hlt⟩ := hseen cur hm
        rw [hc] at hcx; cases hcx; omega
      obtain ⟨hops, hw, hlen'⟩ := ih p ((p, cur, l) :: acc) (cur :: seen) cp hpn hcp
        (List.nodup_cons.mpr ⟨hnot, hnd⟩)
        (by
          intro x hx
          rcases List.mem_cons.mp hx with h | h
          · subst h; exact ⟨hcur, c, hc, by omega⟩
          · obtain ⟨h1, cx, hcx, hlt⟩ := hseen x h
            exact ⟨h1, cx, hcx, by omega⟩)
        (by simp; omega)
      refine ⟨hops ++ [(p, cur, l)], by simpa using hw, ?_⟩
      rw [hopsLen_append, hlen']
      simp only [hopsLen_cons, hopsLen_nil]; omega

/- ---------------------------------------------------------------- chains of stored one-hop routes -/

/-- chain of stored one-hop routes -/
def HopChain (link : Tbl (List Lk)) : Nat → List (Nat × Nat × List Lk) → Nat → Prop
  | a, [], b => a = b
  | a, (p, q, l) :: hs, b => p = a ∧ link p q = some l ∧ HopChain link q hs b

/-- a non-empty chain of declared one-hop routes is a chain of the specification (`walkCost`), of the same link count,
through nodes < n -/
theorem hopChain_walkCost (n : Nat) (s : FloydSt) (h : WellDecl n s) : ∀ (hops : List (Nat × Nat × List Lk)) (a b : Nat),
    hops ≠ [] → HopChain s.link a hops b →
    ∃ mid, (∀ m ∈ mid, m < n) ∧ walkCost s.cost a mid b = some (hopsLen hops) := by
  intro hops
  induction hops with
  | nil => intro a b hne _; exact absurd rfl hne
  | cons x xs ih =>
    intro a b _ hc
    obtain ⟨p, q, l⟩ := x
    obtain ⟨hp, hl, hrest⟩ := hc
    subst hp
    have hw : s.cost p q = some l.length := by rw [h.cost, hl]; rfl
    cases xs with
    | nil =>
      simp only [HopChain] at hrest
      subst hrest
      exact ⟨[], by simp, by simp [walkCost, hw, hopsLen]⟩
    | cons y ys =>
      obtain ⟨mid, hm, hwc⟩ := ih q b (by simp) hrest
      have hq : q < n := by
        apply Nat.lt_of_not_le
        intro hge
        rw [h.inside p q (Or.inr hge)] at hl; cases hl
      refine ⟨q :: mid, ?_, ?_⟩
      · intro m hm'
        rcases List.mem_cons.mp hm' with e | e
        · omega
        · exact hm m e
      · simp only [walkCost, hw, hwc, optAdd, hopsLen_cons]

end SgVerif.C25
