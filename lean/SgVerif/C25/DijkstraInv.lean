import SgVerif.C25.Model
/-
C25 helper lemmas, part 3: the priority-queue loop of DijkstraZone::get_local_route as written (variant `DVar.now`).

* `DCore`: the relaxation invariant, true at every point of the loop (also between two edges of the `foreach`):
  cost_arr[src] = 0; every node with a finite cost (≠ ULONG_MAX) other than src has a predecessor with a finite cost,
  the edge pred → node is in the graph and cost[node] ≥ cost[pred] + |links of the edge| (no wrap-around); a node with
  cost ULONG_MAX has pred ULONG_MAX; finite costs are bounded (≤ (number of finite entries − 1) · M), which is what
  excludes the 64-bit wrap under `NoOverflow g M` (every edge has ≤ M links, nodes · M < ULONG_MAX).
* `Clean`: every node with a finite cost either has all its out-edges relaxed or still has an entry in the queue.  When
  the queue is empty no edge is tense; with `DCore` this gives: finite cost ⇔ reachable, cost = minimal link count over
  all chains of edges, cost[v] = cost[pred v] + |edge| (the predecessor walk returns a route of exactly cost[v] links).
  None of this depends on the order in which `popMin` returns the entries (only the number of iterations does).
-/
namespace SgVerif.C25
open SgVerif.C24 (Lk)

theorem U64_eq : U64 = ULONG_MAX + 1 := by rfl

/- ---------------------------------------------------------------- lists -/

theorem getD_set_self (l : List Nat) (i a : Nat) (h : i < l.length) : (l.set i a).getD i 0 = a := by
  simp [List.getD_eq_getElem?_getD, List.getElem?_set, h]

theorem getD_set_other (l : List Nat) (i j a : Nat) (h : i ≠ j) : (l.set i a).getD j 0 = l.getD j 0 := by
  simp [List.getD_eq_getElem?_getD, List.getElem?_set, h]

theorem countP_set_gain (p : Nat → Bool) : ∀ (l : List Nat) (i a : Nat), i < l.length → p (l.getD i 0) = false →
    p a = true → (l.set i a).countP p = l.countP p + 1 := by
  intro l
  induction l with
  | nil => intro i a h; simp at h
  | cons x xs ih =>
    intro i a h hp ha
    cases i with
    | zero =>
      simp only [List.getD_cons_zero] at hp
      simp [List.countP_cons, hp, ha]
    | succ i =>
      simp only [List.getD_cons_succ] at hp
      simp only [List.set_cons_succ, List.countP_cons]
      rw [ih i a (by simpa using h) hp ha]; omega

theorem countP_set_same (p : Nat → Bool) : ∀ (l : List Nat) (i a : Nat), i < l.length → p (l.getD i 0) = true →
    p a = true → (l.set i a).countP p = l.countP p := by
  intro l
  induction l with
  | nil => intro i a h; simp at h
  | cons x xs ih =>
    intro i a h hp ha
    cases i with
    | zero =>
      simp only [List.getD_cons_zero] at hp
      simp [List.countP_cons, hp, ha]
    | succ i =>
      simp only [List.getD_cons_succ] at hp
      simp only [List.set_cons_succ, List.countP_cons]
      rw [ih i a (by simpa using h) hp ha]

/- ---------------------------------------------------------------- graphs -/

/-- what add_route/new_edge/do_seal guarantee about the route graph: edge extremities are graph nodes, at most one
edge between two nodes (`new_edge` throws "already exists"), no empty link list (`add_route_check_params`:
"Empty route … forbidden"; the loopback edge has one link) -/
structure GraphOK (g : DGraph) : Prop where
  bound : ∀ e ∈ g.edges, e.src < g.nodes.length ∧ e.dst < g.nodes.length
  uniq : ∀ e ∈ g.edges, g.findEdge e.src e.dst = some e
  pos : ∀ e ∈ g.edges, e.links ≠ []

/-- no 64-bit wrap-around: every edge has at most `M` links and (number of nodes) · M < ULONG_MAX -/
structure NoOverflow (g : DGraph) (M : Nat) : Prop where
  wle : ∀ e ∈ g.edges, e.links.length ≤ M
  small : g.nodes.length * M < ULONG_MAX

def DState.c (st : DState) (u : Nat) : Nat := st.cost.getD u 0
def DState.p (st : DState) (u : Nat) : Nat := st.pred.getD u 0
/-- number of finite entries of cost_arr -/
def DState.nfin (st : DState) : Nat := st.cost.countP fun x => x != ULONG_MAX

/-- one iteration of the `xbt_dynar_foreach (outedges)` body -/
def relaxOne (v : Nat) (st : DState) (e : DEdge) : DState :=
  let sum := (e.links.length + st.cost.getD v 0) % U64
  if sum < st.cost.getD e.dst 0 then
    { cost := st.cost.set e.dst sum, pred := st.pred.set e.dst v, queue := (sum, e.dst) :: st.queue }
  else st

theorem relaxEdges_cons (v : Nat) (st : DState) (e : DEdge) (es : List DEdge) :
    relaxEdges v st (e :: es) = relaxEdges v (relaxOne v st e) es := by
  simp only [relaxEdges, relaxOne]
  split <;> rfl

/-- the relaxation invariant -/
structure DCore (g : DGraph) (M src : Nat) (st : DState) : Prop where
  lenC : st.cost.length = g.nodes.length
  lenP : st.pred.length = g.nodes.length
  src0 : st.c src = 0
  bnd : ∀ u, u < g.nodes.length → st.c u = ULONG_MAX ∨ st.c u + M ≤ st.nfin * M
  tree : ∀ u, u < g.nodes.length → u ≠ src → st.c u ≠ ULONG_MAX →
    st.p u < g.nodes.length ∧ st.c (st.p u) ≠ ULONG_MAX ∧
    ∃ e ∈ g.edges, e.src = st.p u ∧ e.dst = u ∧ st.c (st.p u) + e.links.length ≤ st.c u
  unre : ∀ u, u < g.nodes.length → st.c u = ULONG_MAX → st.p u = ULONG_MAX

theorem DCore.nfin_le {g : DGraph} {M src : Nat} {st : DState} (h : DCore g M src st) : st.nfin ≤ g.nodes.length := by
  rw [← h.lenC]; exact List.countP_le_length

/-- a finite cost plus one edge does not reach ULONG_MAX -/
theorem DCore.room {g : DGraph} {M src : Nat} {st : DState} (h : DCore g M src st) (ho : NoOverflow g M)
    (v : Nat) (hv : v < g.nodes.length) (hf : st.c v ≠ ULONG_MAX) (e : DEdge) (he : e ∈ g.edges) :
    st.c v + e.links.length ≤ st.nfin * M ∧ st.nfin * M < ULONG_MAX := by
  have h1 := h.bnd v hv
  have h2 := ho.wle e he
  have h3 : st.nfin * M ≤ g.nodes.length * M := Nat.mul_le_mul_right _ h.nfin_le
  have h4 := ho.small
  rcases h1 with h1 | h1
  · exact absurd h1 hf
  · omega

/-- the three assignments of a successful relaxation -/
def DState.upd (st : DState) (u c v : Nat) : DState :=
  { cost := st.cost.set u c, pred := st.pred.set u v, queue := (c, u) :: st.queue }

theorem upd_c (st : DState) (u c v x : Nat) (hu : u < st.cost.length) :
    (st.upd u c v).c x = if x = u then c else st.c x := by
  by_cases hx : x = u
  · subst hx; simp only [DState.c, DState.upd, if_true]; exact getD_set_self _ _ _ hu
  · simp only [DState.c, DState.upd, hx, if_false]; exact getD_set_other _ _ _ _ (fun e' => hx e'.symm)

theorem upd_p (st : DState) (u c v x : Nat) (hu : u < st.pred.length) :
    (st.upd u c v).p x = if x = u then v else st.p x := by
  by_cases hx : x = u
  · subst hx; simp only [DState.p, DState.upd, if_true]; exact getD_set_self _ _ _ hu
  · simp only [DState.p, DState.upd, hx, if_false]; exact getD_set_other _ _ _ _ (fun e' => hx e'.symm)

theorem upd_nfin (st : DState) (u c v : Nat) (hu : u < st.cost.length) (hc : c ≠ ULONG_MAX) :
    (st.upd u c v).nfin = if st.c u = ULONG_MAX then st.nfin + 1 else st.nfin := by
  have hnew : (c != ULONG_MAX) = true := by simpa using hc
  simp only [DState.nfin, DState.upd]
  by_cases hinf : st.c u = ULONG_MAX
  · simp only [hinf, if_true]
    exact countP_set_gain _ _ _ _ hu (by simpa [DState.c] using hinf) hnew
  · simp only [hinf, if_false]
    exact countP_set_same _ _ _ _ hu (by simpa [DState.c] using hinf) hnew

/-- what one relaxation does, under the invariant -/
theorem relaxOne_cases (g : DGraph) (M src v : Nat) (st : DState) (e : DEdge) (h : DCore g M src st)
    (ho : NoOverflow g M) (hv : v < g.nodes.length) (hf : st.c v ≠ ULONG_MAX) (he : e ∈ g.edges) :
    (relaxOne v st e = st ∧ st.c e.dst ≤ st.c v + e.links.length) ∨
    (st.c v + e.links.length < st.c e.dst ∧ e.dst ≠ v ∧ e.dst ≠ src ∧
      relaxOne v st e = st.upd e.dst (st.c v + e.links.length) v) := by
  obtain ⟨hr1, hr2⟩ := h.room ho v hv hf e he
  have hs0 := h.src0
  simp only [DState.c] at hr1 hs0
  have hmod : (e.links.length + st.cost.getD v 0) % U64 = st.cost.getD v 0 + e.links.length := by
    rw [U64_eq, Nat.mod_eq_of_lt (by omega)]; omega
  unfold relaxOne
  simp only [hmod, DState.c]
  by_cases hlt : st.cost.getD v 0 + e.links.length < st.cost.getD e.dst 0
  · right
    refine ⟨hlt, ?_, ?_, by rw [if_pos hlt]; rfl⟩
    · intro e'; rw [e'] at hlt; omega
    · intro e'; rw [e'] at hlt; omega
  · left
    exact ⟨by rw [if_neg hlt], by omega⟩

theorem DCore.relaxOne {g : DGraph} {M src v : Nat} {st : DState} {e : DEdge} (h : DCore g M src st)
    (hg : GraphOK g) (ho : NoOverflow g M) (hv : v < g.nodes.length) (hf : st.c v ≠ ULONG_MAX) (he : e ∈ g.edges)
    (hsrc : e.src = v) : DCore g M src (SgVerif.C25.relaxOne v st e) := by
  rcases relaxOne_cases g M src v st e h ho hv hf he with ⟨heq, _⟩ | ⟨hlt, huv, hus, heq⟩
  · rw [heq]; exact h
  · obtain ⟨hr1, hr2⟩ := h.room ho v hv hf e he
    have hu : e.dst < g.nodes.length := (hg.bound e he).2
    have huC : e.dst < st.cost.length := by rw [h.lenC]; exact hu
    have huP : e.dst < st.pred.length := by rw [h.lenP]; exact hu
    rw [heq]
    have hcu := fun x => upd_c st e.dst (st.c v + e.links.length) v x huC
    have hpu := fun x => upd_p st e.dst (st.c v + e.links.length) v x huP
    have hn := upd_nfin st e.dst (st.c v + e.links.length) v huC (by omega)
    refine ⟨by simp [DState.upd, h.lenC], by simp [DState.upd, h.lenP], ?_, ?_, ?_, ?_⟩
    · rw [hcu, if_neg (fun e' => hus (Eq.symm e'))]; exact h.src0
    · intro x hx
      rw [hcu, hn]
      by_cases hxu : x = e.dst
      · right
        simp only [hxu, if_true]
        by_cases hinf : st.c e.dst = ULONG_MAX
        · simp only [hinf, if_true, Nat.add_mul]; omega
        · simp only [hinf, if_false]
          rcases h.bnd e.dst hu with h' | h'
          · exact absurd h' hinf
          · omega
      · simp only [hxu, if_false]
        rcases h.bnd x hx with h' | h'
        · exact Or.inl h'
        · right
          by_cases hinf : st.c e.dst = ULONG_MAX
          · simp only [hinf, if_true, Nat.add_mul]; omega
          · simp only [hinf, if_false]; exact h'
    · intro x hx hxs hfx
      rw [hcu] at hfx
      rw [hpu]
      by_cases hxu : x = e.dst
      · simp only [hxu, if_true]
        have hvu : ¬ v = e.dst := fun e' => huv e'.symm
        refine ⟨hv, by rw [hcu]; simpa [hvu] using hf, e, he, hsrc, rfl, ?_⟩
        rw [hcu, hcu]; simp [hvu]
      · simp only [hxu, if_false] at hfx ⊢
        obtain ⟨h1, h2, e', he', hs', hd', hle'⟩ := h.tree x hx hxs hfx
        refine ⟨h1, ?_, e', he', hs', hd', ?_⟩
        · rw [hcu]; split
          · omega
          · exact h2
        · rw [hcu, hcu]; simp only [hxu, if_false]
          split
          · rename_i hpx; rw [hpx] at hle'; omega
          · exact hle'
    · intro x hx hinf
      rw [hcu] at hinf
      rw [hpu]
      by_cases hxu : x = e.dst
      · simp only [hxu, if_true] at hinf; omega
      · simp only [hxu, if_false] at hinf ⊢; exact h.unre x hx hinf

theorem relaxOne_facts (g : DGraph) (M src v : Nat) (st : DState) (e : DEdge) (h : DCore g M src st)
    (hg : GraphOK g) (ho : NoOverflow g M) (hv : v < g.nodes.length) (hf : st.c v ≠ ULONG_MAX) (he : e ∈ g.edges) :
    (relaxOne v st e).c v = st.c v ∧ (∀ x, (relaxOne v st e).c x ≤ st.c x) ∧
    (relaxOne v st e).c e.dst ≤ st.c v + e.links.length ∧
    (∀ q ∈ (relaxOne v st e).queue, q ∈ st.queue ∨ q.2 < g.nodes.length) := by
  rcases relaxOne_cases g M src v st e h ho hv hf he with ⟨heq, hle⟩ | ⟨hlt, huv, hus, heq⟩
  · rw [heq]; exact ⟨rfl, fun _ => Nat.le_refl _, hle, fun q hq => Or.inl hq⟩
  · have hu : e.dst < g.nodes.length := (hg.bound e he).2
    have huC : e.dst < st.cost.length := by rw [h.lenC]; exact hu
    have hcu := fun x => upd_c st e.dst (st.c v + e.links.length) v x huC
    rw [heq]
    refine ⟨by rw [hcu, if_neg (fun e' => huv e'.symm)], ?_, by rw [hcu, if_pos rfl]; exact Nat.le_refl _, ?_⟩
    · intro x; rw [hcu]; split
      · rename_i hx; rw [hx]; omega
      · exact Nat.le_refl _
    · intro q hq
      simp only [DState.upd, List.mem_cons] at hq
      rcases hq with hq | hq
      · right; rw [hq]; exact hu
      · exact Or.inl hq

/-- every node in `P` with a finite cost has all its out-edges relaxed or still has an entry in the queue -/
def Clean (g : DGraph) (st : DState) (P : Nat → Prop) : Prop :=
  ∀ x, x < g.nodes.length → P x → st.c x ≠ ULONG_MAX →
    (∀ e ∈ g.edges, e.src = x → st.c e.dst ≤ st.c x + e.links.length) ∨ ∃ k, (k, x) ∈ st.queue

theorem Clean.relaxOne {g : DGraph} {M src v : Nat} {st : DState} {e : DEdge} {P : Nat → Prop} (hcl : Clean g st P)
    (h : DCore g M src st) (hg : GraphOK g) (ho : NoOverflow g M) (hv : v < g.nodes.length) (hf : st.c v ≠ ULONG_MAX)
    (he : e ∈ g.edges) : Clean g (SgVerif.C25.relaxOne v st e) P := by
  have hmono := (relaxOne_facts g M src v st e h hg ho hv hf he).2.1
  rcases relaxOne_cases g M src v st e h ho hv hf he with ⟨heq, _⟩ | ⟨hlt, huv, hus, heq⟩
  · rw [heq]; exact hcl
  · have hu : e.dst < g.nodes.length := (hg.bound e he).2
    have huC : e.dst < st.cost.length := by rw [h.lenC]; exact hu
    have hcu := fun x => upd_c st e.dst (st.c v + e.links.length) v x huC
    rw [heq] at hmono ⊢
    intro x hx hP hfx
    by_cases hxu : x = e.dst
    · right; exact ⟨st.c v + e.links.length, by simp [DState.upd, hxu]⟩
    · rw [hcu, if_neg hxu] at hfx
      rcases hcl x hx hP hfx with hl | ⟨k, hk⟩
      · left
        intro e' he' hs'
        rw [hcu x, if_neg hxu]
        exact Nat.le_trans (hmono e'.dst) (hl e' he' hs')
      · right; exact ⟨k, by simp [DState.upd, hk]⟩

/-- the whole `foreach` over (a part of) the out-edges of `v` -/
theorem relaxEdges_spec (g : DGraph) (M src v : Nat) (hg : GraphOK g) (ho : NoOverflow g M) (hv : v < g.nodes.length)
    (P : Nat → Prop) : ∀ (es : List DEdge) (st : DState), (∀ e ∈ es, e ∈ g.edges ∧ e.src = v) → DCore g M src st →
    st.c v ≠ ULONG_MAX → Clean g st P → (∀ q ∈ st.queue, q.2 < g.nodes.length) →
    DCore g M src (relaxEdges v st es) ∧ Clean g (relaxEdges v st es) P ∧
    (∀ q ∈ (relaxEdges v st es).queue, q.2 < g.nodes.length) ∧
    (relaxEdges v st es).c v = st.c v ∧ (∀ x, (relaxEdges v st es).c x ≤ st.c x) ∧
    (∀ e ∈ es, (relaxEdges v st es).c e.dst ≤ st.c v + e.links.length) := by
  intro es
  induction es with
  | nil =>
    intro st _ h _ hcl hq
    exact ⟨h, hcl, hq, rfl, fun _ => Nat.le_refl _, fun e he => by cases he⟩
  | cons e es ih =>
    intro st hes h hf hcl hq
    obtain ⟨he, hsrc⟩ := hes e (by simp)
    rw [relaxEdges_cons]
    obtain ⟨f1, f2, f3, f4⟩ := relaxOne_facts g M src v st e h hg ho hv hf he
    have h1 := h.relaxOne hg ho hv hf he hsrc
    have hcl1 := hcl.relaxOne h hg ho hv hf he
    have hq1 : ∀ q ∈ (relaxOne v st e).queue, q.2 < g.nodes.length := by
      intro q hq'
      rcases f4 q hq' with h' | h'
      · exact hq q h'
      · exact h'
    obtain ⟨r1, r2, r3, r4, r5, r6⟩ := ih (relaxOne v st e) (fun e' he' => hes e' (by simp [he'])) h1 (by rw [f1]; exact hf) hcl1 hq1
    refine ⟨r1, r2, r3, by rw [r4, f1], fun x => Nat.le_trans (r5 x) (f2 x), ?_⟩
    intro e' he'
    rcases List.mem_cons.mp he' with h' | h'
    · rw [h']; exact Nat.le_trans (r5 e.dst) f3
    · rw [← f1]; exact r6 e' h'

/- ---------------------------------------------------------------- the priority queue -/

theorem popMin_none (q : List (Nat × Nat)) : popMin q = none ↔ q = [] := by
  cases q with
  | nil => simp [popMin]
  | cons x xs =>
    simp only [popMin]
    cases popMin xs with
    | none => simp
    | some mr => obtain ⟨m, rest⟩ := mr; simp only []; split <;> simp

/-- `popMin` removes one entry of the queue (which one matters for the running time only) -/
theorem popMin_spec : ∀ (q : List (Nat × Nat)) (m : Nat × Nat) (rest : List (Nat × Nat)), popMin q = some (m, rest) →
    m ∈ q ∧ (∀ x ∈ q, x = m ∨ x ∈ rest) ∧ (∀ x ∈ rest, x ∈ q) ∧ rest.length + 1 = q.length := by
  intro q
  induction q with
  | nil => intro m rest h; simp [popMin] at h
  | cons x xs ih =>
    intro m rest h
    simp only [popMin] at h
    cases hp : popMin xs with
    | none =>
      rw [hp] at h
      simp only [Option.some.injEq, Prod.mk.injEq] at h
      obtain ⟨h1, h2⟩ := h
      have hxs : xs = [] := (popMin_none xs).mp hp
      subst h1; subst h2; subst hxs
      simp
    | some mr =>
      obtain ⟨m', rest'⟩ := mr
      rw [hp] at h
      obtain ⟨i1, i2, i3, i4⟩ := ih m' rest' hp
      simp only [] at h
      split at h
      · simp only [Option.some.injEq, Prod.mk.injEq] at h
        obtain ⟨h1, h2⟩ := h
        subst h1; subst h2
        refine ⟨by simp, ?_, fun y hy => by simp [hy], by simp⟩
        intro y hy
        rcases List.mem_cons.mp hy with h' | h'
        · exact Or.inl h'
        · exact Or.inr h'
      · simp only [Option.some.injEq, Prod.mk.injEq] at h
        obtain ⟨h1, h2⟩ := h
        subst h1; subst h2
        refine ⟨by simp [i1], ?_, ?_, by simp; omega⟩
        · intro y hy
          rcases List.mem_cons.mp hy with h' | h'
          · right; simp [h']
          · rcases i2 y h' with h'' | h''
            · exact Or.inl h''
            · right; simp [h'']
        · intro y hy
          rcases List.mem_cons.mp hy with h' | h'
          · simp [h']
          · simp [i3 y h']

/- ---------------------------------------------------------------- the loop -/

/-- the loop invariant: relaxation invariant + every finite node is clean or queued + queue entries are graph nodes -/
structure DInv (g : DGraph) (M src : Nat) (st : DState) : Prop where
  core : DCore g M src st
  clean : Clean g st fun _ => True
  qb : ∀ q ∈ st.queue, q.2 < g.nodes.length

theorem DCore.setQueue {g : DGraph} {M src : Nat} {st : DState} (h : DCore g M src st) (q : List (Nat × Nat)) :
    DCore g M src { st with queue := q } :=
  ⟨h.lenC, h.lenP, h.src0, h.bnd, h.tree, h.unre⟩

/-- **the `while (not pqueue.empty())` loop keeps the invariant and ends with an empty queue** (any fuel) -/
theorem dijkstraLoop_spec (g : DGraph) (M src : Nat) (hg : GraphOK g) (ho : NoOverflow g M) :
    ∀ (f : Nat) (st st' : DState), DInv g M src st → dijkstraLoop DVar.now g f st = some st' →
      DInv g M src st' ∧ st'.queue = [] := by
  intro f
  induction f with
  | zero => intro st st' _ h; simp [dijkstraLoop] at h
  | succ f ih =>
    intro st st' hinv h
    unfold dijkstraLoop at h
    cases hp : popMin st.queue with
    | none =>
      rw [hp] at h
      simp only [Option.some.injEq] at h
      subst h
      exact ⟨hinv, (popMin_none _).mp hp⟩
    | some mr =>
      obtain ⟨⟨k, v⟩, rest⟩ := mr
      rw [hp] at h
      simp only [DVar.now, fixedUnreachableGuard, Bool.true_and, decide_eq_true_eq] at h
      obtain ⟨p1, p2, p3, _⟩ := popMin_spec _ _ _ hp
      have hv : v < g.nodes.length := hinv.qb (k, v) p1
      have hcore1 : DCore g M src { st with queue := rest } := hinv.core.setQueue rest
      have hqb1 : ∀ q ∈ rest, q.2 < g.nodes.length := fun q hq => hinv.qb q (p3 q hq)
      -- every finite node other than v is still clean or queued
      have hcl1 : Clean g { st with queue := rest } fun x => x ≠ v := by
        intro x hx hxv hfx
        rcases hinv.clean x hx trivial hfx with hl | ⟨k', hk'⟩
        · exact Or.inl hl
        · right
          rcases p2 (k', x) hk' with h' | h'
          · injection h' with _ h''; exact absurd h'' hxv
          · exact ⟨k', h'⟩
      split at h
      · -- cost_arr[v] == ULONG_MAX: continue
        rename_i hinf
        refine ih _ st' ⟨hcore1, ?_, hqb1⟩ h
        intro x hx _ hfx
        exact hcl1 x hx (fun e' => hfx (by rw [e']; exact hinf)) hfx
      · rename_i hfin
        have hes : ∀ e ∈ g.outEdges v, e ∈ g.edges ∧ e.src = v := by
          intro e he
          simp only [DGraph.outEdges, List.mem_filter, decide_eq_true_eq] at he
          exact he
        obtain ⟨r1, r2, r3, r4, r5, r6⟩ := relaxEdges_spec g M src v hg ho hv (fun x => x ≠ v) (g.outEdges v)
          { st with queue := rest } hes hcore1 hfin hcl1 hqb1
        refine ih _ st' ⟨r1, ?_, r3⟩ h
        intro x hx _ hfx
        by_cases hxv : x = v
        · left
          intro e he hs
          rw [hxv, r4]
          exact r6 e (by simp only [DGraph.outEdges, List.mem_filter, decide_eq_true_eq]; exact ⟨he, hxv ▸ hs⟩)
        · exact r2 x hx hxv hfx

end SgVerif.C25
