import SgVerif.C25.Model
/-
C25 helper lemmas, part 3: the priority-queue loop of DijkstraZone::get_local_route as written (variant `DVar.now`).

* `DCore`: the relaxation invariant, true at every point of the loop (also between two edges of the `foreach`):
  cost_arr[src] = 0; every node with a finite cost (≠ ULONG_MAX) other than src has a predecessor with a finite cost,
  the edge pred → node is in the graph and cost[node] ≥ cost[pred] + |links of the edge| (no wrap-around); a node with
  cost ULONG_MAX has pred ULONG_MAX; finite costs are bounded (≤ (number of finite entries − 1) · M), which is what
  excludes the 64-bit wrap under `NoOverflow g M` (every edge has ≤ M links, nodes · M < ULONG_MAX).
* `Clean`: every node with a finite cost either has all its out-edges relaxed or still has an entry in the queue.  When
  the queue is empty no edge is tense; with `DCore` this gives: finite cost ⇔ reachable, cost = minimal link count over
  all chains of edges, cost[v] = cost[pred v] + |edge| (the predecessor walk returns a route of exactly cost[v] links).
  None of this depends on the order in which `popMin` returns the entries (only the number of iterations does).
-/
namespace SgVerif.C25
open SgVerif.C24 (Lk)

theorem U64_eq : U64 = ULONG_MAX + 1 := by rfl

theorem now_guard : DVar.now.guard = true := rfl
theorem now_hop : DVar.now.hop = true := rfl
theorem insertFront_now (acc l : List Lk) : insertFront DVar.now acc l = l ++ acc := by simp [insertFront, now_hop]

/- ---------------------------------------------------------------- lists -/

theorem getD_set_self (l : List Nat) (i a : Nat) (h : i < l.length) : (l.set i a).getD i 0 = a := by
  simp [List.getD_eq_getElem?_getD, List.getElem?_set, h]

theorem getD_set_other (l : List Nat) (i j a : Nat) (h : i ≠ j) : (l.set i a).getD j 0 = l.getD j 0 := by
  simp [List.getD_eq_getElem?_getD, List.getElem?_set, h]

theorem countP_set_gain (p : Nat → Bool) : ∀ (l : List Nat) (i a : Nat), i < l.length → p (l.getD i 0) = false →
    p a = true → (l.set i a).countP p = l.countP p + 1 := by
  intro l
  induction l with
  | nil => intro i a h; simp at h
  | cons x xs ih =>
    intro i a h hp ha
    cases i with
    | zero =>
      simp only [List.getD_cons_zero] at hp
      simp [List.countP_cons, hp, ha]
    | succ i =>
      simp only [List.getD_cons_succ] at hp
      simp only [List.set_cons_succ, List.countP_cons]
      rw [ih i a (by simpa using h) hp ha]; omega

theorem countP_set_same (p : Nat → Bool) : ∀ (l : List Nat) (i a : Nat), i < l.length → p (l.getD i 0) = true →
    p a = true → (l.set i a).countP p = l.countP p := by
  intro l
  induction l with
  | nil => intro i a h; simp at h
  | cons x xs ih =>
    intro i a h hp ha
    cases i with
    | zero =>
      simp only [List.getD_cons_zero] at hp
      simp [List.countP_cons, hp, ha]
    | succ i =>
      simp only [List.getD_cons_succ] at hp
      simp only [List.set_cons_succ, List.countP_cons]
      rw [ih i a (by simpa using h) hp ha]

/- ---------------------------------------------------------------- graphs -/

/-- what add_route/new_edge/do_seal guarantee about the route graph: edge extremities are graph nodes, at most one
edge between two nodes (`new_edge` throws "already exists"), no empty link list (`add_route_check_params`:
"Empty route … forbidden"; the loopback edge has one link) -/
structure GraphOK (g : DGraph) : Prop where
  bound : ∀ e ∈ g.edges, e.src < g.nodes.length ∧ e.dst < g.nodes.length
  uniq : ∀ e ∈ g.edges, g.findEdge e.src e.dst = some e
  pos : ∀ e ∈ g.edges, e.links ≠ []

/-- no 64-bit wrap-around: every edge has at most `M` links and (number of nodes) · M < ULONG_MAX -/
structure NoOverflow (g : DGraph) (M : Nat) : Prop where
  wle : ∀ e ∈ g.edges, e.links.length ≤ M
  small : g.nodes.length * M < ULONG_MAX

def DState.c (st : DState) (u : Nat) : Nat := st.cost.getD u 0
def DState.p (st : DState) (u : Nat) : Nat := st.pred.getD u 0
/-- number of finite entries of cost_arr -/
def DState.nfin (st : DState) : Nat := st.cost.countP fun x => x != ULONG_MAX

/-- one iteration of the `xbt_dynar_foreach (outedges)` body -/
def relaxOne (v : Nat) (st : DState) (e : DEdge) : DState :=
  let sum := (e.links.length + st.cost.getD v 0) % U64
  if sum < st.cost.getD e.dst 0 then
    { cost := st.cost.set e.dst sum, pred := st.pred.set e.dst v, queue := (sum, e.dst) :: st.queue }
  else st

theorem relaxEdges_cons (v : Nat) (st : DState) (e : DEdge) (es : List DEdge) :
    relaxEdges v st (e :: es) = relaxEdges v (relaxOne v st e) es := by
  simp only [relaxEdges, relaxOne]
  split <;> rfl

/-- the relaxation invariant -/
structure DCore (g : DGraph) (M src : Nat) (st : DState) : Prop where
  lenC : st.cost.length = g.nodes.length
  lenP : st.pred.length = g.nodes.length
  src0 : st.c src = 0
  bnd : ∀ u, u < g.nodes.length → st.c u = ULONG_MAX ∨ st.c u + M ≤ st.nfin * M
  tree : ∀ u, u < g.nodes.length → u ≠ src → st.c u ≠ ULONG_MAX →
    st.p u < g.nodes.length ∧ st.c (st.p u) ≠ ULONG_MAX ∧
    ∃ e ∈ g.edges, e.src = st.p u ∧ e.dst = u ∧ st.c (st.p u) + e.links.length ≤ st.c u
  unre : ∀ u, u < g.nodes.length → st.c u = ULONG_MAX → st.p u = ULONG_MAX

theorem DCore.nfin_le {g : DGraph} {M src : Nat} {st : DState} (h : DCore g M src st) : st.nfin ≤ g.nodes.length := by
  rw [← h.lenC]; exact List.countP_le_length

/-- a finite cost plus one edge does not reach ULONG_MAX -/
theorem DCore.room {g : DGraph} {M src : Nat} {st : DState} (h : DCore g M src st) (ho : NoOverflow g M)
    (v : Nat) (hv : v < g.nodes.length) (hf : st.c v ≠ ULONG_MAX) (e : DEdge) (he : e ∈ g.edges) :
    st.c v + e.links.length ≤ st.nfin * M ∧ st.nfin * M < ULONG_MAX := by
  have h1 := h.bnd v hv
  have h2 := ho.wle e he
  have h3 : st.nfin * M ≤ g.nodes.length * M := Nat.mul_le_mul_right _ h.nfin_le
  have h4 := ho.small
  rcases h1 with h1 | h1
  · exact absurd h1 hf
  · omega

/-- the three assignments of a successful relaxation -/
def DState.upd (st : DState) (u c v : Nat) : DState :=
  { cost := st.cost.set u c, pred := st.pred.set u v, queue := (c, u) :: st.queue }

theorem upd_c (st : DState) (u c v x : Nat) (hu : u < st.cost.length) :
    (st.upd u c v).c x = if x = u then c else st.c x := by
  by_cases hx : x = u
  · subst hx; simp only [DState.c, DState.upd, if_true]; exact getD_set_self _ _ _ hu
  · simp only [DState.c, DState.upd, hx, if_false]; exact getD_set_other _ _ _ _ (fun e' => hx e'.symm)

theorem upd_p (st : DState) (u c v x : Nat) (hu : u < st.pred.length) :
    (st.upd u c v).p x = if x = u then v else st.p x := by
  by_cases hx : x = u
  · subst hx; simp only [DState.p, DState.upd, if_true]; exact getD_set_self _ _ _ hu
  · simp only [DState.p, DState.upd, hx, if_false]; exact getD_set_other _ _ _ _ (fun e' => hx e'.symm)

theorem upd_nfin (st : DState) (u c v : Nat) (hu : u < st.cost.length) (hc : c ≠ ULONG_MAX) :
    (st.upd u c v).nfin = if st.c u = ULONG_MAX then st.nfin + 1 else st.nfin := by
  have hnew : (c != ULONG_MAX) = true := by simpa using hc
  simp only [DState.nfin, DState.upd]
  by_cases hinf : st.c u = ULONG_MAX
  · simp only [hinf, if_true]
    exact countP_set_gain _ _ _ _ hu (by simpa [DState.c] using hinf) hnew
  · simp only [hinf, if_false]
    exact countP_set_same _ _ _ _ hu (by simpa [DState.c] using hinf) hnew

/-- what one relaxation does, under the invariant -/
theorem relaxOne_cases (g : DGraph) (M src v : Nat) (st : DState) (e : DEdge) (h : DCore g M src st)
    (ho : NoOverflow g M) (hv : v < g.nodes.length) (hf : st.c v ≠ ULONG_MAX) (he : e ∈ g.edges) :
    (relaxOne v st e = st ∧ st.c e.dst ≤ st.c v + e.links.length) ∨
    (st.c v + e.links.length < st.c e.dst ∧ e.dst ≠ v ∧ e.dst ≠ src ∧
      relaxOne v st e = st.upd e.dst (st.c v + e.links.length) v) := by
  obtain ⟨hr1, hr2⟩ := h.room ho v hv hf e he
  have hs0 := h.src0
  simp only [DState.c] at hr1 hs0
  have hmod : (e.links.length + st.cost.getD v 0) % U64 = st.cost.getD v 0 + e.links.length := by
    rw [U64_eq, Nat.mod_eq_of_lt (by omega)]; omega
  unfold relaxOne
  simp only [hmod, DState.c]
  by_cases hlt : st.cost.getD v 0 + e.links.length < st.cost.getD e.dst 0
  · right
    refine ⟨hlt, ?_, ?_, by rw [if_pos hlt]; rfl⟩
    · intro e'; rw [e'] at hlt; omega
    · intro e'; rw [e'] at hlt; omega
  · left
    exact ⟨by rw [if_neg hlt], by omega⟩

theorem DCore.relaxOne {g : DGraph} {M src v : Nat} {st : DState} {e : DEdge} (h : DCore g M src st)
    (hg : GraphOK g) (ho : NoOverflow g M) (hv : v < g.nodes.length) (hf : st.c v ≠ ULONG_MAX) (he : e ∈ g.edges)
    (hsrc : e.src = v) : DCore g M src (SgVerif.C25.relaxOne v st e) := by
  rcases relaxOne_cases g M src v st e h ho hv hf he with ⟨heq, _⟩ | ⟨hlt, huv, hus, heq⟩
  · rw [heq]; exact h
  · obtain ⟨hr1, hr2⟩ := h.room ho v hv hf e he
    have hu : e.dst < g.nodes.length := (hg.bound e he).2
    have huC : e.dst < st.cost.length := by rw [h.lenC]; exact hu
    have huP : e.dst < st.pred.length := by rw [h.lenP]; exact hu
    rw [heq]
    have hcu := fun x => upd_c st e.dst (st.c v + e.links.length) v x huC
    have hpu := fun x => upd_p st e.dst (st.c v + e.links.length) v x huP
    have hn := upd_nfin st e.dst (st.c v + e.links.length) v huC (by omega)
    refine ⟨by simp [DState.upd, h.lenC], by simp [DState.upd, h.lenP], ?_, ?_, ?_, ?_⟩
    · rw [hcu, if_neg (fun e' => hus (Eq.symm e'))]; exact h.src0
    · intro x hx
      rw [hcu, hn]
      by_cases hxu : x = e.dst
      · right
        simp only [hxu, if_true]
        by_cases hinf : st.c e.dst = ULONG_MAX
        · simp only [hinf, if_true, Nat.add_mul]; omega
        · simp only [hinf, if_false]
          rcases h.bnd e.dst hu with h' | h'
          · exact absurd h' hinf
          · omega
      · simp only [hxu, if_false]
        rcases h.bnd x hx with h' | h'
        · exact Or.inl h'
        · right
          by_cases hinf : st.c e.dst = ULONG_MAX
          · simp only [hinf, if_true, Nat.add_mul]; omega
          · simp only [hinf, if_false]; exact h'
    · intro x hx hxs hfx
      rw [hcu] at hfx
      rw [hpu]
      by_cases hxu : x = e.dst
      · simp only [hxu, if_true]
        have hvu : ¬ v = e.dst := fun e' => huv e'.symm
        refine ⟨hv, by rw [hcu]; simpa [hvu] using hf, e, he, hsrc, rfl, ?_⟩
        rw [hcu, hcu]; simp [hvu]
      · simp only [hxu, if_false] at hfx ⊢
        obtain ⟨h1, h2, e', he', hs', hd', hle'⟩ := h.tree x hx hxs hfx
        refine ⟨h1, ?_, e', he', hs', hd', ?_⟩
        · rw [hcu]; split
          · omega
          · exact h2
        · rw [hcu, hcu]; simp only [hxu, if_false]
          split
          · rename_i hpx; rw [hpx] at hle'; omega
          · exact hle'
    · intro x hx hinf
      rw [hcu] at hinf
      rw [hpu]
      by_cases hxu : x = e.dst
      · simp only [hxu, if_true] at hinf; omega
      · simp only [hxu, if_false] at hinf ⊢; exact h.unre x hx hinf

theorem relaxOne_facts (g : DGraph) (M src v : Nat) (st : DState) (e : DEdge) (h : DCore g M src st)
    (hg : GraphOK g) (ho : NoOverflow g M) (hv : v < g.nodes.length) (hf : st.c v ≠ ULONG_MAX) (he : e ∈ g.edges) :
    (relaxOne v st e).c v = st.c v ∧ (∀ x, (relaxOne v st e).c x ≤ st.c x) ∧
    (relaxOne v st e).c e.dst ≤ st.c v + e.links.length ∧
    (∀ q ∈ (relaxOne v st e).queue, q ∈ st.queue ∨ q.2 < g.nodes.length) := by
  rcases relaxOne_cases g M src v st e h ho hv hf he with ⟨heq, hle⟩ | ⟨hlt, huv, hus, heq⟩
  · rw [heq]; exact ⟨rfl, fun _ => Nat.le_refl _, hle, fun q hq => Or.inl hq⟩
  · have hu : e.dst < g.nodes.length := (hg.bound e he).2
    have huC : e.dst < st.cost.length := by rw [h.lenC]; exact hu
    have hcu := fun x => upd_c st e.dst (st.c v + e.links.length) v x huC
    rw [heq]
    refine ⟨by rw [hcu, if_neg (fun e' => huv e'.symm)], ?_, by rw [hcu, if_pos rfl]; exact Nat.le_refl _, ?_⟩
    · intro x; rw [hcu]; split
      · rename_i hx; rw [hx]; omega
      · exact Nat.le_refl _
    · intro q hq
      simp only [DState.upd, List.mem_cons] at hq
      rcases hq with hq | hq
      · right; rw [hq]; exact hu
      · exact Or.inl hq

/-- every node in `P` with a finite cost has all its out-edges relaxed or still has an entry in the queue -/
def Clean (g : DGraph) (st : DState) (P : Nat → Prop) : Prop :=
  ∀ x, x < g.nodes.length → P x → st.c x ≠ ULONG_MAX →
    (∀ e ∈ g.edges, e.src = x → st.c e.dst ≤ st.c x + e.links.length) ∨ ∃ k, (k, x) ∈ st.queue

theorem Clean.relaxOne {g : DGraph} {M src v : Nat} {st : DState} {e : DEdge} {P : Nat → Prop} (hcl : Clean g st P)
    (h : DCore g M src st) (hg : GraphOK g) (ho : NoOverflow g M) (hv : v < g.nodes.length) (hf : st.c v ≠ ULONG_MAX)
    (he : e ∈ g.edges) : Clean g (SgVerif.C25.relaxOne v st e) P := by
  have hmono := (relaxOne_facts g M src v st e h hg ho hv hf he).2.1
  rcases relaxOne_cases g M src v st e h ho hv hf he with ⟨heq, _⟩ | ⟨hlt, huv, hus, heq⟩
  · rw [heq]; exact hcl
  · have hu : e.dst < g.nodes.length := (hg.bound e he).2
    have huC : e.dst < st.cost.length := by rw [h.lenC]; exact hu
    have hcu := fun x => upd_c st e.dst (st.c v + e.links.length) v x huC
    rw [heq] at hmono ⊢
    intro x hx hP hfx
    by_cases hxu : x = e.dst
    · right; exact ⟨st.c v + e.links.length, by simp [DState.upd, hxu]⟩
    · rw [hcu, if_neg hxu] at hfx
      rcases hcl x hx hP hfx with hl | ⟨k, hk⟩
      · left
        intro e' he' hs'
        rw [hcu x, if_neg hxu]
        exact Nat.le_trans (hmono e'.dst) (hl e' he' hs')
      · right; exact ⟨k, by simp [DState.upd, hk]⟩

/-- the whole `foreach` over (a part of) the out-edges of `v` -/
theorem relaxEdges_spec (g : DGraph) (M src v : Nat) (hg : GraphOK g) (ho : NoOverflow g M) (hv : v < g.nodes.length)
    (P : Nat → Prop) : ∀ (es : List DEdge) (st : DState), (∀ e ∈ es, e ∈ g.edges ∧ e.src = v) → DCore g M src st →
    st.c v ≠ ULONG_MAX → Clean g st P → (∀ q ∈ st.queue, q.2 < g.nodes.length) →
    DCore g M src (relaxEdges v st es) ∧ Clean g (relaxEdges v st es) P ∧
    (∀ q ∈ (relaxEdges v st es).queue, q.2 < g.nodes.length) ∧
    (relaxEdges v st es).c v = st.c v ∧ (∀ x, (relaxEdges v st es).c x ≤ st.c x) ∧
    (∀ e ∈ es, (relaxEdges v st es).c e.dst ≤ st.c v + e.links.length) := by
  intro es
  induction es with
  | nil =>
    intro st _ h _ hcl hq
    exact ⟨h, hcl, hq, rfl, fun _ => Nat.le_refl _, fun e he => by cases he⟩
  | cons e es ih =>
    intro st hes h hf hcl hq
    obtain ⟨he, hsrc⟩ := hes e (by simp)
    rw [relaxEdges_cons]
    obtain ⟨f1, f2, f3, f4⟩ := relaxOne_facts g M src v st e h hg ho hv hf he
    have h1 := h.relaxOne hg ho hv hf he hsrc
    have hcl1 := hcl.relaxOne h hg ho hv hf he
    have hq1 : ∀ q ∈ (relaxOne v st e).queue, q.2 < g.nodes.length := by
      intro q hq'
      rcases f4 q hq' with h' | h'
      · exact hq q h'
      · exact h'
    obtain ⟨r1, r2, r3, r4, r5, r6⟩ := ih (relaxOne v st e) (fun e' he' => hes e' (by simp [he'])) h1 (by rw [f1]; exact hf) hcl1 hq1
    refine ⟨r1, r2, r3, by rw [r4, f1], fun x => Nat.le_trans (r5 x) (f2 x), ?_⟩
    intro e' he'
    rcases List.mem_cons.mp he' with h' | h'
    · rw [h']; exact Nat.le_trans (r5 e.dst) f3
    · rw [← f1]; exact r6 e' h'

/- ---------------------------------------------------------------- the priority queue -/

theorem popMin_none (q : List (Nat × Nat)) : popMin q = none ↔ q = [] := by
  cases q with
  | nil => simp [popMin]
  | cons x xs =>
    simp only [popMin]
    cases popMin xs with
    | none => simp
    | some mr => obtain ⟨m, rest⟩ := mr; simp only []; split <;> simp

/-- `popMin` removes one entry of the queue (which one matters for the running time only) -/
theorem popMin_spec : ∀ (q : List (Nat × Nat)) (m : Nat × Nat) (rest : List (Nat × Nat)), popMin q = some (m, rest) →
    m ∈ q ∧ (∀ x ∈ q, x = m ∨ x ∈ rest) ∧ (∀ x ∈ rest, x ∈ q) ∧ rest.length + 1 = q.length := by
  intro q
  induction q with
  | nil => intro m rest h; simp [popMin] at h
  | cons x xs ih =>
    intro m rest h
    simp only [popMin] at h
    cases hp : popMin xs with
    | none =>
      rw [hp] at h
      simp only [Option.some.injEq, Prod.mk.injEq] at h
      obtain ⟨h1, h2⟩ := h
      have hxs : xs = [] := (popMin_none xs).mp hp
      subst h1; subst h2; subst hxs
      simp
    | some mr =>
      obtain ⟨m', rest'⟩ := mr
      rw [hp] at h
      obtain ⟨i1, i2, i3, i4⟩ := ih m' rest' hp
      simp only [] at h
      split at h
      · simp only [Option.some.injEq, Prod.mk.injEq] at h
        obtain ⟨h1, h2⟩ := h
        subst h1; subst h2
        refine ⟨by simp, ?_, fun y hy => by simp [hy], by simp⟩
        intro y hy
        rcases List.mem_cons.mp hy with h' | h'
        · exact Or.inl h'
        · exact Or.inr h'
      · simp only [Option.some.injEq, Prod.mk.injEq] at h
        obtain ⟨h1, h2⟩ := h
        subst h1; subst h2
        refine ⟨by simp [i1], ?_, ?_, by simp; omega⟩
        · intro y hy
          rcases List.mem_cons.mp hy with h' | h'
          · right; simp [h']
          · rcases i2 y h' with h'' | h''
            · exact Or.inl h''
            · right; simp [h'']
        · intro y hy
          rcases List.mem_cons.mp hy with h' | h'
          · simp [h']
          · simp [i3 y h']

/- ---------------------------------------------------------------- the loop -/

/-- the loop invariant: relaxation invariant + every finite node is clean or queued + queue entries are graph nodes -/
structure DInv (g : DGraph) (M src : Nat) (st : DState) : Prop where
  core : DCore g M src st
  clean : Clean g st fun _ => True
  qb : ∀ q ∈ st.queue, q.2 < g.nodes.length

theorem DCore.setQueue {g : DGraph} {M src : Nat} {st : DState} (h : DCore g M src st) (q : List (Nat × Nat)) :
    DCore g M src { st with queue := q } :=
  ⟨h.lenC, h.lenP, h.src0, h.bnd, h.tree, h.unre⟩

theorem mem_outEdges (g : DGraph) (v : Nat) (e : DEdge) : e ∈ g.outEdges v ↔ e ∈ g.edges ∧ e.src = v := by
  simp only [DGraph.outEdges, List.mem_filter, decide_eq_true_eq]

/-- a popped entry whose node has cost ULONG_MAX: `continue` -/
theorem DInv.skip {g : DGraph} {M src : Nat} {st : DState} (hinv : DInv g M src st) (k v : Nat)
    (rest : List (Nat × Nat)) (hp : popMin st.queue = some ((k, v), rest)) (hinf : st.c v = ULONG_MAX) :
    DInv g M src { st with queue := rest } := by
  obtain ⟨p1, p2, p3, _⟩ := popMin_spec _ _ _ hp
  refine ⟨hinv.core.setQueue rest, ?_, fun q hq => hinv.qb q (p3 q hq)⟩
  intro x hx _ hfx
  rcases hinv.clean x hx trivial hfx with hl | ⟨k', hk'⟩
  · exact Or.inl hl
  · right
    rcases p2 (k', x) hk' with h' | h'
    · injection h' with _ h''; exact absurd (h'' ▸ hinf) hfx
    · exact ⟨k', h'⟩

/-- a popped entry whose node has a finite cost: all its out-edges are relaxed -/
theorem DInv.process {g : DGraph} {M src : Nat} {st : DState} (hinv : DInv g M src st) (hg : GraphOK g)
    (ho : NoOverflow g M) (k v : Nat) (rest : List (Nat × Nat)) (hp : popMin st.queue = some ((k, v), rest))
    (hfin : st.c v ≠ ULONG_MAX) : DInv g M src (relaxEdges v { st with queue := rest } (g.outEdges v)) := by
  obtain ⟨p1, p2, p3, _⟩ := popMin_spec _ _ _ hp
  have hv : v < g.nodes.length := hinv.qb (k, v) p1
  have hcore1 : DCore g M src { st with queue := rest } := hinv.core.setQueue rest
  have hqb1 : ∀ q ∈ rest, q.2 < g.nodes.length := fun q hq => hinv.qb q (p3 q hq)
  have hcl1 : Clean g { st with queue := rest } fun x => x ≠ v := by
    intro x hx hxv hfx
    rcases hinv.clean x hx trivial hfx with hl | ⟨k', hk'⟩
    · exact Or.inl hl
    · right
      rcases p2 (k', x) hk' with h' | h'
      · injection h' with _ h''; exact absurd h'' hxv
      · exact ⟨k', h'⟩
  obtain ⟨r1, r2, r3, r4, r5, r6⟩ := relaxEdges_spec g M src v hg ho hv (fun x => x ≠ v) (g.outEdges v)
    { st with queue := rest } (fun e he => (mem_outEdges g v e).mp he) hcore1 hfin hcl1 hqb1
  refine ⟨r1, ?_, r3⟩
  intro x hx _ hfx
  by_cases hxv : x = v
  · left
    intro e he hs
    rw [hxv, r4]
    exact r6 e ((mem_outEdges g v e).mpr ⟨he, hxv ▸ hs⟩)
  · exact r2 x hx hxv hfx

/-- **the `while (not pqueue.empty())` loop keeps the invariant and ends with an empty queue** (any fuel) -/
theorem dijkstraLoop_spec (g : DGraph) (M src : Nat) (hg : GraphOK g) (ho : NoOverflow g M) :
    ∀ (f : Nat) (st st' : DState), DInv g M src st → dijkstraLoop DVar.now g f st = some st' →
      DInv g M src st' ∧ st'.queue = [] := by
  intro f
  induction f with
  | zero => intro st st' _ h; simp [dijkstraLoop] at h
  | succ f ih =>
    intro st st' hinv h
    unfold dijkstraLoop at h
    cases hp : popMin st.queue with
    | none =>
      rw [hp] at h
      simp only [Option.some.injEq] at h
      subst h
      exact ⟨hinv, (popMin_none _).mp hp⟩
    | some mr =>
      obtain ⟨⟨k, v⟩, rest⟩ := mr
      rw [hp] at h
      simp only [now_guard, Bool.true_and, decide_eq_true_eq] at h
      split at h
      · rename_i hinf
        exact ih _ st' (hinv.skip k v rest hp hinf) h
      · rename_i hfin
        exact ih _ st' (hinv.process hg ho k v rest hp hfin) h

/- ---------------------------------------------------------------- initialisation -/

/-- cost_arr / pred_arr / pqueue before the loop (code as it is now: `pred_arr[i] = ULONG_MAX`) -/
def dijkstraInit (g : DGraph) (src : Nat) : DState :=
  let n := g.nodes.length
  let cost := (List.range n).map fun i => if i = src then 0 else ULONG_MAX
  { cost := cost, pred := List.replicate n ULONG_MAX, queue := (List.range n).map fun i => (cost.getD i 0, i) }

theorem dijkstraPreds_now (g : DGraph) (fuel src : Nat) :
    dijkstraPreds DVar.now g fuel src = (dijkstraLoop DVar.now g fuel (dijkstraInit g src)).map (·.pred) := by
  simp [dijkstraPreds, dijkstraInit, DVar.now, fixedUnreachableGuard]

theorem getD_map_range (n u : Nat) (f : Nat → Nat) (hu : u < n) : ((List.range n).map f).getD u 0 = f u := by
  simp [List.getD_eq_getElem?_getD, List.getElem?_map, List.getElem?_range hu]

theorem dijkstraInit_inv (g : DGraph) (M src : Nat) (hs : src < g.nodes.length) : DInv g M src (dijkstraInit g src) := by
  have hc : ∀ u, u < g.nodes.length → (dijkstraInit g src).c u = if u = src then 0 else ULONG_MAX := by
    intro u hu; simp only [DState.c, dijkstraInit]; exact getD_map_range _ _ _ hu
  have hp : ∀ u, u < g.nodes.length → (dijkstraInit g src).p u = ULONG_MAX := by
    intro u hu
    simp [DState.p, dijkstraInit, List.getD_eq_getElem?_getD, List.getElem?_replicate, hu]
  have hn : 1 ≤ (dijkstraInit g src).nfin := by
    apply List.countP_pos_iff.mpr
    refine ⟨0, ?_, by decide⟩
    simp only [dijkstraInit, List.mem_map, List.mem_range]
    exact ⟨src, hs, by simp⟩
  refine ⟨⟨by simp [dijkstraInit], by simp [dijkstraInit], by rw [hc src hs]; simp, ?_, ?_, ?_⟩, ?_, ?_⟩
  · intro u hu
    rw [hc u hu]
    by_cases hus : u = src
    · right; simp only [hus, if_true]
      have := Nat.mul_le_mul_right M hn
      omega
    · left; simp [hus]
  · intro u hu hus hf
    rw [hc u hu] at hf; simp [hus] at hf
  · intro u hu _; exact hp u hu
  · intro x hx _ hfx
    rw [hc x hx] at hfx
    have hxs : x = src := by
      apply Classical.byContradiction; intro hne; simp [hne] at hfx
    right
    refine ⟨(dijkstraInit g src).c src, ?_⟩
    simp only [dijkstraInit, DState.c, List.mem_map, List.mem_range]
    exact ⟨src, hs, by rw [hxs]⟩
  · intro q hq
    simp only [dijkstraInit, List.mem_map, List.mem_range] at hq
    obtain ⟨i, hi, he⟩ := hq
    rw [← he]; exact hi

/- ---------------------------------------------------------------- after the loop -/

def EdgeChain (g : DGraph) : Nat → List DEdge → Nat → Prop
  | a, [], b => a = b
  | a, e :: es, b => e ∈ g.edges ∧ e.src = a ∧ EdgeChain g e.dst es b

theorem edgeChain_snoc (g : DGraph) (e : DEdge) (he : e ∈ g.edges) : ∀ (es : List DEdge) (a : Nat),
    EdgeChain g a es e.src → EdgeChain g a (es ++ [e]) e.dst := by
  intro es
  induction es with
  | nil => intro a h; simp only [EdgeChain] at h; exact ⟨he, h.symm, rfl⟩
  | cons x xs ih => intro a h; exact ⟨h.1, h.2.1, ih x.dst h.2.2⟩

/-- total link count of a chain of edges -/
def chainLen (es : List DEdge) : Nat := (es.flatMap fun e => e.links).length

theorem chainLen_cons (e : DEdge) (es : List DEdge) : chainLen (e :: es) = e.links.length + chainLen es := by
  simp [chainLen]

/-- the state when the loop is left: the invariant, and no edge out of a finite node is tense -/
structure DFinal (g : DGraph) (M src : Nat) (st : DState) : Prop where
  core : DCore g M src st
  relaxed : ∀ e ∈ g.edges, st.c e.src ≠ ULONG_MAX → st.c e.dst ≤ st.c e.src + e.links.length

theorem DInv.final {g : DGraph} {M src : Nat} {st : DState} (h : DInv g M src st) (hg : GraphOK g)
    (hq : st.queue = []) : DFinal g M src st := by
  refine ⟨h.core, ?_⟩
  intro e he hf
  rcases h.clean e.src (hg.bound e he).1 trivial hf with hl | ⟨k, hk⟩
  · exact hl e he rfl
  · rw [hq] at hk; cases hk

/-- **completeness and lower bound**: every node reachable from a finite node by a chain of edges has a finite cost,
at most the cost of the start plus the link count of the chain -/
theorem DFinal.reach {g : DGraph} {M src : Nat} {st : DState} (h : DFinal g M src st) (hg : GraphOK g)
    (ho : NoOverflow g M) : ∀ (es : List DEdge) (a v : Nat), a < g.nodes.length → st.c a ≠ ULONG_MAX →
    EdgeChain g a es v → v < g.nodes.length ∧ st.c v ≠ ULONG_MAX ∧ st.c v ≤ st.c a + chainLen es := by
  intro es
  induction es with
  | nil =>
    intro a v ha hf hc
    simp only [EdgeChain] at hc
    subst hc
    exact ⟨ha, hf, by simp [chainLen]⟩
  | cons e es ih =>
    intro a v ha hf hc
    obtain ⟨he, hs, hrest⟩ := hc
    subst hs
    have hle := h.relaxed e he hf
    obtain ⟨hr1, hr2⟩ := h.core.room ho e.src ha hf e he
    obtain ⟨i1, i2, i3⟩ := ih e.dst v (hg.bound e he).2 (by omega) hrest
    exact ⟨i1, i2, by rw [chainLen_cons]; omega⟩

/-- the predecessor array after the loop, exact form -/
theorem DFinal.tree_eq {g : DGraph} {M src : Nat} {st : DState} (h : DFinal g M src st) (u : Nat)
    (hu : u < g.nodes.length) (hus : u ≠ src) (hf : st.c u ≠ ULONG_MAX) :
    st.p u < g.nodes.length ∧ st.c (st.p u) ≠ ULONG_MAX ∧
    ∃ e ∈ g.edges, e.src = st.p u ∧ e.dst = u ∧ st.c (st.p u) + e.links.length = st.c u := by
  obtain ⟨h1, h2, e, he, hs, hd, hle⟩ := h.core.tree u hu hus hf
  refine ⟨h1, h2, e, he, hs, hd, ?_⟩
  have := h.relaxed e he (by rw [hs]; exact h2)
  rw [hs, hd] at this
  omega

theorem nodup_bound' (n : Nat) (l : List Nat) (hd : l.Nodup) (hb : ∀ x ∈ l, x < n) : l.length ≤ n := by
  have := List.Nodup.length_le_of_subset hd (l₂ := List.range n) (fun x hx => List.mem_range.mpr (hb x hx))
  simpa using this

/-- **the composition loop terminates within the fuel and collects exactly cost_arr[v] links**: `seen` = the nodes
visited before `v` (all with a larger cost, hence distinct) -/
theorem dijkstraWalk_ok (g : DGraph) (M src : Nat) (st : DState) (hg : GraphOK g) (ho : NoOverflow g M)
    (h : DFinal g M src st) : ∀ (f v : Nat) (acc : List Lk) (seen : List Nat), v < g.nodes.length →
      st.c v ≠ ULONG_MAX → seen.Nodup → (∀ x ∈ seen, x < g.nodes.length ∧ st.c v < st.c x) →
      g.nodes.length ≤ f + seen.length →
      ∃ links, dijkstraWalk DVar.now g st.pred src f v acc = .ok (links ++ acc) ∧ links.length = st.c v := by
  intro f
  induction f with
  | zero =>
    intro v acc seen hv _ hnd hseen hf
    have hnot : v ∉ seen := fun hm => by have := (hseen v hm).2; omega
    have := nodup_bound' g.nodes.length (v :: seen) (List.nodup_cons.mpr ⟨hnot, hnd⟩) (by
      intro x hx
      rcases List.mem_cons.mp hx with h' | h'
      · omega
      · exact (hseen x h').1)
    simp at this; omega
  | succ f ih =>
    intro v acc seen hv hfin hnd hseen hf
    unfold dijkstraWalk
    by_cases hvs : v = src
    · simp only [hvs, if_true]
      exact ⟨[], rfl, by rw [← hvs] ; have := h.core.src0; rw [← hvs] at this; simp [this]⟩
    · simp only [hvs, if_false]
      obtain ⟨hp1, hp2, e, he, hs, hd, heq⟩ := h.tree_eq v hv hvs hfin
      have hpos : 0 < e.links.length := List.length_pos_iff.mpr (hg.pos e he)
      have hM := ho.wle e he
      have hsmall := ho.small
      have hpm : st.pred.getD v 0 ≠ ULONG_MAX := by
        intro e'
        have h1 : st.p v < g.nodes.length := hp1
        unfold DState.p at h1
        have : g.nodes.length ≤ g.nodes.length * M := Nat.le_mul_of_pos_right _ (by omega)
        omega
      have hfe : g.findEdge (st.pred.getD v 0) v = some e := by
        have := hg.uniq e he
        rw [hs, hd] at this; exact this
      simp only [now_guard, Bool.true_and, decide_eq_true_eq, hpm, if_false, hfe]
      have hnot : v ∉ seen := fun hm => by have := (hseen v hm).2; omega
      obtain ⟨links, hw, hlen⟩ := ih (st.p v) (insertFront DVar.now acc e.links) (v :: seen) hp1 hp2
        (List.nodup_cons.mpr ⟨hnot, hnd⟩)
        (by
          intro x hx
          rcases List.mem_cons.mp hx with h' | h'
          · rw [h']; exact ⟨hv, by omega⟩
          · exact ⟨(hseen x h').1, by have := (hseen x h').2; omega⟩)
        (by simp; omega)
      refine ⟨links ++ e.links, ?_, by simp [hlen]; omega⟩
      rw [insertFront_now] at hw ⊢
      rw [List.append_assoc]; exact hw

/-- a destination whose cost stayed ULONG_MAX: "No route" at the first step of the composition -/
theorem dijkstraWalk_noRoute (g : DGraph) (M src : Nat) (st : DState) (h : DFinal g M src st) (f v : Nat)
    (acc : List Lk) (hv : v < g.nodes.length) (hvs : v ≠ src) (hinf : st.c v = ULONG_MAX) :
    dijkstraWalk DVar.now g st.pred src (f + 1) v acc = .error .noRoute := by
  have := h.core.unre v hv hinf
  unfold DState.p at this
  unfold dijkstraWalk
  simp only [hvs, if_false, now_guard, Bool.true_and, decide_eq_true_eq, this, if_true]

theorem nodeIdx_lt (g : DGraph) (id i : Nat) (h : g.nodeIdx id = some i) : i < g.nodes.length := by
  simp only [DGraph.nodeIdx, List.idxOf?] at h
  obtain ⟨hlt, _⟩ := List.findIdx?_eq_some_iff_getElem.mp h
  exact hlt

/- ---------------------------------------------------------------- graphs built by add_route / do_seal -/

theorem graphOK_empty : GraphOK { nodes := [], edges := [] } :=
  ⟨fun _ h => (by cases h), fun _ h => (by cases h), fun _ h => (by cases h)⟩

theorem graphOK_addEdge (g g2 : DGraph) (h : GraphOK g) (he : g2.edges = g.edges)
    (hlen : g.nodes.length ≤ g2.nodes.length) (a b : Nat) (l : List Lk) (ha : a < g2.nodes.length)
    (hb : b < g2.nodes.length) (hnone : g2.findEdge a b = none) (hl : l ≠ []) :
    GraphOK { g2 with edges := g2.edges ++ [{ src := a, dst := b, links := l }] } := by
  refine ⟨?_, ?_, ?_⟩
  · intro e hmem
    simp only [List.mem_append, List.mem_singleton] at hmem
    rcases hmem with h' | h'
    · have := h.bound e (he ▸ h'); simp only; omega
    · subst h'; exact ⟨ha, hb⟩
  · intro e hmem
    simp only [List.mem_append, List.mem_singleton] at hmem
    simp only [DGraph.findEdge, List.find?_append]
    rcases hmem with h' | h'
    · have := h.uniq e (he ▸ h')
      simp only [DGraph.findEdge, ← he] at this
      rw [this]; rfl
    · subst h'
      simp only [DGraph.findEdge] at hnone
      rw [hnone]; simp
  · intro e hmem
    simp only [List.mem_append, List.mem_singleton] at hmem
    rcases hmem with h' | h'
    · exact h.pos e (he ▸ h')
    · subst h'; exact hl

theorem graphOK_newEdge (g g' : DGraph) (a b : Nat) (l : List Lk) (h : GraphOK g) (hl : l ≠ [])
    (hn : g.newEdge a b l = some g') : GraphOK g' := by
  unfold DGraph.newEdge at hn
  extract_lets g1 g2 at hn
  have he : g2.edges = g.edges := by
    simp only [g2, g1]; split <;> split <;> rfl
  have hlen : g.nodes.length ≤ g2.nodes.length := by
    simp only [g2, g1]; split <;> split <;> simp <;> omega
  split at hn
  · rename_i x y hx hy
    split at hn
    · cases hn
    · rename_i hnone
      simp only [Option.some.injEq] at hn
      subst hn
      exact graphOK_addEdge g g2 h he hlen x y l (nodeIdx_lt g2 a x hx) (nodeIdx_lt g2 b y hy)
        (by simpa using hnone) hl
  · cases hn

theorem graphOK_addRoute (g g' : DGraph) (a b : Nat) (l : List Lk) (sym : Bool) (h : GraphOK g) (hl : l ≠ [])
    (hn : dijkstraAddRoute g a b l sym = some g') : GraphOK g' := by
  unfold dijkstraAddRoute at hn
  split at hn
  · cases hn
  · rename_i g1 h1
    have hg1 := graphOK_newEdge g g1 a b l h hl h1
    cases sym
    · simp only [Bool.false_eq_true, if_false, Option.some.injEq] at hn; subst hn; exact hg1
    · simp only [if_true] at hn
      exact graphOK_newEdge g1 g' b a l.reverse hg1 (by simpa using hl) hn

theorem graphOK_seal (g : DGraph) (h : GraphOK g) : GraphOK (dijkstraSeal g) ∧ (dijkstraSeal g).nodes = g.nodes := by
  unfold dijkstraSeal
  have : ∀ (is : List Nat) (g' : DGraph), (∀ i ∈ is, i < g.nodes.length) → GraphOK g' → g'.nodes = g.nodes →
      GraphOK (is.foldl (fun g i =>
        if (g.findEdge i i).isSome then g else { g with edges := g.edges ++ [{ src := i, dst := i, links := [0] }] }) g') ∧
      (is.foldl (fun g i =>
        if (g.findEdge i i).isSome then g else { g with edges := g.edges ++ [{ src := i, dst := i, links := [0] }] }) g').nodes
        = g.nodes := by
    intro is
    induction is with
    | nil => intro g' _ h1 h2; exact ⟨h1, h2⟩
    | cons i is ih =>
      intro g' hi h1 h2
      simp only [List.foldl_cons]
      apply ih _ (fun j hj => hi j (by simp [hj]))
      · split
        · exact h1
        · rename_i hnone
          have hi' : i < g'.nodes.length := by rw [h2]; exact hi i (by simp)
          exact graphOK_addEdge g' g' h1 rfl (Nat.le_refl _) i i [0] hi' hi' (by simpa using hnone) (by simp)
      · split
        · exact h2
        · exact h2
  exact this (List.range g.nodes.length) g (fun i hi => List.mem_range.mp hi) h rfl

/-- the declarations as the driver replays them, then do_seal -/
theorem graphOK_routes : ∀ (routes : List (Nat × Nat × Bool × List Lk)) (g0 g : DGraph), GraphOK g0 →
    (∀ r ∈ routes, r.2.2.2 ≠ []) →
    routes.foldl (fun acc r => acc.bind fun g => dijkstraAddRoute g r.1 r.2.1 r.2.2.2 r.2.2.1) (some g0) = some g →
    GraphOK (dijkstraSeal g) := by
  intro routes
  induction routes with
  | nil => intro g0 g h _ he; simp at he; subst he; exact (graphOK_seal _ h).1
  | cons r rs ih =>
    intro g0 g h hr he
    simp only [List.foldl_cons, Option.bind_some] at he
    cases hadd : dijkstraAddRoute g0 r.1 r.2.1 r.2.2.2 r.2.2.1 with
    | none =>
      rw [hadd] at he
      have : ∀ (rs : List (Nat × Nat × Bool × List Lk)),
          rs.foldl (fun acc r => acc.bind fun g => dijkstraAddRoute g r.1 r.2.1 r.2.2.2 r.2.2.1) none = none := by
        intro rs; induction rs with
        | nil => rfl
        | cons _ _ ih => simpa using ih
      rw [this] at he; cases he
    | some g1 =>
      rw [hadd] at he
      exact ih g1 g (graphOK_addRoute g0 g1 _ _ _ _ h (hr r (by simp)) hadd) (fun q hq => hr q (by simp [hq])) he

end SgVerif.C25
