import SgVerif.C25.DijkstraInv
/-
C25 helper lemmas, part 4: the priority-queue loop of DijkstraZone::get_local_route stops after at most
(number of nodes) + (number of edges) pops — Dijkstra's order argument for the loop as written (lazy deletion: a node can
be popped several times; stale entries are not recognised, the node is simply relaxed from again, which changes nothing).

`OInv st S d` (S = the nodes already relaxed from, d = the last finite key popped): every queue entry has a key ≥ d and
≥ the current cost of its node; a node of S has cost ≤ d and all its out-edges relaxed; every node with a finite cost
outside S has the entry (its cost, itself) in the queue.  `popMin` returns the entry with the smallest key, hence
a node of S is never lowered again, a second pop of it pushes nothing, and every edge is pushed for at most once:
potential = queue length + number of edges whose source is not in S.
-/
namespace SgVerif.C25
open SgVerif.C24 (Lk)

theorem popMin_min : ∀ (q : List (Nat × Nat)) (m : Nat × Nat) (rest : List (Nat × Nat)), popMin q = some (m, rest) →
    ∀ x ∈ q, m.1 ≤ x.1 := by
  intro q
  induction q with
  | nil => intro m rest h; simp [popMin] at h
  | cons x xs ih =>
    intro m rest h
    simp only [popMin] at h
    cases hp : popMin xs with
    | none =>
      rw [hp] at h
      simp only [Option.some.injEq, Prod.mk.injEq] at h
      have hxs : xs = [] := (popMin_none xs).mp hp
      subst hxs
      intro y hy
      simp only [List.mem_singleton] at hy
      rw [hy, h.1]; exact Nat.le_refl _
    | some mr =>
      obtain ⟨m', rest'⟩ := mr
      rw [hp] at h
      have i1 := ih m' rest' hp
      simp only [] at h
      split at h
      · rename_i hc
        simp only [Option.some.injEq, Prod.mk.injEq] at h
        intro y hy
        rw [← h.1]
        rcases List.mem_cons.mp hy with h' | h'
        · rw [h']; exact Nat.le_refl _
        · have := i1 y h'; omega
      · rename_i hc
        simp only [Option.some.injEq, Prod.mk.injEq] at h
        intro y hy
        rw [← h.1]
        rcases List.mem_cons.mp hy with h' | h'
        · rw [h']; omega
        · exact i1 y h'

/-- number of edges whose source has not been relaxed from yet -/
def unsettled (g : DGraph) (S : List Nat) : Nat := g.edges.countP fun e => !S.contains e.src

theorem unsettled_cons (g : DGraph) (S : List Nat) (v : Nat) (hv : v ∉ S) :
    unsettled g S = unsettled g (v :: S) + (g.outEdges v).length := by
  unfold unsettled DGraph.outEdges
  rw [← List.countP_eq_length_filter]
  induction g.edges with
  | nil => rfl
  | cons e es ih =>
    simp only [List.countP_cons, ih]
    have key : (if (!S.contains e.src) = true then 1 else 0) =
        (if (!(v :: S).contains e.src) = true then 1 else 0) + (if decide (e.src = v) = true then 1 else 0) := by
      by_cases hev : e.src = v
      · have h1 : S.contains e.src = false := by rw [hev]; simpa using hv
        have h2 : (v :: S).contains e.src = true := by simp [hev]
        rw [h1, h2]; simp [hev]
      · have h2 : (v :: S).contains e.src = S.contains e.src := by
          rw [List.contains_cons]; simp [hev]
        rw [h2]; simp [hev]
    omega

/-- what one relaxation does to the queue and to the other costs -/
theorem relaxOne_more (g : DGraph) (M src v : Nat) (st : DState) (e : DEdge) (h : DCore g M src st)
    (hg : GraphOK g) (ho : NoOverflow g M) (hv : v < g.nodes.length) (hf : st.c v ≠ ULONG_MAX) (he : e ∈ g.edges) :
    (∀ q ∈ st.queue, q ∈ (relaxOne v st e).queue) ∧
    (∀ q ∈ (relaxOne v st e).queue, q ∈ st.queue ∨ (st.c v ≤ q.1 ∧ (relaxOne v st e).c q.2 ≤ q.1)) ∧
    (∀ x, (relaxOne v st e).c x = st.c x ∨ ((relaxOne v st e).c x, x) ∈ (relaxOne v st e).queue) ∧
    (∀ x, st.c x ≤ st.c v → (relaxOne v st e).c x = st.c x) ∧
    (relaxOne v st e).queue.length ≤ st.queue.length + 1 ∧
    (st.c e.dst ≤ st.c v + e.links.length → relaxOne v st e = st) := by
  rcases relaxOne_cases g M src v st e h ho hv hf he with ⟨heq, hle⟩ | ⟨hlt, huv, hus, heq⟩
  · rw [heq]
    exact ⟨fun q hq => hq, fun q hq => Or.inl hq, fun x => Or.inl rfl, fun x _ => rfl, by omega, fun _ => rfl⟩
  · have hu : e.dst < g.nodes.length := (hg.bound e he).2
    have huC : e.dst < st.cost.length := by rw [h.lenC]; exact hu
    have hcu := fun x => upd_c st e.dst (st.c v + e.links.length) v x huC
    rw [heq]
    refine ⟨fun q hq => by simp [DState.upd, hq], ?_, ?_, ?_, by simp [DState.upd], fun hle => by omega⟩
    · intro q hq
      simp only [DState.upd, List.mem_cons] at hq
      rcases hq with hq | hq
      · right; rw [hq]; simp only; rw [hcu, if_pos rfl]; omega
      · exact Or.inl hq
    · intro x
      by_cases hx : x = e.dst
      · right; rw [hcu, if_pos hx, hx]; simp [DState.upd]
      · left; rw [hcu, if_neg hx]
    · intro x hx
      rw [hcu]; split
      · rename_i hxu; rw [hxu] at hx; omega
      · rfl

theorem relaxEdges_more (g : DGraph) (M src v : Nat) (hg : GraphOK g) (ho : NoOverflow g M) (hv : v < g.nodes.length) :
    ∀ (es : List DEdge) (st : DState), (∀ e ∈ es, e ∈ g.edges ∧ e.src = v) → DCore g M src st →
    st.c v ≠ ULONG_MAX →
    (∀ q ∈ st.queue, q ∈ (relaxEdges v st es).queue) ∧
    (∀ q ∈ (relaxEdges v st es).queue, q ∈ st.queue ∨ (st.c v ≤ q.1 ∧ (relaxEdges v st es).c q.2 ≤ q.1)) ∧
    (∀ x, (relaxEdges v st es).c x = st.c x ∨ ((relaxEdges v st es).c x, x) ∈ (relaxEdges v st es).queue) ∧
    (∀ x, st.c x ≤ st.c v → (relaxEdges v st es).c x = st.c x) ∧
    (relaxEdges v st es).queue.length ≤ st.queue.length + es.length ∧
    (∀ x, (relaxEdges v st es).c x ≤ st.c x) ∧
    ((∀ e ∈ es, st.c e.dst ≤ st.c v + e.links.length) → relaxEdges v st es = st) := by
  intro es
  induction es with
  | nil =>
    intro st _ _ _
    exact ⟨fun q hq => hq, fun q hq => Or.inl hq, fun x => Or.inl rfl, fun x _ => rfl, by simp [relaxEdges],
      fun _ => Nat.le_refl _, fun _ => rfl⟩
  | cons e es ih =>
    intro st hes h hf
    obtain ⟨he, hsrc⟩ := hes e (by simp)
    rw [relaxEdges_cons]
    obtain ⟨f1, f2, _, _⟩ := relaxOne_facts g M src v st e h hg ho hv hf he
    obtain ⟨m1, m2, m3, m4, m5, m6⟩ := relaxOne_more g M src v st e h hg ho hv hf he
    have h1 := h.relaxOne hg ho hv hf he hsrc
    obtain ⟨r1, r2, r3, r4, r5, r6, r7⟩ := ih (relaxOne v st e) (fun e' he' => hes e' (by simp [he'])) h1
      (by rw [f1]; exact hf)
    refine ⟨fun q hq => r1 q (m1 q hq), ?_, ?_, ?_, by simp only [List.length_cons]; omega,
      fun x => Nat.le_trans (r6 x) (f2 x), ?_⟩
    · intro q hq
      rcases r2 q hq with h' | ⟨h', h''⟩
      · rcases m2 q h' with h2 | ⟨h2, h3⟩
        · exact Or.inl h2
        · exact Or.inr ⟨h2, Nat.le_trans (r6 q.2) h3⟩
      · right; rw [f1] at h'; exact ⟨h', h''⟩
    · intro x
      rcases r3 x with h' | h'
      · rcases m3 x with h2 | h2
        · left; rw [h', h2]
        · right; rw [h']; exact r1 _ h2
      · exact Or.inr h'
    · intro x hx
      rw [r4 x (by rw [f1, m4 x hx]; exact hx), m4 x hx]
    · intro hall
      have e1 := m6 (hall e (by simp))
      rw [e1] at r7 ⊢
      exact r7 (fun e' he' => hall e' (by simp [he']))

/-- Dijkstra's order invariant (see the header) -/
structure OInv (g : DGraph) (st : DState) (S : List Nat) (d : Nat) : Prop where
  keys : ∀ q ∈ st.queue, d ≤ q.1 ∧ st.c q.2 ≤ q.1
  settled : ∀ x ∈ S, x < g.nodes.length ∧ st.c x ≠ ULONG_MAX ∧ st.c x ≤ d ∧
    ∀ e ∈ g.edges, e.src = x → st.c e.dst ≤ st.c x + e.links.length
  queued : ∀ x, x < g.nodes.length → st.c x ≠ ULONG_MAX → x ∉ S → (st.c x, x) ∈ st.queue

/-- **the loop terminates within (queue length) + (edges out of nodes not relaxed from yet) + 1 iterations** -/
theorem dijkstraLoop_terminates_aux (g : DGraph) (M src : Nat) (hg : GraphOK g) (ho : NoOverflow g M) :
    ∀ (f : Nat) (st : DState) (S : List Nat) (d : Nat), DInv g M src st → OInv g st S d →
      st.queue.length + unsettled g S < f → ∃ st', dijkstraLoop DVar.now g f st = some st' := by
  intro f
  induction f with
  | zero => intro st S d _ _ h; omega
  | succ f ih =>
    intro st S d hinv hord hΦ
    unfold dijkstraLoop
    cases hp : popMin st.queue with
    | none => exact ⟨st, rfl⟩
    | some mr =>
      obtain ⟨⟨k, v⟩, rest⟩ := mr
      simp only [now_guard, Bool.true_and, decide_eq_true_eq]
      obtain ⟨p1, p2, p3, p4⟩ := popMin_spec _ _ _ hp
      have pmin := popMin_min _ _ _ hp
      have hv : v < g.nodes.length := hinv.qb (k, v) p1
      by_cases hinf : st.c v = ULONG_MAX
      · -- continue
        have : ({ st with queue := rest } : DState).cost.getD v 0 = ULONG_MAX := hinf
        rw [if_pos this]
        apply ih _ S d (hinv.skip k v rest hp hinf) ?_ (by simp only []; omega)
        refine ⟨fun q hq => hord.keys q (p3 q hq), hord.settled, ?_⟩
        intro x hx hfx hxS
        rcases p2 _ (hord.queued x hx hfx hxS) with h' | h'
        · injection h' with _ h''; exact absurd (h'' ▸ hinf) hfx
        · exact h'
      · have : ¬ ({ st with queue := rest } : DState).cost.getD v 0 = ULONG_MAX := hinf
        rw [if_neg this]
        have hcore1 : DCore g M src { st with queue := rest } := hinv.core.setQueue rest
        have hes : ∀ e ∈ g.outEdges v, e ∈ g.edges ∧ e.src = v := fun e he => (mem_outEdges g v e).mp he
        obtain ⟨r1, r2, r3, r4, r5, r6, r7⟩ := relaxEdges_more g M src v hg ho hv (g.outEdges v)
          { st with queue := rest } hes hcore1 hinf
        have hinv' := hinv.process hg ho k v rest hp hinf
        by_cases hvS : v ∈ S
        · -- a second pop of a node already relaxed from: nothing changes
          obtain ⟨_, _, _, hclean⟩ := hord.settled v hvS
          have hsame := r7 (fun e he => hclean e (hes e he).1 (hes e he).2)
          rw [hsame] at hinv' ⊢
          apply ih _ S d hinv' ?_ (by simp only []; omega)
          refine ⟨fun q hq => hord.keys q (p3 q hq), hord.settled, ?_⟩
          intro x hx hfx hxS
          rcases p2 _ (hord.queued x hx hfx hxS) with h' | h'
          · injection h' with _ h''; exact absurd (h'' ▸ hvS) hxS
          · exact h'
        · -- first pop of v: its key is its cost, the smallest key of the queue
          have hkv : k = st.c v := by
            have h1 := pmin _ (hord.queued v hv hinf hvS)
            have h2 := (hord.keys _ p1).2
            simp only at h1 h2; omega
          have hdk : d ≤ k := (hord.keys _ p1).1
          have hc1 : ∀ x, ({ st with queue := rest } : DState).c x = st.c x := fun _ => rfl
          have hcv : (relaxEdges v { st with queue := rest } (g.outEdges v)).c v = st.c v := r4 v (Nat.le_refl _)
          have hΦ' := unsettled_cons g S v hvS
          apply ih _ (v :: S) k hinv' ?_ (by simp only [] at r5; omega)
          refine ⟨?_, ?_, ?_⟩
          · intro q hq
            rcases r2 q hq with h' | ⟨h', h''⟩
            · have hq' : q ∈ st.queue := p3 q h'
              exact ⟨pmin q hq', Nat.le_trans (r6 q.2) (hord.keys q hq').2⟩
            · rw [hc1] at h'; exact ⟨by omega, h''⟩
          · intro x hx
            rcases List.mem_cons.mp hx with h' | h'
            · subst h'
              refine ⟨hv, by rw [hcv]; exact hinf, by rw [hcv]; omega, ?_⟩
              intro e he hs
              have hcl1 : Clean g { st with queue := rest } fun _ => False := fun _ _ hF => hF.elim
              have hqb1 : ∀ q ∈ rest, q.2 < g.nodes.length := fun q hq => hinv.qb q (p3 q hq)
              obtain ⟨_, _, _, s4, _, s6⟩ := relaxEdges_spec g M src x hg ho hv (fun _ => False) (g.outEdges x)
                { st with queue := rest } hes hcore1 hinf hcl1 hqb1
              rw [s4]
              exact s6 e ((mem_outEdges g x e).mpr ⟨he, hs⟩)
            · obtain ⟨s1, s2, s3, s4⟩ := hord.settled x h'
              have hfro : (relaxEdges v { st with queue := rest } (g.outEdges v)).c x = st.c x :=
                r4 x (by rw [hc1, hc1]; omega)
              refine ⟨s1, by rw [hfro]; exact s2, by rw [hfro]; omega, ?_⟩
              intro e he hs
              rw [hfro]
              exact Nat.le_trans (r6 e.dst) (s4 e he hs)
          · intro x hx hfx hxS
            have hxv : x ≠ v := fun e' => hxS (by simp [e'])
            have hxS' : x ∉ S := fun hm => hxS (by simp [hm])
            rcases r3 x with h' | h'
            · rw [h', hc1] at hfx ⊢
              rcases p2 _ (hord.queued x hx hfx hxS') with h2 | h2
              · injection h2 with _ h''; exact absurd h'' hxv
              · exact r1 _ h2
            · exact h'

theorem dijkstraInit_ord (g : DGraph) (src : Nat) : OInv g (dijkstraInit g src) [] 0 := by
  refine ⟨?_, fun x hx => (by cases hx), ?_⟩
  · intro q hq
    simp only [dijkstraInit, List.mem_map, List.mem_range] at hq
    obtain ⟨i, _, he⟩ := hq
    rw [← he]
    exact ⟨Nat.zero_le _, Nat.le_refl _⟩
  · intro x hx _ _
    simp only [dijkstraInit, DState.c, List.mem_map, List.mem_range]
    exact ⟨x, hx, rfl⟩

/-- **the loop of get_local_route stops after at most (nodes + edges) pops**: with more fuel than that the model's
loop returns a state -/
theorem dijkstraLoop_terminates (g : DGraph) (M src : Nat) (hg : GraphOK g) (ho : NoOverflow g M)
    (hs : src < g.nodes.length) (f : Nat) (hf : g.nodes.length + g.edges.length < f) :
    ∃ st', dijkstraLoop DVar.now g f (dijkstraInit g src) = some st' := by
  apply dijkstraLoop_terminates_aux g M src hg ho f _ [] 0 (dijkstraInit_inv g M src hs) (dijkstraInit_ord g src)
  have h1 : (dijkstraInit g src).queue.length = g.nodes.length := by simp [dijkstraInit]
  have h2 : unsettled g [] = g.edges.length := by
    simp [unsettled]
  omega

/-- get_local_route between two different graph nodes, with enough fuel: the loop ends in a final state and the answer
is the composition walk on its predecessor array -/
theorem dijkstraRoute_final (g : DGraph) (M : Nat) (hg : GraphOK g) (ho : NoOverflow g M) (fuel srcId dstId s d : Nat)
    (hf : g.nodes.length + g.edges.length < fuel) (hs : g.nodeIdx srcId = some s) (hd : g.nodeIdx dstId = some d)
    (hsd : s ≠ d) :
    ∃ st', dijkstraLoop DVar.now g fuel (dijkstraInit g s) = some st' ∧ DFinal g M s st' ∧
      dijkstraRouteV DVar.now g fuel srcId dstId = dijkstraWalk DVar.now g st'.pred s (g.nodes.length + 1) d [] := by
  have hsn := nodeIdx_lt g srcId s hs
  obtain ⟨st', hl⟩ := dijkstraLoop_terminates g M s hg ho hsn fuel hf
  obtain ⟨hinv, hq⟩ := dijkstraLoop_spec g M s hg ho fuel _ st' (dijkstraInit_inv g M s hsn) hl
  refine ⟨st', hl, hinv.final hg hq, ?_⟩
  unfold dijkstraRouteV
  simp only [hs, hd, hsd, if_false, dijkstraPreds_now, hl, Option.map_some]

end SgVerif.C25
