import SgVerif.C24.Model
/-
C25 — Shortest-path zones compute minimal routes.   Executable model (core Lean only).

Mirrors /repo/src/kernel/routing/FloydZone.cpp (init_tables, add_route, do_seal, get_local_route),
DijkstraZone.cpp (add_route/new_edge, do_seal, get_local_route incl. the priority-queue loop with 64-bit unsigned
costs and insert_link_latency) and FullZone.cpp (through SgVerif.C24.Model: fullAddRoute / fullLocal — shared with C24).

Base mode only (hosts and routers, no child zone): gateways are nullptr, the loopback link (id 0) is added by do_seal.
Costs: `none` stands for ULONG_MAX in the Floyd tables (sums of two finite costs are assumed not to reach 2^64-1:
that needs more than 2^63 links); the Dijkstra model keeps the 64-bit wrap-around, which matters there.
-/
namespace SgVerif.C25
open SgVerif.C24 (Lk)

abbrev Tbl (α : Type) := Nat → Nat → Option α

def Tbl.set {α : Type} (T : Tbl α) (a b : Nat) (v : Option α) : Tbl α :=
  fun x y => if x = a ∧ y = b then v else T x y

def Tbl.empty {α : Type} : Tbl α := fun _ _ => none

/- ================================================================ FloydZone -/

structure FloydSt where
  cost : Tbl Nat          -- cost_table_        (none = ULONG_MAX)
  pred : Tbl Nat          -- predecessor_table_ (none = -1)
  link : Tbl (List Lk)    -- link_table_        (none = nullptr)

def FloydSt.init : FloydSt := { cost := Tbl.empty, pred := Tbl.empty, link := Tbl.empty }

/-- FloydZone::add_route (base mode).  `none` = one of the "already exists" assertions.
Note: no `src != dst` test before the symmetrical part (a symmetrical self route asserts). -/
def floydAddRoute (s : FloydSt) (src dst : Nat) (links : List Lk) (sym : Bool) : Option FloydSt :=
  if (s.link src dst).isSome then none
  else
    let s1 : FloydSt := { cost := s.cost.set src dst (some links.length), pred := s.pred.set src dst (some src),
                          link := s.link.set src dst (some links) }
    if sym then
      if (s1.link dst src).isSome then none
      else some { cost := s1.cost.set dst src (some links.reverse.length), pred := s1.pred.set dst src (some dst),
                  link := s1.link.set dst src (some links.reverse) }
    else some s1

/-- do_seal, first part: "Add the loopback if needed" -/
def floydLoopback (n : Nat) (s : FloydSt) : FloydSt :=
  (List.range n).foldl (fun s i =>
    if (s.link i i).isSome then s
    else { cost := s.cost.set i i (some 1), pred := s.pred.set i i (some i), link := s.link.set i i (some [0]) }) s

/-- body of the triple loop:
`if (cost[a][c] < MAX && cost[c][b] < MAX && (cost[a][b] == MAX || cost[a][c] + cost[c][b] < cost[a][b]))` -/
def relaxStep (c a b : Nat) (s : FloydSt) : FloydSt :=
  match s.cost a c, s.cost c b with
  | some x, some y =>
    let better := match s.cost a b with
      | none => true
      | some z => decide (x + y < z)
    if better then { s with cost := s.cost.set a b (some (x + y)), pred := s.pred.set a b (s.pred c b) } else s
  | _, _ => s

/-- `for a < n: for b < n:` in that order -/
def pairs (n : Nat) : List (Nat × Nat) := (List.range n).flatMap fun a => (List.range n).map fun b => (a, b)

def floydIter (n c : Nat) (s : FloydSt) : FloydSt := (pairs n).foldl (fun s p => relaxStep c p.1 p.2 s) s

/-- do_seal, second part: "Calculate path costs" -/
def floydLoops (n : Nat) (s : FloydSt) : FloydSt := (List.range n).foldl (fun s c => floydIter n c s) s

def floydSeal (n : Nat) (s : FloydSt) : FloydSt := floydLoops n (floydLoopback n s)

inductive RouteErr where
  | noRoute      -- std::invalid_argument("No route from ...")
  | loops        -- the C++ walk would not terminate (model: fuel exhausted)
  | nullDeref    -- dereference of a nullptr table entry / graph node (undefined behaviour in the C++)
  deriving Repr, DecidableEq

/-- FloydZone::get_local_route: `do { pred = P[src][cur]; if (pred == -1) throw; push link[pred][cur]; cur = pred; }
while (cur != src)`, then the stack is unwound front to back.  Returns the hops (pred, cur, links) in route order. -/
def floydWalk (s : FloydSt) (src : Nat) : Nat → Nat → List (Nat × Nat × List Lk) → Except RouteErr (List (Nat × Nat × List Lk))
  | 0, _, _ => .error .loops
  | f+1, cur, acc =>
    match s.pred src cur with
    | none => .error .noRoute
    | some p =>
      match s.link p cur with
      | none => .error .nullDeref
      | some l =>
        let acc := (p, cur, l) :: acc
        if p ≠ src then floydWalk s src f p acc else .ok acc

def floydRoute (n : Nat) (s : FloydSt) (src dst : Nat) : Except RouteErr (List Lk) :=
  match floydWalk s src (n + 1) dst [] with
  | .error e => .error e
  | .ok hops => .ok (hops.flatMap fun h => h.2.2)

/- ================================================================ DijkstraZone -/

def U64 : Nat := 2 ^ 64
def ULONG_MAX : Nat := U64 - 1

/-- which DijkstraZone is modelled.  `hop`: `insert_link_latency` keeps the order of a hop's links (fix
`dijkstra-multilink-hop-reversed`, props/C25/fix_series/01-…); `guard`: a node popped with cost ULONG_MAX is not
relaxed from, `pred_arr` starts at ULONG_MAX ("no predecessor") and the composition throws "No route" on it (fix
`dijkstra-unreachable-node-wraps`, props/C25/fix_series/02-…).  The code as it is now is `DVar.now` (both `true`);
`DVar.old` (both `false`) is the code before the two fixes, kept for the regression theorems (`Props`: `…_prefix_…`). -/
structure DVar where
  hop : Bool
  guard : Bool
  deriving Repr, DecidableEq

def fixedHopOrder : Bool := true
def fixedUnreachableGuard : Bool := true
def DVar.now : DVar := { hop := fixedHopOrder, guard := fixedUnreachableGuard }
def DVar.old : DVar := { hop := false, guard := false }

structure DEdge where
  src : Nat          -- graph node index
  dst : Nat
  links : List Lk
  deriving Repr, DecidableEq

/-- the route graph: `nodes` = netpoint ids in creation order (graph_id_ = index), out-edges per node in creation order -/
structure DGraph where
  nodes : List Nat
  edges : List DEdge
  deriving Repr

def DGraph.nodeIdx (g : DGraph) (id : Nat) : Option Nat := g.nodes.idxOf? id

def DGraph.findEdge (g : DGraph) (a b : Nat) : Option DEdge := g.edges.find? fun e => e.src = a ∧ e.dst = b

/-- new_edge: create the extremities if needed (src first), refuse a second edge between the same nodes -/
def DGraph.newEdge (g : DGraph) (srcId dstId : Nat) (links : List Lk) : Option DGraph :=
  let g1 := if g.nodes.contains srcId then g else { g with nodes := g.nodes ++ [srcId] }
  let g2 := if g1.nodes.contains dstId then g1 else { g1 with nodes := g1.nodes ++ [dstId] }
  match g2.nodeIdx srcId, g2.nodeIdx dstId with
  | some a, some b =>
    if (g2.findEdge a b).isSome then none
    else some { g2 with edges := g2.edges ++ [{ src := a, dst := b, links := links }] }
  | _, _ => none

/-- DijkstraZone::add_route (base mode) -/
def dijkstraAddRoute (g : DGraph) (src dst : Nat) (links : List Lk) (sym : Bool) : Option DGraph :=
  match g.newEdge src dst links with
  | none => none
  | some g1 => if sym then g1.newEdge dst src links.reverse else some g1

/-- do_seal: a loopback edge for every graph node without a self edge -/
def dijkstraSeal (g : DGraph) : DGraph :=
  (List.range g.nodes.length).foldl (fun g i =>
    if (g.findEdge i i).isSome then g else { g with edges := g.edges ++ [{ src := i, dst := i, links := [0] }] }) g

def DGraph.outEdges (g : DGraph) (v : Nat) : List DEdge := g.edges.filter fun e => e.src = v

/-- std::priority_queue<pair<double, unsigned long>, ..., greater<>>: pop the smallest (cost, id) -/
def popMin : List (Nat × Nat) → Option ((Nat × Nat) × List (Nat × Nat))
  | [] => none
  | x :: xs =>
    match popMin xs with
    | none => some (x, [])
    | some (m, rest) =>
      if x.1 < m.1 ∨ (x.1 = m.1 ∧ x.2 ≤ m.2) then some (x, xs) else some (m, x :: rest)

structure DState where
  cost : List Nat      -- cost_arr (unsigned long)
  pred : List Nat      -- pred_arr
  queue : List (Nat × Nat)

/-- the `xbt_dynar_foreach (outedges)` body: `if (cost_v_u + cost_arr[v] < cost_arr[u])` with 64-bit wrap-around -/
def relaxEdges (v : Nat) (st : DState) : List DEdge → DState
  | [] => st
  | e :: es =>
    let cv := st.cost.getD v 0
    let cu := st.cost.getD e.dst 0
    let sum := (e.links.length + cv) % U64
    if sum < cu then
      relaxEdges v { cost := st.cost.set e.dst sum, pred := st.pred.set e.dst v, queue := (sum, e.dst) :: st.queue } es
    else relaxEdges v st es

/-- `while (not pqueue.empty())` — `fuel` bounds the number of pops (each push lowers a cost, so the C++ terminates) -/
def dijkstraLoop (V : DVar) (g : DGraph) : Nat → DState → Option DState
  | 0, _ => none
  | f+1, st =>
    match popMin st.queue with
    | none => some st
    | some ((_, v), rest) =>
      let st := { st with queue := rest }
      -- if (cost_arr[v_id] == ULONG_MAX) continue;      (not reachable from src: nothing to relax from)
      if V.guard && st.cost.getD v 0 = ULONG_MAX then dijkstraLoop V g f st
      else dijkstraLoop V g f (relaxEdges v st (g.outEdges v))

/-- initialisation of cost_arr / pred_arr (`pred_arr[i] = ULONG_MAX`, before the fix: `0`) / pqueue, then the loop:
the predecessor array for `src` -/
def dijkstraPreds (V : DVar) (g : DGraph) (fuel src : Nat) : Option (List Nat) :=
  let n := g.nodes.length
  let cost := (List.range n).map fun i => if i = src then 0 else ULONG_MAX
  let st : DState := { cost := cost, pred := List.replicate n (if V.guard then ULONG_MAX else 0), queue := (List.range n).map fun i => (cost.getD i 0, i) }
  (dijkstraLoop V g fuel st).map (·.pred)

/-- insert_link_latency(result, links): `result.insert(result.begin(), begin(links), end(links))`
(before the fix: `rbegin(links), rend(links)`) -/
def insertFront (V : DVar) (result links : List Lk) : List Lk :=
  (if V.hop then links else links.reverse) ++ result

/-- "compose route path with links": `for (v = dst; v != src; v = pred[v])`; `pred_arr[v] == ULONG_MAX` (v was never
reached from src) or an edge missing = "No route" -/
def dijkstraWalk (V : DVar) (g : DGraph) (pred : List Nat) (src : Nat) : Nat → Nat → List Lk → Except RouteErr (List Lk)
  | 0, _, _ => .error .loops
  | f+1, v, acc =>
    if v = src then .ok acc
    else
      let p := pred.getD v 0
      if V.guard && p = ULONG_MAX then .error .noRoute else
      match g.findEdge p v with
      | none => .error .noRoute
      | some e => dijkstraWalk V g pred src f p (insertFront V acc e.links)

/-- DijkstraZone::get_local_route (cache on or off: the predecessor array of a source is a function of the sealed
graph only, so the cached copy equals a recomputation) -/
def dijkstraRouteV (V : DVar) (g : DGraph) (fuel : Nat) (srcId dstId : Nat) : Except RouteErr (List Lk) :=
  match g.nodeIdx srcId, g.nodeIdx dstId with
  | some s, some d =>
    -- "if the src and dst are the same": the self edge first (then the computation goes on, its walk is empty)
    let first : Except RouteErr (List Lk) :=
      if s = d then
        match g.findEdge s d with
        | none => .error .noRoute
        | some e => .ok (insertFront V [] e.links)
      else .ok []
    match first with
    | .error e => .error e
    | .ok acc =>
      match dijkstraPreds V g fuel s with
      | none => .error .loops
      | some pred => dijkstraWalk V g pred s (g.nodes.length + 1) d acc
  | _, _ => .error .nullDeref

/-- the code as it is now -/
def dijkstraRoute (g : DGraph) (fuel : Nat) (srcId dstId : Nat) : Except RouteErr (List Lk) :=
  dijkstraRouteV DVar.now g fuel srcId dstId

/- ================================================================ specification: chains of declared routes -/

def optAdd : Option Nat → Option Nat → Option Nat
  | some x, some y => some (x + y)
  | _, _ => none

def optMin : Option Nat → Option Nat → Option Nat
  | none, y => y
  | x, none => x
  | some x, some y => some (min x y)

/-- `x ≤ y` with none = ∞ -/
def optLe : Option Nat → Option Nat → Prop
  | _, none => True
  | none, some _ => False
  | some x, some y => x ≤ y

/-- total link count of the chain a → m₁ → … → b of one-hop routes (`w a b` = link count of the declared route) -/
def walkCost (w : Tbl Nat) : Nat → List Nat → Nat → Option Nat
  | a, [], b => w a b
  | a, m :: ms, b => optAdd (w a m) (walkCost w m ms b)

/-- Floyd–Warshall recurrence: best chain using intermediate nodes < k -/
def fw (w : Tbl Nat) : Nat → Tbl Nat
  | 0 => w
  | k+1 => fun a b => optMin (fw w k a b) (optAdd (fw w k a k) (fw w k k b))

/-- executable minimal cost for the driver's monitor (independent of the table-updating model): Bellman–Ford rounds -/
def bfRound (n : Nat) (w : Tbl Nat) (src : Nat) (d : List (Option Nat)) : List (Option Nat) :=
  (List.range n).map fun b =>
    (List.range n).foldl (fun best p => optMin best (optAdd (d.getD p none) (w p b))) (d.getD b none)

def minCosts (n : Nat) (w : Tbl Nat) (src : Nat) : List (Option Nat) :=
  (List.range n).foldl (fun d _ => bfRound n w src d) ((List.range n).map fun b => w src b)

/-- is `links` the concatenation of the declared link lists along some chain from `a` to `b`?  (dynamic programming on
(position in `links`, node)) — the monitor's chain-validity predicate -/
def chainStep (n : Nat) (decl : Tbl (List Lk)) (links : List Lk) (reach : List (Nat × Nat)) : List (Nat × Nat) :=
  reach.flatMap fun (pos, v) =>
    (List.range n).filterMap fun u =>
      match decl v u with
      | none => none
      | some l => if l ≠ [] ∧ (links.drop pos).take l.length = l then some (pos + l.length, u) else none

def isChain (n : Nat) (decl : Tbl (List Lk)) (links : List Lk) (a b : Nat) : Bool :=
  let rec go : Nat → List (Nat × Nat) → Bool
    | 0, _ => false
    | f+1, reach =>
      let next := (chainStep n decl links reach).eraseDups
      if next.contains (links.length, b) then true
      else if next.isEmpty then false
      else go f next
  go (links.length + 1) [(0, a)]

end SgVerif.C25
