import SgVerif.C25.FloydPred
import SgVerif.C25.DijkstraTerm
/-
C25 — Shortest-path zones compute minimal routes.  Property theorems (nothing else in this file).
Every theorem is for every number of nodes, every set of declared routes (any link lists, symmetric or one-way).
-/
namespace SgVerif.C25
open SgVerif.C24 (Lk fullAddRoute fullLocal tableGet Table newExtendedRoute)

/- ---------------------------------------------------------------- Floyd -/

/-- **Floyd: the cost table after do_seal is the minimal total link count over all chains of declared routes,
and it is realised by a chain** — for every n and every table `s` built before the loops whose entries are inside
`0..n-1`.  (`walkCost s.cost a mid b` = Σ of the costs of the one-hop routes a→m₁→…→b; `floyd_cost_is_link_count` below
says those costs are the link counts of the declared routes.)  Classical induction on the pivot `k`, for the in-place
loop as written (row and column `c` do not change during iteration `c`). -/
theorem floyd_minimal (n : Nat) (s : FloydSt) (hn : Inside n s.cost) (a b : Nat) :
    (∀ c, (floydLoops n s).cost a b = some c →
        ∃ mid, (∀ m ∈ mid, m < n) ∧ walkCost s.cost a mid b = some c) ∧
    (∀ mid, (∀ m ∈ mid, m < n) → optLe ((floydLoops n s).cost a b) (walkCost s.cost a mid b)) := by
  have h := floydLoops_cost n s hn n (Nat.le_refl _) a b
  unfold floydLoops
  rw [h]
  exact ⟨fun c hc => fw_sound s.cost n a b c hc, fun mid hm => fw_le_walk s.cost n mid a b hm⟩

/-- unreachable pairs keep ULONG_MAX: if no chain exists the cost stays `none` (and get_local_route throws) -/
theorem floyd_unreachable (n : Nat) (s : FloydSt) (hn : Inside n s.cost) (a b : Nat)
    (h : ∀ mid, (∀ m ∈ mid, m < n) → walkCost s.cost a mid b = none) : (floydLoops n s).cost a b = none := by
  cases hc : (floydLoops n s).cost a b with
  | none => rfl
  | some c =>
    obtain ⟨mid, hm, hw⟩ := (floyd_minimal n s hn a b).1 c hc
    rw [h mid hm] at hw; cases hw

/-- the weights are link counts: cost_table_ entry = size of the declared link list, an invariant of add_route and of
the loopback step -/
def CostIsLen (s : FloydSt) : Prop := ∀ a b, s.cost a b = (s.link a b).map List.length

theorem costIsLen_init : CostIsLen FloydSt.init := by intro a b; rfl

theorem floydAddRoute_costIsLen (s s' : FloydSt) (src dst : Nat) (links : List Lk) (sym : Bool)
    (hs : CostIsLen s) (h : floydAddRoute s src dst links sym = some s') : CostIsLen s' := by
  unfold floydAddRoute at h
  split at h
  · cases h
  · cases sym
    · simp only [Bool.false_eq_true, if_false, Option.some.injEq] at h
      subst h
      intro a b
      simp only [Tbl.set]
      split <;> simp [hs a b]
    · simp only [if_true] at h
      split at h
      · cases h
      · simp only [Option.some.injEq] at h
        subst h
        intro a b
        simp only [Tbl.set]
        split
        · simp
        · split <;> simp [hs a b]

/-- **a declared one-hop route is stored as declared (and reversed for the opposite direction when symmetrical)** -/
theorem floyd_stores_declared (s s' : FloydSt) (src dst : Nat) (links : List Lk) (sym : Bool) (hne : src ≠ dst)
    (h : floydAddRoute s src dst links sym = some s') :
    s'.link src dst = some links ∧ s'.pred src dst = some src ∧
    (sym = true → s'.link dst src = some links.reverse ∧ s'.pred dst src = some dst) := by
  unfold floydAddRoute at h
  split at h
  · cases h
  · cases sym
    · simp only [Bool.false_eq_true, if_false, Option.some.injEq] at h
      subst h; simp [Tbl.set]
    · simp only [if_true] at h
      split at h
      · cases h
      · simp only [Option.some.injEq] at h
        subst h
        have : ¬ (src = dst ∧ dst = src) := fun e => hne e.1
        simp [Tbl.set, this]

/-- **Floyd: whatever get_local_route returns is a chain of declared one-hop routes from src to dst** (the walk of
the predecessor table pushes `link_table_[pred][cur]` and stops at `src`) — every table, every fuel. -/
theorem floyd_path_valid (s : FloydSt) (src dst : Nat) : ∀ (f cur : Nat) (acc hops : List (Nat × Nat × List Lk)),
    HopChain s.link cur acc dst → floydWalk s src f cur acc = .ok hops → HopChain s.link src hops dst := by
  intro f
  induction f with
  | zero => intro cur acc hops _ h; simp [floydWalk] at h
  | succ f ih =>
    intro cur acc hops hc h
    unfold floydWalk at h
    split at h
    · cases h
    · rename_i p hp
      split at h
      · cases h
      · rename_i l hl
        have hc' : HopChain s.link p ((p, cur, l) :: acc) dst := ⟨rfl, hl, hc⟩
        by_cases hps : p = src
        · simp only [hps, ne_eq, not_true_eq_false, if_false, Except.ok.injEq] at h
          subst h; rw [hps] at hc'; exact hc'
        · simp only [hps, ne_eq, not_false_eq_true, if_true] at h
          exact ih p _ hops hc' h

/-- **Floyd: the predecessor table after do_seal** — for every n and every table `s` built by add_route
(`WellDecl n s`: cost = link count and predecessor = source of every declared one-hop route, netpoint ids < n, every
declared route has at least one link — `add_route_check_params` refuses an empty link list; `wellDecl_init`,
`wellDecl_add`, `wellDecl_routes`, `wellDecl_loopback` show that add_route and the loopback step establish it):
for every pair with a finite cost, the predecessor `p` of `b` on the way from `a` is a node < n, the one-hop route
p → b is declared, and the cost is exactly the link count of that route (p = a) or the cost of (a, p) plus that link
count; a pair with cost ULONG_MAX has predecessor -1; the link table is the declared one. -/
theorem floyd_pred_invariant (n : Nat) (s : FloydSt) (h : WellDecl n s) :
    (floydSeal n s).link = (floydLoopback n s).link ∧
    (∀ a b, a < n → b < n → ∀ c, (floydSeal n s).cost a b = some c →
      ∃ p l, (floydSeal n s).pred a b = some p ∧ p < n ∧ (floydSeal n s).link p b = some l ∧
        ((p = a ∧ l.length = c) ∨ (p ≠ a ∧ ∃ cp, (floydSeal n s).cost a p = some cp ∧ cp + l.length = c))) ∧
    (∀ a b, (floydSeal n s).cost a b = none → (floydSeal n s).pred a b = none) := by
  have h0 := wellDecl_loopback n s h
  refine ⟨floydLoops_link n _, ?_, noneInv_loops n _ h0.noneInv⟩
  intro a b ha hb c hc
  obtain ⟨p, l, hp, hpn, hl, hor⟩ := predExact_loops n _ h0 a b ha hb c hc
  exact ⟨p, l, hp, hpn, by unfold floydSeal; rw [floydLoops_link]; exact hl, hor⟩

/-- **Floyd: get_local_route returns a route of exactly `cost_table_[src][dst]` links** — the walk of the predecessor
table terminates (within the model's fuel n + 1: it visits distinct nodes, because the cost from src strictly decreases
along it), hits neither "No route" nor a null entry, and what it returns is a chain of declared one-hop routes from src
to dst whose total link count is the entry of the cost table.  Every n, every set of declared routes. -/
theorem floyd_route_length (n : Nat) (s : FloydSt) (h : WellDecl n s) (src dst c : Nat) (hs : src < n) (hd : dst < n)
    (hc : (floydSeal n s).cost src dst = some c) :
    ∃ hops, floydWalk (floydSeal n s) src (n + 1) dst [] = .ok hops ∧
      HopChain (floydLoopback n s).link src hops dst ∧
      floydRoute n (floydSeal n s) src dst = .ok (hops.flatMap fun h => h.2.2) ∧
      (hops.flatMap fun h => h.2.2).length = c := by
  have h0 := wellDecl_loopback n s h
  have hlink : (floydSeal n s).link = (floydLoopback n s).link := floydLoops_link n _
  obtain ⟨hops, hw, hlen⟩ := floydWalk_ok n (floydLoopback n s).link (floydSeal n s) hlink
    (predExact_loops n _ h0) h0.pos src hs (n + 1) dst [] [] c hd hc List.nodup_nil (by simp) (by simp)
  simp only [List.append_nil] at hw
  refine ⟨hops, hw, ?_, by simp [floydRoute, hw], hlen⟩
  have := floyd_path_valid (floydSeal n s) src dst (n + 1) dst [] hops rfl hw
  rw [hlink] at this; exact this

/-- **Floyd: the route returned is minimal** — whenever some non-empty chain of declared one-hop routes (incl. the
loopbacks added by do_seal) leads from src to dst, get_local_route returns a route, that route is itself such a chain,
and its link count is ≤ the link count of every such chain.  Every n, every set of declared routes. -/
theorem floyd_route_minimal (n : Nat) (s : FloydSt) (h : WellDecl n s) (src dst : Nat) (hs : src < n) (hd : dst < n)
    (hops' : List (Nat × Nat × List Lk)) (hne : hops' ≠ []) (hch : HopChain (floydLoopback n s).link src hops' dst) :
    ∃ hops, HopChain (floydLoopback n s).link src hops dst ∧
      floydRoute n (floydSeal n s) src dst = .ok (hops.flatMap fun h => h.2.2) ∧
      (hops.flatMap fun h => h.2.2).length ≤ (hops'.flatMap fun h => h.2.2).length ∧
      ∀ hops'', hops'' ≠ [] → HopChain (floydLoopback n s).link src hops'' dst →
        (hops.flatMap fun h => h.2.2).length ≤ (hops''.flatMap fun h => h.2.2).length := by
  have h0 := wellDecl_loopback n s h
  have hmin : ∀ hops'', hops'' ≠ [] → HopChain (floydLoopback n s).link src hops'' dst →
      optLe ((floydSeal n s).cost src dst) (some (hopsLen hops'')) := by
    intro hops'' hne'' hch''
    obtain ⟨mid, hm, hwc⟩ := hopChain_walkCost n _ h0 hops'' src dst hne'' hch''
    have := (floyd_minimal n (floydLoopback n s) h0.insideCost src dst).2 mid hm
    rw [hwc] at this; exact this
  cases hc : (floydSeal n s).cost src dst with
  | none => have := hmin hops' hne hch; rw [hc] at this; simp [optLe] at this
  | some c =>
    obtain ⟨hops, _, hchain, hroute, hlen⟩ := floyd_route_length n s h src dst c hs hd hc
    have hle : ∀ hops'', hops'' ≠ [] → HopChain (floydLoopback n s).link src hops'' dst →
        (hops.flatMap fun h => h.2.2).length ≤ (hops''.flatMap fun h => h.2.2).length := by
      intro hops'' hne'' hch''
      have := hmin hops'' hne'' hch''
      rw [hc] at this
      simp only [optLe, hopsLen] at this
      omega
    exact ⟨hops, hchain, hroute, hle hops' hne hch, hle⟩

/-- **Floyd: "No route" exactly when there is none** — a pair whose cost stayed ULONG_MAX (equivalently, by
`floyd_unreachable` / `floyd_minimal`: no chain of declared routes leads from src to dst) gets the "No route" exception
at the first step of the walk (predecessor -1), never a null dereference or an endless walk. -/
theorem floyd_no_route (n : Nat) (s : FloydSt) (h : WellDecl n s) (src dst : Nat)
    (hc : (floydSeal n s).cost src dst = none) : floydRoute n (floydSeal n s) src dst = .error .noRoute := by
  have hp := (floyd_pred_invariant n s h).2.2 src dst hc
  simp [floydRoute, floydWalk, hp]

/-- the same from the specification side: no chain of declared routes ⇒ "No route" -/
theorem floyd_unreachable_no_route (n : Nat) (s : FloydSt) (h : WellDecl n s) (src dst : Nat)
    (hno : ∀ mid, (∀ m ∈ mid, m < n) → walkCost (floydLoopback n s).cost src mid dst = none) :
    floydRoute n (floydSeal n s) src dst = .error .noRoute :=
  floyd_no_route n s h src dst (floyd_unreachable n _ (wellDecl_loopback n s h).insideCost src dst hno)

/- ---------------------------------------------------------------- Full -/

/-- **Full: get_local_route returns exactly the declared route**, and declaring it leaves every other entry alone -/
theorem full_returns_declared (t t' : Table) (src dst : Nat) (links : List Lk) (sym : Bool) (hne : src ≠ dst)
    (h : fullAddRoute false t src dst none none links sym = some t') :
    (fullLocal t' src dst).links = links ∧
    (sym = true → (fullLocal t' dst src).links = links.reverse) ∧
    (∀ a b, (a, b) ≠ (src, dst) → (a, b) ≠ (dst, src) → tableGet t' a b = tableGet t a b) := by
  have hne' : ¬ (dst = src) := fun e => hne e.symm
  unfold fullAddRoute at h
  simp only [Bool.false_and, Bool.false_eq_true, if_false] at h
  split at h
  · cases h
  · cases sym
    · simp only [Bool.false_and, Bool.false_eq_true, if_false, Option.some.injEq] at h
      subst h
      refine ⟨by simp [fullLocal, tableGet, List.find?, newExtendedRoute], by simp, ?_⟩
      intro a b h1 _
      have : ((src, dst) == (a, b)) = false := by
        simp only [beq_eq_false_iff_ne, ne_eq]; exact fun e => h1 e.symm
      simp [tableGet, List.find?, this]
    · simp only [Bool.true_and, ne_eq, hne, not_false_eq_true, decide_true, if_true] at h
      split at h
      · cases h
      · simp only [Option.some.injEq] at h
        subst h
        have hk1 : ((dst, src) == (src, dst)) = false := by simp [hne']
        refine ⟨by simp [fullLocal, tableGet, List.find?, hk1, newExtendedRoute],
                fun _ => by simp [fullLocal, tableGet, List.find?, newExtendedRoute], ?_⟩
        intro a b h1 h2
        have e1 : ((src, dst) == (a, b)) = false := by
          simp only [beq_eq_false_iff_ne, ne_eq]; exact fun e => h1 e.symm
        have e2 : ((dst, src) == (a, b)) = false := by
          simp only [beq_eq_false_iff_ne, ne_eq]; exact fun e => h2 e.symm
        simp [tableGet, List.find?, e1, e2]

/- ---------------------------------------------------------------- Dijkstra -/

/-- the links of one hop as variant `V` of the code emits them -/
def hopLinks (V : DVar) (l : List Lk) : List Lk := if V.hop then l else l.reverse

/-- whatever the route composition returns is made of the graph's edges, forming a chain from src to dst, hop after
hop in order — for both variants of the code, every graph, every predecessor array (even a corrupted one), every
fuel, every accumulated suffix.  Each hop's links come out as `hopLinks V` (reversed before the fix). -/
theorem dijkstraWalk_chain (V : DVar) (g : DGraph) (pred : List Nat) (src : Nat) : ∀ (f v : Nat) (acc r : List Lk),
    dijkstraWalk V g pred src f v acc = .ok r →
    ∃ es, EdgeChain g src es v ∧ r = es.flatMap (fun e => hopLinks V e.links) ++ acc := by
  intro f
  induction f with
  | zero => intro v acc r h; simp [dijkstraWalk] at h
  | succ f ih =>
    intro v acc r h
    unfold dijkstraWalk at h
    by_cases hv : v = src
    · simp only [hv, if_true, Except.ok.injEq] at h
      exact ⟨[], hv.symm ▸ rfl, by simp [h]⟩
    · simp only [hv, if_false] at h
      split at h
      · cases h
      split at h
      · cases h
      · rename_i e he
        have hmem : e ∈ g.edges := List.mem_of_find?_eq_some he
        have hprop := List.find?_some he
        simp only [decide_eq_true_eq] at hprop
        obtain ⟨es, hc, hr⟩ := ih _ _ r h
        refine ⟨es ++ [e], ?_, ?_⟩
        · have := edgeChain_snoc g e hmem es src (hprop.1 ▸ hc)
          rw [hprop.2] at this; exact this
        · rw [hr]; simp [insertFront, hopLinks]

/-- **Dijkstra, full strength for the composition: a returned route is the concatenation of the *declared* link
lists (each in the order it was declared) along a chain of graph edges from src to dst** — for every graph, every
predecessor array (even a corrupted one), every fuel.  (Before the fix `dijkstra-multilink-hop-reversed` this held
only for graphs whose hops are palindromes: `dijkstra_path_valid_prefix_partial`.) -/
theorem dijkstra_path_valid (g : DGraph) (pred : List Nat) (src : Nat) (f v : Nat) (acc r : List Lk)
    (h : dijkstraWalk DVar.now g pred src f v acc = .ok r) :
    ∃ es, EdgeChain g src es v ∧ r = es.flatMap (fun e => e.links) ++ acc := by
  obtain ⟨es, hc, hr⟩ := dijkstraWalk_chain DVar.now g pred src f v acc r h
  exact ⟨es, hc, by simpa [hopLinks, DVar.now, fixedHopOrder] using hr⟩

/-- the same at the level of `DijkstraZone::get_local_route` (node lookup, self edge when src = dst, Dijkstra's
loop, composition): **every route returned between two netpoints is a chain of declared one-hop routes between their
graph nodes, links in declared order** — every graph, every fuel. -/
theorem dijkstra_route_is_chain (g : DGraph) (fuel srcId dstId : Nat) (r : List Lk)
    (h : dijkstraRoute g fuel srcId dstId = .ok r) :
    ∃ s d es, g.nodeIdx srcId = some s ∧ g.nodeIdx dstId = some d ∧ EdgeChain g s es d ∧
      r = es.flatMap (fun e => e.links) := by
  unfold dijkstraRoute dijkstraRouteV at h
  split at h
  · rename_i s d hs hd
    refine ⟨s, d, ?_⟩
    by_cases hsd : s = d
    · subst hsd
      simp only [if_true] at h
      cases he : g.findEdge s s with
      | none => simp [he] at h
      | some e =>
        simp only [he] at h
        cases hp : dijkstraPreds DVar.now g fuel s with
        | none => simp [hp] at h
        | some pred =>
          simp only [hp] at h
          -- the walk starts at v = src: it returns the accumulated self edge at once
          unfold dijkstraWalk at h
          simp only [if_true, Except.ok.injEq] at h
          have hmem : e ∈ g.edges := List.mem_of_find?_eq_some he
          have hprop := List.find?_some he
          simp only [decide_eq_true_eq] at hprop
          refine ⟨[e], hs, hd, ⟨hmem, hprop.1, hprop.2⟩, ?_⟩
          rw [← h]; simp [insertFront, DVar.now, fixedHopOrder]
    · simp only [hsd, if_false] at h
      cases hp : dijkstraPreds DVar.now g fuel s with
      | none => simp [hp] at h
      | some pred =>
        simp only [hp] at h
        obtain ⟨es, hc, hr⟩ := dijkstra_path_valid g pred s _ d [] r h
        exact ⟨es, hs, hd, hc, by simpa using hr⟩
  · cases h

/-- **an unreachable destination never gets a route**: when no chain of graph edges leads from src to dst, the
answer is an error (the check's monitor and the correspondence tie it to the "No route" exception of the library; before
the fix `dijkstra-unreachable-node-wraps` the library did not answer at all) -/
theorem dijkstra_unreachable_no_route (g : DGraph) (fuel srcId dstId s d : Nat)
    (hs : g.nodeIdx srcId = some s) (hd : g.nodeIdx dstId = some d)
    (hno : ∀ es, ¬ EdgeChain g s es d) : ∃ e, dijkstraRoute g fuel srcId dstId = .error e := by
  cases h : dijkstraRoute g fuel srcId dstId with
  | error e => exact ⟨e, rfl⟩
  | ok r =>
    obtain ⟨s', d', es, hs', hd', hc, _⟩ := dijkstra_route_is_chain g fuel srcId dstId r h
    rw [hs] at hs'; rw [hd] at hd'
    cases hs'; cases hd'
    exact absurd hc (hno es)

/-- regression, the statement as it stood before the fix `dijkstra-multilink-hop-reversed`: on the pre-fix variant
the result is the concatenation of the declared link lists only when no hop has two different links in a row
(e.g. single-link routes) -/
theorem dijkstra_path_valid_prefix_partial (g : DGraph) (pred : List Nat) (src : Nat) (f v : Nat) (r : List Lk)
    (hp : ∀ e ∈ g.edges, e.links.reverse = e.links)
    (h : dijkstraWalk DVar.old g pred src f v [] = .ok r) :
    ∃ es, EdgeChain g src es v ∧ r = es.flatMap (fun e => e.links) := by
  obtain ⟨es, hc, hr⟩ := dijkstraWalk_chain DVar.old g pred src f v [] r h
  refine ⟨es, hc, ?_⟩
  rw [hr, List.append_nil]
  have hall : ∀ (es : List DEdge) (a : Nat), EdgeChain g a es v → ∀ e ∈ es, e ∈ g.edges := by
    intro es
    induction es with
    | nil => intro _ _ e he; cases he
    | cons x xs ih =>
      intro a hc e he
      rcases List.mem_cons.mp he with h1 | h1
      · subst h1; exact hc.1
      · exact ih x.dst hc.2.2 e h1
  have hm := hall es src hc
  clear hc hr hall
  induction es with
  | nil => rfl
  | cons x xs ih =>
    simp only [List.flatMap_cons]
    rw [ih (fun e he => hm e (by simp [he]))]
    congr 1
    simp only [hopLinks, DVar.old]
    exact hp x (hm x (by simp))

/- ---------------------------------------------------------------- Dijkstra: the priority-queue loop as written

Hypotheses of the theorems below, both guaranteed by the code for graphs built by add_route/new_edge/do_seal
(`graphOK_empty`, `graphOK_addRoute`, `graphOK_seal`, `graphOK_routes`):
* `GraphOK g`: edge extremities are graph nodes, at most one edge between two nodes (`new_edge` throws otherwise), no
  empty link list (`add_route_check_params`: "Empty route … forbidden"; the loopback edge has one link);
* `NoOverflow g M`: every edge has at most M links and (number of nodes) · M < ULONG_MAX = 2^64 − 1 — what keeps
  `cost_v_u + cost_arr[v]` from wrapping around (the model computes it `% 2^64` like the code).
src = dst is excluded as in the statements above (finding `self-route-longer-than-cycle`: the declared self edge is
returned without looking further). -/

/-- **Dijkstra: the relaxation invariant holds at every point of the loop** (`DCore`, spelled out in the last clause):
after the initialisation, after every single iteration of the `foreach (outedges)` body, after every iteration of the
`while` loop (pop, `continue` or relax); and when the loop is left the queue is empty.  Every graph, every source,
every fuel. -/
theorem dijkstra_relaxation_invariant (g : DGraph) (M src : Nat) (hg : GraphOK g) (ho : NoOverflow g M)
    (hs : src < g.nodes.length) :
    DInv g M src (dijkstraInit g src) ∧
    (∀ st v e, DCore g M src st → v < g.nodes.length → st.c v ≠ ULONG_MAX → e ∈ g.edges → e.src = v →
      DCore g M src (relaxOne v st e)) ∧
    (∀ f st st', DInv g M src st → dijkstraLoop DVar.now g f st = some st' → DInv g M src st' ∧ st'.queue = []) ∧
    (∀ st, DCore g M src st →
      st.c src = 0 ∧
      (∀ u, u < g.nodes.length → u ≠ src → st.c u ≠ ULONG_MAX →
        st.p u < g.nodes.length ∧ st.c (st.p u) ≠ ULONG_MAX ∧
        ∃ e ∈ g.edges, e.src = st.p u ∧ e.dst = u ∧ st.c (st.p u) + e.links.length ≤ st.c u) ∧
      (∀ u, u < g.nodes.length → st.c u = ULONG_MAX → st.p u = ULONG_MAX)) :=
  ⟨dijkstraInit_inv g M src hs,
   fun _ _ _ h hv hf he hsrc => h.relaxOne hg ho hv hf he hsrc,
   fun f st st' hinv hl => dijkstraLoop_spec g M src hg ho f st st' hinv hl,
   fun _ h => ⟨h.src0, h.tree, h.unre⟩⟩

/-- **Dijkstra: the loop stops after at most (nodes + edges) pops, and what it leaves is exact** — with more fuel than
that (the driver's 100000 covers every graph with nodes + edges < 100000) the loop returns a state `st'` in which:
the predecessor of every node with a finite cost (≠ src) is a node with a finite cost, the edge pred → node is in
the graph and cost[node] = cost[pred] + |links of that edge|; a node has a finite cost iff some chain of edges leads
to it from src; that cost is the link count of such a chain and ≤ the link count of every such chain; a node with cost
ULONG_MAX has pred ULONG_MAX.  Every graph, every source. -/
theorem dijkstra_final_state (g : DGraph) (M src fuel : Nat) (hg : GraphOK g) (ho : NoOverflow g M)
    (hs : src < g.nodes.length) (hf : g.nodes.length + g.edges.length < fuel) :
    ∃ st', dijkstraLoop DVar.now g fuel (dijkstraInit g src) = some st' ∧
      dijkstraPreds DVar.now g fuel src = some st'.pred ∧ st'.c src = 0 ∧
      (∀ u, u < g.nodes.length → u ≠ src → st'.c u ≠ ULONG_MAX →
        st'.p u < g.nodes.length ∧ st'.c (st'.p u) ≠ ULONG_MAX ∧
        ∃ e ∈ g.edges, e.src = st'.p u ∧ e.dst = u ∧ st'.c (st'.p u) + e.links.length = st'.c u) ∧
      (∀ v es, EdgeChain g src es v → v < g.nodes.length ∧ st'.c v ≠ ULONG_MAX ∧ st'.c v ≤ chainLen es) ∧
      (∀ v, v < g.nodes.length → st'.c v ≠ ULONG_MAX → ∃ es, EdgeChain g src es v ∧ chainLen es = st'.c v) ∧
      (∀ v, v < g.nodes.length → st'.c v = ULONG_MAX → st'.p v = ULONG_MAX) := by
  obtain ⟨st', hl⟩ := dijkstraLoop_terminates g M src hg ho hs fuel hf
  obtain ⟨hinv, hq⟩ := dijkstraLoop_spec g M src hg ho fuel _ st' (dijkstraInit_inv g M src hs) hl
  have hfin := hinv.final hg hq
  have h0 : st'.c src ≠ ULONG_MAX := by rw [hfin.core.src0]; decide
  refine ⟨st', hl, by rw [dijkstraPreds_now, hl]; rfl, hfin.core.src0, fun u hu hus hfu => hfin.tree_eq u hu hus hfu,
    ?_, ?_, hfin.core.unre⟩
  · intro v es hc
    have := hfin.reach hg ho es src v hs h0 hc
    rw [hfin.core.src0] at this
    simpa using this
  · intro v hv hfv
    obtain ⟨links, hw, hlen⟩ := dijkstraWalk_ok g M src st' hg ho hfin (g.nodes.length + 1) v [] [] hv hfv
      List.nodup_nil (by simp) (by simp)
    obtain ⟨es, hc, hr⟩ := dijkstra_path_valid g st'.pred src _ v [] _ hw
    refine ⟨es, hc, ?_⟩
    simp only [List.append_nil] at hr
    rw [chainLen, ← hr, hlen]

/-- **Dijkstra answers whenever a chain exists, with the minimal link count** — src ≠ dst, fuel > nodes + edges: if
some chain of graph edges leads from src to dst, `get_local_route` returns a route (no exception, the composition
loop terminates), the route is the concatenation of the declared link lists along a chain of edges from src to dst,
and its link count is ≤ the link count of every chain of edges from src to dst (general Dijkstra minimality: edge
weights = link counts, lazy deletion).  Every graph. -/
theorem dijkstra_route_minimal (g : DGraph) (M fuel srcId dstId s d : Nat) (hg : GraphOK g) (ho : NoOverflow g M)
    (hf : g.nodes.length + g.edges.length < fuel) (hs : g.nodeIdx srcId = some s) (hd : g.nodeIdx dstId = some d)
    (hsd : s ≠ d) (es0 : List DEdge) (hch : EdgeChain g s es0 d) :
    ∃ es, EdgeChain g s es d ∧ dijkstraRoute g fuel srcId dstId = .ok (es.flatMap fun e => e.links) ∧
      chainLen es ≤ chainLen es0 ∧ ∀ es', EdgeChain g s es' d → chainLen es ≤ chainLen es' := by
  have hsn := nodeIdx_lt g srcId s hs
  obtain ⟨st', _, hfin, hroute⟩ := dijkstraRoute_final g M hg ho fuel srcId dstId s d hf hs hd hsd
  have h0 : st'.c s ≠ ULONG_MAX := by rw [hfin.core.src0]; decide
  have hreach : ∀ es', EdgeChain g s es' d → d < g.nodes.length ∧ st'.c d ≠ ULONG_MAX ∧ st'.c d ≤ chainLen es' := by
    intro es' hc'
    have := hfin.reach hg ho es' s d hsn h0 hc'
    rw [hfin.core.src0] at this
    simpa using this
  obtain ⟨hdn, hfd, _⟩ := hreach es0 hch
  obtain ⟨links, hw, hlen⟩ := dijkstraWalk_ok g M s st' hg ho hfin (g.nodes.length + 1) d [] [] hdn hfd
    List.nodup_nil (by simp) (by simp)
  obtain ⟨es, hc, hr⟩ := dijkstra_path_valid g st'.pred s _ d [] _ hw
  simp only [List.append_nil] at hr hw
  have hcl : chainLen es = st'.c d := by rw [chainLen, ← hr, hlen]
  refine ⟨es, hc, by unfold dijkstraRoute; rw [hroute, hw, hr], ?_, ?_⟩
  · rw [hcl]; exact (hreach es0 hch).2.2
  · intro es' hc'; rw [hcl]; exact (hreach es' hc').2.2

/-- **Dijkstra: "No route" exactly when there is none** — src ≠ dst, fuel > nodes + edges: when no chain of graph
edges leads from src to dst the answer is the "No route" exception (not a spin, not a null dereference); with
`dijkstra_route_minimal`: a route is returned iff a chain exists. -/
theorem dijkstra_no_route_exact (g : DGraph) (M fuel srcId dstId s d : Nat) (hg : GraphOK g) (ho : NoOverflow g M)
    (hf : g.nodes.length + g.edges.length < fuel) (hs : g.nodeIdx srcId = some s) (hd : g.nodeIdx dstId = some d)
    (hsd : s ≠ d) (hno : ∀ es, ¬ EdgeChain g s es d) : dijkstraRoute g fuel srcId dstId = .error .noRoute := by
  have hsn := nodeIdx_lt g srcId s hs
  have hdn := nodeIdx_lt g dstId d hd
  obtain ⟨st', hl, hfin, hroute⟩ := dijkstraRoute_final g M hg ho fuel srcId dstId s d hf hs hd hsd
  unfold dijkstraRoute
  rw [hroute]
  by_cases hfd : st'.c d = ULONG_MAX
  · exact dijkstraWalk_noRoute g M s st' hfin _ d [] hdn (fun e => hsd e.symm) hfd
  · -- a finite cost is realised by a chain
    obtain ⟨links, hw, _⟩ := dijkstraWalk_ok g M s st' hg ho hfin (g.nodes.length + 1) d [] [] hdn hfd
      List.nodup_nil (by simp) (by simp)
    obtain ⟨es, hc, _⟩ := dijkstra_path_valid g st'.pred s _ d [] _ hw
    exact absurd hc (hno es)

/-
FULL-STRENGTH STATEMENTS for Dijkstra (src ≠ dst):
  (1) a returned route is the concatenation of the *declared* link lists along a chain — `dijkstra_path_valid`,
      `dijkstra_route_is_chain` (proved; false before the fix of D16)
  (2) a route is returned whenever a chain of declared routes exists, with minimal link count — `dijkstra_route_minimal`
      (proved for the code as it is now, under `GraphOK`/`NoOverflow`; false before the fix of D15, see the regression
      witness); no chain ⇒ the "No route" exception — `dijkstra_no_route_exact`.
  For src = dst the property is false by the letter (a declared self route longer than a cycle through a neighbour is
  returned as declared): `dijkstra_self_route_not_minimal_counterexample`.
-/

/-- the sealed graph of: route 0→1 with links [1, 2] (one-way) -/
def g16 : DGraph := dijkstraSeal ((dijkstraAddRoute { nodes := [], edges := [] } 0 1 [1, 2] false).getD { nodes := [], edges := [] })

/-- **(D16) regression witness of the fixed defect `dijkstra-multilink-hop-reversed`**: before the fix a declared
two-link route `1 2` was returned as `2 1` by a Dijkstra zone (`insert_link_latency` inserted `rbegin..rend`); the
code as it is now returns `1 2`.  Corpus case `d16` replays it on the library. -/
theorem dijkstra_multilink_hop_reversed_prefix_witness :
    (g16.findEdge 0 1).map (·.links) = some [1, 2] ∧ dijkstraRouteV DVar.old g16 100 0 1 = .ok [2, 1] ∧
    dijkstraRoute g16 100 0 1 = .ok [1, 2] := by
  refine ⟨?_, ?_, ?_⟩ <;> decide

/-- the sealed graph of: s=0 → u=1 (link 1, one-way), x=2 → u=1 (link 2, one-way) -/
def g15 : DGraph :=
  dijkstraSeal (((dijkstraAddRoute { nodes := [], edges := [] } 0 1 [1] false).bind
    (fun g => dijkstraAddRoute g 2 1 [2] false)).getD { nodes := [], edges := [] })

/-- the same declarations in a Floyd zone -/
def f15 : FloydSt :=
  floydSeal 3 (((floydAddRoute FloydSt.init 0 1 [1] false).bind (fun s => floydAddRoute s 2 1 [2] false)).getD FloydSt.init)

/-- **(D15) regression witness of the fixed defect `dijkstra-unreachable-node-wraps`**: with one-way routes, a node
that cannot be reached from the source was popped with cost ULONG_MAX; `cost_v_u + ULONG_MAX` wrapped to
`cost_v_u - 1`, which beat the cost of a reachable neighbour and overwrote its predecessor.  s→u is declared (Floyd
answers `1`); before the fix Dijkstra's predecessor walk never reached s (the library span in the composition loop
until memory was exhausted).  The code as it is now answers `1`, and "No route" for the unreachable destinations
s→x and u→s, like Floyd.  Corpus case `d15` replays it on the library. -/
theorem dijkstra_unreachable_wrap_prefix_witness :
    floydRoute 3 f15 0 1 = .ok [1] ∧ dijkstraRouteV DVar.old g15 100 0 1 = .error .loops ∧
    dijkstraRoute g15 100 0 1 = .ok [1] ∧
    dijkstraRoute g15 100 0 2 = .error .noRoute ∧ floydRoute 3 f15 0 2 = .error .noRoute ∧
    dijkstraRoute g15 100 1 0 = .error .noRoute ∧ floydRoute 3 f15 1 0 = .error .noRoute := by
  refine ⟨?_, ?_, ?_, ?_, ?_, ?_, ?_⟩ <;> decide

/-- the sealed graph of: 0 ↔ 1 (link 1, symmetrical) and a declared self route 1 → 1 of three links [2, 3, 4] -/
def gSelf : DGraph :=
  dijkstraSeal (((dijkstraAddRoute { nodes := [], edges := [] } 0 1 [1] true).bind
    (fun g => dijkstraAddRoute g 1 1 [2, 3, 4] false)).getD { nodes := [], edges := [] })

def fSelf : FloydSt :=
  floydSeal 2 (((floydAddRoute FloydSt.init 0 1 [1] true).bind (fun s => floydAddRoute s 1 1 [2, 3, 4] false)).getD FloydSt.init)

/-- **counterexample to "minimal link count / equal link counts" for src = dst** (on the current code; key
`self-route-longer-than-cycle`, not fixed: which of the two answers is meant is a design decision).  A declared self
route longer than a cycle through a neighbour: Floyd's triple loop replaces it by the cycle there and back (`1 1`, 2
links), `DijkstraZone::get_local_route` returns the declared self edge (`2 3 4`, 3 links) without looking further.
Until the fix of D16 this was hidden behind the reversed hop (`4 3 2`). -/
theorem dijkstra_self_route_not_minimal_counterexample :
    floydRoute 2 fSelf 1 1 = .ok [1, 1] ∧ dijkstraRoute gSelf 100 1 1 = .ok [2, 3, 4] ∧
    (minCosts 2 (fun p q => (gSelf.findEdge p q).map (·.links.length)) 1).getD 1 none = some 2 := by
  refine ⟨?_, ?_, ?_⟩ <;> decide

/-- non-vacuity of `dijkstra_route_is_chain`: a two-hop route through multi-link hops, each hop in declared order
(0 →[3,4] 1 →[1,2] 2, symmetrical: back `2 1 4 3`) -/
example : ∃ g, ((dijkstraAddRoute { nodes := [], edges := [] } 0 1 [3, 4] true).bind
      (fun g => dijkstraAddRoute g 1 2 [1, 2] true)).map dijkstraSeal = some g ∧
    dijkstraRoute g 100 0 2 = .ok [3, 4, 1, 2] ∧ dijkstraRoute g 100 2 0 = .ok [2, 1, 4, 3] ∧
    dijkstraRoute g 100 1 1 = .ok [0] := ⟨_, rfl, by decide, by decide, by decide⟩

/-- non-vacuity of `floyd_minimal` / `floyd_path_valid`: 0 →[1,2] 1 →[3] 2 and a direct 0 →[4,5,6,7] 2: the two-hop
chain (3 links) beats the direct route (4 links) -/
def fEx : FloydSt :=
  floydLoopback 3 ((((floydAddRoute FloydSt.init 0 1 [1, 2] true).bind (fun s => floydAddRoute s 1 2 [3] true)).bind
    (fun s => floydAddRoute s 0 2 [4, 5, 6, 7] false)).getD FloydSt.init)

example : (floydLoops 3 fEx).cost 0 2 = some 3 ∧ floydRoute 3 (floydLoops 3 fEx) 0 2 = .ok [1, 2, 3] ∧
    floydRoute 3 (floydLoops 3 fEx) 2 0 = .ok [3, 2, 1] ∧ walkCost fEx.cost 0 [1] 2 = some 3 := by
  refine ⟨by decide, by decide, by decide, by decide⟩

/-- non-vacuity of `floyd_pred_invariant`, `floyd_route_length`, `floyd_route_minimal`: the declarations of `fEx`
replayed as the driver does (`wellDecl_routes`); 0 → 2 has the non-empty chains `[4,5,6,7]` (direct) and `[1,2] [3]`;
the route returned has the 3 links of the cost table -/
def fDecl : List (Nat × Nat × Bool × List Lk) := [(0, 1, true, [1, 2]), (1, 2, true, [3]), (0, 2, false, [4, 5, 6, 7])]

def replay (routes : List (Nat × Nat × Bool × List Lk)) : Option FloydSt :=
  routes.foldl (fun acc r => acc.bind fun st => floydAddRoute st r.1 r.2.1 r.2.2.2 r.2.2.1) (some FloydSt.init)

example : ∃ s, replay fDecl = some s ∧
    WellDecl 3 s ∧ (floydSeal 3 s).cost 0 2 = some 3 ∧ (floydSeal 3 s).pred 0 2 = some 1 ∧
    floydRoute 3 (floydSeal 3 s) 0 2 = .ok [1, 2, 3] ∧
    HopChain (floydLoopback 3 s).link 0 [(0, 2, [4, 5, 6, 7])] 2 ∧
    HopChain (floydLoopback 3 s).link 0 [(0, 1, [1, 2]), (1, 2, [3])] 2 :=
  ⟨_, rfl, wellDecl_routes 3 fDecl FloydSt.init _ (wellDecl_init 3) (by decide) rfl, by decide, by decide, by decide,
   ⟨rfl, by decide, rfl⟩, ⟨rfl, by decide, rfl, by decide, rfl⟩⟩

/-- non-vacuity of `floyd_no_route`: one-way routes 0 → 1 and 2 → 1; nothing leads from 0 to 2 -/
def fDecl15 : List (Nat × Nat × Bool × List Lk) := [(0, 1, false, [1]), (2, 1, false, [2])]

example : ∃ s, replay fDecl15 = some s ∧
    WellDecl 3 s ∧ (floydSeal 3 s).cost 0 2 = none ∧ floydRoute 3 (floydSeal 3 s) 0 2 = .error .noRoute :=
  ⟨_, rfl, wellDecl_routes 3 fDecl15 FloydSt.init _ (wellDecl_init 3) (by decide) rfl, by decide, by decide⟩

/-- non-vacuity of `dijkstra_relaxation_invariant`, `dijkstra_final_state`, `dijkstra_route_minimal`: 0 ↔ 1 `3 4`,
1 ↔ 2 `1 2`, 0 → 2 `5 6 7 8 9` replayed as the driver does, then sealed (`graphOK_routes`): the graph satisfies the
hypotheses (3 nodes, 8 edges, ≤ 5 links per edge), 0 → 2 has the direct chain of 5 links and the route returned has 4 -/
def dDecl : List (Nat × Nat × Bool × List Lk) := [(0, 1, true, [3, 4]), (1, 2, true, [1, 2]), (0, 2, false, [5, 6, 7, 8, 9])]

def replayD (routes : List (Nat × Nat × Bool × List Lk)) : Option DGraph :=
  routes.foldl (fun acc r => acc.bind fun g => dijkstraAddRoute g r.1 r.2.1 r.2.2.2 r.2.2.1)
    (some { nodes := [], edges := [] })

example : ∃ g0, replayD dDecl = some g0 ∧ GraphOK (dijkstraSeal g0) ∧ NoOverflow (dijkstraSeal g0) 5 ∧
    (dijkstraSeal g0).nodes.length + (dijkstraSeal g0).edges.length < 100 ∧
    (dijkstraSeal g0).nodeIdx 0 = some 0 ∧ (dijkstraSeal g0).nodeIdx 2 = some 2 ∧
    EdgeChain (dijkstraSeal g0) 0 [{ src := 0, dst := 2, links := [5, 6, 7, 8, 9] }] 2 ∧
    dijkstraRoute (dijkstraSeal g0) 100 0 2 = .ok [3, 4, 1, 2] :=
  ⟨_, rfl, graphOK_routes dDecl _ _ graphOK_empty (by decide) rfl, ⟨by decide, by decide⟩, by decide, by decide,
   by decide, ⟨by decide, rfl, rfl⟩, by decide⟩

/-- non-vacuity of `dijkstra_no_route_exact`: one-way routes 0 → 1 and 2 → 1: no chain leads from 0 to 2 (if one did,
`dijkstra_route_minimal` would give a route, but the answer is "No route") -/
def g15d : DGraph := dijkstraSeal ((replayD fDecl15).getD { nodes := [], edges := [] })

example : GraphOK g15d ∧ NoOverflow g15d 1 ∧ g15d.nodes.length + g15d.edges.length < 100 ∧
    g15d.nodeIdx 0 = some 0 ∧ g15d.nodeIdx 2 = some 2 ∧
    (∀ es, ¬ EdgeChain g15d 0 es 2) ∧ dijkstraRoute g15d 100 0 2 = .error .noRoute := by
  have hg : GraphOK g15d := graphOK_routes fDecl15 _ ((replayD fDecl15).getD { nodes := [], edges := [] })
    graphOK_empty (by decide) rfl
  have hn : dijkstraRoute g15d 100 0 2 = .error .noRoute := by decide
  refine ⟨hg, ⟨by decide, by decide⟩, by decide, by decide, by decide, ?_, hn⟩
  intro es hc
  obtain ⟨es', _, hr, _⟩ := dijkstra_route_minimal g15d 1 100 0 2 0 2 hg ⟨by decide, by decide⟩ (by decide)
    (by decide) (by decide) (by decide) es hc
  rw [hn] at hr; cases hr

example : ∃ t', fullAddRoute false [] 3 4 none none [7, 8] true = some t' ∧ (fullLocal t' 3 4).links = [7, 8] ∧
    (fullLocal t' 4 3).links = [8, 7] := ⟨_, rfl, by decide, by decide⟩

end SgVerif.C25
