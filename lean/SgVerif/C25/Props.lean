import SgVerif.C25.Lemmas
/-
C25 — Shortest-path zones compute minimal routes.  Property theorems (nothing else in this file).
Every theorem is for every number of nodes, every set of declared routes (any link lists, symmetric or one-way).
-/
namespace SgVerif.C25
open SgVerif.C24 (Lk fullAddRoute fullLocal tableGet Table newExtendedRoute)

/- ---------------------------------------------------------------- Floyd -/

/-- **Floyd: the cost table after do_seal is the minimal total link count over all chains of declared routes,
and it is realised by a chain** — for every n and every table `s` built before the loops whose entries are inside
`0..n-1`.  (`walkCost s.cost a mid b` = Σ of the costs of the one-hop routes a→m₁→…→b; `floyd_cost_is_link_count` below
says those costs are the link counts of the declared routes.)  Classical induction on the pivot `k`, for the in-place
loop as written (row and column `c` do not change during iteration `c`). -/
theorem floyd_minimal (n : Nat) (s : FloydSt) (hn : Inside n s.cost) (a b : Nat) :
    (∀ c, (floydLoops n s).cost a b = some c →
        ∃ mid, (∀ m ∈ mid, m < n) ∧ walkCost s.cost a mid b = some c) ∧
    (∀ mid, (∀ m ∈ mid, m < n) → optLe ((floydLoops n s).cost a b) (walkCost s.cost a mid b)) := by
  have h := floydLoops_cost n s hn n (Nat.le_refl _) a b
  unfold floydLoops
  rw [h]
  exact ⟨fun c hc => fw_sound s.cost n a b c hc, fun mid hm => fw_le_walk s.cost n mid a b hm⟩

/-- unreachable pairs keep ULONG_MAX: if no chain exists the cost stays `none` (and get_local_route throws) -/
theorem floyd_unreachable (n : Nat) (s : FloydSt) (hn : Inside n s.cost) (a b : Nat)
    (h : ∀ mid, (∀ m ∈ mid, m < n) → walkCost s.cost a mid b = none) : (floydLoops n s).cost a b = none := by
  cases hc : (floydLoops n s).cost a b with
  | none => rfl
  | some c =>
    obtain ⟨mid, hm, hw⟩ := (floyd_minimal n s hn a b).1 c hc
    rw [h mid hm] at hw; cases hw

/-- the weights are link counts: cost_table_ entry = size of the declared link list, an invariant of add_route and of
the loopback step -/
def CostIsLen (s : FloydSt) : Prop := ∀ a b, s.cost a b = (s.link a b).map List.length

theorem costIsLen_init : CostIsLen FloydSt.init := by intro a b; rfl

theorem floydAddRoute_costIsLen (s s' : FloydSt) (src dst : Nat) (links : List Lk) (sym : Bool)
    (hs : CostIsLen s) (h : floydAddRoute s src dst links sym = some s') : CostIsLen s' := by
  unfold floydAddRoute at h
  split at h
  · cases h
  · cases sym
    · simp only [Bool.false_eq_true, if_false, Option.some.injEq] at h
      subst h
      intro a b
      simp only [Tbl.set]
      split <;> simp [hs a b]
    · simp only [if_true] at h
      split at h
      · cases h
      · simp only [Option.some.injEq] at h
        subst h
        intro a b
        simp only [Tbl.set]
        split
        · simp
        · split <;> simp [hs a b]

/-- **a declared one-hop route is stored as declared (and reversed for the opposite direction when symmetrical)** -/
theorem floyd_stores_declared (s s' : FloydSt) (src dst : Nat) (links : List Lk) (sym : Bool) (hne : src ≠ dst)
    (h : floydAddRoute s src dst links sym = some s') :
    s'.link src dst = some links ∧ s'.pred src dst = some src ∧
    (sym = true → s'.link dst src = some links.reverse ∧ s'.pred dst src = some dst) := by
  unfold floydAddRoute at h
  split at h
  · cases h
  · cases sym
    · simp only [Bool.false_eq_true, if_false, Option.some.injEq] at h
      subst h; simp [Tbl.set]
    · simp only [if_true] at h
      split at h
      · cases h
      · simp only [Option.some.injEq] at h
        subst h
        have : ¬ (src = dst ∧ dst = src) := fun e => hne e.1
        simp [Tbl.set, this]

/-- chain of stored one-hop routes -/
def HopChain (link : Tbl (List Lk)) : Nat → List (Nat × Nat × List Lk) → Nat → Prop
  | a, [], b => a = b
  | a, (p, q, l) :: hs, b => p = a ∧ link p q = some l ∧ HopChain link q hs b

/-- **Floyd: whatever get_local_route returns is a chain of declared one-hop routes from src to dst** (the walk of
the predecessor table pushes `link_table_[pred][cur]` and stops at `src`) — every table, every fuel. -/
theorem floyd_path_valid (s : FloydSt) (src dst : Nat) : ∀ (f cur : Nat) (acc hops : List (Nat × Nat × List Lk)),
    HopChain s.link cur acc dst → floydWalk s src f cur acc = .ok hops → HopChain s.link src hops dst := by
  intro f
  induction f with
  | zero => intro cur acc hops _ h; simp [floydWalk] at h
  | succ f ih =>
    intro cur acc hops hc h
    unfold floydWalk at h
    split at h
    · cases h
    · rename_i p hp
      split at h
      · cases h
      · rename_i l hl
        have hc' : HopChain s.link p ((p, cur, l) :: acc) dst := ⟨rfl, hl, hc⟩
        by_cases hps : p = src
        · simp only [hps, ne_eq, not_true_eq_false, if_false, Except.ok.injEq] at h
          subst h; rw [hps] at hc'; exact hc'
        · simp only [hps, ne_eq, not_false_eq_true, if_true] at h
          exact ih p _ hops hc' h

/- ---------------------------------------------------------------- Full -/

/-- **Full: get_local_route returns exactly the declared route**, and declaring it leaves every other entry alone -/
theorem full_returns_declared (t t' : Table) (src dst : Nat) (links : List Lk) (sym : Bool) (hne : src ≠ dst)
    (h : fullAddRoute false t src dst none none links sym = some t') :
    (fullLocal t' src dst).links = links ∧
    (sym = true → (fullLocal t' dst src).links = links.reverse) ∧
    (∀ a b, (a, b) ≠ (src, dst) → (a, b) ≠ (dst, src) → tableGet t' a b = tableGet t a b) := by
  have hne' : ¬ (dst = src) := fun e => hne e.symm
  unfold fullAddRoute at h
  simp only [Bool.false_and, Bool.false_eq_true, if_false] at h
  split at h
  · cases h
  · cases sym
    · simp only [Bool.false_and, Bool.false_eq_true, if_false, Option.some.injEq] at h
      subst h
      refine ⟨by simp [fullLocal, tableGet, List.find?, newExtendedRoute], by simp, ?_⟩
      intro a b h1 _
      have : ((src, dst) == (a, b)) = false := by
        simp only [beq_eq_false_iff_ne, ne_eq]; exact fun e => h1 e.symm
      simp [tableGet, List.find?, this]
    · simp only [Bool.true_and, ne_eq, hne, not_false_eq_true, decide_true, if_true] at h
      split at h
      · cases h
      · simp only [Option.some.injEq] at h
        subst h
        have hk1 : ((dst, src) == (src, dst)) = false := by simp [hne']
        refine ⟨by simp [fullLocal, tableGet, List.find?, hk1, newExtendedRoute],
                fun _ => by simp [fullLocal, tableGet, List.find?, newExtendedRoute], ?_⟩
        intro a b h1 h2
        have e1 : ((src, dst) == (a, b)) = false := by
          simp only [beq_eq_false_iff_ne, ne_eq]; exact fun e => h1 e.symm
        have e2 : ((dst, src) == (a, b)) = false := by
          simp only [beq_eq_false_iff_ne, ne_eq]; exact fun e => h2 e.symm
        simp [tableGet, List.find?, e1, e2]

/- ---------------------------------------------------------------- Dijkstra -/

def EdgeChain (g : DGraph) : Nat → List DEdge → Nat → Prop
  | a, [], b => a = b
  | a, e :: es, b => e ∈ g.edges ∧ e.src = a ∧ EdgeChain g e.dst es b

theorem edgeChain_snoc (g : DGraph) (e : DEdge) (he : e ∈ g.edges) : ∀ (es : List DEdge) (a : Nat),
    EdgeChain g a es e.src → EdgeChain g a (es ++ [e]) e.dst := by
  intro es
  induction es with
  | nil => intro a h; simp only [EdgeChain] at h; exact ⟨he, h.symm, rfl⟩
  | cons x xs ih => intro a h; exact ⟨h.1, h.2.1, ih x.dst h.2.2⟩

/-- the links of one hop as the code emits them -/
def hopLinks (l : List Lk) : List Lk := if fixedHopOrder then l else l.reverse

/-- **Dijkstra: whatever the route composition returns is made of the graph's edges, forming a chain from src to
dst, hop after hop in order** — for every graph, every predecessor array (even a corrupted one), every fuel.
On the current code each hop's links come out *reversed* (`hopLinks`), see the counterexample below. -/
theorem dijkstra_path_valid (g : DGraph) (pred : List Nat) (src : Nat) : ∀ (f v : Nat) (acc r : List Lk),
    dijkstraWalk g pred src f v acc = .ok r →
    ∃ es, EdgeChain g src es v ∧ r = es.flatMap (fun e => hopLinks e.links) ++ acc := by
  intro f
  induction f with
  | zero => intro v acc r h; simp [dijkstraWalk] at h
  | succ f ih =>
    intro v acc r h
    unfold dijkstraWalk at h
    by_cases hv : v = src
    · simp only [hv, if_true, Except.ok.injEq] at h
      exact ⟨[], hv.symm ▸ rfl, by simp [h]⟩
    · simp only [hv, if_false] at h
      split at h
      · cases h
      split at h
      · cases h
      · rename_i e he
        have hmem : e ∈ g.edges := List.mem_of_find?_eq_some he
        have hprop := List.find?_some he
        simp only [decide_eq_true_eq] at hprop
        obtain ⟨es, hc, hr⟩ := ih _ _ r h
        refine ⟨es ++ [e], ?_, ?_⟩
        · have := edgeChain_snoc g e hmem es src (hprop.1 ▸ hc)
          rw [hprop.2] at this; exact this
        · rw [hr]; simp [insertFront, hopLinks]

/-- when no hop has two different links in a row (e.g. single-link routes) the result is the concatenation of the
declared link lists: the property's "chain of declared routes" — **partial**: the general statement is false on the
current code -/
theorem dijkstra_path_valid_partial (g : DGraph) (pred : List Nat) (src : Nat) (f v : Nat) (r : List Lk)
    (hp : ∀ e ∈ g.edges, e.links.reverse = e.links)
    (h : dijkstraWalk g pred src f v [] = .ok r) :
    ∃ es, EdgeChain g src es v ∧ r = es.flatMap (fun e => e.links) := by
  obtain ⟨es, hc, hr⟩ := dijkstra_path_valid g pred src f v [] r h
  refine ⟨es, hc, ?_⟩
  rw [hr, List.append_nil]
  have hall : ∀ (es : List DEdge) (a : Nat), EdgeChain g a es v → ∀ e ∈ es, e ∈ g.edges := by
    intro es
    induction es with
    | nil => intro _ _ e he; cases he
    | cons x xs ih =>
      intro a hc e he
      rcases List.mem_cons.mp he with h1 | h1
      · subst h1; exact hc.1
      · exact ih x.dst hc.2.2 e h1
  have hm := hall es src hc
  clear hc hr hall
  induction es with
  | nil => rfl
  | cons x xs ih =>
    simp only [List.flatMap_cons]
    rw [ih (fun e he => hm e (by simp [he]))]
    congr 1
    simp only [hopLinks]
    split
    · rfl
    · exact hp x (hm x (by simp))

/-
FULL-STRENGTH STATEMENTS for Dijkstra (both false on the current code):
  (1) a returned route is the concatenation of the *declared* link lists along a chain        — false: see (D16)
  (2) a route is returned whenever a chain of declared routes exists, with minimal link count — false: see (D15)
Minimality of Dijkstra's answer when it does answer is checked by correspondence only (equal link count with the
Floyd model / the Bellman–Ford spec on the same graph), not proved.
-/

/-- the sealed graph of: route 0→1 with links [1, 2] (one-way) -/
def g16 : DGraph := dijkstraSeal ((dijkstraAddRoute { nodes := [], edges := [] } 0 1 [1, 2] false).getD { nodes := [], edges := [] })

/-- **(D16) counterexample**: a declared two-link route `1 2` is returned as `2 1` by a Dijkstra zone
(`insert_link_latency` inserts `rbegin..rend`).  Replayed on the library: key `dijkstra-multilink-hop-reversed`. -/
theorem dijkstra_multilink_hop_reversed_counterexample :
    (g16.findEdge 0 1).map (·.links) = some [1, 2] ∧ dijkstraRoute g16 100 0 1 = .ok [2, 1] := by
  constructor <;> decide

/-- the sealed graph of: s=0 → u=1 (link 1, one-way), x=2 → u=1 (link 2, one-way) -/
def g15 : DGraph :=
  dijkstraSeal (((dijkstraAddRoute { nodes := [], edges := [] } 0 1 [1] false).bind
    (fun g => dijkstraAddRoute g 2 1 [2] false)).getD { nodes := [], edges := [] })

/-- the same declarations in a Floyd zone -/
def f15 : FloydSt :=
  floydSeal 3 (((floydAddRoute FloydSt.init 0 1 [1] false).bind (fun s => floydAddRoute s 2 1 [2] false)).getD FloydSt.init)

/-- **(D15) counterexample**: with one-way routes, a node that cannot be reached from the source is popped with cost
ULONG_MAX; `cost_v_u + ULONG_MAX` wraps to `cost_v_u - 1`, which beats the cost of a reachable neighbour and overwrites
its predecessor.  s→u is declared (Floyd answers `1`), Dijkstra's predecessor walk never reaches s (the library spins
in the composition loop until memory is exhausted).  Key `dijkstra-unreachable-node-wraps`. -/
theorem dijkstra_unreachable_wrap_counterexample :
    floydRoute 3 f15 0 1 = .ok [1] ∧ dijkstraRoute g15 100 0 1 = .error .loops := by
  constructor <;> decide

/-- non-vacuity of `floyd_minimal` / `floyd_path_valid`: 0 →[1,2] 1 →[3] 2 and a direct 0 →[4,5,6,7] 2: the two-hop
chain (3 links) beats the direct route (4 links) -/
def fEx : FloydSt :=
  floydLoopback 3 ((((floydAddRoute FloydSt.init 0 1 [1, 2] true).bind (fun s => floydAddRoute s 1 2 [3] true)).bind
    (fun s => floydAddRoute s 0 2 [4, 5, 6, 7] false)).getD FloydSt.init)

example : (floydLoops 3 fEx).cost 0 2 = some 3 ∧ floydRoute 3 (floydLoops 3 fEx) 0 2 = .ok [1, 2, 3] ∧
    floydRoute 3 (floydLoops 3 fEx) 2 0 = .ok [3, 2, 1] ∧ walkCost fEx.cost 0 [1] 2 = some 3 := by
  refine ⟨by decide, by decide, by decide, by decide⟩

example : ∃ t', fullAddRoute false [] 3 4 none none [7, 8] true = some t' ∧ (fullLocal t' 3 4).links = [7, 8] ∧
    (fullLocal t' 4 3).links = [8, 7] := ⟨_, rfl, by decide, by decide⟩

end SgVerif.C25
