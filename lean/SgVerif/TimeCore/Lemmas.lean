import SgVerif.TimeCore.Model
/-
Helper lemmas about the time-core model: frame properties of the maestro-level functions (what they can and cannot
change in `St`) and the arithmetic of `timeDelta`.
-/
namespace SgVerif.TimeCore

/-! ### `pick` only touches the oracle -/
@[simp] theorem pick_now (n : Nat) (s : St) : (pick n s).2.now = s.now := by
  unfold pick; (repeat' split) <;> rfl
@[simp] theorem pick_log (n : Nat) (s : St) : (pick n s).2.log = s.log := by
  unfold pick; (repeat' split) <;> rfl
@[simp] theorem pick_k (n : Nat) (s : St) : (pick n s).2.k = s.k := by
  unfold pick; (repeat' split) <;> rfl
@[simp] theorem pick_fired (n : Nat) (s : St) : (pick n s).2.fired = s.fired := by
  unfold pick; (repeat' split) <;> rfl
@[simp] theorem pick_popped (n : Nat) (s : St) : (pick n s).2.popped = s.popped := by
  unfold pick; (repeat' split) <;> rfl
@[simp] theorem pick_done (n : Nat) (s : St) : (pick n s).2.done = s.done := by
  unfold pick; (repeat' split) <;> rfl

/-! ### `popWindow`, `execAll`, `timersLoop`: the clock and the log are untouched; ghost traces only grow -/

theorem popWindow_now (n : Nat) (s : St) (re : List HeapE) : (popWindow n s re).1.now = s.now := by
  induction n generalizing s re with
  | zero => rfl
  | succ n ih =>
    unfold popWindow
    simp only []
    split
    · rfl
    · split
      · simp
      · split <;> (rw [ih]; simp)

theorem popWindow_log (n : Nat) (s : St) (re : List HeapE) : (popWindow n s re).1.log = s.log := by
  induction n generalizing s re with
  | zero => rfl
  | succ n ih =>
    unfold popWindow
    simp only []
    split
    · rfl
    · split
      · simp
      · split <;> (rw [ih]; simp)

theorem popWindow_fired (n : Nat) (s : St) (re : List HeapE) : (popWindow n s re).1.fired = s.fired := by
  induction n generalizing s re with
  | zero => rfl
  | succ n ih =>
    unfold popWindow
    simp only []
    split
    · rfl
    · split
      · simp
      · split <;> (rw [ih]; simp)

theorem popWindow_done (n : Nat) (s : St) (re : List HeapE) : (popWindow n s re).1.done = s.done := by
  induction n generalizing s re with
  | zero => rfl
  | succ n ih =>
    unfold popWindow
    simp only []
    split
    · rfl
    · split
      · simp
      · split <;> (rw [ih]; simp)

/-- every entry that `update_actions_state` completes at clock `now` is due at `now` -/
theorem popWindow_popped (n : Nat) (s : St) (re : List HeapE)
    (h : ∀ x ∈ s.popped, x.2.due x.1 = true) : ∀ x ∈ (popWindow n s re).1.popped, x.2.due x.1 = true := by
  induction n generalizing s re with
  | zero => exact h
  | succ n ih =>
    unfold popWindow
    simp only []
    split
    · exact h
    · split
      · simpa using h
      · rename_i j hj
        have hmem : j ∈ (List.range s.k.heap.length).filter (fun j => (s.k.heap.getD j default).due s.now) :=
          List.mem_of_getElem? hj
        have hdue := (List.mem_filter.mp hmem).2
        split <;> (apply ih; intro x hx; simp only [List.mem_append, List.mem_singleton, pick_popped] at hx
                   rcases hx with hx | hx
                   · exact h x hx
                   · subst hx; simpa using hdue)

theorem execAll_now (n : Nat) (s : St) (r : Bool) : (execAll n s r).1.now = s.now := by
  induction n generalizing s r with
  | zero => rfl
  | succ n ih =>
    unfold execAll
    simp only []
    split
    · rfl
    · split
      · rfl
      · split
        · simp
        · rw [ih]; simp

theorem execAll_log (n : Nat) (s : St) (r : Bool) : (execAll n s r).1.log = s.log := by
  induction n generalizing s r with
  | zero => rfl
  | succ n ih =>
    unfold execAll
    simp only []
    split
    · rfl
    · split
      · rfl
      · split
        · simp
        · rw [ih]; simp

theorem execAll_popped (n : Nat) (s : St) (r : Bool) : (execAll n s r).1.popped = s.popped := by
  induction n generalizing s r with
  | zero => rfl
  | succ n ih =>
    unfold execAll
    simp only []
    split
    · rfl
    · split
      · rfl
      · split
        · simp
        · rw [ih]; simp

theorem execAll_done (n : Nat) (s : St) (r : Bool) : (execAll n s r).1.done = s.done := by
  induction n generalizing s r with
  | zero => rfl
  | succ n ih =>
    unfold execAll
    simp only []
    split
    · rfl
    · split
      · rfl
      · split
        · simp
        · rw [ih]; simp

theorem minDate_le : ∀ (l : List Rat) (m : Rat), minDate l = some m → ∀ x ∈ l, m ≤ x := by
  intro l
  induction l with
  | nil => intro m h; simp [minDate] at h
  | cons d ds ih =>
    intro m h x hx
    unfold minDate at h
    split at h
    · rename_i hn
      cases ds with
      | nil => simp at hx; injection h with h; subst hx; subst h; exact Rat.le_refl
      | cons e es => simp [minDate] at hn; split at hn <;> simp at hn
    · rename_i m' hm'
      injection h with h
      rcases List.mem_cons.mp hx with hx | hx
      · subst hx; subst h; split <;> grind
      · have := ih m' hm' x hx
        subst h; split <;> grind

theorem minDate_mem : ∀ (l : List Rat) (m : Rat), minDate l = some m → m ∈ l := by
  intro l
  induction l with
  | nil => intro m h; simp [minDate] at h
  | cons d ds ih =>
    intro m h
    unfold minDate at h
    split at h
    · injection h with h; subst h; simp
    · rename_i m' hm'
      injection h with h
      have := ih m' hm'
      subst h; split <;> simp [this]

/-- `Timer::execute_all` runs a callback only when the clock has reached the timer's date (never early) -/
theorem execAll_fired (n : Nat) (s : St) (r : Bool)
    (h : ∀ x ∈ s.fired, x.2.date ≤ x.1) : ∀ x ∈ (execAll n s r).1.fired, x.2.date ≤ x.1 := by
  induction n generalizing s r with
  | zero => exact h
  | succ n ih =>
    unfold execAll
    simp only []
    split
    · exact h
    · rename_i top htop
      split
      · exact h
      · rename_i hnow
        split
        · simpa using h
        · rename_i j hj
          have hmem : j ∈ (List.range s.k.timers.length).filter (fun j => (s.k.timers.getD j default).date == top) :=
            List.mem_of_getElem? hj
          have hd := (List.mem_filter.mp hmem).2
          apply ih
          intro x hx
          simp only [List.mem_append, List.mem_singleton, pick_fired, pick_now, pick_k] at hx
          rcases hx with hx | hx
          · exact h x hx
          · subst hx
            simp only [beq_iff_eq] at hd
            simp only [hd]
            exact Rat.not_lt.mp hnow

theorem timersLoop_now (n : Nat) (s : St) : (timersLoop n s).now = s.now := by
  induction n generalizing s with
  | zero => rfl
  | succ n ih =>
    unfold timersLoop
    simp only []
    split
    · rw [ih]; simp [execAll_now]
    · simp [execAll_now]

theorem timersLoop_log (n : Nat) (s : St) : (timersLoop n s).log = s.log := by
  induction n generalizing s with
  | zero => rfl
  | succ n ih =>
    unfold timersLoop
    simp only []
    split
    · rw [ih]; simp [execAll_log]
    · simp [execAll_log]

theorem timersLoop_popped (n : Nat) (s : St) : (timersLoop n s).popped = s.popped := by
  induction n generalizing s with
  | zero => rfl
  | succ n ih =>
    unfold timersLoop
    simp only []
    split
    · rw [ih]; simp [execAll_popped]
    · simp [execAll_popped]

theorem timersLoop_fired (n : Nat) (s : St)
    (h : ∀ x ∈ s.fired, x.2.date ≤ x.1) : ∀ x ∈ (timersLoop n s).fired, x.2.date ≤ x.1 := by
  induction n generalizing s with
  | zero => exact h
  | succ n ih =>
    unfold timersLoop
    simp only []
    split
    · apply ih; simpa using execAll_fired _ s false h
    · simpa using execAll_fired _ s false h

/-! ### `solve`: the time step is never negative -/

/-- `time_delta >= 0`: with `max_date >= now_` (the `xbt_assert` of `solve`) and the `next_event >= 0.0` test. -/
theorem timeDelta_nonneg (now : Rat) (tnext top : Option Rat) (d : Rat)
    (ht : ∀ t, tnext = some t → now ≤ t) (h : timeDelta now tnext top = some d) : 0 ≤ d := by
  unfold timeDelta at h
  cases tnext with
  | none =>
    cases top with
    | none => simp at h
    | some x =>
      simp only [Option.map] at h
      split at h
      · injection h with h; subst h; grind
      · simp at h
  | some t =>
    have := ht t rfl
    cases top with
    | none => simp only [Option.map] at h; injection h with h; subst h; grind
    | some x =>
      simp only [Option.map] at h
      split at h
      · split at h <;> (injection h with h; subst h; grind)
      · injection h with h; subst h; grind

/-- the time step never jumps over the next timer: `time_delta <= Timer::next() - now` -/
theorem timeDelta_le_timer (now : Rat) (t : Rat) (top : Option Rat) (d : Rat)
    (h : timeDelta now (some t) top = some d) : now + d ≤ t := by
  unfold timeDelta at h
  cases top with
  | none => simp only [Option.map] at h; injection h with h; subst h; grind
  | some x =>
    simp only [Option.map] at h
    split at h
    · split at h <;> (injection h with h; subst h; grind)
    · injection h with h; subst h; grind

theorem outer_log (s : St) : (outer s).log = s.log := by
  unfold outer
  simp only []
  split
  · rfl
  · split <;> split <;> (try split) <;> simp [timersLoop_log, popWindow_log]

theorem outer_now_le (s : St) : s.now ≤ (outer s).now := by
  unfold outer
  simp only []
  split
  · exact Rat.le_refl
  · rename_i hb
    have hT : ∀ t, minDate (s.k.timers.map (·.date)) = some t → s.now ≤ t := by
      intro t ht
      rw [ht] at hb
      simp only at hb
      cases h : decide (t < s.now) <;> simp_all
      exact Rat.not_lt.mp h
    split
    · split <;> (try split) <;> simp [timersLoop_now] <;> exact Rat.le_refl
    · rename_i d hd
      have := timeDelta_nonneg _ _ _ _ hT hd
      split <;> (try split) <;> simp [timersLoop_now, popWindow_now] <;> grind

/-- the clock never jumps over a pending timer: after `solve`, `now ≤` the date of every timer that was not in the past -/
theorem outer_now_le_timer (s : St) (t : Timer) (ht : t ∈ s.k.timers) (hf : s.now ≤ t.date) :
    (outer s).now ≤ t.date := by
  unfold outer
  simp only []
  split
  · exact hf
  · split
    · split <;> (try split) <;> simp [timersLoop_now] <;> exact hf
    · rename_i d hd
      cases hm : minDate (s.k.timers.map (·.date)) with
      | none =>
        have : (s.k.timers.map (·.date)) = [] := by
          cases h : s.k.timers.map (·.date) with
          | nil => rfl
          | cons x xs => rw [h] at hm; unfold minDate at hm; split at hm <;> simp at hm
        simp at this; rw [this] at ht; simp at ht
      | some m =>
        rw [hm] at hd
        have h1 := timeDelta_le_timer _ _ _ _ hd
        have h2 := minDate_le _ _ hm t.date (List.mem_map.mpr ⟨t, ht, rfl⟩)
        split <;> (try split) <;> simp [timersLoop_now, popWindow_now] <;> grind

theorem subround_now (s : St) : (subround s).now = s.now := by simp [subround]

theorem step_now_le (s : St) : s.now ≤ (step s).now := by
  unfold step
  split
  · exact Rat.le_refl
  · split
    · exact outer_now_le s
    · rw [subround_now]; exact Rat.le_refl

/-- C03 `clock_monotone`: whatever the programs, the tie resolutions and the fuel, the clock never decreases -/
theorem run_now_le (n : Nat) (s : St) : s.now ≤ (run n s).now := by
  induction n generalizing s with
  | zero => exact Rat.le_refl
  | succ n ih => unfold run; exact Rat.le_trans (step_now_le s) (ih (step s))

/-- stamps of the log are sorted and none is in the future -/
def LogInv (s : St) : Prop := (∀ e ∈ s.log, e.1 ≤ s.now) ∧ s.log.Pairwise (fun a b => a.1 ≤ b.1)

theorem pairwise_const_stamp (t : Rat) (l : List Ev) :
    (l.map (fun e => (t, e))).Pairwise (fun a b => a.1 ≤ b.1) := by
  induction l with
  | nil => simp
  | cons x xs ih =>
    simp only [List.map_cons, List.pairwise_cons]
    refine ⟨?_, ih⟩
    intro b hb
    obtain ⟨y, _, rfl⟩ := List.mem_map.mp hb
    exact Rat.le_refl

theorem subround_log (s : St) : ∃ evs : List Ev, (subround s).log = s.log ++ evs.map (fun e => (s.now, e)) := by
  unfold subround
  exact ⟨_, rfl⟩

theorem step_logInv (s : St) (h : LogInv s) : LogInv (step s) := by
  unfold step
  split
  · exact h
  · split
    · have hn := outer_now_le s
      refine ⟨?_, ?_⟩
      · intro e he; rw [outer_log] at he; exact Rat.le_trans (h.1 e he) hn
      · rw [outer_log]; exact h.2
    · obtain ⟨evs, hl⟩ := subround_log s
      refine ⟨?_, ?_⟩
      · intro e he
        rw [hl] at he; rw [subround_now]
        rcases List.mem_append.mp he with he | he
        · exact h.1 e he
        · obtain ⟨x, _, rfl⟩ := List.mem_map.mp he; exact Rat.le_refl
      · rw [hl, List.pairwise_append]
        refine ⟨h.2, ?_, ?_⟩
        · exact pairwise_const_stamp s.now evs
        · intro a ha b hb
          obtain ⟨x, _, rfl⟩ := List.mem_map.mp hb
          exact h.1 a ha

theorem run_logInv (n : Nat) (s : St) (h : LogInv s) : LogInv (run n s) := by
  induction n generalizing s with
  | zero => exact h
  | succ n ih => unfold run; exact ih _ (step_logInv s h)

theorem initSt_logInv (progs : List (List Op)) (ties : List Nat) : LogInv (initSt progs ties) := by
  simp [LogInv, initSt]

/-! ### ghost traces through the maestro loop -/

def PoppedDue (s : St) : Prop := ∀ x ∈ s.popped, x.2.due x.1 = true
def FiredOnTime (s : St) : Prop := ∀ x ∈ s.fired, x.2.date ≤ x.1

theorem outer_poppedDue (s : St) (h : PoppedDue s) : PoppedDue (outer s) := by
  unfold PoppedDue at h ⊢
  unfold outer
  simp only []
  split
  · exact h
  · split
    · split <;> (try split) <;> simpa [timersLoop_popped] using h
    · rename_i d _
      have := popWindow_popped (s.k.heap.length) { s with now := s.now + d } [] h
      split <;> (try split) <;> simpa [timersLoop_popped] using this

theorem popWindow_firedOnTime (n : Nat) (s : St) (re : List HeapE) (h : FiredOnTime s) :
    FiredOnTime (popWindow n s re).1 := by
  unfold FiredOnTime; rw [popWindow_fired]; exact h

theorem outer_firedOnTime (s : St) (h : FiredOnTime s) : FiredOnTime (outer s) := by
  unfold FiredOnTime at h ⊢
  unfold outer
  simp only []
  split
  · exact h
  · split
    · have := timersLoop_fired (s.k.timers.length + 1) s h
      split <;> (try split) <;> simpa [FiredOnTime] using this
    · rename_i d _
      have h1 : FiredOnTime (popWindow s.k.heap.length { s with now := s.now + d } []).1 :=
        popWindow_firedOnTime _ _ _ (by simpa [FiredOnTime] using h)
      have := timersLoop_fired ((popWindow s.k.heap.length { s with now := s.now + d } []).1.k.timers.length + 1)
        { (popWindow s.k.heap.length { s with now := s.now + d } []).1 with
          k := { (popWindow s.k.heap.length { s with now := s.now + d } []).1.k with
                 heap := (popWindow s.k.heap.length { s with now := s.now + d } []).1.k.heap ++
                         (popWindow s.k.heap.length { s with now := s.now + d } []).2 } } h1
      split <;> (try split) <;> simpa [FiredOnTime] using this

theorem step_poppedDue (s : St) (h : PoppedDue s) : PoppedDue (step s) := by
  unfold step
  split
  · exact h
  · split
    · exact outer_poppedDue s h
    · unfold PoppedDue at h ⊢; simpa [subround] using h

theorem step_firedOnTime (s : St) (h : FiredOnTime s) : FiredOnTime (step s) := by
  unfold step
  split
  · exact h
  · split
    · exact outer_firedOnTime s h
    · unfold FiredOnTime at h ⊢; simpa [subround] using h

theorem run_poppedDue (n : Nat) (s : St) (h : PoppedDue s) : PoppedDue (run n s) := by
  induction n generalizing s with
  | zero => exact h
  | succ n ih => unfold run; exact ih _ (step_poppedDue s h)

theorem run_firedOnTime (n : Nat) (s : St) (h : FiredOnTime s) : FiredOnTime (run n s) := by
  induction n generalizing s with
  | zero => exact h
  | succ n ih => unfold run; exact ih _ (step_firedOnTime s h)

/-! ### `upd` (in-place update of the impl / actor tables) -/

theorem upd_length {α} (l : List α) (i : Nat) (f : α → α) : (upd l i f).length = l.length := by
  induction l generalizing i with
  | nil => rfl
  | cons x xs ih => cases i <;> simp [upd, ih]

theorem getD_upd_same {α} (l : List α) (i : Nat) (f : α → α) (d : α) (h : i < l.length) :
    (upd l i f).getD i d = f (l.getD i d) := by
  induction l generalizing i with
  | nil => simp at h
  | cons x xs ih =>
    cases i with
    | zero => simp [upd]
    | succ n => simp [upd]; simpa using ih n (by simpa using h)

theorem getD_upd_other {α} (l : List α) (i j : Nat) (f : α → α) (d : α) (h : i ≠ j) :
    (upd l i f).getD j d = l.getD j d := by
  induction l generalizing i j with
  | nil => simp [upd]
  | cons x xs ih =>
    cases i with
    | zero => cases j with
      | zero => exact absurd rfl h
      | succ m => simp [upd]
    | succ n => cases j with
      | zero => simp [upd]
      | succ m => simp [upd]; simpa using ih n m (by omega)


@[simp] theorem actor_setActor_same (k : K) (a : Nat) (f : Actor → Actor) (h : a < k.actors.length) :
    (k.setActor a f).actor a = f (k.actor a) := by
  unfold K.actor K.setActor; exact getD_upd_same _ _ _ _ h

@[simp] theorem impl_setImpl_same (k : K) (i : Nat) (f : Impl → Impl) (h : i < k.impls.length) :
    (k.setImpl i f).impl i = f (k.impl i) := by
  unfold K.impl K.setImpl; exact getD_upd_same _ _ _ _ h

@[simp] theorem impl_setActor (k : K) (a i : Nat) (f : Actor → Actor) : (k.setActor a f).impl i = k.impl i := rfl
@[simp] theorem actor_setImpl (k : K) (a i : Nat) (f : Impl → Impl) : (k.setImpl i f).actor a = k.actor a := rfl
@[simp] theorem setActor_actors_length (k : K) (a : Nat) (f : Actor → Actor) :
    (k.setActor a f).actors.length = k.actors.length := by simp [K.setActor, upd_length]
@[simp] theorem setImpl_actors (k : K) (i : Nat) (f : Impl → Impl) : (k.setImpl i f).actors = k.actors := rfl
@[simp] theorem setImpl_impls_length (k : K) (i : Nat) (f : Impl → Impl) :
    (k.setImpl i f).impls.length = k.impls.length := by simp [K.setImpl, upd_length]
@[simp] theorem setActor_impls (k : K) (a : Nat) (f : Actor → Actor) : (k.setActor a f).impls = k.impls := rfl

@[simp] theorem setActor_toRun (k : K) (a : Nat) (f : Actor → Actor) : (k.setActor a f).toRun = k.toRun := rfl
@[simp] theorem setActor_bad (k : K) (a : Nat) (f : Actor → Actor) : (k.setActor a f).bad = k.bad := rfl
@[simp] theorem setActor_heap (k : K) (a : Nat) (f : Actor → Actor) : (k.setActor a f).heap = k.heap := rfl
@[simp] theorem setActor_timers (k : K) (a : Nat) (f : Actor → Actor) : (k.setActor a f).timers = k.timers := rfl
@[simp] theorem setActor_failedQ (k : K) (a : Nat) (f : Actor → Actor) : (k.setActor a f).failedQ = k.failedQ := rfl
@[simp] theorem setActor_doneQ (k : K) (a : Nat) (f : Actor → Actor) : (k.setActor a f).doneQ = k.doneQ := rfl
@[simp] theorem setImpl_toRun (k : K) (i : Nat) (f : Impl → Impl) : (k.setImpl i f).toRun = k.toRun := rfl
@[simp] theorem setImpl_bad (k : K) (i : Nat) (f : Impl → Impl) : (k.setImpl i f).bad = k.bad := rfl
@[simp] theorem setImpl_heap (k : K) (i : Nat) (f : Impl → Impl) : (k.setImpl i f).heap = k.heap := rfl
@[simp] theorem setImpl_timers (k : K) (i : Nat) (f : Impl → Impl) : (k.setImpl i f).timers = k.timers := rfl
@[simp] theorem setImpl_failedQ (k : K) (i : Nat) (f : Impl → Impl) : (k.setImpl i f).failedQ = k.failedQ := rfl
@[simp] theorem setImpl_doneQ (k : K) (i : Nat) (f : Impl → Impl) : (k.setImpl i f).doneQ = k.doneQ := rfl

end SgVerif.TimeCore
