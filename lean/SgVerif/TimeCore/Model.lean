/-
TimeCore — executable model of the *time core* of SimGrid's maestro loop (DESIGN §7.2, layer L2 + kill time),
shared by C03 (monotone time, exact dates) and C12 (timed waits).  Core-only (compiled into the drivers).

Mirrors, function by function (C++ quoted next to each definition):
  src/kernel/EngineImpl.cpp        run (outer loop, sub-rounds, deadlock), solve (time part), handle_ended_actions
  src/kernel/timer/Timer.cpp       set / remove / execute_all
  src/kernel/resource/Action.cpp   ActionHeap, Action::cancel, Action::finish;  CpuModel/NetworkCm02Model::update_actions_state_lazy
  src/kernel/resource/models/cpu_cas01.cpp   CpuCas01::sleep (clamp to sg_precision_timing)
  src/kernel/activity/ActivityImpl.cpp   register/unregister_simcall, unregister_first_simcall, test, wait_for, wait_any_for, cancel
  src/kernel/activity/{Sleep,Exec,Io,Comm,Mess}Impl.cpp   start, finish, cancel, iput/iget
  src/kernel/actor/ActorImpl.cpp   sleep, set_kill_time, exit, kill, simcall_answer, cleanup_from_self
  src/s4u/s4u_{Activity,ActivitySet,Comm,Mess,Exec,Io,Actor}.cpp   the s4u-side state tests made before/after each simcall

Activities run in ISOLATION: an exec / host-to-host comm / disk write started by `X k kind d` uses resources that no
other activity uses, so its action completes `d` after its start (`d` is measured on the real platform by the
harness calibration).  Sharing is the business of the Lmm/Fluid models (C15..C21), not of this one.

The kernel state `K` contains neither the clock nor the log: kernel functions *read* `now` and cannot change it;
only `solveStep` advances the clock and only actor slices produce log events (stamped by `subround`).
-/
namespace SgVerif.TimeCore

/-! ## Programs -/

inductive Kind where
  | exec | comm | io | mget | mput | sleep
  deriving DecidableEq, Repr, Inhabited

def Kind.timed : Kind → Bool
  | .exec | .comm | .io | .sleep => true
  | _ => false

/-- one op of the mini-language = one call of the public S4U API by the actor -/
inductive Op where
  | sleep (d : Rat)                          -- this_actor::sleep_for(d)
  | start (slot : Nat) (kind : Kind) (d : Rat) -- Exec::init()..start() / Comm::sendto_async / Disk::io_init()->start()
  | mget (slot q : Nat)                      -- MessageQueue::get_async
  | mput (slot q : Nat)                      -- MessageQueue::put_async
  | wait (slot : Nat)                        -- Activity::wait()  (= wait_for(-1))
  | waitFor (slot : Nat) (tau : Rat)         -- Activity::wait_for(tau)
  | waitForCancel (slot : Nat) (tau : Rat)   -- Activity::wait_for_or_cancel(tau)
  | waitAny (tau : Rat) (slots : List Nat)   -- ActivitySet{slots}.wait_any_for(tau)   (tau < 0: no timeout)
  | test (slot : Nat)                        -- Activity::test()
  | killAt (t : Rat)                         -- Actor::self()->set_kill_time(t)
  deriving Repr, Inhabited

/-- unstamped observation made by an actor (the harness prints exactly these) -/
structure Ev where
  actor : Nat
  what : String
  val : String
  deriving DecidableEq, Repr, Inhabited

/-! ## Kernel state -/

/-- kernel::activity::State (the values reachable here) -/
inductive IState where
  | waiting | running | done | canceled | failed
  deriving DecidableEq, Repr, Inhabited

/-- `model_action_` of an activity: absent, or its resource::Action::State -/
inductive AState where
  | none | started | finished | failed
  deriving DecidableEq, Repr, Inhabited

structure Impl where
  kind : Kind
  st : IState
  act : AState := .none
  simcalls : List Nat := []     -- ActivityImpl::simcalls_ (issuers, FIFO)
  start : Rat := -1             -- start_time_  (-1: unset, as in ActivityImpl.hpp)
  finish : Rat := -1            -- finish_time_
  queue : Nat := 0              -- MessImpl::queue_
  owners : List Nat := []       -- the actors that hold it in ActorImpl::activities_
  deriving Repr, Inhabited

/-- entry of an ActionHeap.  `lat = true`: ActionHeap::Type::latency (network action still paying its latency);
`rem`: what remains to last once the latency is paid. -/
structure HeapE where
  impl : Nat
  date : Rat
  lat : Bool := false
  rem : Rat := 0
  full : Bool := false   -- action of a model updated with the FULL algorithm (disk): no heap, no precision window
  deriving Repr, Inhabited

inductive Cb where
  | kill (a : Nat)                       -- ActorImpl::set_kill_time lambda
  | wto (a : Nat) (i : Nat)              -- ActivityImpl::wait_for lambda
  | wany (a : Nat) (is : List Nat)       -- ActivityImpl::wait_any_for lambda
  deriving Repr, Inhabited

structure Timer where
  id : Nat
  date : Rat
  cb : Cb
  deriving Repr, Inhabited

/-- s4u::Activity::state_ as far as it decides whether a simcall is made -/
inductive SState where
  | started | finished | canceled
  deriving DecidableEq, Repr, Inhabited

/-- result left by the kernel for the blocked actor (observer result / exception_) -/
inductive Res where
  | none | timeout | rank (r : Nat) | tested (b : Bool) | cancelExc
  deriving DecidableEq, Repr, Inhabited

/-- kernel-side code of a simcall -/
inductive Req where
  | sleep (d : Rat)
  | start (slot : Nat) (kind : Kind) (d : Rat)
  | iget (slot q : Nat)
  | iput (slot q : Nat)
  | waitFor (i : Nat) (tau : Rat)
  | waitAny (is : List Nat) (tau : Rat)
  | test (i : Nat)
  | cancel (i : Nat)
  | killAt (t : Rat)
  deriving Repr, Inhabited

structure Actor where
  prog : List Op
  stage : Nat := 0              -- progress inside the head op (0: not begun, 1: first simcall issued, 2: second)
  alive : Bool := true          -- still in EngineImpl::actor_list_
  wannadie : Bool := false
  blocked : Bool := false       -- simcall_.call_ != NONE
  pending : Option Req := none  -- simcall issued during the last slice, not yet handled by maestro
  waiting : List Nat := []      -- waiting_synchros_
  tcb : Option Nat := none      -- simcall_.timeout_cb_
  ktimer : Option Nat := none   -- kill_timer_
  res : Res := .none
  slots : List (Nat × Nat × SState) := []   -- slot ↦ (impl, s4u state), most recent binding first
  anyList : List Nat := []      -- ActivityWaitanySimcall::get_activities() of the current simcall
  deriving Repr, Inhabited

structure K where
  impls : List Impl := []
  heap : List HeapE := []
  timers : List Timer := []
  nextT : Nat := 0
  actors : List Actor := []
  toRun : List Nat := []        -- actors_to_run_
  failedQ : List Nat := []      -- failed_action_set_ (impl ids), FIFO
  doneQ : List Nat := []        -- finished_action_set_, FIFO
  bad : Option String := none   -- an xbt_assert of the code fired / op outside the modelled fragment
  deriving Repr, Inhabited

/-! ## small list helpers -/

def upd {α} : List α → Nat → (α → α) → List α
  | [], _, _ => []
  | x :: xs, 0, f => f x :: xs
  | x :: xs, n+1, f => x :: upd xs n f

def K.impl (k : K) (i : Nat) : Impl := k.impls.getD i { kind := .exec, st := .failed }
def K.actor (k : K) (a : Nat) : Actor := k.actors.getD a { prog := [], alive := false }
def K.setImpl (k : K) (i : Nat) (f : Impl → Impl) : K := { k with impls := upd k.impls i f }
def K.setActor (k : K) (a : Nat) (f : Actor → Actor) : K := { k with actors := upd k.actors a f }

def Actor.slot (a : Actor) (s : Nat) : Option (Nat × SState) :=
  match a.slots.find? (fun x => x.1 == s) with
  | some (_, i, st) => some (i, st)
  | none => none

def Actor.setSlot (a : Actor) (s : Nat) (i : Nat) (st : SState) : Actor :=
  { a with slots := (s, i, st) :: a.slots.filter (fun x => x.1 != s) }

/-! ## Timers (Timer.cpp) -/

/-- `Timer::set(date, cb)` -/
def K.timerSet (k : K) (date : Rat) (cb : Cb) : K × Nat :=
  ({ k with timers := k.timers ++ [{ id := k.nextT, date := date, cb := cb }], nextT := k.nextT + 1 }, k.nextT)

/-- `Timer::remove()` -/
def K.timerRemove (k : K) (id : Nat) : K := { k with timers := k.timers.filter (fun t => t.id != id) }

/-! ## simcall bookkeeping (ActivityImpl.cpp, ActorImpl.cpp) -/

/-- `ActorImpl::simcall_answer`:  `simcall_.call_ = NONE; engine->add_actor_to_run_list_no_check(this)`
(the `xbt_assert(simcall_.call_ != NONE)` is modelled: answering an actor that is not in a simcall is `bad`) -/
def K.answer (k : K) (a : Nat) : K :=
  if (k.actor a).blocked then
    { k.setActor a (fun x => { x with blocked := false }) with toRun := k.toRun ++ [a] }
  else { k with bad := some "simcall_answer: actor is not in a simcall" }

/-- `ActivityImpl::register_simcall` -/
def K.register (k : K) (i a : Nat) : K :=
  (k.setImpl i (fun x => { x with simcalls := x.simcalls ++ [a] })).setActor a
    (fun x => { x with waiting := x.waiting ++ [i] })

/-- `ActivityImpl::unregister_simcall`: remove the *first* occurrence on both sides -/
def K.unregister (k : K) (i a : Nat) : K :=
  (k.setImpl i (fun x => { x with simcalls := x.simcalls.erase a })).setActor a
    (fun x => { x with waiting := x.waiting.erase i })

def rankOf (is : List Nat) (i : Nat) : Nat := is.findIdx (· == i)

/-- `ActivityImpl::unregister_first_simcall` for the front simcall `a` of impl `i`; returns whether the issuer is to be
answered (`nullptr` when it is not in a simcall or is dying). -/
def K.unregisterFirst (k : K) (i : Nat) (a : Nat) : K × Bool :=
  -- simcalls_.pop_front(); erase this from issuer->waiting_synchros_
  let k := (k.setImpl i (fun x => { x with simcalls := x.simcalls.drop 1 })).setActor a
    (fun x => { x with waiting := x.waiting.erase i })
  -- if (simcall->timeout_cb_) { simcall->timeout_cb_->remove(); simcall->timeout_cb_ = nullptr; }
  let k := match (k.actor a).tcb with
    | some t => (k.timerRemove t).setActor a (fun x => { x with tcb := none })
    | none => k
  -- waitany observer: unregister from every activity of the list, result = rank of this one
  let k := if (k.actor a).anyList.isEmpty then k else
    let l := (k.actor a).anyList
    let k := l.foldl (fun k j => k.unregister j a) k
    k.setActor a (fun x => { x with res := .rank (rankOf l i) })
  -- if (simcall->call_ == NONE) return nullptr;   if (issuer->wannadie()) return nullptr;
  if !(k.actor a).blocked then (k, false)
  else if (k.actor a).wannadie then (k, false)
  else (k, true)

/-- `XxxImpl::finish()`: final state from the action's state, `clean_action()`, removal from the message queue,
then answer every registered simcall (FIFO).  `fuel` = number of registered simcalls. -/
def K.finishLoop (k : K) (i : Nat) : Nat → K
  | 0 => k
  | n+1 =>
    match (k.impl i).simcalls with
    | [] => k
    | a :: _ =>
      let (k, ans) := k.unregisterFirst i a
      let k := if ans then
          -- issuer->activities_.erase(this); exception per state; issuer->simcall_answer()
          let k := k.setImpl i (fun x => { x with owners := x.owners.erase a })
          let k := if (k.impl i).st == .canceled then k.setActor a (fun x => { x with res := .cancelExc }) else k
          k.answer a
        else k
      k.finishLoop i n

def K.finish (k : K) (i : Nat) : K :=
  let im := k.impl i
  -- Exec/Io/Sleep: `if (model_action_ != nullptr) { FAILED -> CANCELED, else DONE; clean_action(); }`
  -- Comm: `else if (model_action_ && FAILED) LINK_FAILURE (not reachable: links never fail here) else if RUNNING -> DONE`
  -- Mess: `if RUNNING -> DONE`
  let st :=
    if im.kind.timed then
      (if im.act == .none then im.st else if im.act == .failed then .canceled else .done)
    else (if im.st == .running then .done else im.st)
  let k := k.setImpl i (fun x => { x with st := st, act := .none })
  -- clean_action(): the Action destructor leaves its state set and the heap
  let k := { k with heap := k.heap.filter (fun e => e.impl != i), failedQ := k.failedQ.erase i, doneQ := k.doneQ.erase i }
  k.finishLoop i (k.impl i).simcalls.length

/-- `ActivityImpl::cancel` (Exec, Io, Sleep), `CommImpl::cancel`, `MessImpl::cancel` -/
def K.cancel (k : K) (i : Nat) : K :=
  let im := k.impl i
  match im.kind with
  | .mget | .mput =>
    -- if (WAITING) { queue_->remove(this); set_state(CANCELED); }  then erase from src/dst activities_
    let k := if im.st == .waiting then k.setImpl i (fun x => { x with st := .canceled }) else k
    k.setImpl i (fun x => { x with owners := [] })
  | .comm =>
    -- host-to-host comm: `else if (READY || RUNNING) model_action_->cancel();`  (state unchanged until finish())
    let k := if im.st == .running && im.act != .none then
        { k.setImpl i (fun x => { x with act := .failed }) with
            heap := k.heap.filter (fun e => e.impl != i), doneQ := k.doneQ.erase i,
            failedQ := (k.failedQ.erase i) ++ [i] }
      else k
    k.setImpl i (fun x => { x with owners := [] })
  | _ =>
    -- if (model_action_) model_action_->cancel();  set_state(CANCELED);  actor_->activities_.erase(this)
    let k := if im.act != .none then
        { k.setImpl i (fun x => { x with act := .failed }) with
            heap := k.heap.filter (fun e => e.impl != i), doneQ := k.doneQ.erase i,
            failedQ := (k.failedQ.erase i) ++ [i] }
      else k
    k.setImpl i (fun x => { x with st := .canceled, owners := [] })

/-- `ActorImpl::exit()` (kernel side of a kill) -/
def K.exitLoop (k : K) (a : Nat) : Nat → K
  | 0 => k
  | n+1 =>
    match (k.actor a).waiting.reverse with
    | [] => k
    | i :: _ =>
      -- activity = waiting_synchros_.back(); pop_back(); cancel(); set_state(FAILED); finish(); activities_.erase
      let k := k.setActor a (fun x => { x with waiting := x.waiting.dropLast })
      let k := k.cancel i
      let k := k.setImpl i (fun x => { x with st := .failed })
      let k := k.finish i
      k.exitLoop a n

def K.ownedBy (k : K) (a : Nat) : List Nat :=
  (List.range k.impls.length).filter (fun i => (k.impl i).owners.contains a)

def K.exit (k : K) (a : Nat) : K :=
  let k := k.setActor a (fun x => { x with wannadie := true, res := .none })
  let k := k.exitLoop a (k.actor a).waiting.length
  -- while (not activities_.empty()) activities_.begin()->get()->cancel();
  (k.ownedBy a).foldl (fun k i => k.cancel i) k

/-- `EngineImpl::add_actor_to_run_list` (with the membership test) -/
def K.addToRun (k : K) (a : Nat) : K := if k.toRun.contains a then k else { k with toRun := k.toRun ++ [a] }

/-- `ActorImpl::kill(actor)` as called by maestro (deadlock) -/
def K.kill (k : K) (a : Nat) : K :=
  if (k.actor a).wannadie then k else (k.exit a).addToRun a

/-! ## the kernel side of each simcall -/

/-- `sg_precision_timing`; the harness runs with `--cfg=precision/timing:2^-30` (a dyadic value, exact lane) -/
def prec : Rat := 1 / 1073741824

/-- latency of the private link of a host-to-host comm (harness platform) -/
def linkLat : Rat := 1 / 1024

/-- `CpuCas01::sleep`:  `if (duration > 0) duration = std::max(duration, sg_precision_timing);` -/
def clampSleep (p d : Rat) : Rat := if d > 0 then (if d < p then p else d) else d

def K.newImpl (k : K) (im : Impl) : K × Nat := ({ k with impls := k.impls ++ [im] }, k.impls.length)

/-- first message of the wanted kind waiting in queue `q` (`MessageQueueImpl::find_matching_message`): the queue
holds, in arrival order, exactly the WAITING mess impls of that queue -/
def K.findMatch (k : K) (q : Nat) (want : Kind) : Option Nat :=
  (List.range k.impls.length).find? (fun i =>
    let im := k.impl i
    im.kind == want && im.st == .waiting && im.queue == q)

def K.handle (now : Rat) (k : K) (a : Nat) (r : Req) : K :=
  match r with
  | .sleep d =>
    -- ActorImpl::sleep -> SleepImpl::start -> CpuCas01::sleep(duration); sync->register_simcall(&issuer->simcall_)
    let (k, i) := k.newImpl { kind := .sleep, st := .running, act := .started, start := now }
    let k := { k with heap := k.heap ++ [({ impl := i, date := now + clampSleep prec d } : HeapE)] }
    k.register i a
  | .start slot kind d =>
    -- ExecImpl::start / IoImpl::start / CommImpl::start: model action created, state RUNNING, start time = now
    -- a host-to-host comm (`Comm::sendto_async`) is detached at the impl level (`sendto_init`: `pimpl_->detach()`): it
    -- belongs to maestro's activities_, not to the actor's: it is NOT canceled when the actor terminates
    let (k, i) := k.newImpl { kind := kind, st := .running, act := .started, start := now,
                              owners := if kind == .comm then [] else [a] }
    let e : HeapE := if kind == .comm then { impl := i, date := now + linkLat, lat := true, rem := d - linkLat }
                     else { impl := i, date := now + d, full := kind == .io }
    let k := { k with heap := k.heap ++ [e] }
    (k.setActor a (fun x => x.setSlot slot i .started)).answer a
  | .iget slot q =>
    -- MessImpl::iget: match a waiting PUT or push a new GET; start(): READY -> RUNNING -> finish()
    match k.findMatch q .mput with
    | some j =>
      let k := k.setImpl j (fun x => { x with st := .running, owners := x.owners ++ [a] })
      let k := k.finish j
      (k.setActor a (fun x => x.setSlot slot j .started)).answer a
    | none =>
      let (k, i) := k.newImpl { kind := .mget, st := .waiting, queue := q, owners := [a] }
      (k.setActor a (fun x => x.setSlot slot i .started)).answer a
  | .iput slot q =>
    match k.findMatch q .mget with
    | some j =>
      let k := k.setImpl j (fun x => { x with st := .running, owners := x.owners ++ [a] })
      let k := k.finish j
      (k.setActor a (fun x => x.setSlot slot j .started)).answer a
    | none =>
      let (k, i) := k.newImpl { kind := .mput, st := .waiting, queue := q, owners := [a] }
      (k.setActor a (fun x => x.setSlot slot i .started)).answer a
  | .waitFor i tau =>
    -- ActivityImpl::wait_for: register; already finished -> finish(); else if (timeout >= 0) timer at now+timeout
    let k := k.register i a
    let st := (k.impl i).st
    if st != .waiting && st != .running then k.finish i
    else if tau >= 0 then
      let (k, t) := k.timerSet (now + tau) (.wto a i)
      k.setActor a (fun x => { x with tcb := some t })
    else k
  | .waitAny is tau =>
    -- ActivityImpl::wait_any_for: the timer is set FIRST, then each activity is registered until one is found finished
    let k := k.setActor a (fun x => { x with anyList := is })
    let k := if tau < 0 then k.setActor a (fun x => { x with tcb := none })
      else
        let (k, t) := k.timerSet (now + tau) (.wany a is)
        k.setActor a (fun x => { x with tcb := some t })
    let rec go (k : K) : List Nat → K
      | [] => k
      | i :: rest =>
        let k := k.register i a
        let st := (k.impl i).st
        if st != .waiting && st != .running then k.finish i else go k rest
    go k is
  | .test i =>
    -- ActivityImpl::test: finished -> finish(), true; else false.  simcall_answered
    let st := (k.impl i).st
    let k := if st != .waiting && st != .running then
        (k.finish i).setActor a (fun x => { x with res := .tested true })
      else k.setActor a (fun x => { x with res := .tested false })
    k.answer a
  | .cancel i =>
    -- Activity::cancel: simcall_answered([this] { pimpl_->cancel(); })
    (k.cancel i).answer a
  | .killAt t =>
    -- ActorImpl::set_kill_time: if (kill_time <= now) return; kill_timer_ = Timer::set(kill_time, ...)
    let k := if t <= now then k else
      let (k, id) := k.timerSet t (.kill a)
      k.setActor a (fun x => { x with ktimer := some id })
    k.answer a

/-- `EngineImpl::handle_ended_actions`: failed actions first, then the terminated ones (finish time = the action's);
`fuel` = |failedQ| + |doneQ| -/
def K.handleEnded (now : Rat) (k : K) : Nat → K
  | 0 => k
  | n+1 =>
    match k.failedQ with
    | i :: _ => (k.finish i).handleEnded now n      -- finish() removes i from failedQ (clean_action)
    | [] =>
      match k.doneQ with
      | i :: _ =>
        -- activity->set_finish_time(action->get_finish_time()): Action::finish stamped it at the pop, i.e. `now`
        ((k.setImpl i (fun x => { x with finish := now })).finish i).handleEnded now n
      | [] => k

def K.handleEndedAll (now : Rat) (k : K) : K := k.handleEnded now (k.failedQ.length + k.doneQ.length)

/-! ## actor slices (user side: the s4u calls) -/

def showRat (r : Rat) : String := if r.den == 1 then toString r.num else s!"{r.num}/{r.den}"

/-- `ActorImpl::cleanup_from_self`: on_exit callbacks, cancel the remaining activities_, remove kill timer and
timeout timer; then (cleanup_from_kernel) the actor leaves actor_list_. -/
def K.die (k : K) (a : Nat) (failed : Bool) : K × List Ev :=
  let k := (k.ownedBy a).foldl (fun k i => k.cancel i) k
  let k := match (k.actor a).ktimer with
    | some t => (k.timerRemove t).setActor a (fun x => { x with ktimer := none })
    | none => k
  let k := match (k.actor a).tcb with
    | some t => (k.timerRemove t).setActor a (fun x => { x with tcb := none })
    | none => k
  (k.setActor a (fun x => { x with alive := false, wannadie := true, blocked := false, pending := none, prog := [] }),
   [{ actor := a, what := if failed then "killed" else "end", val := "-" }])

/-- issue a simcall: the slice ends here -/
def K.issue (k : K) (a : Nat) (r : Req) (_blocking : Bool) : K :=
  k.setActor a (fun x => { x with pending := some r, blocked := true, stage := x.stage + 1, res := .none })

def timesEv (k : K) (a slot i : Nat) : List Ev :=
  let im := k.impl i
  if im.kind == .exec || im.kind == .comm || im.kind == .io then
    [{ actor := a, what := "times", val := s!"{slot},{showRat im.start},{showRat im.finish}" }]
  else []

/-- run actor `a` until its next simcall (or its end).  `fuel` bounds the number of ops completed locally. -/
def K.slice (k : K) (a : Nat) : Nat → List Ev → K × List Ev
  | 0, evs => (k, evs)
  | fuel+1, evs =>
    let ac := k.actor a
    let next (k : K) (e : List Ev) : K × List Ev :=
      (k.setActor a (fun x => { x with prog := x.prog.drop 1, stage := 0, res := .none, anyList := [] })).slice a fuel (evs ++ e)
    let stop (k : K) (e : List Ev) : K × List Ev := (k, evs ++ e)
    let mk (w v : String) : List Ev := [{ actor := a, what := w, val := v }]
    match ac.prog with
    | [] => let (k, e) := k.die a false; (k, evs ++ e)
    | op :: _ =>
      match op, ac.stage with
      | .sleep d, 0 =>
        -- s4u sleep_for: `if (duration <= 0) return;`
        if d <= 0 then next k (mk "slept" "-") else stop (k.issue a (.sleep d) true) []
      | .sleep _, _ => next k (mk "slept" "-")
      | .start s kind d, 0 =>
        if d < 0 || (kind == .comm && d <= linkLat) || !kind.timed || kind == .sleep then
          stop { k with bad := some "start: outside the modelled fragment" } []
        else stop (k.issue a (.start s kind d) false) []
      | .start s _ _, _ => next k (mk "started" (toString s))
      | .mget s q, 0 => stop (k.issue a (.iget s q) false) []
      | .mget s _, _ => next k (mk "started" (toString s))
      | .mput s q, 0 => stop (k.issue a (.iput s q) false) []
      | .mput s _, _ => next k (mk "started" (toString s))
      | .killAt t, 0 => stop (k.issue a (.killAt t) false) []
      | .killAt _, _ => next k (mk "killat" "-")
      | .test s, 0 =>
        match ac.slot s with
        | none => stop { k with bad := some "test: unbound slot" } []
        | some (i, st) =>
          -- Activity::test: `if (CANCELED || FINISHED || FAILED) return true;` else one simcall
          if st != .started then next k (mk "test" s!"{s},1") else stop (k.issue a (.test i) false) []
      | .test s, _ =>
        match ac.slot s, ac.res with
        | some (i, _), .tested true =>
          next (k.setActor a (fun x => x.setSlot s i .finished)) (mk "test" s!"{s},1")
        | _, _ => next k (mk "test" s!"{s},0")
      | .wait s, st => waitOp k a s (-1) false st ac next stop mk
      | .waitFor s tau, st => waitOp k a s tau false st ac next stop mk
      | .waitForCancel s tau, st => waitOp k a s tau true st ac next stop mk
      | .waitAny tau ss, 0 =>
        let is := ss.map (fun s => (ac.slot s).map (·.1))
        if is.any (·.isNone) || ss.isEmpty then stop { k with bad := some "waitAny: unbound slot / empty set" } []
        else if ss.any (fun s => (ac.slot s).map (·.2) == some .canceled) then
          stop { k with bad := some "waitAny on a canceled activity: outside the modelled fragment" } []
        else stop (k.issue a (.waitAny (is.filterMap id) tau) true) []
      | .waitAny _ ss, _ =>
        match ac.res with
        | .rank r =>
          -- `auto ret = activities_.at(changed_pos); ret->complete(FINISHED)`
          match ss[r]? with
          | some s =>
            let i := ((ac.slot s).map (·.1)).getD 0
            next (k.setActor a (fun x => x.setSlot s i .finished)) (mk "any" (toString s))
          | none => stop { k with bad := some "waitAny: rank out of range" } []
        | _ => next k (mk "any" "timeout")
where
  /-- wait / wait_for / wait_for_or_cancel on slot `s` -/
  waitOp (k : K) (a s : Nat) (tau : Rat) (orCancel : Bool) (stage : Nat) (ac : Actor)
      (next stop : K → List Ev → K × List Ev) (mk : String → String → List Ev) : K × List Ev :=
    match ac.slot s with
    | none => stop { k with bad := some "wait: unbound slot" } []
    | some (i, st) =>
      let okEvs := mk "wait" s!"{s},ok" ++ timesEv k a s i ++ (if orCancel then mk "state" s!"{s},FINISHED" else [])
      match stage with
      | 0 =>
        if st == .canceled then stop { k with bad := some "wait on a canceled activity: outside the modelled fragment" } []
        -- the harness (like ActivitySet) holds `ActivityPtr`s: `Activity::wait_for` is NOT virtual, so the base version
        -- runs for every kind (the Comm/Mess overrides, which skip the simcall when FINISHED, are not reached):
        -- always one blocking simcall; on a finished activity it is answered at once by `finish()`
        else stop (k.issue a (.waitFor i tau) true) []
      | 1 =>
        match ac.res with
        | .timeout =>
          if orCancel then
            -- wait_for_or_cancel: `catch (TimeoutException) { cancel(); throw }`: a second simcall
            stop (k.issue a (.cancel i) false) []
          else next k (mk "wait" s!"{s},timeout")
        | .cancelExc => next k (mk "wait" s!"{s},cancel")
        | _ => next (k.setActor a (fun x => x.setSlot s i .finished)) okEvs
      | _ =>
        -- after the cancel() simcall: complete(State::CANCELED)
        next (k.setActor a (fun x => x.setSlot s i .canceled)) (mk "wait" s!"{s},timeout" ++ mk "state" s!"{s},CANCELED")

/-! ## the maestro loop (EngineImpl::run / solve) -/

structure St where
  now : Rat := 0
  log : List (Rat × Ev) := []
  k : K := {}
  ties : List Nat := []        -- oracle resolving the equal-date choices the code leaves to its heaps
  arities : List Nat := []     -- arity of every choice point passed (most recent first); used by the driver's search
  choiceAt : List Nat := []    -- length of the log when each of these choices was made (prunes the driver's search)
  done : Bool := false
  fired : List (Rat × Timer) := []    -- ghost: (clock, timer) for every timer callback executed
  popped : List (Rat × HeapE) := []   -- ghost: (clock, entry) for every action completed / latency paid by update_actions_state
  deriving Repr, Inhabited

/-- choose one of `n ≥ 1` candidates -/
def pick (n : Nat) (s : St) : Nat × St :=
  if n ≤ 1 then (0, s) else
  match s.ties with
  | [] => (0, { s with arities := n :: s.arities, choiceAt := s.log.length :: s.choiceAt })
  | t :: ts => (t % n, { s with ties := ts, arities := n :: s.arities, choiceAt := s.log.length :: s.choiceAt })

def removeNth {α} : List α → Nat → List α
  | [], _ => []
  | _ :: xs, 0 => xs
  | x :: xs, n+1 => x :: removeNth xs n

/-- `run_all_actors`: every actor of actors_to_run_ runs until its next simcall; a dying actor runs its on_exit
functions (`ActorImpl::yield`: `if (wannadie()) context_->stop()`). -/
def runAll (k : K) : List Nat → List Ev → K × List Ev
  | [], evs => (k, evs)
  | a :: rest, evs =>
    let ac := k.actor a
    let (k, e) := if ac.wannadie then (if ac.alive then k.die a true else (k, []))
                  else k.slice a (ac.prog.length + 1) []
    runAll k rest (evs ++ e)

/-- `for (actor : actors_that_ran_) if (actor->simcall_.call_ != NONE) actor->simcall_handle(0);` -/
def handlePending (now : Rat) (k : K) : List Nat → K
  | [] => k
  | a :: rest =>
    match (k.actor a).pending with
    | some r =>
      let k := k.setActor a (fun x => { x with pending := none })
      -- simcall_handle: `if (wannadie()) return;`
      let k := if (k.actor a).wannadie then k else k.handle now a r
      handlePending now k rest
    | none => handlePending now k rest

/-- one sub-scheduling round: run_all_actors; handle the simcalls in order; handle_ended_actions -/
def subround (s : St) : St :=
  let ran := s.k.toRun
  let (k, evs) := runAll { s.k with toRun := [] } ran []
  let k := handlePending s.now k ran
  let k := k.handleEndedAll s.now
  { s with k := k, log := s.log ++ evs.map (fun e => (s.now, e)) }

def minDate : List Rat → Option Rat
  | [] => none
  | d :: ds => match minDate ds with
    | none => some d
    | some m => some (if d < m then d else m)

def ratAbs (x : Rat) : Rat := if x < 0 then -x else x

/-- `double_equals(a, b, precision)`: `fabs(a - b) < precision` -/
def dblEq (a b p : Rat) : Bool := ratAbs (a - b) < p

/-- `time_delta` of `EngineImpl::solve(next_time)` (`none` = -1: no next event at all).
`tnext` = Timer::next(); heap top = ActionHeap::top_date() of the (isolated) models.
`time_delta = max_date - now_` (after `xbt_assert(max_date >= now_)`), then for each model
`if ((time_delta < 0 || next_event < time_delta) && next_event >= 0) time_delta = next_event`. -/
def timeDelta (now : Rat) (tnext top : Option Rat) : Option Rat :=
  let d0 := tnext.map (· - now)
  match top.map (· - now) with
  | none => d0
  | some n =>
    if n ≥ 0 then
      match d0 with
      | none => some n
      | some d => if n < d then some n else some d
    else d0

/-- is this action completed (or its latency paid) by `update_actions_state(now)`?
* LAZY models (cpu, network — `Cpu/NetworkCm02Model::update_actions_state_lazy`):
  `while (not heap.empty() && double_equals(heap.top_date(), now, sg_precision_timing)) { pop; … }`
  i.e. every entry within the timing precision of `now` (entries are never in the past: `heap_dates_future`).
* FULL model (disk — `DiskS19Model::update_actions_state`): `update_remains(rint(rate * delta)); if (remains <= 0) finish`
  i.e. exactly when the whole duration has elapsed: no precision window. -/
def HeapE.due (e : HeapE) (now : Rat) : Bool := if e.full then e.date ≤ now else dblEq e.date now prec

/-- `model->update_actions_state(now_, delta)` for every model.  The order in which the due actions are finished
(heap order among equal dates, order of the models, order of the started set) is a CHOICE.  A latency entry is
re-armed (`relist`) with the date `now + rem`; a normal entry finishes: `action->finish(FINISHED)` moves it to the
finished set. -/
def popWindow : Nat → St → List HeapE → St × List HeapE
  | 0, s, re => (s, re)
  | n+1, s, re =>
    let idx := (List.range s.k.heap.length).filter (fun j => (s.k.heap.getD j default).due s.now)
    if idx.isEmpty then (s, re) else
    let (c, s) := pick idx.length s
    match idx[c]? with
    | none => (s, re)          -- unreachable: `pick n` answers below `n`
    | some j =>
    let e := s.k.heap.getD j default
    let k := { s.k with heap := removeNth s.k.heap j }
    let s := { s with popped := s.popped ++ [(s.now, e)] }
    if e.lat then
      popWindow n { s with k := k } (re ++ [{ e with lat := false, date := s.now + e.rem }])
    else
      let k := { k.setImpl e.impl (fun x => { x with act := .finished }) with doneQ := k.doneQ ++ [e.impl] }
      popWindow n { s with k := k } re

/-- timer callbacks -/
def K.fire (k : K) (t : Timer) : K :=
  match t.cb with
  | .kill a =>
    -- `this->exit(); kill_timer_ = nullptr; add_actor_to_run_list(this);`
    ((k.exit a).setActor a (fun x => { x with ktimer := none })).addToRun a
  | .wto a i =>
    -- `issuer->simcall_.timeout_cb_ = nullptr;
    --  if (model_action_ && (state == FINISHED || state == FAILED)) return; // terminated right on time
    --  unregister_simcall; set_result(true); issuer->simcall_answer();`
    let k := k.setActor a (fun x => { x with tcb := none })
    let im := k.impl i
    if im.act == .finished || im.act == .failed then k
    else ((k.unregister i a).setActor a (fun x => { x with res := .timeout })).answer a
  | .wany a is =>
    -- `timeout_cb_ = nullptr; for (act : activities) act->unregister_simcall(...); issuer->simcall_answer();` (result -1)
    let k := k.setActor a (fun x => { x with tcb := none })
    let k := is.foldl (fun k j => k.unregister j a) k
    (k.setActor a (fun x => { x with res := .timeout })).answer a

/-- `Timer::execute_all`: `while (not empty && now >= top().first) { pop; callback(); }`; which of the timers of
minimal date is on top is a CHOICE (fibonacci heap). -/
def execAll : Nat → St → Bool → St × Bool
  | 0, s, r => (s, r)
  | n+1, s, r =>
    match minDate (s.k.timers.map (·.date)) with
    | none => (s, r)
    | some top =>
      if s.now < top then (s, r) else
      let idx := (List.range s.k.timers.length).filter (fun j => (s.k.timers.getD j default).date == top)
      let (c, s) := pick idx.length s
      match idx[c]? with
      | none => (s, r)         -- unreachable: `pick n` answers below `n`
      | some j =>
      let t := s.k.timers.getD j default
      let k := { s.k with timers := removeNth s.k.timers j }
      execAll n { s with k := k.fire t, fired := s.fired ++ [(s.now, t)] } true

/-- `do { again = Timer::execute_all(); handle_ended_actions(); } while (again);` -/
def timersLoop : Nat → St → St
  | 0, s => s
  | n+1, s =>
    let (s, again) := execAll s.k.timers.length s false
    let s := { s with k := s.k.handleEndedAll s.now }
    if again then timersLoop n s else s

def K.alive (k : K) : List Nat := (List.range k.actors.length).filter (fun a => (k.actor a).alive)

/-- one iteration of the outer loop of `EngineImpl::run` once actors_to_run_ is empty:
solve (advance the clock, update the actions), timers, ended actions, deadlock detection, loop condition. -/
def outer (s : St) : St :=
  let tnext := minDate (s.k.timers.map (·.date))
  match (match tnext with | some t => decide (t < s.now) | none => false) with
  | true => { s with k := { s.k with bad := some "solve: xbt_assert(max_date >= now_)" } }
  | false =>
  let delta := timeDelta s.now tnext (minDate (s.k.heap.map (·.date)))
  -- `if (time_delta < 0) return -1.0;`  else  `now_ += time_delta; model->update_actions_state(now_, time_delta)`
  let s := match delta with
    | none => s
    | some d =>
      let s := { s with now := s.now + d }
      let (s, re) := popWindow s.k.heap.length s []
      { s with k := { s.k with heap := s.k.heap ++ re } }
  let s := timersLoop (s.k.timers.length + 1) s
  -- deadlock: `if (elapsed_time < 0 && actors_to_run_.empty() && not actor_list_.empty())` kill every actor (pid order)
  let s := if delta.isNone && s.k.toRun.isEmpty && !s.k.alive.isEmpty then
      { s with k := s.k.alive.foldl (fun k a => k.kill a) s.k }
    else s
  -- `while (elapsed_time > -1.0 || has_actors_to_run())`
  if delta.isNone && s.k.toRun.isEmpty then { s with done := true } else s

def step (s : St) : St :=
  if s.done || s.k.bad.isSome then s
  else if s.k.toRun.isEmpty then outer s else subround s

def run : Nat → St → St
  | 0, s => s
  | n+1, s => run n (step s)

/-- initial state: one actor per program, all in actors_to_run_ in creation (pid) order, clock 0 -/
def initSt (progs : List (List Op)) (ties : List Nat) : St :=
  { k := { actors := progs.map (fun p => { prog := p }), toRun := List.range progs.length }, ties := ties }

end SgVerif.TimeCore
