import SgVerif.TimeCore.Frame
/-
Date invariants of every reachable state of the time-core model:
  * no pending timer and no pending action (heap entry) is in the past;
  * every timer callback is executed at a clock EXACTLY equal to its date (`timer_exact`);
  * start ≤ finish ≤ now for every activity (`activity_order`).
-/
namespace SgVerif.TimeCore

structure DInv (now : Rat) (k : K) : Prop where
  tim : ∀ t ∈ k.timers, now ≤ t.date
  heap : ∀ e ∈ k.heap, now ≤ e.date ∧ (e.lat = true → 0 ≤ e.rem)
  ord : ∀ im ∈ k.impls, im.start ≤ now ∧ (im.finish = -1 ∨ (im.start ≤ im.finish ∧ im.finish ≤ now))
  pend : ∀ a r, (k.actor a).pending = some r → ReqOk r

/-- `k'` extends `k` at clock `now`: new timers / heap entries are not in the past, new impls start now or are unset -/
structure Ext (now : Rat) (k k' : K) : Prop where
  tim : ∀ t ∈ k'.timers, t ∈ k.timers ∨ now ≤ t.date
  heap : ∀ e ∈ k'.heap, e ∈ k.heap ∨ (now ≤ e.date ∧ (e.lat = true → 0 ≤ e.rem))
  ord : ∀ im ∈ k'.impls, (∃ im0 ∈ k.impls, im.start = im0.start ∧ im.finish = im0.finish) ∨
          (im.start ≤ now ∧ im.finish = -1)
  pend : ∀ a, PendFr (k.actor a).pending (k'.actor a).pending

theorem Ext.refl (now : Rat) (k : K) : Ext now k k :=
  ⟨fun _ h => Or.inl h, fun _ h => Or.inl h, fun im h => Or.inl ⟨im, h, rfl, rfl⟩, fun _ => Or.inl rfl⟩

theorem Ext.trans {now : Rat} {k1 k2 k3 : K} (h1 : Ext now k1 k2) (h2 : Ext now k2 k3) : Ext now k1 k3 := by
  refine ⟨?_, ?_, ?_, fun a => (h1.pend a).trans (h2.pend a)⟩
  · intro t ht
    rcases h2.tim t ht with h | h
    · exact h1.tim t h
    · exact Or.inr h
  · intro e he
    rcases h2.heap e he with h | h
    · exact h1.heap e h
    · exact Or.inr h
  · intro im him
    rcases h2.ord im him with ⟨im0, h0, hs, hf⟩ | h
    · rcases h1.ord im0 h0 with ⟨im1, h1', hs1, hf1⟩ | h
      · exact Or.inl ⟨im1, h1', hs.trans hs1, hf.trans hf1⟩
      · exact Or.inr ⟨by rw [hs]; exact h.1, by rw [hf]; exact h.2⟩
    · exact Or.inr h

theorem Shr.ext {k k' : K} (now : Rat) (h : Shr k k') : Ext now k k' := by
  refine ⟨fun t ht => Or.inl (h.timers.subset ht), fun e he => Or.inl (h.heap.subset he), ?_, h.pend⟩
  intro im him
  have : im.sfk ∈ k'.impls.map Impl.sfk := List.mem_map.mpr ⟨im, him, rfl⟩
  rw [h.sfk] at this
  obtain ⟨im0, h0, he⟩ := List.mem_map.mp this
  unfold Impl.sfk at he
  injection he with _ h2
  injection h2 with h2 h3
  exact Or.inl ⟨im0, h0, h2.symm, h3.symm⟩

theorem DInv.ext {now : Rat} {k k' : K} (h : DInv now k) (e : Ext now k k') : DInv now k' := by
  refine ⟨?_, ?_, ?_, ?_⟩
  · intro t ht
    rcases e.tim t ht with h1 | h1
    · exact h.tim t h1
    · exact h1
  · intro x hx
    rcases e.heap x hx with h1 | h1
    · exact h.heap x h1
    · exact h1
  · intro im him
    rcases e.ord im him with ⟨im0, h0, hs, hf⟩ | h1
    · rw [hs, hf]; exact h.ord im0 h0
    · exact ⟨h1.1, Or.inl h1.2⟩
  · intro a r hr
    rcases e.pend a with h1 | h1 | ⟨r', h1, h2⟩
    · rw [h1] at hr; exact h.pend a r hr
    · rw [h1] at hr; cases hr
    · rw [h1] at hr; injection hr with hr; subst hr; exact h2

theorem DInv.shr {now : Rat} {k k' : K} (h : DInv now k) (s : Shr k k') : DInv now k' := h.ext (s.ext now)

/-! ### the creation sites -/

theorem ext_newImpl (now : Rat) (k : K) (im : Impl) (hs : im.start ≤ now) (hf : im.finish = -1) :
    Ext now k (k.newImpl im).1 := by
  refine ⟨fun _ h => Or.inl h, fun _ h => Or.inl h, ?_, fun _ => Or.inl rfl⟩
  intro x hx
  simp only [K.newImpl, List.mem_append, List.mem_singleton] at hx
  rcases hx with hx | hx
  · exact Or.inl ⟨x, hx, rfl, rfl⟩
  · subst hx; exact Or.inr ⟨hs, hf⟩

theorem ext_heapPush (now : Rat) (k : K) (e : HeapE) (hd : now ≤ e.date) (hl : e.lat = true → 0 ≤ e.rem) :
    Ext now k { k with heap := k.heap ++ [e] } := by
  refine ⟨fun _ h => Or.inl h, ?_, fun im h => Or.inl ⟨im, h, rfl, rfl⟩, fun _ => Or.inl rfl⟩
  intro x hx
  simp only [List.mem_append, List.mem_singleton] at hx
  rcases hx with hx | hx
  · exact Or.inl hx
  · subst hx; exact Or.inr ⟨hd, hl⟩

theorem ext_timerSet (now : Rat) (k : K) (d : Rat) (cb : Cb) (hd : now ≤ d) : Ext now k (k.timerSet d cb).1 := by
  refine ⟨?_, fun _ h => Or.inl h, fun im h => Or.inl ⟨im, h, rfl, rfl⟩, fun _ => Or.inl rfl⟩
  intro x hx
  simp only [K.timerSet, List.mem_append, List.mem_singleton] at hx
  rcases hx with hx | hx
  · exact Or.inl hx
  · subst hx; exact Or.inr hd

theorem shr_handle_go (a : Nat) (l : List Nat) (k : K) : Shr k (K.handle.go a k l) := by
  induction l generalizing k with
  | nil => unfold K.handle.go; exact Shr.refl k
  | cons i rest ih =>
    unfold K.handle.go
    simp only []
    split
    · exact (shr_register k i a).trans (shr_finish _ i)
    · exact (shr_register k i a).trans (ih _)

theorem clampSleep_pos (d : Rat) (h : 0 < d) : 0 ≤ clampSleep prec d := by
  unfold clampSleep prec; split <;> (try split) <;> grind

theorem handle_ext (now : Rat) (k : K) (a : Nat) (r : Req) (h0 : 0 ≤ now) (hr : ReqOk r) :
    Ext now k (k.handle now a r) := by
  have hp : (0 : Rat) < prec := by unfold prec; grind
  have hl : (0 : Rat) < linkLat := by unfold linkLat; grind
  have hm : (-1 : Rat) ≤ now := by grind
  cases r with
  | sleep d =>
    simp only [K.handle]
    refine Ext.trans ?_ (Shr.ext now (shr_register _ _ _))
    refine Ext.trans (ext_newImpl now k _ (Rat.le_refl) rfl) (ext_heapPush now _ _ ?_ ?_)
    · have := clampSleep_pos d hr; simp only; grind
    · intro h; cases h
  | start slot kind d =>
    simp only [K.handle]
    refine Ext.trans ?_ (Shr.ext now (shr_answer _ _))
    refine Ext.trans ?_ (Shr.ext now (shr_setActor _ _ _ (by intro _; exact Or.inl rfl)))
    refine Ext.trans (ext_newImpl now k _ (Rat.le_refl) rfl) (ext_heapPush now _ _ ?_ ?_)
    · obtain ⟨h1, h2⟩ := hr
      split
      · simp only; grind
      · simp only; grind
    · obtain ⟨h1, h2⟩ := hr
      split
      · rename_i hc; intro _; have := h2 (by simpa using hc); simp only; grind
      · intro h; cases h
  | iget slot q =>
    simp only [K.handle]
    split
    · refine Ext.trans ?_ (Shr.ext now (shr_answer _ _))
      refine Ext.trans ?_ (Shr.ext now (shr_setActor _ _ _ (by intro _; exact Or.inl rfl)))
      refine Ext.trans ?_ (Shr.ext now (shr_finish _ _))
      exact Shr.ext now (shr_setImpl _ _ _ (by intro _; rfl))
    · refine Ext.trans ?_ (Shr.ext now (shr_answer _ _))
      refine Ext.trans ?_ (Shr.ext now (shr_setActor _ _ _ (by intro _; exact Or.inl rfl)))
      exact ext_newImpl now k _ hm rfl
  | iput slot q =>
    simp only [K.handle]
    split
    · refine Ext.trans ?_ (Shr.ext now (shr_answer _ _))
      refine Ext.trans ?_ (Shr.ext now (shr_setActor _ _ _ (by intro _; exact Or.inl rfl)))
      refine Ext.trans ?_ (Shr.ext now (shr_finish _ _))
      exact Shr.ext now (shr_setImpl _ _ _ (by intro _; rfl))
    · refine Ext.trans ?_ (Shr.ext now (shr_answer _ _))
      refine Ext.trans ?_ (Shr.ext now (shr_setActor _ _ _ (by intro _; exact Or.inl rfl)))
      exact ext_newImpl now k _ hm rfl
  | waitFor i tau =>
    simp only [K.handle]
    split
    · exact Shr.ext now ((shr_register _ _ _).trans (shr_finish _ _))
    · split
      · rename_i ht
        refine Ext.trans ?_ (Shr.ext now (shr_setActor _ _ _ (by intro _; exact Or.inl rfl)))
        refine Ext.trans (Shr.ext now (shr_register _ _ _)) (ext_timerSet now _ _ _ ?_)
        grind
      · exact Shr.ext now (shr_register _ _ _)
  | waitAny is tau =>
    simp only [K.handle]
    refine Ext.trans ?_ (Shr.ext now (shr_handle_go _ _ _))
    split
    · exact Shr.ext now ((shr_setActor _ _ _ (by intro _; exact Or.inl rfl)).trans
        (shr_setActor _ _ _ (by intro _; exact Or.inl rfl)))
    · rename_i ht
      refine Ext.trans ?_ (Shr.ext now (shr_setActor _ _ _ (by intro _; exact Or.inl rfl)))
      refine Ext.trans (Shr.ext now (shr_setActor _ _ _ (by intro _; exact Or.inl rfl))) (ext_timerSet now _ _ _ ?_)
      grind
  | test i =>
    simp only [K.handle]
    refine Ext.trans ?_ (Shr.ext now (shr_answer _ _))
    split
    · exact Shr.ext now ((shr_finish _ _).trans (shr_setActor _ _ _ (by intro _; exact Or.inl rfl)))
    · exact Shr.ext now (shr_setActor _ _ _ (by intro _; exact Or.inl rfl))
  | cancel i =>
    simp only [K.handle]
    exact Shr.ext now ((shr_cancel _ _).trans (shr_answer _ _))
  | killAt t =>
    simp only [K.handle]
    refine Ext.trans ?_ (Shr.ext now (shr_answer _ _))
    split
    · exact Ext.refl now k
    · rename_i ht
      refine Ext.trans ?_ (Shr.ext now (shr_setActor _ _ _ (by intro _; exact Or.inl rfl)))
      exact ext_timerSet now _ _ _ (by grind)

/-! ### `handle_ended_actions` -/

theorem mem_upd {α} (l : List α) (i : Nat) (f : α → α) (x : α) (h : x ∈ upd l i f) : x ∈ l ∨ ∃ y ∈ l, x = f y := by
  induction l generalizing i with
  | nil => simp [upd] at h
  | cons y ys ih =>
    cases i with
    | zero =>
      simp only [upd, List.mem_cons] at h
      rcases h with h | h
      · exact Or.inr ⟨y, by simp, h⟩
      · exact Or.inl (by simp [h])
    | succ n =>
      simp only [upd, List.mem_cons] at h
      rcases h with h | h
      · exact Or.inl (by simp [h])
      · rcases ih n h with h | ⟨z, hz, hx⟩
        · exact Or.inl (by simp [h])
        · exact Or.inr ⟨z, by simp [hz], hx⟩

/-- stamping the finish time with the current clock keeps the invariant -/
theorem dinv_stampFinish (now : Rat) (k : K) (i : Nat) (h : DInv now k) :
    DInv now (k.setImpl i (fun x => { x with finish := now })) := by
  refine ⟨h.tim, h.heap, ?_, h.pend⟩
  intro im him
  rcases mem_upd _ _ _ _ him with h1 | ⟨y, hy, rfl⟩
  · exact h.ord im h1
  · have := (h.ord y hy).1
    exact ⟨this, Or.inr ⟨this, Rat.le_refl⟩⟩

theorem handleEnded_dinv (now : Rat) (n : Nat) (k : K) (h : DInv now k) : DInv now (k.handleEnded now n) := by
  induction n generalizing k with
  | zero => exact h
  | succ n ih =>
    unfold K.handleEnded
    split
    · exact ih _ (h.shr (shr_finish _ _))
    · split
      · exact ih _ ((dinv_stampFinish now k _ h).shr (shr_finish _ _))
      · exact h

end SgVerif.TimeCore
