import SgVerif.TimeCore.Frame
/-
Date invariants of every reachable state of the time-core model:
  * no pending timer and no pending action (heap entry) is in the past;
  * every timer callback is executed at a clock EXACTLY equal to its date (`timer_exact`);
  * start ≤ finish ≤ now for every activity (`activity_order`).
-/
namespace SgVerif.TimeCore

structure DInv (now : Rat) (k : K) : Prop where
  tim : ∀ t ∈ k.timers, now ≤ t.date
  heap : ∀ e ∈ k.heap, now ≤ e.date ∧ (e.lat = true → 0 ≤ e.rem)
  ord : ∀ im ∈ k.impls, im.start ≤ now ∧ (im.finish = -1 ∨ (im.start ≤ im.finish ∧ im.finish ≤ now))
  pend : ∀ a r, (k.actor a).pending = some r → ReqOk r

/-- `k'` extends `k` at clock `now`: new timers / heap entries are not in the past, new impls start now or are unset -/
structure Ext (now : Rat) (k k' : K) : Prop where
  tim : ∀ t ∈ k'.timers, t ∈ k.timers ∨ now ≤ t.date
  heap : ∀ e ∈ k'.heap, e ∈ k.heap ∨ (now ≤ e.date ∧ (e.lat = true → 0 ≤ e.rem))
  ord : ∀ im ∈ k'.impls, (∃ im0 ∈ k.impls, im.start = im0.start ∧ im.finish = im0.finish) ∨
          (im.start ≤ now ∧ im.finish = -1)
  pend : ∀ a, PendFr (k.actor a).pending (k'.actor a).pending

theorem Ext.refl (now : Rat) (k : K) : Ext now k k :=
  ⟨fun _ h => Or.inl h, fun _ h => Or.inl h, fun im h => Or.inl ⟨im, h, rfl, rfl⟩, fun _ => Or.inl rfl⟩

theorem Ext.trans {now : Rat} {k1 k2 k3 : K} (h1 : Ext now k1 k2) (h2 : Ext now k2 k3) : Ext now k1 k3 := by
  refine ⟨?_, ?_, ?_, fun a => (h1.pend a).trans (h2.pend a)⟩
  · intro t ht
    rcases h2.tim t ht with h | h
    · exact h1.tim t h
    · exact Or.inr h
  · intro e he
    rcases h2.heap e he with h | h
    · exact h1.heap e h
    · exact Or.inr h
  · intro im him
    rcases h2.ord im him with ⟨im0, h0, hs, hf⟩ | h
    · rcases h1.ord im0 h0 with ⟨im1, h1', hs1, hf1⟩ | h
      · exact Or.inl ⟨im1, h1', hs.trans hs1, hf.trans hf1⟩
      · exact Or.inr ⟨by rw [hs]; exact h.1, by rw [hf]; exact h.2⟩
    · exact Or.inr h

theorem Shr.ext {k k' : K} (now : Rat) (h : Shr k k') : Ext now k k' := by
  refine ⟨fun t ht => Or.inl (h.timers.subset ht), fun e he => Or.inl (h.heap.subset he), ?_, h.pend⟩
  intro im him
  have : im.sfk ∈ k'.impls.map Impl.sfk := List.mem_map.mpr ⟨im, him, rfl⟩
  rw [h.sfk] at this
  obtain ⟨im0, h0, he⟩ := List.mem_map.mp this
  unfold Impl.sfk at he
  injection he with _ h2
  injection h2 with h2 h3
  exact Or.inl ⟨im0, h0, h2.symm, h3.symm⟩

theorem DInv.ext {now : Rat} {k k' : K} (h : DInv now k) (e : Ext now k k') : DInv now k' := by
  refine ⟨?_, ?_, ?_, ?_⟩
  · intro t ht
    rcases e.tim t ht with h1 | h1
    · exact h.tim t h1
    · exact h1
  · intro x hx
    rcases e.heap x hx with h1 | h1
    · exact h.heap x h1
    · exact h1
  · intro im him
    rcases e.ord im him with ⟨im0, h0, hs, hf⟩ | h1
    · rw [hs, hf]; exact h.ord im0 h0
    · exact ⟨h1.1, Or.inl h1.2⟩
  · intro a r hr
    rcases e.pend a with h1 | h1 | ⟨r', h1, h2⟩
    · rw [h1] at hr; exact h.pend a r hr
    · rw [h1] at hr; cases hr
    · rw [h1] at hr; injection hr with hr; subst hr; exact h2

theorem DInv.shr {now : Rat} {k k' : K} (h : DInv now k) (s : Shr k k') : DInv now k' := h.ext (s.ext now)

/-! ### the creation sites -/

theorem ext_newImpl (now : Rat) (k : K) (im : Impl) (hs : im.start ≤ now) (hf : im.finish = -1) :
    Ext now k (k.newImpl im).1 := by
  refine ⟨fun _ h => Or.inl h, fun _ h => Or.inl h, ?_, fun _ => Or.inl rfl⟩
  intro x hx
  simp only [K.newImpl, List.mem_append, List.mem_singleton] at hx
  rcases hx with hx | hx
  · exact Or.inl ⟨x, hx, rfl, rfl⟩
  · subst hx; exact Or.inr ⟨hs, hf⟩

theorem ext_heapPush (now : Rat) (k : K) (e : HeapE) (hd : now ≤ e.date) (hl : e.lat = true → 0 ≤ e.rem) :
    Ext now k { k with heap := k.heap ++ [e] } := by
  refine ⟨fun _ h => Or.inl h, ?_, fun im h => Or.inl ⟨im, h, rfl, rfl⟩, fun _ => Or.inl rfl⟩
  intro x hx
  simp only [List.mem_append, List.mem_singleton] at hx
  rcases hx with hx | hx
  · exact Or.inl hx
  · subst hx; exact Or.inr ⟨hd, hl⟩

theorem ext_timerSet (now : Rat) (k : K) (d : Rat) (cb : Cb) (hd : now ≤ d) : Ext now k (k.timerSet d cb).1 := by
  refine ⟨?_, fun _ h => Or.inl h, fun im h => Or.inl ⟨im, h, rfl, rfl⟩, fun _ => Or.inl rfl⟩
  intro x hx
  simp only [K.timerSet, List.mem_append, List.mem_singleton] at hx
  rcases hx with hx | hx
  · exact Or.inl hx
  · subst hx; exact Or.inr hd

theorem ext_register (now : Rat) (k : K) (i a : Nat) : Ext now k (k.register i a) := by
  unfold K.register
  refine ⟨fun _ h => Or.inl h, fun _ h => Or.inl h, ?_, ?_⟩
  · intro im him
    have : im.sfk ∈ (upd k.impls i fun x => { x with simcalls := x.simcalls ++ [a] }).map Impl.sfk :=
      List.mem_map.mpr ⟨im, him, rfl⟩
    rw [map_upd_inv _ _ _ _ (by intro _; rfl)] at this
    obtain ⟨im0, h0, he⟩ := List.mem_map.mp this
    unfold Impl.sfk at he
    injection he with _ h2
    injection h2 with h2 h3
    exact Or.inl ⟨im0, h0, h2.symm, h3.symm⟩
  · intro b
    have := actor_setActor_proj (·.pending) (k.setImpl i fun x => { x with simcalls := x.simcalls ++ [a] }) a b
      (fun x => { x with waiting := x.waiting ++ [i] }) (by intro _; rfl)
    exact Or.inl this

theorem ext_handle_go (now : Rat) (a : Nat) (l : List Nat) (k : K) : Ext now k (K.handle.go a k l) := by
  induction l generalizing k with
  | nil => unfold K.handle.go; exact Ext.refl now k
  | cons i rest ih =>
    unfold K.handle.go
    simp only []
    split
    · exact (ext_register now k i a).trans (Shr.ext now (shr_finish _ i))
    · exact (ext_register now k i a).trans (ih _)

theorem clampSleep_pos (d : Rat) (h : 0 < d) : 0 ≤ clampSleep prec d := by
  unfold clampSleep prec; split <;> (try split) <;> grind

theorem handle_ext (now : Rat) (k : K) (a : Nat) (r : Req) (h0 : 0 ≤ now) (hr : ReqOk r) :
    Ext now k (k.handle now a r) := by
  have hp : (0 : Rat) < prec := by unfold prec; grind
  have hl : (0 : Rat) < linkLat := by unfold linkLat; grind
  have hm : (-1 : Rat) ≤ now := by grind
  cases r with
  | sleep d =>
    simp only [K.handle]
    refine Ext.trans ?_ (ext_register now _ _ _)
    refine Ext.trans (ext_newImpl now k _ (Rat.le_refl) rfl) (ext_heapPush now _ _ ?_ ?_)
    · have := clampSleep_pos d hr; simp only; grind
    · intro h; cases h
  | start slot kind d =>
    simp only [K.handle]
    refine Ext.trans ?_ (Shr.ext now (shr_answer _ _))
    refine Ext.trans ?_ (Shr.ext now (shr_setActor _ _ _ (by fr_side)))
    refine Ext.trans (ext_newImpl now k _ (Rat.le_refl) rfl) (ext_heapPush now _ _ ?_ ?_)
    · obtain ⟨h1, h2⟩ := hr
      split
      · simp only; grind
      · simp only; grind
    · obtain ⟨h1, h2⟩ := hr
      split
      · rename_i hc; intro _; have := h2 (by simpa using hc); simp only; grind
      · intro h; cases h
  | iget slot q =>
    simp only [K.handle]
    split
    · refine Ext.trans ?_ (Shr.ext now (shr_answer _ _))
      refine Ext.trans ?_ (Shr.ext now (shr_setActor _ _ _ (by fr_side)))
      refine Ext.trans ?_ (Shr.ext now (shr_finish _ _))
      exact Shr.ext now (shr_setImpl _ _ _ (by intro _; rfl))
    · refine Ext.trans ?_ (Shr.ext now (shr_answer _ _))
      refine Ext.trans ?_ (Shr.ext now (shr_setActor _ _ _ (by fr_side)))
      exact ext_newImpl now k _ hm rfl
  | iput slot q =>
    simp only [K.handle]
    split
    · refine Ext.trans ?_ (Shr.ext now (shr_answer _ _))
      refine Ext.trans ?_ (Shr.ext now (shr_setActor _ _ _ (by fr_side)))
      refine Ext.trans ?_ (Shr.ext now (shr_finish _ _))
      exact Shr.ext now (shr_setImpl _ _ _ (by intro _; rfl))
    · refine Ext.trans ?_ (Shr.ext now (shr_answer _ _))
      refine Ext.trans ?_ (Shr.ext now (shr_setActor _ _ _ (by fr_side)))
      exact ext_newImpl now k _ hm rfl
  | waitFor i tau =>
    simp only [K.handle]
    split
    · exact (ext_register now _ _ _).trans (Shr.ext now (shr_finish _ _))
    · split
      · rename_i ht
        refine Ext.trans ?_ (Shr.ext now (shr_setActor _ _ _ (by fr_side)))
        refine Ext.trans (ext_register now _ _ _) (ext_timerSet now _ _ _ ?_)
        grind
      · exact ext_register now _ _ _
  | waitAny is tau =>
    simp only [K.handle]
    refine Ext.trans ?_ (ext_handle_go now _ _ _)
    split
    · exact Shr.ext now ((shr_setActor _ _ _ (by fr_side)).trans
        (shr_setActor _ _ _ (by fr_side)))
    · rename_i ht
      refine Ext.trans ?_ (Shr.ext now (shr_setActor _ _ _ (by fr_side)))
      refine Ext.trans (Shr.ext now (shr_setActor _ _ _ (by fr_side))) (ext_timerSet now _ _ _ ?_)
      grind
  | test i =>
    simp only [K.handle]
    refine Ext.trans ?_ (Shr.ext now (shr_answer _ _))
    split
    · exact Shr.ext now ((shr_finish _ _).trans (shr_setActor _ _ _ (by fr_side)))
    · exact Shr.ext now (shr_setActor _ _ _ (by fr_side))
  | cancel i =>
    simp only [K.handle]
    exact Shr.ext now ((shr_cancel _ _).trans (shr_answer _ _))
  | killAt t =>
    simp only [K.handle]
    refine Ext.trans ?_ (Shr.ext now (shr_answer _ _))
    split
    · exact Ext.refl now k
    · rename_i ht
      refine Ext.trans ?_ (Shr.ext now (shr_setActor _ _ _ (by fr_side)))
      exact ext_timerSet now _ _ _ (by grind)

/-! ### `handle_ended_actions` -/

theorem mem_upd {α} (l : List α) (i : Nat) (f : α → α) (x : α) (h : x ∈ upd l i f) : x ∈ l ∨ ∃ y ∈ l, x = f y := by
  induction l generalizing i with
  | nil => simp [upd] at h
  | cons y ys ih =>
    cases i with
    | zero =>
      simp only [upd, List.mem_cons] at h
      rcases h with h | h
      · exact Or.inr ⟨y, by simp, h⟩
      · exact Or.inl (by simp [h])
    | succ n =>
      simp only [upd, List.mem_cons] at h
      rcases h with h | h
      · exact Or.inl (by simp [h])
      · rcases ih n h with h | ⟨z, hz, hx⟩
        · exact Or.inl (by simp [h])
        · exact Or.inr ⟨z, by simp [hz], hx⟩

/-- stamping the finish time with the current clock keeps the invariant -/
theorem dinv_stampFinish (now : Rat) (k : K) (i : Nat) (h : DInv now k) :
    DInv now (k.setImpl i (fun x => { x with finish := now })) := by
  refine ⟨h.tim, h.heap, ?_, h.pend⟩
  intro im him
  rcases mem_upd _ _ _ _ him with h1 | ⟨y, hy, rfl⟩
  · exact h.ord im h1
  · have := (h.ord y hy).1
    exact ⟨this, Or.inr ⟨this, Rat.le_refl⟩⟩

theorem handleEnded_dinv (now : Rat) (n : Nat) (k : K) (h : DInv now k) : DInv now (k.handleEnded now n) := by
  induction n generalizing k with
  | zero => exact h
  | succ n ih =>
    unfold K.handleEnded
    split
    · exact ih _ (h.shr (shr_finish _ _))
    · split
      · exact ih _ ((dinv_stampFinish now k _ h).shr (shr_finish _ _))
      · exact h

/-! ### the maestro loop -/

theorem ext_slice (now : Rat) (a : Nat) (fuel : Nat) (k : K) (evs : List Ev) : Ext now k (k.slice a fuel evs).1 := by
  refine slice_ind a (fun k' => Ext now k k') (fun k' => Ext now k k') ?_ ?_ ?_ ?_ (fun _ h => h) fuel k evs
    (Ext.refl now k)
  · intro k' f h hf
    refine h.trans (Shr.ext now (shr_setActor _ _ _ ?_))
    cases hf <;> fr_side
  · intro k' r b h hr _
    refine h.trans ⟨fun _ h => Or.inl h, fun _ h => Or.inl h, fun im h => Or.inl ⟨im, h, rfl, rfl⟩, ?_⟩
    intro c
    unfold K.issue
    rw [actor_setActor]; split
    · exact Or.inr (Or.inr ⟨r, rfl, hr⟩)
    · exact Or.inl rfl
  · intro k' s h
    exact h.trans (Shr.ext now (shr_of _ _ (List.Sublist.refl _) (List.Sublist.refl _) rfl rfl rfl))
  · intro k' h
    exact h.trans (Shr.ext now (shr_die _ _ _))

theorem ext_runAll (now : Rat) (l : List Nat) (k : K) (evs : List Ev) : Ext now k (runAll k l evs).1 := by
  induction l generalizing k evs with
  | nil => exact Ext.refl now k
  | cons a rest ih =>
    unfold runAll
    simp only []
    split
    · split
      · exact (Shr.ext now (shr_die k a true)).trans (ih _ _)
      · exact ih _ _
    · exact (ext_slice now a _ k []).trans (ih _ _)

theorem handlePending_dinv (now : Rat) (h0 : 0 ≤ now) (l : List Nat) (k : K) (h : DInv now k) :
    DInv now (handlePending now k l) := by
  induction l generalizing k with
  | nil => exact h
  | cons a rest ih =>
    unfold handlePending
    split
    · rename_i r hr
      have hr' := h.pend a r hr
      simp only []
      refine ih _ ?_
      have h1 : DInv now (k.setActor a fun x => { x with pending := none }) :=
        h.shr (shr_setActor _ _ _ (by fr_side))
      split
      · exact h1
      · exact h1.ext (handle_ext now _ a r h0 hr')
    · exact ih _ h

/-- invariant of the maestro loop: the clock is non-negative, the kernel dates are consistent with it, and every
timer callback executed so far was executed at exactly its date -/
structure SInv (s : St) : Prop where
  now0 : 0 ≤ s.now
  d : DInv s.now s.k
  fired : ∀ x ∈ s.fired, x.1 = x.2.date

theorem subround_sinv (s : St) (h : SInv s) : SInv (subround s) := by
  unfold subround
  simp only []
  refine ⟨h.now0, ?_, h.fired⟩
  refine handleEnded_dinv _ _ _ (handlePending_dinv _ h.now0 _ _ ?_)
  refine DInv.ext ?_ (ext_runAll _ _ _ _)
  exact h.d.shr (shr_clearRun _)

def HeapOk (now : Rat) (e : HeapE) : Prop := now ≤ e.date ∧ (e.lat = true → 0 ≤ e.rem)

theorem getD_mem_of_mem_range_filter {α} [Inhabited α] (l : List α) (p : Nat → Bool) (c j : Nat)
    (hj : ((List.range l.length).filter p)[c]? = some j) : l.getD j default ∈ l ∧ p j = true := by
  have hmem := List.mem_of_getElem? hj
  have h1 := List.mem_filter.mp hmem
  have hlt : j < l.length := List.mem_range.mp h1.1
  refine ⟨?_, h1.2⟩
  rw [List.getD_eq_getElem?_getD, List.getElem?_eq_getElem hlt]
  exact List.getElem_mem hlt

theorem popWindow_dinv (now : Rat) (n : Nat) (s : St) (re : List HeapE) (hn : s.now = now) (h : DInv now s.k)
    (hre : ∀ e ∈ re, HeapOk now e) :
    DInv now (popWindow n s re).1.k ∧ (∀ e ∈ (popWindow n s re).2, HeapOk now e) := by
  induction n generalizing s re with
  | zero => exact ⟨h, hre⟩
  | succ n ih =>
    unfold popWindow
    simp only []
    split
    · exact ⟨h, hre⟩
    · split
      · simp only [pick_k]; exact ⟨h, hre⟩
      · rename_i j hj
        simp only [pick_k, pick_now] at hj ⊢
        obtain ⟨hmem, _⟩ := getD_mem_of_mem_range_filter s.k.heap _ _ _ hj
        have he := h.heap _ hmem
        split
        · rename_i hlat
          apply ih
          · simpa only [pick_now] using hn
          · exact h.shr (shr_of _ _ (List.Sublist.refl _) (removeNth_sublist _ _) rfl rfl rfl)
          · intro e hx
            rcases List.mem_append.mp hx with hx | hx
            · exact hre e hx
            · simp only [List.mem_singleton] at hx
              subst hx
              have := he.2 hlat
              exact ⟨by simp only; grind, by intro hc; cases hc⟩
        · apply ih
          · simpa only [pick_now] using hn
          · refine h.shr ?_
            refine ⟨List.Sublist.refl _, removeNth_sublist _ _, rfl, ?_, rfl, fun _ => Or.inl rfl, fun _ h => h, fun _ h => h,
              fun _ h => h, fun _ h => Or.inl h, fun _ h => h⟩
            simp only [K.setImpl]
            rw [map_upd_inv]
            intro _; rfl
          · exact hre

theorem execAll_sinv (n : Nat) (s : St) (r : Bool) (h : SInv s) : SInv (execAll n s r).1 := by
  induction n generalizing s r with
  | zero => exact h
  | succ n ih =>
    unfold execAll
    simp only []
    split
    · exact h
    · rename_i top htop
      split
      · exact h
      · rename_i hnow
        split
        · exact ⟨by simpa using h.now0, by simpa using h.d, by simpa using h.fired⟩
        · rename_i j hj
          obtain ⟨hmem, hd⟩ := getD_mem_of_mem_range_filter s.k.timers _ _ _ hj
          simp only [beq_iff_eq] at hd
          have hle := h.d.tim _ hmem
          apply ih
          refine ⟨by simpa using h.now0, ?_, ?_⟩
          · simp only [pick_now, pick_k]
            refine h.d.shr (Shr.trans ?_ (shr_fire _ _))
            exact shr_of _ _ (removeNth_sublist _ _) (List.Sublist.refl _) rfl rfl rfl
          · intro x hx
            simp only [List.mem_append, List.mem_singleton, pick_fired, pick_now, pick_k] at hx
            rcases hx with hx | hx
            · exact h.fired x hx
            · subst hx
              simp only
              have : top ≤ s.now := Rat.not_lt.mp hnow
              rw [hd] at hle ⊢
              exact Rat.le_antisymm hle this

theorem timersLoop_sinv (n : Nat) (s : St) (h : SInv s) : SInv (timersLoop n s) := by
  induction n generalizing s with
  | zero => exact h
  | succ n ih =>
    unfold timersLoop
    simp only []
    have h1 := execAll_sinv s.k.timers.length s false h
    have h2 : SInv { (execAll s.k.timers.length s false).1 with
        k := (execAll s.k.timers.length s false).1.k.handleEndedAll (execAll s.k.timers.length s false).1.now } :=
      ⟨h1.now0, handleEnded_dinv _ _ _ h1.d, h1.fired⟩
    split
    · exact ih _ h2
    · exact h2

/-- the time step never jumps over the next action completion either (the heap top is never in the past) -/
theorem timeDelta_le_top (now : Rat) (tnext : Option Rat) (x d : Rat) (hx : now ≤ x)
    (h : timeDelta now tnext (some x) = some d) : now + d ≤ x := by
  unfold timeDelta at h
  simp only [Option.map] at h
  have hn : x - now ≥ 0 := by grind
  simp only [hn, if_true] at h
  cases tnext with
  | none => simp only [Option.map] at h; injection h with h; subst h; grind
  | some t =>
    simp only [Option.map] at h
    split at h <;> (injection h with h; subst h; grind)

theorem DInv.advance {now now' : Rat} {k : K} (h : DInv now k) (hle : now ≤ now')
    (ht : ∀ t ∈ k.timers, now' ≤ t.date) (hh : ∀ e ∈ k.heap, now' ≤ e.date) : DInv now' k := by
  refine ⟨ht, fun e he => ⟨hh e he, (h.heap e he).2⟩, ?_, h.pend⟩
  intro im him
  obtain ⟨h1, h2⟩ := h.ord im him
  refine ⟨Rat.le_trans h1 hle, ?_⟩
  rcases h2 with h2 | h2
  · exact Or.inl h2
  · exact Or.inr ⟨h2.1, Rat.le_trans h2.2 hle⟩

theorem minDate_none {l : List Rat} (h : minDate l = none) : l = [] := by
  cases l with
  | nil => rfl
  | cons x xs => unfold minDate at h; split at h <;> simp at h

theorem solveStep_sinv (s : St) (h : SInv s) : SInv (solveStep s (outerDelta s)) := by
  cases hd : outerDelta s with
  | none => exact h
  | some d =>
    unfold solveStep
    simp only []
    have hT : ∀ t ∈ s.k.timers, s.now ≤ t.date := h.d.tim
    have hd0 : 0 ≤ d := by
      refine timeDelta_nonneg s.now _ _ d ?_ hd
      intro t ht
      have := minDate_mem _ _ ht
      obtain ⟨x, hx, rfl⟩ := List.mem_map.mp this
      exact hT x hx
    have htim : ∀ t ∈ s.k.timers, s.now + d ≤ t.date := by
      intro t ht
      cases hm : minDate (s.k.timers.map (·.date)) with
      | none => have := minDate_none hm; simp at this; rw [this] at ht; simp at ht
      | some m =>
        unfold outerDelta at hd
        rw [hm] at hd
        have h1 := timeDelta_le_timer _ _ _ _ hd
        have h2 := minDate_le _ _ hm t.date (List.mem_map.mpr ⟨t, ht, rfl⟩)
        grind
    have hheap : ∀ e ∈ s.k.heap, s.now + d ≤ e.date := by
      intro e he
      cases hm : minDate (s.k.heap.map (·.date)) with
      | none => have := minDate_none hm; simp at this; rw [this] at he; simp at he
      | some m =>
        unfold outerDelta at hd
        rw [hm] at hd
        have hmem := minDate_mem _ _ hm
        obtain ⟨x, hx, hxm⟩ := List.mem_map.mp hmem
        have hx0 := (h.d.heap x hx).1
        have h1 := timeDelta_le_top _ _ m d (by rw [← hxm]; exact hx0) hd
        have h2 := minDate_le _ _ hm e.date (List.mem_map.mpr ⟨e, he, rfl⟩)
        grind
    have hadv : DInv (s.now + d) s.k := h.d.advance (by grind) htim hheap
    obtain ⟨h1, h2⟩ := popWindow_dinv (s.now + d) s.k.heap.length { s with now := s.now + d } [] rfl hadv
      (by intro e he; simp at he)
    have hnow := popWindow_now s.k.heap.length { s with now := s.now + d } []
    have hfired := popWindow_fired s.k.heap.length { s with now := s.now + d } []
    refine ⟨?_, ?_, ?_⟩
    · rw [hnow]; show 0 ≤ s.now + d; have := h.now0; grind
    · rw [hnow]
      refine ⟨h1.tim, ?_, h1.ord, h1.pend⟩
      intro e he
      rcases List.mem_append.mp he with he | he
      · exact h1.heap e he
      · exact h2 e he
    · rw [hfired]; exact h.fired

theorem sinv_setDone (s : St) (b : Bool) (h : SInv s) : SInv (if b then { s with done := true } else s) := by
  split
  · exact ⟨h.now0, h.d, h.fired⟩
  · exact h

theorem outerTail_sinv (s : St) (dl : Option Rat) (h : SInv s) : SInv (outerTail s dl) := by
  have h1 : SInv (if dl.isNone && s.k.toRun.isEmpty && !s.k.alive.isEmpty then
      { s with k := s.k.alive.foldl (fun k a => k.kill a) s.k } else s) := by
    split
    · exact ⟨h.now0, h.d.shr (shr_foldl_kill _ _), h.fired⟩
    · exact h
  unfold outerTail
  exact sinv_setDone _ _ h1

theorem outer_sinv (s : St) (h : SInv s) : SInv (outer s) := by
  rw [outer_eq]
  split
  · exact ⟨h.now0, h.d.shr (shr_of _ _ (List.Sublist.refl _) (List.Sublist.refl _) rfl rfl rfl), h.fired⟩
  · exact outerTail_sinv _ _ (timersLoop_sinv _ _ (solveStep_sinv s h))

theorem step_sinv (s : St) (h : SInv s) : SInv (step s) := by
  unfold step
  split
  · exact h
  · split
    · exact outer_sinv s h
    · exact subround_sinv s h

theorem run_sinv (n : Nat) (s : St) (h : SInv s) : SInv (run n s) := by
  induction n generalizing s with
  | zero => exact h
  | succ n ih => unfold run; exact ih _ (step_sinv s h)

theorem initSt_sinv (progs : List (List Op)) (ties : List Nat) : SInv (initSt progs ties) := by
  refine ⟨Rat.le_refl, ⟨by simp [initSt], by simp [initSt], by simp [initSt], ?_⟩, by simp [initSt]⟩
  intro a r hr
  exfalso
  simp only [initSt, K.actor, List.getD_eq_getElem?_getD, List.getElem?_map] at hr
  cases h : progs[a]? <;> simp [h] at hr

/-- the clock only ever stops at the date of a pending timer or action -/
theorem solveStep_lands (s : St) :
    (solveStep s (outerDelta s)).now = s.now ∨ (∃ t ∈ s.k.timers, t.date = (solveStep s (outerDelta s)).now) ∨
    (∃ e ∈ s.k.heap, e.date = (solveStep s (outerDelta s)).now) := by
  cases hd : outerDelta s with
  | none => exact Or.inl rfl
  | some d =>
    unfold solveStep
    simp only [popWindow_now]
    unfold outerDelta timeDelta at hd
    cases hh : minDate (s.k.heap.map (·.date)) with
    | none =>
      rw [hh] at hd
      simp only [Option.map] at hd
      cases ht : minDate (s.k.timers.map (·.date)) with
      | none => rw [ht] at hd; simp at hd
      | some t =>
        rw [ht] at hd
        simp only [Option.map] at hd
        injection hd with hd
        obtain ⟨x, hx, hxt⟩ := List.mem_map.mp (minDate_mem _ _ ht)
        exact Or.inr (Or.inl ⟨x, hx, by rw [hxt, ← hd]; grind⟩)
    | some m =>
      rw [hh] at hd
      simp only [Option.map] at hd
      obtain ⟨e, he, hem⟩ := List.mem_map.mp (minDate_mem _ _ hh)
      cases ht : minDate (s.k.timers.map (·.date)) with
      | none =>
        rw [ht] at hd
        simp only [Option.map] at hd
        split at hd
        · injection hd with hd
          exact Or.inr (Or.inr ⟨e, he, by rw [hem, ← hd]; grind⟩)
        · cases hd
      | some t =>
        rw [ht] at hd
        simp only [Option.map] at hd
        obtain ⟨x, hx, hxt⟩ := List.mem_map.mp (minDate_mem _ _ ht)
        split at hd
        · split at hd
          · injection hd with hd
            exact Or.inr (Or.inr ⟨e, he, by rw [hem, ← hd]; grind⟩)
          · injection hd with hd
            exact Or.inr (Or.inl ⟨x, hx, by rw [hxt, ← hd]; grind⟩)
        · injection hd with hd
          exact Or.inr (Or.inl ⟨x, hx, by rw [hxt, ← hd]; grind⟩)

/-! ### no action completes after its date -/

def PoppedLe (s : St) : Prop := ∀ x ∈ s.popped, x.1 ≤ x.2.date

theorem popWindow_poppedLe (now : Rat) (n : Nat) (s : St) (re : List HeapE) (hn : s.now = now) (h : DInv now s.k)
    (hp : PoppedLe s) : PoppedLe (popWindow n s re).1 := by
  induction n generalizing s re with
  | zero => exact hp
  | succ n ih =>
    unfold popWindow
    simp only []
    split
    · exact hp
    · split
      · unfold PoppedLe at hp ⊢; simpa using hp
      · rename_i j hj
        simp only [pick_k, pick_now] at hj ⊢
        obtain ⟨hmem, _⟩ := getD_mem_of_mem_range_filter s.k.heap _ _ _ hj
        have he := h.heap _ hmem
        have hp' : ∀ x ∈ (pick ((List.range s.k.heap.length).filter
            (fun j => (s.k.heap.getD j default).due s.now)).length s).2.popped ++ [(s.now, s.k.heap.getD j default)],
            x.1 ≤ x.2.date := by
          intro x hx
          simp only [List.mem_append, List.mem_singleton, pick_popped] at hx
          rcases hx with hx | hx
          · exact hp x hx
          · subst hx; simp only; rw [hn]; exact he.1
        split
        · apply ih
          · simpa only [pick_now] using hn
          · exact h.shr (shr_of _ _ (List.Sublist.refl _) (removeNth_sublist _ _) rfl rfl rfl)
          · exact hp'
        · apply ih
          · simpa only [pick_now] using hn
          · refine h.shr ?_
            refine ⟨List.Sublist.refl _, removeNth_sublist _ _, rfl, ?_, rfl, fun _ => Or.inl rfl, fun _ h => h,
              fun _ h => h, fun _ h => h, fun _ h => Or.inl h, fun _ h => h⟩
            simp only [K.setImpl]
            rw [map_upd_inv]
            intro _; rfl
          · exact hp'

theorem outerTail_popped (s : St) (dl : Option Rat) : (outerTail s dl).popped = s.popped := by
  unfold outerTail
  simp only []
  split <;> (try split) <;> rfl

theorem step_poppedLe (s : St) (h : SInv s) (hp : PoppedLe s) : PoppedLe (step s) := by
  unfold step
  split
  · exact hp
  · split
    · rw [outer_eq]
      split
      · exact hp
      · have key : PoppedLe (solveStep s (outerDelta s)) := by
          cases hd : outerDelta s with
          | none => exact hp
          | some d =>
            unfold solveStep
            simp only []
            -- the clock is advanced first: the invariants hold at the new date (`solveStep_sinv`)
            have hadv : DInv (s.now + d) s.k := by
              have hs := solveStep_sinv s h
              rw [hd] at hs
              -- re-derive the advanced invariant as in `solveStep_sinv`
              have hT : ∀ t ∈ s.k.timers, s.now ≤ t.date := h.d.tim
              have hd0 : 0 ≤ d := by
                refine timeDelta_nonneg s.now _ _ d ?_ hd
                intro t ht
                have := minDate_mem _ _ ht
                obtain ⟨x, hx, rfl⟩ := List.mem_map.mp this
                exact hT x hx
              have htim : ∀ t ∈ s.k.timers, s.now + d ≤ t.date := by
                intro t ht
                cases hm : minDate (s.k.timers.map (·.date)) with
                | none => have := minDate_none hm; simp at this; rw [this] at ht; simp at ht
                | some m =>
                  unfold outerDelta at hd
                  rw [hm] at hd
                  have h1 := timeDelta_le_timer _ _ _ _ hd
                  have h2 := minDate_le _ _ hm t.date (List.mem_map.mpr ⟨t, ht, rfl⟩)
                  grind
              have hheap : ∀ e ∈ s.k.heap, s.now + d ≤ e.date := by
                intro e he
                cases hm : minDate (s.k.heap.map (·.date)) with
                | none => have := minDate_none hm; simp at this; rw [this] at he; simp at he
                | some m =>
                  unfold outerDelta at hd
                  rw [hm] at hd
                  have hmem := minDate_mem _ _ hm
                  obtain ⟨x, hx, hxm⟩ := List.mem_map.mp hmem
                  have hx0 := (h.d.heap x hx).1
                  have h1 := timeDelta_le_top _ _ m d (by rw [← hxm]; exact hx0) hd
                  have h2 := minDate_le _ _ hm e.date (List.mem_map.mpr ⟨e, he, rfl⟩)
                  grind
              exact h.d.advance (by grind) htim hheap
            have := popWindow_poppedLe (s.now + d) s.k.heap.length { s with now := s.now + d } [] rfl hadv hp
            exact this
        have k2 : PoppedLe (timersLoop ((solveStep s (outerDelta s)).k.timers.length + 1) (solveStep s (outerDelta s))) := by
          unfold PoppedLe; rw [timersLoop_popped]; exact key
        unfold PoppedLe
        simp only []
        rw [outerTail_popped]
        exact k2
    · unfold PoppedLe at hp ⊢; simpa [subround] using hp

theorem run_poppedLe (n : Nat) (s : St) (h : SInv s) (hp : PoppedLe s) : PoppedLe (run n s) := by
  induction n generalizing s with
  | zero => exact hp
  | succ n ih => unfold run; exact ih _ (step_sinv s h) (step_poppedLe s h hp)

/-! ### progress at termination: when the run is over nothing is left pending -/

structure Sub (k k' : K) : Prop where
  timers : k'.timers.Sublist k.timers
  heap : k'.heap.Sublist k.heap

theorem Sub.refl (k : K) : Sub k k := ⟨List.Sublist.refl _, List.Sublist.refl _⟩
theorem Sub.trans {k1 k2 k3 : K} (h1 : Sub k1 k2) (h2 : Sub k2 k3) : Sub k1 k3 :=
  ⟨h2.timers.trans h1.timers, h2.heap.trans h1.heap⟩
theorem Shr.sub {k k' : K} (h : Shr k k') : Sub k k' := ⟨h.timers, h.heap⟩

theorem handleEnded_sub (now : Rat) (n : Nat) (k : K) : Sub k (k.handleEnded now n) := by
  induction n generalizing k with
  | zero => exact Sub.refl k
  | succ n ih =>
    unfold K.handleEnded
    split
    · exact (shr_finish _ _).sub.trans (ih _)
    · split
      · rename_i i tl hq
        refine Sub.trans (k2 := k.setImpl i (fun x => { x with finish := now }))
          ⟨List.Sublist.refl _, List.Sublist.refl _⟩ ?_
        exact (shr_finish _ _).sub.trans (ih _)
      · exact Sub.refl k

theorem execAll_sub (n : Nat) (s : St) (r : Bool) : Sub s.k (execAll n s r).1.k ∧ (execAll n s r).1.done = s.done := by
  induction n generalizing s r with
  | zero => exact ⟨Sub.refl _, rfl⟩
  | succ n ih =>
    unfold execAll
    simp only []
    split
    · exact ⟨Sub.refl _, rfl⟩
    · split
      · exact ⟨Sub.refl _, rfl⟩
      · split
        · constructor
          · simpa using Sub.refl s.k
          · simp
        · rename_i j hj
          obtain ⟨i1, i2⟩ := ih { (pick _ s).2 with
              k := ({ (pick _ s).2.k with timers := removeNth (pick _ s).2.k.timers j } : K).fire
                     ((pick _ s).2.k.timers.getD j default),
              fired := (pick _ s).2.fired ++ [((pick _ s).2.now, (pick _ s).2.k.timers.getD j default)] } true
          refine ⟨Sub.trans ?_ i1, by rw [i2]; simp⟩
          simp only [pick_k]
          exact Sub.trans (k2 := { s.k with timers := removeNth s.k.timers j })
            ⟨removeNth_sublist _ _, List.Sublist.refl _⟩ (shr_fire _ _).sub

theorem timersLoop_sub (n : Nat) (s : St) : Sub s.k (timersLoop n s).k ∧ (timersLoop n s).done = s.done := by
  induction n generalizing s with
  | zero => exact ⟨Sub.refl _, rfl⟩
  | succ n ih =>
    unfold timersLoop
    simp only []
    obtain ⟨e1, e2⟩ := execAll_sub s.k.timers.length s false
    have h2 : Sub s.k ((execAll s.k.timers.length s false).1.k.handleEndedAll (execAll s.k.timers.length s false).1.now) :=
      e1.trans (handleEnded_sub _ _ _)
    split
    · obtain ⟨i1, i2⟩ := ih { (execAll s.k.timers.length s false).1 with
        k := (execAll s.k.timers.length s false).1.k.handleEndedAll (execAll s.k.timers.length s false).1.now }
      exact ⟨h2.trans i1, by rw [i2]; exact e2⟩
    · exact ⟨h2, e2⟩

theorem outerDelta_none (s : St) (h : SInv s) (hd : outerDelta s = none) : s.k.timers = [] ∧ s.k.heap = [] := by
  unfold outerDelta timeDelta at hd
  cases hh : minDate (s.k.heap.map (·.date)) with
  | none =>
    rw [hh] at hd
    simp only [Option.map] at hd
    cases ht : minDate (s.k.timers.map (·.date)) with
    | none =>
      have e1 := minDate_none ht
      have e2 := minDate_none hh
      simp at e1 e2
      exact ⟨e1, e2⟩
    | some t => rw [ht] at hd; simp at hd
  | some m =>
    exfalso
    rw [hh] at hd
    simp only [Option.map] at hd
    obtain ⟨e, he, hem⟩ := List.mem_map.mp (minDate_mem _ _ hh)
    have := (h.d.heap e he).1
    have hn : m - s.now ≥ 0 := by rw [← hem]; grind
    simp only [hn, if_true] at hd
    cases ht : minDate (s.k.timers.map (·.date)) with
    | none => rw [ht] at hd; simp at hd
    | some t => rw [ht] at hd; simp only [Option.map] at hd; split at hd <;> cases hd

/-- when the run stops (`done`), no timer and no action is pending -/
def NoPend (s : St) : Prop := s.done = true → s.k.timers = [] ∧ s.k.heap = []

theorem sublist_nil {α} {l : List α} (h : l.Sublist []) : l = [] := List.sublist_nil.mp h

theorem outer_noPend (s : St) (h : SInv s) (hdone : s.done = false) : NoPend (outer s) := by
  rw [outer_eq]
  split
  · intro hd; simp only at hd; rw [hdone] at hd; cases hd
  · cases hdl : outerDelta s with
    | some d =>
      intro hd
      exfalso
      obtain ⟨_, t2⟩ := timersLoop_sub ((solveStep s (some d)).k.timers.length + 1) (solveStep s (some d))
      have hsd : (solveStep s (some d)).done = false := by
        unfold solveStep
        simp only [popWindow_done]
        exact hdone
      unfold outerTail at hd
      simp only [Option.isNone, Bool.false_and, Bool.false_eq_true, if_false] at hd
      rw [t2, hsd] at hd; cases hd
    | none =>
      intro _
      obtain ⟨e1, e2⟩ := outerDelta_none s h hdl
      obtain ⟨t1, _⟩ := timersLoop_sub ((solveStep s none).k.timers.length + 1) (solveStep s none)
      have e1' : (solveStep s none).k.timers = [] := e1
      have e2' : (solveStep s none).k.heap = [] := e2
      simp only []
      generalize timersLoop ((solveStep s none).k.timers.length + 1) (solveStep s none) = s2 at t1 ⊢
      have g1 : s2.k.timers = [] := sublist_nil (t1.timers.trans (by rw [e1']; exact List.Sublist.refl _))
      have g2 : s2.k.heap = [] := sublist_nil (t1.heap.trans (by rw [e2']; exact List.Sublist.refl _))
      have hk2 := (shr_foldl_kill s2.k.alive s2.k).sub
      have g3 : (s2.k.alive.foldl (fun k a => k.kill a) s2.k).timers = [] :=
        sublist_nil (hk2.timers.trans (by rw [g1]; exact List.Sublist.refl _))
      have g4 : (s2.k.alive.foldl (fun k a => k.kill a) s2.k).heap = [] :=
        sublist_nil (hk2.heap.trans (by rw [g2]; exact List.Sublist.refl _))
      unfold outerTail
      simp only []
      split <;> (try split) <;>
        first
          | exact ⟨g1, g2⟩
          | exact ⟨g3, g4⟩

theorem step_noPend (s : St) (h : SInv s) (hp : NoPend s) : NoPend (step s) := by
  unfold step
  split
  · exact hp
  · rename_i hc
    have hdone : s.done = false := by
      cases hd : s.done with
      | false => rfl
      | true => exfalso; apply hc; simp [hd]
    split
    · exact outer_noPend s h hdone
    · intro hd
      have : (subround s).done = s.done := by simp [subround]
      rw [this, hdone] at hd; cases hd

theorem run_noPend (n : Nat) (s : St) (h : SInv s) (hp : NoPend s) : NoPend (run n s) := by
  induction n generalizing s with
  | zero => exact hp
  | succ n ih => unfold run; exact ih _ (step_sinv s h) (step_noPend s h hp)

end SgVerif.TimeCore
