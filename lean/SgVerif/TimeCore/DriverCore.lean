import SgVerif.TimeCore.Model
import SgVerif.Common.Proto
/-
Driver shared by C03 and C12.  One line = one program and the log the real library produced for it:

  prog | <ops a0> | <ops a1> ... => <t> <actor> <what> <val> ; <t> <actor> <what> <val> ; ...

(dates already converted by Python from `%a` to exact rationals p/q).  For every line:
  1. the MONITOR `timeOk` is evaluated on the implementation's log alone (program + log, no model):
     stamps monotone, sleeps exact, timeouts at exactly t0+tau, kill at exactly its date, created <= start <= finish,
     completion exactly at start+d, wait_for outcome vs. the natural completion date, wait_any_for spec;
  2. the MODEL is replayed; equal-date choices are resolved by a depth-first search over the oracle, guided by the
     arities the model reports (trace acceptance, DESIGN §3.2): accepted iff some resolution reproduces, actor by
     actor, exactly the implementation's events and dates.
-/
open SgVerif.Proto
namespace SgVerif.TimeCore

def parseRat (s : String) : Option Rat :=
  match s.splitOn "/" with
  | [n, d] => match n.toInt?, d.toNat? with
    | some n, some d => if d = 0 then none else some ((n : Rat) / (d : Rat))
    | _, _ => none
  | [n] => n.toInt?.map (fun n => (n : Rat))
  | _ => none

def parseKind : String → Option Kind
  | "e" => some .exec | "c" => some .comm | "i" => some .io | _ => none

/-- ops of one actor -/
partial def parseOps : List String → Option (List Op)
  | [] => some []
  | "S" :: d :: r => do let d ← parseRat d; let l ← parseOps r; pure (.sleep d :: l)
  | "X" :: k :: kd :: d :: r => do
      let k ← k.toNat?; let kd ← parseKind kd; let d ← parseRat d; let l ← parseOps r; pure (.start k kd d :: l)
  | "G" :: k :: q :: r => do let k ← k.toNat?; let q ← q.toNat?; let l ← parseOps r; pure (.mget k q :: l)
  | "U" :: k :: q :: r => do let k ← k.toNat?; let q ← q.toNat?; let l ← parseOps r; pure (.mput k q :: l)
  | "W" :: k :: r => do let k ← k.toNat?; let l ← parseOps r; pure (.wait k :: l)
  | "F" :: k :: t :: r => do let k ← k.toNat?; let t ← parseRat t; let l ← parseOps r; pure (.waitFor k t :: l)
  | "C" :: k :: t :: r => do let k ← k.toNat?; let t ← parseRat t; let l ← parseOps r; pure (.waitForCancel k t :: l)
  | "T" :: k :: r => do let k ← k.toNat?; let l ← parseOps r; pure (.test k :: l)
  | "K" :: t :: r => do let t ← parseRat t; let l ← parseOps r; pure (.killAt t :: l)
  | "A" :: t :: n :: r => do
      let t ← parseRat t; let n ← n.toNat?
      let ks ← (r.take n).mapM String.toNat?
      if ks.length ≠ n then none
      let l ← parseOps (r.drop n); pure (.waitAny t ks :: l)
  | _ => none

def splitBar (toks : List String) : List (List String) :=
  let rec go (cur : List String) (acc : List (List String)) : List String → List (List String)
    | [] => (cur.reverse :: acc).reverse
    | "|" :: r => go [] (cur.reverse :: acc) r
    | x :: r => go (x :: cur) acc r
  go [] [] toks

def parseProg (q : List String) : Option (List (List Op)) :=
  match q with
  | "prog" :: "|" :: rest => (splitBar rest).mapM parseOps
  | _ => none

structure LEv where
  t : Rat
  actor : Int
  what : String
  val : String
  deriving Repr, Inhabited

def parseEvents (a : List String) : Option (List LEv) :=
  let groups := (splitBar (a.map (fun x => if x == ";" then "|" else x)))
  groups.mapM (fun g => match g with
    | [t, ac, w, v] => do let t ← parseRat t; let ac ← ac.toInt?; pure { t := t, actor := ac, what := w, val := v }
    | _ => none)

/-! ### monitor (on the implementation's log only) -/

def isGridRat (r : Rat) : Bool := 1024 % r.den == 0

def opGrid : Op → Bool
  | .sleep d => isGridRat d && (d ≤ 0 || d ≥ prec)
  | .start _ _ d => isGridRat d
  | .waitFor _ t | .waitForCancel _ t | .waitAny t _ | .killAt t => isGridRat t
  | _ => true

/-- number of log events an op produces when it completes normally is not fixed (times/state), so the monitor walks
the actor's events with the program.  State of the walk: -/
structure MW where
  tcall : Rat := 0                 -- date at which the current op was called (= stamp of the previous event)
  kill : Option Rat := none        -- pending kill date
  slots : List (Nat × Rat × Option Rat) := []   -- slot ↦ (start stamp, natural duration if timed)
  comm : List Nat := []            -- slots holding a comm: two heap phases (latency, transfer), each with its window
  err : Option String := none

/-- how early an activity of slot `s` may complete: one timing precision per heap phase (`no_early_event`) -/
def MW.win (m : MW) (s : Nat) : Rat := if m.comm.contains s then 2 * prec else prec

def MW.slot (m : MW) (s : Nat) : Option (Rat × Option Rat) :=
  (m.slots.find? (fun x => x.1 == s)).map (·.2)

/-- in-window comparison: `x` is `want`, or earlier by less than the timing precision (exactly `want` on grid programs) -/
def okDate (grid : Bool) (x want : Rat) (w : Rat := prec) : Bool := if grid then x == want else (want - w < x && x ≤ want)

partial def monActor (grid : Bool) (tEnd : Rat) (a : Nat) : List Op → List LEv → MW → Option String
  | ops, evs, m =>
    if m.err.isSome then m.err else
    -- a killed/ended actor: check the kill date
    match evs with
    | [] => some s!"actor {a}: log ends without end/killed"
    | e :: erest =>
      -- a kill time set for date kt fires at kt: nothing but `killed` may be observed at or after kt
      let killChk : Option String := match m.kill with
        | some kt => if e.t ≥ kt && e.what != "killed" then some s!"actor {a}: event {e.what} at {e.t}, at/after its kill time {kt}"
                     else if e.what == "killed" && e.t > kt then some s!"actor {a}: killed at {e.t}, after its kill time {kt}"
                     else none
        | none => none
      if killChk.isSome then killChk else
      if e.what == "killed" then
        if !erest.isEmpty then some s!"actor {a}: events after killed" else
        -- legal reasons: its kill time (exactly), or the deadlock detection at the very end of the simulation
        match m.kill with
        | some kt => if e.t == kt || e.t == tEnd then none else some s!"actor {a}: killed at {e.t}, kill time {kt}"
        | none => if e.t == tEnd then none else some s!"actor {a}: killed at {e.t} without a kill time"
      else if e.what == "end" then
        if ops.isEmpty then (if erest.isEmpty then none else some s!"actor {a}: events after end") else some s!"actor {a}: ended before its program"
      else
      match ops with
      | [] => some s!"actor {a}: event {e.what} after the program"
      | op :: orest =>
        let bad (w : String) : Option String := some s!"actor {a}: op {repr op}: {w} (event {e.what} {e.val} at {e.t}, called at {m.tcall})"
        let cont (evs : List LEv) (m : MW) (t : Rat) := monActor grid tEnd a orest evs { m with tcall := t }
        match op with
        | .sleep d =>
          if e.what != "slept" then bad "expected slept" else
          let want := if d ≤ 0 then m.tcall else m.tcall + clampSleep prec d
          if !okDate grid e.t want then bad s!"sleep not exact: want {want}" else cont erest m e.t
        | .start s kd d =>
          if e.what != "started" then bad "expected started" else
          if e.t != m.tcall then bad "start takes time" else
          cont erest { m with slots := (s, e.t, some d) :: m.slots.filter (·.1 != s),
                              comm := if kd == .comm then s :: m.comm else m.comm.filter (· != s) } e.t
        | .mget s _ | .mput s _ =>
          if e.what != "started" then bad "expected started" else
          if e.t != m.tcall then bad "mess start takes time" else
          cont erest { m with slots := (s, e.t, none) :: m.slots.filter (·.1 != s) } e.t
        | .killAt t =>
          if e.what != "killat" then bad "expected killat" else
          if e.t != m.tcall then bad "set_kill_time takes time" else
          cont erest { m with kill := if t > e.t then some t else m.kill } e.t
        | .test s =>
          if e.what != "test" then bad "expected test" else
          if e.t != m.tcall then bad "test takes time" else
          -- a timed activity tests true iff its natural completion date has been reached
          let chk : Option String := match m.slot s with
            | some (st, some d) =>
              if e.val == s!"{s},1" && !(st + d - m.win s < e.t) then bad "test true before the completion date"
              else if e.val == s!"{s},0" && st + d ≤ e.t - prec then bad "test false after the completion date"
              else none
            | _ => none
          if chk.isSome then chk else cont erest m e.t
        | .wait s | .waitFor s _ | .waitForCancel s _ =>
          if e.what != "wait" then bad "expected wait" else
          let tau : Option Rat := match op with | .waitFor _ t | .waitForCancel _ t => (if t ≥ 0 then some t else none) | _ => none
          let isC := match op with | .waitForCancel _ _ => true | _ => false
          let nat : Option Rat := match m.slot s with | some (st, some d) => some (st + d) | _ => none
          if e.val == s!"{s},timeout" then
            match tau with
            | none => bad "timeout without a deadline"
            | some tau =>
              if e.t != m.tcall + tau then bad s!"timeout not at exactly t0+tau = {m.tcall + tau}" else
              -- a completion at (or before) the deadline counts as completed: then no timeout may be raised
              let c : Option String := match nat with
                | some c => if c ≤ m.tcall + tau then bad s!"timeout although the activity completes at {c} <= deadline" else none
                | none => none
              if c.isSome then c else
              -- wait_for_or_cancel: the state line must say CANCELED
              if isC then
                match erest with
                | e2 :: er2 => if e2.what == "state" && e2.val == s!"{s},CANCELED" && e2.t == e.t
                               then cont er2 { m with slots := m.slots.map (fun x => if x.1 == s then (x.1, x.2.1, none) else x) } e.t
                               else bad "wait_for_or_cancel did not cancel"
                | [] => bad "missing state line"
              else cont erest m e.t
          else if e.val == s!"{s},ok" then
            let c1 : Option String := match tau with
              | some tau => if e.t > m.tcall + tau then bad "completion reported after the deadline" else none
              | none => none
            if c1.isSome then c1 else
            -- no completion before its date; and (isolation) completion observed exactly at max(call, start+d)
            let c2 : Option String := match nat with
              | some c =>
                let want := if c < m.tcall then m.tcall else c
                if !(okDate grid e.t want (m.win s)) then bad s!"completion observed at {e.t}, natural date {c}"
                else match tau with
                  | some tau => if c ≥ m.tcall + tau + prec then bad "ok although the activity cannot complete by the deadline" else none
                  | none => none
              | none => none
            if c2.isSome then c2 else
            -- optional `times` and `state` lines
            let (erest, c3) : List LEv × Option String := match erest with
              | e2 :: er2 =>
                if e2.what == "times" then
                  match e2.val.splitOn ",", m.slot s with
                  | [_, st, fi], some (st0, some d) =>
                    match parseRat st, parseRat fi with
                    | some st, some fi =>
                      if st != st0 then (er2, bad s!"start time {st} is not the date of the start {st0}")
                      else if !(st ≤ fi && fi ≤ e2.t) then (er2, bad "not start <= finish <= now")
                      else if !(okDate grid fi (st + d) (m.win s)) then (er2, bad s!"finish time {fi}, natural date {st + d}")
                      else (er2, none)
                    | _, _ => (er2, bad "unparsable times")
                  | _, _ => (er2, bad "unexpected times line")
                else (erest, none)
              | [] => (erest, none)
            if c3.isSome then c3 else
            let erest := if isC then (match erest with | e2 :: er2 => if e2.what == "state" then er2 else erest | [] => erest) else erest
            cont erest { m with slots := m.slots.map (fun x => if x.1 == s then (x.1, x.2.1, x.2.2) else x) } e.t
          else bad "unexpected wait result"
        | .waitAny tau ss =>
          if e.what != "any" then bad "expected any" else
          let dl : Option Rat := if tau ≥ 0 then some (m.tcall + tau) else none
          -- natural completion dates of the timed activities of the set
          let nats : List Rat := ss.filterMap (fun s => match m.slot s with | some (st, some d) => some (st + d) | _ => none)
          if e.val == "timeout" then
            match dl with
            | none => bad "timeout without a deadline"
            | some dl =>
              if e.t != dl then bad s!"wait_any_for timeout not at exactly the deadline {dl}" else
              -- an activity that completed BEFORE the deadline must have been returned
              if nats.any (fun c => c ≤ dl - prec) then bad "timeout although an activity completed before the deadline"
              else cont erest m e.t
          else
            match e.val.toNat? with
            | none => bad "unexpected any result"
            | some s =>
              if !ss.contains s then bad "returned an activity that is not in the set" else
              let c1 : Option String := match dl with
                | some dl => if e.t > dl then bad "returned after the deadline" else none
                | none => none
              if c1.isSome then c1 else
              let c2 : Option String := match m.slot s with
                | some (st, some d) => if !(st + d - m.win s < e.t) then bad "returned an activity before its completion date" else none
                | _ => none
              if c2.isSome then c2 else cont erest m e.t

/-- the property's own decidable predicate, on the implementation's log -/
def timeOk (progs : List (List Op)) (log : List LEv) : Option String :=
  -- (1) the clock never decreases (global log order = order of observation)
  let rec mono : List LEv → Option String
    | a :: b :: r => if b.t < a.t then some s!"clock decreases: {a.t} then {b.t}" else mono (b :: r)
    | _ => none
  match mono log with
  | some e => some e
  | none =>
    let grid := progs.all (fun p => p.all opGrid)
    let rec each (a : Nat) : List (List Op) → Option String
      | [] => none
      | p :: ps =>
        match monActor grid ((log.map (·.t)).foldl (fun m t => if t > m then t else m) 0) a p (log.filter (fun e => e.actor == (a : Int))) {} with
        | some e => some e
        | none => each (a + 1) ps
    each 0 progs

/-! ### model replay with oracle search -/

def modelLog (s : St) (a : Nat) : List (Rat × String × String) :=
  (s.log.filter (fun e => e.2.actor == a)).map (fun e => (e.1, e.2.what, e.2.val))

def implLog (log : List LEv) (a : Nat) : List (Rat × String × String) :=
  (log.filter (fun e => e.actor == (a : Int))).map (fun e => (e.t, e.what, e.val))

def fuelFor (progs : List (List Op)) : Nat := 40 + 12 * (progs.map List.length).sum

def runModel (progs : List (List Op)) (ties : List Nat) : St := run (fuelFor progs) (initSt progs ties)

def agrees (progs : List (List Op)) (log : List LEv) (s : St) : Bool :=
  s.done && s.k.bad.isNone && (List.range progs.length).all (fun a => modelLog s a == implLog log a)

/-- index in the model's global log of the first event on which model and implementation differ (actor by actor) -/
def firstMismatch (progs : List (List Op)) (log : List LEv) (s : St) : Nat :=
  let idxOf (a : Nat) (p : Nat) : Nat :=
    -- global index of the p-th event of actor a (log length if there is none)
    let rec go (l : List (Rat × Ev)) (i cnt : Nat) : Nat :=
      match l with
      | [] => i
      | e :: r => if e.2.actor == a then (if cnt == p then i else go r (i + 1) (cnt + 1)) else go r (i + 1) cnt
    go s.log 0 0
  (List.range progs.length).foldl (fun g a =>
    let m := modelLog s a
    let im := implLog log a
    if m == im then g else
    let p := ((List.range (max m.length im.length)).find? (fun j => m[j]? != im[j]?)).getD 0
    min g (idxOf a p)) s.log.length

/-- next oracle in depth-first order, from the choices made (`c`, padded with 0), their arities and the log length at
which each was made: a choice made after the first mismatch cannot repair it, so only choices made at or before it
are flipped (the last such one that still has an alternative). -/
def nextOracle (c : List Nat) (ar at_ : List Nat) (g : Nat) : Option (List Nat) :=
  let c := (List.range ar.length).map (fun j => c.getD j 0 % (ar.getD j 1))
  let rec go : Nat → Option (List Nat)
    | 0 => none
    | p+1 =>
      if at_.getD p 0 ≤ g && c.getD p 0 + 1 < ar.getD p 1 then some (c.take p ++ [c.getD p 0 + 1]) else go p
  go ar.length

partial def search (progs : List (List Op)) (log : List LEv) (c : List Nat) (budget : Nat) : Option St × St :=
  let s := runModel progs c
  if agrees progs log s then (some s, s)
  else if budget == 0 then (none, s)
  else match nextOracle c s.arities.reverse s.choiceAt.reverse (firstMismatch progs log s) with
    | none => (none, s)
    | some c' => let r := search progs log c' (budget - 1); (r.1, if r.1.isSome then r.2 else s)

def showLog (l : List (Rat × String × String)) : String :=
  ";".intercalate (l.map (fun e => s!"{showRat e.1} {e.2.1} {e.2.2}"))

def judge (q a : List String) : Verdict :=
  match parseProg q with
  | none => .bad
  | some progs =>
    match a with
    | "CRASH" :: _ => .monfail "the implementation crashed"
    | _ =>
    match parseEvents a with
    | none => .bad
    | some log =>
      let log := log.filter (fun e => e.actor ≥ 0)
      match timeOk progs log with
      | some why => .monfail why
      | none =>
        let s0 := runModel progs []
        if s0.k.bad.isSome && (s0.k.bad.getD "").endsWith "fragment" then .bad else
        match search progs log [] 4000 with
        | (some _, _) => .ok
        | (none, s) =>
          let firstBad := (List.range progs.length).find? (fun a => modelLog s0 a != implLog log a)
          match firstBad with
          | some a => .disagree s!"actor{a}:[{showLog (modelLog s0 a)}] bad={s0.k.bad} done={s0.done} lastdone={s.done}"
          | none => .disagree s!"bad={s0.k.bad} done={s0.done}"

end SgVerif.TimeCore
