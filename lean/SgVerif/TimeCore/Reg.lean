import SgVerif.TimeCore.Frame
/-
The registration invariant of the time-core model ("no stale simcall registration"):
every actor that is not dying is registered (`ActivityImpl::simcalls_`) on exactly the activities listed in its
`waiting_synchros_`, with the same multiplicities; an actor that is not blocked in a handled simcall is registered
nowhere and owns no timeout timer; a blocked actor is registered on at most one activity, or — wait_any — on a
sub-multiset of the activities of its simcall; timeout timers and `simcall_.timeout_cb_` point to each other.
This is the invariant that the double registration of the old `MessImpl::wait_for` (fixed by 4c67abe5fd) broke.
-/
namespace SgVerif.TimeCore

/-- the fields of an actor that the registration invariant reads -/
structure AR where
  waiting : List Nat
  tcb : Option Nat
  ktimer : Option Nat
  wd : Bool
  idle : Bool          -- not in a simcall, or in a simcall that maestro has not handled yet
  blocked : Bool
  pend : Bool
  anyList : List Nat
  slotIdx : List Nat
  pidx : List Nat      -- activities named by the pending simcall
  rank : Bool

def Req.idx : Req → List Nat
  | .waitFor i _ => [i]
  | .waitAny is _ => is
  | _ => []

def Actor.idle (x : Actor) : Bool := !x.blocked || x.pending.isSome

def Actor.ar (x : Actor) : AR :=
  { waiting := x.waiting, tcb := x.tcb, ktimer := x.ktimer, wd := x.wannadie, idle := x.idle, blocked := x.blocked,
    pend := x.pending.isSome, anyList := x.anyList, slotIdx := x.slots.map (·.2.1), pidx := (x.pending.map Req.idx).getD [],
    rank := match x.res with | .rank _ => true | _ => false }

def cbActor : Cb → Option Nat
  | .kill _ => none
  | .wto a _ => some a
  | .wany a _ => some a

/-- link from a timeout timer to the simcall it belongs to -/
def TLinkF (ar : Nat → AR) (t : Timer) : Prop :=
  match t.cb with
  | .wto a i => (ar a).tcb = some t.id ∧ ((ar a).wd = false → (ar a).waiting = [i])
  | .wany a is => (ar a).tcb = some t.id ∧
      ((ar a).wd = false → (ar a).anyList = is ∧ ∀ j, (ar a).waiting.count j ≤ is.count j)
  | .kill _ => True

def AR.shape (x : AR) : Prop := x.waiting.length ≤ 1 ∨ ∀ j, x.waiting.count j ≤ x.anyList.count j

structure RegInvF (sim : Nat → List Nat) (ar : Nat → AR) (timers : List Timer) (nextT nimpl : Nat) : Prop where
  cnt : ∀ a i, (ar a).wd = false → (sim i).count a = (ar a).waiting.count i
  idle : ∀ a, (ar a).wd = false → (ar a).idle = true → (ar a).waiting = [] ∧ (ar a).tcb = none
  shape : ∀ a, (ar a).wd = false → (ar a).shape
  tid : ∀ t ∈ timers, t.id < nextT
  tnd : (timers.map (·.id)).Nodup
  tlink : ∀ t ∈ timers, TLinkF ar t
  rev : ∀ a id, (ar a).tcb = some id → ∃ t ∈ timers, t.id = id ∧ cbActor t.cb = some a
  klink : ∀ a id, (ar a).ktimer = some id → id < nextT ∧ ∀ t ∈ timers, t.id = id → cbActor t.cb = none
  slots : ∀ a, ∀ i ∈ (ar a).slotIdx, i < nimpl
  pidx : ∀ a, ∀ i ∈ (ar a).pidx, i < nimpl
  rank : ∀ a, (ar a).rank = true → 0 < nimpl
  pb : ∀ a, (ar a).wd = false → (ar a).pend = true → (ar a).blocked = true

def K.simF (k : K) : Nat → List Nat := fun i => (k.impl i).simcalls
def K.arF (k : K) : Nat → AR := fun a => (k.actor a).ar

def RegInv (k : K) : Prop := RegInvF k.simF k.arF k.timers k.nextT k.impls.length

/-- no timeout timer of actor `a` is pending -/
def NT (timers : List Timer) (a : Nat) : Prop := ∀ t ∈ timers, cbActor t.cb ≠ some a

/-! ### the frame: functions that touch none of the fields the invariant reads -/

structure RSame (k k' : K) : Prop where
  sim : k'.simF = k.simF
  ar : k'.arF = k.arF
  timers : k'.timers = k.timers
  nextT : k'.nextT = k.nextT
  nimpl : k'.impls.length = k.impls.length

theorem RSame.refl (k : K) : RSame k k := ⟨rfl, rfl, rfl, rfl, rfl⟩
theorem RSame.trans {k1 k2 k3 : K} (h1 : RSame k1 k2) (h2 : RSame k2 k3) : RSame k1 k3 :=
  ⟨h2.sim.trans h1.sim, h2.ar.trans h1.ar, h2.timers.trans h1.timers, h2.nextT.trans h1.nextT,
   h2.nimpl.trans h1.nimpl⟩

theorem RegInv.same {k k' : K} (h : RegInv k) (s : RSame k k') : RegInv k' := by
  unfold RegInv at h ⊢
  rw [s.sim, s.ar, s.timers, s.nextT, s.nimpl]; exact h

theorem rsame_setActor (k : K) (a : Nat) (f : Actor → Actor) (hf : ∀ x, (f x).ar = x.ar) :
    RSame k (k.setActor a f) := by
  refine ⟨rfl, ?_, rfl, rfl, rfl⟩
  funext b
  unfold K.arF
  exact actor_setActor_proj Actor.ar k a b f hf

theorem rsame_setImpl (k : K) (i : Nat) (f : Impl → Impl) (hf : ∀ x, (f x).simcalls = x.simcalls) :
    RSame k (k.setImpl i f) := by
  refine ⟨?_, rfl, rfl, rfl, by simp⟩
  funext j
  unfold K.simF
  exact impl_setImpl_proj (·.simcalls) k i j f hf

theorem rsame_of (k k' : K) (h1 : k'.impls = k.impls) (h2 : k'.actors = k.actors) (h3 : k'.timers = k.timers)
    (h4 : k'.nextT = k.nextT) : RSame k k' := by
  refine ⟨?_, ?_, h3, h4, by rw [h1]⟩
  · funext i; unfold K.simF K.impl; rw [h1]
  · funext a; unfold K.arF K.actor; rw [h2]

theorem rsame_impls (k k' : K) (h1 : k'.impls.map (·.simcalls) = k.impls.map (·.simcalls))
    (h2 : k'.actors = k.actors) (h3 : k'.timers = k.timers) (h4 : k'.nextT = k.nextT) : RSame k k' := by
  refine ⟨?_, ?_, h3, h4, by have := congrArg List.length h1; simpa using this⟩
  · funext i
    have := congrArg (fun l => l.getD i []) h1
    simp only [List.getD_eq_getElem?_getD, List.getElem?_map] at this
    unfold K.simF K.impl
    simp only [List.getD_eq_getElem?_getD]
    cases h1 : k'.impls[i]? <;> cases h2 : k.impls[i]? <;> simp_all
  · funext a; unfold K.arF K.actor; rw [h2]

theorem rsame_cancel (k : K) (i : Nat) : RSame k (k.cancel i) := by
  unfold K.cancel
  simp only []
  split <;> (try split) <;>
    (apply rsame_impls <;> (try rfl) <;> (simp only [K.setImpl]; repeat rw [map_upd_inv]) <;> (try (intro _; rfl)))

theorem rsame_foldl_cancel (l : List Nat) (k : K) : RSame k (l.foldl (fun k i => k.cancel i) k) := by
  induction l generalizing k with
  | nil => exact RSame.refl k
  | cons x xs ih => exact (rsame_cancel k x).trans (ih _)

theorem rsame_addToRun (k : K) (a : Nat) : RSame k (k.addToRun a) := by
  unfold K.addToRun; split
  · exact RSame.refl k
  · exact rsame_of _ _ rfl rfl rfl rfl

/-! ### the invariant under the elementary updates -/

def updF {β} (f : Nat → β) (a : Nat) (v : β) : Nat → β := fun b => if b = a then v else f b

@[simp] theorem updF_same {β} (f : Nat → β) (a : Nat) (v : β) : updF f a v a = v := by simp [updF]
theorem updF_ne {β} (f : Nat → β) (a b : Nat) (v : β) (h : b ≠ a) : updF f a v b = f b := by simp [updF, h]

theorem tlinkF_updF_ne (ar : Nat → AR) (a : Nat) (x : AR) (t : Timer) (h : cbActor t.cb ≠ some a) :
    TLinkF (updF ar a x) t ↔ TLinkF ar t := by
  unfold TLinkF
  cases hc : t.cb with
  | kill b => simp
  | wto b i =>
    have : b ≠ a := by intro e; apply h; rw [hc, e]; rfl
    simp [updF_ne _ _ _ _ this]
  | wany b is =>
    have : b ≠ a := by intro e; apply h; rw [hc, e]; rfl
    simp [updF_ne _ _ _ _ this]

/-- update of one actor's record (and of the registrations), timers unchanged -/
theorem RegInvF.upd {sim : Nat → List Nat} {ar : Nat → AR} {T : List Timer} {n m : Nat}
    (h : RegInvF sim ar T n m) (a : Nat) (x : AR) (sim' : Nat → List Nat)
    (hcnt : ∀ b i, (updF ar a x b).wd = false → (sim' i).count b = (updF ar a x b).waiting.count i)
    (hidle : x.wd = false → x.idle = true → x.waiting = [] ∧ x.tcb = none)
    (hshape : x.wd = false → x.shape)
    (htl : ∀ t ∈ T, cbActor t.cb = some a → TLinkF (updF ar a x) t)
    (hrev : ∀ id, x.tcb = some id → ∃ t ∈ T, t.id = id ∧ cbActor t.cb = some a)
    (hk : ∀ id, x.ktimer = some id → id < n ∧ ∀ t ∈ T, t.id = id → cbActor t.cb = none)
    (hslots : ∀ i ∈ x.slotIdx, i < m) (hp : ∀ i ∈ x.pidx, i < m) (hr : x.rank = true → 0 < m)
    (hpb : x.wd = false → x.pend = true → x.blocked = true) :
    RegInvF sim' (updF ar a x) T n m := by
  refine ⟨hcnt, ?_, ?_, h.tid, h.tnd, ?_, ?_, ?_, ?_, ?_, ?_, ?_⟩
  · intro b; by_cases hb : b = a
    · subst hb; simpa using hidle
    · rw [updF_ne _ _ _ _ hb]; exact h.idle b
  · intro b; by_cases hb : b = a
    · subst hb; simpa using hshape
    · rw [updF_ne _ _ _ _ hb]; exact h.shape b
  · intro t ht
    by_cases hc : cbActor t.cb = some a
    · exact htl t ht hc
    · exact (tlinkF_updF_ne ar a x t hc).mpr (h.tlink t ht)
  · intro b; by_cases hb : b = a
    · subst hb; simpa using hrev
    · rw [updF_ne _ _ _ _ hb]; exact h.rev b
  · intro b; by_cases hb : b = a
    · subst hb; simpa using hk
    · rw [updF_ne _ _ _ _ hb]; exact h.klink b
  · intro b; by_cases hb : b = a
    · subst hb; simpa using hslots
    · rw [updF_ne _ _ _ _ hb]; exact h.slots b
  · intro b; by_cases hb : b = a
    · subst hb; simpa using hp
    · rw [updF_ne _ _ _ _ hb]; exact h.pidx b
  · intro b; by_cases hb : b = a
    · subst hb; simpa using hr
    · rw [updF_ne _ _ _ _ hb]; exact h.rank b
  · intro b; by_cases hb : b = a
    · subst hb; simpa using hpb
    · rw [updF_ne _ _ _ _ hb]; exact h.pb b

theorem eq_of_nodup_map_id {T : List Timer} (h : (T.map (·.id)).Nodup) {t1 t2 : Timer} (h1 : t1 ∈ T) (h2 : t2 ∈ T)
    (he : t1.id = t2.id) : t1 = t2 := by
  induction T with
  | nil => simp at h1
  | cons x xs ih =>
    simp only [List.map_cons, List.nodup_cons, List.mem_map, not_exists, not_and] at h
    rcases List.mem_cons.mp h1 with h1 | h1 <;> rcases List.mem_cons.mp h2 with h2 | h2
    · rw [h1, h2]
    · exact absurd (by rw [← h1]; exact he.symm) (h.1 t2 h2)
    · exact absurd (by rw [← h2]; exact he) (h.1 t1 h1)
    · exact ih h.2 h1 h2

/-- the timers of actor `a` go away (its timeout fired, was removed by a completion, or the actor died), its record is
updated to `x` (without timeout timer) -/
theorem RegInvF.dropTimers {sim : Nat → List Nat} {ar : Nat → AR} {T : List Timer} {n m : Nat}
    (h : RegInvF sim ar T n m) (a : Nat) (x : AR) (sim' : Nat → List Nat) (T' : List Timer)
    (hsub : T'.Sublist T) (hnt : NT T' a) (hkeep : ∀ t ∈ T, cbActor t.cb ≠ some a → t ∈ T')
    (hcnt : ∀ b i, (updF ar a x b).wd = false → (sim' i).count b = (updF ar a x b).waiting.count i)
    (hidle : x.wd = false → x.idle = true → x.waiting = [])
    (hshape : x.wd = false → x.shape)
    (htcb : x.tcb = none)
    (hk : ∀ id, x.ktimer = some id → id < n ∧ ∀ t ∈ T, t.id = id → cbActor t.cb = none)
    (hslots : ∀ i ∈ x.slotIdx, i < m) (hp : ∀ i ∈ x.pidx, i < m) (hr : x.rank = true → 0 < m)
    (hpb : x.wd = false → x.pend = true → x.blocked = true) :
    RegInvF sim' (updF ar a x) T' n m := by
  refine ⟨hcnt, ?_, ?_, fun t ht => h.tid t (hsub.subset ht), (hsub.map _).nodup h.tnd, ?_, ?_, ?_, ?_, ?_, ?_, ?_⟩
  · intro b; by_cases hb : b = a
    · subst hb; simp only [updF_same]; intro h1 h2; exact ⟨hidle h1 h2, htcb⟩
    · rw [updF_ne _ _ _ _ hb]; exact h.idle b
  · intro b; by_cases hb : b = a
    · subst hb; simpa using hshape
    · rw [updF_ne _ _ _ _ hb]; exact h.shape b
  · intro t ht
    exact (tlinkF_updF_ne ar a x t (hnt t ht)).mpr (h.tlink t (hsub.subset ht))
  · intro b; by_cases hb : b = a
    · subst hb; simp [htcb]
    · rw [updF_ne _ _ _ _ hb]
      intro id hid
      obtain ⟨t, ht, h1, h2⟩ := h.rev b id hid
      exact ⟨t, hkeep t ht (by rw [h2]; intro e; injection e with e; exact hb e), h1, h2⟩
  · intro b; by_cases hb : b = a
    · subst hb; simp only [updF_same]
      intro id hid
      exact ⟨(hk id hid).1, fun t ht => (hk id hid).2 t (hsub.subset ht)⟩
    · rw [updF_ne _ _ _ _ hb]
      intro id hid
      exact ⟨(h.klink b id hid).1, fun t ht => (h.klink b id hid).2 t (hsub.subset ht)⟩
  · intro b; by_cases hb : b = a
    · subst hb; simpa using hslots
    · rw [updF_ne _ _ _ _ hb]; exact h.slots b
  · intro b; by_cases hb : b = a
    · subst hb; simpa using hp
    · rw [updF_ne _ _ _ _ hb]; exact h.pidx b
  · intro b; by_cases hb : b = a
    · subst hb; simpa using hr
    · rw [updF_ne _ _ _ _ hb]; exact h.rank b
  · intro b; by_cases hb : b = a
    · subst hb; simpa using hpb
    · rw [updF_ne _ _ _ _ hb]; exact h.pb b

/-- `Timer::remove()` of the timer named by `timeout_cb_`: exactly the timers of that actor disappear -/
theorem RegInvF.filter_tcb {sim : Nat → List Nat} {ar : Nat → AR} {T : List Timer} {n m : Nat}
    (h : RegInvF sim ar T n m) (a id : Nat) (hid : (ar a).tcb = some id) :
    NT (T.filter (fun t => t.id != id)) a ∧ ∀ t ∈ T, cbActor t.cb ≠ some a → t ∈ T.filter (fun t => t.id != id) := by
  constructor
  · intro t ht hc
    obtain ⟨ht1, ht2⟩ := List.mem_filter.mp ht
    have := h.tlink t ht1
    unfold TLinkF at this
    cases hcb : t.cb with
    | kill b => rw [hcb] at hc; cases hc
    | wto b i =>
      rw [hcb] at hc; simp only [hcb] at this; injection hc with hc; subst hc
      rw [hid] at this; injection this.1 with e
      simp [e] at ht2
    | wany b is =>
      rw [hcb] at hc; simp only [hcb] at this; injection hc with hc; subst hc
      rw [hid] at this; injection this.1 with e
      simp [e] at ht2
  · intro t ht hc
    refine List.mem_filter.mpr ⟨ht, ?_⟩
    obtain ⟨t0, ht0, h1, h2⟩ := h.rev a id hid
    simp only [bne_iff_ne, ne_eq]
    intro e
    have := eq_of_nodup_map_id h.tnd ht ht0 (e.trans h1.symm)
    rw [this] at hc
    exact hc h2

theorem NT_of_tcb_none {sim : Nat → List Nat} {ar : Nat → AR} {T : List Timer} {n m : Nat}
    (h : RegInvF sim ar T n m) (a : Nat) (hid : (ar a).tcb = none) : NT T a := by
  intro t ht hc
  have := h.tlink t ht
  unfold TLinkF at this
  cases hcb : t.cb with
  | kill b => rw [hcb] at hc; cases hc
  | wto b i =>
    rw [hcb] at hc; simp only [hcb] at this; injection hc with hc; subst hc; rw [hid] at this; cases this.1
  | wany b is =>
    rw [hcb] at hc; simp only [hcb] at this; injection hc with hc; subst hc; rw [hid] at this; cases this.1

theorem updF_self {β} (f : Nat → β) (a : Nat) : updF f a (f a) = f := by
  funext b; unfold updF; split
  · rename_i h; rw [h]
  · rfl

theorem count_erase_le (l : List Nat) (a j : Nat) : (l.erase a).count j ≤ l.count j :=
  List.Sublist.count_le j List.erase_sublist

theorem AR.shape_erase (x : AR) (i : Nat) (h : x.shape) : ({ x with waiting := x.waiting.erase i } : AR).shape := by
  rcases h with h | h
  · left; exact Nat.le_trans (List.Sublist.length_le List.erase_sublist) h
  · right; intro j; exact Nat.le_trans (count_erase_le _ _ _) (h j)

/-- `unregister_simcall(i, a)` when `a` has no timeout timer -/
theorem RegInvF.unreg {sim : Nat → List Nat} {ar : Nat → AR} {T : List Timer} {n m : Nat}
    (h : RegInvF sim ar T n m) (i a : Nat) (hnt : NT T a) :
    RegInvF (updF sim i ((sim i).erase a)) (updF ar a { ar a with waiting := (ar a).waiting.erase i }) T n m := by
  refine h.upd a _ _ ?_ ?_ ?_ ?_ ?_ (h.klink a) (h.slots a) (h.pidx a) (h.rank a) (h.pb a)
  · intro b j hwd
    by_cases hb : b = a
    · subst hb
      simp only [updF_same] at hwd ⊢
      by_cases hj : j = i
      · subst hj; simp only [updF_same]
        rw [List.count_erase_self, List.count_erase_self, h.cnt b j hwd]
      · rw [updF_ne _ _ _ _ hj, List.count_erase_of_ne hj]; exact h.cnt b j hwd
    · rw [updF_ne _ _ _ _ hb] at hwd ⊢
      by_cases hj : j = i
      · subst hj; simp only [updF_same]
        rw [List.count_erase_of_ne hb]; exact h.cnt b j hwd
      · rw [updF_ne _ _ _ _ hj]; exact h.cnt b j hwd
  · intro hwd hid
    obtain ⟨h1, h2⟩ := h.idle a hwd hid
    exact ⟨by simp [h1], h2⟩
  · intro hwd; exact AR.shape_erase _ _ (h.shape a hwd)
  · intro t ht hc; exact absurd hc (hnt t ht)
  · intro id hid; exact h.rev a id hid

/-- an update of actor `a` that keeps its registrations, timers and wait_any list (answering it, issuing a simcall,
taking the pending simcall, binding a slot): allowed as long as the actor is clean whenever it becomes idle -/
theorem RegInvF.flags {sim : Nat → List Nat} {ar : Nat → AR} {T : List Timer} {n m : Nat}
    (h : RegInvF sim ar T n m) (a : Nat) (x : AR) (hw : x.waiting = (ar a).waiting) (ht : x.tcb = (ar a).tcb)
    (hkt : x.ktimer = (ar a).ktimer) (hwd : x.wd = (ar a).wd) (han : x.anyList = (ar a).anyList)
    (hsl : ∀ i ∈ x.slotIdx, i < m) (hpi : ∀ i ∈ x.pidx, i < m) (hrk : x.rank = true → 0 < m)
    (hclean : (ar a).wd = false → x.idle = true → (ar a).waiting = [] ∧ (ar a).tcb = none)
    (hpb : x.wd = false → x.pend = true → x.blocked = true) :
    RegInvF sim (updF ar a x) T n m := by
  refine h.upd a x sim ?_ ?_ ?_ ?_ ?_ ?_ hsl hpi hrk hpb
  · intro b j hb
    by_cases hba : b = a
    · subst hba; simp only [updF_same] at hb ⊢; rw [hw]; exact h.cnt b j (by rw [← hwd]; exact hb)
    · rw [updF_ne _ _ _ _ hba] at hb ⊢; exact h.cnt b j hb
  · intro h1 h2; rw [hw, ht]; exact hclean (by rw [← hwd]; exact h1) h2
  · intro h1
    have := h.shape a (by rw [← hwd]; exact h1)
    unfold AR.shape at this ⊢
    rw [hw, han]; exact this
  · intro t ht' hc
    have := h.tlink t ht'
    unfold TLinkF at this ⊢
    cases hcb : t.cb with
    | kill b => trivial
    | wto b i =>
      rw [hcb] at hc; injection hc with hc; subst hc
      simp only [hcb] at this
      simp only [updF_same, ht, hwd, hw]; exact this
    | wany b is =>
      rw [hcb] at hc; injection hc with hc; subst hc
      simp only [hcb] at this
      simp only [updF_same, ht, hwd, hw, han]; exact this
  · intro id hid; rw [ht] at hid; exact h.rev a id hid
  · intro id hid; rw [hkt] at hid; exact h.klink a id hid

/-! ### concrete effect of `setActor` / `setImpl` on the view -/

theorem arF_setActor (k : K) (a : Nat) (f : Actor → Actor) (ha : a < k.actors.length) :
    (k.setActor a f).arF = updF k.arF a (f (k.actor a)).ar := by
  funext b
  unfold K.arF updF
  rw [actor_setActor]
  by_cases hb : b = a
  · simp [hb, ha]
  · simp [hb]

theorem simF_setImpl (k : K) (i : Nat) (f : Impl → Impl) (hi : i < k.impls.length) :
    (k.setImpl i f).simF = updF k.simF i (f (k.impl i)).simcalls := by
  funext b
  unfold K.simF updF
  rw [impl_setImpl]
  by_cases hb : b = i
  · simp [hb, hi]
  · simp [hb]

/-- … also for an index out of range when the update maps the default record to itself -/
theorem arF_setActor_fix (k : K) (a : Nat) (f : Actor → Actor) (hfix : (f dfltActor).ar = dfltActor.ar) :
    (k.setActor a f).arF = updF k.arF a (f (k.actor a)).ar := by
  by_cases ha : a < k.actors.length
  · exact arF_setActor k a f ha
  · have hge : k.actors.length ≤ a := by omega
    rw [setActor_of_ge _ _ _ hge, actor_of_ge _ _ hge, hfix]
    have : dfltActor.ar = k.arF a := by unfold K.arF; rw [actor_of_ge _ _ hge]
    rw [this, updF_self]

theorem simF_setImpl_fix (k : K) (i : Nat) (f : Impl → Impl) (hfix : (f dfltImpl).simcalls = dfltImpl.simcalls) :
    (k.setImpl i f).simF = updF k.simF i (f (k.impl i)).simcalls := by
  by_cases hi : i < k.impls.length
  · exact simF_setImpl k i f hi
  · have hge : k.impls.length ≤ i := by omega
    rw [setImpl_of_ge _ _ _ hge, impl_of_ge _ _ hge, hfix]
    have : dfltImpl.simcalls = k.simF i := by unfold K.simF; rw [impl_of_ge _ _ hge]
    rw [this, updF_self]

theorem RegInv.mk' (k' : K) {sim : Nat → List Nat} {ar : Nat → AR} {T : List Timer} {n m : Nat}
    (h : RegInvF sim ar T n m) (hs : k'.simF = sim) (ha : k'.arF = ar) (hT : k'.timers = T) (hn : k'.nextT = n)
    (hm : k'.impls.length = m) : RegInv k' := by
  unfold RegInv; rw [hs, ha, hT, hn, hm]; exact h

theorem unregister_reg (k : K) (i a : Nat) (h : RegInv k) (hnt : NT k.timers a) : RegInv (k.unregister i a) := by
  refine RegInv.mk' _ (RegInvF.unreg h i a hnt) ?_ ?_ rfl rfl (by simp [K.unregister])
  · show (k.setImpl i _).simF = _
    rw [simF_setImpl_fix _ _ _ (by rfl)]; rfl
  · unfold K.unregister
    rw [arF_setActor_fix _ _ _ (by rfl)]; rfl

theorem updF_updF {β} (f : Nat → β) (a : Nat) (v w : β) : updF (updF f a v) a w = updF f a w := by
  funext b; unfold updF; split <;> rfl

theorem arF_unregister (k : K) (i a : Nat) :
    (k.unregister i a).arF = updF k.arF a { k.arF a with waiting := (k.arF a).waiting.erase i } := by
  unfold K.unregister
  rw [arF_setActor_fix _ _ _ (by rfl)]; rfl

theorem foldl_unregister_reg (l : List Nat) (a : Nat) (k : K) (h : RegInv k) (hnt : NT k.timers a) :
    RegInv (l.foldl (fun k j => k.unregister j a) k) ∧ (l.foldl (fun k j => k.unregister j a) k).timers = k.timers ∧
    (l.foldl (fun k j => k.unregister j a) k).arF =
      updF k.arF a { k.arF a with waiting := l.foldl (fun w j => w.erase j) (k.arF a).waiting } := by
  induction l generalizing k with
  | nil => exact ⟨h, rfl, by simp [updF_self]⟩
  | cons x xs ih =>
    simp only [List.foldl]
    have h1 := unregister_reg k x a h hnt
    have ht : (k.unregister x a).timers = k.timers := rfl
    obtain ⟨i1, i2, i3⟩ := ih (k.unregister x a) h1 (by rw [ht]; exact hnt)
    refine ⟨i1, i2.trans ht, ?_⟩
    rw [i3, arF_unregister, updF_updF]
    simp only [updF_same]

theorem count_foldl_erase (l w : List Nat) (j : Nat) :
    (l.foldl (fun w j => w.erase j) w).count j = w.count j - l.count j := by
  induction l generalizing w with
  | nil => simp
  | cons x xs ih =>
    simp only [List.foldl]
    rw [ih, List.count_cons]
    by_cases hx : x = j
    · subst hx; simp [List.count_erase_self]; omega
    · have : (x == j) = false := by simpa using hx
      simp [this, List.count_erase_of_ne (Ne.symm hx)]

theorem eq_nil_of_count_zero (w : List Nat) (h : ∀ j, w.count j = 0) : w = [] := by
  cases w with
  | nil => rfl
  | cons x xs => have := h x; simp at this

/-- validity of the indices met in a registration list -/
theorem RegInv.valid_of_mem {k : K} (h : RegInv k) (i a : Nat) (ha : a ∈ (k.impl i).simcalls) :
    a < k.actors.length ∧ i < k.impls.length := by
  constructor
  · by_cases hlt : a < k.actors.length
    · exact hlt
    · exfalso
      have hge : k.actors.length ≤ a := by omega
      have hd := actor_of_ge k a hge
      have h1 := h.cnt a i (by show (k.actor a).ar.wd = false; rw [hd]; rfl)
      have h2 : (k.arF a).waiting = [] := by show (k.actor a).ar.waiting = []; rw [hd]; rfl
      rw [h2] at h1
      have : 0 < (k.simF i).count a := List.count_pos_iff.mpr ha
      simp at h1; omega
  · by_cases hlt : i < k.impls.length
    · exact hlt
    · exfalso
      rw [impl_of_ge k i (by omega)] at ha
      simp [dfltImpl] at ha

/-- `unregister_first_simcall`, first two stages: pop the front simcall `a` of activity `i`, forget `i` in the
actor's `waiting_synchros_`, remove its timeout timer -/
theorem RegInvF.ufDrop {sim : Nat → List Nat} {ar : Nat → AR} {T : List Timer} {n m : Nat}
    (h : RegInvF sim ar T n m) (i a : Nat) (rest : List Nat) (hs : sim i = a :: rest) (T' : List Timer)
    (hsub : T'.Sublist T) (hnt : NT T' a) (hkeep : ∀ t ∈ T, cbActor t.cb ≠ some a → t ∈ T') :
    RegInvF (updF sim i rest)
      (updF ar a { ar a with waiting := (ar a).waiting.erase i, tcb := none }) T' n m := by
  refine h.dropTimers a _ _ T' hsub hnt hkeep ?_ ?_ ?_ rfl (h.klink a) (h.slots a) (h.pidx a) (h.rank a) (h.pb a)
  · intro b j hwd
    by_cases hb : b = a
    · subst hb
      simp only [updF_same] at hwd ⊢
      by_cases hj : j = i
      · subst hj; simp only [updF_same]
        have := h.cnt b j hwd
        rw [hs, List.count_cons] at this
        simp only [beq_self_eq_true, if_true] at this
        rw [List.count_erase_self, ← this]; omega
      · rw [updF_ne _ _ _ _ hj, List.count_erase_of_ne hj]; exact h.cnt b j hwd
    · rw [updF_ne _ _ _ _ hb] at hwd ⊢
      by_cases hj : j = i
      · subst hj; simp only [updF_same]
        have := h.cnt b j hwd
        rw [hs, List.count_cons] at this
        have hne : (a == b) = false := by simpa using (Ne.symm hb)
        simp only [hne] at this
        simpa using this
      · rw [updF_ne _ _ _ _ hj]; exact h.cnt b j hwd
  · intro hwd hid
    have := (h.idle a hwd hid).1
    simp [this]
  · intro hwd
    have := AR.shape_erase _ i (h.shape a hwd)
    unfold AR.shape at this ⊢
    exact this

theorem uf1_tcb (k : K) (i a : Nat) : ((k.uf1 i a).actor a).tcb = (k.actor a).tcb := by
  unfold K.uf1
  exact actor_setActor_proj (·.tcb) _ a a _ (by intro _; rfl)

theorem uf12_reg (k : K) (i a : Nat) (rest : List Nat) (h : RegInv k) (hs : (k.impl i).simcalls = a :: rest) :
    RegInv ((k.uf1 i a).uf2 a) ∧ NT ((k.uf1 i a).uf2 a).timers a ∧
    ((k.uf1 i a).uf2 a).arF = updF k.arF a { k.arF a with waiting := (k.arF a).waiting.erase i, tcb := none } := by
  obtain ⟨hva, hvi⟩ := h.valid_of_mem i a (by rw [hs]; simp)
  have hsim : (k.uf1 i a).simF = updF k.simF i rest := by
    unfold K.uf1
    show (k.setImpl i _).simF = _
    rw [simF_setImpl _ _ _ hvi]; simp only [hs]; rfl
  have har : (k.uf1 i a).arF = updF k.arF a { k.arF a with waiting := (k.arF a).waiting.erase i } := by
    unfold K.uf1
    rw [arF_setActor_fix _ _ _ (by rfl)]; rfl
  have hlen : (k.uf1 i a).impls.length = k.impls.length := by simp [K.uf1]
  have ht1 : (k.uf1 i a).timers = k.timers := rfl
  have hn1 : (k.uf1 i a).nextT = k.nextT := rfl
  unfold K.uf2
  rw [uf1_tcb]
  cases htcb : (k.actor a).tcb with
  | none =>
    simp only []
    have hnt := NT_of_tcb_none h a (by show (k.actor a).ar.tcb = none; exact htcb)
    have hx : ({ k.arF a with waiting := (k.arF a).waiting.erase i, tcb := none } : AR) =
        { k.arF a with waiting := (k.arF a).waiting.erase i } := by
      have : (k.arF a).tcb = none := htcb
      rw [← this]
    refine ⟨?_, by rw [ht1]; exact hnt, by rw [har, hx]⟩
    exact RegInv.mk' _ (RegInvF.ufDrop h i a rest hs k.timers (List.Sublist.refl _) hnt (fun t ht _ => ht))
      hsim (by rw [har, hx]) ht1 hn1 hlen
  | some id =>
    simp only []
    obtain ⟨hnt, hkeep⟩ := RegInvF.filter_tcb h a id (by show (k.actor a).ar.tcb = some id; exact htcb)
    have har2 : (((k.uf1 i a).timerRemove id).setActor a fun x => { x with tcb := none }).arF =
        updF k.arF a { k.arF a with waiting := (k.arF a).waiting.erase i, tcb := none } := by
      rw [arF_setActor_fix _ _ _ (by rfl)]
      show updF (k.uf1 i a).arF a _ = _
      rw [har, updF_updF]
      congr 1
      show ({ ((k.uf1 i a).actor a) with tcb := none } : Actor).ar = _
      have e : (k.uf1 i a).actor a = { k.actor a with waiting := (k.actor a).waiting.erase i } := by
        unfold K.uf1; rw [actor_setActor]; simp [hva]
      rw [e]; rfl
    refine ⟨?_, hnt, har2⟩
    exact RegInv.mk' _ (RegInvF.ufDrop h i a rest hs _ List.filter_sublist hnt hkeep)
      hsim har2 rfl hn1 (by rw [← hlen]; simp [K.timerRemove])

theorem RegInv.valid_of_wd {k : K} (a : Nat) (h : (k.arF a).wd = true) : a < k.actors.length := by
  by_cases hlt : a < k.actors.length
  · exact hlt
  · exfalso
    have : (k.arF a).wd = false := by
      show (k.actor a).ar.wd = false; rw [actor_of_ge k a (by omega)]; rfl
    rw [this] at h; cases h

/-- a frame update of actor `a` on a valid index, stated on the view -/
theorem RegInv.flags {k : K} (h : RegInv k) (a : Nat) (f : Actor → Actor)
    (hw : (f (k.actor a)).waiting = (k.actor a).waiting) (ht : (f (k.actor a)).tcb = (k.actor a).tcb)
    (hkt : (f (k.actor a)).ktimer = (k.actor a).ktimer)
    (hwd : (f (k.actor a)).wannadie = (k.actor a).wannadie) (han : (f (k.actor a)).anyList = (k.actor a).anyList)
    (hsl : ∀ i ∈ (f (k.actor a)).ar.slotIdx, i < k.impls.length)
    (hpi : ∀ i ∈ (f (k.actor a)).ar.pidx, i < k.impls.length)
    (hrk : (f (k.actor a)).ar.rank = true → 0 < k.impls.length)
    (hclean : (k.actor a).wannadie = false → (f (k.actor a)).idle = true →
      (k.actor a).waiting = [] ∧ (k.actor a).tcb = none)
    (hpb : (f (k.actor a)).wannadie = false → (f (k.actor a)).pending.isSome = true →
      (f (k.actor a)).blocked = true) :
    RegInv (k.setActor a f) := by
  by_cases ha : a < k.actors.length
  · refine RegInv.mk' _ (RegInvF.flags h a (f (k.actor a)).ar ?_ ?_ ?_ ?_ ?_ hsl hpi hrk ?_ hpb) rfl
      (arF_setActor k a f ha) rfl rfl rfl
    · exact hw
    · exact ht
    · exact hkt
    · exact hwd
    · exact han
    · exact hclean
  · rw [setActor_of_ge _ _ _ (by omega)]; exact h

theorem uf3_reg (k : K) (i a : Nat) (h : RegInv k) (hnt : NT k.timers a) (hi : i < k.impls.length) :
    RegInv (k.uf3 i a) ∧ (k.uf3 i a).timers = k.timers ∧
    ((k.uf3 i a).arF a).waiting = (if (k.arF a).anyList.isEmpty then (k.arF a).waiting
        else (k.arF a).anyList.foldl (fun w j => w.erase j) (k.arF a).waiting) ∧
    ((k.uf3 i a).arF a).tcb = (k.arF a).tcb ∧ ((k.uf3 i a).arF a).wd = (k.arF a).wd ∧
    ((k.uf3 i a).arF a).blocked = (k.arF a).blocked := by
  unfold K.uf3
  split
  · rename_i he
    have : (k.arF a).anyList.isEmpty = true := he
    refine ⟨h, rfl, ?_, rfl, rfl, rfl⟩
    simp [this]
  · rename_i he
    have he' : (k.arF a).anyList.isEmpty = false := by
      have : ¬ (k.arF a).anyList.isEmpty = true := he
      simpa using this
    obtain ⟨h1, h2, h3⟩ := foldl_unregister_reg (k.actor a).anyList a k h hnt
    have h4 : RegInv ((List.foldl (fun k j => k.unregister j a) k (k.actor a).anyList).setActor a
        fun x => { x with res := Res.rank (rankOf (k.actor a).anyList i) }) := by
      refine RegInv.flags h1 a _ rfl rfl rfl rfl rfl
        ?_ ?_ ?_ ?_ ?_
      · exact h1.slots a
      · exact h1.pidx a
      · intro _
        have := (shr_foldl_unregister (k.actor a).anyList a k).nimpl
        rw [this]; exact Nat.lt_of_le_of_lt (Nat.zero_le _) hi
      · intro hwd hid
        exact h1.idle a hwd hid
      · exact h1.pb a
    have p1 : ∀ {β} (g : Actor → β) (hg : ∀ x r, g { x with res := r } = g x),
        g (((List.foldl (fun k j => k.unregister j a) k (k.actor a).anyList).setActor a
          fun x => { x with res := Res.rank (rankOf (k.actor a).anyList i) }).actor a) =
        g ((List.foldl (fun k j => k.unregister j a) k (k.actor a).anyList).actor a) := by
      intro β g hg
      exact actor_setActor_proj g _ a a _ (by intro x; exact hg x _)
    have q : ((List.foldl (fun k j => k.unregister j a) k (k.actor a).anyList).arF a) =
        { k.arF a with waiting := (k.actor a).anyList.foldl (fun w j => w.erase j) (k.arF a).waiting } := by
      rw [h3]; simp
    refine ⟨h4, h2, ?_, ?_, ?_, ?_⟩
    · have := p1 (·.waiting) (by intro _ _; rfl)
      show (_ : Actor).waiting = _
      rw [this]
      show ((List.foldl (fun k j => k.unregister j a) k (k.actor a).anyList).arF a).waiting = _
      rw [q]; simp only [he']; rfl
    · have := p1 (·.tcb) (by intro _ _; rfl)
      show (_ : Actor).tcb = _
      rw [this]
      show ((List.foldl (fun k j => k.unregister j a) k (k.actor a).anyList).arF a).tcb = _
      rw [q]
    · have := p1 (·.wannadie) (by intro _ _; rfl)
      show (_ : Actor).wannadie = _
      rw [this]
      show ((List.foldl (fun k j => k.unregister j a) k (k.actor a).anyList).arF a).wd = _
      rw [q]
    · have := p1 (·.blocked) (by intro _ _; rfl)
      show (_ : Actor).blocked = _
      rw [this]
      show ((List.foldl (fun k j => k.unregister j a) k (k.actor a).anyList).arF a).blocked = _
      rw [q]

/-- `unregister_first_simcall(i)` for the front simcall `a`: the invariant is kept and `a` ends up registered
nowhere, without timeout timer -/
theorem ufAll_reg (k : K) (i a : Nat) (rest : List Nat) (h : RegInv k) (hs : (k.impl i).simcalls = a :: rest) :
    RegInv (k.ufAll i a) ∧ ((k.ufAll i a).arF a).tcb = none ∧ ((k.ufAll i a).arF a).wd = (k.arF a).wd ∧
    ((k.arF a).wd = false → ((k.ufAll i a).arF a).waiting = []) := by
  obtain ⟨hva, hvi⟩ := h.valid_of_mem i a (by rw [hs]; simp)
  obtain ⟨h1, h2, h3⟩ := uf12_reg k i a rest h hs
  have hvi2 : i < ((k.uf1 i a).uf2 a).impls.length := by
    rw [((shr_uf1 k i a).trans (shr_uf2 _ a)).nimpl]; exact hvi
  obtain ⟨g1, g2, g3, g4, g5, _⟩ := uf3_reg ((k.uf1 i a).uf2 a) i a h1 h2 hvi2
  unfold K.ufAll
  refine ⟨g1, ?_, ?_, ?_⟩
  · rw [g4, h3]; simp
  · rw [g5, h3]; simp
  · intro hwd
    rw [g3, h3]
    simp only [updF_same]
    have hmem : 0 < (k.arF a).waiting.count i := by
      have := h.cnt a i hwd
      rw [← this]
      show 0 < (k.impl i).simcalls.count a
      rw [hs]; simp
    have hsh := h.shape a hwd
    apply eq_nil_of_count_zero
    intro j
    rcases hsh with hsh | hsh
    · have hw : (k.arF a).waiting = [i] := by
        have hi := List.count_pos_iff.mp hmem
        cases hw : (k.arF a).waiting with
        | nil => rw [hw] at hi; simp at hi
        | cons x xs =>
          rw [hw] at hsh hi
          cases xs with
          | nil => simp at hi; rw [hi]
          | cons y ys => simp at hsh
      rw [hw]
      split
      · simp
      · rw [count_foldl_erase]; simp
    · split
      · rename_i he
        have := hsh i
        have he' : (k.arF a).anyList = [] := by simpa using he
        rw [he'] at this; simp at this; omega
      · rw [count_foldl_erase]
        have := hsh j
        have := count_erase_le (k.arF a).waiting i j
        omega

theorem answer_reg (k : K) (a : Nat) (h : RegInv k)
    (hclean : (k.actor a).wannadie = false →
      (k.actor a).waiting = [] ∧ (k.actor a).tcb = none ∧ (k.actor a).pending = none) :
    RegInv (k.answer a) := by
  unfold K.answer
  split
  · refine RegInv.same ?_ (rsame_of _ _ rfl rfl rfl rfl)
    refine RegInv.flags h a _ rfl rfl rfl rfl rfl
      (h.slots a) (h.pidx a) (h.rank a) (fun hw _ => ⟨(hclean hw).1, (hclean hw).2.1⟩) ?_
    intro hw hp
    have : (k.actor a).pending = none := (hclean hw).2.2
    simp only [this] at hp
    cases hp
  · exact h.same (rsame_of _ _ rfl rfl rfl rfl)

theorem finishOne_reg (k : K) (i a : Nat) (rest : List Nat) (h : RegInv k) (hs : (k.impl i).simcalls = a :: rest) :
    RegInv (k.finishOne i a) := by
  obtain ⟨h1, h2, h3, h4⟩ := ufAll_reg k i a rest h hs
  unfold K.finishOne
  simp only []
  split
  · rename_i hb
    simp only [Bool.and_eq_true, Bool.not_eq_true'] at hb
    have hwd : (k.arF a).wd = false := by rw [← h3]; exact hb.2
    apply answer_reg
    · have e1 : RegInv ((k.ufAll i a).setImpl i fun x => { x with owners := x.owners.erase a }) :=
        h1.same (rsame_setImpl _ _ _ (by intro _; rfl))
      split
      · refine RegInv.flags e1 a _ rfl rfl rfl rfl rfl
          (e1.slots a) (e1.pidx a) (by intro hr; simp [Actor.ar] at hr) (fun hw hid => e1.idle a hw hid) (e1.pb a)
      · exact e1
    · intro _
      have hpn : (k.actor a).pending = none := by
        cases hpd : (k.actor a).pending with
        | none => rfl
        | some r =>
          exfalso
          have hid : (k.arF a).idle = true := by
            show (k.actor a).idle = true
            simp [Actor.idle, hpd]
          have hw := (h.idle a hwd hid).1
          have hc := h.cnt a i hwd
          rw [hw] at hc
          have : (k.simF i).count a = ((k.impl i).simcalls).count a := rfl
          rw [this, hs] at hc
          simp at hc
      have hpn2 := (shr_ufAll k i a).pnone a hpn
      have p : ∀ {β} (g : Actor → β) (hg : ∀ x r, g { x with res := r } = g x),
          g ((if (((k.ufAll i a).setImpl i fun x => { x with owners := x.owners.erase a }).impl i).st == IState.canceled
              then ((k.ufAll i a).setImpl i fun x => { x with owners := x.owners.erase a }).setActor a
                fun x => { x with res := Res.cancelExc }
              else ((k.ufAll i a).setImpl i fun x => { x with owners := x.owners.erase a })).actor a) =
          g ((k.ufAll i a).actor a) := by
        intro β g hg
        split
        · exact actor_setActor_proj g _ a a _ (by intro x; exact hg x _)
        · rfl
      rw [p (·.waiting) (by intro _ _; rfl), p (·.tcb) (by intro _ _; rfl), p (·.pending) (by intro _ _; rfl)]
      exact ⟨h4 hwd, h2, hpn2⟩
  · exact h1

theorem finishLoop_reg (k : K) (i n : Nat) (h : RegInv k) : RegInv (k.finishLoop i n) := by
  induction n generalizing k with
  | zero => exact h
  | succ n ih =>
    rw [finishLoop_succ]
    split
    · exact h
    · rename_i a rest hs
      exact ih _ (finishOne_reg k i a rest h hs)

theorem finish_reg (k : K) (i : Nat) (h : RegInv k) : RegInv (k.finish i) := by
  unfold K.finish
  simp only []
  apply finishLoop_reg
  refine h.same ?_
  apply rsame_impls <;> (try rfl)
  simp only [K.setImpl]
  rw [map_upd_inv]
  intro _; rfl

/-! ### dying actors -/

/-- any update of a dying actor that keeps its timer ids -/
theorem RegInvF.wd {sim : Nat → List Nat} {ar : Nat → AR} {T : List Timer} {n m : Nat}
    (h : RegInvF sim ar T n m) (a : Nat) (x : AR) (hwd : x.wd = true) (ht : x.tcb = (ar a).tcb)
    (hkt : x.ktimer = (ar a).ktimer)
    (hsl : ∀ i ∈ x.slotIdx, i < m) (hpi : ∀ i ∈ x.pidx, i < m) (hrk : x.rank = true → 0 < m) :
    RegInvF sim (updF ar a x) T n m := by
  refine h.upd a x sim ?_ ?_ ?_ ?_ ?_ ?_ hsl hpi hrk (by intro h1; rw [hwd] at h1; cases h1)
  · intro b j hb
    by_cases hba : b = a
    · subst hba; simp only [updF_same] at hb; rw [hwd] at hb; cases hb
    · rw [updF_ne _ _ _ _ hba] at hb ⊢; exact h.cnt b j hb
  · intro h1; rw [hwd] at h1; cases h1
  · intro h1; rw [hwd] at h1; cases h1
  · intro t ht' hc
    have := h.tlink t ht'
    unfold TLinkF at this ⊢
    cases hcb : t.cb with
    | kill b => trivial
    | wto b i =>
      rw [hcb] at hc; injection hc with hc; subst hc
      simp only [hcb] at this
      simp only [updF_same, ht, hwd]; exact ⟨this.1, fun hh => by cases hh⟩
    | wany b is =>
      rw [hcb] at hc; injection hc with hc; subst hc
      simp only [hcb] at this
      simp only [updF_same, ht, hwd]; exact ⟨this.1, fun hh => by cases hh⟩
  · intro id hid; rw [ht] at hid; exact h.rev a id hid
  · intro id hid; rw [hkt] at hid; exact h.klink a id hid

theorem RegInv.setWd {k : K} (h : RegInv k) (a : Nat) (f : Actor → Actor)
    (hwd : (f (k.actor a)).wannadie = true) (ht : (f (k.actor a)).tcb = (k.actor a).tcb)
    (hkt : (f (k.actor a)).ktimer = (k.actor a).ktimer)
    (hsl : ∀ i ∈ (f (k.actor a)).ar.slotIdx, i < k.impls.length)
    (hpi : ∀ i ∈ (f (k.actor a)).ar.pidx, i < k.impls.length)
    (hrk : (f (k.actor a)).ar.rank = true → 0 < k.impls.length) :
    RegInv (k.setActor a f) := by
  by_cases ha : a < k.actors.length
  · exact RegInv.mk' _ (RegInvF.wd h a (f (k.actor a)).ar hwd ht hkt hsl hpi hrk) rfl
      (arF_setActor k a f ha) rfl rfl rfl
  · rw [setActor_of_ge _ _ _ (by omega)]; exact h

theorem exitLoop_reg (k : K) (a n : Nat) (h : RegInv k) (hwd : (k.actor a).wannadie = true) :
    RegInv (k.exitLoop a n) := by
  induction n generalizing k with
  | zero => exact h
  | succ n ih =>
    unfold K.exitLoop
    split
    · exact h
    · rename_i i _ _
      simp only []
      have h1 : RegInv (k.setActor a fun x => { x with waiting := x.waiting.dropLast }) :=
        RegInv.setWd h a _ hwd rfl rfl (h.slots a) (h.pidx a) (h.rank a)
      have h2 := (h1.same (rsame_cancel _ i)).same
        (rsame_setImpl _ i (fun x => { x with st := IState.failed }) (by intro _; rfl))
      have h3 := finish_reg _ i h2
      refine ih _ h3 ?_
      have s : Shr k ((((k.setActor a fun x => { x with waiting := x.waiting.dropLast }).cancel i).setImpl i
          fun x => { x with st := IState.failed }).finish i) :=
        (((shr_setActor k a _ (by fr_side)).trans (shr_cancel _ i)).trans
          (shr_setImpl _ i _ (by intro _; rfl))).trans (shr_finish _ i)
      exact s.wd a hwd

theorem exit_reg (k : K) (a : Nat) (h : RegInv k) : RegInv (k.exit a) := by
  unfold K.exit
  simp only []
  refine RegInv.same ?_ (rsame_foldl_cancel _ _)
  by_cases ha : a < k.actors.length
  · apply exitLoop_reg
    · exact RegInv.setWd h a _ rfl rfl rfl (h.slots a) (h.pidx a) (by intro hr; simp [Actor.ar] at hr)
    · rw [actor_setActor_same _ _ _ ha]
  · rw [setActor_of_ge _ _ _ (by omega)]
    have hd := actor_of_ge k a (by omega)
    have : (k.actor a).waiting.length = 0 := by rw [hd]; rfl
    rw [this]
    exact h

theorem kill_reg (k : K) (a : Nat) (h : RegInv k) : RegInv (k.kill a) := by
  unfold K.kill; split
  · exact h
  · exact (exit_reg k a h).same (rsame_addToRun _ a)

/-- removing timers that are nobody's timeout timer (kill timers) -/
theorem RegInvF.subTimers {sim : Nat → List Nat} {ar : Nat → AR} {T : List Timer} {n m : Nat}
    (h : RegInvF sim ar T n m) (T' : List Timer) (hsub : T'.Sublist T)
    (hkeep : ∀ t ∈ T, cbActor t.cb ≠ none → t ∈ T') : RegInvF sim ar T' n m := by
  refine ⟨h.cnt, h.idle, h.shape, fun t ht => h.tid t (hsub.subset ht), (hsub.map _).nodup h.tnd,
    fun t ht => h.tlink t (hsub.subset ht), ?_, ?_, h.slots, h.pidx, h.rank, h.pb⟩
  · intro a id hid
    obtain ⟨t, ht, h1, h2⟩ := h.rev a id hid
    exact ⟨t, hkeep t ht (by rw [h2]; simp), h1, h2⟩
  · intro a id hid
    exact ⟨(h.klink a id hid).1, fun t ht => (h.klink a id hid).2 t (hsub.subset ht)⟩

theorem dieK_reg (k : K) (a : Nat) (h : RegInv k) : RegInv (k.dieK a) := by
  unfold K.dieK
  split
  · rename_i id hid
    have hk := h.klink a id (by show (k.actor a).ar.ktimer = some id; exact hid)
    have h1 : RegInv (k.timerRemove id) := by
      refine RegInv.mk' _ (RegInvF.subTimers h (k.timers.filter (fun t => t.id != id)) List.filter_sublist ?_)
        rfl rfl rfl rfl rfl
      intro t ht hc
      refine List.mem_filter.mpr ⟨ht, ?_⟩
      simp only [bne_iff_ne, ne_eq]
      intro e
      exact hc (hk.2 t ht e)
    by_cases ha : a < k.actors.length
    · refine RegInv.mk' _ (RegInvF.upd h1 a ({ (k.actor a) with ktimer := none } : Actor).ar (k.timerRemove id).simF
        ?_ ?_ ?_ ?_ ?_ ?_ (h1.slots a) (h1.pidx a) (h1.rank a) (h1.pb a)) rfl
        (by rw [arF_setActor _ _ _ (by simpa [K.timerRemove] using ha)]; rfl) rfl rfl rfl
      · intro b j hb
        by_cases hba : b = a
        · subst hba; simp only [updF_same] at hb ⊢; exact h1.cnt b j hb
        · rw [updF_ne _ _ _ _ hba] at hb ⊢; exact h1.cnt b j hb
      · exact h1.idle a
      · exact h1.shape a
      · intro t ht hc
        have := h1.tlink t ht
        unfold TLinkF at this ⊢
        cases hcb : t.cb with
        | kill b => trivial
        | wto b i =>
          rw [hcb] at hc; injection hc with hc; subst hc
          simp only [hcb] at this
          simp only [updF_same]; exact this
        | wany b is =>
          rw [hcb] at hc; injection hc with hc; subst hc
          simp only [hcb] at this
          simp only [updF_same]; exact this
      · exact h1.rev a
      · intro id' hid'; cases hid'
    · rw [setActor_of_ge _ _ _ (by simpa [K.timerRemove] using (show k.actors.length ≤ a by omega))]; exact h1
  · exact h

theorem dieT_reg (k : K) (a : Nat) (h : RegInv k) : RegInv (k.dieT a) := by
  unfold K.dieT
  split
  · rename_i id hid
    obtain ⟨hnt, hkeep⟩ := RegInvF.filter_tcb h a id (by show (k.actor a).ar.tcb = some id; exact hid)
    have ha : a < k.actors.length := by
      by_cases hlt : a < k.actors.length
      · exact hlt
      · rw [actor_of_ge k a (by omega)] at hid; cases hid
    refine RegInv.mk' _ (RegInvF.dropTimers h a ({ (k.actor a) with tcb := none } : Actor).ar k.simF
      (k.timers.filter (fun t => t.id != id)) List.filter_sublist hnt hkeep ?_ ?_ ?_ rfl (h.klink a) (h.slots a)
      (h.pidx a) (h.rank a) (h.pb a)) rfl
      (by rw [arF_setActor _ _ _ (by simpa [K.timerRemove] using ha)]; rfl) rfl rfl rfl
    · intro b j hb
      by_cases hba : b = a
      · subst hba; simp only [updF_same] at hb ⊢; exact h.cnt b j hb
      · rw [updF_ne _ _ _ _ hba] at hb ⊢; exact h.cnt b j hb
    · intro hw hid'; exact (h.idle a hw hid').1
    · exact h.shape a
  · exact h

theorem die_reg (k : K) (a : Nat) (failed : Bool) (h : RegInv k) : RegInv (k.die a failed).1 := by
  rw [die_eq]
  have h1 := dieT_reg _ a (dieK_reg _ a (h.same (rsame_foldl_cancel (k.ownedBy a) k)))
  refine RegInv.setWd h1 a _ rfl rfl rfl (h1.slots a) (by intro i hi; simp [Actor.ar] at hi)
    (h1.rank a)

/-! ### the creation sites (`K.handle`) -/

theorem RegInvF.grow {sim : Nat → List Nat} {ar : Nat → AR} {T : List Timer} {n m m' : Nat}
    (h : RegInvF sim ar T n m) (hm : m ≤ m') : RegInvF sim ar T n m' :=
  ⟨h.cnt, h.idle, h.shape, h.tid, h.tnd, h.tlink, h.rev, h.klink,
   fun a i hi => Nat.lt_of_lt_of_le (h.slots a i hi) hm, fun a i hi => Nat.lt_of_lt_of_le (h.pidx a i hi) hm,
   fun a hr => Nat.lt_of_lt_of_le (h.rank a hr) hm, h.pb⟩

theorem simF_newImpl (k : K) (im : Impl) (h : im.simcalls = []) : (k.newImpl im).1.simF = k.simF := by
  funext j
  unfold K.simF K.impl K.newImpl
  simp only [List.getD_eq_getElem?_getD]
  by_cases hj : j < k.impls.length
  · rw [List.getElem?_append_left hj]
  · rw [List.getElem?_append_right (by omega)]
    rw [List.getElem?_eq_none (by omega : k.impls.length ≤ j)]
    by_cases hj0 : j - k.impls.length = 0
    · rw [hj0]; simp [h]
    · have : [im][j - k.impls.length]? = none := by
        apply List.getElem?_eq_none; simp; omega
      rw [this]

theorem newImpl_reg (k : K) (im : Impl) (h : RegInv k) (hs : im.simcalls = []) : RegInv (k.newImpl im).1 :=
  RegInv.mk' _ (RegInvF.grow h (Nat.le_succ _)) (simF_newImpl k im hs) rfl rfl rfl (by simp [K.newImpl])

/-- `register_simcall(i, a)` for a blocked actor without timeout timer -/
theorem RegInvF.register {sim : Nat → List Nat} {ar : Nat → AR} {T : List Timer} {n m : Nat}
    (h : RegInvF sim ar T n m) (i a : Nat) (hidle : (ar a).idle = false)
    (htl : ∀ t ∈ T, cbActor t.cb = some a → TLinkF (updF ar a { ar a with waiting := (ar a).waiting ++ [i] }) t)
    (hsh : ({ ar a with waiting := (ar a).waiting ++ [i] } : AR).shape) :
    RegInvF (updF sim i (sim i ++ [a])) (updF ar a { ar a with waiting := (ar a).waiting ++ [i] }) T n m := by
  refine h.upd a _ _ ?_ ?_ ?_ ?_ ?_ (h.klink a) (h.slots a) (h.pidx a) (h.rank a) (h.pb a)
  · intro b j hwd
    by_cases hb : b = a
    · subst hb
      simp only [updF_same] at hwd ⊢
      by_cases hj : j = i
      · subst hj; simp only [updF_same]
        rw [List.count_append, List.count_append, h.cnt b j hwd]; simp
      · rw [updF_ne _ _ _ _ hj, List.count_append, h.cnt b j hwd]
        have : (i == j) = false := by simpa using (Ne.symm hj)
        simp [List.count_singleton, this]
    · rw [updF_ne _ _ _ _ hb] at hwd ⊢
      by_cases hj : j = i
      · subst hj; simp only [updF_same]
        rw [List.count_append, h.cnt b j hwd]
        have : (a == b) = false := by simpa using (Ne.symm hb)
        simp [List.count_singleton, this]
      · rw [updF_ne _ _ _ _ hj]; exact h.cnt b j hwd
  · intro _ hid; simp only at hid; rw [hidle] at hid; cases hid
  · intro _; exact hsh
  · exact htl
  · intro id hid; exact h.rev a id hid

theorem register_reg (k : K) (i a : Nat) (h : RegInv k) (hi : i < k.impls.length) (ha : a < k.actors.length)
    (hidle : (k.actor a).idle = false)
    (htl : ∀ t ∈ k.timers, cbActor t.cb = some a →
      TLinkF (updF k.arF a { k.arF a with waiting := (k.arF a).waiting ++ [i] }) t)
    (hsh : ({ k.arF a with waiting := (k.arF a).waiting ++ [i] } : AR).shape) : RegInv (k.register i a) := by
  refine RegInv.mk' _ (RegInvF.register h i a (by show (k.actor a).ar.idle = false; exact hidle) htl hsh)
    ?_ ?_ rfl rfl (by simp [K.register])
  · show (k.setImpl i _).simF = _
    rw [simF_setImpl _ _ _ hi]; rfl
  · unfold K.register
    rw [arF_setActor _ _ _ (by simpa using ha)]; rfl

/-- `Timer::set` of a timeout timer for the blocked actor `a` -/
theorem RegInvF.addTimer {sim : Nat → List Nat} {ar : Nat → AR} {T : List Timer} {n m : Nat}
    (h : RegInvF sim ar T n m) (a : Nat) (date : Rat) (cb : Cb) (hcb : cbActor cb = some a)
    (htcb : (ar a).tcb = none) (hidle : (ar a).idle = false)
    (hlink : TLinkF (updF ar a { ar a with tcb := some n }) { id := n, date := date, cb := cb }) :
    RegInvF sim (updF ar a { ar a with tcb := some n }) (T ++ [{ id := n, date := date, cb := cb }]) (n+1) m := by
  have hnt := NT_of_tcb_none h a htcb
  refine ⟨?_, ?_, ?_, ?_, ?_, ?_, ?_, ?_, ?_, ?_, ?_, ?_⟩
  · intro b j hb
    by_cases hba : b = a
    · subst hba; simp only [updF_same] at hb ⊢; exact h.cnt b j hb
    · rw [updF_ne _ _ _ _ hba] at hb ⊢; exact h.cnt b j hb
  · intro b; by_cases hba : b = a
    · subst hba; simp only [updF_same]; intro _ hid; rw [hidle] at hid; cases hid
    · rw [updF_ne _ _ _ _ hba]; exact h.idle b
  · intro b; by_cases hba : b = a
    · subst hba; simp only [updF_same]; exact h.shape b
    · rw [updF_ne _ _ _ _ hba]; exact h.shape b
  · intro t ht
    rcases List.mem_append.mp ht with ht | ht
    · exact Nat.lt_succ_of_lt (h.tid t ht)
    · simp only [List.mem_singleton] at ht; subst ht; exact Nat.lt_succ_self _
  · rw [List.map_append, List.nodup_append]
    refine ⟨h.tnd, by simp, ?_⟩
    intro x hx y hy
    simp only [List.map_cons, List.map_nil, List.mem_singleton] at hy
    obtain ⟨t, ht, rfl⟩ := List.mem_map.mp hx
    have := h.tid t ht
    omega
  · intro t ht
    rcases List.mem_append.mp ht with ht | ht
    · exact (tlinkF_updF_ne ar a _ t (hnt t ht)).mpr (h.tlink t ht)
    · simp only [List.mem_singleton] at ht; subst ht; exact hlink
  · intro b; by_cases hba : b = a
    · subst hba; simp only [updF_same]
      intro id hid; injection hid with hid; subst hid
      exact ⟨{ id := n, date := date, cb := cb }, by simp, rfl, hcb⟩
    · rw [updF_ne _ _ _ _ hba]
      intro id hid
      obtain ⟨t, ht, h1, h2⟩ := h.rev b id hid
      exact ⟨t, by simp [ht], h1, h2⟩
  · intro b id hid
    have hk : (ar b).ktimer = some id := by
      by_cases hba : b = a
      · subst hba; simpa using hid
      · rw [updF_ne _ _ _ _ hba] at hid; exact hid
    obtain ⟨h1, h2⟩ := h.klink b id hk
    refine ⟨Nat.lt_succ_of_lt h1, ?_⟩
    intro t ht he
    rcases List.mem_append.mp ht with ht | ht
    · exact h2 t ht he
    · simp only [List.mem_singleton] at ht; subst ht; simp only at he; omega
  · intro b; by_cases hba : b = a
    · subst hba; simp only [updF_same]; exact h.slots b
    · rw [updF_ne _ _ _ _ hba]; exact h.slots b
  · intro b; by_cases hba : b = a
    · subst hba; simp only [updF_same]; exact h.pidx b
    · rw [updF_ne _ _ _ _ hba]; exact h.pidx b
  · intro b; by_cases hba : b = a
    · subst hba; simp only [updF_same]; exact h.rank b
    · rw [updF_ne _ _ _ _ hba]; exact h.rank b
  · intro b; by_cases hba : b = a
    · subst hba; simp only [updF_same]; exact h.pb b
    · rw [updF_ne _ _ _ _ hba]; exact h.pb b

/-- `Timer::set` of a kill timer -/
theorem RegInvF.addKill {sim : Nat → List Nat} {ar : Nat → AR} {T : List Timer} {n m : Nat}
    (h : RegInvF sim ar T n m) (a b0 : Nat) (date : Rat) :
    RegInvF sim (updF ar a { ar a with ktimer := some n }) (T ++ [{ id := n, date := date, cb := .kill b0 }]) (n+1) m := by
  refine ⟨?_, ?_, ?_, ?_, ?_, ?_, ?_, ?_, ?_, ?_, ?_, ?_⟩
  · intro b j hb
    by_cases hba : b = a
    · subst hba; simp only [updF_same] at hb ⊢; exact h.cnt b j hb
    · rw [updF_ne _ _ _ _ hba] at hb ⊢; exact h.cnt b j hb
  · intro b; by_cases hba : b = a
    · subst hba; simp only [updF_same]; exact h.idle b
    · rw [updF_ne _ _ _ _ hba]; exact h.idle b
  · intro b; by_cases hba : b = a
    · subst hba; simp only [updF_same]; exact h.shape b
    · rw [updF_ne _ _ _ _ hba]; exact h.shape b
  · intro t ht
    rcases List.mem_append.mp ht with ht | ht
    · exact Nat.lt_succ_of_lt (h.tid t ht)
    · simp only [List.mem_singleton] at ht; subst ht; exact Nat.lt_succ_self _
  · rw [List.map_append, List.nodup_append]
    refine ⟨h.tnd, by simp, ?_⟩
    intro x hx y hy
    simp only [List.map_cons, List.map_nil, List.mem_singleton] at hy
    obtain ⟨t, ht, rfl⟩ := List.mem_map.mp hx
    have := h.tid t ht
    omega
  · intro t ht
    rcases List.mem_append.mp ht with ht | ht
    · have := h.tlink t ht
      unfold TLinkF at this ⊢
      cases hcb : t.cb with
      | kill b => trivial
      | wto b i =>
        simp only [hcb] at this
        by_cases hba : b = a
        · subst hba; simp only [updF_same]; exact this
        · simp only [updF_ne _ _ _ _ hba]; exact this
      | wany b is =>
        simp only [hcb] at this
        by_cases hba : b = a
        · subst hba; simp only [updF_same]; exact this
        · simp only [updF_ne _ _ _ _ hba]; exact this
    · simp only [List.mem_singleton] at ht; subst ht; trivial
  · intro b id hid
    have hk : (ar b).tcb = some id := by
      by_cases hba : b = a
      · subst hba; simpa using hid
      · rw [updF_ne _ _ _ _ hba] at hid; exact hid
    obtain ⟨t, ht, h1, h2⟩ := h.rev b id hk
    exact ⟨t, by simp [ht], h1, h2⟩
  · intro b; by_cases hba : b = a
    · subst hba; simp only [updF_same]
      intro id hid; injection hid with hid; subst hid
      refine ⟨Nat.lt_succ_self _, ?_⟩
      intro t ht he
      rcases List.mem_append.mp ht with ht | ht
      · have := h.tid t ht; omega
      · simp only [List.mem_singleton] at ht; subst ht; rfl
    · rw [updF_ne _ _ _ _ hba]
      intro id hid
      obtain ⟨h1, h2⟩ := h.klink b id hid
      refine ⟨Nat.lt_succ_of_lt h1, ?_⟩
      intro t ht he
      rcases List.mem_append.mp ht with ht | ht
      · exact h2 t ht he
      · simp only [List.mem_singleton] at ht; subst ht; rfl
  · intro b; by_cases hba : b = a
    · subst hba; simp only [updF_same]; exact h.slots b
    · rw [updF_ne _ _ _ _ hba]; exact h.slots b
  · intro b; by_cases hba : b = a
    · subst hba; simp only [updF_same]; exact h.pidx b
    · rw [updF_ne _ _ _ _ hba]; exact h.pidx b
  · intro b; by_cases hba : b = a
    · subst hba; simp only [updF_same]; exact h.rank b
    · rw [updF_ne _ _ _ _ hba]; exact h.rank b
  · intro b; by_cases hba : b = a
    · subst hba; simp only [updF_same]; exact h.pb b
    · rw [updF_ne _ _ _ _ hba]; exact h.pb b

/-- what maestro knows about the issuer when it handles its simcall -/
structure HPre (k : K) (a : Nat) : Prop where
  va : a < k.actors.length
  blocked : (k.actor a).blocked = true
  pend : (k.actor a).pending = none
  wd : (k.actor a).wannadie = false
  wait : (k.actor a).waiting = []
  tcb : (k.actor a).tcb = none

theorem HPre.idle {k : K} {a : Nat} (hp : HPre k a) : (k.actor a).idle = false := by
  simp [Actor.idle, hp.blocked, hp.pend]

theorem HPre.nt {k : K} {a : Nat} (hp : HPre k a) (h : RegInv k) : NT k.timers a :=
  NT_of_tcb_none h a (by show (k.actor a).ar.tcb = none; exact hp.tcb)

theorem tcb_none_of_sub {k k' : K} (a : Nat) (h : RegInv k) (h' : RegInv k') (s : k'.timers.Sublist k.timers)
    (ht : (k.actor a).tcb = none) : (k'.actor a).tcb = none := by
  cases hc : (k'.actor a).tcb with
  | none => rfl
  | some id =>
    exfalso
    obtain ⟨t, ht', _, h2⟩ := h'.rev a id (by show (k'.actor a).ar.tcb = some id; exact hc)
    exact NT_of_tcb_none h a (by show (k.actor a).ar.tcb = none; exact ht) t (s.subset ht') h2

/-- the issuer is still clean after a function of the `Shr` family -/
theorem HPre.shr {k k' : K} {a : Nat} (hp : HPre k a) (h : RegInv k) (h' : RegInv k') (s : Shr k k') :
    (k'.actor a).waiting = [] ∧ (k'.actor a).tcb = none ∧ (k'.actor a).pending = none :=
  ⟨s.wait a hp.wait, tcb_none_of_sub a h h' s.timers hp.tcb, s.pnone a hp.pend⟩

theorem mem_setSlot (x : Actor) (s j : Nat) (st : SState) (i : Nat)
    (hi : i ∈ (x.setSlot s j st).ar.slotIdx) : i = j ∨ i ∈ x.ar.slotIdx := by
  simp only [Actor.ar, Actor.setSlot, List.map_cons, List.mem_cons, List.mem_map, List.mem_filter] at hi ⊢
  rcases hi with hi | ⟨e, ⟨he, _⟩, rfl⟩
  · exact Or.inl hi
  · exact Or.inr ⟨e, he, rfl⟩

theorem setSlot_reg (k : K) (a s j : Nat) (st : SState) (h : RegInv k) (hj : j < k.impls.length) :
    RegInv (k.setActor a (fun x => x.setSlot s j st)) := by
  refine RegInv.flags h a _ rfl rfl rfl rfl rfl ?_ (h.pidx a) (h.rank a) (fun hw hid => h.idle a hw hid) (h.pb a)
  intro i hi
  rcases mem_setSlot _ _ _ _ _ hi with hi | hi
  · rw [hi]; exact hj
  · exact h.slots a i hi

theorem findMatch_lt (k : K) (q : Nat) (want : Kind) (j : Nat) (h : k.findMatch q want = some j) :
    j < k.impls.length := by
  unfold K.findMatch at h
  exact List.mem_range.mp (List.mem_of_find?_eq_some h)

theorem handle_reg_sleep (now : Rat) (k : K) (a : Nat) (d : Rat) (h : RegInv k) (hp : HPre k a) :
    RegInv (k.handle now a (.sleep d)) := by
  simp only [K.handle]
  have h1 := newImpl_reg k { kind := .sleep, st := .running, act := .started, start := now } h rfl
  apply register_reg
  · exact h1.same (rsame_of _ _ rfl rfl rfl rfl)
  · simp [K.newImpl]
  · exact hp.va
  · exact hp.idle
  · intro t ht hc; exact absurd hc (hp.nt h t ht)
  · left
    have : (k.actor a).waiting = [] := hp.wait
    show ((k.actor a).waiting ++ [_]).length ≤ 1
    rw [this]; simp

theorem handle_reg_start (now : Rat) (k : K) (a slot : Nat) (kind : Kind) (d : Rat) (h : RegInv k) (hp : HPre k a) :
    RegInv (k.handle now a (.start slot kind d)) := by
  simp only [K.handle]
  have h1 := newImpl_reg k { kind := kind, st := .running, act := .started, start := now,
                              owners := if kind == .comm then [] else [a] } h rfl
  apply answer_reg
  · apply setSlot_reg
    · exact h1.same (rsame_of _ _ rfl rfl rfl rfl)
    · simp [K.newImpl]
  · intro _
    have e : ∀ {β} (g : Actor → β) (hg : ∀ x s j st, g (x.setSlot s j st) = g x) (k0 : K) (s j : Nat) (st : SState),
        g ((k0.setActor a fun x => x.setSlot s j st).actor a) = g (k0.actor a) := by
      intro β g hg k0 s j st
      exact actor_setActor_proj g _ a a _ (by intro x; exact hg x _ _ _)
    rw [e (·.waiting) (by intro _ _ _ _; rfl), e (·.tcb) (by intro _ _ _ _; rfl),
      e (·.pending) (by intro _ _ _ _; rfl)]
    exact ⟨hp.wait, hp.tcb, hp.pend⟩

theorem slot_answer_reg (k : K) (a s j : Nat) (st : SState) (h : RegInv k) (hj : j < k.impls.length)
    (hc : (k.actor a).waiting = [] ∧ (k.actor a).tcb = none ∧ (k.actor a).pending = none) :
    RegInv ((k.setActor a (fun x => x.setSlot s j st)).answer a) := by
  apply answer_reg
  · exact setSlot_reg k a s j st h hj
  · intro _
    have e : ∀ {β} (g : Actor → β) (hg : ∀ x s j st, g (x.setSlot s j st) = g x),
        g ((k.setActor a fun x => x.setSlot s j st).actor a) = g (k.actor a) := by
      intro β g hg
      exact actor_setActor_proj g _ a a _ (by intro x; exact hg x _ _ _)
    rw [e (·.waiting) (by intro _ _ _ _; rfl), e (·.tcb) (by intro _ _ _ _; rfl),
      e (·.pending) (by intro _ _ _ _; rfl)]
    exact hc

theorem handle_reg_mess (now : Rat) (k : K) (a slot q : Nat) (want mine : Kind) (h : RegInv k) (hp : HPre k a) :
    RegInv (match k.findMatch q want with
      | some j =>
        let k := k.setImpl j (fun x => { x with st := .running, owners := x.owners ++ [a] })
        let k := k.finish j
        (k.setActor a (fun x => x.setSlot slot j .started)).answer a
      | none =>
        let (k, i) := k.newImpl { kind := mine, st := .waiting, queue := q, owners := [a] }
        (k.setActor a (fun x => x.setSlot slot i .started)).answer a) := by
  split
  · rename_i j hj
    simp only []
    have hjl := findMatch_lt k q want j hj
    have h1 : RegInv (k.setImpl j fun x => { x with st := .running, owners := x.owners ++ [a] }) :=
      h.same (rsame_setImpl _ _ _ (by intro _; rfl))
    have h2 := finish_reg _ j h1
    have s : Shr k ((k.setImpl j fun x => { x with st := .running, owners := x.owners ++ [a] }).finish j) :=
      (shr_setImpl k j _ (by intro _; rfl)).trans (shr_finish _ j)
    apply slot_answer_reg _ _ _ _ _ h2
    · rw [s.nimpl]; exact hjl
    · exact hp.shr h h2 s
  · simp only []
    have h1 := newImpl_reg k { kind := mine, st := .waiting, queue := q, owners := [a] } h rfl
    apply slot_answer_reg _ _ _ _ _ h1
    · simp [K.newImpl]
    · exact ⟨hp.wait, hp.tcb, hp.pend⟩

theorem handle_reg_test (now : Rat) (k : K) (a i : Nat) (h : RegInv k) (hp : HPre k a) :
    RegInv (k.handle now a (.test i)) := by
  simp only [K.handle]
  apply answer_reg
  · split
    · have h2 := finish_reg k i h
      exact RegInv.flags h2 a _ rfl rfl rfl rfl rfl (h2.slots a) (h2.pidx a)
        (by intro hr; simp [Actor.ar] at hr) (fun hw hid => h2.idle a hw hid) (h2.pb a)
    · exact RegInv.flags h a _ rfl rfl rfl rfl rfl (h.slots a) (h.pidx a)
        (by intro hr; simp [Actor.ar] at hr) (fun hw hid => h.idle a hw hid) (h.pb a)
  · intro _
    split
    · have h2 := finish_reg k i h
      have := hp.shr h h2 (shr_finish k i)
      have e : ∀ {β} (g : Actor → β) (hg : ∀ x r, g { x with res := r } = g x),
          g (((k.finish i).setActor a fun x => { x with res := Res.tested true }).actor a) =
          g ((k.finish i).actor a) := by
        intro β g hg
        exact actor_setActor_proj g _ a a _ (by intro x; exact hg x _)
      rw [e (·.waiting) (by intro _ _; rfl), e (·.tcb) (by intro _ _; rfl), e (·.pending) (by intro _ _; rfl)]
      exact this
    · have e : ∀ {β} (g : Actor → β) (hg : ∀ x r, g { x with res := r } = g x),
          g ((k.setActor a fun x => { x with res := Res.tested false }).actor a) = g (k.actor a) := by
        intro β g hg
        exact actor_setActor_proj g _ a a _ (by intro x; exact hg x _)
      rw [e (·.waiting) (by intro _ _; rfl), e (·.tcb) (by intro _ _; rfl), e (·.pending) (by intro _ _; rfl)]
      exact ⟨hp.wait, hp.tcb, hp.pend⟩

theorem handle_reg_cancel (now : Rat) (k : K) (a i : Nat) (h : RegInv k) (hp : HPre k a) :
    RegInv (k.handle now a (.cancel i)) := by
  simp only [K.handle]
  apply answer_reg
  · exact h.same (rsame_cancel k i)
  · intro _
    have h2 := congrFun (rsame_cancel k i).ar a
    have e1 : ((k.cancel i).actor a).waiting = (k.actor a).waiting := congrArg AR.waiting h2
    have e2 : ((k.cancel i).actor a).tcb = (k.actor a).tcb := congrArg AR.tcb h2
    rw [e1, e2]; exact ⟨hp.wait, hp.tcb, (shr_cancel k i).pnone a hp.pend⟩

theorem handle_reg_killAt (now : Rat) (k : K) (a : Nat) (t : Rat) (h : RegInv k) (hp : HPre k a) :
    RegInv (k.handle now a (.killAt t)) := by
  simp only [K.handle]
  split
  · exact answer_reg k a h (fun _ => ⟨hp.wait, hp.tcb, hp.pend⟩)
  · apply answer_reg
    · exact RegInv.mk' _ (RegInvF.addKill h a a t) rfl
        (by rw [arF_setActor _ _ _ (by simpa [K.timerSet] using hp.va)]; rfl) rfl rfl rfl
    · intro _
      have e : ∀ {β} (g : Actor → β) (hg : ∀ x r, g { x with ktimer := r } = g x),
          g (((k.timerSet t (Cb.kill a)).1.setActor a fun x => { x with ktimer := some (k.timerSet t (Cb.kill a)).2 }).actor a)
            = g (k.actor a) := by
        intro β g hg
        exact actor_setActor_proj g _ a a _ (by intro x; exact hg x _)
      rw [e (·.waiting) (by intro _ _; rfl), e (·.tcb) (by intro _ _; rfl), e (·.pending) (by intro _ _; rfl)]
      exact ⟨hp.wait, hp.tcb, hp.pend⟩

theorem arF_register (k : K) (i a : Nat) (ha : a < k.actors.length) :
    (k.register i a).arF = updF k.arF a { k.arF a with waiting := (k.arF a).waiting ++ [i] } := by
  unfold K.register
  rw [arF_setActor _ _ _ (by simpa using ha)]; rfl

theorem handle_reg_waitFor (now : Rat) (k : K) (a i : Nat) (tau : Rat) (h : RegInv k) (hp : HPre k a)
    (hi : i < k.impls.length) : RegInv (k.handle now a (.waitFor i tau)) := by
  simp only [K.handle]
  have hw : (k.arF a).waiting = [] := hp.wait
  have h1 : RegInv (k.register i a) := by
    apply register_reg k i a h hi hp.va hp.idle
    · intro t ht hc; exact absurd hc (hp.nt h t ht)
    · left; show ((k.arF a).waiting ++ [i]).length ≤ 1; rw [hw]; simp
  have har := arF_register k i a hp.va
  split
  · exact finish_reg _ i h1
  · split
    · refine RegInv.mk' _ (RegInvF.addTimer h1 a (now + tau) (.wto a i) rfl ?_ ?_ ?_) rfl
        (by rw [arF_setActor _ _ _ (by simpa [K.timerSet, K.register] using hp.va)]; rfl) rfl rfl rfl
      · rw [har]; simp only [updF_same]; exact hp.tcb
      · rw [har]; simp only [updF_same]; exact hp.idle
      · unfold TLinkF
        simp only [updF_same]
        refine ⟨trivial, fun _ => ?_⟩
        rw [har]; simp only [updF_same, hw]; rfl
    · exact h1

theorem go_reg (a : Nat) (l : List Nat) (k : K) (h : RegInv k) (va : a < k.actors.length)
    (hidle : (k.actor a).idle = false)
    (hbound : ∀ j, (k.arF a).waiting.count j + l.count j ≤ (k.arF a).anyList.count j)
    (honly : ∀ t ∈ k.timers, cbActor t.cb = some a → ∃ is, t.cb = .wany a is)
    (hidx : ∀ i ∈ l, i < k.impls.length) : RegInv (K.handle.go a k l) := by
  induction l generalizing k with
  | nil => unfold K.handle.go; exact h
  | cons i rest ih =>
    unfold K.handle.go
    simp only []
    have hb' : ∀ j, ((k.arF a).waiting ++ [i]).count j ≤ (k.arF a).anyList.count j := by
      intro j
      have := hbound j
      rw [List.count_cons] at this
      rw [List.count_append, List.count_singleton]
      omega
    have h1 : RegInv (k.register i a) := by
      apply register_reg k i a h (hidx i (by simp)) va hidle
      · intro t ht hc
        obtain ⟨is, his⟩ := honly t ht hc
        have := h.tlink t ht
        unfold TLinkF at this ⊢
        simp only [his] at this ⊢
        simp only [updF_same]
        refine ⟨this.1, fun hwd => ?_⟩
        obtain ⟨e1, _⟩ := this.2 hwd
        refine ⟨e1, fun j => ?_⟩
        rw [← e1]; exact hb' j
      · right; exact hb'
    split
    · exact finish_reg _ i h1
    · have har := arF_register k i a va
      apply ih _ h1
      · simpa [K.register] using va
      · have : ((k.register i a).actor a).idle = (k.actor a).idle := by
          unfold K.register
          exact actor_setActor_proj (·.idle) _ a a _ (by intro _; rfl)
        rw [this]; exact hidle
      · intro j
        rw [har]; simp only [updF_same]
        have := hbound j
        rw [List.count_cons] at this
        rw [List.count_append, List.count_singleton]
        omega
      · exact honly
      · intro j hj
        have : (k.register i a).impls.length = k.impls.length := by simp [K.register]
        rw [this]; exact hidx j (by simp [hj])

theorem setAny_reg (k : K) (a : Nat) (is : List Nat) (h : RegInv k) (hp : HPre k a) :
    RegInv (k.setActor a fun x => { x with anyList := is }) := by
  have hnt := hp.nt h
  refine RegInv.mk' _ (RegInvF.upd h a ({ k.actor a with anyList := is } : Actor).ar k.simF
    ?_ ?_ ?_ ?_ ?_ (h.klink a) (h.slots a) (h.pidx a) (h.rank a) (h.pb a)) rfl (arF_setActor _ _ _ hp.va) rfl rfl rfl
  · intro b j hb
    by_cases hba : b = a
    · subst hba; simp only [updF_same] at hb ⊢; exact h.cnt b j hb
    · rw [updF_ne _ _ _ _ hba] at hb ⊢; exact h.cnt b j hb
  · exact h.idle a
  · intro _; left
    show (k.actor a).waiting.length ≤ 1
    rw [hp.wait]; simp
  · intro t ht hc; exact absurd hc (hnt t ht)
  · exact h.rev a

theorem handle_reg_waitAny (now : Rat) (k : K) (a : Nat) (is : List Nat) (tau : Rat) (h : RegInv k) (hp : HPre k a)
    (hidx : ∀ i ∈ is, i < k.impls.length) : RegInv (k.handle now a (.waitAny is tau)) := by
  simp only [K.handle]
  have h1 := setAny_reg k a is h hp
  have e1 : (k.setActor a fun x => { x with anyList := is }).actor a = { k.actor a with anyList := is } :=
    actor_setActor_same _ _ _ hp.va
  have hp1 : HPre (k.setActor a fun x => { x with anyList := is }) a :=
    ⟨by simpa using hp.va, by rw [e1]; exact hp.blocked, by rw [e1]; exact hp.pend, by rw [e1]; exact hp.wd,
     by rw [e1]; exact hp.wait, by rw [e1]; exact hp.tcb⟩
  generalize hk1 : (k.setActor a fun x => { x with anyList := is }) = k1 at *
  have han : (k1.actor a).anyList = is := by rw [e1]
  have hlen1 : k1.impls.length = k.impls.length := by rw [← hk1]; simp
  split
  · -- no timeout
    have h2 : RegInv (k1.setActor a fun x => { x with tcb := none }) :=
      RegInv.flags h1 a _ rfl (by show none = (k1.actor a).tcb; rw [hp1.tcb]) rfl rfl rfl
        (h1.slots a) (h1.pidx a) (h1.rank a) (fun hw hid => h1.idle a hw hid) (h1.pb a)
    have e2 : (k1.setActor a fun x => { x with tcb := none }).actor a = { k1.actor a with tcb := none } :=
      actor_setActor_same _ _ _ hp1.va
    apply go_reg a is _ h2
    · simpa using hp1.va
    · rw [e2]; exact hp1.idle
    · intro j
      show ((k1.setActor a fun x => { x with tcb := none }).actor a).waiting.count j + _ ≤
        ((k1.setActor a fun x => { x with tcb := none }).actor a).anyList.count j
      rw [e2]; simp only [hp1.wait, han]; simp
    · intro t ht hc
      have hnt : NT (k1.setActor a fun x => { x with tcb := none }).timers a :=
        NT_of_tcb_none h2 a (by show ((k1.setActor a fun x => { x with tcb := none }).actor a).tcb = none; rw [e2])
      exact absurd hc (hnt t ht)
    · intro i hi; simp only [setActor_impls]; rw [hlen1]; exact hidx i hi
  · -- timeout timer set first
    have h2 : RegInv ((k1.timerSet (now + tau) (.wany a is)).1.setActor a
        fun x => { x with tcb := some (k1.timerSet (now + tau) (.wany a is)).2 }) := by
      refine RegInv.mk' _ (RegInvF.addTimer h1 a (now + tau) (.wany a is) rfl ?_ ?_ ?_) rfl
        (by rw [arF_setActor _ _ _ (by simpa [K.timerSet] using hp1.va)]; rfl) rfl rfl rfl
      · exact hp1.tcb
      · exact hp1.idle
      · unfold TLinkF
        simp only [updF_same]
        refine ⟨trivial, fun _ => ⟨han, fun j => ?_⟩⟩
        show (k1.actor a).waiting.count j ≤ _
        rw [hp1.wait]; simp
    have e2 : ((k1.timerSet (now + tau) (.wany a is)).1.setActor a
        fun x => { x with tcb := some (k1.timerSet (now + tau) (.wany a is)).2 }).actor a =
        { k1.actor a with tcb := some k1.nextT } :=
      actor_setActor_same _ _ _ (by simpa [K.timerSet] using hp1.va)
    apply go_reg a is _ h2
    · simpa [K.timerSet] using hp1.va
    · rw [e2]; exact hp1.idle
    · intro j
      show (((k1.timerSet (now + tau) (.wany a is)).1.setActor a
        fun x => { x with tcb := some (k1.timerSet (now + tau) (.wany a is)).2 }).actor a).waiting.count j + _ ≤
        (((k1.timerSet (now + tau) (.wany a is)).1.setActor a
        fun x => { x with tcb := some (k1.timerSet (now + tau) (.wany a is)).2 }).actor a).anyList.count j
      rw [e2]; simp only [hp1.wait, han]; simp
    · intro t ht hc
      simp only [K.timerSet, setActor_timers, List.mem_append, List.mem_singleton] at ht
      rcases ht with ht | ht
      · exact absurd hc (hp1.nt h1 t ht)
      · exact ⟨is, by rw [ht]⟩
    · intro i hi
      simp only [setActor_impls, K.timerSet]; rw [hlen1]; exact hidx i hi

theorem handle_reg (now : Rat) (k : K) (a : Nat) (r : Req) (h : RegInv k) (hp : HPre k a)
    (hidx : ∀ i ∈ r.idx, i < k.impls.length) : RegInv (k.handle now a r) := by
  cases r with
  | sleep d => exact handle_reg_sleep now k a d h hp
  | start slot kind d => exact handle_reg_start now k a slot kind d h hp
  | iget slot q => simp only [K.handle]; exact handle_reg_mess now k a slot q .mput .mget h hp
  | iput slot q => simp only [K.handle]; exact handle_reg_mess now k a slot q .mget .mput h hp
  | waitFor i tau => exact handle_reg_waitFor now k a i tau h hp (hidx i (by simp [Req.idx]))
  | waitAny is tau => exact handle_reg_waitAny now k a is tau h hp (by simpa [Req.idx] using hidx)
  | test i => exact handle_reg_test now k a i h hp
  | cancel i => exact handle_reg_cancel now k a i h hp
  | killAt t => exact handle_reg_killAt now k a t h hp

/-! ### timers firing -/

theorem mem_removeNth_of_ne {α} (l : List α) (j : Nat) (x t : α) (hx : x ∈ l) (ht : l[j]? = some t) (hne : x ≠ t) :
    x ∈ removeNth l j := by
  induction l generalizing j with
  | nil => simp at hx
  | cons y ys ih =>
    cases j with
    | zero =>
      simp only [List.getElem?_cons_zero, Option.some.injEq] at ht
      simp only [removeNth]
      rcases List.mem_cons.mp hx with h | h
      · exact absurd (h.trans ht) hne
      · exact h
    | succ n =>
      simp only [List.getElem?_cons_succ] at ht
      simp only [removeNth, List.mem_cons]
      rcases List.mem_cons.mp hx with h | h
      · exact Or.inl h
      · exact Or.inr (ih n h ht)

theorem id_ne_of_mem_removeNth (T : List Timer) (j : Nat) (t t' : Timer) (hnd : (T.map (·.id)).Nodup)
    (ht : T[j]? = some t) (ht' : t' ∈ removeNth T j) : t'.id ≠ t.id := by
  induction T generalizing j with
  | nil => simp [removeNth] at ht'
  | cons y ys ih =>
    simp only [List.map_cons, List.nodup_cons, List.mem_map, not_exists, not_and] at hnd
    cases j with
    | zero =>
      simp only [List.getElem?_cons_zero, Option.some.injEq] at ht
      simp only [removeNth] at ht'
      subst ht
      exact hnd.1 t' ht'
    | succ n =>
      simp only [List.getElem?_cons_succ] at ht
      simp only [removeNth, List.mem_cons] at ht'
      rcases ht' with h | h
      · subst h
        intro e
        exact hnd.1 t (List.mem_of_getElem? ht) e.symm
      · exact ih n hnd.2 ht h

theorem clearK_reg (k : K) (a : Nat) (h : RegInv k) : RegInv (k.setActor a fun x => { x with ktimer := none }) := by
  by_cases ha : a < k.actors.length
  · refine RegInv.mk' _ (RegInvF.upd h a ({ (k.actor a) with ktimer := none } : Actor).ar k.simF
      ?_ ?_ ?_ ?_ ?_ ?_ (h.slots a) (h.pidx a) (h.rank a) (h.pb a)) rfl
      (by rw [arF_setActor _ _ _ ha]) rfl rfl rfl
    · intro b j hb
      by_cases hba : b = a
      · subst hba; simp only [updF_same] at hb ⊢; exact h.cnt b j hb
      · rw [updF_ne _ _ _ _ hba] at hb ⊢; exact h.cnt b j hb
    · exact h.idle a
    · exact h.shape a
    · intro t ht hc
      have := h.tlink t ht
      unfold TLinkF at this ⊢
      cases hcb : t.cb with
      | kill b => trivial
      | wto b i =>
        rw [hcb] at hc; injection hc with hc; subst hc
        simp only [hcb] at this
        simp only [updF_same]; exact this
      | wany b is =>
        rw [hcb] at hc; injection hc with hc; subst hc
        simp only [hcb] at this
        simp only [updF_same]; exact this
    · exact h.rev a
    · intro id' hid'; cases hid'
  · rw [setActor_of_ge _ _ _ (by omega)]; exact h

/-- `Timer::execute_all` pops timer `t` (index `j`) and runs its callback -/
theorem fire_reg (k : K) (j : Nat) (t : Timer) (h : RegInv k) (ht : k.timers[j]? = some t) :
    RegInv (({ k with timers := removeNth k.timers j } : K).fire t) := by
  have htm : t ∈ k.timers := List.mem_of_getElem? ht
  have hlink := h.tlink t htm
  unfold K.fire
  cases hcb : t.cb with
  | kill a =>
    simp only []
    have h0 : RegInv ({ k with timers := removeNth k.timers j } : K) := by
      refine RegInv.mk' _ (RegInvF.subTimers h (removeNth k.timers j) (removeNth_sublist _ _) ?_) rfl rfl rfl rfl rfl
      intro t' ht' hc
      refine mem_removeNth_of_ne _ _ _ _ ht' ht ?_
      intro e; rw [e, hcb] at hc; exact hc rfl
    exact (clearK_reg _ a (exit_reg _ a h0)).same (rsame_addToRun _ a)
  | wto a i =>
    simp only []
    unfold TLinkF at hlink
    simp only [hcb] at hlink
    have ha : a < k.actors.length := by
      by_cases hlt : a < k.actors.length
      · exact hlt
      · have := hlink.1
        have e : (k.arF a).tcb = none := by show (k.actor a).ar.tcb = none; rw [actor_of_ge k a (by omega)]; rfl
        rw [e] at this; cases this
    have hnt : NT (removeNth k.timers j) a := by
      intro t' ht' hc
      have hl' := h.tlink t' ((removeNth_sublist _ _).subset ht')
      have hid : (k.arF a).tcb = some t'.id := by
        unfold TLinkF at hl'
        cases hcb' : t'.cb with
        | kill b => rw [hcb'] at hc; cases hc
        | wto b i' => rw [hcb'] at hc; injection hc with hc; subst hc; simp only [hcb'] at hl'; exact hl'.1
        | wany b is => rw [hcb'] at hc; injection hc with hc; subst hc; simp only [hcb'] at hl'; exact hl'.1
      rw [hlink.1] at hid
      injection hid with hid
      exact id_ne_of_mem_removeNth _ _ _ _ h.tnd ht ht' hid.symm
    have hkeep : ∀ t' ∈ k.timers, cbActor t'.cb ≠ some a → t' ∈ removeNth k.timers j := by
      intro t' ht' hc
      refine mem_removeNth_of_ne _ _ _ _ ht' ht ?_
      intro e; rw [e, hcb] at hc; exact hc rfl
    have h1 : RegInv (({ k with timers := removeNth k.timers j } : K).setActor a fun x => { x with tcb := none }) := by
      refine RegInv.mk' _ (RegInvF.dropTimers h a ({ (k.actor a) with tcb := none } : Actor).ar k.simF
        (removeNth k.timers j) (removeNth_sublist _ _) hnt hkeep ?_ ?_ ?_ rfl (h.klink a) (h.slots a)
        (h.pidx a) (h.rank a) (h.pb a)) rfl
        (by rw [arF_setActor _ _ _ (by simpa using ha)]; rfl) rfl rfl rfl
      · intro b j' hb
        by_cases hba : b = a
        · subst hba; simp only [updF_same] at hb ⊢; exact h.cnt b j' hb
        · rw [updF_ne _ _ _ _ hba] at hb ⊢; exact h.cnt b j' hb
      · intro hw hid'; exact (h.idle a hw hid').1
      · exact h.shape a
    generalize hk1 : (({ k with timers := removeNth k.timers j } : K).setActor a fun x => { x with tcb := none }) = k1 at *
    have e1 : k1.actor a = { k.actor a with tcb := none } := by
      rw [← hk1]; exact actor_setActor_same _ _ _ (by simpa using ha)
    have hnt1 : NT k1.timers a := by rw [← hk1]; exact hnt
    split
    · exact h1
    · have h2 := unregister_reg k1 i a h1 hnt1
      have e2 : (k1.unregister i a).actor a = { k.actor a with tcb := none, waiting := (k.actor a).waiting.erase i } := by
        unfold K.unregister
        rw [actor_setActor]
        have : a < (k1.setImpl i fun x => { x with simcalls := x.simcalls.erase a }).actors.length := by
          rw [← hk1]; simpa using ha
        simp only [this, and_self, if_true]
        show ({ k1.actor a with waiting := (k1.actor a).waiting.erase i } : Actor) = _
        rw [e1]
      apply answer_reg
      · refine RegInv.flags h2 a _ rfl rfl rfl rfl rfl (h2.slots a) (h2.pidx a) (by intro hr; simp [Actor.ar] at hr)
          (fun hw hid => h2.idle a hw hid) (h2.pb a)
      · intro hw
        have e3 : ∀ {β} (g : Actor → β) (hg : ∀ x r, g { x with res := r } = g x),
            g (((k1.unregister i a).setActor a fun x => { x with res := Res.timeout }).actor a) =
            g ((k1.unregister i a).actor a) := by
          intro β g hg
          exact actor_setActor_proj g _ a a _ (by intro x; exact hg x _)
        rw [e3 (·.wannadie) (by intro _ _; rfl)] at hw
        rw [e3 (·.waiting) (by intro _ _; rfl), e3 (·.tcb) (by intro _ _; rfl), e3 (·.pending) (by intro _ _; rfl)]
        rw [e2] at hw ⊢
        have hw' : (k.arF a).wd = false := hw
        have hwait := hlink.2 hw'
        have hwait' : (k.actor a).waiting = [i] := hwait
        refine ⟨by simp [hwait'], rfl, ?_⟩
        cases hpd : (k.actor a).pending with
        | none => rfl
        | some r =>
          exfalso
          have hid : (k.arF a).idle = true := by show (k.actor a).idle = true; simp [Actor.idle, hpd]
          have := (h.idle a hw' hid).2
          rw [hlink.1] at this; cases this
  | wany a is =>
    simp only []
    unfold TLinkF at hlink
    simp only [hcb] at hlink
    have ha : a < k.actors.length := by
      by_cases hlt : a < k.actors.length
      · exact hlt
      · have := hlink.1
        have e : (k.arF a).tcb = none := by show (k.actor a).ar.tcb = none; rw [actor_of_ge k a (by omega)]; rfl
        rw [e] at this; cases this
    have hnt : NT (removeNth k.timers j) a := by
      intro t' ht' hc
      have hl' := h.tlink t' ((removeNth_sublist _ _).subset ht')
      have hid : (k.arF a).tcb = some t'.id := by
        unfold TLinkF at hl'
        cases hcb' : t'.cb with
        | kill b => rw [hcb'] at hc; cases hc
        | wto b i' => rw [hcb'] at hc; injection hc with hc; subst hc; simp only [hcb'] at hl'; exact hl'.1
        | wany b is => rw [hcb'] at hc; injection hc with hc; subst hc; simp only [hcb'] at hl'; exact hl'.1
      rw [hlink.1] at hid
      injection hid with hid
      exact id_ne_of_mem_removeNth _ _ _ _ h.tnd ht ht' hid.symm
    have hkeep : ∀ t' ∈ k.timers, cbActor t'.cb ≠ some a → t' ∈ removeNth k.timers j := by
      intro t' ht' hc
      refine mem_removeNth_of_ne _ _ _ _ ht' ht ?_
      intro e; rw [e, hcb] at hc; exact hc rfl
    have h1 : RegInv (({ k with timers := removeNth k.timers j } : K).setActor a fun x => { x with tcb := none }) := by
      refine RegInv.mk' _ (RegInvF.dropTimers h a ({ (k.actor a) with tcb := none } : Actor).ar k.simF
        (removeNth k.timers j) (removeNth_sublist _ _) hnt hkeep ?_ ?_ ?_ rfl (h.klink a) (h.slots a)
        (h.pidx a) (h.rank a) (h.pb a)) rfl
        (by rw [arF_setActor _ _ _ (by simpa using ha)]; rfl) rfl rfl rfl
      · intro b j' hb
        by_cases hba : b = a
        · subst hba; simp only [updF_same] at hb ⊢; exact h.cnt b j' hb
        · rw [updF_ne _ _ _ _ hba] at hb ⊢; exact h.cnt b j' hb
      · intro hw hid'; exact (h.idle a hw hid').1
      · exact h.shape a
    generalize hk1 : (({ k with timers := removeNth k.timers j } : K).setActor a fun x => { x with tcb := none }) = k1 at *
    have e1 : k1.actor a = { k.actor a with tcb := none } := by
      rw [← hk1]; exact actor_setActor_same _ _ _ (by simpa using ha)
    have hnt1 : NT k1.timers a := by rw [← hk1]; exact hnt
    obtain ⟨h2, _, h4⟩ := foldl_unregister_reg is a k1 h1 hnt1
    apply answer_reg
    · refine RegInv.flags h2 a _ rfl rfl rfl rfl rfl (h2.slots a) (h2.pidx a) (by intro hr; simp [Actor.ar] at hr)
        (fun hw hid => h2.idle a hw hid) (h2.pb a)
    · intro hw
      have e3 : ∀ {β} (g : Actor → β) (hg : ∀ x r, g { x with res := r } = g x),
          g (((List.foldl (fun k j => k.unregister j a) k1 is).setActor a fun x => { x with res := Res.timeout }).actor a) =
          g ((List.foldl (fun k j => k.unregister j a) k1 is).actor a) := by
        intro β g hg
        exact actor_setActor_proj g _ a a _ (by intro x; exact hg x _)
      rw [e3 (·.wannadie) (by intro _ _; rfl)] at hw
      rw [e3 (·.waiting) (by intro _ _; rfl), e3 (·.tcb) (by intro _ _; rfl), e3 (·.pending) (by intro _ _; rfl)]
      have q : ((List.foldl (fun k j => k.unregister j a) k1 is).arF a) =
          { k1.arF a with waiting := is.foldl (fun w j => w.erase j) (k1.arF a).waiting } := by
        rw [h4]; simp
      have q1 : (k1.arF a) = ({ k.actor a with tcb := none } : Actor).ar := by show (k1.actor a).ar = _; rw [e1]
      have hw' : (k.arF a).wd = false := by
        have : ((List.foldl (fun k j => k.unregister j a) k1 is).arF a).wd = false := hw
        rw [q, q1] at this; exact this
      obtain ⟨_, hbound⟩ := hlink.2 hw'
      refine ⟨?_, ?_, ?_⟩
      · show ((List.foldl (fun k j => k.unregister j a) k1 is).arF a).waiting = []
        rw [q, q1]
        apply eq_nil_of_count_zero
        intro j'
        simp only
        rw [count_foldl_erase]
        have := hbound j'
        show (k.actor a).waiting.count j' - _ = 0
        have e : (k.arF a).waiting = (k.actor a).waiting := rfl
        rw [e] at this
        omega
      · show ((List.foldl (fun k j => k.unregister j a) k1 is).arF a).tcb = none
        rw [q, q1]; rfl
      · have hpn : (k.actor a).pending = none := by
          cases hpd : (k.actor a).pending with
          | none => rfl
          | some r =>
            exfalso
            have hid : (k.arF a).idle = true := by show (k.actor a).idle = true; simp [Actor.idle, hpd]
            have := (h.idle a hw' hid).2
            rw [hlink.1] at this; cases this
        have s := (shr_setActor ({ k with timers := removeNth k.timers j } : K) a (fun x => { x with tcb := none })
          (by fr_side)).trans (shr_foldl_unregister is a _)
        rw [hk1] at s
        exact s.pnone a hpn

/-! ### actors_to_run_ only holds actors that are dying or not in a simcall -/

def RunInv (k : K) : Prop := ∀ a ∈ k.toRun, (k.actor a).wannadie = true ∨ (k.actor a).blocked = false

structure RunFr (k k' : K) : Prop where
  wd : ∀ a, (k.actor a).wannadie = true → (k'.actor a).wannadie = true
  blk : ∀ a, (k.actor a).blocked = false → (k'.actor a).blocked = false
  run : ∀ a ∈ k'.toRun, a ∈ k.toRun ∨ (k'.actor a).wannadie = true ∨ (k'.actor a).blocked = false

theorem Shr.runFr {k k' : K} (s : Shr k k') : RunFr k k' := ⟨s.wd, s.blk, s.run⟩

theorem RunFr.refl (k : K) : RunFr k k := ⟨fun _ h => h, fun _ h => h, fun _ h => Or.inl h⟩

theorem RunFr.trans {k1 k2 k3 : K} (h1 : RunFr k1 k2) (h2 : RunFr k2 k3) : RunFr k1 k3 :=
  ⟨fun a h => h2.wd a (h1.wd a h), fun a h => h2.blk a (h1.blk a h), fun a ha => by
     rcases h2.run a ha with h | h
     · rcases h1.run a h with h' | h' | h'
       · exact Or.inl h'
       · exact Or.inr (Or.inl (h2.wd a h'))
       · exact Or.inr (Or.inr (h2.blk a h'))
     · exact Or.inr h⟩

theorem RunInv.fr {k k' : K} (h : RunInv k) (s : RunFr k k') : RunInv k' := by
  intro a ha
  rcases s.run a ha with h1 | h1
  · rcases h a h1 with h2 | h2
    · exact Or.inl (s.wd a h2)
    · exact Or.inr (s.blk a h2)
  · exact h1

theorem runfr_of (k k' : K) (h1 : k'.actors = k.actors) (h2 : k'.toRun = k.toRun) : RunFr k k' :=
  ⟨fun a => by unfold K.actor; rw [h1]; exact fun h => h, fun a => by unfold K.actor; rw [h1]; exact fun h => h,
   fun a ha => by rw [h2] at ha; exact Or.inl ha⟩

theorem runfr_register (k : K) (i a : Nat) : RunFr k (k.register i a) := by
  unfold K.register
  refine ⟨fun b h => ?_, fun b h => ?_, fun b hb => Or.inl hb⟩
  · rw [actor_setActor_proj (·.wannadie) _ a b _ (by intro _; rfl)]; exact h
  · rw [actor_setActor_proj (·.blocked) _ a b _ (by intro _; rfl)]; exact h

theorem runfr_handle_go (a : Nat) (l : List Nat) (k : K) : RunFr k (K.handle.go a k l) := by
  induction l generalizing k with
  | nil => unfold K.handle.go; exact RunFr.refl k
  | cons i rest ih =>
    unfold K.handle.go
    simp only []
    split
    · exact (runfr_register k i a).trans (shr_finish _ i).runFr
    · exact (runfr_register k i a).trans (ih _)

theorem handle_runfr (now : Rat) (k : K) (a : Nat) (r : Req) : RunFr k (k.handle now a r) := by
  cases r with
  | sleep d =>
    simp only [K.handle]
    refine RunFr.trans ?_ (runfr_register _ _ _)
    exact runfr_of _ _ rfl rfl
  | start slot kind d =>
    simp only [K.handle]
    refine RunFr.trans ?_ (shr_answer _ _).runFr
    refine RunFr.trans ?_ (shr_setActor _ _ _ (by fr_side)).runFr
    exact runfr_of _ _ rfl rfl
  | iget slot q =>
    simp only [K.handle]
    split
    · refine RunFr.trans ?_ (shr_answer _ _).runFr
      refine RunFr.trans ?_ (shr_setActor _ _ _ (by fr_side)).runFr
      refine RunFr.trans ?_ (shr_finish _ _).runFr
      exact (shr_setImpl _ _ _ (by intro _; rfl)).runFr
    · refine RunFr.trans ?_ (shr_answer _ _).runFr
      refine RunFr.trans ?_ (shr_setActor _ _ _ (by fr_side)).runFr
      exact runfr_of _ _ rfl rfl
  | iput slot q =>
    simp only [K.handle]
    split
    · refine RunFr.trans ?_ (shr_answer _ _).runFr
      refine RunFr.trans ?_ (shr_setActor _ _ _ (by fr_side)).runFr
      refine RunFr.trans ?_ (shr_finish _ _).runFr
      exact (shr_setImpl _ _ _ (by intro _; rfl)).runFr
    · refine RunFr.trans ?_ (shr_answer _ _).runFr
      refine RunFr.trans ?_ (shr_setActor _ _ _ (by fr_side)).runFr
      exact runfr_of _ _ rfl rfl
  | waitFor i tau =>
    simp only [K.handle]
    split
    · exact (runfr_register _ _ _).trans (shr_finish _ _).runFr
    · split
      · refine RunFr.trans ?_ (shr_setActor _ _ _ (by fr_side)).runFr
        exact (runfr_register _ _ _).trans (runfr_of _ _ rfl rfl)
      · exact runfr_register _ _ _
  | waitAny is tau =>
    simp only [K.handle]
    refine RunFr.trans ?_ (runfr_handle_go _ _ _)
    split
    · exact ((shr_setActor _ _ _ (by fr_side)).trans (shr_setActor _ _ _ (by fr_side))).runFr
    · refine RunFr.trans ?_ (shr_setActor _ _ _ (by fr_side)).runFr
      exact (shr_setActor _ _ _ (by fr_side)).runFr.trans (runfr_of _ _ rfl rfl)
  | test i =>
    simp only [K.handle]
    refine RunFr.trans ?_ (shr_answer _ _).runFr
    split
    · exact ((shr_finish _ _).trans (shr_setActor _ _ _ (by fr_side))).runFr
    · exact (shr_setActor _ _ _ (by fr_side)).runFr
  | cancel i =>
    simp only [K.handle]
    exact ((shr_cancel _ _).trans (shr_answer _ _)).runFr
  | killAt t =>
    simp only [K.handle]
    refine RunFr.trans ?_ (shr_answer _ _).runFr
    split
    · exact RunFr.refl k
    · refine RunFr.trans ?_ (shr_setActor _ _ _ (by fr_side)).runFr
      exact runfr_of _ _ rfl rfl

/-- `simcall_handle` of every actor that ran -/
theorem handlePending_reg (now : Rat) (l : List Nat) (k : K) (h : RegInv k) (hr : RunInv k) :
    RegInv (handlePending now k l) ∧ RunInv (handlePending now k l) := by
  induction l generalizing k with
  | nil => exact ⟨h, hr⟩
  | cons a rest ih =>
    unfold handlePending
    split
    · rename_i r hpd
      simp only []
      have ha : a < k.actors.length := by
        by_cases hlt : a < k.actors.length
        · exact hlt
        · rw [actor_of_ge k a (by omega)] at hpd; cases hpd
      have e1 : (k.setActor a fun x => { x with pending := none }).actor a = { k.actor a with pending := none } :=
        actor_setActor_same _ _ _ ha
      have s1 := shr_setActor k a (fun x => { x with pending := none }) (by fr_side)
      have hr1 : RunInv (k.setActor a fun x => { x with pending := none }) := hr.fr s1.runFr
      split
      · rename_i hwd
        rw [e1] at hwd
        have h1 : RegInv (k.setActor a fun x => { x with pending := none }) :=
          RegInv.setWd h a _ hwd rfl rfl (h.slots a) (by intro i hi; simp [Actor.ar] at hi) (h.rank a)
        exact ih _ h1 hr1
      · rename_i hwd
        rw [e1] at hwd
        have hwd' : (k.actor a).wannadie = false := by simpa using hwd
        have hblk : (k.actor a).blocked = true :=
          h.pb a hwd' (by show (k.actor a).pending.isSome = true; rw [hpd]; rfl)
        have hidl : (k.arF a).idle = true := by show (k.actor a).idle = true; simp [Actor.idle, hpd]
        obtain ⟨hw, htcb⟩ := h.idle a hwd' hidl
        have h1 : RegInv (k.setActor a fun x => { x with pending := none }) := by
          refine RegInv.flags h a _ rfl rfl rfl rfl rfl (h.slots a) (by intro i hi; simp [Actor.ar] at hi) (h.rank a)
            ?_ ?_
          · intro _ hid
            exfalso
            simp [Actor.idle, hblk] at hid
          · intro _ hp; simp at hp
        have hp : HPre (k.setActor a fun x => { x with pending := none }) a :=
          ⟨by simpa using ha, by rw [e1]; exact hblk, by rw [e1], by rw [e1]; exact hwd', by rw [e1]; exact hw,
           by rw [e1]; exact htcb⟩
        have hidx : ∀ i ∈ r.idx, i < (k.setActor a fun x => { x with pending := none }).impls.length := by
          intro i hi
          have := h.pidx a i (by show i ∈ ((k.actor a).pending.map Req.idx).getD []; rw [hpd]; exact hi)
          simpa using this
        exact ih _ (handle_reg now _ a r h1 hp hidx) (hr1.fr (handle_runfr now _ a r))
    · exact ih _ h hr

theorem handleEnded_reg (now : Rat) (n : Nat) (k : K) (h : RegInv k) (hr : RunInv k) :
    RegInv (k.handleEnded now n) ∧ RunInv (k.handleEnded now n) := by
  induction n generalizing k with
  | zero => exact ⟨h, hr⟩
  | succ n ih =>
    unfold K.handleEnded
    split
    · exact ih _ (finish_reg _ _ h) (hr.fr (shr_finish _ _).runFr)
    · split
      · refine ih _ (finish_reg _ _ (h.same (rsame_setImpl _ _ _ (by intro _; rfl)))) (hr.fr ?_)
        exact RunFr.trans (k2 := k.setImpl _ _) (runfr_of _ _ rfl rfl) (shr_finish _ _).runFr
      · exact ⟨h, hr⟩

/-! ### actor slices -/

/-- any update of a clean (registered nowhere, no timeout timer) or dying actor that keeps those facts -/
theorem RegInv.cleanUpd {k : K} (h : RegInv k) (a : Nat) (f : Actor → Actor)
    (hcl : (k.actor a).wannadie = true ∨ ((k.actor a).waiting = [] ∧ (k.actor a).tcb = none))
    (hw : (f (k.actor a)).waiting = (k.actor a).waiting) (ht : (f (k.actor a)).tcb = (k.actor a).tcb)
    (hkt : (f (k.actor a)).ktimer = (k.actor a).ktimer)
    (hwd : (f (k.actor a)).wannadie = (k.actor a).wannadie)
    (hsl : ∀ i ∈ (f (k.actor a)).ar.slotIdx, i < k.impls.length)
    (hpi : ∀ i ∈ (f (k.actor a)).ar.pidx, i < k.impls.length)
    (hrk : (f (k.actor a)).ar.rank = true → 0 < k.impls.length)
    (hpb : (f (k.actor a)).wannadie = false → (f (k.actor a)).pending.isSome = true →
      (f (k.actor a)).blocked = true) :
    RegInv (k.setActor a f) := by
  cases hwdc : (k.actor a).wannadie with
  | true => exact RegInv.setWd h a f (by rw [hwd]; exact hwdc) ht hkt hsl hpi hrk
  | false =>
    have hc : (k.actor a).waiting = [] ∧ (k.actor a).tcb = none := by
      rcases hcl with h1 | h1
      · rw [hwdc] at h1; cases h1
      · exact h1
    by_cases ha : a < k.actors.length
    · have hnt := NT_of_tcb_none h a (by show (k.actor a).ar.tcb = none; exact hc.2)
      refine RegInv.mk' _ (RegInvF.upd h a (f (k.actor a)).ar k.simF ?_ ?_ ?_ ?_ ?_ ?_ hsl hpi hrk hpb) rfl
        (arF_setActor k a f ha) rfl rfl rfl
      · intro b j hb
        by_cases hba : b = a
        · subst hba; simp only [updF_same] at hb ⊢
          show _ = (f (k.actor b)).waiting.count j
          rw [hw]; exact h.cnt b j hwdc
        · rw [updF_ne _ _ _ _ hba] at hb ⊢; exact h.cnt b j hb
      · intro _ _
        show (f (k.actor a)).waiting = [] ∧ (f (k.actor a)).tcb = none
        rw [hw, ht]; exact hc
      · intro _; left
        show (f (k.actor a)).waiting.length ≤ 1
        rw [hw, hc.1]; simp
      · intro t ht' hc'; exact absurd hc' (hnt t ht')
      · intro id hid
        have : (f (k.actor a)).tcb = some id := hid
        rw [ht, hc.2] at this; cases this
      · intro id hid
        have : (f (k.actor a)).ktimer = some id := hid
        rw [hkt] at this
        exact h.klink a id this
    · rw [setActor_of_ge _ _ _ (by omega)]; exact h

def RunOk (k : K) (a : Nat) : Prop := (k.actor a).wannadie = true ∨ (k.actor a).idle = true

theorem RunOk.clean {k : K} {a : Nat} (hr : RunOk k a) (h : RegInv k) :
    (k.actor a).wannadie = true ∨ ((k.actor a).waiting = [] ∧ (k.actor a).tcb = none) := by
  rcases hr with h1 | h1
  · exact Or.inl h1
  · cases hwd : (k.actor a).wannadie with
    | true => exact Or.inl rfl
    | false => exact Or.inr (h.idle a hwd h1)

theorem slot_valid {k : K} (h : RegInv k) (a s i : Nat) (st : SState) (hs : (k.actor a).slot s = some (i, st)) :
    i < k.impls.length := by
  apply h.slots a
  unfold Actor.slot at hs
  split at hs
  · rename_i s' i' st' hf
    injection hs with hs; injection hs with h1 h2; subst h1
    have := List.mem_of_find?_eq_some hf
    show i' ∈ (k.actor a).slots.map (·.2.1)
    exact List.mem_map.mpr ⟨_, this, rfl⟩
  · cases hs

theorem sliceUpd_reg (k : K) (a : Nat) (f : Actor → Actor) (h : RegInv k) (hr : RunOk k a) (hf : SliceUpd k a f) :
    RegInv (k.setActor a f) ∧ RunOk (k.setActor a f) a := by
  have hro : ∀ (g : Actor → Actor), (∀ x, (g x).wannadie = x.wannadie ∧ (g x).blocked = x.blocked ∧
      (g x).pending = x.pending) → RunOk (k.setActor a g) a := by
    intro g hg
    unfold RunOk
    rw [actor_setActor]
    split
    · rcases hr with h1 | h1
      · exact Or.inl (by rw [(hg _).1]; exact h1)
      · right; unfold Actor.idle at h1 ⊢; rw [(hg _).2.1, (hg _).2.2]; exact h1
    · exact hr
  cases hf with
  | next =>
    refine ⟨?_, hro _ (fun _ => ⟨rfl, rfl, rfl⟩)⟩
    exact RegInv.cleanUpd h a _ (hr.clean h) rfl rfl rfl rfl (h.slots a) (h.pidx a)
      (by intro hr; simp [Actor.ar] at hr) (h.pb a)
  | slot s i st st' hs =>
    refine ⟨?_, hro _ (fun _ => ⟨rfl, rfl, rfl⟩)⟩
    refine RegInv.cleanUpd h a _ (hr.clean h) rfl rfl rfl rfl ?_ (h.pidx a) (h.rank a) (h.pb a)
    intro j hj
    rcases mem_setSlot _ _ _ _ _ hj with hj | hj
    · rw [hj]; exact slot_valid h a s i st' hs
    · exact h.slots a j hj
  | slotAny s r st hres =>
    refine ⟨?_, hro _ (fun _ => ⟨rfl, rfl, rfl⟩)⟩
    refine RegInv.cleanUpd h a _ (hr.clean h) rfl rfl rfl rfl ?_ (h.pidx a) (h.rank a) (h.pb a)
    intro j hj
    rcases mem_setSlot _ _ _ _ _ hj with hj | hj
    · rw [hj]
      cases hsl : (k.actor a).slot s with
      | none =>
        simp only [Option.map, Option.getD]
        exact h.rank a (by show (match (k.actor a).res with | .rank _ => true | _ => false) = true; rw [hres])
      | some p =>
        simp only [Option.map, Option.getD]
        exact slot_valid h a s p.1 p.2 hsl
    · exact h.slots a j hj

theorem issue_reg (k : K) (a : Nat) (r : Req) (b : Bool) (h : RegInv k) (hr : RunOk k a)
    (hidx : ∀ i ∈ r.idx, i < k.impls.length) : RegInv (k.issue a r b) ∧ RunOk (k.issue a r b) a := by
  unfold K.issue
  constructor
  · refine RegInv.cleanUpd h a _ (hr.clean h) rfl rfl rfl rfl (h.slots a) ?_ (by intro hr; simp [Actor.ar] at hr)
      (fun _ _ => rfl)
    intro i hi
    exact hidx i (by simpa [Actor.ar] using hi)
  · unfold RunOk
    rw [actor_setActor]
    split
    · right; simp [Actor.idle]
    · exact hr

theorem reqFrom_idx {k : K} (h : RegInv k) (a : Nat) (r : Req) (hf : ReqFrom (k.actor a) r) :
    ∀ i ∈ r.idx, i < k.impls.length := by
  intro i hi
  cases r with
  | waitFor j tau =>
    simp only [Req.idx, List.mem_singleton] at hi
    obtain ⟨s, st, hs⟩ := hf
    rw [hi]; exact slot_valid h a s j st hs
  | waitAny is tau =>
    simp only [Req.idx] at hi
    obtain ⟨s, st, hs⟩ := hf i hi
    exact slot_valid h a s i st hs
  | sleep d => simp [Req.idx] at hi
  | start s kd d => simp [Req.idx] at hi
  | iget s q => simp [Req.idx] at hi
  | iput s q => simp [Req.idx] at hi
  | test j => simp [Req.idx] at hi
  | cancel j => simp [Req.idx] at hi
  | killAt t => simp [Req.idx] at hi

theorem die_runOk (k : K) (a : Nat) (failed : Bool) : RunOk (k.die a failed).1 a := by
  rw [die_eq]
  unfold RunOk
  rw [actor_setActor]
  split
  · left; rfl
  · rename_i hn
    right
    simp only [true_and, Nat.not_lt] at hn
    rw [actor_of_ge _ _ hn]; rfl

theorem slice_reg (a : Nat) (fuel : Nat) (k : K) (evs : List Ev) (h : RegInv k) (hr : RunOk k a) :
    RegInv (k.slice a fuel evs).1 ∧ RunOk (k.slice a fuel evs).1 a := by
  refine slice_ind a (fun k' => RegInv k' ∧ RunOk k' a) (fun k' => RegInv k' ∧ RunOk k' a) ?_ ?_ ?_ ?_
    (fun _ h => h) fuel k evs ⟨h, hr⟩
  · intro k' f hp hf; exact sliceUpd_reg k' a f hp.1 hp.2 hf
  · intro k' r b hp _ hfrom; exact issue_reg k' a r b hp.1 hp.2 (reqFrom_idx hp.1 a r hfrom)
  · intro k' s hp
    exact ⟨hp.1.same (rsame_of _ _ rfl rfl rfl rfl), hp.2⟩
  · intro k' hp
    exact ⟨die_reg k' a false hp.1, die_runOk k' a false⟩

/-- what a slice / a death of actor `a` leaves alone: the other actors and actors_to_run_ -/
def OtherFr (a : Nat) (k k' : K) : Prop := k'.toRun = k.toRun ∧ ∀ b, b ≠ a → k'.actor b = k.actor b

theorem OtherFr.trans {a : Nat} {k1 k2 k3 : K} (h1 : OtherFr a k1 k2) (h2 : OtherFr a k2 k3) : OtherFr a k1 k3 :=
  ⟨h2.1.trans h1.1, fun b hb => (h2.2 b hb).trans (h1.2 b hb)⟩

theorem otherFr_setActor (k : K) (a : Nat) (f : Actor → Actor) : OtherFr a k (k.setActor a f) :=
  ⟨rfl, fun b hb => actor_setActor_ne k a b f (Ne.symm hb)⟩

theorem otherFr_of (a : Nat) (k k' : K) (h1 : k'.actors = k.actors) (h2 : k'.toRun = k.toRun) : OtherFr a k k' :=
  ⟨h2, fun b _ => by unfold K.actor; rw [h1]⟩

theorem cancel_actors (k : K) (i : Nat) : (k.cancel i).actors = k.actors ∧ (k.cancel i).toRun = k.toRun := by
  unfold K.cancel
  simp only []
  split <;> (try split) <;> exact ⟨rfl, rfl⟩

theorem foldl_cancel_actors (l : List Nat) (k : K) :
    (l.foldl (fun k i => k.cancel i) k).actors = k.actors ∧ (l.foldl (fun k i => k.cancel i) k).toRun = k.toRun := by
  induction l generalizing k with
  | nil => exact ⟨rfl, rfl⟩
  | cons x xs ih =>
    simp only [List.foldl]
    obtain ⟨h1, h2⟩ := ih (k.cancel x)
    exact ⟨h1.trans (cancel_actors k x).1, h2.trans (cancel_actors k x).2⟩

theorem otherFr_die (k : K) (a : Nat) (failed : Bool) : OtherFr a k (k.die a failed).1 := by
  rw [die_eq]
  refine OtherFr.trans ?_ (otherFr_setActor _ a _)
  refine OtherFr.trans (k2 := (k.ownedBy a).foldl (fun k i => k.cancel i) k)
    (otherFr_of a _ _ (foldl_cancel_actors (k.ownedBy a) k).1 (foldl_cancel_actors (k.ownedBy a) k).2) ?_
  unfold K.dieTimers
  have h1 : ∀ k : K, OtherFr a k (k.dieK a) := by
    intro k; unfold K.dieK; split
    · exact (otherFr_of a _ _ rfl rfl).trans (otherFr_setActor _ a _)
    · exact ⟨rfl, fun _ _ => rfl⟩
  have h2 : ∀ k : K, OtherFr a k (k.dieT a) := by
    intro k; unfold K.dieT; split
    · exact (otherFr_of a _ _ rfl rfl).trans (otherFr_setActor _ a _)
    · exact ⟨rfl, fun _ _ => rfl⟩
  exact (h1 _).trans (h2 _)

theorem otherFr_slice (a : Nat) (fuel : Nat) (k : K) (evs : List Ev) : OtherFr a k (k.slice a fuel evs).1 := by
  refine slice_ind a (fun k' => OtherFr a k k') (fun k' => OtherFr a k k') ?_ ?_ ?_ ?_ (fun _ h => h) fuel k evs
    ⟨rfl, fun _ _ => rfl⟩
  · intro k' f h _; exact h.trans (otherFr_setActor _ a f)
  · intro k' r b h _ _; exact h.trans (otherFr_setActor _ a _)
  · intro k' s h; exact h.trans (otherFr_of a _ _ rfl rfl)
  · intro k' h; exact h.trans (otherFr_die _ a false)

theorem RunOk.other {a b : Nat} {k k' : K} (h : RunOk k b) (fr : OtherFr a k k') (hb : b ≠ a) : RunOk k' b := by
  unfold RunOk at h ⊢; rw [fr.2 b hb]; exact h

theorem runAll_reg (l : List Nat) (k : K) (evs : List Ev) (h : RegInv k) (hl : ∀ a ∈ l, RunOk k a) :
    RegInv (runAll k l evs).1 ∧ (runAll k l evs).1.toRun = k.toRun := by
  induction l generalizing k evs with
  | nil => exact ⟨h, rfl⟩
  | cons a rest ih =>
    unfold runAll
    simp only []
    have hra := hl a (by simp)
    split
    · split
      · have fr := otherFr_die k a true
        obtain ⟨i1, i2⟩ := ih (k.die a true).1 _ (die_reg k a true h) (by
          intro b hb
          by_cases hba : b = a
          · subst hba; exact die_runOk k b true
          · exact (hl b (by simp [hb])).other fr hba)
        exact ⟨i1, i2.trans fr.1⟩
      · exact ih k _ h (fun b hb => hl b (by simp [hb]))
    · have fr := otherFr_slice a ((k.actor a).prog.length + 1) k []
      obtain ⟨s1, s2⟩ := slice_reg a ((k.actor a).prog.length + 1) k [] h hra
      obtain ⟨i1, i2⟩ := ih (k.slice a ((k.actor a).prog.length + 1) []).1 _ s1 (by
        intro b hb
        by_cases hba : b = a
        · subst hba; exact s2
        · exact (hl b (by simp [hb])).other fr hba)
      exact ⟨i1, i2.trans fr.1⟩

/-! ### the maestro loop -/

structure RI (s : St) : Prop where
  reg : RegInv s.k
  run : RunInv s.k

theorem subround_ri (s : St) (h : RI s) : RI (subround s) := by
  unfold subround
  simp only []
  have h0 : RegInv ({ s.k with toRun := [] } : K) := h.reg.same (rsame_of _ _ rfl rfl rfl rfl)
  have hl : ∀ a ∈ s.k.toRun, RunOk ({ s.k with toRun := [] } : K) a := by
    intro a ha
    rcases h.run a ha with h1 | h1
    · exact Or.inl h1
    · right
      show (s.k.actor a).idle = true
      simp [Actor.idle, h1]
  obtain ⟨r1, r2⟩ := runAll_reg s.k.toRun _ [] h0 hl
  have hrun : RunInv (runAll { s.k with toRun := [] } s.k.toRun []).1 := by
    intro a ha; rw [r2] at ha; simp at ha
  obtain ⟨p1, p2⟩ := handlePending_reg s.now s.k.toRun _ r1 hrun
  obtain ⟨e1, e2⟩ := handleEnded_reg s.now _ _ p1 p2
  exact ⟨e1, e2⟩

theorem popWindow_ri (n : Nat) (s : St) (re : List HeapE) (h : RI s) : RI (popWindow n s re).1 := by
  induction n generalizing s re with
  | zero => exact h
  | succ n ih =>
    unfold popWindow
    simp only []
    split
    · exact h
    · split
      · exact ⟨by simpa using h.reg, by simpa using h.run⟩
      · split
        · apply ih
          refine ⟨?_, ?_⟩
          · simp only [pick_k]
            exact h.reg.same (rsame_of _ _ rfl rfl rfl rfl)
          · simp only [pick_k]
            exact h.run.fr (runfr_of _ _ rfl rfl)
        · apply ih
          refine ⟨?_, ?_⟩
          · simp only [pick_k]
            refine h.reg.same ?_
            apply rsame_impls <;> (try rfl)
            simp only [K.setImpl]
            rw [map_upd_inv]
            intro _; rfl
          · simp only [pick_k]
            exact h.run.fr (runfr_of _ _ rfl rfl)

theorem execAll_ri (n : Nat) (s : St) (r : Bool) (h : RI s) : RI (execAll n s r).1 := by
  induction n generalizing s r with
  | zero => exact h
  | succ n ih =>
    unfold execAll
    simp only []
    split
    · exact h
    · split
      · exact h
      · split
        · exact ⟨by simpa using h.reg, by simpa using h.run⟩
        · rename_i j hj
          apply ih
          have hlt : j < s.k.timers.length := by
            have := List.mem_of_getElem? hj
            exact List.mem_range.mp (List.mem_filter.mp this).1
          have ht : s.k.timers[j]? = some (s.k.timers.getD j default) := by
            rw [List.getD_eq_getElem?_getD, List.getElem?_eq_getElem hlt]; rfl
          refine ⟨?_, ?_⟩
          · simp only [pick_k]
            exact fire_reg s.k j _ h.reg ht
          · simp only [pick_k]
            refine h.run.fr (RunFr.trans (k2 := { s.k with timers := removeNth s.k.timers j }) (runfr_of _ _ rfl rfl)
              (shr_fire _ _).runFr)

theorem timersLoop_ri (n : Nat) (s : St) (h : RI s) : RI (timersLoop n s) := by
  induction n generalizing s with
  | zero => exact h
  | succ n ih =>
    unfold timersLoop
    simp only []
    have h1 := execAll_ri s.k.timers.length s false h
    obtain ⟨e1, e2⟩ := handleEnded_reg (execAll s.k.timers.length s false).1.now
      ((execAll s.k.timers.length s false).1.k.failedQ.length + (execAll s.k.timers.length s false).1.k.doneQ.length)
      _ h1.reg h1.run
    have h2 : RI { (execAll s.k.timers.length s false).1 with
        k := (execAll s.k.timers.length s false).1.k.handleEndedAll (execAll s.k.timers.length s false).1.now } :=
      ⟨e1, e2⟩
    split
    · exact ih _ h2
    · exact h2

theorem foldl_kill_reg (l : List Nat) (k : K) (h : RegInv k) : RegInv (l.foldl (fun k a => k.kill a) k) := by
  induction l generalizing k with
  | nil => exact h
  | cons x xs ih => exact ih _ (kill_reg k x h)

theorem ri_setDone (s : St) (b : Bool) (h : RI s) : RI (if b then { s with done := true } else s) := by
  split
  · exact ⟨h.reg, h.run⟩
  · exact h

theorem outerTail_ri (s : St) (dl : Option Rat) (h : RI s) : RI (outerTail s dl) := by
  have h1 : RI (if dl.isNone && s.k.toRun.isEmpty && !s.k.alive.isEmpty then
      { s with k := s.k.alive.foldl (fun k a => k.kill a) s.k } else s) := by
    split
    · exact ⟨foldl_kill_reg _ _ h.reg, h.run.fr (shr_foldl_kill _ _).runFr⟩
    · exact h
  unfold outerTail
  exact ri_setDone _ _ h1

theorem solveStep_ri (s : St) (dl : Option Rat) (h : RI s) : RI (solveStep s dl) := by
  cases dl with
  | none => exact h
  | some d =>
    unfold solveStep
    simp only []
    have := popWindow_ri s.k.heap.length { s with now := s.now + d } [] ⟨h.reg, h.run⟩
    exact ⟨this.reg.same (rsame_of _ _ rfl rfl rfl rfl), this.run.fr (runfr_of _ _ rfl rfl)⟩

theorem outer_ri (s : St) (h : RI s) : RI (outer s) := by
  rw [outer_eq]
  split
  · exact ⟨h.reg.same (rsame_of _ _ rfl rfl rfl rfl), h.run.fr (runfr_of _ _ rfl rfl)⟩
  · exact outerTail_ri _ _ (timersLoop_ri _ _ (solveStep_ri s _ h))

theorem step_ri (s : St) (h : RI s) : RI (step s) := by
  unfold step
  split
  · exact h
  · split
    · exact outer_ri s h
    · exact subround_ri s h

theorem run_ri (n : Nat) (s : St) (h : RI s) : RI (run n s) := by
  induction n generalizing s with
  | zero => exact h
  | succ n ih => unfold run; exact ih _ (step_ri s h)

theorem initSt_ri (progs : List (List Op)) (ties : List Nat) : RI (initSt progs ties) := by
  have hact : ∀ a, (initSt progs ties).k.actor a = dfltActor ∨
      ∃ p, (initSt progs ties).k.actor a = ({ prog := p } : Actor) := by
    intro a
    simp only [initSt, K.actor, List.getD_eq_getElem?_getD, List.getElem?_map]
    cases progs[a]? with
    | none => left; rfl
    | some p => right; exact ⟨p, rfl⟩
  have har : ∀ a, ((initSt progs ties).k.arF a) = dfltActor.ar := by
    intro a
    show ((initSt progs ties).k.actor a).ar = _
    rcases hact a with h | ⟨p, h⟩ <;> rw [h] <;> rfl
  have hsim : ∀ i, (initSt progs ties).k.simF i = [] := by
    intro i; simp [initSt, K.simF, K.impl]
  constructor
  · refine ⟨?_, ?_, ?_, ?_, ?_, ?_, ?_, ?_, ?_, ?_, ?_, ?_⟩
    · intro a i _; rw [hsim, har]; rfl
    · intro a _ _; rw [har]; exact ⟨rfl, rfl⟩
    · intro a _; rw [har]; left; simp [dfltActor, Actor.ar]
    · intro t ht; simp [initSt] at ht
    · simp [initSt]
    · intro t ht; simp [initSt] at ht
    · intro a id hid; rw [har] at hid; cases hid
    · intro a id hid; rw [har] at hid; cases hid
    · intro a i hi; rw [har] at hi; simp [dfltActor, Actor.ar] at hi
    · intro a i hi; rw [har] at hi; simp [dfltActor, Actor.ar] at hi
    · intro a hr; rw [har] at hr; simp [dfltActor, Actor.ar] at hr
    · intro a _ hp; rw [har] at hp; simp [dfltActor, Actor.ar] at hp
  · intro a _
    right
    rcases hact a with h | ⟨p, h⟩ <;> rw [h] <;> rfl

/-- **no stale registration**, unfolded: in every reachable state, for every actor `a` that is not dying -/
theorem reachable_registration (progs : List (List Op)) (ties : List Nat) (fuel : Nat) (a : Nat)
    (hwd : ((run fuel (initSt progs ties)).k.actor a).wannadie = false) :
    let k := (run fuel (initSt progs ties)).k
    -- registered on activity i exactly as many times as i is in its waiting_synchros_
    (∀ i, (k.impl i).simcalls.count a = (k.actor a).waiting.count i) ∧
    -- not in a (handled) simcall: registered nowhere, no timeout timer
    ((k.actor a).idle = true → (∀ i, a ∉ (k.impl i).simcalls) ∧ (k.actor a).tcb = none ∧
        ∀ t ∈ k.timers, cbActor t.cb ≠ some a) ∧
    -- in a simcall: on at most one activity, or (wait_any) on a sub-multiset of the activities of the simcall
    ((k.actor a).waiting.length ≤ 1 ∨ ∀ j, (k.actor a).waiting.count j ≤ (k.actor a).anyList.count j) ∧
    -- a simcall that has not been handled yet belongs to an actor blocked in it
    ((k.actor a).pending.isSome = true → (k.actor a).blocked = true) := by
  have h := (run_ri fuel _ (initSt_ri progs ties)).reg
  refine ⟨fun i => h.cnt a i hwd, ?_, h.shape a hwd, h.pb a hwd⟩
  intro hid
  obtain ⟨h1, h2⟩ := h.idle a hwd hid
  refine ⟨?_, h2, NT_of_tcb_none h a h2⟩
  intro i hi
  have := h.cnt a i hwd
  have hw : ((run fuel (initSt progs ties)).k.arF a).waiting = [] := h1
  rw [hw] at this
  have hp : 0 < ((run fuel (initSt progs ties)).k.simF i).count a := List.count_pos_iff.mpr hi
  simp at this; omega

end SgVerif.TimeCore
