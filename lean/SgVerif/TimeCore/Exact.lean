import SgVerif.TimeCore.Reg
import SgVerif.TimeCore.Dates
/-
Run-level consequences of the registration invariant (`Reg.lean`) and of the date invariants (`Dates.lean`):
what a pending timeout timer means in a reachable state, what its firing does there, and the regression of the
double registration of the old `MessImpl::wait_for`.
-/
namespace SgVerif.TimeCore

/-- both invariants hold in every reachable state -/
theorem reachable_inv (progs : List (List Op)) (ties : List Nat) (fuel : Nat) :
    RI (run fuel (initSt progs ties)) ∧ SInv (run fuel (initSt progs ties)) :=
  ⟨run_ri fuel _ (initSt_ri progs ties), run_sinv fuel _ (initSt_sinv progs ties)⟩

/-- a pending `wait_for` timeout timer of a non-dying actor, in a state satisfying the invariants: its date is not
passed, the actor is blocked in a handled simcall, registered on exactly the activity of the timer, and its
`timeout_cb_` is this timer -/
theorem wto_timer_spec {s : St} (h : RI s) (d : SInv s) (t : Timer) (a i : Nat) (ht : t ∈ s.k.timers)
    (hcb : t.cb = .wto a i) (hwd : (s.k.actor a).wannadie = false) :
    s.now ≤ t.date ∧ (s.k.actor a).blocked = true ∧ (s.k.actor a).pending = none ∧
    (s.k.actor a).waiting = [i] ∧ (s.k.actor a).tcb = some t.id ∧
    (s.k.impl i).simcalls.count a = 1 ∧ a < s.k.actors.length ∧ i < s.k.impls.length := by
  have hl := h.reg.tlink t ht
  unfold TLinkF at hl
  simp only [hcb] at hl
  have hw : (s.k.actor a).waiting = [i] := hl.2 hwd
  have htcb : (s.k.actor a).tcb = some t.id := hl.1
  have hidle : (s.k.actor a).idle = false := by
    cases hid : (s.k.actor a).idle with
    | false => rfl
    | true =>
      have := (h.reg.idle a hwd hid).2
      rw [show (s.k.arF a).tcb = (s.k.actor a).tcb from rfl, htcb] at this; cases this
  have hb : (s.k.actor a).blocked = true ∧ (s.k.actor a).pending = none := by
    unfold Actor.idle at hidle
    cases hbl : (s.k.actor a).blocked <;> cases hp : (s.k.actor a).pending <;> simp [hbl, hp] at hidle ⊢
  have hc := h.reg.cnt a i hwd
  have hc' : (s.k.impl i).simcalls.count a = 1 := by
    show (s.k.simF i).count a = 1
    rw [hc, show (s.k.arF a).waiting = (s.k.actor a).waiting from rfl, hw]; simp
  have hmem : a ∈ (s.k.impl i).simcalls := List.count_pos_iff.mp (by rw [hc']; exact Nat.one_pos)
  obtain ⟨v1, v2⟩ := h.reg.valid_of_mem i a hmem
  exact ⟨d.d.tim t ht, hb.1, hb.2, hw, htcb, hc', v1, v2⟩

theorem fire_wto_finished_eq (k : K) (id : Nat) (date : Rat) (a i : Nat)
    (hfin : (k.impl i).act = .finished ∨ (k.impl i).act = .failed) :
    k.fire { id := id, date := date, cb := .wto a i } = k.setActor a (fun x => { x with tcb := none }) := by
  rcases hfin with h | h <;> simp [K.fire, h]

/-- … and what its firing does there (`Timer::execute_all` pops it, then runs the callback): if the activity's action
has finished or failed — in particular at this very date — no timeout is raised and the actor stays registered (it is
answered by `handle_ended_actions`); otherwise the actor is answered with the timeout, registered nowhere any more. -/
theorem wto_fire_spec {s : St} (h : RI s) (d : SInv s) (j : Nat) (t : Timer) (a i : Nat)
    (ht : s.k.timers[j]? = some t) (hcb : t.cb = .wto a i) (hwd : (s.k.actor a).wannadie = false) :
    let k' := ({ s.k with timers := removeNth s.k.timers j } : K).fire t
    RegInv k' ∧
    (((s.k.impl i).act = .finished ∨ (s.k.impl i).act = .failed) →
        k'.toRun = s.k.toRun ∧ (k'.actor a).blocked = true ∧ (k'.actor a).waiting = [i] ∧
        (k'.actor a).res = (s.k.actor a).res ∧ (k'.actor a).tcb = none) ∧
    (((s.k.impl i).act ≠ .finished ∧ (s.k.impl i).act ≠ .failed) →
        k'.toRun = s.k.toRun ++ [a] ∧ (k'.actor a).res = .timeout ∧ (k'.actor a).blocked = false ∧
        (k'.actor a).waiting = [] ∧ a ∉ (k'.impl i).simcalls ∧ (k'.actor a).tcb = none) := by
  have htm : t ∈ s.k.timers := List.mem_of_getElem? ht
  obtain ⟨_, hb, _, hw, _, hc, va, vi⟩ := wto_timer_spec h d t a i htm hcb hwd
  refine ⟨fire_reg s.k j t h.reg ht, ?_, ?_⟩
  · intro hfin
    have e : t = { id := t.id, date := t.date, cb := .wto a i } := by cases t; simp_all
    have hfin0 : (({ s.k with timers := removeNth s.k.timers j } : K).impl i).act = .finished ∨
        (({ s.k with timers := removeNth s.k.timers j } : K).impl i).act = .failed := hfin
    rw [e, fire_wto_finished_eq _ _ _ _ _ hfin0]
    have e1 : (({ s.k with timers := removeNth s.k.timers j } : K).setActor a fun x => { x with tcb := none }).actor a
        = { s.k.actor a with tcb := none } := actor_setActor_same _ _ _ va
    rw [e1]
    exact ⟨rfl, hb, hw, rfl, rfl⟩
  · intro hrun
    have e : t = { id := t.id, date := t.date, cb := .wto a i } := by cases t; simp_all
    rw [e]
    obtain ⟨f1, f2, f3, f4, f5, f6, _⟩ := fire_wto_timeout ({ s.k with timers := removeNth s.k.timers j } : K)
      t.id t.date a i va vi hrun hb
    refine ⟨f1, f2, f3, ?_, ?_, f6⟩
    · rw [f5]
      show (s.k.actor a).waiting.erase i = []
      rw [hw]; simp
    · rw [f4]
      intro hmem
      have hcnt : ((s.k.impl i).simcalls.erase a).count a = 0 := by
        rw [List.count_erase_self, hc]
      exact (List.count_eq_zero.mp hcnt) hmem

/-- a pending `wait_any_for` timeout timer of a non-dying actor -/
theorem wany_timer_spec {s : St} (h : RI s) (d : SInv s) (t : Timer) (a : Nat) (is : List Nat) (ht : t ∈ s.k.timers)
    (hcb : t.cb = .wany a is) (hwd : (s.k.actor a).wannadie = false) :
    s.now ≤ t.date ∧ (s.k.actor a).blocked = true ∧ (s.k.actor a).pending = none ∧
    (s.k.actor a).anyList = is ∧ (∀ j, (s.k.actor a).waiting.count j ≤ is.count j) ∧
    (s.k.actor a).tcb = some t.id ∧ a < s.k.actors.length := by
  have hl := h.reg.tlink t ht
  unfold TLinkF at hl
  simp only [hcb] at hl
  obtain ⟨h1, h2⟩ := hl.2 hwd
  have htcb : (s.k.actor a).tcb = some t.id := hl.1
  have hidle : (s.k.actor a).idle = false := by
    cases hid : (s.k.actor a).idle with
    | false => rfl
    | true =>
      have := (h.reg.idle a hwd hid).2
      rw [show (s.k.arF a).tcb = (s.k.actor a).tcb from rfl, htcb] at this; cases this
  have hb : (s.k.actor a).blocked = true ∧ (s.k.actor a).pending = none := by
    unfold Actor.idle at hidle
    cases hbl : (s.k.actor a).blocked <;> cases hp : (s.k.actor a).pending <;> simp [hbl, hp] at hidle ⊢
  have va : a < s.k.actors.length := by
    by_cases hlt : a < s.k.actors.length
    · exact hlt
    · rw [actor_of_ge s.k a (by omega)] at htcb; cases htcb
  exact ⟨d.d.tim t ht, hb.1, hb.2, h1, h2, htcb, va⟩

/-- its firing: the actor is answered with the timeout (there is no "finished right on time" test), and is then
registered nowhere -/
theorem wany_fire_spec {s : St} (h : RI s) (d : SInv s) (j : Nat) (t : Timer) (a : Nat) (is : List Nat)
    (ht : s.k.timers[j]? = some t) (hcb : t.cb = .wany a is) (hwd : (s.k.actor a).wannadie = false) :
    let k' := ({ s.k with timers := removeNth s.k.timers j } : K).fire t
    RegInv k' ∧ k'.toRun = s.k.toRun ++ [a] ∧ (k'.actor a).res = .timeout ∧ (k'.actor a).blocked = false ∧
    ((k'.actor a).wannadie = false → (k'.actor a).waiting = [] ∧ ∀ i, a ∉ (k'.impl i).simcalls) := by
  have htm : t ∈ s.k.timers := List.mem_of_getElem? ht
  obtain ⟨_, hb, _, _, _, _, va⟩ := wany_timer_spec h d t a is htm hcb hwd
  have hreg := fire_reg s.k j t h.reg ht
  have e : t = { id := t.id, date := t.date, cb := .wany a is } := by cases t; simp_all
  obtain ⟨f1, f2, f3, _⟩ := fire_wany_timeout ({ s.k with timers := removeNth s.k.timers j } : K)
    t.id t.date a is va hb
  rw [← e] at f1 f2 f3
  refine ⟨hreg, f1, f2, f3, ?_⟩
  intro hwd'
  have hidl : ((({ s.k with timers := removeNth s.k.timers j } : K).fire t).arF a).idle = true := by
    show ((({ s.k with timers := removeNth s.k.timers j } : K).fire t).actor a).idle = true
    simp [Actor.idle, f3]
  have hw := (hreg.idle a hwd' hidl).1
  refine ⟨hw, fun i hi => ?_⟩
  have hc := hreg.cnt a i hwd'
  rw [hw] at hc
  have hp : 0 < ((({ s.k with timers := removeNth s.k.timers j } : K).fire t).simF i).count a :=
    List.count_pos_iff.mpr hi
  rw [hc] at hp
  simp at hp

/-! ### the completion of an activity wakes only the actors registered on it -/

theorem unregister_other (k : K) (i b a : Nat) (h : a ≠ b) : (k.unregister i b).actor a = k.actor a := by
  unfold K.unregister
  rw [actor_setActor_ne _ _ _ _ (Ne.symm h)]; rfl

theorem foldl_unregister_other (l : List Nat) (b a : Nat) (k : K) (h : a ≠ b) :
    (l.foldl (fun k j => k.unregister j b) k).actor a = k.actor a := by
  induction l generalizing k with
  | nil => rfl
  | cons x xs ih => simp only [List.foldl]; rw [ih, unregister_other _ _ _ _ h]

theorem ufAll_other (k : K) (i b a : Nat) (h : a ≠ b) : (k.ufAll i b).actor a = k.actor a := by
  have hs : ∀ (k0 : K) (f : Actor → Actor), (k0.setActor b f).actor a = k0.actor a :=
    fun k0 f => actor_setActor_ne k0 b a f (Ne.symm h)
  have h1 : (k.uf1 i b).actor a = k.actor a := by unfold K.uf1; rw [hs]; rfl
  have h2 : ∀ k0 : K, (k0.uf2 b).actor a = k0.actor a := by
    intro k0; unfold K.uf2; split
    · rw [hs]; rfl
    · rfl
  have h3 : ∀ k0 : K, (k0.uf3 i b).actor a = k0.actor a := by
    intro k0; unfold K.uf3; split
    · rfl
    · rw [hs, foldl_unregister_other _ _ _ _ h]
  unfold K.ufAll
  rw [h3, h2, h1]

theorem answer_other (k : K) (b a : Nat) (h : a ≠ b) : (k.answer b).actor a = k.actor a := by
  unfold K.answer; split
  · show (k.setActor b _).actor a = _
    exact actor_setActor_ne k b a _ (Ne.symm h)
  · rfl

theorem finishOne_other (k : K) (i b a : Nat) (h : a ≠ b) : (k.finishOne i b).actor a = k.actor a := by
  unfold K.finishOne
  simp only []
  split
  · rw [answer_other _ _ _ h]
    split
    · rw [actor_setActor_ne _ _ _ _ (Ne.symm h)]
      show ((k.ufAll i b).setImpl i _).actor a = _
      rw [actor_setImpl, ufAll_other _ _ _ _ h]
    · show ((k.ufAll i b).setImpl i _).actor a = _
      rw [actor_setImpl, ufAll_other _ _ _ _ h]
  · exact ufAll_other _ _ _ _ h

/-- `finish()` of activity `j` does not touch an actor that is not dying and does not wait for `j` — given the
registration invariant: this is where a stale registration would wake a sleeper early -/
theorem finishLoop_other (k : K) (j n a : Nat) (h : RegInv k) (hwd : (k.actor a).wannadie = false)
    (hj : j ∉ (k.actor a).waiting) : (k.finishLoop j n).actor a = k.actor a := by
  induction n generalizing k with
  | zero => rfl
  | succ n ih =>
    rw [finishLoop_succ]
    split
    · rfl
    · rename_i b rest hs
      have hne : a ≠ b := by
        intro e
        have hc := h.cnt a j hwd
        have : (k.simF j).count a = ((k.impl j).simcalls).count a := rfl
        rw [this, hs, e] at hc
        have h0 : (k.arF b).waiting.count j = 0 := by
          rw [← e]; exact List.count_eq_zero.mpr hj
        rw [h0] at hc
        simp at hc
      have e1 := finishOne_other k j b a hne
      rw [ih _ (finishOne_reg k j b rest h hs) (by rw [e1]; exact hwd) (by rw [e1]; exact hj), e1]

theorem finish_other (k : K) (j a : Nat) (h : RegInv k) (hwd : (k.actor a).wannadie = false)
    (hj : j ∉ (k.actor a).waiting) : (k.finish j).actor a = k.actor a := by
  unfold K.finish
  simp only []
  have h1 : RegInv ({ k.setImpl j (fun x => { x with
      st := if (k.impl j).kind.timed then
              (if (k.impl j).act == .none then (k.impl j).st else if (k.impl j).act == .failed then .canceled else .done)
            else (if (k.impl j).st == .running then .done else (k.impl j).st),
      act := .none }) with
      heap := (k.setImpl j (fun x => { x with
        st := if (k.impl j).kind.timed then
              (if (k.impl j).act == .none then (k.impl j).st else if (k.impl j).act == .failed then .canceled else .done)
            else (if (k.impl j).st == .running then .done else (k.impl j).st),
        act := .none })).heap.filter (fun e => e.impl != j),
      failedQ := (k.setImpl j (fun x => { x with
        st := if (k.impl j).kind.timed then
              (if (k.impl j).act == .none then (k.impl j).st else if (k.impl j).act == .failed then .canceled else .done)
            else (if (k.impl j).st == .running then .done else (k.impl j).st),
        act := .none })).failedQ.erase j,
      doneQ := (k.setImpl j (fun x => { x with
        st := if (k.impl j).kind.timed then
              (if (k.impl j).act == .none then (k.impl j).st else if (k.impl j).act == .failed then .canceled else .done)
            else (if (k.impl j).st == .running then .done else (k.impl j).st),
        act := .none })).doneQ.erase j } : K) := by
    refine h.same ?_
    apply rsame_impls <;> (try rfl)
    simp only [K.setImpl]
    rw [map_upd_inv]
    intro _; rfl
  exact finishLoop_other _ j _ a h1 hwd hj

/-- `finish()` of activity `i` DOES wake the actor at the front of its simcall list when that actor is blocked and
not dying: it is answered (scheduled, no longer in a simcall) and registered nowhere any more -/
theorem finishOne_wakes (k : K) (i a : Nat) (rest : List Nat) (h : RegInv k) (hs : (k.impl i).simcalls = a :: rest)
    (hb : (k.actor a).blocked = true) (hwd : (k.actor a).wannadie = false) :
    a ∈ (k.finishOne i a).toRun ∧ ((k.finishOne i a).actor a).blocked = false ∧
    ((k.finishOne i a).actor a).waiting = [] ∧ ((k.finishOne i a).actor a).tcb = none := by
  obtain ⟨va, vi⟩ := h.valid_of_mem i a (by rw [hs]; simp)
  obtain ⟨h1, h2, h3, h4⟩ := ufAll_reg k i a rest h hs
  have hwd' : ((k.ufAll i a).actor a).wannadie = false := by
    have : ((k.ufAll i a).arF a).wd = false := by rw [h3]; exact hwd
    exact this
  have hb' : ((k.ufAll i a).actor a).blocked = true := by
    obtain ⟨_, _, q3⟩ := uf12_reg k i a rest h hs
    have vi2 : i < ((k.uf1 i a).uf2 a).impls.length := by
      rw [((shr_uf1 k i a).trans (shr_uf2 _ a)).nimpl]; exact vi
    obtain ⟨g1, g2, g3⟩ := uf12_reg k i a rest h hs
    obtain ⟨_, _, _, _, _, g6⟩ := uf3_reg ((k.uf1 i a).uf2 a) i a g1 g2 vi2
    have : ((k.ufAll i a).arF a).blocked = (k.arF a).blocked := by
      unfold K.ufAll; rw [g6, g3]; simp
    exact this.trans hb
  have hw' : ((k.ufAll i a).actor a).waiting = [] := h4 hwd
  have ht' : ((k.ufAll i a).actor a).tcb = none := h2
  have hlen : a < (k.ufAll i a).actors.length := by rw [(shr_ufAll k i a).nact]; exact va
  unfold K.finishOne
  simp only [hb', hwd', Bool.not_false, Bool.and_self, if_true]
  -- the state answered: ufAll, owners erased, possibly `res := cancelExc`
  have key : ∀ k0 : K, (k0.actor a).blocked = true → (k0.actor a).waiting = [] → (k0.actor a).tcb = none →
      a < k0.actors.length →
      a ∈ (k0.answer a).toRun ∧ ((k0.answer a).actor a).blocked = false ∧ ((k0.answer a).actor a).waiting = [] ∧
      ((k0.answer a).actor a).tcb = none := by
    intro k0 b0 w0 t0 l0
    unfold K.answer
    simp only [b0, if_true]
    refine ⟨by simp, ?_, ?_, ?_⟩
    · show ((k0.setActor a _).actor a).blocked = false
      rw [actor_setActor_same _ _ _ l0]
    · show ((k0.setActor a _).actor a).waiting = []
      rw [actor_setActor_same _ _ _ l0]; exact w0
    · show ((k0.setActor a _).actor a).tcb = none
      rw [actor_setActor_same _ _ _ l0]; exact t0
  split
  · apply key
    · rw [actor_setActor_proj (·.blocked) _ a a _ (by intro _; rfl)]; exact hb'
    · rw [actor_setActor_proj (·.waiting) _ a a _ (by intro _; rfl)]; exact hw'
    · rw [actor_setActor_proj (·.tcb) _ a a _ (by intro _; rfl)]; exact ht'
    · simpa using hlen
  · apply key
    · exact hb'
    · exact hw'
    · exact ht'
    · simpa using hlen

/-- the timeout of another actor's wait does not touch `a` -/
theorem fire_timeout_other (k : K) (t : Timer) (b a : Nat) (hcb : cbActor t.cb = some b) (h : a ≠ b) :
    (k.fire t).actor a = k.actor a := by
  have hs : ∀ (k0 : K) (f : Actor → Actor), (k0.setActor b f).actor a = k0.actor a :=
    fun k0 f => actor_setActor_ne k0 b a f (Ne.symm h)
  unfold K.fire
  cases hc : t.cb with
  | kill c => rw [hc] at hcb; cases hcb
  | wto c i =>
    rw [hc] at hcb; injection hcb with hcb; subst hcb
    simp only []
    split
    · rw [hs]
    · rw [answer_other _ _ _ h, hs, unregister_other _ _ _ _ h, hs]
  | wany c is =>
    rw [hc] at hcb; injection hcb with hcb; subst hcb
    simp only []
    rw [answer_other _ _ _ h, hs, foldl_unregister_other _ _ _ _ h, hs]

/-! ### regression: the double registration of the old `MessImpl::wait_for` (before 4c67abe5fd)

The old kernel-side `MessImpl::wait_for` called `register_simcall(&issuer->simcall_)` and then
`ActivityImpl::wait_for`, which registers again.  After the timeout the callback removes ONE registration: the actor
is answered (no longer in a simcall) but still registered on the message — a stale registration: the invariant's
`idle` clause fails, and a later completion of the message would answer the actor in the middle of whatever it is then
blocked in (the early wake-up of a later `sleep_for` observed in the corpus). -/

/-- the kernel side of `wait_for` on a mess activity BEFORE the fix -/
def K.handleWaitForOld (now : Rat) (k : K) (a i : Nat) (tau : Rat) : K :=
  (k.register i a).handle now a (.waitFor i tau)

/-- one actor blocked in `wait_for(0)` on a message-queue get that nobody matches -/
def kReg0 : K :=
  { impls := [{ kind := .mget, st := .waiting, owners := [0] }],
    actors := [{ prog := [.waitFor 0 0], stage := 1, blocked := true, slots := [(0, 0, .started)] }] }

def kOld : K := kReg0.handleWaitForOld 0 0 0 0
def kOldFired : K := ({ kOld with timers := removeNth kOld.timers 0 } : K).fire { id := 0, date := 0 + 0, cb := .wto 0 0 }
def kNew : K := kReg0.handle 0 0 (.waitFor 0 0)
def kNewFired : K := ({ kNew with timers := removeNth kNew.timers 0 } : K).fire { id := 0, date := 0 + 0, cb := .wto 0 0 }

theorem kOld_double : (kOld.actor 0).waiting = [0, 0] ∧ (kOld.impl 0).simcalls = [0, 0] ∧
    kOld.timers = [{ id := 0, date := 0 + 0, cb := .wto 0 0 }] := by
  simp [kOld, kReg0, K.handleWaitForOld, K.handle, K.register, K.setImpl, K.setActor, K.actor, K.impl, upd, K.timerSet]

theorem kOldFired_stale : (kOldFired.actor 0).waiting = [0] ∧ (kOldFired.impl 0).simcalls = [0] ∧
    (kOldFired.actor 0).blocked = false ∧ (kOldFired.actor 0).wannadie = false ∧ (kOldFired.actor 0).pending = none := by
  simp [kOldFired, kOld, kReg0, K.handleWaitForOld, K.handle, K.register, K.setImpl, K.setActor, K.actor, K.impl, upd,
    K.timerSet, K.fire, K.unregister, K.answer, removeNth]

theorem kNewFired_clean : (kNewFired.actor 0).waiting = [] ∧ (kNewFired.impl 0).simcalls = [] ∧
    (kNewFired.actor 0).blocked = false := by
  simp [kNewFired, kNew, kReg0, K.handle, K.register, K.setImpl, K.setActor, K.actor, K.impl, upd,
    K.timerSet, K.fire, K.unregister, K.answer, removeNth]

/-- **regression**: with the old double registration, the state after the timeout violates the invariant -/
theorem wait_for_double_registration_regression : ¬ RegInv kOldFired := by
  intro h
  obtain ⟨h1, _, h3, h4, h5⟩ := kOldFired_stale
  have hid : (kOldFired.arF 0).idle = true := by
    show (kOldFired.actor 0).idle = true
    simp [Actor.idle, h3]
  have := (h.idle 0 h4 hid).1
  rw [show (kOldFired.arF 0).waiting = (kOldFired.actor 0).waiting from rfl, h1] at this
  cases this

/-! the example states satisfy the invariant (non-vacuity of the theorems that assume it) -/

theorem kReg0_reg : RegInv kReg0 := by
  have ha : ∀ a, kReg0.arF a = if a = 0 then
      ({ prog := [.waitFor 0 0], stage := 1, blocked := true, slots := [(0, 0, .started)] } : Actor).ar
      else dfltActor.ar := by
    intro a; cases a <;> simp [K.arF, K.actor, kReg0, dfltActor]
  have hs : ∀ i, kReg0.simF i = [] := by
    intro i; cases i <;> simp [K.simF, K.impl, kReg0]
  refine ⟨?_, ?_, ?_, ?_, ?_, ?_, ?_, ?_, ?_, ?_, ?_, ?_⟩
  · intro a i _; rw [hs, ha]; split <;> simp [Actor.ar, dfltActor]
  · intro a _ _; rw [ha]; split <;> simp [Actor.ar, dfltActor]
  · intro a _; rw [ha]; left; split <;> simp [Actor.ar, dfltActor]
  · intro t ht; simp [kReg0] at ht
  · simp [kReg0]
  · intro t ht; simp [kReg0] at ht
  · intro a id hid; rw [ha] at hid; split at hid <;> simp [Actor.ar, dfltActor] at hid
  · intro a id hid; rw [ha] at hid; split at hid <;> simp [Actor.ar, dfltActor] at hid
  · intro a i hi; rw [ha] at hi; split at hi <;> simp [Actor.ar, dfltActor, kReg0] at hi ⊢
    omega
  · intro a i hi; rw [ha] at hi; split at hi <;> simp [Actor.ar, dfltActor] at hi
  · intro a hr; rw [ha] at hr; split at hr <;> simp [Actor.ar, dfltActor] at hr
  · intro a _ hp; rw [ha] at hp; split at hp <;> simp [Actor.ar, dfltActor] at hp

theorem kReg0_hpre : HPre kReg0 0 := by
  refine ⟨?_, ?_, ?_, ?_, ?_, ?_⟩ <;> simp [kReg0, K.actor]

theorem kNew_reg : RegInv kNew := handle_reg 0 kReg0 0 (.waitFor 0 0) kReg0_reg kReg0_hpre (by simp [Req.idx, kReg0])

theorem kNew_shape : (kNew.impl 0).simcalls = [0] ∧ (kNew.actor 0).blocked = true ∧
    (kNew.actor 0).wannadie = false ∧ kNew.timers[0]? = some { id := 0, date := 0 + 0, cb := .wto 0 0 } := by
  simp [kNew, kReg0, K.handle, K.register, K.setImpl, K.setActor, K.actor, K.impl, upd, K.timerSet]

end SgVerif.TimeCore
