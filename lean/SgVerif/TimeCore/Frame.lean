import SgVerif.TimeCore.Waits
/-
Frame lemmas of the kernel functions of the time-core model: what each function can NOT do.
`Shr k k'` ("k' shrinks k"): the timers and the heap of k' are sublists of those of k, no timer id is consumed, the
impl table keeps its length and every impl keeps its kind / start time / finish time, the actor table keeps its length.
Every kernel function except `K.handle` (which creates activities and timers), `K.handleEnded` (which stamps the finish
time) satisfies it.
-/
namespace SgVerif.TimeCore

/-! ### accessors after an update -/

def dfltActor : Actor := { prog := [], alive := false }
def dfltImpl : Impl := { kind := .exec, st := .failed }

theorem upd_of_ge {α} (l : List α) (i : Nat) (f : α → α) (h : l.length ≤ i) : upd l i f = l := by
  induction l generalizing i with
  | nil => rfl
  | cons x xs ih =>
    cases i with
    | zero => simp at h
    | succ n => simp [upd]; exact ih n (by simpa using h)

theorem actor_of_ge (k : K) (a : Nat) (h : k.actors.length ≤ a) : k.actor a = dfltActor := by
  unfold K.actor dfltActor; simp [List.getD_eq_getElem?_getD, List.getElem?_eq_none h]

theorem impl_of_ge (k : K) (i : Nat) (h : k.impls.length ≤ i) : k.impl i = dfltImpl := by
  unfold K.impl dfltImpl; simp [List.getD_eq_getElem?_getD, List.getElem?_eq_none h]

theorem actor_setActor_ne (k : K) (a b : Nat) (f : Actor → Actor) (h : a ≠ b) :
    (k.setActor a f).actor b = k.actor b := by
  unfold K.actor K.setActor; exact getD_upd_other _ _ _ _ _ h

theorem impl_setImpl_ne (k : K) (i j : Nat) (f : Impl → Impl) (h : i ≠ j) :
    (k.setImpl i f).impl j = k.impl j := by
  unfold K.impl K.setImpl; exact getD_upd_other _ _ _ _ _ h

theorem setActor_of_ge (k : K) (a : Nat) (f : Actor → Actor) (h : k.actors.length ≤ a) : k.setActor a f = k := by
  unfold K.setActor; rw [upd_of_ge _ _ _ h]

theorem setImpl_of_ge (k : K) (i : Nat) (f : Impl → Impl) (h : k.impls.length ≤ i) : k.setImpl i f = k := by
  unfold K.setImpl; rw [upd_of_ge _ _ _ h]

/-- the actor table after an update, in one formula -/
theorem actor_setActor (k : K) (a b : Nat) (f : Actor → Actor) :
    (k.setActor a f).actor b = if b = a ∧ a < k.actors.length then f (k.actor a) else k.actor b := by
  by_cases hb : b = a
  · subst hb
    by_cases hl : b < k.actors.length
    · simp [hl, actor_setActor_same]
    · rw [setActor_of_ge _ _ _ (by omega)]; simp [hl]
  · rw [actor_setActor_ne _ _ _ _ (Ne.symm hb)]; simp [hb]

theorem impl_setImpl (k : K) (i j : Nat) (f : Impl → Impl) :
    (k.setImpl i f).impl j = if j = i ∧ i < k.impls.length then f (k.impl i) else k.impl j := by
  by_cases hb : j = i
  · subst hb
    by_cases hl : j < k.impls.length
    · simp [hl, impl_setImpl_same]
    · rw [setImpl_of_ge _ _ _ (by omega)]; simp [hl]
  · rw [impl_setImpl_ne _ _ _ _ (Ne.symm hb)]; simp [hb]

/-- a projection that the update function keeps is kept -/
theorem actor_setActor_proj {β} (g : Actor → β) (k : K) (a b : Nat) (f : Actor → Actor) (hf : ∀ x, g (f x) = g x) :
    g ((k.setActor a f).actor b) = g (k.actor b) := by
  rw [actor_setActor]; split
  · rename_i h; rw [hf, h.1]
  · rfl

theorem impl_setImpl_proj {β} (g : Impl → β) (k : K) (i j : Nat) (f : Impl → Impl) (hf : ∀ x, g (f x) = g x) :
    g ((k.setImpl i f).impl j) = g (k.impl j) := by
  rw [impl_setImpl]; split
  · rename_i h; rw [hf, h.1]
  · rfl

theorem map_upd_inv {α β} (g : α → β) (l : List α) (i : Nat) (f : α → α) (hf : ∀ x, g (f x) = g x) :
    (upd l i f).map g = l.map g := by
  induction l generalizing i with
  | nil => rfl
  | cons x xs ih => cases i <;> simp [upd, hf, ih]

theorem removeNth_sublist {α} (l : List α) (n : Nat) : (removeNth l n).Sublist l := by
  induction l generalizing n with
  | nil => simp [removeNth]
  | cons x xs ih =>
    cases n with
    | zero => simp [removeNth]
    | succ n => simp [removeNth]; exact ih n

theorem mem_of_mem_removeNth {α} (l : List α) (n : Nat) (x : α) (h : x ∈ removeNth l n) : x ∈ l :=
  (removeNth_sublist l n).subset h

/-! ### the frame relation -/

/-- kind / start / finish of an impl: never rewritten after creation except `finish` by `handle_ended_actions` -/
def Impl.sfk (x : Impl) : Kind × Rat × Rat := (x.kind, x.start, x.finish)

/-- what `K.slice` guarantees about the simcalls it issues (`s4u::this_actor::sleep_for`: `if (duration <= 0) return;`,
the op language starts only activities of non-negative duration, a comm lasts longer than its link's latency) -/
def ReqOk : Req → Prop
  | .sleep d => 0 < d
  | .start _ kind d => 0 ≤ d ∧ (kind = .comm → linkLat < d)
  | _ => True

/-- pending simcall of an actor: unchanged, consumed, or freshly issued by a slice (then well-formed) -/
def PendFr (p p' : Option Req) : Prop := p' = p ∨ p' = none ∨ ∃ r, p' = some r ∧ ReqOk r

theorem PendFr.trans {p1 p2 p3 : Option Req} (h1 : PendFr p1 p2) (h2 : PendFr p2 p3) : PendFr p1 p3 := by
  rcases h2 with h | h | h
  · rw [h]; exact h1
  · exact Or.inr (Or.inl h)
  · exact Or.inr (Or.inr h)

structure Shr (k k' : K) : Prop where
  timers : k'.timers.Sublist k.timers
  heap : k'.heap.Sublist k.heap
  nextT : k'.nextT = k.nextT
  sfk : k'.impls.map Impl.sfk = k.impls.map Impl.sfk
  nact : k'.actors.length = k.actors.length
  pend : ∀ a, PendFr (k.actor a).pending (k'.actor a).pending
  wd : ∀ a, (k.actor a).wannadie = true → (k'.actor a).wannadie = true
  wait : ∀ a, (k.actor a).waiting = [] → (k'.actor a).waiting = []
  blk : ∀ a, (k.actor a).blocked = false → (k'.actor a).blocked = false
  run : ∀ a ∈ k'.toRun, a ∈ k.toRun ∨ (k'.actor a).wannadie = true ∨ (k'.actor a).blocked = false
  pnone : ∀ a, (k.actor a).pending = none → (k'.actor a).pending = none

theorem Shr.refl (k : K) : Shr k k := ⟨List.Sublist.refl _, List.Sublist.refl _, rfl, rfl, rfl, fun _ => Or.inl rfl, fun _ h => h, fun _ h => h, fun _ h => h,
   fun _ h => Or.inl h, fun _ h => h⟩

theorem Shr.trans {k1 k2 k3 : K} (h1 : Shr k1 k2) (h2 : Shr k2 k3) : Shr k1 k3 :=
  ⟨h2.timers.trans h1.timers, h2.heap.trans h1.heap, h2.nextT.trans h1.nextT, h2.sfk.trans h1.sfk,
   h2.nact.trans h1.nact, fun a => (h1.pend a).trans (h2.pend a), fun a h => h2.wd a (h1.wd a h), fun a h => h2.wait a (h1.wait a h),
   fun a h => h2.blk a (h1.blk a h), fun a ha => by
     rcases h2.run a ha with h | h
     · rcases h1.run a h with h' | h' | h'
       · exact Or.inl h'
       · exact Or.inr (Or.inl (h2.wd a h'))
       · exact Or.inr (Or.inr (h2.blk a h'))
     · exact Or.inr h, fun a h => h2.pnone a (h1.pnone a h)⟩

theorem Shr.nimpl {k k' : K} (h : Shr k k') : k'.impls.length = k.impls.length := by
  have := congrArg List.length h.sfk; simpa using this

theorem Shr.impl_sfk {k k' : K} (h : Shr k k') (i : Nat) : (k'.impl i).sfk = (k.impl i).sfk := by
  have := congrArg (fun l => l.getD i dfltImpl.sfk) h.sfk
  simp only [List.getD_eq_getElem?_getD, List.getElem?_map] at this
  unfold K.impl
  simp only [List.getD_eq_getElem?_getD]
  have hd : ({ kind := .exec, st := .failed } : Impl) = dfltImpl := rfl
  rw [hd]
  cases h1 : k'.impls[i]? <;> cases h2 : k.impls[i]? <;> simp_all

theorem Shr.start {k k' : K} (h : Shr k k') (i : Nat) : (k'.impl i).start = (k.impl i).start := by
  have := h.impl_sfk i; unfold Impl.sfk at this; injection this with _ h2; injection h2
theorem Shr.finish {k k' : K} (h : Shr k k') (i : Nat) : (k'.impl i).finish = (k.impl i).finish := by
  have := h.impl_sfk i; unfold Impl.sfk at this; injection this with _ h2; injection h2
theorem Shr.kind {k k' : K} (h : Shr k k') (i : Nat) : (k'.impl i).kind = (k.impl i).kind := by
  have := h.impl_sfk i; unfold Impl.sfk at this; injection this

/-- side condition of `shr_setActor` for a record update -/
macro "fr_side" : tactic =>
  `(tactic| (intro _; first | exact ⟨Or.inl rfl, fun h => h, fun h => h, fun h => h, fun h => h⟩
                            | exact ⟨Or.inr (Or.inl rfl), fun h => h, fun h => h, fun h => h, fun _ => rfl⟩
                            | exact ⟨Or.inl rfl, fun h => h, fun h => h, fun _ => rfl, fun h => h⟩
                            | exact ⟨Or.inl rfl, fun _ => rfl, fun h => h, fun h => h, fun h => h⟩
                            | exact ⟨Or.inr (Or.inl rfl), fun _ => rfl, fun h => h, fun _ => rfl, fun _ => rfl⟩
                            | exact ⟨Or.inl rfl, fun h => h, fun h => by simp [h], fun h => h, fun h => h⟩))

/-- proves `Shr k k'` when k' is k after `setImpl` / `setActor` / record updates that filter heap or timers -/
macro "shr_tac" : tactic =>
  `(tactic| (refine ⟨?_, ?_, ?_, ?_, ?_, ?_, ?_, ?_, ?_, ?_, ?_⟩ <;> (try simp [K.setImpl, K.setActor, K.timerRemove, upd_length, K.actor]) <;>
             (repeat rw [map_upd_inv]) <;> (try (intro _; first | rfl | exact Or.inl rfl | exact fun h => h | exact fun h => Or.inl h))))

theorem shr_setActor (k : K) (a : Nat) (f : Actor → Actor)
    (hf : ∀ x, PendFr x.pending (f x).pending ∧ (x.wannadie = true → (f x).wannadie = true) ∧
      (x.waiting = [] → (f x).waiting = []) ∧ (x.blocked = false → (f x).blocked = false) ∧
      (x.pending = none → (f x).pending = none)) :
    Shr k (k.setActor a f) :=
  ⟨List.Sublist.refl _, List.Sublist.refl _, rfl, rfl, by simp, fun b => by
    rw [actor_setActor]; split
    · rename_i h; rw [h.1]; exact (hf _).1
    · exact Or.inl rfl, fun b => by
    rw [actor_setActor]; split
    · rename_i h; rw [h.1]; exact (hf _).2.1
    · exact fun h => h, fun b => by
    rw [actor_setActor]; split
    · rename_i h; rw [h.1]; exact (hf _).2.2.1
    · exact fun h => h, fun b => by
    rw [actor_setActor]; split
    · rename_i h; rw [h.1]; exact (hf _).2.2.2.1
    · exact fun h => h, fun _ h => Or.inl h, fun b => by
    rw [actor_setActor]; split
    · rename_i h; rw [h.1]; exact (hf _).2.2.2.2
    · exact fun h => h⟩

theorem shr_setImpl (k : K) (i : Nat) (f : Impl → Impl) (hf : ∀ x, (f x).sfk = x.sfk) : Shr k (k.setImpl i f) :=
  ⟨List.Sublist.refl _, List.Sublist.refl _, rfl, by simp [K.setImpl, map_upd_inv _ _ _ _ hf], rfl, fun _ => Or.inl rfl, fun _ h => h, fun _ h => h, fun _ h => h,
   fun _ h => Or.inl h, fun _ h => h⟩

/-- generic introduction: same impls/actors tables, sublists of timers and heap -/
theorem shr_of (k k' : K) (h1 : k'.timers.Sublist k.timers) (h2 : k'.heap.Sublist k.heap) (h3 : k'.nextT = k.nextT)
    (h4 : k'.impls = k.impls) (h5 : k'.actors = k.actors) (h6 : k'.toRun = k.toRun := by rfl) : Shr k k' :=
  ⟨h1, h2, h3, by rw [h4], by rw [h5], fun a => by unfold K.actor; rw [h5]; exact Or.inl rfl,
   fun a => by unfold K.actor; rw [h5]; exact fun h => h, fun a => by unfold K.actor; rw [h5]; exact fun h => h,
   fun a => by unfold K.actor; rw [h5]; exact fun h => h, fun a ha => by rw [h6] at ha; exact Or.inl ha,
   fun a => by unfold K.actor; rw [h5]; exact fun h => h⟩

theorem shr_clearRun (k : K) : Shr k { k with toRun := [] } :=
  ⟨List.Sublist.refl _, List.Sublist.refl _, rfl, rfl, rfl, fun _ => Or.inl rfl, fun _ h => h, fun _ h => h,
   fun _ h => h, fun b hb => by simp at hb, fun _ h => h⟩

/-- a record update that appends `a` — dying or not in a simcall — to actors_to_run_ -/
theorem shr_pushRun (k : K) (a : Nat) (h : (k.actor a).wannadie = true ∨ (k.actor a).blocked = false) :
    Shr k { k with toRun := k.toRun ++ [a] } :=
  ⟨List.Sublist.refl _, List.Sublist.refl _, rfl, rfl, rfl, fun _ => Or.inl rfl, fun _ h => h, fun _ h => h,
   fun _ h => h, fun b hb => by
     rcases List.mem_append.mp hb with hb | hb
     · exact Or.inl hb
     · simp only [List.mem_singleton] at hb; subst hb; exact Or.inr h, fun _ h => h⟩

theorem shr_answer (k : K) (a : Nat) : Shr k (k.answer a) := by
  unfold K.answer; split
  · refine (shr_setActor k a (fun x => { x with blocked := false }) (by fr_side)).trans (shr_pushRun _ a ?_)
    right
    rw [actor_setActor]; split
    · rfl
    · rename_i hb hn
      simp only [true_and, Nat.not_lt] at hn
      rw [actor_of_ge _ _ hn]; rfl
  · exact shr_of _ _ (List.Sublist.refl _) (List.Sublist.refl _) rfl rfl rfl

theorem shr_unregister (k : K) (i a : Nat) : Shr k (k.unregister i a) := by
  unfold K.unregister
  exact (shr_setImpl k i _ (by intro _; rfl)).trans (shr_setActor _ a _ (by fr_side))

theorem shr_timerRemove (k : K) (id : Nat) : Shr k (k.timerRemove id) :=
  shr_of _ _ (List.filter_sublist) (List.Sublist.refl _) rfl rfl rfl

theorem shr_foldl_unregister (l : List Nat) (a : Nat) (k : K) :
    Shr k (l.foldl (fun k j => k.unregister j a) k) := by
  induction l generalizing k with
  | nil => exact Shr.refl k
  | cons x xs ih => exact (shr_unregister k x a).trans (ih _)

/-- `unregister_first_simcall` in three stages -/
def K.uf1 (k : K) (i a : Nat) : K :=
  (k.setImpl i (fun x => { x with simcalls := x.simcalls.drop 1 })).setActor a
    (fun x => { x with waiting := x.waiting.erase i })
def K.uf2 (k : K) (a : Nat) : K :=
  match (k.actor a).tcb with
  | some t => (k.timerRemove t).setActor a (fun x => { x with tcb := none })
  | none => k
def K.uf3 (k : K) (i a : Nat) : K :=
  if (k.actor a).anyList.isEmpty then k else
    ((k.actor a).anyList.foldl (fun k j => k.unregister j a) k).setActor a
      (fun x => { x with res := .rank (rankOf (k.actor a).anyList i) })
def K.ufAll (k : K) (i a : Nat) : K := ((k.uf1 i a).uf2 a).uf3 i a

theorem unregisterFirst_eq (k : K) (i a : Nat) :
    k.unregisterFirst i a =
      (k.ufAll i a, ((k.ufAll i a).actor a).blocked && !((k.ufAll i a).actor a).wannadie) := by
  unfold K.unregisterFirst K.ufAll
  simp only []
  show (if (!(((k.uf1 i a).uf2 a).uf3 i a |>.actor a).blocked) = true then ((((k.uf1 i a).uf2 a).uf3 i a), false)
        else if ((((k.uf1 i a).uf2 a).uf3 i a).actor a).wannadie = true then ((((k.uf1 i a).uf2 a).uf3 i a), false)
        else ((((k.uf1 i a).uf2 a).uf3 i a), true)) = _
  cases h1 : ((((k.uf1 i a).uf2 a).uf3 i a).actor a).blocked <;>
    cases h2 : ((((k.uf1 i a).uf2 a).uf3 i a).actor a).wannadie <;> simp

theorem shr_uf1 (k : K) (i a : Nat) : Shr k (k.uf1 i a) :=
  (shr_setImpl k i (fun x => { x with simcalls := x.simcalls.drop 1 }) (by intro _; rfl)).trans (shr_setActor _ a _ (by fr_side))

theorem shr_uf2 (k : K) (a : Nat) : Shr k (k.uf2 a) := by
  unfold K.uf2; split
  · exact (shr_timerRemove k _).trans (shr_setActor _ a _ (by fr_side))
  · exact Shr.refl _

theorem shr_uf3 (k : K) (i a : Nat) : Shr k (k.uf3 i a) := by
  unfold K.uf3; split
  · exact Shr.refl _
  · exact (shr_foldl_unregister _ a k).trans (shr_setActor _ a _ (by fr_side))

theorem shr_ufAll (k : K) (i a : Nat) : Shr k (k.ufAll i a) :=
  ((shr_uf1 k i a).trans (shr_uf2 _ a)).trans (shr_uf3 _ i a)

theorem shr_unregisterFirst (k : K) (i a : Nat) : Shr k (k.unregisterFirst i a).1 := by
  rw [unregisterFirst_eq]; exact shr_ufAll k i a

/-- one iteration of the loop of `finish()` once the front simcall `a` is known -/
def K.finishOne (k : K) (i a : Nat) : K :=
  let k1 := k.ufAll i a
  if ((k1.actor a).blocked && !(k1.actor a).wannadie) then
    let k2 := k1.setImpl i (fun x => { x with owners := x.owners.erase a })
    let k3 := if (k2.impl i).st == .canceled then k2.setActor a (fun x => { x with res := .cancelExc }) else k2
    k3.answer a
  else k1

theorem finishLoop_succ (k : K) (i n : Nat) :
    k.finishLoop i (n+1) = match (k.impl i).simcalls with
      | [] => k
      | a :: _ => (k.finishOne i a).finishLoop i n := by
  conv => lhs; unfold K.finishLoop
  cases h : (k.impl i).simcalls with
  | nil => rfl
  | cons a tl =>
    simp only [unregisterFirst_eq, K.finishOne]

theorem shr_finishOne (k : K) (i a : Nat) : Shr k (k.finishOne i a) := by
  unfold K.finishOne
  simp only []
  split
  · refine (shr_ufAll k i a).trans (Shr.trans ?_ (shr_answer _ a))
    refine (shr_setImpl _ i (fun x => { x with owners := x.owners.erase a }) (by intro _; rfl)).trans ?_
    split
    · exact shr_setActor _ a _ (by fr_side)
    · exact Shr.refl _
  · exact shr_ufAll k i a

theorem shr_finishLoop (k : K) (i n : Nat) : Shr k (k.finishLoop i n) := by
  induction n generalizing k with
  | zero => exact Shr.refl k
  | succ n ih =>
    rw [finishLoop_succ]
    split
    · exact Shr.refl k
    · exact (shr_finishOne k i _).trans (ih _)

theorem shr_finish (k : K) (i : Nat) : Shr k (k.finish i) := by
  unfold K.finish
  simp only []
  refine Shr.trans ?_ (shr_finishLoop _ i _)
  shr_tac

theorem shr_cancel (k : K) (i : Nat) : Shr k (k.cancel i) := by
  unfold K.cancel
  simp only []
  split <;> (try split) <;> (try split) <;> shr_tac

theorem shr_foldl_cancel (l : List Nat) (k : K) : Shr k (l.foldl (fun k i => k.cancel i) k) := by
  induction l generalizing k with
  | nil => exact Shr.refl k
  | cons x xs ih => exact (shr_cancel k x).trans (ih _)

theorem shr_exitLoop (k : K) (a n : Nat) : Shr k (k.exitLoop a n) := by
  induction n generalizing k with
  | zero => exact Shr.refl k
  | succ n ih =>
    unfold K.exitLoop
    split
    · exact Shr.refl k
    · rename_i i _ _
      simp only []
      refine Shr.trans ?_ (ih _)
      exact (((shr_setActor k a _ (by fr_side)).trans (shr_cancel _ i)).trans (shr_setImpl _ i _ (by intro _; rfl))).trans (shr_finish _ i)

theorem shr_exit (k : K) (a : Nat) : Shr k (k.exit a) := by
  unfold K.exit
  simp only []
  exact ((shr_setActor k a _ (by fr_side)).trans (shr_exitLoop _ a _)).trans (shr_foldl_cancel _ _)

theorem shr_addToRun (k : K) (a : Nat) (h : (k.actor a).wannadie = true ∨ (k.actor a).blocked = false) :
    Shr k (k.addToRun a) := by
  unfold K.addToRun; split
  · exact Shr.refl k
  · exact shr_pushRun k a h

/-- after `exit()` the actor is dying (or does not exist) -/
theorem exit_wd (k : K) (a : Nat) :
    ((k.exit a).actor a).wannadie = true ∨ ((k.exit a).actor a).blocked = false := by
  unfold K.exit
  simp only []
  by_cases ha : a < k.actors.length
  · left
    have s := (shr_exitLoop (k.setActor a fun x => { x with wannadie := true, res := Res.none }) a
      ((k.setActor a fun x => { x with wannadie := true, res := Res.none }).actor a).waiting.length).trans
      (shr_foldl_cancel (K.ownedBy ((k.setActor a fun x => { x with wannadie := true, res := Res.none }).exitLoop a
        ((k.setActor a fun x => { x with wannadie := true, res := Res.none }).actor a).waiting.length) a) _)
    exact s.wd a (by rw [actor_setActor_same _ _ _ ha])
  · right
    have s := ((shr_setActor k a (fun x => { x with wannadie := true, res := Res.none }) (by fr_side)).trans
      (shr_exitLoop _ a
      ((k.setActor a fun x => { x with wannadie := true, res := Res.none }).actor a).waiting.length)).trans
      (shr_foldl_cancel (K.ownedBy ((k.setActor a fun x => { x with wannadie := true, res := Res.none }).exitLoop a
        ((k.setActor a fun x => { x with wannadie := true, res := Res.none }).actor a).waiting.length) a) _)
    exact s.blk a (by rw [actor_of_ge k a (by omega)]; rfl)

theorem shr_kill (k : K) (a : Nat) : Shr k (k.kill a) := by
  unfold K.kill; split
  · exact Shr.refl k
  · exact (shr_exit k a).trans (shr_addToRun _ a (exit_wd k a))

def K.dieK (k : K) (a : Nat) : K :=
  match (k.actor a).ktimer with
    | some t => (k.timerRemove t).setActor a (fun x => { x with ktimer := none })
    | none => k
def K.dieT (k : K) (a : Nat) : K :=
  match (k.actor a).tcb with
    | some t => (k.timerRemove t).setActor a (fun x => { x with tcb := none })
    | none => k
def K.dieTimers (k : K) (a : Nat) : K := (k.dieK a).dieT a

theorem die_eq (k : K) (a : Nat) (failed : Bool) :
    (k.die a failed).1 = (((k.ownedBy a).foldl (fun k i => k.cancel i) k).dieTimers a).setActor a
      (fun x => { x with alive := false, wannadie := true, blocked := false, pending := none, prog := [] }) := rfl

theorem shr_dieTimers (k : K) (a : Nat) : Shr k (k.dieTimers a) := by
  have h1 : ∀ k : K, Shr k (k.dieK a) := by
    intro k; unfold K.dieK; split
    · exact (shr_timerRemove k _).trans (shr_setActor _ a _ (by fr_side))
    · exact Shr.refl _
  have h2 : ∀ k : K, Shr k (k.dieT a) := by
    intro k; unfold K.dieT; split
    · exact (shr_timerRemove k _).trans (shr_setActor _ a _ (by fr_side))
    · exact Shr.refl _
  exact (h1 k).trans (h2 _)

theorem shr_die (k : K) (a : Nat) (failed : Bool) : Shr k (k.die a failed).1 := by
  rw [die_eq]
  exact ((shr_foldl_cancel _ k).trans (shr_dieTimers _ a)).trans (shr_setActor _ a _ (by fr_side))


/-! ### generic induction over an actor slice -/

inductive SliceUpd (k : K) (a : Nat) : (Actor → Actor) → Prop where
  | next : SliceUpd k a (fun x => { x with prog := x.prog.drop 1, stage := 0, res := .none, anyList := [] })
  | slot (s i : Nat) (st st' : SState) : (k.actor a).slot s = some (i, st') → SliceUpd k a (fun x => x.setSlot s i st)
  | slotAny (s r : Nat) (st : SState) : (k.actor a).res = .rank r →
      SliceUpd k a (fun x => x.setSlot s ((((k.actor a).slot s).map (·.1)).getD 0) st)

def ReqFrom (x : Actor) : Req → Prop
  | .waitFor i _ => ∃ s st, x.slot s = some (i, st)
  | .waitAny is _ => ∀ i ∈ is, ∃ s st, x.slot s = some (i, st)
  | _ => True

theorem waitOp_ind (a : Nat) (P Q : K → Prop)
    (hupd : ∀ k f, P k → SliceUpd k a f → P (k.setActor a f))
    (hissue : ∀ k r b, P k → ReqOk r → ReqFrom (k.actor a) r → Q (k.issue a r b))
    (hbad : ∀ (k : K) s, P k → Q { k with bad := some s })
    (k : K) (s : Nat) (tau : Rat) (oc : Bool) (stage : Nat)
    (next stop : K → List Ev → K × List Ev) (mk : String → String → List Ev)
    (hn : ∀ k' e, P k' → Q (next k' e).1) (hs : ∀ k' e, (stop k' e).1 = k') (hP : P k) :
    Q (K.slice.waitOp k a s tau oc stage (k.actor a) next stop mk).1 := by
  unfold K.slice.waitOp
  split
  · rw [hs]; exact hbad _ _ hP
  · rename_i i st hsl
    simp only []
    split
    · split
      · rw [hs]; exact hbad _ _ hP
      · rw [hs]; exact hissue _ _ _ hP trivial ⟨s, st, hsl⟩
    · split
      · split
        · rw [hs]; exact hissue _ _ _ hP trivial trivial
        · exact hn _ _ hP
      · exact hn _ _ hP
      · exact hn _ _ (hupd _ _ hP (.slot s i _ st hsl))
    · exact hn _ _ (hupd _ _ hP (.slot s i _ st hsl))

theorem slice_ind (a : Nat) (P Q : K → Prop)
    (hupd : ∀ k f, P k → SliceUpd k a f → P (k.setActor a f))
    (hissue : ∀ k r b, P k → ReqOk r → ReqFrom (k.actor a) r → Q (k.issue a r b))
    (hbad : ∀ (k : K) s, P k → Q { k with bad := some s })
    (hdie : ∀ k, P k → Q (k.die a false).1)
    (hPQ : ∀ k, P k → Q k) :
    ∀ fuel k evs, P k → Q (k.slice a fuel evs).1 := by
  intro fuel
  induction fuel with
  | zero => intro k evs hP; exact hPQ k hP
  | succ fuel ih =>
    intro k evs hP
    unfold K.slice
    simp only []
    split
    · exact hdie k hP
    · split
      case h_1 =>
        split
        · exact ih _ _ (hupd _ _ hP .next)
        · rename_i hd
          refine hissue _ _ true hP ?_ trivial
          show (0 : Rat) < _
          exact Rat.not_le.mp hd
      case h_2 => exact ih _ _ (hupd _ _ hP .next)
      case h_3 =>
        split
        · exact hbad _ _ hP
        · rename_i kind d _ _ hc
          refine hissue _ _ false hP ?_ trivial
          simp only [Bool.or_eq_true, Bool.and_eq_true, decide_eq_true_eq, beq_iff_eq, not_or, not_and] at hc
          refine ⟨Rat.not_lt.mp hc.1.1.1, fun hk => ?_⟩
          exact Rat.not_le.mp (hc.1.1.2 hk)
      case h_4 => exact ih _ _ (hupd _ _ hP .next)
      case h_5 => exact hissue _ _ false hP trivial trivial
      case h_6 => exact ih _ _ (hupd _ _ hP .next)
      case h_7 => exact hissue _ _ false hP trivial trivial
      case h_8 => exact ih _ _ (hupd _ _ hP .next)
      case h_9 => exact hissue _ _ false hP trivial trivial
      case h_10 => exact ih _ _ (hupd _ _ hP .next)
      case h_11 =>
        split
        · exact hbad _ _ hP
        · split
          · exact ih _ _ (hupd _ _ hP .next)
          · exact hissue _ _ false hP trivial trivial
      case h_12 =>
        split
        · rename_i i _ hsl _
          exact ih _ _ (hupd _ _ (hupd _ _ hP (.slot _ i _ _ hsl)) .next)
        · exact ih _ _ (hupd _ _ hP .next)
      case h_13 =>
        exact waitOp_ind a P Q hupd hissue hbad k _ _ _ _ _ _ _ (fun k' e hP' => ih _ _ (hupd _ _ hP' .next))
          (fun _ _ => rfl) hP
      case h_14 =>
        exact waitOp_ind a P Q hupd hissue hbad k _ _ _ _ _ _ _ (fun k' e hP' => ih _ _ (hupd _ _ hP' .next))
          (fun _ _ => rfl) hP
      case h_15 =>
        exact waitOp_ind a P Q hupd hissue hbad k _ _ _ _ _ _ _ (fun k' e hP' => ih _ _ (hupd _ _ hP' .next))
          (fun _ _ => rfl) hP
      case h_16 =>
        split
        · exact hbad _ _ hP
        · split
          · exact hbad _ _ hP
          · refine hissue _ _ true hP trivial ?_
            intro i hi
            simp only [List.mem_filterMap, List.mem_map, id] at hi
            obtain ⟨x, ⟨s, _, hs⟩, hx⟩ := hi
            subst hx
            cases hsl : (k.actor a).slot s with
            | none => rw [hsl] at hs; simp at hs
            | some p => rw [hsl] at hs; simp at hs; exact ⟨s, p.2, by rw [← hs]; exact hsl⟩
      case h_17 =>
        split
        · rename_i r hr
          split
          · exact ih _ _ (hupd _ _ (hupd _ _ hP (.slotAny _ r _ hr)) .next)
          · exact hbad _ _ hP
        · exact ih _ _ (hupd _ _ hP .next)

/-! ### `outer` in pieces -/

def outerDelta (s : St) : Option Rat :=
  timeDelta s.now (minDate (s.k.timers.map (·.date))) (minDate (s.k.heap.map (·.date)))

def outerPast (s : St) : Bool :=
  match minDate (s.k.timers.map (·.date)) with | some t => decide (t < s.now) | none => false

/-- `solve`: advance the clock by `d` and update the actions -/
def solveStep (s : St) : Option Rat → St
  | none => s
  | some d =>
    let s := { s with now := s.now + d }
    let r := popWindow s.k.heap.length s []
    { r.1 with k := { r.1.k with heap := r.1.k.heap ++ r.2 } }

def outerTail (s : St) (delta : Option Rat) : St :=
  let s := if delta.isNone && s.k.toRun.isEmpty && !s.k.alive.isEmpty then
      { s with k := s.k.alive.foldl (fun k a => k.kill a) s.k }
    else s
  if delta.isNone && s.k.toRun.isEmpty then { s with done := true } else s

theorem outer_eq (s : St) : outer s =
    match outerPast s with
    | true => { s with k := { s.k with bad := some "solve: xbt_assert(max_date >= now_)" } }
    | false =>
      let s1 := solveStep s (outerDelta s)
      outerTail (timersLoop (s1.k.timers.length + 1) s1) (outerDelta s) := by
  unfold outer
  simp only []
  split
  · rename_i heq
    have : outerPast s = true := heq
    rw [this]
  · rename_i heq
    have : outerPast s = false := heq
    rw [this]
    unfold outerDelta
    generalize timeDelta s.now (minDate (s.k.timers.map (·.date))) (minDate (s.k.heap.map (·.date))) = dl
    cases dl <;> rfl

theorem shr_fire (k : K) (t : Timer) : Shr k (k.fire t) := by
  unfold K.fire
  split
  · rename_i a _
    have s1 := shr_setActor (k.exit a) a (fun x => { x with ktimer := none }) (by fr_side)
    refine ((shr_exit k a).trans s1).trans (shr_addToRun _ _ ?_)
    rcases exit_wd k a with h | h
    · exact Or.inl (s1.wd a h)
    · exact Or.inr (s1.blk a h)
  · simp only []
    split
    · exact shr_setActor _ _ _ (by fr_side)
    · exact (((shr_setActor k _ _ (by fr_side)).trans (shr_unregister _ _ _)).trans
        (shr_setActor _ _ _ (by fr_side))).trans (shr_answer _ _)
  · simp only []
    exact (((shr_setActor k _ _ (by fr_side)).trans (shr_foldl_unregister _ _ _)).trans
        (shr_setActor _ _ _ (by fr_side))).trans (shr_answer _ _)

theorem shr_foldl_kill (l : List Nat) (k : K) : Shr k (l.foldl (fun k a => k.kill a) k) := by
  induction l generalizing k with
  | nil => exact Shr.refl k
  | cons x xs ih => exact (shr_kill k x).trans (ih _)

end SgVerif.TimeCore
