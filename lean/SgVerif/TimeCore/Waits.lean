import SgVerif.TimeCore.Lemmas
/-
Local semantics of the timed waits: what `ActivityImpl::wait_for` / `wait_any_for` set up, what their timer callbacks
do when they fire, what `cancel` does.  All statements are for EVERY kernel state (no reachability assumption beyond
the indices being valid).
-/
namespace SgVerif.TimeCore

theorem getElem?_upd_same {α} (l : List α) (i : Nat) (f : α → α) :
    (upd l i f)[i]? = l[i]?.map f := by
  induction l generalizing i with
  | nil => simp [upd]
  | cons x xs ih => cases i <;> simp [upd, ih]

/-- `ActivityImpl::wait_for` on an activity that is still WAITING/RUNNING, with `timeout >= 0`: the simcall is
registered once and ONE timer is set at exactly `now + timeout`, remembered in `simcall_.timeout_cb_`. -/
theorem handle_waitFor_sets_deadline (now : Rat) (k : K) (a i : Nat) (tau : Rat)
    (ha : a < k.actors.length) (hi : i < k.impls.length)
    (hst : (k.impl i).st = .waiting ∨ (k.impl i).st = .running) (htau : 0 ≤ tau) :
    let k' := k.handle now a (.waitFor i tau)
    k'.timers = k.timers ++ [{ id := k.nextT, date := now + tau, cb := .wto a i }] ∧
    (k'.actor a).tcb = some k.nextT ∧
    (k'.impl i).simcalls = (k.impl i).simcalls ++ [a] ∧
    (k'.actor a).waiting = (k.actor a).waiting ++ [i] ∧
    k'.toRun = k.toRun ∧ k'.heap = k.heap := by
  have hx : k.actors[a]? = some k.actors[a] := List.getElem?_eq_getElem ha
  have hy : k.impls[i]? = some k.impls[i] := List.getElem?_eq_getElem hi
  simp only [K.impl, List.getD_eq_getElem?_getD, hy, Option.getD_some] at hst
  have ht : (tau ≥ 0) := htau
  rcases hst with h | h <;>
    simp [K.handle, K.register, K.timerSet, K.actor, K.impl, K.setActor, K.setImpl, getElem?_upd_same, hx, hy, h, ht]

/-- without a timeout (`wait()`): no timer at all -/
theorem handle_wait_no_timer (now : Rat) (k : K) (a i : Nat) (tau : Rat)
    (hi : i < k.impls.length)
    (hst : (k.impl i).st = .waiting ∨ (k.impl i).st = .running) (htau : tau < 0) :
    (k.handle now a (.waitFor i tau)).timers = k.timers := by
  have hy : k.impls[i]? = some k.impls[i] := List.getElem?_eq_getElem hi
  simp only [K.impl, List.getD_eq_getElem?_getD, hy, Option.getD_some] at hst
  have ht : ¬ (tau ≥ 0) := by grind
  rcases hst with h | h <;>
    simp [K.handle, K.register, K.impl, K.setActor, K.setImpl, getElem?_upd_same, hy, h, ht]

/-- **completion_at_deadline_counts**: when the timeout timer fires and the activity's action is already FINISHED (it
completed at this very date: `update_actions_state` ran before `Timer::execute_all`) or FAILED, the callback does
nothing: the actor stays registered and will be answered — without timeout — by `handle_ended_actions`. -/
theorem fire_wto_finished (k : K) (id : Nat) (date : Rat) (a i : Nat)
    (hfin : (k.impl i).act = .finished ∨ (k.impl i).act = .failed) :
    (k.fire { id := id, date := date, cb := .wto a i }).toRun = k.toRun ∧
    (k.fire { id := id, date := date, cb := .wto a i }).impls = k.impls ∧
    (k.fire { id := id, date := date, cb := .wto a i }).bad = k.bad := by
  rcases hfin with h | h <;> simp [K.fire, h]

/-- **timeout**: when the timer fires and the action has not finished, the simcall is unregistered (first occurrence),
the result is "timeout" and the actor is scheduled. -/
theorem fire_wto_timeout (k : K) (id : Nat) (date : Rat) (a i : Nat) (ha : a < k.actors.length)
    (hi : i < k.impls.length)
    (hrun : (k.impl i).act ≠ .finished ∧ (k.impl i).act ≠ .failed) (hb : (k.actor a).blocked = true) :
    let k' := k.fire { id := id, date := date, cb := .wto a i }
    k'.toRun = k.toRun ++ [a] ∧ (k'.actor a).res = .timeout ∧ (k'.actor a).blocked = false ∧
    (k'.impl i).simcalls = (k.impl i).simcalls.erase a ∧ (k'.actor a).waiting = (k.actor a).waiting.erase i ∧
    (k'.actor a).tcb = none ∧ k'.bad = k.bad := by
  have hx : k.actors[a]? = some k.actors[a] := List.getElem?_eq_getElem ha
  have hy : k.impls[i]? = some k.impls[i] := List.getElem?_eq_getElem hi
  simp only [K.actor, K.impl, List.getD_eq_getElem?_getD, hx, hy, Option.getD_some] at hrun hb
  simp [K.fire, K.answer, K.unregister, K.actor, K.impl, K.setActor, K.setImpl, getElem?_upd_same, hx, hy,
        hrun.1, hrun.2, hb]

/-! `wait_any_for`'s timer callback -/

theorem foldl_unregister_frame (l : List Nat) (a : Nat) (k : K) :
    (l.foldl (fun k j => k.unregister j a) k).toRun = k.toRun ∧
    (l.foldl (fun k j => k.unregister j a) k).bad = k.bad ∧
    (l.foldl (fun k j => k.unregister j a) k).actors.length = k.actors.length ∧
    ((l.foldl (fun k j => k.unregister j a) k).actor a).blocked = (k.actor a).blocked := by
  induction l generalizing k with
  | nil => simp
  | cons x xs ih =>
    simp only [List.foldl]
    obtain ⟨h1, h2, h3, h4⟩ := ih (k.unregister x a)
    refine ⟨by rw [h1]; rfl, by rw [h2]; rfl, by rw [h3]; simp [K.unregister], ?_⟩
    rw [h4]
    by_cases ha : a < k.actors.length
    · have hx : k.actors[a]? = some k.actors[a] := List.getElem?_eq_getElem ha
      simp [K.unregister, K.actor, K.setActor, K.setImpl, getElem?_upd_same, hx]
    · have hx : k.actors[a]? = none := by simp; omega
      simp [K.unregister, K.actor, K.setActor, K.setImpl, getElem?_upd_same, hx]

/-- the callback of `wait_any_for` does NOT test whether an activity "terminated right on time": whatever the state
of the activities — including one whose action finished at this very date — the actor is answered with the timeout
(result -1) at the deadline. -/
theorem fire_wany_timeout (k : K) (id : Nat) (date : Rat) (a : Nat) (is : List Nat) (ha : a < k.actors.length)
    (hb : (k.actor a).blocked = true) :
    let k' := k.fire { id := id, date := date, cb := .wany a is }
    k'.toRun = k.toRun ++ [a] ∧ (k'.actor a).res = .timeout ∧ (k'.actor a).blocked = false ∧ k'.bad = k.bad := by
  simp only [K.fire]
  obtain ⟨h1, h2, h3, h4⟩ := foldl_unregister_frame is a (k.setActor a fun x => { x with tcb := none })
  have hx : k.actors[a]? = some k.actors[a] := List.getElem?_eq_getElem ha
  have hb' : ((k.setActor a fun x => { x with tcb := none }).actor a).blocked = true := by
    simp only [K.actor, List.getD_eq_getElem?_getD, hx, Option.getD_some] at hb
    simp [K.actor, K.setActor, getElem?_upd_same, hx, hb]
  rw [hb'] at h4
  have hlen : a < (is.foldl (fun k j => k.unregister j a) (k.setActor a fun x => { x with tcb := none })).actors.length := by
    rw [h3]; simpa using ha
  simp only [setActor_toRun, setActor_bad] at h1 h2
  generalize (is.foldl (fun k j => k.unregister j a) (k.setActor a fun x => { x with tcb := none })) = k2 at *
  have hx2 : k2.actors[a]? = some k2.actors[a] := List.getElem?_eq_getElem hlen
  simp only [K.actor, List.getD_eq_getElem?_getD, hx2, Option.getD_some] at h4
  simp [K.answer, K.actor, K.setActor, getElem?_upd_same, hx2, h4, h1, h2]

/-- **wait_for_or_cancel_cancels** (`Activity::cancel` → `ActivityImpl::cancel` on a running exec / I/O): the action
leaves the heap at once — it will never complete and its resource is free again —, it is queued as failed, and the
activity is CANCELED. -/
theorem cancel_running (k : K) (i : Nat) (hi : i < k.impls.length)
    (hk : (k.impl i).kind = .exec ∨ (k.impl i).kind = .io) (hact : (k.impl i).act = .started) :
    let k' := k.cancel i
    (∀ e ∈ k'.heap, e.impl ≠ i) ∧ i ∈ k'.failedQ ∧ (k'.impl i).st = .canceled ∧ (k'.impl i).act = .failed ∧
    k'.toRun = k.toRun ∧ k'.timers = k.timers := by
  have hy : k.impls[i]? = some k.impls[i] := List.getElem?_eq_getElem hi
  simp only [K.impl, List.getD_eq_getElem?_getD, hy, Option.getD_some] at hk hact
  rcases hk with h | h <;>
    simp [K.cancel, K.impl, K.setImpl, getElem?_upd_same, hy, h, hact]

/-- a kill timer schedules its actor: it runs (and dies) in the next scheduling round of this very date -/
theorem fire_kill_scheduled (k : K) (id : Nat) (date : Rat) (a : Nat) :
    a ∈ (k.fire { id := id, date := date, cb := .kill a }).toRun := by
  simp only [K.fire, K.addToRun]
  split
  · rename_i h; simpa using h
  · simp

/-! ### sleeps, kill times, starts: the dates that are set -/

/-- `sleep_for(d)` handled at `now`: a new sleep activity whose action is due at exactly `now + clamp(d)`, on which
the actor — and only it — is registered; no timer is involved. -/
theorem handle_sleep_date (now : Rat) (k : K) (a : Nat) (d : Rat) (ha : a < k.actors.length) :
    let k' := k.handle now a (.sleep d)
    k'.heap = k.heap ++ [{ impl := k.impls.length, date := now + clampSleep prec d }] ∧
    (k'.impl k.impls.length).simcalls = [a] ∧ (k'.impl k.impls.length).kind = .sleep ∧
    (k'.impl k.impls.length).start = now ∧
    (k'.actor a).waiting = (k.actor a).waiting ++ [k.impls.length] ∧
    k'.timers = k.timers ∧ k'.toRun = k.toRun := by
  have hx : k.actors[a]? = some k.actors[a] := List.getElem?_eq_getElem ha
  have hup : ∀ (l : List Impl) (x : Impl) (f : Impl → Impl), (upd (l ++ [x]) l.length f)[l.length]? = some (f x) := by
    intro l x f; rw [getElem?_upd_same]; simp
  simp [K.handle, K.newImpl, K.register, K.actor, K.impl, K.setActor, K.setImpl, getElem?_upd_same, hx, hup]

theorem answer_timers (k : K) (a : Nat) : (k.answer a).timers = k.timers := by
  unfold K.answer; split <;> rfl

/-- `set_kill_time(t)` with `t > now`: ONE timer at exactly `t`; with `t <= now`: nothing -/
theorem handle_killAt_timer (now : Rat) (k : K) (a : Nat) (t : Rat) :
    (now < t → (k.handle now a (.killAt t)).timers = k.timers ++ [{ id := k.nextT, date := t, cb := .kill a }]) ∧
    (t ≤ now → (k.handle now a (.killAt t)).timers = k.timers) := by
  constructor
  · intro h
    have : ¬ (t ≤ now) := by grind
    simp [K.handle, K.timerSet, this, answer_timers]
  · intro h
    simp [K.handle, h, answer_timers]

/-- starting an exec / I/O of isolated duration `d` at `now`: start time `now`, action due at exactly `now + d` -/
theorem handle_start_date (now : Rat) (k : K) (a slot : Nat) (kind : Kind) (d : Rat)
    (hk : kind = .exec ∨ kind = .io) :
    let k' := k.handle now a (.start slot kind d)
    k'.heap = k.heap ++ [{ impl := k.impls.length, date := now + d, full := kind == .io }] ∧
    (k'.impl k.impls.length).start = now ∧ k'.timers = k.timers := by
  have hup : ∀ (l : List Impl) (x : Impl) (f : Impl → Impl), (upd (l ++ [x]) l.length f)[l.length]? = some (f x) := by
    intro l x f; rw [getElem?_upd_same]; simp
  rcases hk with h | h <;> subst h <;>
    simp [K.handle, K.newImpl, K.answer, K.impl, K.setActor, K.setImpl]
    <;> (split <;> simp [K.impl, K.setActor])

end SgVerif.TimeCore
