import SgVerif.Sched.Model
import SgVerif.Sched.Lemmas
import SgVerif.Sched.Demo
import SgVerif.C01.Gen
/-!
C01 — simulations are reproducible, regardless of the address-space layout.

Full-strength statement (on the round model of `SgVerif/Sched/Model.lean`, address maps `α β : Addr` being used exactly
where the generated inventory `Gen.inventory` lists an address-ordered container that the modelled round iterates):

    theorem run_addr_indep : ∀ (S : Sys) (α β : Addr) p fuel (s : St S),
        runWith Cfg.current α p fuel s = runWith Cfg.current β p fuel s

It is FALSE on the code as it is today: `ActorImpl::activities_` is a `std::set<ActivityImplPtr>` and a dying actor
cancels its activities in address order, which decides the order in which the peers blocked on them are woken
(`activities_counterexample`, replayed on the library: corpus case `activities-cancel-order-witness`).  It was also
false before fix 7f02bcf969 because of `EngineImpl::daemons_` (`daemons_counterexample`, kept for the record).

Proved:
  * `run_addr_indep_partial` — for EVERY configuration, system, state, policy and fuel, under one explicit
    order-insensitivity hypothesis per address-ordered site the round iterates (the per-entry justifications of
    `accepted/JUSTIFICATIONS.md` for `activities_` and, before its fix, `daemons_`);
  * `run_addr_indep_current` — the code as it is now needs only the hypothesis on `activities_` (the daemons fix removed the other);
  * `run_addr_indep_repaired` — with props/C01/proposed_fix.diff (creation order) NO hypothesis is left: full strength.
After the fix is applied: `Cfg.current` becomes `⟨false, false⟩`, `run_addr_indep_repaired` is the statement for the
current code and `activities_counterexample` moves to the "kept for the record" class like the daemons one.
`run_deterministic` (same inputs, same run) is definitional — `runWith` is a Lean function — and is not counted.
-/
namespace SgVerif.C01
open SgVerif.Sched

variable {S : Sys}

/-- order-insensitivity of the cancellation loop over `ActorImpl::activities_` (inventory entry
    src/kernel/actor/ActorImpl.hpp:activities_, sites `cleanup_from_self`, `exit`) -/
def ActivitiesInsensitive (S : Sys) : Prop :=
  ∀ (s : St S) (l1 l2 : List Vid), l1.Perm l2 → cancelAll s l1 = cancelAll s l2

/-- order-insensitivity of the kill loop over `EngineImpl::daemons_` (inventory entry src/kernel/EngineImpl.hpp:daemons_,
    site `EngineImpl::run`) -/
def DaemonsInsensitive (S : Sys) (c : Cfg) : Prop :=
  ∀ (γ : Addr) (s : St S) (l1 l2 : List Aid), l1.Perm l2 → l1.foldl (killActor c γ) s = l2.foldl (killActor c γ) s

theorem cleanup_addr_indep (c : Cfg) (α β : Addr) (hA : c.activitiesByAddr = true → ActivitiesInsensitive S)
    (s : St S) (a : Aid) : cleanup c α s a = cleanup c β s a := by
  simp only [cleanup, actOrder]
  cases hc : c.activitiesByAddr with
  | false => rfl
  | true => simp only [if_true]; rw [hA hc s _ _ (sortBy_perm2 α.act β.act _)]

theorem killActor_addr_indep (c : Cfg) (α β : Addr) (hA : c.activitiesByAddr = true → ActivitiesInsensitive S)
    (s : St S) (a : Aid) : killActor c α s a = killActor c β s a := by
  simp only [killActor, cleanup_addr_indep c α β hA]

theorem handleOne_addr_indep (c : Cfg) (α β : Addr) (hA : c.activitiesByAddr = true → ActivitiesInsensitive S)
    (s : St S) (a : Aid) : handleOne c α s a = handleOne c β s a := by
  simp only [handleOne, cleanup_addr_indep c α β hA]

theorem maestroPhase_addr_indep (c : Cfg) (α β : Addr) (hA : c.activitiesByAddr = true → ActivitiesInsensitive S)
    (hD : c.daemonsByAddr = true → DaemonsInsensitive S c) (s : St S) (ran : List Aid) :
    maestroPhase c α s ran = maestroPhase c β s ran := by
  have h1 : handleOne c α (S := S) = handleOne c β := by funext s a; exact handleOne_addr_indep c α β hA s a
  have h2 : killActor c α (S := S) = killActor c β := by funext s a; exact killActor_addr_indep c α β hA s a
  simp only [maestroPhase, h1, h2, daemonOrder]
  split
  · cases hc : c.daemonsByAddr with
    | false => rfl
    | true => simp only [if_true]; exact hD hc β _ _ _ (sortBy_perm2 α.actor β.actor _)
  · rfl

/-- C01 under explicit order-insensitivity hypotheses, one per address-ordered container the round iterates:
    the whole run (every local state, hence every per-actor log; the kernel state; the run list) is independent of the
    address map — for every configuration, system, scheduling policy, fuel and state. -/
theorem run_addr_indep_partial (c : Cfg) (α β : Addr) (hA : c.activitiesByAddr = true → ActivitiesInsensitive S)
    (hD : c.daemonsByAddr = true → DaemonsInsensitive S c) (p : Policy) :
    ∀ (fuel : Nat) (s : St S), runWith c α p fuel s = runWith c β p fuel s := by
  intro fuel
  induction fuel with
  | zero => intro s; rfl
  | succ n ih =>
    intro s
    simp only [runWith]
    cases hs : s.toRun with
    | nil =>
      simp only
      cases S.advance s.k with
      | none => rfl
      | some r => exact ih _
    | cons a t =>
      simp only
      have hsc : selfCleanups c α (S := S) = selfCleanups c β := by
        funext s l
        have h1 : selfCleanupOne c α (S := S) = selfCleanupOne c β := by
          funext s a; simp only [selfCleanupOne, cleanup_addr_indep c α β hA]
        simp only [selfCleanups, h1]
      have : subroundWith c α (p n (a :: t)) s = subroundWith c β (p n (a :: t)) s := by
        simp only [subroundWith, maestroPhase_addr_indep c α β hA hD, hsc]
      rw [this]; exact ih _

/-- the code as it is now (daemons ordered by pid): only the hypothesis on `activities_` is needed -/
theorem run_addr_indep_current (α β : Addr) (hA : ActivitiesInsensitive S) (p : Policy) (fuel : Nat) (s : St S) :
    runWith Cfg.current α p fuel s = runWith Cfg.current β p fuel s :=
  run_addr_indep_partial Cfg.current α β (fun _ => hA) (fun h => by cases h) p fuel s

/-- with props/C01/proposed_fix.diff (activities ordered by creation rank): full strength, no hypothesis -/
theorem run_addr_indep_repaired (α β : Addr) (p : Policy) (fuel : Nat) (s : St S) :
    runWith Cfg.repaired α p fuel s = runWith Cfg.repaired β p fuel s :=
  run_addr_indep_partial Cfg.repaired α β (fun h => by cases h) (fun h => by cases h) p fuel s

/-! ### counterexamples (concrete instances, by evaluation) -/
open Demo

/-- TODAY's code: actor 0 ends while it owns the activities 10 and 11 on which actors 1 and 2 are blocked.  Under layout
    A maestro cancels 10 then 11 (run list 1, 2); under layout B 11 then 10 (run list 2, 1): the runs differ. -/
theorem activities_counterexample :
    (run Cfg.current layoutA 1 (st0 false [0])).toRun = [1, 2] ∧
    (run Cfg.current layoutB 1 (st0 false [0])).toRun = [2, 1] ∧
    (run Cfg.current layoutA 1 (st0 false [0])).k.log ≠ (run Cfg.current layoutB 1 (st0 false [0])).k.log := by decide

/-- BEFORE fix 7f02bcf969: two daemons (5 and 6) alive when the last regular actor has ended are killed in address
    order, so the order of their on_exit callbacks (the kernel log here) depends on the layout. -/
theorem daemons_counterexample :
    (run Cfg.preFix layoutA 1 (st0 true [3])).k.log = [103, 205, 206] ∧
    (run Cfg.preFix layoutB 1 (st0 true [3])).k.log = [103, 206, 205] := by decide

/-! ### non-vacuity and regression -/

/-- the fixed daemons loop on the same instance: both layouts give the pid order -/
example : (run Cfg.current layoutA 1 (st0 true [3])).k.log = [103, 205, 206] ∧
    (run Cfg.current layoutB 1 (st0 true [3])).k.log = [103, 205, 206] := by decide

/-- the repaired activities loop on the witness of `activities_counterexample`: creation order under both layouts -/
example : (run Cfg.repaired layoutA 1 (st0 false [0])).toRun = [1, 2] ∧
    (run Cfg.repaired layoutB 1 (st0 false [0])).toRun = [1, 2] := by decide

/-- a system satisfying `ActivitiesInsensitive` non-trivially: cancelling only counts (an unobservable order) -/
def counting : Sys := { Demo.sys with cancel := fun _ k => ({ k with log := k.log.map (· + 1) }, []) }

example : ActivitiesInsensitive counting := by
  intro s l1 l2 h
  refine foldl_perm _ ?_ h s
  intro s a b; rfl

/-! ### tie with the generated inventory
The hypotheses above are per inventory entry.  These examples re-check on every build that the address-ordered
containers that are ITERATED somewhere are exactly the ones the justifications were written for: the two the round model
iterates (`daemons_` now under a pid comparator, `activities_`) and those outside the modelled round
(accepted/JUSTIFICATIONS.md says why each is out).  A new entry makes this file fail to build. -/
def modelled : List String := ["activities_"]
def outsideRound : List String :=
  ["bypass_routes_", "dependencies_", "predecessors_", "successors_", "netzones", "active_comms_down_",
   "current_activities", "dp_objs_", "current_activities"]

example : ((Gen.addrIterated.map fun e => e.var).filter (· != "activities_")) = ["bypass_routes_", "dependencies_",
    "predecessors_", "successors_", "netzones", "active_comms_down_", "current_activities", "dp_objs_",
    "current_activities"] := by decide

/-- `activities_` is address-ordered (today) or under the creation-rank comparator (with proposed_fix.diff) -/
example : ((Gen.inventory.filter fun e => e.var == "activities_" && e.file == "src/kernel/actor/ActorImpl.hpp").map
    (fun e => e.order)).all (fun o => o == "addr" || o == "cmp:ActivityIdLess") = true := by decide

example : (Gen.inventory.filter fun e => e.var == "daemons_").map (fun e => e.order) = ["cmp:ActorPidLess"] := by decide

end SgVerif.C01
