namespace SgVerif.C01
theorem placeholder : True := trivial
end SgVerif.C01
