/-
C06 — the ABSTRACT condition variable (specification side of the refinement `cond_refines_spec`).

Abstract state: per condition variable the FIFO of its waiters, each with the mutex it waits with (and whether a timer
is armed); per mutex its owner and the FIFO of the blocked lockers with what their blocked call will return (`.unit`
for `lock`, `.flag timedOut` for a condition-variable wait that is re-acquiring its mutex).  No acquisition records, no
`waited`/`granted_` flags, no recursion depth, no registration of simcalls: those are the implementation
(Sync/Model.lean = ConditionVariableImpl.cpp / MutexImpl.cpp), related to this state by `Abs` (C06/Lemmas.lean).
`blk` is a ghost: where an actor is blocked — it only defines which histories an S4U program can produce
(a blocked actor issues nothing) and is not part of the relation with the implementation.

Events = the S4U calls of the path of normal runs (one simcall each) + "the timer of a's wait fires" (input event: the
clock is not modelled).  Non-recursive mutexes.  Re-lock of a mutex by its owner is outside the domain (`illFormed`,
undefined behaviour in POSIX; see C04).  Core only.
-/
import SgVerif.Sync.Model
namespace SgVerif.C06
open SgVerif.Sync

inductive CEv where
  | lock (a : Aid) (m : Nat)
  | tryLock (a : Aid) (m : Nat)
  | unlock (a : Aid) (m : Nat)
  | wait (a : Aid) (c m : Nat) (timed : Bool)      -- wait / wait_for / wait_until (timed = a timeout was given)
  | notifyOne (a : Aid) (c : Nat)
  | notifyAll (a : Aid) (c : Nat)
  | timeout (a : Aid) (c : Nat)                    -- the timer of a's wait on c fires
  deriving Repr, DecidableEq

/-- the kernel-level event of the implementation model that an abstract event stands for -/
def CEv.toEv : CEv → Ev
  | .lock a m => .lock a m
  | .tryLock a m => .tryLock a m
  | .unlock a m => .unlock a m
  | .wait a c m t => .condWait a c m t
  | .notifyOne a c => .signal a c
  | .notifyAll a c => .broadcast a c
  | .timeout a c => .condTimeout a c

structure AMutex where
  owner : Option Aid := none
  queue : List (Aid × Res) := []
  deriving DecidableEq, Repr

structure AWaiter where
  issuer : Aid
  mutex : Nat
  timed : Bool
  deriving DecidableEq, Repr

inductive Loc where
  | cv (c : Nat)
  | mx (m : Nat)
  deriving DecidableEq, Repr

structure ASt where
  mx : Nat → AMutex
  cv : Nat → List AWaiter
  blk : Aid → Option Loc

def ASt.init : ASt := { mx := fun _ => {}, cv := fun _ => [], blk := fun _ => none }

/-- actor `a` acquires mutex `m` for a call that returns `r`: at once when the mutex is free, else at the tail of the
mutex FIFO -/
def ASt.acquire (s : ASt) (a : Aid) (m : Nat) (r : Res) : ASt × Outs :=
  match (s.mx m).owner with
  | none => ({ s with mx := upd s.mx m { (s.mx m) with owner := some a }, blk := upd s.blk a none }, [(a, r)])
  | some _ => ({ s with mx := upd s.mx m { (s.mx m) with queue := (s.mx m).queue ++ [(a, r)] },
                        blk := upd s.blk a (some (.mx m)) }, [])

/-- the owner lets go of mutex `m`: the head of the FIFO becomes the owner and its blocked call returns -/
def ASt.release (s : ASt) (m : Nat) : ASt × Outs :=
  match (s.mx m).queue with
  | [] => ({ s with mx := upd s.mx m { owner := none, queue := [] } }, [])
  | x :: rest => ({ s with mx := upd s.mx m { owner := some x.1, queue := rest }, blk := upd s.blk x.1 none }, [x])

def eraseW (a : Aid) : List AWaiter → List AWaiter
  | [] => []
  | x :: xs => if x.issuer = a then xs else x :: eraseW a xs

/-- wake the waiters `ws` (= the current queue of `c`), head first: each leaves the condition variable and re-acquires
its mutex; its wait returns `false` (no timeout) -/
def ASt.wakeList (s : ASt) (c : Nat) : List AWaiter → ASt × Outs
  | [] => (s, [])
  | x :: rest =>
    let r1 := ({ s with cv := upd s.cv c rest }).acquire x.issuer x.mutex (.flag false)
    let r2 := r1.1.wakeList c rest
    (r2.1, r1.2 ++ r2.2)

def astep (s : ASt) : CEv → Except Err (ASt × Outs)
  | .lock a m =>
    if (s.blk a).isSome then .error .illFormed
    else if (s.mx m).owner = some a then .error .illFormed
    else .ok (s.acquire a m .unit)
  | .tryLock a m =>
    if (s.blk a).isSome then .error .illFormed
    else match (s.mx m).owner with
      | none => .ok ({ s with mx := upd s.mx m { (s.mx m) with owner := some a } }, [(a, .flag true)])
      | some _ => .ok (s, [(a, .flag false)])
  | .unlock a m =>
    if (s.blk a).isSome then .error .illFormed
    else if (s.mx m).owner ≠ some a then .error .assertNotOwner
    else .ok ((s.release m).1, (s.release m).2 ++ [(a, .unit)])
  | .wait a c m timed =>
    if (s.blk a).isSome then .error .illFormed
    else if (s.mx m).owner ≠ some a then .error .assertNotOwner
    else
      let r := s.release m
      .ok ({ r.1 with cv := upd r.1.cv c (r.1.cv c ++ [{ issuer := a, mutex := m, timed := timed }]),
                      blk := upd r.1.blk a (some (.cv c)) }, r.2)
  | .notifyOne a c =>
    if (s.blk a).isSome then .error .illFormed
    else match s.cv c with
      | [] => .ok (s, [(a, .unit)])
      | x :: rest =>
        let r := ({ s with cv := upd s.cv c rest }).acquire x.issuer x.mutex (.flag false)
        .ok (r.1, r.2 ++ [(a, .unit)])
  | .notifyAll a c =>
    if (s.blk a).isSome then .error .illFormed
    else
      let r := s.wakeList c (s.cv c)
      .ok (r.1, r.2 ++ [(a, .unit)])
  | .timeout a c =>
    match (s.cv c).find? (fun x => x.issuer = a ∧ x.timed) with
    | none => .error .noTimer
    | some x => .ok (({ s with cv := upd s.cv c (eraseW a (s.cv c)) }).acquire a x.mutex (.flag true))

def arun (s : ASt) : List CEv → Except Err (ASt × Outs)
  | [] => .ok (s, [])
  | e :: es =>
    match astep s e with
    | .error err => .error err
    | .ok (s1, o1) =>
      match arun s1 es with
      | .error err => .error err
      | .ok (s2, o2) => .ok (s2, o1 ++ o2)

/-- the mutex a blocked actor is waiting for: the mutex it is queued on, or the mutex of its condition-variable wait -/
def ASt.waitsFor (s : ASt) (b : Aid) : Option Nat :=
  match s.blk b with
  | some (.mx m) => some m
  | some (.cv c) => ((s.cv c).find? (fun x => x.issuer = b)).map (·.mutex)
  | none => none

/-- observable summary of the abstract machine after a history, in the shape of `observe` (C06/Model.lean):
(waiters of c, owner of m, blocked lockers of m, answers) -/
def aobserve (es : List CEv) (c m : Nat) : Option (List Aid × Option Aid × List Aid × Outs) :=
  (arun ASt.init es).toOption.map fun r =>
    ((r.1.cv c).map (·.issuer), (r.1.mx m).owner, (r.1.mx m).queue.map (·.1), r.2)

end SgVerif.C06
